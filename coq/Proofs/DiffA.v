(** Layer A, part 1: regions, chains, compaction and the hunk iterator.
    Facts that hold for every list of unchanged regions forming a monotone chain. *)
From Coq Require Import Lia Arith.
From Verif Require Import Base.Prelude Model.Diff Proofs.DiffBase.

(** * Vectors of positions *)
Definition starts (r : region) : list nat := map fst r.
Definition ends (r : region) : list nat := map snd r.
Definition vle (a b : list nat) : Prop := Forall2 le a b.

Lemma vle_refl a : vle a a.
Proof. induction a; constructor; auto. Qed.
Lemma vle_trans a b c : vle a b -> vle b c -> vle a c.
Proof.
  unfold vle. intros H; revert c; induction H; intros c Hc; inversion Hc; subst.
  - constructor.
  - constructor; [lia|]. now apply IHForall2.
Qed.
Lemma vle_antisym a b : vle a b -> vle b a -> a = b.
Proof. unfold vle. induction 1; intros H2; inversion H2; subst; [reflexivity|]. f_equal; [lia|auto]. Qed.
Lemma vle_length a b : vle a b -> length a = length b.
Proof. apply Forall2_length'. Qed.
Lemma vle_eq a b : a = b -> vle a b.
Proof. intros ->; apply vle_refl. Qed.

Definition rwf (r : region) : Prop := vle (starts r) (ends r).
Definition rle (a b : region) : Prop := vle (ends a) (starts b).

Lemma starts_length r : length (starts r) = length r.
Proof. apply map_length. Qed.
Lemma ends_length r : length (ends r) = length r.
Proof. apply map_length. Qed.

Lemma rle_length a b : rle a b -> length a = length b.
Proof. intros H. apply vle_length in H. now rewrite ends_length, starts_length in H. Qed.

Fixpoint chain_from (prev : region) (l : list region) : Prop :=
  match l with
  | [] => True
  | cur :: t => rle prev cur /\ rwf cur /\ chain_from cur t
  end.

(** A non-empty region list running from [lo] to [hi] on every side. *)
Definition span (lo hi : list nat) (l : list region) : Prop :=
  match l with
  | [] => False
  | u0 :: rest => rwf u0 /\ chain_from u0 rest /\ starts u0 = lo /\ ends (last rest u0) = hi
  end.

Lemma chain_from_app prev a cur b :
  chain_from prev a -> rle (last a prev) cur -> rwf cur -> chain_from cur b ->
  chain_from prev (a ++ cur :: b).
Proof.
  revert prev; induction a as [|x a IH]; intros prev Ha Hl Hc Hb; cbn [app chain_from] in *.
  - auto.
  - destruct Ha as (H1 & H2 & H3). repeat split; auto. apply IH; auto.
    now rewrite last_cons_last in Hl.
Qed.

Lemma chain_from_length prev l : chain_from prev l -> Forall (fun r => length r = length prev) l.
Proof.
  revert prev; induction l as [|x l IH]; intros prev H; constructor.
  - destruct H as (H & _). symmetry. now apply rle_length.
  - destruct H as (H1 & _ & H3). apply rle_length in H1. rewrite H1. now apply IH.
Qed.

Lemma chain_from_last_wf prev l : rwf prev -> chain_from prev l -> rwf (last l prev).
Proof.
  revert prev; induction l as [|x l IH]; intros prev Hp H; [assumption|].
  rewrite last_cons_last. destruct H as (_ & H2 & H3). now apply IH.
Qed.

(** Everything in a chain lies between the start of its first and the end of its last region. *)
Lemma chain_from_bounds prev l :
  rwf prev -> chain_from prev l ->
  Forall (fun r => vle (ends prev) (starts r) /\ vle (ends r) (ends (last l prev))) l
  /\ vle (ends prev) (ends (last l prev)).
Proof.
  revert prev; induction l as [|x l IH]; intros prev Hp H.
  - split; [constructor|apply vle_refl].
  - destruct H as (H1 & H2 & H3). destruct (IH x H2 H3) as (IHa & IHb).
    rewrite last_cons_last.
    assert (Hpx : vle (ends prev) (ends x)) by (eapply vle_trans; [exact H1|exact H2]).
    split; [|eapply vle_trans; eauto].
    constructor; [split; auto|].
    eapply Forall_impl; [|exact IHa]. cbn beta. intros r (Ha & Hb). split; auto.
    eapply vle_trans; eauto.
Qed.

(** * adjacency and merging *)
Lemma adjb_true_iff p c : length p = length c -> (adjb p c = true <-> ends p = starts c).
Proof.
  revert c; induction p as [|a p IH]; intros [|b c] H; try discriminate H.
  - cbn. tauto.
  - change (ends (a :: p)) with (snd a :: ends p). change (starts (b :: c)) with (fst b :: starts c).
    unfold adjb in *. cbn [combine forallb fst snd].
    rewrite Bool.andb_true_iff, Nat.eqb_eq, (IH c) by (cbn in H; lia).
    split; [intros (-> & ->); reflexivity|intros E; injection E; auto].
Qed.

Lemma adjb_starts_ext p c c' : starts c = starts c' -> adjb p c = adjb p c'.
Proof.
  revert c c'; induction p as [|a p IH]; intros [|b c] [|b' c'] H; cbn in *; try discriminate; auto.
  injection H as H1 H2. unfold adjb in *. cbn [combine forallb fst snd]. rewrite H1. f_equal. now apply IH.
Qed.

Lemma adjb_ends_ext p p' c : ends p = ends p' -> adjb p c = adjb p' c.
Proof.
  revert p' c; induction p as [|a p IH]; intros [|a' p'] [|b c] H; cbn in *; try discriminate; auto.
  injection H as H1 H2. unfold adjb in *. cbn [combine forallb fst snd]. rewrite H1. f_equal. now apply IH.
Qed.

Lemma merge_starts p c : length p = length c -> starts (merge_region p c) = starts p.
Proof.
  intros H. unfold starts, merge_region. rewrite map_map2. cbn [fst]. now apply map2_fst_only.
Qed.
Lemma merge_ends p c : length p = length c -> ends (merge_region p c) = ends c.
Proof.
  intros H. unfold ends, merge_region. rewrite map_map2. cbn [snd]. now apply map2_snd_only.
Qed.
Lemma merge_length p c : length p = length c -> length (merge_region p c) = length p.
Proof. intros H. unfold merge_region. rewrite map2_length. lia. Qed.

Lemma merge_rwf p c : rwf p -> rle p c -> rwf c -> rwf (merge_region p c).
Proof.
  intros Hp Hpc Hc. pose proof (rle_length _ _ Hpc) as L. unfold rwf.
  rewrite merge_starts, merge_ends by assumption.
  eapply vle_trans; [exact Hp|]. eapply vle_trans; [exact Hpc|exact Hc].
Qed.

(** * compaction *)
Fixpoint nonadj_from (prev : region) (l : list region) : Prop :=
  match l with
  | [] => True
  | cur :: t => adjb prev cur = false /\ nonadj_from cur t
  end.

Lemma compact_go_spec l : forall prev,
  rwf prev -> chain_from prev l ->
  exists u0 rest, compact_go prev l = u0 :: rest /\ rwf u0 /\ chain_from u0 rest
    /\ starts u0 = starts prev /\ ends (last rest u0) = ends (last l prev)
    /\ nonadj_from u0 rest.
Proof.
  induction l as [|cur t IH]; intros prev Hp Hc; cbn [compact_go].
  - exists prev, []. cbn. repeat split; auto.
  - destruct Hc as (H1 & H2 & H3). pose proof (rle_length _ _ H1) as L.
    rewrite last_cons_last. destruct (adjb prev cur) eqn:E.
    + assert (Hm : rwf (merge_region prev cur)) by now apply merge_rwf.
      assert (Hc' : chain_from (merge_region prev cur) t).
      { destruct t as [|x t']; [exact I|]. destruct H3 as (A & B & C). repeat split; auto.
        unfold rle. now rewrite merge_ends. }
      destruct (IH _ Hm Hc') as (u0 & rest & Eq & W & C & S & En & NA).
      exists u0, rest. repeat split; auto.
      * now rewrite S, merge_starts.
      * rewrite En. destruct t as [|x t']; [cbn [last]; now apply merge_ends|].
        now rewrite !last_cons_last.
    + destruct (IH _ H2 H3) as (u0 & rest & Eq & W & C & S & En & NA).
      exists prev, (u0 :: rest). rewrite Eq. repeat split; auto.
      * unfold rle. now rewrite S.
      * now rewrite last_cons_last.
      * rewrite <- E. symmetry. now apply adjb_starts_ext.
Qed.

Lemma compact_span lo hi l : span lo hi l -> span lo hi (compact l) /\
  match compact l with [] => False | u0 :: rest => nonadj_from u0 rest end.
Proof.
  destruct l as [|x l]; [intros []|]. intros (W & C & S & E). cbn [compact].
  destruct (compact_go_spec l x W C) as (u0 & rest & Eq & W' & C' & S' & E' & NA).
  rewrite Eq. split; [|exact NA]. cbn [span]. repeat split; auto; congruence.
Qed.

(** A predicate closed under merging adjacent regions survives compaction. *)
Lemma compact_go_Forall (P : region -> Prop) l : forall prev,
  (forall a b, P a -> P b -> adjb a b = true -> P (merge_region a b)) ->
  P prev -> Forall P l -> Forall P (compact_go prev l).
Proof.
  induction l as [|cur t IH]; intros prev Hm Hp Hl; cbn [compact_go].
  - constructor; auto.
  - inversion Hl; subst. destruct (adjb prev cur) eqn:E.
    + apply IH; auto.
    + constructor; auto.
Qed.

Lemma compact_Forall (P : region -> Prop) l :
  (forall a b, P a -> P b -> adjb a b = true -> P (merge_region a b)) ->
  Forall P l -> Forall P (compact l).
Proof.
  intros Hm Hl. destruct l as [|x l]; [constructor|]. inversion Hl; subst.
  now apply compact_go_Forall.
Qed.

(** * Emptiness *)
Definition ne (r : region) : Prop := all_emptyb r = false.

Lemma all_emptyb_true_iff r : all_emptyb r = true <-> starts r = ends r.
Proof.
  induction r as [|[a b] r IH]; [cbn; tauto|].
  change (starts ((a, b) :: r)) with (a :: starts r). change (ends ((a, b) :: r)) with (b :: ends r).
  unfold all_emptyb in *. cbn [forallb fst snd]. rewrite Bool.andb_true_iff, Nat.eqb_eq, IH.
  split; [intros (-> & ->); reflexivity|intros E; injection E; auto].
Qed.

Lemma between_starts p c : length p = length c -> starts (between p c) = ends p.
Proof.
  intros H. unfold starts, between. rewrite map_map2. cbn [fst]. now apply map2_fst_only.
Qed.
Lemma between_ends p c : length p = length c -> ends (between p c) = starts c.
Proof.
  intros H. unfold ends, between. rewrite map_map2. cbn [snd]. now apply map2_snd_only.
Qed.
Lemma between_length p c : length p = length c -> length (between p c) = length p.
Proof. intros H. unfold between. rewrite map2_length. lia. Qed.

Lemma between_empty_iff p c : length p = length c -> all_emptyb (between p c) = adjb p c.
Proof.
  intros H. apply Bool.eq_true_iff_eq. rewrite all_emptyb_true_iff, adjb_true_iff by assumption.
  now rewrite between_starts, between_ends.
Qed.

Lemma ne_merge_l p c : rwf p -> rle p c -> rwf c -> ne p -> ne (merge_region p c).
Proof.
  intros Hp Hpc Hc N. pose proof (rle_length _ _ Hpc) as L. unfold ne in *.
  destruct (all_emptyb (merge_region p c)) eqn:E; [|reflexivity].
  apply all_emptyb_true_iff in E. rewrite merge_starts, merge_ends in E by assumption.
  assert (starts p = ends p).
  { apply vle_antisym; [exact Hp|]. rewrite E. eapply vle_trans; [exact Hpc|exact Hc]. }
  apply all_emptyb_true_iff in H. congruence.
Qed.

Lemma ne_merge_r p c : rwf p -> rle p c -> rwf c -> ne c -> ne (merge_region p c).
Proof.
  intros Hp Hpc Hc N. pose proof (rle_length _ _ Hpc) as L. unfold ne in *.
  destruct (all_emptyb (merge_region p c)) eqn:E; [|reflexivity].
  apply all_emptyb_true_iff in E. rewrite merge_starts, merge_ends in E by assumption.
  assert (starts c = ends c).
  { apply vle_antisym; [exact Hc|]. rewrite <- E. eapply vle_trans; [exact Hp|exact Hpc]. }
  apply all_emptyb_true_iff in H. congruence.
Qed.

(** * Which compaction outputs may be empty: only the first and the last *)
Fixpoint mid_ok (fe : bool) (l : list region) : Prop :=
  match l with
  | [] => True
  | x :: t => match t with
              | [] => True
              | _ => (fe = true \/ ne x) /\ mid_ok false t
              end
  end.

Fixpoint groups_ok (fe : bool) (prev : region) (l : list region) : Prop :=
  match l with
  | [] => True
  | cur :: t => if adjb prev cur then groups_ok fe (merge_region prev cur) t
                else (fe = true \/ ne prev) /\ groups_ok false cur t
  end.

Lemma compact_go_nonempty prev l : compact_go prev l <> [].
Proof.
  revert prev; induction l as [|c t IH]; intros prev; cbn [compact_go]; [discriminate|].
  destruct (adjb prev c); [apply IH|discriminate].
Qed.

Lemma mid_ok_compact_go l : forall fe prev, groups_ok fe prev l -> mid_ok fe (compact_go prev l).
Proof.
  induction l as [|cur t IH]; intros fe prev H; cbn [compact_go groups_ok] in *; [exact I|].
  destruct (adjb prev cur); [now apply IH|].
  destruct H as (H1 & H2). cbn [mid_ok].
  destruct (compact_go cur t) eqn:E; [now apply compact_go_nonempty in E|].
  split; auto. rewrite <- E. now apply IH.
Qed.

(** * The hunk iterator *)
Definition hunk_contents (inputs : list bytes) (h : hunk) : list bytes := contents inputs (snd h).

Fixpoint side_concat (x : bytes) (i : nat) (hs : list hunk) : bytes :=
  match hs with
  | [] => []
  | h :: t => (let rg := nth i (snd h) (0, 0) in slice x (fst rg) (snd rg)) ++ side_concat x i t
  end.

Lemma side_concat_app x i a b : side_concat x i (a ++ b) = side_concat x i a ++ side_concat x i b.
Proof. induction a; cbn [app side_concat]; [reflexivity|]. now rewrite IHa, app_assoc. Qed.

Lemma nth_starts r i : fst (nth i r (0, 0)) = nth i (starts r) 0.
Proof. unfold starts. now rewrite <- (map_nth fst). Qed.
Lemma nth_ends r i : snd (nth i r (0, 0)) = nth i (ends r) 0.
Proof. unfold ends. now rewrite <- (map_nth snd). Qed.

Lemma vle_nth a b i : vle a b -> nth i a 0 <= nth i b 0.
Proof.
  intros H. destruct (Nat.lt_ge_cases i (length a)) as [L|L].
  - now apply Forall2_nth.
  - rewrite !nth_overflow; auto. now rewrite <- (vle_length _ _ H).
Qed.

Lemma side_concat_hunks_from x i : forall l prev,
  rwf prev -> chain_from prev l ->
  side_concat x i (hunks_from prev l)
  = slice x (nth i (ends prev) 0) (nth i (ends (last l prev)) 0).
Proof.
  induction l as [|cur t IH]; intros prev Hp Hc; cbn [hunks_from side_concat].
  - cbn [last]. now rewrite slice_same.
  - destruct Hc as (H1 & H2 & H3). pose proof (rle_length _ _ H1) as L.
    rewrite last_cons_last. cbn [snd].
    rewrite side_concat_app, IH by assumption.
    rewrite nth_starts, nth_ends, between_starts, between_ends by assumption.
    pose proof (vle_nth _ _ i H1) as A. pose proof (vle_nth _ _ i H2) as B.
    destruct (chain_from_bounds cur t H2 H3) as (_ & C). apply (vle_nth _ _ i) in C.
    destruct (all_emptyb cur) eqn:E.
    + apply all_emptyb_true_iff in E. cbn [side_concat app].
      rewrite <- E in *. apply slice_app; lia.
    + cbn [side_concat snd]. rewrite nth_starts, nth_ends, app_nil_r.
      rewrite slice_app by lia. apply slice_app; lia.
Qed.

(** C03_partition, on regions: a chain spanning [0 .. length] on every side. *)
Lemma side_concat_hunks inputs l :
  span (map (fun _ => 0) inputs) (map (@length N) inputs) l ->
  forall i, i < length inputs ->
  side_concat (nth i inputs []) i (hunks l) = nth i inputs [].
Proof.
  destruct l as [|u0 rest]; [intros []|]. intros (W & C & S & E) i Hi. cbn [hunks].
  rewrite side_concat_app, side_concat_hunks_from, E by assumption.
  assert (Z : nth i (starts u0) 0 = 0).
  { rewrite S. clear. revert i; induction inputs; intros [|i]; cbn; auto. }
  assert (Ln : nth i (map (@length N) inputs) 0 = length (nth i inputs [])).
  { change 0 with (length (@nil N)) at 1. now rewrite map_nth. }
  pose proof (vle_nth _ _ i W) as A.
  destruct (chain_from_bounds u0 rest W C) as (_ & B). apply (vle_nth _ _ i) in B. rewrite E in B.
  rewrite Ln in B |- *. set (x := nth i inputs []) in *.
  transitivity (slice x 0 (length x)); [|apply slice_all].
  destruct (all_emptyb u0) eqn:Em.
  - apply all_emptyb_true_iff in Em. cbn [side_concat app]. rewrite <- Em, Z. reflexivity.
  - cbn [side_concat snd]. rewrite nth_starts, nth_ends, app_nil_r, Z. apply slice_app; lia.
Qed.

(** C03_no_empty_hunk, on regions. *)
Lemma hunks_from_nonempty : forall l prev,
  chain_from prev l -> nonadj_from prev l ->
  Forall (fun h => all_emptyb (snd h) = false) (hunks_from prev l).
Proof.
  induction l as [|cur t IH]; intros prev Hc Hn; cbn [hunks_from]; [constructor|].
  destruct Hc as (H1 & H2 & H3). destruct Hn as (N1 & N2). pose proof (rle_length _ _ H1) as L.
  constructor; [cbn [snd]; now rewrite between_empty_iff|].
  apply Forall_app. split; [|now apply IH].
  destruct (all_emptyb cur) eqn:E; constructor; auto.
Qed.

Lemma hunks_nonempty l :
  match l with [] => True | u0 :: rest => chain_from u0 rest /\ nonadj_from u0 rest end ->
  Forall (fun h => all_emptyb (snd h) = false) (hunks l).
Proof.
  destruct l as [|u0 rest]; [constructor|]. intros (C & N). cbn [hunks].
  apply Forall_app. split; [|now apply hunks_from_nonempty].
  destruct (all_emptyb u0) eqn:E; constructor; auto.
Qed.

(** C03_alternate, on regions. *)
Fixpoint alternate (hs : list hunk) : Prop :=
  match hs with
  | h1 :: t => match t with
               | h2 :: _ => fst h1 <> fst h2 /\ alternate t
               | [] => True
               end
  | [] => True
  end.

Lemma hunks_from_alternate : forall l prev,
  mid_ok false l ->
  alternate (hunks_from prev l)
  /\ match hunks_from prev l with [] => True | h :: _ => fst h = false end.
Proof.
  induction l as [|cur t IH]; intros prev Hm; cbn [hunks_from]; [split; exact I|].
  split; [|reflexivity].
  destruct t as [|c2 t2].
  - cbn [hunks_from]. destruct (all_emptyb cur); cbn; auto.
  - cbn [mid_ok] in Hm. destruct Hm as ([Hm1|Hm1] & Hm2); [discriminate|].
    unfold ne in Hm1. rewrite Hm1.
    destruct (IH cur Hm2) as (A & B). cbn [app].
    remember (hunks_from cur (c2 :: t2)) as X. destruct X as [|h X].
    + cbn. split; [discriminate|exact I].
    + cbn [alternate fst] in *. rewrite B in *. repeat split; try discriminate. exact A.
Qed.

Lemma hunks_alternate l : mid_ok true l -> alternate (hunks l).
Proof.
  destruct l as [|u0 rest]; [intros _; exact I|]. intros Hm. cbn [hunks].
  assert (Hr : mid_ok false rest).
  { destruct rest as [|c t]; [exact I|]. cbn [mid_ok] in Hm. tauto. }
  destruct (hunks_from_alternate rest u0 Hr) as (A & B).
  destruct (all_emptyb u0); cbn [app]; [exact A|].
  destruct (hunks_from u0 rest) as [|h X]; [cbn; auto|].
  change (fst (true, u0) <> fst h /\ alternate (h :: X)). split; [rewrite B; discriminate|exact A].
Qed.

(** Every hunk's ranges are well-formed and lie inside the chain. *)
Lemma hunks_from_bounded : forall l prev,
  rwf prev -> chain_from prev l ->
  Forall (fun h => rwf (snd h) /\ vle (ends (snd h)) (ends (last l prev))) (hunks_from prev l).
Proof.
  induction l as [|cur t IH]; intros prev Hp Hc; cbn [hunks_from]; [constructor|].
  destruct Hc as (H1 & H2 & H3). pose proof (rle_length _ _ H1) as L. rewrite last_cons_last.
  destruct (chain_from_bounds cur t H2 H3) as (_ & B).
  constructor; [|apply Forall_app; split].
  - cbn [snd]. unfold rwf. rewrite between_starts, between_ends by assumption. split; [exact H1|].
    eapply vle_trans; [exact H2|exact B].
  - destruct (all_emptyb cur); constructor; [|constructor]. cbn [snd]. split; assumption.
  - now apply IH.
Qed.

Lemma hunks_bounded l hi lo :
  span lo hi l -> Forall (fun h => rwf (snd h) /\ vle (ends (snd h)) hi) (hunks l).
Proof.
  destruct l as [|u0 rest]; [intros []|]. intros (W & C & S & E). cbn [hunks]. subst hi.
  destruct (chain_from_bounds u0 rest W C) as (_ & B).
  apply Forall_app. split.
  - destruct (all_emptyb u0); constructor; [|constructor]. cbn [snd]. split; assumption.
  - now apply hunks_from_bounded.
Qed.

Lemma contents_nonempty : forall inputs r,
  length r = length inputs -> rwf r -> vle (ends r) (map (@length N) inputs) ->
  all_emptyb r = false -> exists x, In x (contents inputs r) /\ x <> [].
Proof.
  unfold rwf, vle, starts, ends, contents, all_emptyb.
  induction inputs as [|x inputs IH]; intros [|p r] L W B E; cbn [map map2 forallb length] in *;
    try discriminate.
  inversion W; subst. inversion B; subst.
  destruct (fst p =? snd p) eqn:Q.
  - cbn [andb] in E. destruct (IH r) as (y & Hy & Ny); auto. exists y. split; [now right|assumption].
  - apply Nat.eqb_neq in Q. exists (slice x (fst p) (snd p)). split; [now left|].
    intros Z. apply (f_equal (@length N)) in Z. rewrite slice_length in Z by lia. cbn in Z. lia.
Qed.
