(** C39 proofs: the reference graph walk emits edges that mean what the log says, and ancestry
    among shown commits is exactly reachability through the emitted non-missing edges. *)
From Verif Require Import Base.Prelude Base.DagI Model.C39.
From Coq Require Import Lia Arith.
Local Open Scope nat_scope.

Section Walk.
  Variable g : graph.
  Hypothesis W : wf g.
  Variable shown : list nat.
  Variable skip : bool.
  Notation t := (ancsets g).
  Notation n := (length g).
  Notation S x := (In x shown).
  Notation tbl := (ext_tbl g t shown skip).

  Lemma is_shown_spec x : is_shown shown x = true <-> S x.
  Proof. apply memn_spec. Qed.
  Lemma is_shown_false x : is_shown shown x = false <-> ~ S x.
  Proof. apply memn_false. Qed.

  (** * the table entry of a position is computed from its parents' entries *)
  Lemma fold_left_ext_in {A B} (f f' : A -> B -> A) l : forall a,
    (forall a b, In b l -> f a b = f' a b) -> fold_left f l a = fold_left f' l a.
  Proof.
    induction l as [|b l IH]; intros a H; simpl; [reflexivity|].
    rewrite H by now left. apply IH. intros a' b' Hb. apply H. now right.
  Qed.

  Lemma parent_edges_ext kind tb tb' p :
    nth p tb [] = nth p tb' [] -> parent_edges shown kind tb p = parent_edges shown kind tb' p.
  Proof. intros E. unfold parent_edges. now rewrite E. Qed.

  Lemma edges_of_ext (tt : list N) kind tb tb' ps :
    (forall p, In p ps -> nth p tb [] = nth p tb' []) ->
    edges_of tt shown skip kind tb ps = edges_of tt shown skip kind tb' ps.
  Proof.
    intros H. unfold edges_of. destruct ps as [|p [|q ps]].
    - reflexivity.
    - apply parent_edges_ext, H. now left.
    - set (l := p :: q :: ps) in *.
      assert (E : forall st, fold_left (fun (st : list nat * list edge) p0 =>
          let '(known, acc) := st in
          if is_shown shown p0 then (known, acc ++ [(p0, kind)])
          else let pe := nth p0 tb [] in
               if forallb is_missing pe then (known, acc ++ [(p0, Missing)])
               else let '(k', kept) := extend_known known pe in (k', acc ++ kept)) l st =
        fold_left (fun (st : list nat * list edge) p0 =>
          let '(known, acc) := st in
          if is_shown shown p0 then (known, acc ++ [(p0, kind)])
          else let pe := nth p0 tb' [] in
               if forallb is_missing pe then (known, acc ++ [(p0, Missing)])
               else let '(k', kept) := extend_known known pe in (k', acc ++ kept)) l st).
      { intros st. apply fold_left_ext_in. intros [known acc] p0 Hp0. now rewrite (H p0 Hp0). }
      now rewrite E.
  Qed.

  Lemma ext_tbl_snoc (h : graph) ps tt :
    ext_tbl (h ++ [ps]) tt shown skip =
    ext_tbl h tt shown skip ++ [edges_of tt shown skip Indirect (ext_tbl h tt shown skip) ps].
  Proof. unfold ext_tbl. now rewrite fold_left_app. Qed.

  Lemma ext_tbl_length (h : graph) tt : length (ext_tbl h tt shown skip) = length h.
  Proof.
    induction h as [|ps h IH] using rev_ind; [reflexivity|].
    rewrite ext_tbl_snoc, !app_length, IH. reflexivity.
  Qed.

  Lemma ext_tbl_nth_gen (h : graph) tt : wf h -> forall e, e < length h ->
    nth e (ext_tbl h tt shown skip) [] =
    edges_of tt shown skip Indirect (ext_tbl h tt shown skip) (parents h e).
  Proof.
    induction h as [|ps h IH] using rev_ind; intros Wh e Le; [simpl in Le; lia|].
    apply wf_snoc in Wh. destruct Wh as [Wh Hps]. rewrite ext_tbl_snoc.
    rewrite app_length in Le. simpl in Le.
    destruct (Nat.eq_dec e (length h)) as [->|N].
    - rewrite app_nth2 by (rewrite ext_tbl_length; lia).
      rewrite ext_tbl_length, Nat.sub_diag. simpl nth at 1. rewrite parents_app_new.
      apply edges_of_ext. intros p Hp. apply Hps in Hp.
      rewrite app_nth1; [reflexivity|]. now rewrite ext_tbl_length.
    - assert (Le' : e < length h) by lia.
      rewrite app_nth1 by (now rewrite ext_tbl_length).
      rewrite parents_app_old by assumption. rewrite (IH Wh e Le').
      apply edges_of_ext. intros p Hp. apply Wh in Hp.
      rewrite app_nth1; [reflexivity|]. rewrite ext_tbl_length. lia.
  Qed.

  Lemma ext_tbl_nth e : e < n -> nth e tbl [] = edges_of t shown skip Indirect tbl (parents g e).
  Proof. now apply ext_tbl_nth_gen. Qed.

  Lemma ext_tbl_out e : n <= e -> nth e tbl [] = [].
  Proof. intros L. apply nth_overflow. now rewrite ext_tbl_length. Qed.

  (** * what edges mean *)
  (** [vreach p a]: [a] is reached from [p] by a parent step followed by parent steps out of
      unshown commits only *)
  Inductive vreach (p : nat) : nat -> Prop :=
  | vr_parent a : In a (parents g p) -> vreach p a
  | vr_step q a : vreach p q -> ~ S q -> In a (parents g q) -> vreach p a.
  Definition ureach (v a : nat) : Prop :=
    In a (parents g v) \/ exists p, In p (parents g v) /\ ~ S p /\ vreach p a.
  Definition noshown (a : nat) : Prop := forall y, S y -> ~ anc g y a.

  Lemma vreach_sanc p a : vreach p a -> sanc g a p.
  Proof.
    induction 1 as [a Ha|q a Hq IH Nq Ha].
    - split; [now apply anc_parent|]. apply W in Ha. lia.
    - eapply anc_sanc_trans; [assumption|apply anc_parent; eassumption|assumption].
  Qed.

  Lemma vreach_prepend p q a : In q (parents g p) -> ~ S q -> vreach q a -> vreach p a.
  Proof.
    intros Hq Nq H. induction H as [a Ha|q' a Hq' IH Nq' Ha].
    - eapply vr_step; [apply vr_parent; eassumption|assumption|assumption].
    - eapply vr_step; eassumption.
  Qed.

  Lemma ureach_vreach p a : ureach p a -> vreach p a.
  Proof.
    intros [H|(q & Hq & Nq & H)]; [now apply vr_parent|]. eapply vreach_prepend; eassumption.
  Qed.

  Definition esound (kind : ekind) (v : nat) (e : edge) : Prop :=
    (snd e = kind /\ S (fst e) /\ In (fst e) (parents g v)) \/
    (snd e = Indirect /\ S (fst e) /\
       exists p, In p (parents g v) /\ ~ S p /\ vreach p (fst e)) \/
    (snd e = Missing /\ ~ S (fst e) /\ ureach v (fst e) /\ noshown (fst e)).
  Definition ecover (v : nat) (es : list edge) : Prop :=
    forall y, S y -> sanc g y v -> exists e, In e es /\ snd e <> Missing /\ anc g y (fst e).
  Definition entry_ok (p : nat) (es : list edge) : Prop :=
    (forall e, In e es -> esound Indirect p e) /\ ecover p es.

  Lemma esound_anc kind v e : esound kind v e -> sanc g (fst e) v.
  Proof.
    intros [(_ & _ & H)|[(_ & _ & p & Hp & _ & H)|(_ & _ & H & _)]].
    - split; [now apply anc_parent|]. apply W in H. lia.
    - apply vreach_sanc in H. eapply sanc_anc_trans; [assumption|eassumption|now apply anc_parent].
    - apply ureach_vreach, vreach_sanc in H. exact H.
  Qed.

  Lemma esound_shown kind v e : kind <> Missing -> esound kind v e -> (snd e <> Missing <-> S (fst e)).
  Proof.
    intros Nk [(E & H & _)|[(E & H & _)|(E & H & _)]]; rewrite E; split; intros; try tauto; try congruence.
  Qed.

  Lemma lift_sound kind v p e :
    In p (parents g v) -> ~ S p -> esound Indirect p e -> esound kind v e.
  Proof.
    intros Hp Np [(E & Sa & Ha)|[(E & Sa & q & Hq & Nq & Hv)|(E & Na & Hu & Hn)]].
    - right. left. split; [assumption|]. split; [assumption|]. exists p.
      split; [assumption|]. split; [assumption|]. now apply vr_parent.
    - right. left. split; [assumption|]. split; [assumption|]. exists p.
      split; [assumption|]. split; [assumption|]. eapply vreach_prepend; eassumption.
    - right. right. split; [assumption|]. split; [assumption|]. split; [|assumption].
      right. exists p. split; [assumption|]. split; [assumption|]. now apply ureach_vreach.
  Qed.

  Lemma forallb_missing_spec es : forallb is_missing es = true <-> forall e, In e es -> snd e = Missing.
  Proof.
    rewrite forallb_forall. unfold is_missing. split; intros H e He; specialize (H e He).
    - destruct (snd e); simpl in H; congruence.
    - now rewrite H.
  Qed.

  Lemma parent_edges_ok kind v p tb :
    kind <> Missing -> In p (parents g v) -> (~ S p -> entry_ok p (nth p tb [])) ->
    (forall e, In e (parent_edges shown kind tb p) -> esound kind v e) /\
    (forall y, S y -> anc g y p ->
       exists e, In e (parent_edges shown kind tb p) /\ snd e <> Missing /\ anc g y (fst e)).
  Proof.
    intros Nk Hp He. unfold parent_edges. destruct (is_shown shown p) eqn:Es.
    - apply is_shown_spec in Es. split.
      + intros e [<-|[]]. left. simpl. tauto.
      + intros y Sy Ha. exists (p, kind). simpl. tauto.
    - apply is_shown_false in Es. destruct (He Es) as [Hs Hc].
      destruct (forallb is_missing (nth p tb [])) eqn:Em.
      + pose proof (proj1 (forallb_missing_spec _) Em) as Hm.
        assert (Hn : noshown p).
        { intros y Sy Ha. assert (Sp : sanc g y p) by (split; [assumption|intros ->; contradiction]).
          destruct (Hc y Sy Sp) as (e & Hin & Nm & _). apply Nm. now apply Hm. }
        split.
        * intros e [<-|[]]. right. right. simpl. split; [reflexivity|]. split; [assumption|].
          split; [now left|assumption].
        * intros y Sy Ha. exfalso. exact (Hn y Sy Ha).
      + split.
        * intros e Hin. eapply lift_sound; [eassumption|assumption|now apply Hs].
        * intros y Sy Ha. apply Hc; [assumption|]. split; [assumption|intros ->; contradiction].
  Qed.

  (** the multi-parent fold *)
  Definition mstep (kind : ekind) (tb : list (list edge)) (st : list nat * list edge) (p : nat) :=
    let '(known, acc) := st in
    if is_shown shown p then (known, acc ++ [(p, kind)])
    else let pe := nth p tb [] in
         if forallb is_missing pe then (known, acc ++ [(p, Missing)])
         else let '(k', kept) := extend_known known pe in (k', acc ++ kept).

  Lemma extend_known_spec es : forall known,
    let r := extend_known known es in
    (forall e, In e (snd r) -> In e es) /\
    (forall e, In e es -> In (fst e) known \/ exists e', In e' (snd r) /\ fst e' = fst e) /\
    (forall a, In a (fst r) -> In a known \/ exists e', In e' (snd r) /\ fst e' = a).
  Proof.
    induction es as [|e es IH]; intros known; simpl.
    - split; [intros e []|]. split; [intros e []|]. intros a Ha. now left.
    - destruct (memn (fst e) known) eqn:M.
      + destruct (IH known) as (H1 & H2 & H3). split; [|split].
        * intros e' He'. right. now apply H1.
        * intros e' [<-|He']; [left; now apply memn_spec|now apply H2].
        * assumption.
      + destruct (IH (fst e :: known)) as (H1 & H2 & H3).
        destruct (extend_known (fst e :: known) es) as [k' kept] eqn:Ek. simpl in *.
        split; [|split].
        * intros e' [<-|He']; [now left|right; now apply H1].
        * intros e' [<-|He'].
          -- right. exists e. split; [now left|reflexivity].
          -- destruct (H2 e' He') as [[E|Hk]|(e'' & He'' & E)].
             ++ right. exists e. split; [now left|assumption].
             ++ now left.
             ++ right. exists e''. split; [now right|assumption].
        * intros a Ha. destruct (H3 a Ha) as [[E|Hk]|(e'' & He'' & E)].
          -- right. exists e. split; [now left|assumption].
          -- now left.
          -- right. exists e''. split; [now right|assumption].
  Qed.

  Definition known_ok (known : list nat) (acc : list edge) : Prop :=
    forall a, In a known -> exists e, In e acc /\ fst e = a.

  Lemma mfold_spec kind tb : forall ps known acc,
    known_ok known acc ->
    let r := fold_left (mstep kind tb) ps (known, acc) in
    (forall e, In e (snd r) -> In e acc \/ exists p, In p ps /\ In e (parent_edges shown kind tb p)) /\
    (forall e, In e acc -> In e (snd r)) /\
    (forall p e, In p ps -> In e (parent_edges shown kind tb p) ->
       exists e', In e' (snd r) /\ fst e' = fst e) /\
    known_ok (fst r) (snd r).
  Proof.
    induction ps as [|p ps IH]; intros known acc K.
    - simpl. split; [intros e He; now left|]. split; [tauto|]. split; [intros p e []|assumption].
    - cbn [fold_left]. set (st' := mstep kind tb (known, acc) p).
      assert (X : (forall e, In e (snd st') -> In e acc \/ In e (parent_edges shown kind tb p)) /\
                  (forall e, In e acc -> In e (snd st')) /\
                  (forall e, In e (parent_edges shown kind tb p) ->
                     exists e', In e' (snd st') /\ fst e' = fst e) /\
                  known_ok (fst st') (snd st')).
      { unfold st', mstep, parent_edges. destruct (is_shown shown p).
        - simpl. split; [intros e He; apply in_app_or in He; tauto|].
          split; [intros e He; apply in_or_app; tauto|].
          split; [intros e [<-|[]]; exists (p, kind); split; [apply in_or_app; right; now left|reflexivity]|].
          intros a Ha. destruct (K a Ha) as (e & He & E). exists e. split; [apply in_or_app; now left|assumption].
        - destruct (forallb is_missing (nth p tb [])).
          + simpl. split; [intros e He; apply in_app_or in He; tauto|].
            split; [intros e He; apply in_or_app; tauto|].
            split; [intros e [<-|[]]; exists (p, Missing); split; [apply in_or_app; right; now left|reflexivity]|].
            intros a Ha. destruct (K a Ha) as (e & He & E). exists e. split; [apply in_or_app; now left|assumption].
          + pose proof (extend_known_spec (nth p tb []) known) as (H1 & H2 & H3).
            destruct (extend_known known (nth p tb [])) as [k' kept]. simpl in *.
            split; [intros e He; apply in_app_or in He; destruct He; [now left|right; now apply H1]|].
            split; [intros e He; apply in_or_app; tauto|]. split.
            * intros e He. destruct (H2 e He) as [Hk|(e' & He' & E)].
              -- destruct (K _ Hk) as (e' & He' & E). exists e'. split; [apply in_or_app; now left|assumption].
              -- exists e'. split; [apply in_or_app; now right|assumption].
            * intros a Ha. destruct (H3 a Ha) as [Hk|(e' & He' & E)].
              -- destruct (K _ Hk) as (e' & He' & E). exists e'. split; [apply in_or_app; now left|assumption].
              -- exists e'. split; [apply in_or_app; now right|assumption]. }
      destruct X as (X1 & X2 & X3 & X4). clearbody st'. destruct st' as [known' acc']. simpl in X1, X2, X3, X4.
      destruct (IH known' acc' X4) as (H1 & H2 & H3 & H4). split; [|split; [|split]].
      + intros e He. destruct (H1 e He) as [Ha|(q & Hq & Hin)].
        * destruct (X1 e Ha) as [Ha'|Hp]; [now left|right; exists p; split; [now left|assumption]].
        * right. exists q. split; [now right|assumption].
      + intros e He. apply H2, X2, He.
      + intros q e [<-|Hq] Hin.
        * destruct (X3 e Hin) as (e' & He' & E). exists e'. split; [now apply H2|assumption].
        * eapply H3; eassumption.
      + assumption.
  Qed.

  Lemma remove_transitive_sub es e : In e (remove_transitive t es) -> In e es.
  Proof.
    unfold remove_transitive. destruct (existsb is_indirect es); [|tauto].
    intros H. now apply filter_In in H.
  Qed.

  Lemma is_missing_spec (e : edge) : is_missing e = true <-> snd e = Missing.
  Proof. unfold is_missing. destruct (snd e); simpl; split; congruence. Qed.

  Lemma remove_transitive_cover kind v es :
    (forall e, In e es -> esound kind v e) -> ecover v es -> ecover v (remove_transitive t es).
  Proof.
    intros Hs Hc. unfold remove_transitive. destruct (existsb is_indirect es); [|assumption].
    intros y Sy Hy. destruct (Hc y Sy Hy) as (e & He & Nm & Ha).
    remember (v - fst e) as k eqn:Ek. revert e He Nm Ha Ek.
    induction k as [k IH] using lt_wf_ind. intros e He Nm Ha Ek.
    destruct (existsb (fun e' => negb (is_missing e') && negb (fst e' =? fst e)
                                 && ancb_t t (fst e) (fst e')) es) eqn:Ex.
    - apply existsb_exists in Ex. destruct Ex as (e' & He' & C).
      rewrite !andb_true_iff, !negb_true_iff in C. destruct C as [[C1 C2] C3].
      apply Nat.eqb_neq in C2. apply (ancb_t_spec g W) in C3.
      assert (Nm' : snd e' <> Missing).
      { intros E. apply is_missing_spec in E. congruence. }
      pose proof (esound_anc _ _ _ (Hs e' He')) as S'. apply (sanc_lt _ _ _ W) in S'.
      pose proof (anc_le _ _ _ W C3).
      apply (IH (v - fst e')) with (e := e'); try assumption; try reflexivity.
      + pose proof (esound_anc _ _ _ (Hs e He)) as S0. apply (sanc_lt _ _ _ W) in S0. lia.
      + eapply anc_trans; eassumption.
    - exists e. split; [|split; assumption]. apply filter_In. split; [assumption|].
      rewrite Ex. apply orb_true_r.
  Qed.

  Lemma edges_of_ok kind v tb :
    kind <> Missing -> (forall p, In p (parents g v) -> ~ S p -> entry_ok p (nth p tb [])) ->
    (forall e, In e (edges_of t shown skip kind tb (parents g v)) -> esound kind v e) /\
    ecover v (edges_of t shown skip kind tb (parents g v)).
  Proof.
    intros Nk He.
    assert (Hmulti : forall ps, ps = parents g v ->
      let es := snd (fold_left (mstep kind tb) ps ([], [])) in
      (forall e, In e es -> esound kind v e) /\ ecover v es).
    { intros ps Eps es.
      destruct (mfold_spec kind tb ps [] []) as (H1 & _ & H3 & _); [intros a []|].
      fold es in H1, H3.
      assert (Hsound : forall e, In e es -> esound kind v e).
      { intros e Hin. destruct (H1 e Hin) as [[]|(p & Hp & Hpe)]. rewrite Eps in Hp.
        destruct (parent_edges_ok kind v p tb Nk Hp (He p Hp)) as [Hs _]. now apply Hs. }
      split; [assumption|]. intros y Sy Hy. destruct (sanc_inv _ _ _ Hy) as (p & Hp & Hyp).
      destruct (parent_edges_ok kind v p tb Nk Hp (He p Hp)) as [Hs Hc].
      destruct (Hc y Sy Hyp) as (e & Hin & Nm & Ha). rewrite <- Eps in Hp.
      destruct (H3 p e Hp Hin) as (e' & He' & E). exists e'. split; [assumption|].
      rewrite E. split; [|assumption].
      apply (esound_shown kind v e' Nk (Hsound e' He')). rewrite E.
      apply (esound_shown kind v e Nk (Hs e Hin)). assumption. }
    assert (Hgen : forall ps0, ps0 = parents g v ->
      (forall e, In e (edges_of t shown skip kind tb ps0) -> esound kind v e) /\
      ecover v (edges_of t shown skip kind tb ps0)); [|now apply Hgen].
    intros ps0 Eps. unfold edges_of. destruct ps0 as [|p [|q ps]].
    - destruct (Hmulti [] Eps) as [H1 H2]. simpl in *.
      destruct skip; [|split; assumption]. split; [intros e []|].
      intros y Sy Hy. destruct (sanc_inv _ _ _ Hy) as (p & Hp & _). rewrite <- Eps in Hp. contradiction.
    - assert (Hp : In p (parents g v)) by (rewrite <- Eps; now left).
      destruct (parent_edges_ok kind v p tb Nk Hp (He p Hp)) as [Hs Hc].
      split; [assumption|]. intros y Sy Hy. destruct (sanc_inv _ _ _ Hy) as (p' & Hp' & Hyp).
      rewrite <- Eps in Hp'. destruct Hp' as [<-|[]]. now apply Hc.
    - destruct (Hmulti (p :: q :: ps) Eps) as [H1 H2].
      change (fold_left _ (p :: q :: ps) ([], [])) with (fold_left (mstep kind tb) (p :: q :: ps) ([], [])).
      destruct skip; [|split; assumption]. split.
      + intros e Hin. apply H1. now apply remove_transitive_sub.
      + now apply (remove_transitive_cover kind v).
  Qed.

  (** every table entry is sound and covering *)
  Lemma table_ok : forall e, entry_ok e (nth e tbl []).
  Proof.
    intros e. induction e as [e IH] using lt_wf_ind.
    destruct (Nat.lt_ge_cases e n) as [L|L].
    - rewrite ext_tbl_nth by assumption.
      destruct (edges_of_ok Indirect e tbl) as [H1 H2]; [discriminate| |split; assumption].
      intros p Hp _. apply IH. now apply W in Hp.
    - rewrite ext_tbl_out by assumption. split; [intros x []|].
      intros y Sy Hy. destruct (sanc_inv _ _ _ Hy) as (p & Hp & _).
      rewrite parents_out in Hp by assumption. contradiction.
  Qed.

  Lemma node_edges_ok x :
    (forall e, In e (node_edges g t shown skip x) -> esound Direct x e) /\
    ecover x (node_edges g t shown skip x).
  Proof.
    unfold node_edges. apply edges_of_ok; [discriminate|]. intros p _ _. apply table_ok.
  Qed.

  (** * the stream *)
  Theorem direct_is_parent x a : In (a, Direct) (node_edges g t shown skip x) ->
    In a (parents g x) /\ S a.
  Proof.
    intros H. destruct (node_edges_ok x) as [Hs _].
    destruct (Hs _ H) as [(_ & Sa & Hp)|[(E & _)|(E & _)]]; simpl in *; try discriminate. tauto.
  Qed.

  Theorem indirect_via_unshown x a : In (a, Indirect) (node_edges g t shown skip x) ->
    S a /\ exists p, In p (parents g x) /\ ~ S p /\ vreach p a.
  Proof.
    intros H. destruct (node_edges_ok x) as [Hs _].
    destruct (Hs _ H) as [(E & _)|[(_ & Sa & Hp)|(E & _)]]; simpl in *; try discriminate. tauto.
  Qed.

  Theorem missing_outside x a : In (a, Missing) (node_edges g t shown skip x) ->
    ~ S a /\ ureach x a /\ noshown a.
  Proof.
    intros H. destruct (node_edges_ok x) as [Hs _].
    destruct (Hs _ H) as [(E & _)|[(E & _)|(_ & Hn)]]; simpl in *; try discriminate. tauto.
  Qed.

  Inductive reach : nat -> nat -> Prop :=
  | reach_refl x : reach x x
  | reach_step x e y : In e (node_edges g t shown skip x) -> snd e <> Missing ->
                       reach (fst e) y -> reach x y.

  Theorem ancestry_implied x y : S x -> S y -> (anc g y x <-> reach x y).
  Proof.
    intros Sx Sy. split.
    - revert Sx. induction x as [x IH] using lt_wf_ind. intros Sx Ha.
      destruct (Nat.eq_dec y x) as [->|N]; [constructor|].
      destruct (node_edges_ok x) as [Hs Hc].
      destruct (Hc y Sy (conj Ha N)) as (e & He & Nm & Hye).
      eapply reach_step; [eassumption|assumption|]. apply IH.
      + apply (sanc_lt _ _ _ W), (esound_anc Direct x e), Hs, He.
      + apply (esound_shown Direct x e); [discriminate|now apply Hs|assumption].
      + assumption.
    - intros H. clear Sx Sy. induction H as [x|x e y He Nm _ IH]; [constructor|].
      destruct (node_edges_ok x) as [Hs _]. eapply anc_trans; [exact IH|].
      apply (esound_anc Direct x e). now apply Hs.
  Qed.

  Lemma walk_nodes : map fst (graph_walk g t shown skip) = filter (is_shown shown) (rev (seq 0 n)).
  Proof. unfold graph_walk. rewrite map_map. simpl. apply map_id. Qed.
End Walk.

(** * meaning of the checker on a recorded stream *)
Section CheckerSpec.
  Variable g : graph.
  Hypothesis W : wf g.
  Variable shown : list nat.
  Variable stream : list (nat * list edge).
  Notation t := (ancsets g).
  Notation n := (length g).
  Notation Sh x := (In x shown).

  Fixpoint sdesc_p (l : list nat) : Prop :=
    match l with [] => True | x :: r => (forall y, In y r -> y < x) /\ sdesc_p r end.

  Lemma sdescb_spec l : sdescb l = true -> sdesc_p l.
  Proof.
    induction l as [|x r IH]; [intros _; exact I|]. destruct r as [|y r'].
    - intros _. split; [intros y []|exact I].
    - cbn [sdescb]. rewrite andb_true_iff, Nat.ltb_lt. intros [L H]. specialize (IH H).
      split; [|assumption]. intros z [<-|Hz]; [assumption|]. destruct IH as [B _].
      apply B in Hz. lia.
  Qed.

  Lemma shownb_spec x : shownb shown x = true <-> Sh x.
  Proof. apply memn_spec. Qed.

  Lemma unshown_reach_sound p a : In a (unshown_reach g shown p) -> vreach g shown p a.
  Proof.
    unfold unshown_reach.
    assert (H : forall l acc, (forall b, In b acc -> vreach g shown p b) ->
      forall b, In b (fold_left (fun acc y => if memn y acc && negb (shownb shown y)
                                              then parents g y ++ acc else acc) l acc) ->
      vreach g shown p b).
    { induction l as [|y l IH]; intros acc Hacc b Hb; simpl in Hb; [now apply Hacc|].
      apply IH in Hb; [assumption|]. intros c Hc.
      destruct (memn y acc && negb (shownb shown y)) eqn:E; [|now apply Hacc].
      apply andb_true_iff in E. destruct E as [E1 E2]. apply memn_spec in E1.
      apply negb_true_iff in E2. apply in_app_or in Hc. destruct Hc as [Hc|Hc]; [|now apply Hacc].
      eapply vr_step; [apply Hacc; eassumption| |eassumption].
      intros C. apply shownb_spec in C. congruence. }
    apply H. intros b Hb. now apply vr_parent.
  Qed.

  Lemma exists_unshown_parent x a :
    existsb (fun p => negb (shownb shown p) && memn a (unshown_reach g shown p)) (parents g x) = true ->
    exists p, In p (parents g x) /\ ~ Sh p /\ vreach g shown p a.
  Proof.
    intros H. apply existsb_exists in H. destruct H as (p & Hp & E).
    apply andb_true_iff in E. destruct E as [E1 E2]. apply negb_true_iff in E1.
    apply memn_spec in E2. exists p. split; [assumption|]. split.
    - intros C. apply shownb_spec in C. congruence.
    - now apply unshown_reach_sound.
  Qed.

  Lemma edge_ok_sound x e : edge_ok g t shown x e = true -> esound g shown Direct x e.
  Proof.
    destruct e as [a k]. unfold edge_ok, esound. cbn [fst snd]. destruct k.
    - rewrite andb_true_iff, memn_spec, shownb_spec. intros [H1 H2]. left. tauto.
    - rewrite andb_true_iff, shownb_spec. intros [H1 H2]. right. left.
      split; [reflexivity|]. split; [assumption|]. now apply exists_unshown_parent.
    - rewrite !andb_true_iff, !negb_true_iff, orb_true_iff, memn_spec. intros [[H1 H2] H3].
      right. right. split; [reflexivity|]. split.
      + intros C. apply shownb_spec in C. congruence.
      + split.
        * destruct H2 as [H2|H2]; [now left|right]. now apply exists_unshown_parent.
        * intros y Sy Ha. assert (X : existsb (fun y => shownb shown y && ancb_t t y a) (seq 0 (S a)) = true); [|congruence].
          apply existsb_exists. exists y. split.
          -- apply in_seq. pose proof (anc_le _ _ _ W Ha). lia.
          -- apply andb_true_iff. split; [now apply shownb_spec|now apply (ancb_t_spec g W)].
  Qed.

  Lemma edges_at_in x e : In e (edges_at stream x) -> exists es, In (x, es) stream /\ In e es.
  Proof.
    unfold edges_at. destruct (find (fun nd => fst nd =? x) stream) as [[x' es]|] eqn:F; [|intros []].
    apply find_some in F. destruct F as [Hin E]. simpl in E. apply Nat.eqb_eq in E. subst x'.
    intros He. now exists es.
  Qed.

  (** reachability through the recorded non-missing edges *)
  Inductive sreach : nat -> nat -> Prop :=
  | sr_refl x : sreach x x
  | sr_step x e y : In e (edges_at stream x) -> snd e <> Missing -> sreach (fst e) y -> sreach x y.

  Hypothesis edges_sound : forall x es e, In (x, es) stream -> In e es -> esound g shown Direct x e.

  Lemma edge_lt x e : In e (edges_at stream x) -> fst e < x.
  Proof.
    intros H. destruct (edges_at_in x e H) as (es & H1 & H2).
    apply (sanc_lt g _ _ W), (esound_anc g W shown Direct x e). eapply edges_sound; eassumption.
  Qed.

  Lemma sreach_le x y : sreach x y -> y <= x.
  Proof.
    induction 1 as [x|x e y He _ _ IH]; [lia|]. apply edge_lt in He. lia.
  Qed.

  Lemma sreach_anc x y : sreach x y -> anc g y x.
  Proof.
    induction 1 as [x|x e y He _ _ IH]; [constructor|].
    destruct (edges_at_in x e He) as (es & H1 & H2).
    eapply anc_trans; [exact IH|]. apply (esound_anc g W shown Direct x e).
    eapply edges_sound; eassumption.
  Qed.

  Lemma testbit_fold_lor_gen {A} (f : A -> N) l init k :
    N.testbit (fold_left (fun acc e => N.lor acc (f e)) l init) k =
    N.testbit init k || existsb (fun e => N.testbit (f e) k) l.
  Proof.
    revert init. induction l as [|e l IH]; intros init; simpl.
    - now rewrite orb_false_r.
    - rewrite IH, N.lor_spec. now rewrite orb_assoc.
  Qed.

  Definition rt_entry (tb : list N) (x : nat) : N :=
    fold_left (fun acc e => N.lor acc (nth (fst e) tb 0%N))
              (filter (fun e => negb (is_missing e)) (edges_at stream x))
              (N.setbit 0 (N.of_nat x)).
  Definition rt_upto (k : nat) : list N :=
    fold_left (fun tb x => tb ++ [rt_entry tb x]) (seq 0 k) [].

  Lemma rt_upto_S k : rt_upto (S k) = rt_upto k ++ [rt_entry (rt_upto k) k].
  Proof. unfold rt_upto. rewrite seq_S, fold_left_app. reflexivity. Qed.

  Lemma rt_upto_length k : length (rt_upto k) = k.
  Proof.
    induction k as [|k IH]; [reflexivity|]. rewrite rt_upto_S, app_length, IH. simpl. lia.
  Qed.

  Lemma rt_upto_spec k : forall x, x < k -> forall y,
    N.testbit (nth x (rt_upto k) 0%N) (N.of_nat y) = true <-> sreach x y.
  Proof.
    induction k as [|k IH]; intros x Lx y; [lia|]. rewrite rt_upto_S.
    destruct (Nat.eq_dec x k) as [->|N].
    - rewrite app_nth2 by (rewrite rt_upto_length; lia).
      rewrite rt_upto_length, Nat.sub_diag. cbn [nth]. unfold rt_entry.
      rewrite (testbit_fold_lor_gen (fun e => nth (fst e) (rt_upto k) 0%N)).
      rewrite N.setbit_eqb, N.bits_0, orb_false_r, orb_true_iff, existsb_exists. split.
      + intros [E|(e & He & Hb)].
        * apply N.eqb_eq, Nat2N.inj in E. subst y. constructor.
        * apply filter_In in He. destruct He as [He Nm]. apply negb_true_iff in Nm.
          eapply sr_step; [eassumption| |].
          -- intros C. apply is_missing_spec in C. congruence.
          -- apply IH; [now apply edge_lt|assumption].
      + intros H. inversion H as [|x' e y' He Nm Hr]; subst.
        * left. apply N.eqb_refl.
        * right. exists e. split.
          -- apply filter_In. split; [assumption|]. apply negb_true_iff.
             destruct (is_missing e) eqn:E; [|reflexivity]. apply is_missing_spec in E. contradiction.
          -- apply IH; [now apply edge_lt|assumption].
    - assert (Lx' : x < k) by lia. rewrite app_nth1 by (now rewrite rt_upto_length). now apply IH.
  Qed.

  Lemma reach_tbl_eq : reach_tbl g stream = rt_upto n.
  Proof. reflexivity. Qed.

  Lemma ancestry_ok_sound : ancestry_ok g t shown stream = true ->
    forall x y, Sh x -> Sh y -> x < n -> (anc g y x <-> sreach x y).
  Proof.
    unfold ancestry_ok. rewrite reach_tbl_eq, forallb_forall. intros H x y Sx Sy Lx.
    destruct (Nat.le_gt_cases y x) as [L|L].
    - assert (Hx : In x (filter (shownb shown) (seq 0 n))).
      { apply filter_In. split; [apply in_seq; lia|now apply shownb_spec]. }
      specialize (H x Hx). rewrite forallb_forall in H.
      assert (Hy : In y (filter (shownb shown) (seq 0 (S x)))).
      { apply filter_In. split; [apply in_seq; lia|now apply shownb_spec]. }
      specialize (H y Hy). apply eqb_prop in H.
      rewrite <- (rt_upto_spec n x Lx y), <- H. symmetry. apply (ancb_t_spec g W).
    - split; intros C.
      + apply (anc_le _ _ _ W) in C. lia.
      + apply sreach_le in C. lia.
  Qed.
End CheckerSpec.

Definition stream_holds (g : graph) (shown : list nat) (stream : list (nat * list edge)) : Prop :=
  sdesc_p (map fst stream) /\
  (forall x, In x (map fst stream) -> In x shown) /\
  (forall x, In x shown -> x < length g -> In x (map fst stream)) /\
  (forall x es e, In (x, es) stream -> In e es -> esound g shown Direct x e) /\
  (forall x y, In x shown -> In y shown -> x < length g ->
               (anc g y x <-> sreach stream x y)).

Lemma stream_ok_sound g shown stream : wf g ->
  stream_ok g (ancsets g) shown stream = true -> stream_holds g shown stream.
Proof.
  intros W. unfold stream_ok, order_ok. rewrite !andb_true_iff.
  intros [[[[O1 O2] O3] E] A].
  assert (Es : forall x es e, In (x, es) stream -> In e es -> esound g shown Direct x e).
  { intros x es e H1 H2. rewrite forallb_forall in E. specialize (E _ H1).
    rewrite forallb_forall in E. apply (edge_ok_sound g W shown). now apply E. }
  split; [now apply sdescb_spec|]. split; [|split; [|split]].
  - intros x Hx. rewrite forallb_forall in O2. now apply (shownb_spec shown), O2.
  - intros x Sx Lx. rewrite forallb_forall in O3. apply memn_spec, O3, filter_In.
    split; [assumption|now apply Nat.ltb_lt].
  - exact Es.
  - now apply (ancestry_ok_sound g W shown stream Es).
Qed.

(** * statements as pinned in Props/C39.v *)
Lemma order_thm (g : graph) (W : wf g) (shown : list nat) (skip : bool) :
  map fst (graph_walk g (ancsets g) shown skip) = filter (is_shown shown) (rev (seq 0 (length g))) /\
  (forall x y, In x shown -> In y shown -> anc g y x -> y <> x -> y < x).
Proof.
  split; [apply walk_nodes|]. intros x y _ _ Ha N. apply (sanc_lt g _ _ W). now split.
Qed.

Lemma checker_sound_thm (g : graph) (W : wf g) (shown : list nat) : forall stream,
  stream_ok g (ancsets g) shown stream = true -> stream_holds g shown stream.
Proof. intros stream. now apply stream_ok_sound. Qed.

(** * meaning of the adapter checks (TopoGroupedGraph, reverse_graph) *)
Lemma ekind_eqb_spec a b : ekind_eqb a b = true <-> a = b.
Proof. destruct a, b; simpl; split; congruence. Qed.

Lemma edges_eqb_spec (l1 l2 : list edge) :
  list_eqb (fun e e' => (fst e =? fst e') && ekind_eqb (snd e) (snd e')) l1 l2 = true -> l1 = l2.
Proof.
  revert l2. induction l1 as [|[a k] l1 IH]; intros [|[a' k'] l2]; simpl; try discriminate; [reflexivity|].
  rewrite !andb_true_iff, Nat.eqb_eq, ekind_eqb_spec. intros [[-> ->] H]. f_equal. now apply IH.
Qed.

Lemma node_eqb0_spec a b : node_eqb0 a b = true -> a = b.
Proof.
  destruct a as [x es], b as [y fs]. unfold node_eqb0. simpl.
  rewrite andb_true_iff, Nat.eqb_eq. intros [-> H]. f_equal. now apply edges_eqb_spec.
Qed.

(** index of the first occurrence *)
Fixpoint posn (l : list nat) (x : nat) : nat :=
  match l with [] => 0 | y :: r => if y =? x then 0 else S (posn r x) end.

Lemma posn_app_notin l1 l2 x : ~ In x l1 -> posn (l1 ++ l2) x = length l1 + posn l2 x.
Proof.
  induction l1 as [|y l1 IH]; simpl; intros H; [reflexivity|].
  destruct (Nat.eqb_spec y x) as [->|N]; [exfalso; apply H; now left|].
  rewrite IH; [reflexivity|]. intros C. apply H. now right.
Qed.

Lemma posn_here l x : posn (x :: l) x = 0.
Proof. simpl. now rewrite Nat.eqb_refl. Qed.

Lemma order_respects_spec : forall l seen, order_respects_edges seen l = true ->
  forall l1 x es l2, l = l1 ++ (x, es) :: l2 ->
    ~ In x seen /\ ~ In x (map fst l1) /\
    forall e, In e es -> snd e <> Missing -> ~ In (fst e) seen /\ ~ In (fst e) (map fst l1).
Proof.
  induction l as [|[y fs] r IH]; intros seen H l1 x es l2 E.
  - destruct l1; discriminate.
  - simpl in H. rewrite !andb_true_iff, negb_true_iff, forallb_forall in H.
    destruct H as [[H1 H2] H3]. apply memn_false in H1.
    destruct l1 as [|nd l1]; simpl in E.
    + injection E as -> -> ->. split; [assumption|]. split; [intros []|].
      intros e He Nm. specialize (H2 e He). apply orb_true_iff in H2. destruct H2 as [H2|H2].
      * apply is_missing_spec in H2. contradiction.
      * apply negb_true_iff, memn_false in H2. split; [assumption|intros []].
    + injection E as <- E. destruct (IH (y :: seen) H3 l1 x es l2 E) as (A & B & C).
      split; [intros C'; apply A; now right|]. split.
      * simpl. intros [E'|C']; [apply A; left; exact E'|contradiction].
      * intros e He Nm. destruct (C e He Nm) as [C1 C2]. split; [intros C'; apply C1; now right|].
        simpl. intros [E'|C']; [apply C1; left; exact E'|contradiction].
Qed.

Lemma edges_at_nodup (l : stream_t) x es :
  NoDup (map fst l) -> In (x, es) l -> edges_at l x = es.
Proof.
  unfold edges_at. induction l as [|[y fs] r IH]; intros ND Hin; [contradiction|].
  simpl. simpl in ND. inversion ND as [|? ? Hn ND']; subst.
  destruct (Nat.eqb_spec y x) as [->|N].
  - destruct Hin as [E|Hin]; [now injection E|]. exfalso. apply Hn.
    apply in_map_iff. now exists (x, es).
  - destruct Hin as [E|Hin]; [injection E; congruence|]. now apply IH.
Qed.

Section Adapters.
  Variable g : graph.
  Hypothesis W : wf g.
  Variable shown : list nat.
  Variables stream topo : stream_t.
  Hypothesis SH : stream_holds g shown stream.
  Hypothesis TO : topo_ok stream topo = true.

  Lemma sdesc_p_nodup l : sdesc_p l -> NoDup l.
  Proof.
    induction l as [|x r IH]; simpl; [constructor|]. intros [B D]. constructor; [|now apply IH].
    intros C. apply B in C. lia.
  Qed.

  Lemma topo_parts :
    (forall nd, In nd topo -> In nd stream) /\ NoDup (map fst topo) /\
    (forall x, In x (map fst stream) -> In x (map fst topo)).
  Proof.
    unfold topo_ok in TO. rewrite !andb_true_iff, Nat.eqb_eq, forallb_forall in TO.
    destruct TO as [[L Hin] Ho].
    assert (Hsub : forall nd, In nd topo -> In nd stream).
    { intros nd Hnd. specialize (Hin nd Hnd). apply existsb_exists in Hin.
      destruct Hin as (nd' & Hnd' & E). apply node_eqb0_spec in E. now subst. }
    assert (ND : NoDup (map fst topo)).
    { assert (G : forall l seen, order_respects_edges seen l = true -> NoDup (map fst l)).
      { induction l as [|[y fs] r IH]; intros seen H; [constructor|].
        simpl. constructor; [|simpl in H; rewrite !andb_true_iff in H; now apply (IH (y :: seen))].
        intros C. apply in_map_iff in C. destruct C as ([y' fs'] & E & Hy). simpl in E. subst y'.
        destruct (in_split _ _ Hy) as (r1 & r2 & Er).
        pose proof (order_respects_spec ((y, fs) :: r) seen H ((y, fs) :: r1) y fs' r2) as P.
        simpl in P. rewrite Er in P. destruct (P eq_refl) as (_ & P2 & _). apply P2. now left. }
      now apply (G topo []). }
    split; [assumption|]. split; [assumption|].
    apply NoDup_length_incl; [assumption|rewrite !map_length; lia|].
    intros x Hx. apply in_map_iff in Hx. destruct Hx as (nd & <- & Hnd). apply in_map. now apply Hsub.
  Qed.

  Lemma edges_at_stream x es : In (x, es) stream -> edges_at stream x = es.
  Proof.
    destruct SH as (SD & _). apply sdesc_p_nodup in SD. now apply edges_at_nodup.
  Qed.

  (** in the re-ordered stream a shown commit still comes before each of its shown ancestors *)
  Theorem topo_before_ancestors : forall x y, In x shown -> In y shown -> x < length g ->
    anc g y x -> y <> x -> posn (map fst topo) x < posn (map fst topo) y.
  Proof.
    destruct topo_parts as (Hsub & ND & Hall).
    destruct SH as (SD & Hsh & Hnode & Hes & Hanc).
    assert (Step : forall x e, In x (map fst topo) -> In e (edges_at stream x) -> snd e <> Missing ->
              In (fst e) (map fst topo) /\ posn (map fst topo) x < posn (map fst topo) (fst e)).
    { intros x e Hx He Nm. apply in_map_iff in Hx. destruct Hx as ([x' es] & E & Hnd). simpl in E. subst x'.
      pose proof (Hsub _ Hnd) as Hst. rewrite (edges_at_stream x es Hst) in He.
      pose proof (Hes x es e Hst He) as Se.
      assert (Sa : In (fst e) shown) by (apply (esound_shown g shown Direct x e); [discriminate|assumption|assumption]).
      pose proof (esound_anc g W shown Direct x e Se) as Lt. apply (sanc_lt g _ _ W) in Lt.
      assert (Lx : x < length g).
      { destruct (Nat.lt_ge_cases x (length g)) as [L|L]; [assumption|exfalso].
        destruct Se as [(_ & _ & H)|[(_ & _ & p & H & _)|(_ & _ & H & _)]].
        - apply parents_in in H. lia.
        - apply parents_in in H. lia.
        - destruct H as [H|(p & H & _)]; apply parents_in in H; lia. }
      assert (Ha : In (fst e) (map fst topo)) by (apply Hall, Hnode; [assumption|lia]).
      split; [assumption|].
      destruct (in_split _ _ Hnd) as (l1 & l2 & El).
      unfold topo_ok in TO. rewrite !andb_true_iff in TO. destruct TO as [_ Ho].
      destruct (order_respects_spec topo [] Ho l1 x es l2 El) as (_ & Nx & Ne).
      destruct (Ne e He Nm) as [_ Na].
      rewrite El, map_app. simpl. rewrite !posn_app_notin by assumption. rewrite posn_here.
      simpl. destruct (Nat.eqb_spec x (fst e)); [lia|lia]. }
    assert (R : forall x y, sreach stream x y -> In x (map fst topo) -> x <> y ->
                posn (map fst topo) x < posn (map fst topo) y).
    { intros x y H. induction H as [x|x e y He Nm Hr IH]; intros Hx N; [congruence|].
      destruct (Step x e Hx He Nm) as [Ha Lt].
      destruct (Nat.eq_dec (fst e) y) as [<-|N']; [assumption|]. specialize (IH Ha N'). lia. }
    intros x y Sx Sy Lx Ha N. apply R.
    - now apply Hanc.
    - apply Hall, Hnode; assumption.
    - congruence.
  Qed.
End Adapters.

Lemma triple_eqb_spec a b : triple_eqb a b = true <-> a = b.
Proof.
  destruct a as [[a1 a2] ak], b as [[b1 b2] bk]. unfold triple_eqb. simpl.
  rewrite !andb_true_iff, !Nat.eqb_eq, ekind_eqb_spec. split; [intros [[-> ->] ->]; reflexivity|].
  intros E. injection E as -> -> ->. tauto.
Qed.

(** reverse_graph: reversed node order, and an edge x -> y of type k between two nodes of the
    stream becomes exactly an edge y -> x of type k *)
Lemma reverse_ok_sound stream rv : reverse_ok stream rv = true ->
  map fst rv = rev (map fst stream) /\
  forall x y k, (In (x, y, k) (edge_triples stream) /\ In y (map fst stream)) <->
                In (y, x, k) (edge_triples rv).
Proof.
  unfold reverse_ok. rewrite !andb_true_iff, !forallb_forall. intros [[[H1 _] H3] H4].
  split.
  - revert H1. generalize (map fst rv) (rev (map fst stream)). clear.
    induction l as [|a l IH]; intros [|b l']; simpl; try discriminate; [reflexivity|].
    rewrite andb_true_iff, Nat.eqb_eq. intros [-> H]. f_equal. now apply IH.
  - intros x y k. split.
    + intros [Ht Hy].
      assert (Hf : In (x, y, k) (filter (fun tr => memn (snd (fst tr)) (map fst stream)) (edge_triples stream))).
      { apply filter_In. split; [assumption|]. now apply memn_spec. }
      specialize (H3 _ Hf). apply existsb_exists in H3. destruct H3 as (tr & Htr & E).
      apply triple_eqb_spec in E. subst tr. apply in_map_iff in Htr.
      destruct Htr as ([[a b] c] & E & Hin). simpl in E. injection E as -> -> ->. assumption.
    + intros Ht.
      assert (Hb : In (x, y, k) (map (fun tr => (snd (fst tr), fst (fst tr), snd tr)) (edge_triples rv))).
      { apply in_map_iff. exists (y, x, k). split; [reflexivity|assumption]. }
      specialize (H4 _ Hb). apply existsb_exists in H4. destruct H4 as (tr & Htr & E).
      apply triple_eqb_spec in E. subst tr. apply filter_In in Htr. destruct Htr as [Hin Hm].
      split; [assumption|]. now apply memn_spec in Hm.
Qed.

Lemma adapters_thm (g : graph) (W : wf g) (shown : list nat) (stream topo rv : stream_t) :
  stream_holds g shown stream ->
  (topo_ok stream topo = true ->
     (forall nd, In nd topo -> In nd stream) /\ NoDup (map fst topo) /\
     (forall x, In x (map fst stream) -> In x (map fst topo)) /\
     forall x y, In x shown -> In y shown -> x < length g -> anc g y x -> y <> x ->
                 posn (map fst topo) x < posn (map fst topo) y) /\
  (reverse_ok stream rv = true ->
     map fst rv = rev (map fst stream) /\
     forall x y k, (In (x, y, k) (edge_triples stream) /\ In y (map fst stream)) <->
                   In (y, x, k) (edge_triples rv)).
Proof.
  intros SH. split.
  - intros TO. edestruct topo_parts as (A & B & C); [exact TO|].
    split; [assumption|]. split; [assumption|]. split; [assumption|].
    eapply topo_before_ancestors; eassumption.
  - apply reverse_ok_sound.
Qed.

(** prioritize_branch: the first emitted node reaches the prioritized node through recorded
    non-missing edges, i.e. it is that node or one of its descendants *)
Lemma prio_ok_sound (g : graph) (W : wf g) (shown : list nat) (stream out : stream_t) (x : nat) :
  stream_holds g shown stream -> prio_ok g stream out x = true ->
  exists h es rest, out = (h, es) :: rest /\ sreach stream h x /\ anc g x h.
Proof.
  intros (SD & Hsh & Hnode & Hes & Hanc) H. unfold prio_ok in H.
  destruct out as [|[h es] rest]; [discriminate|]. exists h, es, rest. split; [reflexivity|].
  assert (Lh : h < length g).
  { destruct (Nat.lt_ge_cases h (length g)) as [L|L]; [assumption|exfalso].
    rewrite nth_overflow in H; [now rewrite N.bits_0 in H|].
    rewrite reach_tbl_eq, rt_upto_length. exact L. }
  rewrite reach_tbl_eq in H.
  assert (R : sreach stream h x) by (apply (rt_upto_spec g W shown stream Hes (length g) h Lh x); exact H).
  split; [assumption|]. now apply (sreach_anc g W shown stream Hes).
Qed.
