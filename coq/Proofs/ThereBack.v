(** Rebasing away and back restores the tree exactly when the commit's changes and the
    parent change touch disjoint entries (C08_there_and_back); the same lemma restores the
    source of a partial squash and the children of a parallel split (C09). *)
From Verif Require Import Base.Prelude Model.Merge.
From Verif Require Import Proofs.MergeDen Proofs.C01 Proofs.C02 Proofs.TrivialMap Proofs.SimplifyDisjoint.
From Verif Require Import Model.TreeMerge Model.Rebase.
From Verif Require Import Proofs.TreeValue Proofs.TreeMerge Proofs.C07 Proofs.C08.
From Coq Require Import Lia Arith Sorted.

(** * trees sorted by name are determined by their lookups *)
Definition sorted_tree (t : tree) : Prop := StronglySorted N.lt (map fst t).

Lemma lookup_lt_head n (t : tree) :
  Forall (N.lt n) (map fst t) -> lookup n t = None.
Proof.
  induction t as [|e r IH]; intros H; [reflexivity|]. cbn [map] in H. inversion H as [|? ? Hlt Hr]; subst.
  cbn [lookup]. destruct (N.eqb_spec (fst e) n); [lia|]. now apply IH.
Qed.

Lemma sorted_ext (t1 t2 : tree) :
  sorted_tree t1 -> sorted_tree t2 -> (forall n, lookup n t1 = lookup n t2) -> t1 = t2.
Proof.
  unfold sorted_tree. revert t2. induction t1 as [|[n1 v1] r1 IH]; intros t2 S1 S2 H.
  - destruct t2 as [|[n2 v2] r2]; [reflexivity|]. specialize (H n2). cbn [lookup fst snd] in H.
    rewrite N.eqb_refl in H. discriminate.
  - destruct t2 as [|[n2 v2] r2].
    + specialize (H n1). cbn [lookup fst snd] in H. rewrite N.eqb_refl in H. discriminate.
    + cbn [map fst] in S1, S2. inversion S1 as [|? ? S1r F1]; subst. inversion S2 as [|? ? S2r F2]; subst.
      assert (E : n1 = n2).
      { destruct (N.lt_trichotomy n1 n2) as [Hlt|[Heq|Hgt]]; [exfalso|assumption|exfalso].
        - specialize (H n1). cbn [lookup fst snd] in H. rewrite N.eqb_refl in H.
          destruct (N.eqb_spec n2 n1); [lia|].
          rewrite lookup_lt_head in H; [discriminate|].
          eapply Forall_impl; [|exact F2]. intros a Ha. cbn in Ha. lia.
        - specialize (H n2). cbn [lookup fst snd] in H. rewrite (N.eqb_refl n2) in H.
          destruct (N.eqb_spec n1 n2); [lia|].
          rewrite lookup_lt_head in H; [discriminate|].
          eapply Forall_impl; [|exact F1]. intros a Ha. cbn in Ha. lia. }
      subst n2. pose proof (H n1) as H1. cbn [lookup fst snd] in H1. rewrite N.eqb_refl in H1.
      injection H1 as ->. f_equal. apply IH; auto.
      intros n. specialize (H n). cbn [lookup fst snd] in H.
      destruct (N.eqb_spec n1 n) as [E|Hne]; [|assumption].
      rewrite <- E. rewrite (lookup_lt_head n1 r1), (lookup_lt_head n1 r2); auto.
Qed.

(** * the sides assembled by the merge are sorted *)
Lemma flat_map_sorted {A} (f : A -> list (N * value)) (g : A -> N) (l : list A) :
  (forall a, f a = [] \/ exists v, f a = [(g a, v)]) ->
  StronglySorted N.lt (map g l) -> StronglySorted N.lt (map fst (flat_map f l)).
Proof.
  intros Hf. induction l as [|a t IH]; intros S; [constructor|].
  cbn [map] in S. inversion S as [|? ? St Fa]; subst. cbn [flat_map].
  destruct (Hf a) as [->|[v ->]]; [now apply IH|].
  cbn [app map fst]. constructor; [now apply IH|].
  apply Forall_forall. intros m Hm. apply in_map_iff in Hm as ([m' v'] & <- & Hin). cbn [fst].
  apply in_flat_map in Hin as (a' & Ha' & Hin').
  rewrite Forall_forall in Fa. specialize (Fa (g a') (in_map g t a' Ha')).
  destruct (Hf a') as [E|[v'' E]]; rewrite E in Hin'; [contradiction|].
  destruct Hin' as [Hin'|[]]. injection Hin' as <- _. exact Fa.
Qed.

Lemma side_tree_sorted (F : N -> list oval) ns i :
  StronglySorted N.lt ns -> sorted_tree (side_tree (es_of F ns) i).
Proof.
  intros S. unfold sorted_tree, side_tree.
  apply (flat_map_sorted _ fst).
  - intros [n c]. cbn [fst snd]. destruct (side_value i c); eauto.
  - unfold es_of. rewrite map_map. cbn [fst]. now rewrite map_id.
Qed.

Section Unfold.
  Context (accept : bool) (content_merge : list N -> option N).
  Notation tm := (tm accept).
  Notation mdf := (merge_dir_full accept content_merge).
  Notation merge_path := (merge_path accept content_merge).

  (** One level of the directory merge, with the canonical fuel on both sides. *)
  Lemma merge_dir_full_unfold ts : Nat.odd (length ts) = true ->
    mdf ts = assemble (es_of (fun n => merge_path (map (lookup n) ts)) (names ts)).
  Proof.
    intros Hodd. unfold merge_dir_full at 1. rewrite merge_dir_S. f_equal. unfold es_of.
    apply map_ext. intros n. f_equal. apply merge_vals_ext. intros Hn Ht.
    now apply merge_dir_sub_full.
  Qed.

  (** If every entry resolves to a single value, the merge is the single tree made of them. *)
  Lemma merge_dir_full_single ts (G : N -> oval) : Nat.odd (length ts) = true ->
    (forall n, merge_path (map (lookup n) ts) = [G n]) ->
    exists r, mdf ts = [r] /\ sorted_tree r
              /\ forall n, lookup n r = if in_dec N.eq_dec n (names ts) then G n else None.
  Proof.
    intros Hodd HG. rewrite merge_dir_full_unfold by assumption.
    set (F := fun n => merge_path (map (lookup n) ts)).
    exists (side_tree (es_of F (names ts)) 0). split; [|split].
    - unfold assemble.
      destruct (filter (fun e => negb (is_single (snd e))) (es_of F (names ts))) as [|c rest] eqn:E;
        [reflexivity|exfalso].
      assert (Hc : In c (filter (fun e => negb (is_single (snd e))) (es_of F (names ts))))
        by (rewrite E; now left).
      apply filter_In in Hc as [Hin Hns]. apply in_map_iff in Hin as (m & <- & _). cbn [snd] in Hns.
      unfold F in Hns. rewrite HG in Hns. discriminate.
    - apply side_tree_sorted, names_sorted.
    - intros n. rewrite lookup_side_tree. destruct (in_dec N.eq_dec n (names ts)); [|reflexivity].
      unfold F. now rewrite HG.
  Qed.

  (** ... in particular, when every entry resolves to that entry of a sorted tree [u]. *)
  Lemma merge_dir_full_is ts (u : tree) : Nat.odd (length ts) = true -> sorted_tree u ->
    (forall n, merge_path (map (lookup n) ts) = [lookup n u]) -> mdf ts = [u].
  Proof.
    intros Hodd Hu HG. destruct (merge_dir_full_single ts (fun n => lookup n u) Hodd HG) as (r & -> & Hr & Hl).
    f_equal. apply sorted_ext; auto. intros n. rewrite Hl.
    destruct (in_dec N.eq_dec n (names ts)) as [|Hn]; [reflexivity|].
    specialize (HG n). rewrite (lookup_notin_names n ts Hn) in HG.
    unfold TreeMerge.merge_path, merge_vals in HG. rewrite tm_repeat in HG by assumption.
    now injection HG.
  Qed.
End Unfold.

(** * simplify on three terms with a base that differs from both sides *)
Section Simplify3Id.
  Context {T : Type} (eqb : T -> T -> bool).
  Hypothesis eqb_spec : forall x y, eqb x y = true <-> x = y.
  Lemma simplify3_id_gen (a1 b a2 : T) : b <> a1 -> b <> a2 -> simplify eqb [a1; b; a2] = [a1; b; a2].
  Proof.
    intros H1 H2. unfold simplify, simplified_pairs. cbn [length enumerate_from].
    cbn. rewrite (eqb_false eqb eqb_spec b a1) by assumption. cbn.
    rewrite (eqb_false eqb eqb_spec b a2) by assumption. cbn. reflexivity.
  Qed.
End Simplify3Id.

(** * well-formed trees and disjoint changes *)
Inductive wf_tree : tree -> Prop :=
| wf_intro t :
    sorted_tree t ->
    (forall n s, lookup n t = Some (Tree s) -> s <> [] /\ wf_tree s) ->
    wf_tree t.

Lemma wf_nil : wf_tree [].
Proof. constructor; [constructor|discriminate]. Qed.

Lemma wf_sorted t : wf_tree t -> sorted_tree t.
Proof. now inversion 1. Qed.

Lemma wf_sub n t : wf_tree t -> wf_tree (to_tree (lookup n t)).
Proof.
  intros H. inversion H as [? _ Hs]; subst.
  destruct (lookup n t) as [[| | |s]|] eqn:E; cbn [to_tree]; try apply wf_nil.
  now apply (Hs n s).
Qed.

(** A directory-or-absent entry of a well-formed tree is the [of_tree] of its [to_tree]. *)
Lemma wf_of_to n t : wf_tree t -> is_tree_term (lookup n t) = true ->
  of_tree (to_tree (lookup n t)) = lookup n t.
Proof.
  intros H Ht. inversion H as [? _ Hs]; subst.
  destruct (lookup n t) as [[| | |s]|] eqn:E; try discriminate; cbn [to_tree of_tree]; [|reflexivity].
  destruct (Hs n s E) as [Hne _]. destruct s; [congruence|reflexivity].
Qed.

Section ThereBack.
  Context (accept : bool) (content_merge : list N -> option N).
  Notation tm := (tm accept).
  Notation mdf := (merge_dir_full accept content_merge).
  Notation merge_path := (merge_path accept content_merge).

  (** The changes [b -> b'] and [b -> t] touch disjoint entries: at every name one of them
      left the entry alone, or both changed a directory in ways that are not trivially
      mergeable and are, recursively, disjoint. *)
  Inductive Disj : tree -> tree -> tree -> Prop :=
  | Disj_intro b' b t :
      (forall n, lookup n t = lookup n b \/ lookup n b' = lookup n b
                 \/ (tm [lookup n b'; lookup n b; lookup n t] = None
                     /\ is_tree [lookup n b'; lookup n b; lookup n t] = true
                     /\ Disj (to_tree (lookup n b')) (to_tree (lookup n b)) (to_tree (lookup n t)))) ->
      Disj b' b t.

  Lemma tm3 a0 r a1 :
    tm [a0; r; a1] = if oval_eqb a0 a1 && accept then Some a0
                     else if oval_eqb a0 r then Some a1
                     else if oval_eqb a1 r then Some a0 else None.
  Proof. reflexivity. Qed.

  Lemma oval_eqb_refl a : oval_eqb a a = true.
  Proof. now apply oval_eqb_spec. Qed.
  Lemma oval_eqb_neq a b : a <> b -> oval_eqb a b = false.
  Proof. intros H. destruct (oval_eqb a b) eqn:E; [|reflexivity]. apply oval_eqb_spec in E. congruence. Qed.

  Lemma mp_abb a b : merge_path [a; b; b] = [a].
  Proof.
    apply merge_path_resolved. rewrite tm3.
    destruct (oval_eqb a b) eqn:E.
    - apply oval_eqb_spec in E. subst b. destruct (true && accept)%bool; reflexivity.
    - cbn [andb]. now rewrite oval_eqb_refl.
  Qed.
  Lemma mp_bba a b : merge_path [b; b; a] = [a].
  Proof.
    apply merge_path_resolved. rewrite tm3, oval_eqb_refl.
    destruct (oval_eqb b a && accept)%bool eqn:E; [|reflexivity].
    apply Bool.andb_true_iff in E as [E _]. apply oval_eqb_spec in E. now subst.
  Qed.
  Lemma mp_aba a b : accept = true -> merge_path [a; b; a] = [a].
  Proof. intros Ha. apply merge_path_resolved. now rewrite tm3, oval_eqb_refl, Ha. Qed.

  Lemma mdf_abb (u v : tree) : sorted_tree u -> mdf [u; v; v] = [u].
  Proof. intros Hu. apply merge_dir_full_is; auto. intros n. cbn [map]. apply mp_abb. Qed.
  Lemma mdf_aba (u v : tree) : accept = true -> sorted_tree u -> mdf [u; v; u] = [u].
  Proof. intros Ha Hu. apply merge_dir_full_is; auto. intros n. cbn [map]. now apply mp_aba. Qed.

  (** The value the first merge gives to an entry. *)
  Definition pick (x' x y : oval) : oval :=
    if oval_eqb y x then x'
    else if oval_eqb x' x then y
    else of_tree (hd [] (mdf [to_tree x'; to_tree x; to_tree y])).

  Lemma is_tree3_perm a b c : is_tree [a; b; c] = true -> is_tree [c; b; a] = true /\ is_tree [b; a; c] = true.
  Proof.
    unfold is_tree. cbn [is_absent negb forallb]. rewrite !Bool.andb_true_iff. intuition.
    all: destruct a, b, c; cbn; auto.
  Qed.

  (** One entry: [x'], [x], [y] are the entries of [b'], [b], [t]. *)
  Lemma entry_there_back (x' x y : oval) :
    (is_tree_term x = true -> of_tree (to_tree x) = x /\ sorted_tree (to_tree x)) ->
    (is_tree_term y = true -> of_tree (to_tree y) = y) ->
    (y = x \/ x' = x
     \/ (tm [x'; x; y] = None /\ is_tree [x'; x; y] = true
         /\ exists rs, mdf [to_tree x'; to_tree x; to_tree y] = [rs]
                       /\ mdf [to_tree y; to_tree x; to_tree x'] = [rs]
                       /\ mdf [to_tree x; to_tree x'; rs] = [to_tree y])) ->
    merge_path [x'; x; y] = [pick x' x y]
    /\ merge_path [y; x; x'] = [pick x' x y]
    /\ merge_path [x; x'; pick x' x y] = [y].
  Proof.
    intros Hwx Hwy [E|[E|(Htm & Htr & rs & H1 & H2 & H3)]]; unfold pick.
    - rewrite E, oval_eqb_refl. repeat split; [apply mp_abb|apply mp_bba|apply mp_abb].
    - destruct (oval_eqb y x) eqn:Ey.
      + apply oval_eqb_spec in Ey. rewrite Ey, E. repeat split; [apply mp_abb|apply mp_bba|apply mp_abb].
      + rewrite E, oval_eqb_refl. repeat split; [apply mp_bba|apply mp_abb|apply mp_bba].
    - rewrite tm3 in Htm.
      destruct (oval_eqb x' y && accept)%bool eqn:E1; [discriminate|].
      destruct (oval_eqb x' x) eqn:E2; [discriminate|].
      destruct (oval_eqb y x) eqn:E3; [discriminate|].
      rewrite H1. cbn [hd].
      destruct (is_tree3_perm _ _ _ Htr) as [Htr2 Htr3].
      assert (Hterms : is_tree_term x' = true /\ is_tree_term x = true /\ is_tree_term y = true).
      { unfold is_tree in Htr. cbn in Htr. apply Bool.andb_true_iff in Htr as [_ Htr].
        destruct (is_tree_term x'), (is_tree_term x), (is_tree_term y); auto; discriminate. }
      destruct Hterms as (Tx' & Tx & Ty).
      destruct (Hwx Tx) as [Hx Sx]. specialize (Hwy Ty).
      assert (Hxy : to_tree x <> to_tree y).
      { intros C. apply Bool.not_true_iff_false in E3. apply E3. apply oval_eqb_spec.
        now rewrite <- Hx, <- Hwy, C. }
      repeat split.
      + unfold TreeMerge.merge_path, merge_vals. rewrite tm3, E1, E2, E3, Htr. cbn [map].
        change (TreeMerge.merge_dir_full accept content_merge [to_tree x'; to_tree x; to_tree y])
          with (mdf [to_tree x'; to_tree x; to_tree y]).
        rewrite H1. reflexivity.
      + unfold TreeMerge.merge_path, merge_vals. rewrite tm3.
        assert (oval_eqb y x' && accept = false)%bool as ->.
        { destruct (oval_eqb y x') eqn:E; [|reflexivity]. apply oval_eqb_spec in E. subst y.
          now rewrite oval_eqb_refl in E1. }
        rewrite E3, E2, Htr2. cbn [map].
        change (TreeMerge.merge_dir_full accept content_merge [to_tree y; to_tree x; to_tree x'])
          with (mdf [to_tree y; to_tree x; to_tree x']).
        rewrite H2. reflexivity.
      + unfold TreeMerge.merge_path, merge_vals. rewrite tm3.
        assert (Ea : (oval_eqb x (of_tree rs) && accept = false)%bool).
        { assert (accept = true \/ accept = false) as [Eacc|Eacc] by (destruct accept; auto);
            [|rewrite Eacc; apply Bool.andb_false_r].
          rewrite Eacc, Bool.andb_true_r.
          apply oval_eqb_neq. intros C. apply Hxy.
          assert (rs = to_tree x) by (rewrite C; now rewrite to_tree_of_tree). subst rs.
          rewrite (mdf_aba _ _ Eacc Sx) in H3. now injection H3. }
        rewrite Ea.
        assert (oval_eqb x x' = false) as ->.
        { apply oval_eqb_neq. intros C. rewrite C, oval_eqb_refl in E2. discriminate. }
        assert (oval_eqb (of_tree rs) x' = false) as ->.
        { apply oval_eqb_neq. intros C. apply Hxy.
          assert (rs = to_tree x') by (rewrite <- C; now rewrite to_tree_of_tree). subst rs.
          rewrite (mdf_abb _ _ Sx) in H3. now injection H3. }
        assert (is_tree [x; x'; of_tree rs] = true) as ->.
        { unfold is_tree. cbn. rewrite Tx, Tx'. destruct x as [[| | |?]|], rs; reflexivity. }
        cbn [map]. rewrite to_tree_of_tree.
        change (TreeMerge.merge_dir_full accept content_merge [to_tree x; to_tree x'; rs])
          with (mdf [to_tree x; to_tree x'; rs]).
        rewrite H3. cbn [map]. rewrite Hwy. reflexivity.
  Qed.

  Lemma names3_perm (a b c : tree) n : In n (names [a; b; c]) <-> In n (names [c; b; a]).
  Proof.
    rewrite !names_in. split; intros (u & Hu & Hn); exists u; (split; [|assumption]);
      cbn [In] in *; intuition.
  Qed.

  Theorem there_back_dir : forall k b' b t,
    (max_tdepth [b'; b; t] <= k)%nat -> wf_tree b -> wf_tree t -> Disj b' b t ->
    exists r, mdf [b'; b; t] = [r] /\ mdf [t; b; b'] = [r] /\ mdf [b; b'; r] = [t].
  Proof.
    induction k as [|k IH]; intros b' b t Hk Hwb Hwt HD; inversion HD as [? ? ? Hn]; subst.
    all: assert (Hentry : forall n,
             merge_path [lookup n b'; lookup n b; lookup n t] = [pick (lookup n b') (lookup n b) (lookup n t)]
             /\ merge_path [lookup n t; lookup n b; lookup n b'] = [pick (lookup n b') (lookup n b) (lookup n t)]
             /\ merge_path [lookup n b; lookup n b'; pick (lookup n b') (lookup n b) (lookup n t)] = [lookup n t]);
      [intros n; apply entry_there_back;
       [intros Hx; split; [now apply wf_of_to|apply wf_sorted, wf_sub, Hwb]
       |intros Hy; now apply wf_of_to
       |destruct (Hn n) as [E|[E|(Htm & Htr & Hsub)]]; [now left|right; now left|right; right]]|].
    - (* depth 0: there are no directories, the recursive case cannot occur *)
      exfalso. destruct (nontrivial_tree_has_dir accept [lookup n b'; lookup n b; lookup n t]) as [s Hs]; auto.
      assert (Hd : forall u, In u [b'; b; t] -> tdepth u = 0%nat).
      { intros u Hu. apply max_tdepth_le in Hk. rewrite Forall_forall in Hk. specialize (Hk u Hu). lia. }
      destruct Hs as [Hs|[Hs|[Hs|[]]]]; apply to_tree_lookup_depth in Hs;
        [rewrite (Hd b') in Hs|rewrite (Hd b) in Hs|rewrite (Hd t) in Hs]; cbn [In]; auto; lia.
    - shelve.
    - repeat split; auto.
      apply IH; [apply (max_tdepth_sub n [b'; b; t] k Hk)|apply wf_sub, Hwb|apply wf_sub, Hwt|assumption].
    - shelve.
    Unshelve.
    all: set (G := fun n => pick (lookup n b') (lookup n b) (lookup n t)) in *.
    all: destruct (merge_dir_full_single accept content_merge [b'; b; t] G eq_refl) as (r & Hr & Sr & Lr);
      [intros n; cbn [map]; apply Hentry|].
    all: destruct (merge_dir_full_single accept content_merge [t; b; b'] G eq_refl) as (r2 & Hr2 & Sr2 & Lr2);
      [intros n; cbn [map]; apply Hentry|].
    all: assert (r2 = r) as -> by
        (apply sorted_ext; auto; intros n; rewrite Lr, Lr2;
         destruct (in_dec N.eq_dec n (names [b'; b; t])) as [I|I],
                  (in_dec N.eq_dec n (names [t; b; b'])) as [J|J]; try reflexivity; exfalso;
         [apply J; now apply names3_perm|apply I; now apply names3_perm]).
    all: exists r; repeat split; auto.
    all: apply merge_dir_full_is; [reflexivity|now apply wf_sorted|].
    all: intros n; cbn [map]; rewrite Lr.
    all: destruct (in_dec N.eq_dec n (names [b'; b; t])) as [I|I]; [apply Hentry|].
    all: pose proof (lookup_notin_names n [b'; b; t] I) as HN; cbn [map length repeat] in HN.
    all: injection HN as -> -> ->; apply mp_abb.
  Qed.

  Lemma simplify3_id (a1 b a2 : tree) : b <> a1 -> b <> a2 -> simplify tree_eqb [a1; b; a2] = [a1; b; a2].
  Proof. apply (simplify3_id_gen tree_eqb tree_eqb_spec). Qed.

  Lemma resolve_single_merge ts r : merge_trees accept content_merge ts = [r] ->
    resolve accept content_merge ts = [r].
  Proof.
    intros H. unfold resolve. destruct (length ts); cbn [resolve_loop]; now rewrite H.
  Qed.

  Lemma mtm3_distinct (a1 b a2 r : tree) : b <> a1 -> b <> a2 -> mdf [a1; b; a2] = [r] ->
    merged_tree_merge accept content_merge [[a1]; [b]; [a2]] = [r].
  Proof.
    intros H1 H2 Hm. unfold merged_tree_merge, merge_no_resolve.
    cbn [flatten flatten_rest neg_inner rotate_left1 swap_pairs app].
    rewrite simplify3_id by assumption. now apply resolve_single_merge.
  Qed.

  (** C08_there_and_back: a commit with tree [t] on a parent with tree [b], rebased onto a
      parent with tree [b'] and back, has exactly the tree [t] again. *)
  Theorem there_and_back (b' b t : tree) : wf_tree b -> wf_tree t -> Disj b' b t ->
    rebase_tree accept content_merge [b] [b']
      (rebase_tree accept content_merge [b'] [b] [t]) = [t].
  Proof.
    intros Hwb Hwt HD. unfold rebase_tree.
    destruct (tree_eqb b b') eqn:E1; [apply tree_eqb_spec in E1; subst b'|].
    { rewrite (base_identity_right accept content_merge t b). apply base_identity_right. }
    destruct (tree_eqb b t) eqn:E2; [apply tree_eqb_spec in E2; subst t|].
    { rewrite (base_identity_left accept content_merge b' b). apply base_identity_left. }
    assert (N1 : b <> b') by (intros C; apply tree_eqb_spec in C; congruence).
    assert (N2 : b <> t) by (intros C; apply tree_eqb_spec in C; congruence).
    destruct (there_back_dir _ b' b t (le_n _) Hwb Hwt HD) as (r & H1 & _ & H3).
    rewrite (mtm3_distinct b' b t r N1 N2 H1).
    assert (N3 : b' <> r).
    { intros <-. rewrite (mdf_abb _ _ (wf_sorted _ Hwb)) in H3. congruence. }
    apply mtm3_distinct; auto.
  Qed.

  (** C09: a partial squash of [s] (selection [x]) into its only parent [d]: the rewritten
      source [s - x + d], rebased from [d] onto the new destination [x], is exactly [s]. *)
  Theorem squash_partial_restores (d x s : tree) : wf_tree x -> wf_tree s -> Disj d x s ->
    rebase_tree accept content_merge [x] [d]
      (merged_tree_merge accept content_merge [[s]; [x]; [d]]) = [s].
  Proof.
    intros Hwx Hws HD. unfold rebase_tree.
    destruct (tree_eqb x s) eqn:E1; [apply tree_eqb_spec in E1; subst s|].
    { rewrite (base_identity_right accept content_merge d x). apply base_identity_left. }
    destruct (tree_eqb x d) eqn:E2; [apply tree_eqb_spec in E2; subst d|].
    { rewrite (base_identity_left accept content_merge s x). apply base_identity_right. }
    assert (N1 : x <> s) by (intros C; apply tree_eqb_spec in C; congruence).
    assert (N2 : x <> d) by (intros C; apply tree_eqb_spec in C; congruence).
    destruct (there_back_dir _ d x s (le_n _) Hwx Hws HD) as (r & _ & H2 & H3).
    rewrite (mtm3_distinct s x d r N1 N2 H2).
    assert (N3 : d <> r).
    { intros <-. rewrite (mdf_abb _ _ (wf_sorted _ Hwx)) in H3. congruence. }
    apply mtm3_distinct; auto.
  Qed.
End ThereBack.

(** * the executable side conditions imply the declarative ones *)
Lemma sortedb_sound l : sortedb l = true -> StronglySorted N.lt l.
Proof.
  intros H. apply Sorted_StronglySorted; [intros a b c; apply N.lt_trans|].
  induction l as [|a [|b r] IH]; [constructor|repeat constructor|].
  cbn [sortedb] in H. apply Bool.andb_true_iff in H as [Hab Hr]. apply N.ltb_lt in Hab.
  constructor; [now apply IH|now constructor].
Qed.

Lemma lookup_in n (t : tree) v : lookup n t = Some v -> In (n, v) t.
Proof.
  induction t as [|[m w] r IH]; [discriminate|]. cbn [lookup fst snd].
  destruct (N.eqb_spec m n) as [->|]; [intros H; injection H as ->; now left|]. intros H. right. now apply IH.
Qed.

Lemma wfb_sound : forall fuel t, wfb fuel t = true -> wf_tree t.
Proof.
  induction fuel as [|f IH]; intros t H; cbn [wfb] in H; apply Bool.andb_true_iff in H as [Hs Hf];
    (constructor; [now apply sortedb_sound|]); intros n s Hl; apply lookup_in in Hl;
    rewrite forallb_forall in Hf; specialize (Hf _ Hl); cbn [snd] in Hf; [discriminate|].
  apply Bool.andb_true_iff in Hf as [Hne Hw]. split; [destruct s; [discriminate|congruence]|now apply IH].
Qed.

Lemma disjb_sound accept : forall fuel b' b t, disjb accept fuel b' b t = true -> Disj accept b' b t.
Proof.
  induction fuel as [|f IH]; intros b' b t H; constructor; intros n.
  all: destruct (in_dec N.eq_dec n (names [b'; b; t])) as [I|I].
  2,4: pose proof (lookup_notin_names n [b'; b; t] I) as HN; cbn [map length repeat] in HN;
       injection HN as -> -> ->; now left.
  all: cbn [disjb] in H; rewrite forallb_forall in H; specialize (H n I); cbn zeta in H;
       rewrite !Bool.orb_true_iff in H; destruct H as [[H|H]|H].
  1,4: left; now apply oval_eqb_spec.
  1,3: right; left; now apply oval_eqb_spec.
  - discriminate.
  - right. right. destruct (tm accept [lookup n b'; lookup n b; lookup n t]); [discriminate|].
    apply Bool.andb_true_iff in H as [Ht Hd]. split; [reflexivity|split; [assumption|now apply IH]].
Qed.

(** The law in the form the checker uses. *)
Theorem there_and_back_b accept content_merge (b' b t : tree) :
  wfb 64 b && wfb 64 t && disjb accept 64 b' b t = true ->
  rebase_tree accept content_merge [b] [b'] (rebase_tree accept content_merge [b'] [b] [t]) = [t].
Proof.
  rewrite !Bool.andb_true_iff. intros [[Hb Ht] Hd].
  apply there_and_back; [now apply (wfb_sound 64)|now apply (wfb_sound 64)|now apply (disjb_sound accept 64)].
Qed.
