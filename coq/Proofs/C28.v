(** Proofs for C28 (model: Model/C28.v): jj's chain of ignore files plus the walk decide
    "ignored" exactly as the declarative rule, for any per-pattern match function. *)
From Verif Require Import Base.Prelude Model.C28.
From Coq Require Import Lia.
Local Open Scope N_scope.

Section Proofs.
  Context {pat : Type} (pm : pat -> path -> bool -> bool) (negative : pat -> bool).

  Notation gi := (@gi pat).
  Notation stack := (@stack pat).

  (** A chain, flattened: newest file first. *)
  Fixpoint flat (g : gi) : list (path * list (list pat)) :=
    match g with
    | GI parent lists prefix =>
        (prefix, lists) :: match parent with Some g' => flat g' | None => [] end
    end.

  Fixpoint flat_decision (fs : list (path * list (list pat))) (p : path) (is_dir : bool)
    : option bool :=
    match fs with
    | [] => None
    | (pre, lists) :: r =>
        match match strip_prefix pre p with
              | Some (x :: rel) => search_lists pm lists (x :: rel) is_dir
              | _ => None
              end with
        | Some m => Some (negb (negative m))
        | None => flat_decision r p is_dir
        end
    end.

  Definition dflt (o : option bool) : bool := match o with Some b => b | None => false end.

  Lemma gi_matches_flat : forall g p b,
    gi_matches pm negative g p b = dflt (flat_decision (flat g) p b).
  Proof.
    fix IH 1. intros [parent lists prefix] p b.
    cbn [gi_matches flat flat_decision].
    destruct (match strip_prefix prefix p with
              | Some (x :: rel) => search_lists pm lists (x :: rel) b
              | _ => None
              end) as [m|]; [reflexivity|].
    destruct parent as [g'|]; [apply IH|reflexivity].
  Qed.

  Definition lists_of (g : gi) : list (list pat) := match g with GI _ l _ => l end.

  Lemma flat_chain g prefix pats :
    lists_of g <> [] -> flat (gi_chain g prefix pats) = (prefix, [pats]) :: flat g.
  Proof. destruct g as [parent lists pre]. cbn. destruct lists; [contradiction|reflexivity]. Qed.

  Lemma search_single pats rel b : search_lists pm [pats] rel b = last_match pm pats rel b.
  Proof. reflexivity. Qed.

  Variable st : stack.
  Variable base : list pat.

  Notation AF := (ancestor_files st base).

  Lemma prefixes_app : forall d acc nm,
    prefixes acc (d ++ [nm]) = prefixes acc d ++ [acc ++ d ++ [nm]].
  Proof.
    induction d as [|x d IH]; intros acc nm; cbn [prefixes app].
    - reflexivity.
    - rewrite IH. rewrite <- !app_assoc. reflexivity.
  Qed.

  Lemma filter_some_app {A} (a b : list (option A)) :
    filter_some (a ++ b) = filter_some a ++ filter_some b.
  Proof.
    induction a as [|[x|] a IH]; cbn; [reflexivity| |exact IH]. rewrite IH. reflexivity.
  Qed.

  Lemma AF_snoc d nm :
    AF (d ++ [nm]) =
    match plookup (d ++ [nm]) st with Some pats => [(d ++ [nm], pats)] | None => [] end ++ AF d.
  Proof.
    unfold ancestor_files. rewrite prefixes_app, rev_app_distr. cbn [rev app map filter_some].
    destruct (plookup (d ++ [nm]) st); reflexivity.
  Qed.

  Lemma AF_root :
    AF [] = match plookup [] st with Some pats => [([], pats)] | None => [] end ++ [([], base)].
  Proof. unfold ancestor_files. cbn. destruct (plookup [] st); reflexivity. Qed.

  (** A chain represents a list of (directory, patterns) files. *)
  Definition represents (g : gi) (F : list (path * list pat)) : Prop :=
    lists_of g <> [] /\
    forall p b, flat_decision (flat g) p b = first_decision pm negative F p b.

  Lemma represents_chain g F d pats :
    represents g F -> represents (gi_chain g d pats) ((d, pats) :: F).
  Proof.
    intros [Hl Hd]. split.
    - destruct g. cbn. discriminate.
    - intros p b. rewrite (flat_chain g d pats Hl). cbn [flat_decision first_decision].
      rewrite Hd. reflexivity.
  Qed.

  Lemma represents_base : represents (gi_chain gi_empty [] base) [([], base)].
  Proof.
    split; [cbn; discriminate|]. intros p b. reflexivity.
  Qed.

  Lemma chain_with_file_represents g F d :
    represents g F ->
    represents (chain_with_file st g d)
      (match plookup d st with Some pats => [(d, pats)] | None => [] end ++ F).
  Proof.
    intros H. unfold chain_with_file. destruct (plookup d st) as [pats|]; [|exact H].
    apply represents_chain. exact H.
  Qed.

  Notation decide := (decide pm negative st base).

  (** The walk below a directory whose chain represents the files of its proper ancestors. *)
  Lemma walk_spec : forall q dir g b,
    represents (chain_with_file st g dir) (AF dir) ->
    walk_ignored pm negative st g dir q b =
    match q with
    | [] => false
    | _ => existsb (fun x => decide x true) (dirs_between dir q) || decide (dir ++ q) b
    end.
  Proof.
    induction q as [|nm q' IH]; intros dir g b Hrep; [reflexivity|].
    cbn [walk_ignored].
    assert (Hm : forall b', gi_matches pm negative (chain_with_file st g dir) (dir ++ [nm]) b'
                            = decide (dir ++ [nm]) b').
    { intros b'. rewrite gi_matches_flat. destruct Hrep as [_ Hd]. rewrite Hd.
      unfold C28.decide. rewrite removelast_last. reflexivity. }
    destruct q' as [|x r].
    - rewrite Hm. reflexivity.
    - rewrite Hm. cbn [dirs_between existsb].
      rewrite (IH (dir ++ [nm]) (chain_with_file st g dir) b).
      + rewrite <- app_assoc. cbn [app]. rewrite orb_assoc. reflexivity.
      + rewrite AF_snoc. apply chain_with_file_represents. exact Hrep.
  Qed.

  (** C28_stack_semantics *)
  Theorem stack_semantics p b :
    jj_ignored pm negative st base p b = git_ignored pm negative st base p b.
  Proof.
    unfold jj_ignored, git_ignored, ancestor_dirs.
    rewrite (walk_spec p [] (gi_chain gi_empty [] base) b).
    - destruct p as [|x r]; [|reflexivity]. cbn.
      unfold C28.decide. cbn [removelast]. rewrite AF_root.
      destruct (plookup [] st); reflexivity.
    - rewrite AF_root. apply chain_with_file_represents. exact represents_base.
  Qed.

  (** The ancestor directories are exactly the proper non-empty prefixes. *)
  Lemma dirs_between_spec : forall q d x,
    In x (dirs_between d q) <-> exists a r, a <> [] /\ r <> [] /\ q = a ++ r /\ x = d ++ a.
  Proof.
    induction q as [|nm q' IH]; intros d x; cbn [dirs_between].
    - split; [intros []|]. intros (a & r & Ha & _ & E & _). destruct a; [contradiction|discriminate].
    - destruct q' as [|y r'].
      + split; [intros []|]. intros (a & r & Ha & Hr & E & _).
        destruct a as [|a0 a]; [contradiction|]. injection E as _ E.
        destruct a; destruct r; try contradiction; discriminate.
      + cbn [In]. rewrite IH. split.
        * intros [<-|(a & r & Ha & Hr & E & ->)].
          -- exists [nm], (y :: r'). repeat split; try discriminate.
          -- exists (nm :: a), r. repeat split; try discriminate; try assumption.
             ++ cbn. rewrite E. reflexivity.
             ++ rewrite <- app_assoc. reflexivity.
        * intros (a & r & Ha & Hr & E & ->). destruct a as [|a0 a]; [contradiction|].
          injection E as <- E. destruct a as [|a1 a].
          -- left. reflexivity.
          -- right. exists (a1 :: a), r. repeat split; try discriminate; try assumption.
             rewrite <- app_assoc. reflexivity.
  Qed.

  (** The chain on its own: the newest file with a matching pattern decides, by its last
      matching pattern. *)
  Lemma last_match_spec pats rel b m :
    last_match pm pats rel b = Some m <->
    exists l1 l2, pats = l1 ++ m :: l2 /\ pm m rel b = true
                  /\ forall x, In x l2 -> pm x rel b = false.
  Proof.
    revert m. induction pats as [|p r IH]; intros m; cbn [last_match].
    - split; [discriminate|]. intros (l1 & l2 & E & _). destruct l1; discriminate.
    - destruct (last_match pm r rel b) as [q|] eqn:E in |- *.
      + split.
        * intros H. injection H as ->. apply IH in E. destruct E as (l1 & l2 & -> & Hm & Hn).
          exists (p :: l1), l2. auto.
        * intros (l1 & l2 & E2 & Hm & Hn). destruct l1 as [|z l1].
          -- cbn in E2. injection E2 as -> ->. apply IH in E.
             destruct E as (k1 & k2 & -> & Hq & _).
             rewrite (Hn q) in Hq; [discriminate|]. apply in_or_app. right. left. reflexivity.
          -- cbn in E2. injection E2 as -> ->.
             assert (Hx : last_match pm (l1 ++ m :: l2) rel b = Some m).
             { apply IH. exists l1, l2. auto. }
             congruence.
      + assert (Hnone : forall x, In x r -> pm x rel b = false).
        { intros x Hx. destruct (pm x rel b) eqn:Ex; [|reflexivity]. exfalso.
          clear IH. induction r as [|y r IHr]; [destruct Hx|]. cbn [last_match] in E.
          destruct (last_match pm r rel b); [discriminate|].
          destruct (pm y rel b) eqn:Ey; [discriminate|].
          destruct Hx as [->|Hx]; [congruence|]. exact (IHr E Hx). }
        destruct (pm p rel b) eqn:Ep.
        * split.
          -- intros H. injection H as ->. exists [], r. auto.
          -- intros (l1 & l2 & E2 & Hm & Hn). destruct l1 as [|z l1].
             ++ cbn in E2. injection E2 as -> _. reflexivity.
             ++ cbn in E2. injection E2 as -> ->.
                rewrite (Hnone m) in Hm; [discriminate|]. apply in_or_app. right. left. reflexivity.
        * split; [discriminate|]. intros (l1 & l2 & E2 & Hm & Hn). destruct l1 as [|z l1].
          -- cbn in E2. injection E2 as -> _. congruence.
          -- cbn in E2. injection E2 as -> ->.
             rewrite (Hnone m) in Hm; [discriminate|]. apply in_or_app. right. left. reflexivity.
  Qed.
End Proofs.

(** ** Part (ii): the executable wildmatch against a declarative reading of the token language *)

Lemma noslash_nil : noslash [].
Proof. intros x []. Qed.

Lemma noslash_cons x a : x <> SLASH -> noslash a -> noslash (x :: a).
Proof. intros Hx Ha y [<-|Hy]; auto. Qed.

Lemma neqb_slash x : negb (x =? SLASH) = true <-> x <> SLASH.
Proof. rewrite negb_true_iff, N.eqb_neq. reflexivity. Qed.

(** One star: some slash-free prefix, then the rest. *)
Lemma star_loop_spec (f : bytes -> bool) (P : bytes -> Prop) :
  (forall t, f t = true <-> P t) ->
  forall t,
    (fix star (t : bytes) : bool :=
       f t || match t with x :: t' => negb (x =? SLASH) && star t' | [] => false end) t = true
    <-> exists a b, t = a ++ b /\ noslash a /\ P b.
Proof.
  intros Hf. induction t as [|x t IH].
  - rewrite orb_false_r, Hf. split.
    + intros H. exists [], []. split; [reflexivity|]. split; [apply noslash_nil|exact H].
    + intros (a & b & E & _ & Hb). destruct a; [|discriminate]. cbn in E. subst b. exact Hb.
  - rewrite orb_true_iff, andb_true_iff, Hf, neqb_slash, IH. split.
    + intros [H|[Hx (a & b & -> & Ha & Hb)]].
      * exists [], (x :: t). split; [reflexivity|]. split; [apply noslash_nil|exact H].
      * exists (x :: a), b. split; [reflexivity|]. split; [apply noslash_cons; assumption|exact Hb].
    + intros (a & b & E & Ha & Hb). destruct a as [|y a].
      * cbn in E. subst b. left. exact Hb.
      * cbn in E. injection E as -> ->. right. split; [apply Ha; left; reflexivity|].
        exists a, b. split; [reflexivity|]. split; [|exact Hb].
        intros z Hz. apply Ha. right. exact Hz.
Qed.

Lemma anyseq_loop_spec (f : bytes -> bool) (P : bytes -> Prop) :
  (forall t, f t = true <-> P t) ->
  forall t,
    (fix anyseq (t : bytes) : bool :=
       f t || match t with _ :: t' => anyseq t' | [] => false end) t = true
    <-> exists a b, t = a ++ b /\ P b.
Proof.
  intros Hf. induction t as [|x t IH].
  - rewrite orb_false_r, Hf. split.
    + intros H. exists [], []. auto.
    + intros (a & b & E & Hb). destruct a; [|discriminate]. cbn in E. subst b. exact Hb.
  - rewrite orb_true_iff, Hf, IH. split.
    + intros [H|(a & b & -> & Hb)].
      * exists [], (x :: t). auto.
      * exists (x :: a), b. auto.
    + intros (a & b & E & Hb). destruct a as [|y a].
      * cbn in E. subst b. left. exact Hb.
      * cbn in E. injection E as -> ->. right. exists a, b. auto.
Qed.

(** The executable matcher decides exactly the declarative relation. *)
Lemma wm_spec_len : forall n ts, (length ts <= n)%nat -> forall t, wm ts t = true <-> Matches ts t.
Proof.
  induction n as [|n IHn]; intros ts Hlen t.
  - destruct ts; [|cbn in Hlen; lia]. cbn.
    destruct t; split; try discriminate; try constructor. intros H; inversion H.
  - destruct ts as [|tok r].
    { cbn. destruct t; split; try discriminate; try constructor. intros H; inversion H. }
    cbn [length] in Hlen.
    assert (IH : forall t0, wm r t0 = true <-> Matches r t0) by (apply IHn; lia).
    destruct tok as [c| | | | |neg items|].
    + (* TLit *)
      cbn [wm]. destruct t as [|x t'].
      * split; [discriminate|intros H; inversion H].
      * rewrite andb_true_iff, N.eqb_eq, IH. split.
        -- intros [-> H]. constructor. exact H.
        -- intros H. inversion H; subst. auto.
    + (* TAny *)
      cbn [wm]. destruct t as [|x t'].
      * split; [discriminate|intros H; inversion H].
      * rewrite andb_true_iff, neqb_slash, IH. split.
        -- intros [Hx H]. constructor; assumption.
        -- intros H. inversion H; subst. auto.
    + (* TStar *)
      cbn [wm]. rewrite (star_loop_spec (wm r) (Matches r) IH). split.
      * intros (a & b & -> & Ha & Hb). constructor; assumption.
      * intros H. inversion H; subst. eauto.
    + (* TStars *)
      cbn [wm]. rewrite (star_loop_spec (wm r) (Matches r) IH). split.
      * intros (a & b & -> & Ha & Hb). constructor; assumption.
      * intros H. inversion H; subst. eauto.
    + (* TGlob *)
      cbn [wm]. destruct r as [|x r'].
      * split; [intros _; constructor|reflexivity].
      * assert (IH' : forall t0, wm r' t0 = true <-> Matches r' t0).
        { apply IHn. cbn [length] in Hlen. lia. }
        rewrite orb_true_iff, IH'.
        rewrite (anyseq_loop_spec (wm (x :: r')) (Matches (x :: r')) IH). split.
        -- intros [H|(a & b & -> & Hb)].
           ++ apply M_glob_zero. exact H.
           ++ apply M_glob_any. exact Hb.
        -- intros H. inversion H; subst; eauto.
    + (* TClass *)
      cbn [wm]. destruct t as [|x t'].
      * split; [discriminate|intros H; inversion H].
      * rewrite !andb_true_iff, neqb_slash, negb_true_iff, IH. split.
        -- intros [[Hx Hc] H]. constructor; try assumption.
           destruct (in_class items x), neg; cbn in *; congruence.
        -- intros H. inversion H; subst. repeat split; try assumption.
           match goal with Hc : in_class _ _ = _ |- _ => rewrite Hc end.
           destruct neg; reflexivity.
    + (* TBad *)
      cbn [wm]. split; [discriminate|intros H; inversion H].
Qed.

Theorem wm_spec ts t : wm ts t = true <-> Matches ts t.
Proof. apply (wm_spec_len (length ts)). lia. Qed.
