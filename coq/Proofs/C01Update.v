(** C01, part 3: [update_from_simplified] (lib/src/merge.rs:427-437) writes the terms of
    the simplified merge back to the surviving positions of the original. *)
From Verif Require Import Base.Prelude Model.Merge Proofs.MergeDen Proofs.C01 Proofs.C01Simp.
From Coq Require Import Lia Arith.

Definition write_all {A} (ps : list (nat * A)) (m : list A) : list A :=
  fold_left (fun acc p => set_nth (fst p) (snd p) acc) ps m.

Lemma write_all_length {A} (ps : list (nat * A)) : forall m, length (write_all ps m) = length m.
Proof.
  induction ps as [|p t IH]; intros m; [reflexivity|].
  unfold write_all in *. cbn [fold_left]. now rewrite IH, length_set_nth.
Qed.

Lemma write_all_outside {A} (ps : list (nat * A)) : forall m i,
  ~ In i (map fst ps) -> nth_error (write_all ps m) i = nth_error m i.
Proof.
  induction ps as [|p t IH]; intros m i H; [reflexivity|].
  unfold write_all in *. cbn [fold_left]. rewrite IH.
  - rewrite nth_error_set_nth. destruct (Nat.eqb (fst p) i) eqn:E; [|reflexivity].
    apply Nat.eqb_eq in E. exfalso. apply H. left. exact E.
  - intros C. apply H. right. exact C.
Qed.

Lemma write_all_inside {A} (ps : list (nat * A)) : forall m i v,
  NoDup (map fst ps) -> In (i, v) ps -> i < length m ->
  nth_error (write_all ps m) i = Some v.
Proof.
  induction ps as [|p t IH]; intros m i v Hnd Hin Hlt; [destruct Hin|].
  cbn [map] in Hnd. inversion Hnd as [|? ? Hnotin Hnd']; subst.
  unfold write_all in *. cbn [fold_left]. destruct Hin as [->|Hin].
  - cbn [fst snd] in *. fold (write_all t (set_nth i v m)).
    rewrite (write_all_outside t _ i Hnotin), nth_error_set_nth, Nat.eqb_refl.
    destruct (nth_error m i) eqn:E; [reflexivity|]. apply nth_error_None in E. lia.
  - apply IH; auto. now rewrite length_set_nth.
Qed.

Lemma set_nth_same {A} (l : list A) : forall i x, nth_error l i = Some x -> set_nth i x l = l.
Proof.
  induction l as [|h t IH]; intros [|i] x H; cbn in *; try discriminate.
  - now injection H as ->.
  - now rewrite IH.
Qed.

Lemma write_all_noop {A} (ps : list (nat * A)) : forall m,
  (forall p, In p ps -> nth_error m (fst p) = Some (snd p)) -> write_all ps m = m.
Proof.
  induction ps as [|p t IH]; intros m H; [reflexivity|].
  unfold write_all in *. cbn [fold_left]. rewrite set_nth_same by (apply H; now left).
  apply IH. intros q Hq. apply H. now right.
Qed.

Lemma nodup_fst_combine {A} (a : list nat) : forall (b : list A),
  NoDup a -> NoDup (map fst (combine a b)).
Proof.
  induction a as [|x t IH]; intros b H; [constructor|].
  destruct b as [|y b]; [constructor|]. inversion H as [|? ? Hn Hd]; subst.
  cbn [combine map fst]. constructor; [|now apply IH].
  intros C. apply in_map_iff in C as ([x' y'] & E & Hin). cbn in E. subst x'.
  apply in_combine_l in Hin. contradiction.
Qed.

Lemma nth_error_combine {A B} (a : list A) : forall (b : list B) j x y,
  nth_error a j = Some x -> nth_error b j = Some y -> nth_error (combine a b) j = Some (x, y).
Proof.
  induction a as [|h t IH]; intros b j x y Ha Hb; [now destruct j|].
  destruct b as [|hb tb]; [now destruct j|]. destruct j as [|j]; cbn in *.
  - congruence.
  - now apply IH.
Qed.

Lemma combine_fst_snd {A B} (l : list (A * B)) : combine (map fst l) (map snd l) = l.
Proof. induction l as [|[a b] t IH]; cbn; [reflexivity|now rewrite IH]. Qed.

Section C01Update.
  Context {T : Type} (eqb : T -> T -> bool).
  Hypothesis eqb_spec : forall x y, eqb x y = true <-> x = y.

  Lemma update_unfold m s :
    update_from_simplified eqb m s = write_all (combine (simplified_mapping eqb m) s) m.
  Proof. reflexivity. Qed.

  (** (d) the write-back lands exactly on the surviving positions. *)
  Lemma update_lands m s :
    Nat.odd (length m) = true ->
    length (update_from_simplified eqb m s) = length m
    /\ (forall i, ~ In i (simplified_mapping eqb m) ->
          nth_error (update_from_simplified eqb m s) i = nth_error m i)
    /\ (forall j i v, nth_error (simplified_mapping eqb m) j = Some i -> nth_error s j = Some v ->
          nth_error (update_from_simplified eqb m s) i = Some v).
  Proof.
    intros Hodd. rewrite update_unfold.
    destruct (simplified_mapping_sound eqb eqb_spec m Hodd) as (Hnd & Hlen & Hmap).
    split; [apply write_all_length|split].
    - intros i Hi. apply write_all_outside. intros C. apply Hi.
      apply in_map_iff in C as ([i' v] & E & Hin). cbn in E. subst i'.
      now apply in_combine_l in Hin.
    - intros j i v Hj Hv. apply write_all_inside.
      + now apply nodup_fst_combine.
      + eapply nth_error_In. apply nth_error_combine; eauto.
      + now destruct (Hmap j i Hj).
  Qed.

  (** Writing the unedited simplified form back changes nothing. *)
  Lemma update_same m :
    Nat.odd (length m) = true -> update_from_simplified eqb m (simplify eqb m) = m.
  Proof.
    intros Hodd. rewrite update_unfold. unfold simplified_mapping, simplify.
    rewrite combine_fst_snd. apply write_all_noop.
    intros p Hp. now apply (simplified_pairs_elem eqb eqb_spec).
  Qed.

  Lemma simplify_update_same m :
    Nat.odd (length m) = true ->
    simplify eqb (update_from_simplified eqb m (simplify eqb m)) = simplify eqb m.
  Proof. intros Hodd. now rewrite update_same. Qed.

  Lemma update_lands_guarded m s :
    Nat.odd (length m) = true -> length s = length (simplify eqb m) ->
    length (update_from_simplified eqb m s) = length m
    /\ (forall i, ~ In i (simplified_mapping eqb m) ->
          nth_error (update_from_simplified eqb m s) i = nth_error m i)
    /\ (forall j i, nth_error (simplified_mapping eqb m) j = Some i ->
          nth_error (update_from_simplified eqb m s) i = nth_error s j).
  Proof.
    intros Hodd Hlen. destruct (update_lands m s Hodd) as (A & B & C).
    split; [exact A|split; [exact B|]]. intros j i Hj.
    destruct (nth_error s j) as [v|] eqn:E; [exact (C j i v Hj E)|].
    apply nth_error_None in E.
    assert (H : j < length (simplified_mapping eqb m)) by (apply nth_error_Some; congruence).
    destruct (simplified_mapping_sound eqb eqb_spec m Hodd) as (_ & L & _).
    rewrite L, <- Hlen in H. lia.
  Qed.

  Lemma update_same_both m :
    Nat.odd (length m) = true ->
    update_from_simplified eqb m (simplify eqb m) = m
    /\ simplify eqb (update_from_simplified eqb m (simplify eqb m)) = simplify eqb m.
  Proof. intros Hodd. split; [now apply update_same|now apply simplify_update_same]. Qed.
End C01Update.
