(** C45: proofs about the model of pushing (Model/C45.v). *)
From Verif Require Import Base.Prelude Model.Merge Model.C34 Model.C45 Proofs.C34.
From Coq Require Import Lia Arith.
Local Open Scope N_scope.

(** * Folds that act key by key *)
Lemma fold_untouched {S A P} (key : A -> N) (step : S -> A -> S) (proj : S -> N -> P) :
  (forall e a n, n <> key a -> proj (step e a) n = proj e n) ->
  forall l e n, ~ In n (map key l) -> proj (fold_left step l e) n = proj e n.
Proof.
  intros H l. induction l as [|a l IH]; intros e n Hn; cbn [fold_left]; [reflexivity|].
  cbn [map In] in Hn. rewrite IH by tauto. apply H. intros C. apply Hn. now left.
Qed.
Lemma fold_keyed {S A P} (key : A -> N) (step : S -> A -> S) (proj : S -> N -> P)
  (eff : A -> P -> P) :
  (forall e a n, n <> key a -> proj (step e a) n = proj e n) ->
  (forall e a, proj (step e a) (key a) = eff a (proj e (key a))) ->
  forall l, NoDup (map key l) -> forall e a, In a l ->
    proj (fold_left step l e) (key a) = eff a (proj e (key a)).
Proof.
  intros Ho Hs l. induction l as [|x l IH]; intros Hnd e a Hin; [contradiction|].
  cbn [map] in Hnd. inversion Hnd as [|? ? Hn Hl]; subst. cbn [fold_left].
  destruct Hin as [->|Hin].
  - rewrite (fold_untouched key step proj Ho l (step e a) (key a) Hn). apply Hs.
  - rewrite (IH Hl (step e x) a Hin). rewrite Ho; [reflexivity|].
    intros C. apply Hn. rewrite <- C. now apply in_map.
Qed.

(** * Shapes *)
Lemma resolved_oid_of t : has_conflict t = false -> resolved (oid_of t) = t.
Proof.
  unfold has_conflict, oid_of, as_normal, resolved. destruct t as [|c [|d t]]; try discriminate.
  intros _. destruct (c =? 0) eqn:E; [|reflexivity]. apply N.eqb_eq in E. now subst.
Qed.

Lemma classify_update l rr b a :
  classify_ref_push_action l rr = PUpdate b a ->
  b = oid_of (tracked_target rr) /\ a = oid_of l
  /\ has_conflict l = false /\ has_conflict (tracked_target rr) = false
  /\ l <> tracked_target rr /\ a <> b.
Proof.
  unfold classify_ref_push_action.
  destruct (teqb l (tracked_target rr)) eqn:E; [discriminate|]. apply teqb_false in E.
  destruct (has_conflict l) eqn:Hl; [discriminate|].
  destruct (has_conflict (tracked_target rr)) eqn:Hr; [discriminate|].
  destruct (negb (is_absent (r_target rr)) && negb (r_tracked rr)); [discriminate|].
  intros H. injection H as <- <-. repeat split; try assumption.
  intros C. apply E. rewrite <- (resolved_oid_of l Hl), <- (resolved_oid_of _ Hr). congruence.
Qed.

(** [ref_updates]: at most one request per considered name. *)
Lemma ref_updates_in v names n b a :
  In (n, (b, a)) (ref_updates v names) <->
  In n names /\ classify_ref_push_action (get (j_local v) n) (rget (j_remote v) n) = PUpdate b a.
Proof.
  unfold ref_updates. rewrite in_flat_map. split.
  - intros [k [Hk H]].
    destruct (classify_ref_push_action (get (j_local v) k) (rget (j_remote v) k)) eqn:C;
      try contradiction.
    destruct H as [H|[]]. injection H as -> <- <-. auto.
  - intros [Hn C]. exists n. split; [assumption|]. rewrite C. now left.
Qed.
Lemma ref_updates_keys v names n : In n (map fst (ref_updates v names)) -> In n names.
Proof.
  intros H. apply in_map_iff in H. destruct H as [[k [b a]] [E H]]. cbn [fst] in E. subst k.
  now apply ref_updates_in in H.
Qed.
Lemma ref_updates_nodup v names : NoDup names -> NoDup (map fst (ref_updates v names)).
Proof.
  unfold ref_updates. induction names as [|k names IH]; cbn [flat_map]; intros H; [constructor|].
  inversion H as [|? ? Hn Hl]; subst. rewrite map_app. apply nodup_app; [|auto|].
  - destruct (classify_ref_push_action _ _); cbn; try constructor; [tauto|constructor].
  - intros x Hx C. apply (ref_updates_keys v names x) in C.
    destruct (classify_ref_push_action (get (j_local v) k) (rget (j_remote v) k));
      try contradiction.
    destruct Hx as [<-|[]]. contradiction.
Qed.

Lemma in_pushed_names (l : list (N * (N * N))) n :
  In n (map fst l) <-> filter (fun u => fst u =? n) l <> [].
Proof.
  induction l as [|[k x] l IH]; cbn [map fst In filter]; [tauto|].
  destruct (k =? n) eqn:E.
  - apply N.eqb_eq in E. subst. split; [discriminate|auto].
  - apply N.eqb_neq in E. rewrite <- IH. tauto.
Qed.


Definition acc (a : answer) : bool := answer_eqb a Accepted.

Section Push.
  Context (srv : N -> N -> N -> N -> answer * N).

  (** ** The request loop, ref by ref *)
  Definition pproj (st : push_state) (n : N) : N * list (N * (N * N)) * bool * bool :=
    (gget (p_remote st) n, filter (fun u => fst u =? n) (p_pushed st),
     mem N.eqb n (p_rejected st), mem N.eqb n (p_remote_rejected st)).

  Lemma filter_key_snoc_same {B} n (l : list (N * B)) x :
    filter (fun u => fst u =? n) (l ++ [(n, x)]) = filter (fun u => fst u =? n) l ++ [(n, x)].
  Proof. rewrite filter_app. cbn [filter fst]. now rewrite N.eqb_refl. Qed.
  Lemma filter_key_snoc_other {B} n m (l : list (N * B)) x : n <> m ->
    filter (fun u => fst u =? n) (l ++ [(m, x)]) = filter (fun u => fst u =? n) l.
  Proof.
    intros H. rewrite filter_app. cbn [filter fst]. apply not_eq_sym, N.eqb_neq in H.
    rewrite H. apply app_nil_r.
  Qed.
  Lemma mem_snoc n m l : mem N.eqb n (l ++ [m]) = mem N.eqb n l || (n =? m).
  Proof.
    unfold mem. rewrite existsb_app. cbn [existsb]. now rewrite Bool.orb_false_r.
  Qed.

  Lemma push_one_other st u n : n <> fst u -> pproj (push_one srv st u) n = pproj st n.
  Proof.
    intros H. destruct u as [m [b a]]. cbn [fst] in H. unfold push_one, pproj.
    destruct (srv m (gget (p_remote st) m) b a) as [ans cur'].
    cbn [p_remote p_pushed p_rejected p_remote_rejected]. rewrite gget_gset.
    assert (E : m =? n = false) by now apply N.eqb_neq, not_eq_sym. rewrite E.
    apply N.eqb_neq in H.
    destruct ans; rewrite ?filter_key_snoc_other, ?mem_snoc, ?H, ?Bool.orb_false_r
      by (now apply N.eqb_neq); reflexivity.
  Qed.
  Definition push_eff (u : N * (N * N)) (p : N * list (N * (N * N)) * bool * bool) :=
    let '(cur, ps, rj, rr) := p in
    let r := srv (fst u) cur (fst (snd u)) (snd (snd u)) in
    (snd r, if acc (fst r) then ps ++ [u] else ps,
     if answer_eqb (fst r) LeaseRejected then true else rj,
     if answer_eqb (fst r) RemoteRejected then true else rr).
  Lemma push_one_same st u : pproj (push_one srv st u) (fst u) = push_eff u (pproj st (fst u)).
  Proof.
    destruct u as [m [b a]]. cbn [fst snd]. unfold push_one, pproj, push_eff. cbn [fst snd].
    destruct (srv m (gget (p_remote st) m) b a) as [ans cur'].
    cbn [p_remote p_pushed p_rejected p_remote_rejected fst snd]. rewrite gget_gset, N.eqb_refl.
    destruct ans; cbn [acc answer_eqb];
      rewrite ?filter_key_snoc_same, ?mem_snoc, ?N.eqb_refl, ?Bool.orb_true_r; reflexivity.
  Qed.

  Definition after_requests (v : jview) (remote : gmap) (names : list N) : push_state :=
    fold_left (push_one srv) (ref_updates v names) (mk_push remote [] [] []).

  Lemma requests_not_asked v remote names n :
    ~ In n (map fst (ref_updates v names)) ->
    pproj (after_requests v remote names) n = (gget remote n, [], false, false).
  Proof.
    intros H. unfold after_requests.
    rewrite (fold_untouched fst (push_one srv) pproj push_one_other _ _ n H). reflexivity.
  Qed.
  Lemma requests_asked v remote names n b a : NoDup names ->
    In (n, (b, a)) (ref_updates v names) ->
    pproj (after_requests v remote names) n =
    let r := srv n (gget remote n) b a in
    (snd r, if acc (fst r) then [(n, (b, a))] else [],
     answer_eqb (fst r) LeaseRejected, answer_eqb (fst r) RemoteRejected).
  Proof.
    intros Hnd Hin. unfold after_requests.
    rewrite (fold_keyed fst (push_one srv) pproj push_eff push_one_other push_one_same
               _ (ref_updates_nodup v names Hnd) _ (n, (b, a)) Hin).
    unfold pproj, push_eff.
    cbn [p_remote p_pushed p_rejected p_remote_rejected fst snd filter mem existsb app].
    destruct (fst (srv n (gget remote n) b a)); reflexivity.
  Qed.

  (** ** The recording phase leaves everything of a name that was not pushed alone *)
  Definition vproj (v : jview) (n : N) : rref * target := (rget (j_remote v) n, get (j_grefs v) n).

  Lemma rfind_remove m k k' : rfind (remove k m) k' = if k =? k' then None else rfind m k'.
  Proof.
    unfold remove. induction m as [|[j r] m IH]; cbn [filter rfind fst].
    - now destruct (k =? k').
    - destruct (j =? k) eqn:E; cbn [negb rfind].
      + apply N.eqb_eq in E. subst. rewrite IH. destruct (k =? k'); reflexivity.
      + rewrite IH. destruct (j =? k') eqn:F; [|reflexivity].
        apply N.eqb_eq in F. subst. now rewrite N.eqb_sym, E.
  Qed.
  Lemma rget_set_remote_other v n r k : n <> k ->
    rget (j_remote (set_remote_bookmark v n r)) k = rget (j_remote v) k.
  Proof.
    intros H. unfold set_remote_bookmark, rget. cbn [j_remote]. apply N.eqb_neq in H.
    destruct (negb (is_absent (r_target r)) || _); cbn [rfind]; rewrite ?H, rfind_remove, H;
      reflexivity.
  Qed.
  Lemma set_remote_local v n r : j_local (set_remote_bookmark v n r) = j_local v.
  Proof. reflexivity. Qed.
  Lemma set_remote_grefs v n r : j_grefs (set_remote_bookmark v n r) = j_grefs v.
  Proof. reflexivity. Qed.

  Definition rproj (st : rec_state) (n : N) : rref * target * N :=
    (rget (j_remote (c_view st)) n, get (j_grefs (c_view st)) n, gget (c_backing st) n).

  Lemma record_delete_other st u n : n <> fst u -> rproj (record_delete st u) n = rproj st n.
  Proof.
    intros H. destruct u as [m [b a]]. cbn [fst] in H. unfold record_delete, rproj.
    destruct (is_tag m); [reflexivity|].
    destruct (a =? 0); [|reflexivity]. unfold delete_git_ref.
    destruct (gget (c_backing st) m =? 0).
    - cbn [c_view c_backing set_git_ref j_remote j_grefs]. rewrite get_set_other by congruence.
      reflexivity.
    - destruct (gget (c_backing st) m =? b); cbn [c_view c_backing set_git_ref j_remote j_grefs].
      + rewrite get_set_other, gget_gset by congruence.
        assert (E : m =? n = false) by now apply N.eqb_neq, not_eq_sym. now rewrite E.
      + reflexivity.
  Qed.
  Lemma record_update_other st u n : n <> fst u -> rproj (record_update st u) n = rproj st n.
  Proof.
    intros H. destruct u as [m [b a]]. cbn [fst] in H. unfold record_update, rproj.
    assert (E : m =? n = false) by now apply N.eqb_neq, not_eq_sym.
    destruct (is_tag m); [reflexivity|].
    destruct (a =? 0); [reflexivity|].
    unfold update_git_ref, create_git_ref, move_git_ref.
    destruct (b =? 0).
    - destruct (gget (c_backing st) m =? 0); [|destruct (gget (c_backing st) m =? a)];
        cbn [c_view c_backing set_git_ref j_remote j_grefs];
        rewrite ?get_set_other, ?gget_gset, ?E by congruence; reflexivity.
    - destruct (gget (c_backing st) m =? b);
        [|destruct (gget (c_backing st) m =? 0); [|destruct (gget (c_backing st) m =? a)]];
        cbn [c_view c_backing set_git_ref j_remote j_grefs];
        rewrite ?get_set_other, ?gget_gset, ?E by congruence; reflexivity.
  Qed.
  Lemma record_bm_other un v u n : n <> fst u ->
    vproj (record_remote_bookmark un v u) n = vproj v n.
  Proof.
    intros H. destruct u as [m [b a]]. cbn [fst] in H. unfold record_remote_bookmark, vproj.
    destruct (mem N.eqb m un); [reflexivity|].
    rewrite rget_set_remote_other by congruence. reflexivity.
  Qed.
  Lemma tracking_other backing u n : n <> fst u ->
    gget (git_tracking_update backing u) n = gget backing n.
  Proof.
    intros H. unfold git_tracking_update. rewrite gget_gset.
    assert (E : fst u =? n = false) by now apply N.eqb_neq, not_eq_sym. now rewrite E.
  Qed.

  (** push_refs never touches a local bookmark. *)
  Lemma record_delete_local st u : j_local (c_view (record_delete st u)) = j_local (c_view st).
  Proof.
    destruct u as [m [b a]]. unfold record_delete. destruct (is_tag m); [reflexivity|].
    destruct (a =? 0); [|reflexivity].
    destruct (delete_git_ref (c_backing st) m b) as [[r|] b']; reflexivity.
  Qed.
  Lemma record_update_local st u : j_local (c_view (record_update st u)) = j_local (c_view st).
  Proof.
    destruct u as [m [b a]]. unfold record_update. destruct (is_tag m); [reflexivity|].
    destruct (a =? 0); [reflexivity|].
    destruct (update_git_ref (c_backing st) m b a) as [[r|] b']; reflexivity.
  Qed.
  Lemma record_bm_local un v u : j_local (record_remote_bookmark un v u) = j_local v.
  Proof.
    destruct u as [m [b a]]. unfold record_remote_bookmark.
    destruct (mem N.eqb m un); reflexivity.
  Qed.

  Theorem push_keeps_local v remote backing names :
    j_local (q_view (push srv v remote backing names)) = j_local v.
  Proof.
    unfold push. cbn [q_view].
    set (pushed := p_pushed _).
    match goal with |- j_local (fold_left ?f ?l ?x) = _ =>
      transitivity (j_local x);
        [apply (fold_invariant (fun w => j_local w = j_local x) f l);
           [intros e a He; now rewrite record_bm_local|reflexivity]|] end.
    match goal with |- j_local (c_view (fold_left ?f ?l ?x)) = _ =>
      transitivity (j_local (c_view x));
        [apply (fold_invariant (fun w => j_local (c_view w) = j_local (c_view x)) f l);
           [intros e a He; now rewrite record_update_local|reflexivity]|] end.
    match goal with |- j_local (c_view (fold_left ?f ?l ?x)) = _ =>
      transitivity (j_local (c_view x));
        [apply (fold_invariant (fun w => j_local (c_view w) = j_local (c_view x)) f l);
           [intros e a He; now rewrite record_delete_local|reflexivity]|] end.
    reflexivity.
  Qed.

  (** A name that was not pushed keeps its remote-tracking bookmark, its recorded Git ref and
      its ref in the backing repository. *)
  Lemma not_pushed_untouched v remote backing names n :
    ~ In n (q_pushed (push srv v remote backing names)) ->
    let q := push srv v remote backing names in
    rget (j_remote (q_view q)) n = rget (j_remote v) n
    /\ get (j_grefs (q_view q)) n = get (j_grefs v) n
    /\ gget (q_backing q) n = gget backing n.
  Proof.
    unfold push. cbn [q_view q_backing q_pushed].
    set (pushed := p_pushed _). intros Hn. cbv zeta.
    set (b1 := fold_left git_tracking_update pushed backing).
    set (r1 := fold_left record_delete pushed (mk_rec v b1 [])).
    set (r2 := fold_left record_update pushed r1).
    assert (R2 : rproj r2 n = rproj (mk_rec v b1 []) n).
    { unfold r2, r1.
      rewrite (fold_untouched fst record_update rproj record_update_other pushed _ n Hn).
      now rewrite (fold_untouched fst record_delete rproj record_delete_other pushed _ n Hn). }
    assert (B1 : gget b1 n = gget backing n).
    { unfold b1. apply (fold_untouched fst git_tracking_update (fun b k => gget b k)); [|assumption].
      intros e a k Hk. now apply tracking_other. }
    assert (V : vproj (fold_left (record_remote_bookmark (map fst (c_unexported r2))) pushed (c_view r2)) n
                = vproj (c_view r2) n).
    { apply (fold_untouched fst (record_remote_bookmark _) vproj); [|assumption].
      intros e a k Hk. now apply record_bm_other. }
    unfold vproj in V. unfold rproj in R2. cbn [c_view c_backing] in R2.
    injection V as V1 V2. injection R2 as R21 R22 R23.
    repeat split; congruence.
  Qed.
End Push.

(** * The theorems of the property *)
Section Theorems.
  Context (srv : N -> N -> N -> N -> answer * N).
  (** The contract assumed of the remote (git's --force-with-lease, with or without server
      hooks): a ref changes only if its current value is the expected one, then to the
      requested value, and the update is reported as accepted. In particular both kinds of
      rejection leave the ref alone. *)
  Hypothesis srv_cas : forall n cur e v,
    snd (srv n cur e v) <> cur ->
    cur = e /\ snd (srv n cur e v) = v /\ fst (srv n cur e v) = Accepted.

  Lemma asked_dec v names n :
    {ba | In (n, ba) (ref_updates v names)} + {~ In n (map fst (ref_updates v names))}.
  Proof.
    induction (ref_updates v names) as [|[k ba] l IH].
    - right. intros [].
    - destruct (N.eq_dec k n) as [->|Hk].
      + left. exists ba. now left.
      + destruct IH as [[ba' H]|H].
        * left. exists ba'. now right.
        * right. cbn [map fst In]. tauto.
  Qed.

  Theorem push_cas v remote backing names n : NoDup names ->
    let q := push srv v remote backing names in
    gget (q_remote q) n <> gget remote n ->
    resolved (gget remote n) = tracked_target (rget (j_remote v) n)
    /\ resolved (gget (q_remote q) n) = get (j_local v) n
    /\ In n (q_pushed q) /\ In n names.
  Proof.
    intros Hnd q Hne. subst q. unfold push in *. cbn [q_remote q_pushed] in *.
    fold (after_requests srv v remote names) in *.
    destruct (asked_dec v names n) as [[[b a] Hin]|Hno].
    - pose proof (requests_asked srv v remote names n b a Hnd Hin) as P. cbv zeta in P.
      unfold pproj in P. injection P as P1 P2 P3 P4.
      rewrite P1 in Hne |- *. destruct (srv_cas _ _ _ _ Hne) as [C1 [C2 C3]].
      apply ref_updates_in in Hin. destruct Hin as [Hn Hc].
      apply classify_update in Hc. destruct Hc as [-> [-> [Hl [Hr _]]]].
      rewrite C2, C1, !resolved_oid_of by assumption.
      repeat split; try assumption.
      apply in_pushed_names. rewrite P2, C3. discriminate.
    - pose proof (requests_not_asked srv v remote names n Hno) as P.
      unfold pproj in P. injection P as P1 _ _ _. congruence.
  Qed.

  (** pushed, rejected (lease) and remote_rejected are pairwise disjoint subsets of the
      considered names. *)
  Lemma pushed_or_rejected v remote backing names n : NoDup names ->
    let q := push srv v remote backing names in
    (In n (q_pushed q) -> ~ In n (q_rejected q) /\ ~ In n (q_remote_rejected q))
    /\ (In n (q_rejected q) -> In n names /\ ~ In n (q_remote_rejected q))
    /\ (In n (q_remote_rejected q) -> In n names)
    /\ (In n (q_pushed q) -> In n names).
  Proof.
    intros Hnd q. subst q. unfold push. cbn [q_pushed q_rejected q_remote_rejected].
    fold (after_requests srv v remote names).
    destruct (asked_dec v names n) as [[[b a] Hin]|Hno].
    - pose proof (requests_asked srv v remote names n b a Hnd Hin) as P. cbv zeta in P.
      unfold pproj in P. injection P as _ P2 P3 P4.
      apply ref_updates_in in Hin. destruct Hin as [Hn _].
      rewrite in_pushed_names, <- !mem_spec, P2, P3, P4.
      destruct (fst (srv n (gget remote n) b a)); cbn [acc answer_eqb];
        repeat split; intros; try (now apply mem_spec); try discriminate; try congruence; auto.
    - pose proof (requests_not_asked srv v remote names n Hno) as P.
      unfold pproj in P. injection P as _ P2 P3 P4.
      rewrite in_pushed_names, <- !mem_spec, P2, P3, P4.
      repeat split; intros; try discriminate; try congruence.
  Qed.

  Theorem rejected_untouched v remote backing names n : NoDup names ->
    let q := push srv v remote backing names in
    j_local (q_view q) = j_local v
    /\ (~ In n (q_pushed q) ->
          gget (q_remote q) n = gget remote n
          /\ rget (j_remote (q_view q)) n = rget (j_remote v) n
          /\ get (j_grefs (q_view q)) n = get (j_grefs v) n
          /\ gget (q_backing q) n = gget backing n)
    /\ (In n (q_rejected q) \/ In n (q_remote_rejected q) -> ~ In n (q_pushed q)).
  Proof.
    intros Hnd q. split; [apply push_keeps_local|]. split.
    - intros Hn. split.
      + destruct (N.eq_dec (gget (q_remote q) n) (gget remote n)) as [E|E]; [assumption|].
        exfalso. apply Hn. now apply (push_cas v remote backing names n Hnd).
      + now apply not_pushed_untouched.
    - intros Hr Hp. destruct (pushed_or_rejected v remote backing names n Hnd) as [H _].
      destruct (H Hp). tauto.
  Qed.
End Theorems.

(** The behaviour of git 2.39 (against a remote whose update hook refuses the names in
    [deny]) that the correspondence runs use satisfies the contract. *)
Lemma git_srv_cas deny n cur e v :
  snd (git_srv deny n cur e v) <> cur ->
  cur = e /\ snd (git_srv deny n cur e v) = v /\ fst (git_srv deny n cur e v) = Accepted.
Proof.
  unfold git_srv. destruct (negb (v =? 0) && (cur =? v)); cbn [fst snd]; [congruence|].
  destruct (cur =? e) eqn:E; cbn [fst snd]; [|congruence].
  apply N.eqb_eq in E. destruct (mem N.eqb n deny); cbn [fst snd]; [congruence|auto].
Qed.
Lemma git_srv_accept_only deny n cur e v :
  fst (git_srv deny n cur e v) = Accepted -> cur = e \/ cur = v.
Proof.
  unfold git_srv. destruct (negb (v =? 0) && (cur =? v)) eqn:A; cbn [fst snd].
  - apply Bool.andb_true_iff in A. destruct A as [_ A]. apply N.eqb_eq in A. auto.
  - destruct (cur =? e) eqn:E; cbn [fst snd]; [|discriminate]. apply N.eqb_eq in E. auto.
Qed.
Lemma git_srv_accepted deny n cur e v :
  fst (git_srv deny n cur e v) = Accepted -> snd (git_srv deny n cur e v) = v.
Proof.
  unfold git_srv. destruct (negb (v =? 0) && (cur =? v)) eqn:A; cbn [fst snd].
  - apply Bool.andb_true_iff in A. destruct A as [_ A]. apply N.eqb_eq in A. auto.
  - destruct (cur =? e); cbn [fst snd]; [|discriminate].
    destruct (mem N.eqb n deny); cbn [fst snd]; [discriminate|auto].
Qed.
(** A stale lease is the only cause of a lease rejection. *)
Lemma git_srv_lease_complete deny n cur v : fst (git_srv deny n cur cur v) <> LeaseRejected.
Proof.
  unfold git_srv. destruct (negb (v =? 0) && (cur =? v)); cbn [fst]; [discriminate|].
  rewrite N.eqb_refl. destruct (mem N.eqb n deny); discriminate.
Qed.

Lemma git_contract deny n cur e v :
  (snd (git_srv deny n cur e v) <> cur ->
     cur = e /\ snd (git_srv deny n cur e v) = v /\ fst (git_srv deny n cur e v) = Accepted)
  /\ (fst (git_srv deny n cur e v) = Accepted -> cur = e \/ cur = v)
  /\ (fst (git_srv deny n cur e v) = Accepted -> snd (git_srv deny n cur e v) = v)
  /\ fst (git_srv deny n cur cur v) <> LeaseRejected.
Proof.
  split; [apply git_srv_cas|]. split; [apply git_srv_accept_only|].
  split; [apply git_srv_accepted|apply git_srv_lease_complete].
Qed.

(** * Accepted refs are recorded, and the record then equals the remote *)
Lemma fold_invariant_in {S A} (P : S -> Prop) (step : S -> A -> S) (l : list A) :
  (forall e a, In a l -> P e -> P (step e a)) -> forall e, P e -> P (fold_left step l e).
Proof.
  induction l as [|a l IH]; intros H e He; cbn [fold_left]; [assumption|].
  apply IH; [intros e' a' Hin; apply H; now right|]. apply H; [now left|assumption].
Qed.

Section Recorded.
  Context (srv : N -> N -> N -> N -> answer * N).
  Hypothesis srv_accepted : forall n cur e v,
    fst (srv n cur e v) = Accepted -> snd (srv n cur e v) = v.

  (** what is in [p_pushed] *)
  Lemma pushed_entries v remote names n b a : NoDup names ->
    In (n, (b, a)) (p_pushed (after_requests srv v remote names)) ->
    In (n, (b, a)) (ref_updates v names)
    /\ gget (p_remote (after_requests srv v remote names)) n = a.
  Proof.
    intros Hnd Hin.
    assert (Hf : In (n, (b, a)) (filter (fun u => fst u =? n) (p_pushed (after_requests srv v remote names)))).
    { apply filter_In. split; [assumption|]. cbn [fst]. apply N.eqb_refl. }
    destruct (asked_dec v names n) as [[[b' a'] Hask]|Hno].
    - pose proof (requests_asked srv v remote names n b' a' Hnd Hask) as P. cbv zeta in P.
      unfold pproj in P. injection P as P1 P2 _ _. rewrite P2 in Hf.
      destruct (fst (srv n (gget remote n) b' a')) eqn:F; cbn [acc answer_eqb] in Hf;
        try contradiction.
      destruct Hf as [E|[]]. injection E as -> ->. split; [assumption|].
      rewrite P1. now apply srv_accepted.
    - pose proof (requests_not_asked srv v remote names n Hno) as P.
      unfold pproj in P. injection P as _ P2 _ _. rewrite P2 in Hf. contradiction.
  Qed.
  Lemma pushed_keys_nodup v remote names : NoDup names ->
    NoDup (map fst (p_pushed (after_requests srv v remote names))).
  Proof.
    intros Hnd. unfold after_requests.
    pose proof (ref_updates_nodup v names Hnd) as Hu. revert Hu.
    generalize (ref_updates v names) as ups. intros ups.
    (* the pushed list is a sublist of the requests *)
    assert (G : forall st, NoDup (map fst (p_pushed st ++ ups)) ->
                NoDup (map fst (p_pushed (fold_left (push_one srv) ups st)))).
    { induction ups as [|u ups IH]; intros st H; cbn [fold_left].
      - now rewrite app_nil_r in H.
      - apply IH. destruct u as [m [b a]]. unfold push_one.
        destruct (srv m (gget (p_remote st) m) b a) as [ans cur']. cbn [p_pushed].
        destruct ans.
        + now rewrite <- app_assoc.
        + rewrite map_app in *. cbn [map fst] in H. apply NoDup_remove_1 in H. exact H.
        + rewrite map_app in *. cbn [map fst] in H. apply NoDup_remove_1 in H. exact H. }
    intros Hu. apply G. exact Hu.
  Qed.

  Definition RecInv (pushed : list (N * (N * N))) (st : rec_state) : Prop :=
    c_unexported st = []
    /\ forall n b a, In (n, (b, a)) pushed -> gget (c_backing st) n = a.

  Lemma record_delete_inv pushed st u :
    In u pushed -> RecInv pushed st ->
    RecInv pushed (record_delete st u)
    /\ c_backing (record_delete st u) = c_backing st.
  Proof.
    destruct u as [m [b a]]. intros Hin [I1 I2]. unfold record_delete.
    destruct (is_tag m); [split; [split|]; auto|].
    destruct (a =? 0) eqn:A; [|split; [split|]; auto].
    apply N.eqb_eq in A. subst a. unfold delete_git_ref.
    rewrite (I2 m b 0 Hin). cbn [N.eqb]. split; [split|]; auto.
  Qed.
  Lemma record_update_inv pushed st u :
    In u pushed -> snd (snd u) <> fst (snd u) -> RecInv pushed st ->
    RecInv pushed (record_update st u)
    /\ c_backing (record_update st u) = c_backing st.
  Proof.
    destruct u as [m [b a]]. cbn [fst snd]. intros Hin Hab [I1 I2]. unfold record_update.
    destruct (is_tag m); [split; [split|]; auto|].
    destruct (a =? 0) eqn:A; [split; [split|]; auto|].
    unfold update_git_ref, create_git_ref, move_git_ref. rewrite (I2 m b a Hin).
    rewrite A, N.eqb_refl.
    destruct (b =? 0); [split; [split|]; auto|].
    assert (E : a =? b = false) by now apply N.eqb_neq. rewrite E. split; [split|]; auto.
  Qed.

  Definition bproj (v : jview) (k : N) : rref * target := (rget (j_remote v) k, get (j_local v) k).
  Lemma record_bm_nil_other v u k : k <> fst u ->
    bproj (record_remote_bookmark [] v u) k = bproj v k.
  Proof.
    intros H. destruct u as [m [b a]]. cbn [fst] in H. unfold record_remote_bookmark, bproj.
    cbn [mem existsb]. rewrite rget_set_remote_other by congruence. reflexivity.
  Qed.
  Definition bm_eff (u : N * (N * N)) (p : rref * target) : rref * target :=
    let a := snd (snd u) in
    (if negb (is_absent (resolved a)) || negb (is_absent (snd p))
     then mk_rref (resolved a) true else absent_rref, snd p).
  Lemma record_bm_nil_same v u :
    bproj (record_remote_bookmark [] v u) (fst u) = bm_eff u (bproj v (fst u)).
  Proof.
    destruct u as [m [b a]]. cbn [fst]. unfold record_remote_bookmark, bproj, bm_eff.
    cbn [mem existsb snd fst]. unfold set_remote_bookmark, rget. cbn [j_remote j_local r_target r_tracked].
    cbn [andb].
    destruct (negb (is_absent (resolved a)) || negb (is_absent (get (j_local v) m))).
    - cbn [rfind]. now rewrite N.eqb_refl.
    - rewrite rfind_remove, N.eqb_refl. reflexivity.
  Qed.

  Definition gproj (st : rec_state) (k : N) : target := get (j_grefs (c_view st)) k.
  Lemma record_delete_gother st u k : k <> fst u -> gproj (record_delete st u) k = gproj st k.
  Proof.
    intros H. pose proof (record_delete_other st u k H) as R. unfold rproj in R.
    unfold gproj. congruence.
  Qed.
  Lemma record_update_gother st u k : k <> fst u -> gproj (record_update st u) k = gproj st k.
  Proof.
    intros H. pose proof (record_update_other st u k H) as R. unfold rproj in R.
    unfold gproj. congruence.
  Qed.

  Lemma unique_entry (l : list (N * (N * N))) n x y :
    NoDup (map fst l) -> In (n, x) l -> In (n, y) l -> x = y.
  Proof.
    induction l as [|u l IH]; [contradiction|]. cbn [map]. intros Hnd Hx Hy.
    inversion Hnd as [|? ? Hn Hl]; subst.
    destruct Hx as [->|Hx], Hy as [E|Hy].
    - now injection E.
    - exfalso. apply Hn. cbn [fst]. now apply (in_map fst) in Hy.
    - exfalso. apply Hn. rewrite E. cbn [fst]. now apply (in_map fst) in Hx.
    - now apply IH.
  Qed.

  Lemma grefs_after_update l : forall e n b a, is_tag n = false ->
    NoDup (map fst l) -> In (n, (b, a)) l -> a <> 0 -> a <> b -> gget (c_backing e) n = a ->
    gproj (fold_left record_update l e) n = resolved a.
  Proof.
    induction l as [|u l IH]; intros e n b a Ht Hnd Hin Ha Hab; [contradiction|].
    cbn [map] in Hnd. inversion Hnd as [|? ? Hn Hl]; subst. intros Hba. cbn [fold_left].
    destruct Hin as [->|Hin].
    - assert (G : gproj (record_update e (n, (b, a))) n = resolved a).
      { unfold record_update, gproj. rewrite Ht.
        assert (A : a =? 0 = false) by now apply N.eqb_neq. rewrite A.
        unfold update_git_ref, create_git_ref, move_git_ref. rewrite Hba, A, N.eqb_refl.
        assert (E : a =? b = false) by now apply N.eqb_neq.
        destruct (b =? 0); [|rewrite E];
          cbn [c_view c_backing set_git_ref j_grefs]; now rewrite get_set_same. }
      rewrite <- G.
      apply (fold_untouched fst record_update gproj record_update_gother). exact Hn.
    - apply (IH _ n b a); auto.
      assert (Hk : n <> fst u).
      { intros C. apply Hn. rewrite <- C. now apply (in_map fst) in Hin. }
      pose proof (record_update_other e u n Hk) as R. unfold rproj in R. congruence.
  Qed.

  (** For tags git_refs is not involved at all. *)
  Lemma grefs_tag_untouched n : is_tag n = true -> forall l e,
    gproj (fold_left record_update l (fold_left record_delete l e)) n = gproj e n.
  Proof.
    intros Ht.
    assert (D : forall e u, gproj (record_delete e u) n = gproj e n).
    { intros e [m [b a]]. destruct (N.eq_dec n m) as [<-|Hk].
      - unfold record_delete. now rewrite Ht.
      - now apply record_delete_gother. }
    assert (U : forall e u, gproj (record_update e u) n = gproj e n).
    { intros e [m [b a]]. destruct (N.eq_dec n m) as [<-|Hk].
      - unfold record_update. now rewrite Ht.
      - now apply record_update_gother. }
    intros l e.
    transitivity (gproj (fold_left record_delete l e) n).
    - apply (fold_invariant (fun w => gproj w n = gproj (fold_left record_delete l e) n));
        [intros w u Hw; now rewrite U|reflexivity].
    - apply (fold_invariant (fun w => gproj w n = gproj e n));
        [intros w u Hw; now rewrite D|reflexivity].
  Qed.

  Lemma grefs_update_skips_deletion l : forall e n b,
    NoDup (map fst l) -> In (n, (b, 0)) l ->
    gproj (fold_left record_update l e) n = gproj e n.
  Proof.
    induction l as [|u l IH]; intros e n b Hnd Hin; [contradiction|].
    cbn [map] in Hnd. inversion Hnd as [|? ? Hn Hl]; subst. cbn [fold_left].
    destruct Hin as [->|Hin].
    - rewrite (fold_untouched fst record_update gproj record_update_gother l _ n Hn).
      unfold record_update. destruct (is_tag n); reflexivity.
    - rewrite (IH _ n b Hl Hin). apply record_update_gother.
      intros C. apply Hn. rewrite <- C. now apply (in_map fst) in Hin.
  Qed.

  Lemma grefs_after_delete l : forall e n b, is_tag n = false ->
    NoDup (map fst l) -> In (n, (b, 0)) l -> gget (c_backing e) n = 0 ->
    gproj (fold_left record_delete l e) n = absent.
  Proof.
    induction l as [|u l IH]; intros e n b Ht Hnd Hin Hb0; [contradiction|].
    cbn [map] in Hnd. inversion Hnd as [|? ? Hn Hl]; subst. cbn [fold_left].
    destruct Hin as [->|Hin].
    - assert (G : gproj (record_delete e (n, (b, 0))) n = absent).
      { unfold record_delete, gproj, delete_git_ref. rewrite Ht. cbn [N.eqb]. rewrite Hb0. cbn [N.eqb].
        cbn [c_view set_git_ref j_grefs]. now rewrite get_set_same. }
      rewrite <- G.
      apply (fold_untouched fst record_delete gproj record_delete_gother). exact Hn.
    - apply (IH _ n b); auto.
      assert (Hk : n <> fst u).
      { intros C. apply Hn. rewrite <- C. now apply (in_map fst) in Hin. }
      pose proof (record_delete_other e u n Hk) as R. unfold rproj in R. congruence.
  Qed.

  Theorem pushed_recorded v remote backing names n : NoDup names ->
    let q := push srv v remote backing names in
    q_unexported q = []
    /\ (In n (q_pushed q) ->
        resolved (gget (q_remote q) n) = get (j_local v) n
        /\ tracked_target (rget (j_remote (q_view q)) n) = resolved (gget (q_remote q) n)
        /\ get (j_grefs (q_view q)) n =
           (if is_tag n then get (j_grefs v) n else resolved (gget (q_remote q) n))
        /\ gget (q_backing q) n = gget (q_remote q) n).
  Proof.
    intros Hnd. unfold push. cbn [q_view q_remote q_backing q_pushed q_unexported].
    fold (after_requests srv v remote names).
    set (st := after_requests srv v remote names).
    set (pushed := p_pushed st).
    assert (PE : forall k b a, In (k, (b, a)) pushed ->
                 In (k, (b, a)) (ref_updates v names) /\ gget (p_remote st) k = a).
    { intros k b a. apply pushed_entries. assumption. }
    assert (PN : NoDup (map fst pushed)) by now apply pushed_keys_nodup.
    assert (AB : forall u, In u pushed -> snd (snd u) <> fst (snd u)).
    { intros [k [b a]] Hin. cbn [fst snd]. apply PE in Hin. destruct Hin as [Hin _].
      apply ref_updates_in in Hin. destruct Hin as [_ Hc]. apply classify_update in Hc. tauto. }
    set (b1 := fold_left git_tracking_update pushed backing).
    assert (B1 : forall k b a, In (k, (b, a)) pushed -> gget b1 k = a).
    { intros k b a Hin. unfold b1.
      assert (Sm : forall e x, gget (git_tracking_update e x) (fst x) = snd (snd x)).
      { intros e x. unfold git_tracking_update. now rewrite gget_gset, N.eqb_refl. }
      pose proof (fold_keyed fst git_tracking_update (fun g j => gget g j) (fun u _ => snd (snd u))
                 (fun e x j Hj => tracking_other e x j Hj) Sm
                 pushed PN backing (k, (b, a)) Hin) as F.
      cbn [fst snd] in F. exact F. }
    set (r0 := mk_rec v b1 []).
    assert (I0 : RecInv pushed r0) by (split; [reflexivity|exact B1]).
    set (r1 := fold_left record_delete pushed r0).
    assert (I1 : RecInv pushed r1 /\ c_backing r1 = b1).
    { unfold r1. apply (fold_invariant_in (fun s => RecInv pushed s /\ c_backing s = b1)); [|auto].
      intros e u Hin [He Hb]. destruct (record_delete_inv pushed e u Hin He) as [A B].
      split; [assumption|congruence]. }
    set (r2 := fold_left record_update pushed r1).
    assert (I2 : RecInv pushed r2 /\ c_backing r2 = b1).
    { unfold r2. apply (fold_invariant_in (fun s => RecInv pushed s /\ c_backing s = b1)); [|auto].
      intros e u Hin [He Hb]. destruct (record_update_inv pushed e u Hin (AB u Hin) He) as [A B].
      split; [assumption|congruence]. }
    destruct I2 as [[U2 _] BK2]. split; [exact U2|].
    intros Hin. apply in_map_iff in Hin. destruct Hin as [[k [b a]] [Ek Hin]]. cbn [fst] in Ek. subst k.
    destruct (PE n b a Hin) as [Hask Hrem].
    apply ref_updates_in in Hask. destruct Hask as [_ Hc]. apply classify_update in Hc.
    destruct Hc as [Hb [Ha [Hl [Hr [_ Hab]]]]].
    rewrite Hrem, BK2, (B1 n b a Hin).
    assert (LA : resolved a = get (j_local v) n) by (rewrite Ha; now apply resolved_oid_of).
    split; [exact LA|]. split; [|split; [|reflexivity]].
    - rewrite U2. cbn [map].
      assert (L2 : j_local (c_view r2) = j_local v).
      { unfold r2, r1.
        transitivity (j_local (c_view (fold_left record_delete pushed r0))).
        - apply (fold_invariant (fun w => j_local (c_view w) = j_local (c_view (fold_left record_delete pushed r0)))).
          + intros e x He. now rewrite record_update_local.
          + reflexivity.
        - transitivity (j_local (c_view r0)); [|reflexivity].
          apply (fold_invariant (fun w => j_local (c_view w) = j_local (c_view r0))).
          + intros e x He. now rewrite record_delete_local.
          + reflexivity. }
      pose proof (fold_keyed fst (record_remote_bookmark []) bproj bm_eff
                    record_bm_nil_other record_bm_nil_same pushed PN (c_view r2) (n, (b, a)) Hin) as F.
      cbn [fst] in F. unfold bproj, bm_eff in F. cbn [fst snd] in F. injection F as F1 _.
      rewrite F1, L2, <- LA. unfold is_absent, resolved.
      destruct (a =? 0) eqn:Z; cbn [negb orb].
      + apply N.eqb_eq in Z. rewrite Z. reflexivity.
      + reflexivity.
    - (* git_refs *)
      assert (G3 : get (j_grefs (fold_left (record_remote_bookmark (map fst (c_unexported r2))) pushed (c_view r2))) n
                   = get (j_grefs (c_view r2)) n).
      { f_equal. apply (fold_invariant (fun w => j_grefs w = j_grefs (c_view r2))); [|reflexivity].
        intros e [m [b' a']] He. unfold record_remote_bookmark.
        destruct (mem N.eqb m (map fst (c_unexported r2))); [assumption|]. now rewrite set_remote_grefs. }
      rewrite G3. destruct I1 as [_ BK1].
      destruct (is_tag n) eqn:Ht.
      { change (gproj r2 n = gproj r0 n). unfold r2, r1. now apply grefs_tag_untouched. }
      destruct (a =? 0) eqn:A.
      + apply N.eqb_eq in A. rewrite A in *.
        change (gproj r2 n = resolved 0). unfold r2.
        rewrite (grefs_update_skips_deletion pushed r1 n b PN Hin). unfold r1.
        apply (grefs_after_delete pushed r0 n b Ht PN Hin). cbn [r0 c_backing]. exact (B1 n b 0 Hin).
      + apply N.eqb_neq in A. change (gproj r2 n = resolved a). unfold r2.
        apply (grefs_after_update pushed r1 n b a Ht PN Hin A Hab). rewrite BK1. exact (B1 n b a Hin).
  Qed.
End Recorded.

(** * The checker evaluated on the observed states around a real push *)
Lemma rref_eqb_spec a b : rref_eqb a b = true <-> a = b.
Proof.
  destruct a as [ta ka], b as [tb kb]. unfold rref_eqb. cbn [r_target r_tracked].
  rewrite Bool.andb_true_iff, teqb_spec, Bool.eqb_true_iff. split.
  - intros [-> ->]. reflexivity.
  - intros H. injection H. auto.
Qed.

Definition PushOk (ns : list N) (pre post : psnap) (pushed rejected : list N) (n : N) : Prop :=
  let l := get (s_local pre) n in
  let rr := rget (rrmap_of (s_remote_bm pre)) n in
  let rr' := rget (rrmap_of (s_remote_bm post)) n in
  let c := gget (s_remote pre) n in
  let c' := gget (s_remote post) n in
  get (s_local post) n = l
  /\ (c' = c \/ (tracked_target rr = resolved c /\ In n pushed /\ l = resolved c'))
  /\ (~ In n pushed ->
        rr' = rr /\ get (s_grefs post) n = get (s_grefs pre) n
        /\ gget (s_backing post) n = gget (s_backing pre) n /\ c' = c)
  /\ (In n pushed ->
        tracked_target rr' = l /\ resolved c' = l
        /\ get (s_grefs post) n = (if is_tag n then get (s_grefs pre) n else l)
        /\ gget (s_backing post) n = c')
  /\ (rr' = rr \/ tracked_target rr' = resolved c')
  /\ (In n rejected -> ~ In n pushed /\ In n ns).

Lemma push_name_ok_spec ns pre post pushed rejected n :
  push_name_ok ns pre post pushed rejected n = true <-> PushOk ns pre post pushed rejected n.
Proof.
  unfold push_name_ok, PushOk. cbv zeta.
  destruct (mem N.eqb n pushed) eqn:M; [apply mem_spec in M|apply mem_false in M];
    destruct (mem N.eqb n rejected) eqn:R; [apply mem_spec in R|apply mem_false in R| apply mem_spec in R|apply mem_false in R];
    destruct (is_tag n);
    cbn [negb andb]; rewrite ?Bool.andb_true_r;
    rewrite ?Bool.andb_true_iff, ?Bool.orb_true_iff, ?Bool.andb_true_iff, ?teqb_spec,
      ?rref_eqb_spec, ?N.eqb_eq, ?mem_spec;
    intuition (try congruence; try discriminate).
Qed.

Section ModelPasses.
  Definition psnap_of (w : world) : psnap :=
    mk_psnap (j_local (w_view w))
             (map (fun p => (fst p, (r_target (snd p), r_tracked (snd p)))) (j_remote (w_view w)))
             (j_grefs (w_view w)) (w_backing w) (w_remote w).

  Lemma rget_roundtrip m n :
    rget (rrmap_of (map (fun p => (fst p, (r_target (snd p), r_tracked (snd p)))) m)) n = rget m n.
  Proof.
    unfold rget, rrmap_of. rewrite map_map. cbn [fst snd].
    induction m as [|[k [t b]] m IH]; cbn [map rfind fst snd rr_of r_target r_tracked]; [reflexivity|].
    destruct (k =? n); [reflexivity|exact IH].
  Qed.

  (** The model's own push (with git's observed behaviour, hooks included) satisfies the
      checker. *)
  Theorem model_push_ok deny v remote backing ns n : NoDup ns ->
    let q := push (git_srv deny) v remote backing ns in
    PushOk ns (psnap_of (mk_world v remote backing))
              (psnap_of (mk_world (q_view q) (q_remote q) (q_backing q)))
              (q_pushed q) (q_rejected q ++ q_remote_rejected q) n.
  Proof.
    intros Hnd q. unfold PushOk, psnap_of.
    cbn [s_local s_remote_bm s_grefs s_backing s_remote w_view w_remote w_backing].
    rewrite !rget_roundtrip.
    destruct (rejected_untouched (git_srv deny) (git_srv_cas deny) v remote backing ns n Hnd) as [L [U RJ]].
    destruct (pushed_recorded (git_srv deny) (git_srv_accepted deny) v remote backing ns n Hnd) as [_ P].
    fold q in L, U, RJ, P.
    split; [now rewrite L|]. split; [|split; [|split; [|split]]].
    - destruct (N.eq_dec (gget (q_remote q) n) (gget remote n)) as [E|E]; [now left|right].
      destruct (push_cas (git_srv deny) (git_srv_cas deny) v remote backing ns n Hnd E) as [A [B [C _]]].
      fold q in B, C. auto.
    - intros Hn. destruct (U Hn) as [A [B [C D]]]. auto.
    - intros Hp. destruct (P Hp) as [A [B [C D]]]. rewrite B, C, <- A. auto.
    - destruct (in_dec N.eq_dec n (q_pushed q)) as [Hp|Hn].
      + right. destruct (P Hp) as [_ [B _]]. exact B.
      + left. now destruct (U Hn) as [_ [B _]].
    - intros Hr. apply in_app_iff in Hr. split; [now apply RJ|].
      destruct (pushed_or_rejected (git_srv deny) v remote backing ns n Hnd) as [_ [H1 [H2 _]]].
      destruct Hr as [Hr|Hr]; [now apply H1|now apply H2].
  Qed.
End ModelPasses.

(** * Schedules: every change of the remote is attributed *)
Section Schedules.
  Context (srv : N -> N -> N -> N -> answer * N) (anc : N -> N -> bool) (auto : bool).
  Hypothesis srv_cas : forall n cur e v,
    snd (srv n cur e v) <> cur ->
    cur = e /\ snd (srv n cur e v) = v /\ fst (srv n cur e v) = Accepted.

  Definition push_names_ok (s : pstep) : Prop :=
    match s with Push ns _ _ _ _ _ _ => NoDup ns | _ => True end.

  (** One step of any schedule from any world: if the remote's value of [n] changed, then
      either somebody else did it, or it was a jj push that considered [n] while the remote
      still had exactly the value jj had recorded, and the new value is jj's local bookmark. *)
  Theorem remote_change_attributed w s n : push_names_ok s ->
    gget (w_remote (step_world srv anc auto w s)) n <> gget (w_remote w) n ->
    (exists c, s = Ext n c)
    \/ (exists ns pre post pushed rejected rrejected unexported,
          s = Push ns pre post pushed rejected rrejected unexported /\ In n ns
          /\ resolved (gget (w_remote w) n) = tracked_target (rget (j_remote (w_view w)) n)
          /\ resolved (gget (w_remote (step_world srv anc auto w s)) n) = get (j_local (w_view w)) n).
  Proof.
    destruct s as [m c|m t|m b|pre post|ns pre post pushed rejected rrejected unexported];
      cbn [step_world w_remote push_names_ok]; intros Hnd Hne; try congruence.
    - left. exists c. rewrite gget_gset in Hne.
      destruct (m =? n) eqn:E; [apply N.eqb_eq in E; now subst|congruence].
    - right. exists ns, pre, post, pushed, rejected, rrejected, unexported.
      destruct (push_cas srv srv_cas (w_view w) (w_remote w) (w_backing w) ns n Hnd Hne) as [A [B [_ D]]].
      auto.
  Qed.

  (** The same along a whole schedule: at every position of every schedule. *)
  Theorem schedule_remote_changes_attributed steps1 s n w0 : push_names_ok s ->
    let w := run_world srv anc auto steps1 w0 in
    gget (w_remote (step_world srv anc auto w s)) n <> gget (w_remote w) n ->
    (exists c, s = Ext n c)
    \/ (exists ns pre post pushed rejected rrejected unexported,
          s = Push ns pre post pushed rejected rrejected unexported /\ In n ns
          /\ resolved (gget (w_remote w) n) = tracked_target (rget (j_remote (w_view w)) n)
          /\ resolved (gget (w_remote (step_world srv anc auto w s)) n) = get (j_local (w_view w)) n).
  Proof. intros H w. apply remote_change_attributed. exact H. Qed.

  (** The remote accepts only when the lease matches or the ref already has the new value. *)
  Hypothesis srv_accept_only : forall n cur e v,
    fst (srv n cur e v) = Accepted -> cur = e \/ cur = v.

  (** A push that finds the remote at a value different from jj's record (and not already at
      the value jj wants to push) is rejected for that ref: the remote ref, jj's record of
      it, the recorded Git ref and the local bookmark stay exactly as they were. For any world,
      hence after any schedule, in particular with external updates between fetch and push. *)
  Theorem stale_push_untouched w ns n : NoDup ns ->
    resolved (gget (w_remote w) n) <> tracked_target (rget (j_remote (w_view w)) n) ->
    gget (w_remote w) n <> oid_of (get (j_local (w_view w)) n) ->
    let q := push srv (w_view w) (w_remote w) (w_backing w) ns in
    ~ In n (q_pushed q)
    /\ gget (q_remote q) n = gget (w_remote w) n
    /\ rget (j_remote (q_view q)) n = rget (j_remote (w_view w)) n
    /\ get (j_grefs (q_view q)) n = get (j_grefs (w_view w)) n
    /\ j_local (q_view q) = j_local (w_view w).
  Proof.
    intros Hnd Hst Hnew q.
    assert (Hnp : ~ In n (q_pushed q)).
    { intros Hp. unfold q, push in Hp. cbn [q_pushed] in Hp.
      fold (after_requests srv (w_view w) (w_remote w) ns) in Hp.
      apply in_pushed_names in Hp.
      destruct (asked_dec (w_view w) ns n) as [[[b a] Hask]|Hno].
      - pose proof (requests_asked srv (w_view w) (w_remote w) ns n b a Hnd Hask) as P.
        cbv zeta in P. unfold pproj in P. injection P as _ P2 _ _. rewrite P2 in Hp.
        destruct (fst (srv n (gget (w_remote w) n) b a)) eqn:F; cbn [acc answer_eqb] in Hp;
          [|now apply Hp|now apply Hp].
        apply ref_updates_in in Hask. destruct Hask as [_ Hc]. apply classify_update in Hc.
        destruct Hc as [Hb [Ha [Hl [Hr _]]]].
        destruct (srv_accept_only _ _ _ _ F) as [E|E].
        + apply Hst. rewrite E, Hb. now apply resolved_oid_of.
        + apply Hnew. now rewrite E, Ha.
      - pose proof (requests_not_asked srv (w_view w) (w_remote w) ns n Hno) as P.
        unfold pproj in P. injection P as _ P2 _ _. now rewrite P2 in Hp. }
    destruct (rejected_untouched srv srv_cas (w_view w) (w_remote w) (w_backing w) ns n Hnd)
      as [L [U _]]. fold q in L, U.
    destruct (U Hnp) as [A [B [C _]]]. auto.
  Qed.
End Schedules.

(** * Agreement with the model implies that the checker accepts the observed pushes *)
Definition PAt (a b : psnap) (n : N) : Prop :=
  get (s_local a) n = get (s_local b) n
  /\ rget (rrmap_of (s_remote_bm a)) n = rget (rrmap_of (s_remote_bm b)) n
  /\ get (s_grefs a) n = get (s_grefs b) n
  /\ gget (s_backing a) n = gget (s_backing b) n
  /\ gget (s_remote a) n = gget (s_remote b) n.

Lemma world_eqb_on_spec names w o :
  world_eqb_on names w o = true -> forall n, In n names -> PAt (psnap_of w) o n.
Proof.
  unfold world_eqb_on. rewrite forallb_forall. intros H n Hn. specialize (H n Hn).
  rewrite !Bool.andb_true_iff, !teqb_spec, rref_eqb_spec, !N.eqb_eq in H.
  destruct H as [[[[H1 H2] H3] H4] H5].
  unfold PAt, psnap_of. cbn [s_local s_remote_bm s_grefs s_backing s_remote].
  rewrite rget_roundtrip. auto.
Qed.

Lemma PushOk_transfer ns a a' b b' pushed rejected n :
  PAt a a' n -> PAt b b' n ->
  PushOk ns a b pushed rejected n -> PushOk ns a' b' pushed rejected n.
Proof.
  intros [A1 [A2 [A3 [A4 A5]]]] [B1 [B2 [B3 [B4 B5]]]]. unfold PushOk. cbv zeta.
  rewrite <- A1, <- A2, <- A3, <- A4, <- A5, <- B1, <- B2, <- B3, <- B4, <- B5. auto.
Qed.

Lemma in_names_spec names l : in_names names l = true <-> (forall x, In x l -> In x names).
Proof.
  unfold in_names. rewrite forallb_forall. split; intros H x Hx; specialize (H x Hx);
    now apply mem_spec.
Qed.

Lemma nodupb_spec l : nodupb l = true -> NoDup l.
Proof.
  induction l as [|x l IH]; cbn [nodupb]; intros H; [constructor|].
  apply Bool.andb_true_iff in H. destruct H as [H1 H2].
  constructor; [|auto]. apply Bool.negb_true_iff in H1. now apply mem_false.
Qed.

Theorem replay_implies_steps_ok anc auto deny names steps : forall w,
  replay anc auto deny names steps w = true -> steps_ok names steps = true.
Proof.
  induction steps as [|s r IH]; intros w Hr; [reflexivity|].
  destruct s as [m c|m t|m b|pre post|ns pre post pushed rejected rrejected unexported];
    cbn [replay steps_ok] in *.
  - eapply IH; eassumption.
  - eapply IH; eassumption.
  - eapply IH; eassumption.
  - destruct (fetch anc auto (w_view w) (w_remote w)) as [v' b'].
    rewrite !Bool.andb_true_iff in Hr. destruct Hr as [_ Hrest]. eapply IH; eassumption.
  - set (q := push (git_srv deny) (w_view w) (w_remote w) (w_backing w) ns) in *.
    rewrite !Bool.andb_true_iff in Hr.
    destruct Hr as [[[[[[[[[Hs _] _] Hpre] Hpost] Hp] Hj] Hrj] Hu] Hrest].
    apply nodupb_spec in Hs.
    apply list_eqb_N_spec in Hp, Hj, Hrj. apply N.eqb_eq in Hu.
    pose proof (fun x => pushed_or_rejected (git_srv deny) (w_view w) (w_remote w) (w_backing w) ns x Hs) as PR.
    rewrite !Bool.andb_true_iff. split; [split; [split; [split; [split|]|]|]|].
    + apply forallb_forall. intros n Hn. apply push_name_ok_spec.
      pose proof (model_push_ok deny (w_view w) (w_remote w) (w_backing w) ns n Hs) as M.
      cbv zeta in M. fold q in M. rewrite Hp, Hj, Hrj in M.
      eapply PushOk_transfer; [| |exact M].
      * destruct w as [v rm bk]. exact (world_eqb_on_spec names _ pre Hpre n Hn).
      * exact (world_eqb_on_spec names _ post Hpost n Hn).
    + apply in_names_spec. intros x Hx. rewrite <- Hp in Hx.
      destruct (PR x) as [_ [_ [_ H]]]. now apply H.
    + apply in_names_spec. intros x Hx. rewrite <- Hj in Hx.
      destruct (PR x) as [_ [H _]]. now apply H.
    + apply in_names_spec. intros x Hx. rewrite <- Hrj in Hx.
      destruct (PR x) as [_ [_ [H _]]]. now apply H.
    + destruct (pushed_recorded (git_srv deny) (git_srv_accepted deny) (w_view w) (w_remote w) (w_backing w) ns 0 Hs) as [U _].
      fold q in U. rewrite U in Hu. cbn in Hu. subst unexported. reflexivity.
    + eapply IH; eassumption.
Qed.

Theorem corr_implies_okb c :
  c_flags_ok c = true ->
  replay (ancb (c_graph c)) (c_auto_track c) (c_denied c) (c_names c) (c_steps c) empty_world = true ->
  okb c = true.
Proof.
  intros Hf Hr. unfold okb. rewrite Hf. cbn [andb].
  eapply replay_implies_steps_ok; eassumption.
Qed.

(** * After a fetch jj's records are the remote's values, so a push that follows without an
    external update in between is accepted for every requested ref (the lease never rejects
    without cause). *)
Lemma oid_of_resolved c : oid_of (resolved c) = c.
Proof.
  unfold oid_of, resolved, as_normal. destruct (c =? 0) eqn:E; [|reflexivity].
  apply N.eqb_eq in E. now subst.
Qed.

Lemma rfind_notin (m : rrmap) k : ~ In k (keys m) -> rfind m k = None.
Proof.
  unfold keys. induction m as [|[j r] m IH]; cbn [rfind map fst In]; [reflexivity|].
  intros H. destruct (j =? k) eqn:E; [apply N.eqb_eq in E; tauto|]. apply IH. tauto.
Qed.

Section FetchThenPush.
  Context (anc : N -> N -> bool) (auto : bool).

  Definition tproj (v : jview) (k : N) : target := r_target (rget (j_remote v) k).

  Lemma rget_set_local_other v n t k : k <> n ->
    rget (j_remote (set_local_bookmark v n t)) k = rget (j_remote v) k.
  Proof.
    intros H. unfold set_local_bookmark, rget. cbn [j_remote].
    destruct (is_absent t); [|reflexivity].
    destruct (rfind (j_remote v) n) as [r|]; [|reflexivity].
    destruct (is_absent (r_target r)); [|reflexivity].
    rewrite rfind_remove. apply not_eq_sym, N.eqb_neq in H. now rewrite H.
  Qed.
  Lemma rget_set_remote_same v n r :
    rget (j_remote (set_remote_bookmark v n r)) n =
    if negb (is_absent (r_target r)) || (r_tracked r && negb (is_absent (get (j_local v) n)))
    then r else absent_rref.
  Proof.
    unfold set_remote_bookmark, rget. cbn [j_remote].
    destruct (negb (is_absent (r_target r)) || _); cbn [rfind].
    - now rewrite N.eqb_refl.
    - now rewrite rfind_remove, N.eqb_refl.
  Qed.

  Lemma import_name_other backing v m k : k <> m ->
    tproj (import_name anc auto backing v m) k = tproj v k.
  Proof.
    intros H. unfold import_name, tproj.
    set (new := resolved (gget backing m)).
    set (v1 := if teqb new (get (j_grefs v) m) then v else set_git_ref v m new).
    assert (R1 : j_remote v1 = j_remote v) by (unfold v1; destruct (teqb _ _); reflexivity).
    cbv zeta.
    destruct (teqb new (r_target match rfind (j_remote v1) m with Some r => r | None => absent_rref end)).
    - now rewrite R1.
    - rewrite rget_set_remote_other by congruence.
      match goal with |- context [if ?c then set_local_bookmark _ _ _ else _] => destruct c end.
      + rewrite rget_set_local_other by assumption. now rewrite R1.
      + now rewrite R1.
  Qed.
  Lemma import_name_same backing v n :
    tproj (import_name anc auto backing v n) n = resolved (gget backing n).
  Proof.
    unfold import_name, tproj.
    set (new := resolved (gget backing n)).
    set (v1 := if teqb new (get (j_grefs v) n) then v else set_git_ref v n new).
    cbv zeta.
    fold (rget (j_remote v1) n).
    destruct (teqb new (r_target (rget (j_remote v1) n))) eqn:E.
    - apply teqb_spec in E. now rewrite <- E.
    - rewrite rget_set_remote_same. cbn [r_target r_tracked].
      match goal with |- r_target (if ?c then _ else _) = _ => destruct c eqn:C end.
      + reflexivity.
      + apply Bool.orb_false_iff in C. destruct C as [C _].
        apply Bool.negb_false_iff, is_absent_spec in C. now rewrite C.
  Qed.

  Theorem fetch_records_remote v remote n :
    tproj (fst (fetch anc auto v remote)) n = resolved (gget remote n).
  Proof.
    unfold fetch. cbn [fst].
    set (names := dedup (keys remote ++ keys (j_remote v) ++ keys (j_grefs v))).
    destruct (in_dec N.eq_dec n names) as [Hin|Hno].
    - pose proof (fold_keyed (fun k : N => k) (import_name anc auto remote) tproj
                    (fun k _ => resolved (gget remote k))
                    (fun e a k Hk => import_name_other remote e a k Hk)
                    (fun e a => import_name_same remote e a) names) as F.
      rewrite map_id in F. exact (F (dedup_nodup _) v n Hin).
    - rewrite (fold_untouched (fun k : N => k) (import_name anc auto remote) tproj
                 (fun e a k Hk => import_name_other remote e a k Hk) names v n)
        by (rewrite map_id; exact Hno).
      unfold names in Hno. rewrite dedup_in, !in_app_iff in Hno.
      rewrite gget_notin by tauto. unfold tproj, rget.
      assert (Hr : rfind (j_remote v) n = None) by (apply rfind_notin; tauto).
      now rewrite Hr.
  Qed.

  Context (srv : N -> N -> N -> N -> answer * N).
  (** a matching lease is never answered with a lease rejection *)
  Hypothesis srv_complete : forall n cur v, fst (srv n cur cur v) <> LeaseRejected.

  (** fetch; (jj-side edits that do not touch the records); push, with no external update in
      between: nothing is rejected. Stated for any view whose records equal the remote. *)
  Theorem push_with_current_records v remote backing names : NoDup names ->
    (forall n, tproj v n = resolved (gget remote n)) ->
    q_rejected (push srv v remote backing names) = [].
  Proof.
    intros Hnd Hrec. unfold push. cbn [q_rejected]. fold (after_requests srv v remote names).
    destruct (p_rejected (after_requests srv v remote names)) as [|n l] eqn:E; [reflexivity|exfalso].
    assert (Hr : mem N.eqb n (p_rejected (after_requests srv v remote names)) = true).
    { apply mem_spec. rewrite E. now left. }
    destruct (asked_dec v names n) as [[[b a] Hask]|Hno].
    - pose proof (requests_asked srv v remote names n b a Hnd Hask) as P. cbv zeta in P.
      unfold pproj in P. injection P as _ _ P3 _. rewrite P3 in Hr.
      apply ref_updates_in in Hask. destruct Hask as [_ Hc].
      pose proof Hc as Hc'. apply classify_update in Hc'. destruct Hc' as [Hb [_ [_ [Hcf _]]]].
      (* the lease is the recorded value, which is the remote's *)
      assert (Hcur : gget remote n = b).
      { specialize (Hrec n). unfold tproj in Hrec. unfold classify_ref_push_action in Hc.
        unfold tracked_target in Hb, Hcf, Hc.
        destruct (r_tracked (rget (j_remote v) n)) eqn:T.
        - rewrite Hb, Hrec. now rewrite oid_of_resolved.
        - (* untracked: only an absent remote ref can be pushed *)
          destruct (teqb (get (j_local v) n) absent); [discriminate|].
          destruct (has_conflict (get (j_local v) n)); [discriminate|]. cbn [has_conflict absent] in Hc.
          destruct (is_absent (r_target (rget (j_remote v) n))) eqn:A; [|discriminate].
          apply is_absent_spec in A. rewrite A in Hrec.
          rewrite Hb. unfold absent, resolved in Hrec. injection Hrec as <-. reflexivity. }
      rewrite Hcur in Hr. pose proof (srv_complete n b a) as SC.
      destruct (fst (srv n b b a)); cbn [answer_eqb] in Hr; congruence.
    - pose proof (requests_not_asked srv v remote names n Hno) as P.
      unfold pproj in P. injection P as _ _ P3 _. rewrite P3 in Hr. discriminate.
  Qed.
End FetchThenPush.
