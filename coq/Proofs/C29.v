(** Proofs for C29 (model: Model/C29.v). *)
From Verif Require Import Base.Prelude Gen.Tables Model.C29.
From Coq Require Import Lia.
Local Open Scope N_scope.

(** ** Byte-wise forms of the two conversions *)

(** LF -> CRLF on content without CRLF: every LF gets a CR in front. *)
Definition expand (c : bytes) : bytes :=
  flat_map (fun b => if b =? 10 then [13; 10] else [b]) c.

(** CRLF -> LF: drop a CR exactly when the next byte is LF. *)
Fixpoint lf_bw (l : bytes) : bytes :=
  match l with
  | [] => []
  | b :: t =>
      if b =? 13 then
        match t with
        | x :: _ => if x =? 10 then lf_bw t else b :: lf_bw t
        | [] => [b]
        end
      else b :: lf_bw t
  end.

Lemma rev_cons_app {A} (b : A) l : rev (b :: l) = rev l ++ [b].
Proof. reflexivity. Qed.

Lemma lrev_rev l : lrev l = rev l.
Proof. unfold lrev. symmetry. apply rev_alt. Qed.

Lemma trim_spec line :
  trim_last_eol line =
  match rev line with
  | a :: r =>
      if a =? 10 then
        match r with
        | b :: r' => if b =? 13 then Some (rev r') else Some (rev r)
        | [] => Some []
        end
      else None
  | [] => None
  end.
Proof.
  unfold trim_last_eol. rewrite lrev_rev. destruct (rev line) as [|a r]; [reflexivity|].
  destruct (a =? 10); [|reflexivity]. destruct r as [|b r']; [reflexivity|].
  rewrite !lrev_rev. reflexivity.
Qed.

Lemma eqb_single_last q a : bytes_eqb (q ++ [a]) [10] = true -> q = [] /\ a = 10.
Proof.
  destruct q as [|y q]; cbn.
  - rewrite andb_true_r. intros H. apply N.eqb_eq in H. auto.
  - destruct (y =? 10); cbn; [|discriminate]. destruct q; cbn; discriminate.
Qed.

(** Prepending a byte to a non-empty line only matters when it is the CR of a bare "\r\n". *)
Lemma conv_line_cons eol b ln :
  ln <> [] ->
  conv_line eol (b :: ln) =
  if (b =? 13) && bytes_eqb ln [10] then eol else b :: conv_line eol ln.
Proof.
  intros Hne. unfold conv_line. rewrite !trim_spec. rewrite rev_cons_app.
  destruct (rev ln) as [|a r] eqn:Hr.
  { apply (f_equal (@rev N)) in Hr. rewrite rev_involutive in Hr. cbn in Hr. contradiction. }
  assert (Hln : ln = rev r ++ [a]).
  { apply (f_equal (@rev N)) in Hr. rewrite rev_involutive in Hr. exact Hr. }
  cbn [app]. destruct (a =? 10) eqn:Ha.
  - apply N.eqb_eq in Ha. subst a.
    destruct r as [|x r'].
    + (* ln = [10] *)
      cbn in Hln. subst ln. cbn [app bytes_eqb list_eqb]. cbn.
      destruct (b =? 13) eqn:Hb; cbn; reflexivity.
    + cbn [app].
      assert (Hneq : bytes_eqb ln [10] = false).
      { destruct (bytes_eqb ln [10]) eqn:E; [|reflexivity]. rewrite Hln in E.
        apply eqb_single_last in E. destruct E as [E _].
        apply (f_equal (@length N)) in E. cbn in E. rewrite app_length in E. cbn in E. lia. }
      rewrite Hneq, andb_false_r.
      destruct (x =? 13) eqn:Hx.
      * rewrite rev_app_distr. cbn. reflexivity.
      * cbn [rev]. rewrite rev_app_distr. cbn. reflexivity.
  - assert (Hneq : bytes_eqb ln [10] = false).
    { destruct (bytes_eqb ln [10]) eqn:E; [|reflexivity]. rewrite Hln in E.
      apply eqb_single_last in E. destruct E as [_ E]. subst a. discriminate. }
    rewrite Hneq, andb_false_r. reflexivity.
Qed.

Lemma conv_line_single eol b : b <> 10 -> conv_line eol [b] = [b].
Proof.
  intros Hb. unfold conv_line, trim_last_eol. cbn.
  destruct (b =? 10) eqn:E; [apply N.eqb_eq in E; contradiction|reflexivity].
Qed.

Lemma conv_line_lf eol : conv_line eol [10] = eol.
Proof. reflexivity. Qed.

(** The first line of the rest is a bare LF exactly when the rest starts with LF. *)
Lemma split_lines_head t ln r :
  split_lines t = ln :: r ->
  ln <> [] /\ bytes_eqb ln [10] = match t with x :: _ => x =? 10 | [] => false end.
Proof.
  destruct t as [|x t']; cbn; [discriminate|].
  destruct (x =? 10) eqn:Hx.
  - intros H. injection H as <- <-. apply N.eqb_eq in Hx. subst x. split; [discriminate|reflexivity].
  - destruct (split_lines t') as [|l2 r2]; intros H; injection H as <- <-.
    + split; [discriminate|]. cbn. rewrite Hx. reflexivity.
    + split; [discriminate|]. cbn. rewrite Hx. reflexivity.
Qed.

Lemma split_lines_nil t : split_lines t = [] -> t = [].
Proof.
  destruct t as [|x t']; cbn; [reflexivity|].
  destruct (x =? 10); [discriminate|]. destruct (split_lines t'); discriminate.
Qed.

(** convert_eol to LF, line-wise as coded, is the byte-wise function — for every input. *)
Lemma convert_lf_bw c : convert_eol TLf c = lf_bw c.
Proof.
  unfold convert_eol. induction c as [|b t IH]; [reflexivity|].
  cbn [split_lines lf_bw]. destruct (b =? 10) eqn:Hb.
  - apply N.eqb_eq in Hb. subst b. cbn [flat_map]. rewrite conv_line_lf, IH. reflexivity.
  - destruct (split_lines t) as [|ln r] eqn:Hs.
    + apply split_lines_nil in Hs. subst t. cbn [flat_map app].
      rewrite conv_line_single by (intros ->; discriminate).
      rewrite app_nil_r. destruct (b =? 13); reflexivity.
    + destruct (split_lines_head _ _ _ Hs) as [Hne Hhd].
      cbn [flat_map] in *. rewrite conv_line_cons by exact Hne. rewrite Hhd.
      destruct t as [|x t']; [discriminate|].
      destruct (b =? 13) eqn:Hb13; cbn [andb].
      * destruct (x =? 10) eqn:Hx.
        -- (* "\r\n": the CR disappears *)
           rewrite <- IH.
           assert (ln = [10]).
           { clear -Hhd. destruct ln as [|y [|z q]]; cbn in Hhd; try discriminate.
             - rewrite andb_true_r in Hhd. apply N.eqb_eq in Hhd. congruence.
             - destruct (y =? 10); discriminate. }
           subst ln. reflexivity.
        -- rewrite <- IH. reflexivity.
      * rewrite <- IH. reflexivity.
Qed.

Lemma has_crlf_tail b t : has_crlf (b :: t) = false -> has_crlf t = false.
Proof. cbn. intros H. apply orb_false_iff in H. tauto. Qed.

Lemma expand_cons b t : expand (b :: t) = (if b =? 10 then [13; 10] else [b]) ++ expand t.
Proof. reflexivity. Qed.

(** convert_eol to CRLF on CRLF-free content is [expand]. *)
Lemma convert_crlf_expand c : has_crlf c = false -> convert_eol TCrlf c = expand c.
Proof.
  unfold convert_eol. induction c as [|b t IH]; intros Hn; [reflexivity|].
  pose proof (has_crlf_tail _ _ Hn) as Hn'. specialize (IH Hn').
  rewrite expand_cons. cbn [split_lines]. destruct (b =? 10) eqn:Hb.
  - apply N.eqb_eq in Hb. subst b. cbn [flat_map]. rewrite conv_line_lf, IH. reflexivity.
  - destruct (split_lines t) as [|ln r] eqn:Hs.
    + apply split_lines_nil in Hs. subst t. cbn [flat_map app].
      rewrite conv_line_single by (intros ->; discriminate). reflexivity.
    + destruct (split_lines_head _ _ _ Hs) as [Hne Hhd].
      cbn [flat_map] in *. rewrite conv_line_cons by exact Hne. rewrite Hhd.
      destruct t as [|x t']; [discriminate|].
      assert (Hc : (b =? 13) && (x =? 10) = false).
      { cbn in Hn. apply orb_false_iff in Hn. tauto. }
      rewrite Hc. rewrite <- IH. reflexivity.
Qed.

(** ** The round trip, byte-wise *)

Lemma lf_bw_expand c : has_crlf c = false -> lf_bw (expand c) = c.
Proof.
  induction c as [|b t IH]; intros Hn; [reflexivity|].
  pose proof (has_crlf_tail _ _ Hn) as Hn'. specialize (IH Hn').
  rewrite expand_cons. destruct (b =? 10) eqn:Hb.
  - apply N.eqb_eq in Hb. subst b. cbn. rewrite IH. reflexivity.
  - cbn [app lf_bw]. destruct (b =? 13) eqn:Hb13; [|rewrite IH; reflexivity].
    destruct t as [|x t']; [reflexivity|].
    assert (Hx : (x =? 10) = false).
    { cbn in Hn. rewrite Hb13 in Hn. cbn in Hn. apply orb_false_iff in Hn. tauto. }
    rewrite expand_cons in *. rewrite Hx in *. cbn [app] in *. rewrite Hx, IH. reflexivity.
Qed.

Lemma lf_bw_id c : has_crlf c = false -> lf_bw c = c.
Proof.
  induction c as [|b t IH]; intros Hn; [reflexivity|].
  pose proof (has_crlf_tail _ _ Hn) as Hn'. specialize (IH Hn').
  cbn [lf_bw]. destruct (b =? 13) eqn:Hb13; [|rewrite IH; reflexivity].
  destruct t as [|x t']; [reflexivity|].
  assert (Hx : (x =? 10) = false).
  { cbn in Hn. rewrite Hb13 in Hn. cbn in Hn. apply orb_false_iff in Hn. tauto. }
  rewrite Hx, IH. reflexivity.
Qed.

(** After LF -> CRLF every LF is preceded by CR. *)
Lemma expand_only_crlf c p : lone_lf p (expand c) = false.
Proof.
  revert p. induction c as [|b t IH]; intros p; [reflexivity|].
  rewrite expand_cons. destruct (b =? 10) eqn:Hb.
  - cbn. apply IH.
  - cbn [app lone_lf]. rewrite Hb. cbn. apply IH.
Qed.

(** ** The probe as a recursion on the window length *)

Fixpoint chk (n : nat) (l : bytes) : bool :=
  match n, l with
  | O, _ => false
  | _, [] => false
  | S m, b :: t =>
      if b =? 0 then true
      else if b =? 13 then
        match m with
        | O => false
        | S _ => match t with
                 | x :: _ => if x =? 10 then chk m t else true
                 | [] => true
                 end
        end
      else chk m t
  end.

(** The slice probe_for_binary examines, for window length [S m]. *)
Definition window (m : nat) (l : bytes) : bytes :=
  match nth_error l m with
  | Some b => if b =? 13 then firstn m l else firstn (S m) l
  | None => firstn (S m) l
  end.

Lemma nth_error_firstn_lt {A} : forall (n i : nat) (l : list A),
  (i < n)%nat -> nth_error (firstn n l) i = nth_error l i.
Proof.
  induction n as [|n IH]; intros i l Hi; [lia|].
  destruct l as [|a l]; [destruct i; reflexivity|].
  destruct i as [|i]; [reflexivity|]. cbn. apply IH. lia.
Qed.

Lemma firstn_firstn_S {A} : forall (m : nat) (l : list A), firstn m (firstn (S m) l) = firstn m l.
Proof.
  induction m as [|m IH]; intros l; [reflexivity|].
  destruct l as [|a l]; [reflexivity|]. cbn [firstn]. f_equal. apply IH.
Qed.

Lemma probe_window m l : probe (S m) l = is_binary (window m l).
Proof.
  unfold probe, window. replace (S m - 1)%nat with m by lia.
  rewrite nth_error_firstn_lt by lia. rewrite firstn_firstn_S. reflexivity.
Qed.

Lemma window_cons m b t : window (S m) (b :: t) = b :: window m t.
Proof.
  unfold window. cbn [nth_error]. destruct (nth_error t m) as [x|]; [|reflexivity].
  destruct (x =? 13); reflexivity.
Qed.

Lemma window_head m x t :
  window m (x :: t) = [] /\ m = O /\ (x =? 13) = true \/ exists w, window m (x :: t) = x :: w.
Proof.
  destruct m as [|m].
  - unfold window. cbn. destruct (x =? 13); [left; auto|right; eexists; reflexivity].
  - right. rewrite window_cons. eexists; reflexivity.
Qed.

Lemma is_binary_cons b w :
  is_binary (b :: w) =
  if b =? 0 then true
  else if b =? 13 then
    match w with n :: _ => if n =? 10 then is_binary w else true | [] => true end
  else is_binary w.
Proof. reflexivity. Qed.

Lemma chk_SS m b t :
  chk (S (S m)) (b :: t) =
  if b =? 0 then true
  else if b =? 13 then
    match t with x :: _ => if x =? 10 then chk (S m) t else true | [] => true end
  else chk (S m) t.
Proof. reflexivity. Qed.

Lemma window_chk : forall m l, is_binary (window m l) = chk (S m) l.
Proof.
  induction m as [|m IH]; intros l.
  - destruct l as [|b t]; [reflexivity|]. unfold window. cbn [nth_error].
    destruct (b =? 13) eqn:Hb.
    + apply N.eqb_eq in Hb. subst b. reflexivity.
    + cbn. rewrite Hb. destruct (b =? 0); reflexivity.
  - destruct l as [|b t]; [reflexivity|]. rewrite window_cons.
    rewrite is_binary_cons, chk_SS. destruct (b =? 0); [reflexivity|].
    destruct (b =? 13); [|apply IH].
    destruct t as [|x t'].
    + unfold window. destruct m; reflexivity.
    + destruct (window_head m x t') as [(Hw & Hm & Hx) | (w & Hw)].
      * rewrite Hw. apply N.eqb_eq in Hx. subst x. reflexivity.
      * rewrite <- IH. rewrite Hw. reflexivity.
Qed.

Lemma probe_chk m l : probe (S m) l = chk (S m) l.
Proof. rewrite probe_window. apply window_chk. Qed.

Lemma chk_S m b t :
  chk (S m) (b :: t) =
  if b =? 0 then true
  else if b =? 13 then
    match m with
    | O => false
    | S _ => match t with x :: _ => if x =? 10 then chk m t else true | [] => true end
    end
  else chk m t.
Proof. reflexivity. Qed.

(** Shrinking the window never turns text into binary. *)
Lemma chk_mono : forall l n, chk (S n) l = false -> chk n l = false.
Proof.
  induction l as [|b t IH]; intros n H; [destruct n; reflexivity|].
  destruct n as [|k]; [reflexivity|].
  rewrite chk_S in H. rewrite chk_S. destruct (b =? 0); [discriminate|].
  destruct (b =? 13).
  - destruct t as [|x t']; [discriminate|]. destruct (x =? 10) eqn:Hx; [|discriminate].
    destruct k as [|j]; [reflexivity|]. apply IH. exact H.
  - apply IH. exact H.
Qed.

(** The boundary lemma: LF -> CRLF expansion of CRLF-free text stays text for every window. *)
Lemma chk_expand : forall c n, has_crlf c = false -> chk n c = false -> chk n (expand c) = false.
Proof.
  induction c as [|b t IH]; intros n Hn H; [destruct n; reflexivity|].
  pose proof (has_crlf_tail _ _ Hn) as Hn'.
  destruct n as [|m]; [reflexivity|].
  rewrite expand_cons. rewrite chk_S in H.
  destruct (b =? 0) eqn:H0; [discriminate|].
  destruct (b =? 13) eqn:H13.
  - assert (Hb10 : (b =? 10) = false).
    { apply N.eqb_eq in H13. subst b. reflexivity. }
    rewrite Hb10. cbn [app]. rewrite chk_S, H0, H13.
    destruct m as [|k]; [reflexivity|].
    destruct t as [|x t']; [discriminate|].
    destruct (x =? 10) eqn:Hx; [|discriminate].
    cbn in Hn. rewrite H13, Hx in Hn. discriminate.
  - destruct (b =? 10) eqn:H10.
    + cbn [app]. rewrite chk_S. cbn [N.eqb Pos.eqb].
      destruct m as [|k]; [reflexivity|]. rewrite chk_S. cbn [N.eqb Pos.eqb].
      apply chk_mono. apply IH; assumption.
    + cbn [app]. rewrite chk_S, H0, H13. apply IH; assumption.
Qed.

(** ** Statements for an arbitrary window length L > 0 *)
Section Window.
  Variable L : nat.
  Hypothesis L_pos : L <> O.

  Lemma boundary c :
    has_crlf c = false -> probe L c = false -> probe L (convert_eol TCrlf c) = false.
  Proof.
    destruct L as [|m]; [contradiction|]. intros Hn Hp.
    rewrite convert_crlf_expand by exact Hn. rewrite probe_chk in *.
    apply chk_expand; assumption.
  Qed.

  Lemma text_roundtrip c :
    has_crlf c = false -> probe L c = false ->
    for_snapshot L MInputOutput (for_update L MInputOutput c) = c
    /\ lone_lf false (for_update L MInputOutput c) = false.
  Proof.
    intros Hn Hp. unfold for_update. rewrite Hp. split.
    - unfold for_snapshot. rewrite (boundary c Hn Hp).
      rewrite convert_lf_bw, convert_crlf_expand by exact Hn. apply lf_bw_expand. exact Hn.
    - rewrite convert_crlf_expand by exact Hn. apply expand_only_crlf.
  Qed.

  Lemma binary_passthrough c m :
    probe L c = true -> for_update L m c = c /\ for_snapshot L m c = c.
  Proof.
    intros Hp. unfold for_update, for_snapshot. rewrite Hp. destruct m; auto.
  Qed.

  Lemma input_only_verbatim c :
    for_update L MInput c = c /\ for_update L MNone c = c /\ for_snapshot L MNone c = c.
  Proof. auto. Qed.

  (** Whatever the classification: CRLF-free stored content survives checkout + snapshot in
      every mode. *)
  Lemma roundtrip_all c m :
    has_crlf c = false -> for_snapshot L m (for_update L m c) = c.
  Proof.
    intros Hn. destruct m.
    - reflexivity.
    - unfold for_update, for_snapshot. destruct (probe L c); [reflexivity|].
      cbn [convert_eol]. fold (convert_eol TLf c). rewrite convert_lf_bw. apply lf_bw_id. exact Hn.
    - destruct (probe L c) eqn:Hp.
      + unfold for_update. rewrite Hp. cbn [convert_eol]. unfold for_snapshot. rewrite Hp.
        reflexivity.
      + apply (text_roundtrip c Hn Hp).
  Qed.

  (** What the snapshot stores for text is the byte-wise CRLF -> LF image, for any input. *)
  Lemma snapshot_text d m :
    m <> MNone -> probe L d = false -> for_snapshot L m d = lf_bw d.
  Proof.
    intros Hm Hp. unfold for_snapshot. rewrite Hp.
    destruct m; [contradiction| |]; apply convert_lf_bw.
  Qed.

  (** The run-time checker accepts the model's own outputs. *)
  Lemma okb_model_stored m c :
    okb_at L (mk_case m KStored c (for_update L m c)
                      (for_snapshot L m (for_update L m c)) false) = true.
  Proof.
    unfold okb_at. cbn [c_panicked c_kind c_mode c_input c_disk c_stored negb andb].
    assert (Hrefl : forall x, bytes_eqb x x = true).
    { induction x as [|a x IHx]; [reflexivity|]. cbn. rewrite N.eqb_refl. exact IHx. }
    apply andb_true_iff. split.
    - destruct m; try reflexivity; apply Hrefl.
    - destruct (has_crlf c) eqn:Hn; [reflexivity|]. cbn [orb].
      rewrite (roundtrip_all c m Hn), Hrefl. cbn [andb].
      destruct m; try reflexivity.
      destruct (probe L c) eqn:Hp.
      + unfold for_update. rewrite Hp. apply Hrefl.
      + destruct (text_roundtrip c Hn Hp) as [_ H]. rewrite H. reflexivity.
  Qed.

  Lemma okb_model_disk m d :
    okb_at L (mk_case m KDisk d d (for_snapshot L m d) false) = true.
  Proof.
    unfold okb_at. cbn [c_panicked c_kind c_mode c_input c_disk c_stored negb andb].
    assert (Hrefl : forall x, bytes_eqb x x = true).
    { induction x as [|a x IHx]; [reflexivity|]. cbn. rewrite N.eqb_refl. exact IHx. }
    destruct m.
    - apply Hrefl.
    - destruct (probe L d) eqn:Hp; [|reflexivity]. cbn.
      unfold for_snapshot. rewrite Hp. apply Hrefl.
    - destruct (probe L d) eqn:Hp; [|reflexivity]. cbn.
      unfold for_snapshot. rewrite Hp. apply Hrefl.
  Qed.
End Window.

(** The source constant is a usable window length. *)
Lemma probe_limit_pos : probe_limit <> O.
Proof.
  unfold probe_limit. intros H. apply (f_equal N.of_nat) in H. rewrite N2Nat.id in H.
  vm_compute in H. discriminate H.
Qed.

Lemma bytes_eqb_spec a b : bytes_eqb a b = true <-> a = b.
Proof.
  revert b. induction a as [|x a IH]; intros [|y b]; cbn; split; try congruence; try discriminate.
  - intros H. apply andb_true_iff in H. destruct H as [H1 H2].
    apply N.eqb_eq in H1. apply IH in H2. congruence.
  - intros H. injection H as -> ->. rewrite N.eqb_refl. apply IH. reflexivity.
Qed.
