(** C42 proofs: ancestry on append-only commit graphs, downward closure of the immutable
    set, and the consequences of [accept]. *)
From Verif Require Import Base.Prelude Model.C42.
From Coq Require Import Arith Lia.
Import ListNotations.

(** * Graphs *)
Definition wf_graph (g : graph) : Prop := forall c p, In p (parents g c) -> p < c.

Inductive anc (g : graph) : nat -> nat -> Prop :=
| anc_refl a : anc g a a
| anc_step a p d : In p (parents g d) -> anc g a p -> anc g a d.

Lemma wf_from_spec news : forall i, wf_from news i = true ->
  forall k p, In p (nth k news []) -> p < i + k.
Proof.
  induction news as [|ps t IH]; intros i H k p Hin.
  - destruct k; contradiction.
  - cbn [wf_from] in H. apply andb_true_iff in H. destruct H as [H1 H2].
    destruct k as [|k]; cbn [nth] in Hin.
    + rewrite forallb_forall in H1. apply H1 in Hin. apply Nat.ltb_lt in Hin. lia.
    + specialize (IH (S i) H2 k p Hin). lia.
Qed.

Lemma wf_graphb_spec g : wf_graphb g = true -> wf_graph g.
Proof.
  intros H c p Hin. unfold parents in Hin.
  pose proof (wf_from_spec g 0 H c p Hin). lia.
Qed.

Lemma parents_app g news c :
  parents (g ++ news) c = if c <? length g then parents g c else nth (c - length g) news [].
Proof.
  unfold parents. destruct (c <? length g) eqn:E.
  - apply Nat.ltb_lt in E. now rewrite app_nth1.
  - apply Nat.ltb_ge in E. now rewrite app_nth2.
Qed.

Lemma wf_app g news : wf_graph g -> wf_from news (length g) = true -> wf_graph (g ++ news).
Proof.
  intros Hg Hn c p Hin. rewrite parents_app in Hin.
  destruct (c <? length g) eqn:E.
  - now apply Hg.
  - apply Nat.ltb_ge in E. pose proof (wf_from_spec news _ Hn _ _ Hin). lia.
Qed.

Lemma wf_app_nil g : wf_graph g -> wf_graph (g ++ []).
Proof. now rewrite app_nil_r. Qed.

Lemma anc_trans g a b c : anc g a b -> anc g b c -> anc g a c.
Proof.
  intros Hab Hbc. induction Hbc as [|b p d Hin Hbp IH]; [assumption|].
  eapply anc_step; eauto.
Qed.

Lemma anc_le g a d : wf_graph g -> anc g a d -> a <= d.
Proof.
  intros Hg H. induction H as [|a p d Hin Hap IH]; [lia|].
  apply Hg in Hin. lia.
Qed.

Lemma ancb_sound g : forall f a d, ancb g f a d = true -> anc g a d.
Proof.
  induction f as [|f IH]; intros a d H; cbn [ancb] in H; apply orb_true_iff in H.
  - destruct H as [H|H]; [|discriminate]. apply Nat.eqb_eq in H. subst. constructor.
  - destruct H as [H|H].
    + apply Nat.eqb_eq in H. subst. constructor.
    + apply existsb_exists in H. destruct H as [p [Hin Hp]].
      eapply anc_step; eauto.
Qed.

Lemma ancb_complete g : wf_graph g -> forall a d, anc g a d ->
  forall f, d <= f -> ancb g f a d = true.
Proof.
  intros Hg a d H. induction H as [a|a p d Hin Hap IH]; intros f Hf.
  - destruct f; cbn [ancb]; now rewrite Nat.eqb_refl.
  - pose proof (Hg _ _ Hin) as Hlt.
    destruct f as [|f]; [lia|]. cbn [ancb]. apply orb_true_iff. right.
    apply existsb_exists. exists p. split; [assumption|]. apply IH. lia.
Qed.

Lemma is_anc_spec g a d : wf_graph g -> (is_anc g a d = true <-> anc g a d).
Proof.
  intros Hg. unfold is_anc. split.
  - apply ancb_sound.
  - intros H. now apply ancb_complete.
Qed.

Lemma descb_spec g ts c : wf_graph g ->
  (descb g ts c = true <-> exists t, In t ts /\ anc g t c).
Proof.
  intros Hg. unfold descb. rewrite existsb_exists. split; intros [t [Hin H]]; exists t;
    (split; [assumption|]); now apply (is_anc_spec g t c Hg).
Qed.

(** * Small boolean reflections *)
Lemma memn_spec x l : memn x l = true <-> In x l.
Proof.
  unfold memn. rewrite existsb_exists. split.
  - intros [y [Hin E]]. apply Nat.eqb_eq in E. now subst.
  - intros H. exists x. split; [assumption|apply Nat.eqb_refl].
Qed.

Lemma memn_false x l : memn x l = false <-> ~ In x l.
Proof.
  rewrite <- memn_spec. destruct (memn x l); split; intros; congruence.
Qed.

Lemma subsetn_spec a b : subsetn a b = true <-> (forall x, In x a -> In x b).
Proof.
  unfold subsetn. rewrite forallb_forall. split; intros H x Hx.
  - now apply memn_spec, H.
  - now apply memn_spec, H.
Qed.

Lemma seteqn_spec a b : seteqn a b = true <-> (forall x, In x a <-> In x b).
Proof.
  unfold seteqn. rewrite andb_true_iff, !subsetn_spec. split.
  - intros [H1 H2] x. split; auto.
  - intros H. split; intros x Hx; now apply H.
Qed.

Lemma list_eqb_nat_spec l1 : forall l2, list_eqb Nat.eqb l1 l2 = true -> l1 = l2.
Proof.
  induction l1 as [|x xs IH]; intros [|y ys] H; cbn [list_eqb] in H; try discriminate; auto.
  apply andb_true_iff in H. destruct H as [H1 H2]. apply Nat.eqb_eq in H1.
  f_equal; auto.
Qed.

Lemma list_eqb_pair_spec l1 : forall l2, list_eqb pair_nat_eqb l1 l2 = true -> l1 = l2.
Proof.
  induction l1 as [|[a x] xs IH]; intros [|[b y] ys] H; cbn [list_eqb] in H; try discriminate; auto.
  apply andb_true_iff in H. destruct H as [H1 H2]. unfold pair_nat_eqb in H1. cbn [fst snd] in H1.
  apply andb_true_iff in H1. destruct H1 as [Ha Hx].
  apply N.eqb_eq in Ha. apply Nat.eqb_eq in Hx. subst. f_equal; auto.
Qed.

Lemma view_eqb_spec a b : view_eqb a b = true -> a = b.
Proof.
  unfold view_eqb. rewrite !andb_true_iff. intros [[[H1 H2] H3] H4].
  destruct a, b; cbn in *.
  apply list_eqb_nat_spec in H1. apply list_eqb_pair_spec in H2.
  apply list_eqb_pair_spec in H3. apply list_eqb_pair_spec in H4. now subst.
Qed.

(** * Visibility *)
Lemma vis_list_spec g v x : In x (vis_list g v) <-> x < length g /\ visb g v x = true.
Proof.
  unfold vis_list. rewrite filter_In, in_seq. split; intros [H1 H2]; split; auto; lia.
Qed.

Lemma visb_anc g v a x : wf_graph g -> anc g a x -> visb g v x = true -> visb g v a = true.
Proof.
  intros Hg Hax. unfold visb. rewrite !existsb_exists. intros [h [Hin H]].
  exists h. split; [assumption|]. apply (is_anc_spec g a h Hg).
  apply (is_anc_spec g x h Hg) in H. eapply anc_trans; eauto.
Qed.

(** * The immutable set is downward closed *)
Lemma immb_downclosed g v e a d : wf_graph g ->
  anc g a d -> immb g v e d = true -> immb g v e a = true.
Proof.
  intros Hg Had. unfold immb. rewrite !orb_true_iff. intros [H|H].
  - apply Nat.eqb_eq in H. subst. apply anc_le in Had; [|assumption].
    left. apply Nat.eqb_eq. lia.
  - right. apply existsb_exists in H. destruct H as [h [Hin H]].
    apply existsb_exists. exists h. split; [assumption|].
    apply (is_anc_spec g a h Hg). apply (is_anc_spec g d h Hg) in H.
    eapply anc_trans; eauto.
Qed.

Lemma descendants_mutable g v e ts : wf_graph g ->
  (forall t, In t ts -> immb g v e t = false) ->
  forall c, descb g ts c = true -> immb g v e c = false.
Proof.
  intros Hg Hts c Hc. apply (descb_spec g ts c Hg) in Hc. destruct Hc as [t [Hin Hanc]].
  destruct (immb g v e c) eqn:E; [|reflexivity].
  specialize (Hts t Hin).
  rewrite (immb_downclosed g v e t c Hg Hanc E) in Hts. discriminate.
Qed.

Lemma refuses_false g v e c :
  refuses g v e c = false -> forall t, In t (check_targets g v c) -> immb g v e t = false.
Proof.
  unfold refuses. intros H t Hin.
  destruct (immb g v e t) eqn:E; [|reflexivity].
  assert (existsb (immb g v e) (check_targets g v c) = true) as X
      by (apply existsb_exists; eauto).
  congruence.
Qed.

Lemma refuses_true g v e c :
  refuses g v e c = true -> exists t, In t (check_targets g v c) /\ immb g v e t = true.
Proof. unfold refuses. now rewrite existsb_exists. Qed.

(** * What acceptance of a step means *)

(** The exception (known class [wc-commit-immutable-at-start]): [x] is the invoking
    workspace's working-copy commit [w], immutable before the command, and the command acts
    on it implicitly. *)
Definition Exempt (r : repo) (ev : event) (x : nat) : Prop :=
  exists w, wc_of (r_view r) (e_ws ev) = Some w
            /\ immb (r_graph r) (r_view r) (e_cfg ev) w = true
            /\ implicit_wc_cmd (e_cmd ev) = true
            /\ x = w.

(** [x] disappears or is recorded as rewritten by the step. *)
Definition Touched (r : repo) (ev : event) (x : nat) : Prop :=
  In x (rew_eff ev)
  \/ visb (r_graph r ++ e_new ev) (e_view ev) x = false.

Lemma accept_inv r ev r' : accept r ev = Some r' ->
  r' = mk_repo (r_graph r ++ e_new ev) (e_view ev) (r_disc r ++ e_newdisc ev)
  /\ seteqn (e_imm_pre ev)
            (filter (immb (r_graph r) (r_view r) (e_cfg ev)) (vis_list (r_graph r) (r_view r))) = true
  /\ (if (e_status ev =? 0)%N then accept_ok r ev
      else if (e_status ev =? 1)%N
           then refuses (r_graph r) (r_view r) (eff_cfg ev) (e_cmd ev) && unchanged r ev
           else unchanged r ev) = true.
Proof.
  unfold accept. intros H.
  match type of H with (if ?a && ?b then _ else _) = _ => destruct a eqn:A; destruct b eqn:B end;
    cbn [andb] in H; try discriminate.
  inversion H. auto.
Qed.

Lemma leaves_wc_implicit c w : leaves_wc c w = true -> implicit_wc_cmd c = true.
Proof. destruct c; cbn; congruence. Qed.

(** Unfolding [accept_ok] into its conjuncts (in order). *)
Lemma accept_ok_parts r ev : accept_ok r ev = true ->
  let g := r_graph r in let v := r_view r in let e := eff_cfg ev in let c := e_cmd ev in
  let g' := g ++ e_new ev in let v' := e_view ev in
  let wc := wc_of v (e_ws ev) in
  let pre := vis_list g v in
  let hidden := filter (fun x => negb (visb g' v' x)) pre in
  let roots := rewrite_roots g v wc c in
  let snap_child := match c, wc with CSnapshot, Some w => immb g v e w | _, _ => false end in
  let allowed := fun x => visb g v x && descb g roots x && (memn x roots || negb (immb g v e x)) in
  refuses g v e c = false
  /\ wf_from (e_new ev) (length g) = true
  /\ (if snap_child then rew_eff ev = [] else forall x, In x (rew_eff ev) -> allowed x = true)
  /\ (forall x, In x hidden ->
        (snap_child = false /\ allowed x = true)
        \/ (exists w, wc = Some w /\ x = w /\ wc_abandoned r (e_ws ev) c w = true))
  /\ seteqn (e_vis_post ev) (vis_list g' v') = true.
Proof.
  unfold accept_ok. cbv zeta. rewrite !andb_true_iff.
  intros [[[[[[[[[[[H1 H2] H3] H4] H5] H6] H7] H8] H9] H10] _] _].
  repeat split.
  - now apply negb_true_iff in H1.
  - exact H2.
  - destruct (match e_cmd ev with CSnapshot => _ | _ => _ end).
    + destruct (rew_eff ev); [reflexivity|discriminate].
    + now rewrite forallb_forall in H3.
  - intros x Hx. rewrite forallb_forall in H4. specialize (H4 x Hx).
    apply orb_true_iff in H4. destruct H4 as [H4|H4].
    + apply andb_true_iff in H4. destruct H4 as [Ha Hb]. left. split; [|assumption].
      now apply negb_true_iff in Ha.
    + right. destruct (wc_of (r_view r) (e_ws ev)) as [w|]; [|discriminate].
      apply andb_true_iff in H4. destruct H4 as [Ha Hb]. apply Nat.eqb_eq in Ha.
      exists w. auto.
  - exact H10.
Qed.

Lemma wc_abandoned_leaves r ws c w : wc_abandoned r ws c w = true -> leaves_wc c w = true.
Proof. unfold wc_abandoned. rewrite !andb_true_iff. tauto. Qed.

(** Main step lemma: on an accepted successful step, every visible immutable commit that is
    recorded as rewritten, or that disappears, falls under the exception. *)
Lemma accept_no_rewrite r ev r' :
  wf_graph (r_graph r) -> accept r ev = Some r' -> e_status ev = 0%N ->
  e_override ev = false ->
  forall x, In x (vis_list (r_graph r) (r_view r)) ->
    immb (r_graph r) (r_view r) (e_cfg ev) x = true ->
    Touched r ev x -> Exempt r ev x.
Proof.
  intros Hg Hacc Hst Hov x Hvis Himm Ht.
  apply accept_inv in Hacc. destruct Hacc as [_ [_ Hok]].
  rewrite Hst in Hok. cbn in Hok.
  pose proof (accept_ok_parts r ev Hok) as P. cbv zeta in P.
  assert (Heff : eff_cfg ev = e_cfg ev) by (unfold eff_cfg; now rewrite Hov).
  rewrite Heff in P.
  destruct P as [Href [_ [Hrew [Hhid _]]]].
  unfold Exempt.
  (* a commit allowed to be rewritten is a mutable descendant of the roots, or a root; the roots
     are mutable unless the exception applies *)
  assert (Hallowed :
    (match e_cmd ev, wc_of (r_view r) (e_ws ev) with
     | CSnapshot, Some w => immb (r_graph r) (r_view r) (e_cfg ev) w
     | _, _ => false end) = false ->
    visb (r_graph r) (r_view r) x
    && descb (r_graph r) (rewrite_roots (r_graph r) (r_view r) (wc_of (r_view r) (e_ws ev)) (e_cmd ev)) x
    && (memn x (rewrite_roots (r_graph r) (r_view r) (wc_of (r_view r) (e_ws ev)) (e_cmd ev))
        || negb (immb (r_graph r) (r_view r) (e_cfg ev) x)) = true ->
    exists w, wc_of (r_view r) (e_ws ev) = Some w
              /\ immb (r_graph r) (r_view r) (e_cfg ev) w = true
              /\ implicit_wc_cmd (e_cmd ev) = true
              /\ x = w).
  { intros Hsc Hal. apply andb_true_iff in Hal. destruct Hal as [_ Hr].
    rewrite Himm in Hr. cbn [negb] in Hr. rewrite orb_false_r in Hr. apply memn_spec in Hr.
    destruct (e_cmd ev) eqn:Ec; cbn [rewrite_roots] in Hr;
      try (rewrite (refuses_false _ _ _ _ Href x Hr) in Himm; discriminate).
    - (* CCommit *)
      destruct (wc_of (r_view r) (e_ws ev)) as [w|]; [|contradiction].
      destruct Hr as [<-|[]]. exists w. auto.
    - (* CSnapshot *)
      destruct (wc_of (r_view r) (e_ws ev)) as [w|]; [|contradiction].
      destruct Hr as [<-|[]]. congruence. }
  destruct Ht as [Ht|Ht].
  - (* recorded as rewritten *)
    destruct (match e_cmd ev, wc_of (r_view r) (e_ws ev) with
              | CSnapshot, Some w => immb (r_graph r) (r_view r) (e_cfg ev) w
              | _, _ => false end) eqn:Hsc.
    + rewrite Hrew in Ht. contradiction.
    + apply Hallowed; [reflexivity|]. now apply Hrew.
  - (* no longer visible *)
    assert (Hh : In x (filter (fun y => negb (visb (r_graph r ++ e_new ev) (e_view ev) y))
                              (vis_list (r_graph r) (r_view r)))).
    { apply filter_In. split; [assumption|]. now rewrite Ht. }
    destruct (Hhid x Hh) as [[Hsc Hal]|[w [Ew [-> Hab]]]].
    + now apply Hallowed.
    + exists w. split; [assumption|]. split; [assumption|]. split; [|reflexivity].
      apply wc_abandoned_leaves in Hab. eapply leaves_wc_implicit; eauto.
Qed.

(** Acceptance keeps the store well formed. *)
Lemma unchanged_parts r ev : unchanged r ev = true ->
  e_nops ev = 0 /\ r_view r = e_view ev /\ e_new ev = [] /\ e_rewritten ev = []
  /\ seteqn (e_vis_post ev) (vis_list (r_graph r) (r_view r)) = true.
Proof.
  unfold unchanged. rewrite !andb_true_iff. intros [[[[H1 H2] H3] H4] H5].
  apply Nat.eqb_eq in H1. apply view_eqb_spec in H2.
  destruct (e_new ev); [|discriminate]. destruct (e_rewritten ev); [|discriminate]. auto.
Qed.

Lemma accept_failed r ev r' : accept r ev = Some r' -> e_status ev <> 0%N ->
  unchanged r ev = true /\ (e_status ev = 1%N -> refuses (r_graph r) (r_view r) (eff_cfg ev) (e_cmd ev) = true).
Proof.
  intros Hacc Hst. apply accept_inv in Hacc. destruct Hacc as [_ [_ Hok]].
  destruct (e_status ev =? 0)%N eqn:E0; [apply N.eqb_eq in E0; contradiction|].
  destruct (e_status ev =? 1)%N eqn:E1.
  - apply andb_true_iff in Hok. destruct Hok. split; auto.
  - split; [assumption|]. intros E. rewrite E in E1. discriminate.
Qed.

Lemma accept_wf r ev r' : wf_graph (r_graph r) -> accept r ev = Some r' -> wf_graph (r_graph r').
Proof.
  intros Hg Hacc. pose proof (accept_inv r ev r' Hacc) as [-> [_ Hok]]. cbn [r_graph].
  destruct (e_status ev =? 0)%N eqn:E0.
  - pose proof (accept_ok_parts r ev Hok) as P. cbv zeta in P. destruct P as [_ [Hwf _]].
    now apply wf_app.
  - assert (e_status ev <> 0%N) as Hne by (intros X; rewrite X in E0; discriminate).
    destruct (accept_failed r ev _ Hacc Hne) as [Hu _].
    apply unchanged_parts in Hu. destruct Hu as [_ [_ [-> _]]]. now apply wf_app_nil.
Qed.

(** * Properties along whole runs *)
Fixpoint run_prop (P : repo -> event -> Prop) (r : repo) (evs : list event) : Prop :=
  match evs with
  | [] => True
  | ev :: t => P r ev /\ match accept r ev with Some r' => run_prop P r' t | None => True end
  end.

Lemma run_prop_intro (P : repo -> event -> Prop) :
  (forall r ev r', wf_graph (r_graph r) -> accept r ev = Some r' -> P r ev) ->
  forall evs r r', wf_graph (r_graph r) -> run r evs = Some r' -> run_prop P r evs.
Proof.
  intros HP evs. induction evs as [|ev t IH]; intros r r' Hg Hrun; cbn [run_prop]; [exact I|].
  cbn [run] in Hrun. destruct (accept r ev) as [r1|] eqn:Ha; [|discriminate].
  split; [eapply HP; eauto|]. eapply IH; eauto. eapply accept_wf; eauto.
Qed.

Definition NoRewrite (r : repo) (ev : event) : Prop :=
  e_status ev = 0%N -> e_override ev = false ->
  forall x, In x (vis_list (r_graph r) (r_view r)) ->
    immb (r_graph r) (r_view r) (e_cfg ev) x = true ->
    Touched r ev x -> Exempt r ev x.

Lemma run_no_rewrite evs r r' :
  wf_graph (r_graph r) -> run r evs = Some r' -> run_prop NoRewrite r evs.
Proof.
  apply run_prop_intro. intros r0 ev r1 Hg Ha Hst Hov. now apply (accept_no_rewrite r0 ev r1).
Qed.

(** A refused or failed command changes nothing; a refusal names an immutable target; an
    accepted command has only mutable targets. *)
Definition Guarded (r : repo) (ev : event) : Prop :=
  (e_status ev = 0%N ->
     forall t, In t (check_targets (r_graph r) (r_view r) (e_cmd ev)) ->
               immb (r_graph r) (r_view r) (eff_cfg ev) t = false)
  /\ (e_status ev = 1%N ->
        exists t, In t (check_targets (r_graph r) (r_view r) (e_cmd ev))
                  /\ immb (r_graph r) (r_view r) (eff_cfg ev) t = true)
  /\ (e_status ev <> 0%N ->
        e_nops ev = 0 /\ e_view ev = r_view r /\ e_new ev = [] /\ e_rewritten ev = []).

Lemma accept_guarded r ev r' : accept r ev = Some r' -> Guarded r ev.
Proof.
  intros Hacc. repeat split.
  - intros Hst. apply accept_inv in Hacc. destruct Hacc as [_ [_ Hok]].
    rewrite Hst in Hok. cbn in Hok.
    pose proof (accept_ok_parts r ev Hok) as P. cbv zeta in P. destruct P as [Href _].
    now apply refuses_false.
  - intros Hst. assert (e_status ev <> 0%N) as Hne by (rewrite Hst; discriminate).
    destruct (accept_failed r ev r' Hacc Hne) as [_ Hr]. now apply refuses_true, Hr.
  - destruct (accept_failed r ev r' Hacc H) as [Hu _]. apply unchanged_parts in Hu. tauto.
  - destruct (accept_failed r ev r' Hacc H) as [Hu _]. apply unchanged_parts in Hu.
    destruct Hu as [_ [Hv _]]. now symmetry.
  - destruct (accept_failed r ev r' Hacc H) as [Hu _]. apply unchanged_parts in Hu. tauto.
  - destruct (accept_failed r ev r' Hacc H) as [Hu _]. apply unchanged_parts in Hu. tauto.
Qed.

Lemma run_guarded evs r r' :
  wf_graph (r_graph r) -> run r evs = Some r' -> run_prop Guarded r evs.
Proof. apply run_prop_intro. intros. eapply accept_guarded; eauto. Qed.

(** Snapshot of a modified working copy whose commit is immutable: nothing is rewritten,
    nothing disappears, and the new working-copy commit is a fresh child of the old one. *)
Definition SnapshotOnImmutable (r : repo) (ev : event) : Prop :=
  e_status ev = 0%N -> e_cmd ev = CSnapshot ->
  forall w, wc_of (r_view r) (e_ws ev) = Some w ->
    immb (r_graph r) (r_view r) (eff_cfg ev) w = true ->
    rew_eff ev = []
    /\ (forall x, In x (vis_list (r_graph r) (r_view r)) ->
                  visb (r_graph r ++ e_new ev) (e_view ev) x = true)
    /\ (forall w', 0 < e_nops ev -> wc_of (e_view ev) (e_ws ev) = Some w' ->
                   length (r_graph r) <= w' /\ parents (r_graph r ++ e_new ev) w' = [w]).

Lemma accept_snapshot r ev r' : accept r ev = Some r' -> SnapshotOnImmutable r ev.
Proof.
  intros Hacc Hst Hc w Hw Himm.
  apply accept_inv in Hacc. destruct Hacc as [_ [_ Hok]].
  rewrite Hst in Hok. cbn in Hok.
  pose proof (accept_ok_parts r ev Hok) as P. cbv zeta in P.
  destruct P as [_ [_ [Hrew [Hhid _]]]].
  rewrite Hc, Hw, Himm in Hrew, Hhid.
  split; [assumption|]. split.
  - intros x Hx. destruct (visb (r_graph r ++ e_new ev) (e_view ev) x) eqn:E; [reflexivity|].
    assert (Hh : In x (filter (fun y => negb (visb (r_graph r ++ e_new ev) (e_view ev) y))
                              (vis_list (r_graph r) (r_view r)))).
    { apply filter_In. split; [assumption|]. now rewrite E. }
    destruct (Hhid x Hh) as [[X _]|[w0 [_ [_ Hab]]]]; [discriminate|].
    apply wc_abandoned_leaves in Hab. discriminate.
  - intros w' Hn Hw'.
    unfold accept_ok in Hok. cbv zeta in Hok. rewrite !andb_true_iff in Hok.
    destruct Hok as [[[[[_ Hwc] _] _] _] _].
    rewrite Hc, Hw, Hw', Himm in Hwc.
    destruct (e_nops ev =? 0) eqn:E0; [apply Nat.eqb_eq in E0; lia|].
    apply andb_true_iff in Hwc. destruct Hwc as [Hf Hp].
    unfold is_fresh in Hf. apply Nat.leb_le in Hf. apply list_eqb_nat_spec in Hp. auto.
Qed.

Lemma run_snapshot evs r r' :
  wf_graph (r_graph r) -> run r evs = Some r' -> run_prop SnapshotOnImmutable r evs.
Proof. apply run_prop_intro. intros. eapply accept_snapshot; eauto. Qed.

(** * The observation-level checker *)

Definition ExemptObs (g : graph) (v : view) (ev : event) (x : nat) : Prop :=
  exists w, wc_of v (e_ws ev) = Some w /\ In w (e_imm_pre ev)
            /\ implicit_wc_cmd (e_cmd ev) = true
            /\ x = w.

Lemma exempt_spec g v ev x :
  exempt g (wc_of v (e_ws ev)) (e_cmd ev) (e_imm_pre ev) x = true <-> ExemptObs g v ev x.
Proof.
  unfold exempt, ExemptObs. destruct (wc_of v (e_ws ev)) as [w|].
  - rewrite !andb_true_iff, Nat.eqb_eq, memn_spec. split.
    + intros [[Hi Hm] Hx]. exists w. repeat split; auto.
    + intros [w0 [E [Hm [Hi Hx]]]]. inversion E. subst w0. repeat split; auto.
  - split; [discriminate|]. intros [w [E _]]. discriminate.
Qed.

(** What [event_okb] decides: no commit shown immutable before the command is recorded as a
    predecessor or missing afterwards (unless exempt, when not strict), and a command that
    reports an error leaves the operation log and the view alone. *)
Definition EventOk (strict : bool) (g : graph) (v : view) (ev : event) : Prop :=
  (e_override ev = false -> forall x, In x (e_imm_pre ev) ->
     (In x (rew_eff ev) \/ ~ In x (e_vis_post ev)) ->
     strict = false /\ ExemptObs g v ev x)
  /\ (e_status ev <> 0%N -> e_nops ev = 0 /\ v = e_view ev).

Lemma event_okb_spec strict g v ev : event_okb strict g v ev = true -> EventOk strict g v ev.
Proof.
  unfold event_okb, EventOk. rewrite andb_true_iff. intros [H1 H2]. split.
  - intros Hov x Hx Hv. rewrite Hov in H1. cbn [orb] in H1. rewrite forallb_forall in H1.
    assert (Hin : In x (e_imm_pre ev ++ e_rewritten ev)) by (apply in_or_app; auto).
    specialize (H1 x Hin). apply orb_true_iff in H1. destruct H1 as [H1|H1].
    + apply negb_true_iff in H1. unfold viol in H1.
      apply andb_false_iff in H1. destruct H1 as [H1|H1].
      * apply memn_false in H1. contradiction.
      * apply orb_false_iff in H1. destruct H1 as [Ha Hb].
        apply memn_false in Ha. apply negb_false_iff in Hb. apply memn_spec in Hb. tauto.
    + apply andb_true_iff in H1. destruct H1 as [Hs He]. apply negb_true_iff in Hs.
      split; [assumption|]. now apply exempt_spec.
  - intros Hst. destruct (e_status ev =? 0)%N eqn:E; [apply N.eqb_eq in E; contradiction|].
    apply andb_true_iff in H2. destruct H2 as [Ha Hb]. apply Nat.eqb_eq in Ha.
    apply view_eqb_spec in Hb. auto.
Qed.

Lemma event_okb_complete strict g v ev : EventOk strict g v ev -> event_okb strict g v ev = true.
Proof.
  unfold event_okb, EventOk. intros [H1 H2]. apply andb_true_iff. split.
  - destruct (e_override ev) eqn:Hov; [reflexivity|]. cbn [orb]. specialize (H1 eq_refl).
    apply forallb_forall. intros x _. destruct (viol ev x) eqn:Ev; [|reflexivity]. cbn [negb orb].
    unfold viol in Ev. apply andb_true_iff in Ev. destruct Ev as [Hm Hv]. apply memn_spec in Hm.
    apply orb_true_iff in Hv.
    assert (Hv' : In x (rew_eff ev) \/ ~ In x (e_vis_post ev)).
    { destruct Hv as [Hv|Hv]; [left; now apply memn_spec|right].
      apply negb_true_iff in Hv. now apply memn_false. }
    destruct (H1 x Hm Hv') as [-> He]. cbn [negb andb]. now apply exempt_spec.
  - destruct (e_status ev =? 0)%N eqn:E; [reflexivity|].
    assert (e_status ev <> 0%N) as Hne by (intros X; rewrite X in E; discriminate).
    destruct (H2 Hne) as [Ha Hb]. rewrite Ha, <- Hb. cbn.
    unfold view_eqb. destruct v as [h b t w]. cbn.
    assert (Rn : forall l, list_eqb Nat.eqb l l = true).
    { induction l; cbn; [reflexivity|]. now rewrite Nat.eqb_refl. }
    assert (Rp : forall l, list_eqb pair_nat_eqb l l = true).
    { induction l as [|[a n] l IHl]; cbn; [reflexivity|].
      unfold pair_nat_eqb at 1. cbn. now rewrite N.eqb_refl, Nat.eqb_refl. }
    now rewrite Rn, !Rp.
Qed.

Fixpoint RunOk (strict : bool) (g : graph) (v : view) (evs : list event) : Prop :=
  match evs with
  | [] => True
  | ev :: t => EventOk strict g v ev /\ RunOk strict (g ++ e_new ev) (e_view ev) t
  end.

Lemma run_okb_spec strict evs : forall g v, run_okb strict g v evs = true <-> RunOk strict g v evs.
Proof.
  induction evs as [|ev t IH]; intros g v; cbn [run_okb RunOk]; [tauto|].
  rewrite andb_true_iff, IH. split; intros [H1 H2]; split; auto.
  - now apply event_okb_spec.
  - now apply event_okb_complete.
Qed.

(** * Every trace the model accepts satisfies the observation-level property (modulo the
      exception). *)
Lemma accept_event_ok r ev r' :
  wf_graph (r_graph r) -> accept r ev = Some r' ->
  EventOk false (r_graph r) (r_view r) ev.
Proof.
  intros Hg Hacc. pose proof (accept_inv r ev r' Hacc) as [_ [Hpre Hok]].
  rewrite seteqn_spec in Hpre.
  split.
  - intros Hov x Hx Hv. split; [reflexivity|].
    apply Hpre in Hx. apply filter_In in Hx. destruct Hx as [Hvis Himm].
    destruct (N.eq_dec (e_status ev) 0) as [Hst|Hst].
    + assert (Ht : Touched r ev x).
      { destruct Hv as [Hv|Hv]; [left; assumption|right].
        rewrite Hst in Hok. cbn in Hok.
        pose proof (accept_ok_parts r ev Hok) as P. cbv zeta in P.
        destruct P as [_ [_ [_ [_ Hpost]]]]. rewrite seteqn_spec in Hpost.
        destruct (visb (r_graph r ++ e_new ev) (e_view ev) x) eqn:E; [|reflexivity].
        exfalso. apply Hv. apply Hpost. apply vis_list_spec. split; [|assumption].
        apply vis_list_spec in Hvis. rewrite app_length. lia. }
      destruct (accept_no_rewrite r ev r' Hg Hacc Hst Hov x Hvis Himm Ht) as [w [Ew [Hiw [Hi Hx]]]].
      subst x. exists w. repeat split; auto.
      apply Hpre. apply filter_In. split; assumption.
    + exfalso. destruct (accept_failed r ev r' Hacc Hst) as [Hu _].
      apply unchanged_parts in Hu. destruct Hu as [_ [_ [_ [Hr Hpost]]]].
      rewrite seteqn_spec in Hpost.
      destruct Hv as [Hv|Hv]; [unfold rew_eff in Hv; rewrite Hr in Hv; contradiction|].
      apply Hv. now apply Hpost.
  - intros Hst. destruct (accept_failed r ev r' Hacc Hst) as [Hu _].
    apply unchanged_parts in Hu. tauto.
Qed.

Lemma run_accept_ok evs : forall r r',
  wf_graph (r_graph r) -> run r evs = Some r' ->
  run_okb false (r_graph r) (r_view r) evs = true.
Proof.
  induction evs as [|ev t IH]; intros r r' Hg Hrun; cbn [run_okb]; [reflexivity|].
  cbn [run] in Hrun. destruct (accept r ev) as [r1|] eqn:Ha; [|discriminate].
  apply andb_true_iff. split.
  - apply event_okb_complete. eapply accept_event_ok; eauto.
  - pose proof (accept_inv r ev r1 Ha) as [E _].
    specialize (IH r1 r' (accept_wf r ev r1 Hg Ha) Hrun). now rewrite E in IH.
Qed.

(** * When can the exception apply?  Only if the working-copy commit is immutable when a
      command starts; the CLI leaves it mutable after every operation of the same workspace
      under an unchanged configuration. *)
Definition WcMutable (g : graph) (v : view) (e : hexpr) (ws : N) : Prop :=
  forall w, wc_of v ws = Some w -> immb g v e w = false.

Lemma accept_ok_tail r ev : accept_ok r ev = true ->
  (e_nops ev = 0 -> r_view r = e_view ev /\ e_new ev = [])
  /\ (e_cmd ev = CObserve -> e_nops ev = 0)
  /\ (0 < e_nops ev -> e_cmd ev <> CWorkspaceAdd -> e_cmd ev <> CObserve ->
      WcMutable (r_graph r ++ e_new ev) (e_view ev) (eff_cfg ev) (e_ws ev)).
Proof.
  unfold accept_ok. cbv zeta. rewrite !andb_true_iff.
  intros [[[[_ H9] _] H11] H12]. repeat split.
  - rewrite H in H11. cbn in H11. apply andb_true_iff in H11. destruct H11 as [A _].
    now apply view_eqb_spec.
  - rewrite H in H11. cbn in H11. apply andb_true_iff in H11. destruct H11 as [_ B].
    destruct (e_new ev); [reflexivity|discriminate].
  - intros Hc. rewrite Hc in H9. rewrite !andb_true_iff in H9. destruct H9 as [[A _] _].
    now apply Nat.eqb_eq in A.
  - intros Hn Hc1 Hc2 w Hw.
    assert (L : (0 <? e_nops ev) = true) by now apply Nat.ltb_lt.
    destruct (e_cmd ev); try congruence; rewrite L, Hw in H12; now apply negb_true_iff in H12.
Qed.

Lemma accept_wc_mutable r ev r' :
  accept r ev = Some r' -> e_cmd ev <> CWorkspaceAdd -> e_override ev = false ->
  WcMutable (r_graph r) (r_view r) (e_cfg ev) (e_ws ev) ->
  WcMutable (r_graph r') (r_view r') (e_cfg ev) (e_ws ev).
Proof.
  intros Hacc Hc Hov Hpre. pose proof (accept_inv r ev r' Hacc) as [-> [_ Hok]]. cbn [r_graph r_view].
  assert (Heff : eff_cfg ev = e_cfg ev) by (unfold eff_cfg; now rewrite Hov).
  destruct (N.eq_dec (e_status ev) 0) as [Hst|Hst].
  - rewrite Hst in Hok. cbn in Hok. destruct (accept_ok_tail r ev Hok) as [H0 [Hobs Hpos]].
    rewrite Heff in Hpos.
    destruct (e_nops ev) as [|n] eqn:En.
    + destruct (H0 eq_refl) as [Hv Hn]. rewrite <- Hv, Hn, app_nil_r. exact Hpre.
    + apply Hpos; [lia|assumption|]. intros X. specialize (Hobs X). discriminate.
  - destruct (accept_failed r ev _ Hacc Hst) as [Hu _]. apply unchanged_parts in Hu.
    destruct Hu as [_ [Hv [Hn _]]]. rewrite <- Hv, Hn, app_nil_r. exact Hpre.
Qed.

(** With one workspace, an unchanged configuration and a mutable working-copy commit at the
    start, no accepted run ever touches a visible immutable commit. *)
Definition Untouched (r : repo) (ev : event) : Prop :=
  e_status ev = 0%N ->
  forall x, In x (vis_list (r_graph r) (r_view r)) ->
    immb (r_graph r) (r_view r) (e_cfg ev) x = true -> ~ Touched r ev x.

Lemma run_untouched evs : forall r r' e ws,
  wf_graph (r_graph r) ->
  (forall ev, In ev evs -> e_cfg ev = e /\ e_ws ev = ws /\ e_cmd ev <> CWorkspaceAdd
                            /\ e_override ev = false) ->
  WcMutable (r_graph r) (r_view r) e ws ->
  run r evs = Some r' -> run_prop Untouched r evs.
Proof.
  induction evs as [|ev t IH]; intros r r' e ws Hg Hall Hm Hrun; cbn [run_prop]; [exact I|].
  cbn [run] in Hrun. destruct (accept r ev) as [r1|] eqn:Ha; [|discriminate].
  destruct (Hall ev (or_introl eq_refl)) as [Ee [Ew [Ec Eo]]].
  split.
  - intros Hst x Hx Hi Ht.
    destruct (accept_no_rewrite r ev r1 Hg Ha Hst Eo x Hx Hi Ht) as [w [Hw [Hiw _]]].
    rewrite Ee, Ew in *. rewrite (Hm w Hw) in Hiw. discriminate.
  - apply (IH r1 r' e ws).
    + eapply accept_wf; eauto.
    + intros ev' Hin. apply Hall. now right.
    + rewrite <- Ee, <- Ew. apply (accept_wc_mutable r ev r1 Ha Ec Eo). now rewrite Ee, Ew.
    + exact Hrun.
Qed.
