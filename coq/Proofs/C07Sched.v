(** C07_schedule_independent: whatever the order in which the TreeMerger's work items
    complete, the merge it returns is the recursive directory merge. *)
From Verif Require Import Base.Prelude Model.Merge.
From Verif Require Import Proofs.MergeDen Proofs.C01 Proofs.C02 Proofs.TrivialMap Proofs.SimplifyDisjoint.
From Verif Require Import Model.TreeMerge Model.Rebase Model.TreeMerger.
From Verif Require Import Proofs.TreeValue Proofs.TreeMerge Proofs.C07 Proofs.C08 Proofs.ThereBack.
From Coq Require Import Lia Arith.

Section etask_ind_nested.
  Variable P : etask -> Prop.
  Hypothesis HR : forall ts, P (ERead ts).
  Hypothesis HD : forall kids, Forall (fun k => P (snd k)) kids -> P (EDir kids).
  Hypothesis HW : forall trees, P (EWritten trees).
  Hypothesis HF : forall vs, P (EFile vs).
  Hypothesis HO : forall c, P (EDone c).
  Fixpoint etask_ind_nested (e : etask) : P e :=
    match e with
    | ERead ts => HR ts
    | EDir kids =>
        HD kids ((fix go (l : list (N * etask)) : Forall (fun k => P (snd k)) l :=
                    match l with
                    | [] => Forall_nil _
                    | k :: t => Forall_cons k (etask_ind_nested (snd k)) (go t)
                    end) kids)
    | EWritten trees => HW trees
    | EFile vs => HF vs
    | EDone c => HO c
    end.
End etask_ind_nested.

Section Sched.
  Context (accept : bool) (content_merge : list N -> option N).
  Notation tm := (tm accept).
  Notation mdf := (merge_dir_full accept content_merge).
  Notation merge_path := (merge_path accept content_merge).
  Notation collapse := (collapse accept).
  Notation step := (step accept content_merge).
  Notation process_tree := (process_tree accept).
  Notation settle := (settle).

  (** What an entry will contribute to its directory once everything below it completed. *)
  Fixpoint eval (e : etask) : list oval :=
    match e with
    | ERead ts => collapse (map of_tree (mdf ts))
    | EDir kids =>
        collapse (map of_tree
                    (assemble ((fix go (l : list (N * etask)) : list (N * list oval) :=
                                  match l with [] => [] | k :: t => (fst k, eval (snd k)) :: go t end) kids)))
    | EWritten trees => collapse (map of_tree trees)
    | EFile vs => collapse (resolve_file_values accept content_merge vs)
    | EDone c => c
    end.
  Definition entries (kids : list (N * etask)) : list (N * list oval) :=
    map (fun k => (fst k, eval (snd k))) kids.
  Lemma eval_dir kids : eval (EDir kids) = collapse (map of_tree (assemble (entries kids))).
  Proof.
    cbn [eval]. unfold entries. do 3 f_equal.
  Qed.

  (** The trees the root will return. *)
  Definition root_value (e : etask) : list tree :=
    match e with
    | ERead ts => mdf ts
    | EDir kids => assemble (entries kids)
    | EWritten trees => trees
    | _ => []
    end.

  (** All merges in flight have an odd number of sides. *)
  Fixpoint odd_task (e : etask) : Prop :=
    match e with
    | ERead ts => Nat.odd (length ts) = true
    | EDir kids => (fix go (l : list (N * etask)) : Prop :=
                      match l with [] => True | k :: t => odd_task (snd k) /\ go t end) kids
    | _ => True
    end.
  Lemma odd_dir kids : odd_task (EDir kids) <-> Forall (fun k => odd_task (snd k)) kids.
  Proof.
    cbn [odd_task]. induction kids as [|k t IH]; [split; constructor|].
    rewrite Forall_cons_iff, <- IH. tauto.
  Qed.

  Lemma done_entries kids : forallb (fun k => is_done (snd k)) kids = true ->
    map (fun k => (fst k, done_value (snd k))) kids = entries kids.
  Proof.
    intros H. unfold entries. apply map_ext_in. intros k Hk. rewrite forallb_forall in H.
    specialize (H k Hk). destruct (snd k); try discriminate. reflexivity.
  Qed.

  Lemma eval_settle kids : eval (settle kids) = eval (EDir kids).
  Proof.
    unfold TreeMerger.settle. destruct (forallb _ kids) eqn:E; [|reflexivity].
    unfold written_of. rewrite eval_dir, done_entries by assumption. reflexivity.
  Qed.
  Lemma root_value_settle kids : root_value (settle kids) = root_value (EDir kids).
  Proof.
    unfold TreeMerger.settle. destruct (forallb _ kids) eqn:E; [|reflexivity].
    unfold written_of. cbn [root_value]. now rewrite done_entries.
  Qed.
  Lemma odd_settle kids : odd_task (EDir kids) -> odd_task (settle kids).
  Proof. unfold TreeMerger.settle. destruct (forallb _ kids); [intros _; exact I|auto]. Qed.

  (** process_tree: the entries it creates evaluate to the per-entry merge. *)
  Definition kid_of (ts : list tree) (n : N) : N * etask :=
    let vs := map (lookup n) ts in
    (n, match tm vs with
        | Some r => EDone [r]
        | None => if is_tree vs then ERead (map to_tree vs) else EFile vs
        end).
  Lemma process_tree_eq ts : process_tree ts = settle (map (kid_of ts) (names ts)).
  Proof. reflexivity. Qed.

  Lemma eval_kid ts n : eval (snd (kid_of ts n)) = merge_path (map (lookup n) ts).
  Proof.
    unfold kid_of, TreeMerge.merge_path, merge_vals. cbn [snd].
    destruct (tm (map (lookup n) ts)) eqn:E; [reflexivity|].
    destruct (is_tree (map (lookup n) ts)); reflexivity.
  Qed.

  Lemma entries_kids ts :
    entries (map (kid_of ts) (names ts))
    = es_of (fun n => merge_path (map (lookup n) ts)) (names ts).
  Proof.
    unfold entries, es_of. rewrite map_map. apply map_ext. intros n. now rewrite eval_kid.
  Qed.

  Lemma root_value_process ts : Nat.odd (length ts) = true -> root_value (process_tree ts) = mdf ts.
  Proof.
    intros Hodd. rewrite process_tree_eq, root_value_settle. cbn [root_value].
    now rewrite entries_kids, <- merge_dir_full_unfold.
  Qed.
  Lemma eval_process ts : Nat.odd (length ts) = true -> eval (process_tree ts) = eval (ERead ts).
  Proof.
    intros Hodd. rewrite process_tree_eq, eval_settle, eval_dir. cbn [eval].
    now rewrite entries_kids, <- merge_dir_full_unfold.
  Qed.
  Lemma odd_process ts : Nat.odd (length ts) = true -> odd_task (process_tree ts).
  Proof.
    intros Hodd. rewrite process_tree_eq. apply odd_settle, odd_dir, Forall_forall.
    intros k Hk. apply in_map_iff in Hk as (n & <- & _). unfold kid_of. cbn [snd].
    destruct (tm (map (lookup n) ts)); [exact I|].
    destruct (is_tree (map (lookup n) ts)); [|exact I]. cbn [odd_task]. now rewrite !map_length.
  Qed.

  (** * one step *)
  Definition upd (f : etask -> etask) (n : N) (kids : list (N * etask)) : list (N * etask) :=
    map (fun k => if N.eqb (fst k) n then (fst k, f (snd k)) else k) kids.

  Lemma entries_upd f n kids :
    Forall (fun k => eval (f (snd k)) = eval (snd k)) kids -> entries (upd f n kids) = entries kids.
  Proof.
    intros H. unfold entries, upd. rewrite map_map. apply map_ext_in. intros k Hk.
    rewrite Forall_forall in H. destruct (N.eqb (fst k) n); [|reflexivity]. cbn [fst snd].
    now rewrite (H k Hk).
  Qed.

  Theorem step_preserves : forall pick e, odd_task e ->
    eval (step pick e) = eval e /\ odd_task (step pick e)
    /\ (forall kids, e = EDir kids -> root_value (step pick e) = root_value e).
  Proof.
    induction pick as [|n rest IH]; intros e Hodd.
    - destruct e as [ts|kids|trees|vs|c]; cbn [TreeMerger.step]; repeat split; auto; try discriminate.
      + now apply eval_process.
      + now apply odd_process.
    - destruct e as [ts|kids|trees|vs|c]; cbn [TreeMerger.step]; repeat split; auto; try discriminate.
      all: fold (upd (step rest) n kids).
      all: assert (HF : Forall (fun k => eval (step rest (snd k)) = eval (snd k)) kids)
        by (apply odd_dir in Hodd; rewrite Forall_forall in *; intros k Hk; apply (IH (snd k)), Hodd, Hk).
      + rewrite eval_settle, !eval_dir, entries_upd by assumption. reflexivity.
      + apply odd_settle, odd_dir. apply odd_dir in Hodd. unfold upd. rewrite Forall_forall in *.
        intros k Hk. apply in_map_iff in Hk as (k0 & <- & Hk0).
        destruct (N.eqb (fst k0) n); [cbn [snd]; apply (IH (snd k0)), Hodd, Hk0|now apply Hodd].
      + intros kids' E. injection E as <-. rewrite root_value_settle. cbn [root_value].
        now rewrite entries_upd.
  Qed.

  Notation root_step := (root_step accept content_merge).

  Lemma root_step_preserves e pick : odd_task e ->
    match e with EDone _ | EFile _ => False | _ => True end ->
    root_value (root_step e pick) = root_value e /\ odd_task (root_step e pick)
    /\ match root_step e pick with EDone _ | EFile _ => False | _ => True end.
  Proof.
    intros Hodd Hshape. destruct e as [ts|kids|trees|vs|c]; try contradiction; cbn [TreeMerger.root_step].
    - destruct pick; cbn [TreeMerger.step]; [|auto].
      split; [now apply root_value_process|]. split; [now apply odd_process|].
      rewrite process_tree_eq. unfold TreeMerger.settle. now destruct (forallb _ _).
    - destruct (step_preserves pick (EDir kids) Hodd) as (_ & Ho & Hr).
      split; [exact (Hr kids eq_refl)|]. split; [assumption|].
      destruct pick; cbn [TreeMerger.step]; [exact I|]. unfold TreeMerger.settle. now destruct (forallb _ _).
    - auto.
  Qed.

  (** C07_schedule_independent. *)
  Theorem schedule_independent (ts : list tree) (schedule : list (list N)) trees :
    Nat.odd (length ts) = true ->
    run accept content_merge ts schedule = EWritten trees -> trees = mdf ts.
  Proof.
    intros Hodd. unfold run.
    assert (G : forall sched e, odd_task e -> match e with EDone _ | EFile _ => False | _ => True end ->
                                root_value (fold_left root_step sched e) = root_value e).
    { induction sched as [|p t IH]; intros e Ho Hs; [reflexivity|]. cbn [fold_left].
      destruct (root_step_preserves e p Ho Hs) as (Hr & Ho' & Hs'). now rewrite IH. }
    intros H. pose proof (G schedule (ERead ts) Hodd I) as HG. rewrite H in HG. exact HG.
  Qed.

  (** Progress: a merge that has not returned has an in-flight item. *)
  Fixpoint in_flight (e : etask) : option (list N) :=
    match e with
    | ERead _ | EWritten _ | EFile _ => Some []
    | EDone _ => None
    | EDir kids =>
        (fix go (l : list (N * etask)) : option (list N) :=
           match l with
           | [] => None
           | k :: t => match in_flight (snd k) with Some p => Some (fst k :: p) | None => go t end
           end) kids
    end.
End Sched.

(** * every schedule terminates: a completing item strictly decreases the remaining work *)
Section Termination.
  Context (accept : bool) (content_merge : list N -> option N).
  Notation tm := (tm accept).
  Notation step := (step accept content_merge).
  Notation process_tree := (process_tree accept).

  Definition sum (l : list nat) : nat := fold_right Nat.add 0%nat l.

  (** Work left below a ReadTrees item, by the same recursion as the merge. *)
  Fixpoint read_work (f : nat) (ts : list tree) : nat :=
    3 + sum (map (fun n =>
                    let vs := map (lookup n) ts in
                    match tm vs with
                    | Some _ => 0
                    | None => if is_tree vs
                              then match f with O => 0 | S g => read_work g (map to_tree vs) end
                              else 1
                    end) (names ts)).

  Fixpoint work (f : nat) (e : etask) : nat :=
    match e with
    | ERead ts => read_work f ts
    | EDir kids => 2 + (fix go (l : list (N * etask)) : nat :=
                          match l with [] => 0 | k :: t => work (Nat.pred f) (snd k) + go t end) kids
    | EWritten _ => 1
    | EFile _ => 1
    | EDone _ => 0
    end.
  Definition kids_work (f : nat) (kids : list (N * etask)) : nat :=
    sum (map (fun k => work (Nat.pred f) (snd k)) kids).
  Lemma work_dir f kids : work f (EDir kids) = 2 + kids_work f kids.
  Proof.
    cbn [work]. f_equal. unfold kids_work. induction kids as [|k t IH]; [reflexivity|].
    cbn [map sum fold_right]. now rewrite IH.
  Qed.

  (** The nesting depth of the trees still to be read is within the fuel. *)
  Fixpoint depth_ok (f : nat) (e : etask) : Prop :=
    match e with
    | ERead ts => Nat.odd (length ts) = true /\ (max_tdepth ts <= f)%nat
    | EDir kids => (fix go (l : list (N * etask)) : Prop :=
                      match l with [] => True | k :: t => depth_ok (Nat.pred f) (snd k) /\ go t end) kids
    | _ => True
    end.
  Lemma depth_ok_dir f kids :
    depth_ok f (EDir kids) <-> Forall (fun k => depth_ok (Nat.pred f) (snd k)) kids.
  Proof.
    cbn [depth_ok]. induction kids as [|k t IH]; [split; constructor|].
    rewrite Forall_cons_iff, <- IH. tauto.
  Qed.

  Lemma work_settle f kids : (work f (settle kids) <= work f (EDir kids))%nat
                             /\ (work f (settle kids) < 2 + work f (EDir kids))%nat.
  Proof.
    unfold TreeMerger.settle, written_of. destruct (forallb _ kids); rewrite ?work_dir; cbn [work]; lia.
  Qed.

  Lemma kid_work ts n f : Nat.odd (length ts) = true -> (max_tdepth ts <= f)%nat ->
    work (Nat.pred f) (snd (kid_of accept ts n))
    = (let vs := map (lookup n) ts in
       match tm vs with
       | Some _ => 0
       | None => if is_tree vs
                 then match f with O => 0 | S g => read_work g (map to_tree vs) end
                 else 1
       end)%nat
    /\ depth_ok (Nat.pred f) (snd (kid_of accept ts n)).
  Proof.
    intros Hodd Hf. unfold kid_of. cbn [snd]. cbn zeta.
    destruct (tm (map (lookup n) ts)) eqn:Etm; [split; [reflexivity|exact I]|].
    destruct (is_tree (map (lookup n) ts)) eqn:Et; [|split; [reflexivity|exact I]].
    destruct (nontrivial_tree_has_dir accept (map (lookup n) ts)) as [s Hs]; auto; [now rewrite map_length|].
    apply in_map_iff in Hs as (t & Hl & Hin). apply to_tree_lookup_depth in Hl.
    destruct f as [|g].
    - rewrite max_tdepth_le, Forall_forall in Hf. apply Hf in Hin. lia.
    - cbn [Nat.pred work depth_ok]. split; [reflexivity|]. split; [now rewrite !map_length|].
      now apply max_tdepth_sub.
  Qed.

  Lemma work_process f ts : Nat.odd (length ts) = true -> (max_tdepth ts <= f)%nat ->
    (work f (process_tree ts) < read_work f ts)%nat /\ depth_ok f (process_tree ts).
  Proof.
    intros Hodd Hf. rewrite process_tree_eq.
    assert (E : (kids_work f (map (kid_of accept ts) (names ts)) + 3 = read_work f ts)%nat).
    { unfold kids_work. rewrite map_map.
      rewrite (map_ext_in _ (fun n =>
                 let vs := map (lookup n) ts in
                 match tm vs with
                 | Some _ => 0
                 | None => if is_tree vs
                           then match f with O => 0 | S g => read_work g (map to_tree vs) end
                           else 1
                 end)%nat) by (intros n _; apply (kid_work ts n f Hodd Hf)).
      destruct f; cbn [read_work]; unfold sum; lia. }
    split.
    - destruct (work_settle f (map (kid_of accept ts) (names ts))) as [A _]. rewrite work_dir in A. lia.
    - unfold TreeMerger.settle. destruct (forallb _ _); [exact I|].
      apply depth_ok_dir, Forall_forall. intros k Hk. apply in_map_iff in Hk as (n & <- & _).
      apply (kid_work ts n f Hodd Hf).
  Qed.

  Lemma kids_work_upd f g n kids :
    Forall (fun k => (work (Nat.pred f) (g (snd k)) <= work (Nat.pred f) (snd k))%nat) kids ->
    (kids_work f (upd g n kids) <= kids_work f kids)%nat
    /\ ((exists k, In k kids /\ N.eqb (fst k) n = true
                   /\ (work (Nat.pred f) (g (snd k)) < work (Nat.pred f) (snd k))%nat) ->
        (kids_work f (upd g n kids) < kids_work f kids)%nat).
  Proof.
    unfold kids_work, upd. induction kids as [|k t IH]; intros H.
    - split; [cbn; lia|]. intros (k & [] & _).
    - inversion H as [|? ? Hk Ht]; subst. destruct (IH Ht) as [A B].
      cbn [map sum fold_right]. fold (sum (map (fun k0 => work (Nat.pred f) (snd k0))
        (map (fun k0 => if (fst k0 =? n)%N then (fst k0, g (snd k0)) else k0) t))).
      fold (sum (map (fun k0 => work (Nat.pred f) (snd k0)) t)).
      destruct (N.eqb (fst k) n) eqn:E; cbn [snd].
      + split; [lia|]. intros (k' & [<-|Hin] & Hn & Hlt); [lia|].
        assert (sum (map (fun k0 => work (Nat.pred f) (snd k0))
                   (map (fun k0 => if (fst k0 =? n)%N then (fst k0, g (snd k0)) else k0) t))
                < sum (map (fun k0 => work (Nat.pred f) (snd k0)) t))%nat by (apply B; eauto). lia.
      + split; [lia|]. intros (k' & [<-|Hin] & Hn & Hlt); [congruence|].
        assert (sum (map (fun k0 => work (Nat.pred f) (snd k0))
                   (map (fun k0 => if (fst k0 =? n)%N then (fst k0, g (snd k0)) else k0) t))
                < sum (map (fun k0 => work (Nat.pred f) (snd k0)) t))%nat by (apply B; eauto). lia.
  Qed.

  (** [pick] names an item in flight. *)
  Fixpoint valid (pick : list N) (e : etask) {struct pick} : bool :=
    match pick with
    | [] => match e with ERead _ | EWritten _ | EFile _ => true | _ => false end
    | n :: rest =>
        match e with
        | EDir kids => existsb (fun k => N.eqb (fst k) n && valid rest (snd k)) kids
        | _ => false
        end
    end.

  (** A step never increases the remaining work and keeps the depth bound; the completion of
      an item in flight strictly decreases the work. *)
  Theorem step_work : forall pick f e, depth_ok f e ->
    depth_ok f (step pick e)
    /\ (work f (step pick e) <= work f e)%nat
    /\ (valid pick e = true -> (work f (step pick e) < work f e)%nat).
  Proof.
    induction pick as [|n rest IH]; intros f e Hok.
    - destruct e as [ts|kids|trees|vs|c]; cbn [TreeMerger.step valid].
      + destruct Hok as [Hodd Hf]. destruct (work_process f ts Hodd Hf) as [A B].
        cbn [work]. repeat split; auto; lia.
      + split; [exact Hok|split; [lia|discriminate]].
      + cbn [work]. repeat split; auto; lia.
      + cbn [work]. repeat split; auto; lia.
      + split; [exact Hok|split; [lia|discriminate]].
    - destruct e as [ts|kids|trees|vs|c]; cbn [TreeMerger.step valid];
        try (split; [exact Hok|split; [lia|discriminate]]).
      fold (upd (step rest) n kids).
      apply depth_ok_dir in Hok.
      assert (HF : Forall (fun k => (work (Nat.pred f) (step rest (snd k)) <= work (Nat.pred f) (snd k))%nat) kids).
      { rewrite Forall_forall in *. intros k Hk. apply (IH (Nat.pred f) (snd k)), Hok, Hk. }
      destruct (kids_work_upd f (step rest) n kids HF) as [A B].
      assert (Hok' : depth_ok f (EDir (upd (step rest) n kids))).
      { apply depth_ok_dir. unfold upd. rewrite Forall_forall in *. intros k Hk.
        apply in_map_iff in Hk as (k0 & <- & Hk0).
        destruct (N.eqb (fst k0) n); [cbn [snd]; apply (IH (Nat.pred f) (snd k0)), Hok, Hk0|now apply Hok]. }
      destruct (work_settle f (upd (step rest) n kids)) as [C D]. rewrite work_dir in C.
      split; [|split].
      + unfold TreeMerger.settle. destruct (forallb _ _); [exact I|assumption].
      + rewrite work_dir. lia.
      + intros Hv. rewrite work_dir. apply existsb_exists in Hv as (k & Hk & Hv).
        apply Bool.andb_true_iff in Hv as [Hn Hvk].
        assert (kids_work f (upd (step rest) n kids) < kids_work f kids)%nat; [|lia].
        apply B. exists k. repeat split; auto.
        apply (IH (Nat.pred f) (snd k)); [rewrite Forall_forall in Hok; now apply Hok|assumption].
  Qed.

  (** Hence at most [read_work] items complete before the merge of [ts] returns, whatever the
      schedule: the number of completions in any schedule prefix is bounded by the work. *)
  Fixpoint completions (e : etask) (schedule : list (list N)) : nat :=
    match schedule with
    | [] => 0
    | p :: rest =>
        match e with
        | EWritten _ => 0
        | _ => (if valid p e then 1 else 0) + completions (step p e) rest
        end
    end.

  Theorem completions_bounded : forall schedule f e, depth_ok f e ->
    (completions e schedule <= work f e)%nat.
  Proof.
    induction schedule as [|p rest IH]; intros f e Hok; [cbn; lia|]. cbn [completions].
    destruct (step_work p f e Hok) as (Hok' & Hle & Hlt).
    specialize (IH f (step p e) Hok').
    destruct e as [ts|kids|trees|vs|c]; try (destruct (valid p _) eqn:Ev; [specialize (Hlt eq_refl)|]; lia).
  Qed.
End Termination.

(** * progress, and total correctness of the merger model *)
Section Progress.
  Context (accept : bool) (content_merge : list N -> option N).
  Notation step := (step accept content_merge).
  Notation root_step := (root_step accept content_merge).
  Notation process_tree := (process_tree accept).
  Notation work := (work accept).
  Notation mdf := (merge_dir_full accept content_merge).

  (** A directory record exists only while one of its entries is pending (mark_completed
      schedules the write as soon as nothing is pending). *)
  Fixpoint settled (e : etask) : Prop :=
    match e with
    | EDir kids =>
        existsb (fun k => negb (is_done (snd k))) kids = true
        /\ (fix go (l : list (N * etask)) : Prop :=
              match l with [] => True | k :: t => settled (snd k) /\ go t end) kids
    | _ => True
    end.
  Lemma settled_dir kids :
    settled (EDir kids) <->
    existsb (fun k => negb (is_done (snd k))) kids = true /\ Forall (fun k => settled (snd k)) kids.
  Proof.
    cbn [settled]. apply and_iff_compat_l. induction kids as [|k t IH]; [split; constructor|].
    rewrite Forall_cons_iff, <- IH. tauto.
  Qed.

  Lemma forallb_false_existsb {A} (f : A -> bool) l :
    forallb f l = false -> existsb (fun x => negb (f x)) l = true.
  Proof.
    induction l as [|x t IH]; [discriminate|]. cbn [forallb existsb].
    destruct (f x); cbn [negb andb orb]; auto.
  Qed.

  Lemma settled_settle kids : Forall (fun k => settled (snd k)) kids -> settled (settle kids).
  Proof.
    intros H. unfold TreeMerger.settle. destruct (forallb _ kids) eqn:E; [exact I|].
    apply settled_dir. split; [now apply forallb_false_existsb|assumption].
  Qed.

  Lemma settled_process ts : settled (process_tree ts).
  Proof.
    rewrite process_tree_eq. apply settled_settle, Forall_forall. intros k Hk.
    apply in_map_iff in Hk as (n & <- & _). unfold kid_of. cbn [snd].
    destruct (tm accept (map (lookup n) ts)); [exact I|]. destruct (is_tree _); exact I.
  Qed.

  Lemma step_settled : forall pick e, settled e -> settled (step pick e).
  Proof.
    induction pick as [|n rest IH]; intros e Hs.
    - destruct e; cbn [TreeMerger.step]; auto; try exact I. apply settled_process.
    - destruct e as [ts|kids|trees|vs|c]; cbn [TreeMerger.step]; auto.
      apply settled_settle. apply settled_dir in Hs as [_ Hk]. rewrite Forall_forall in *.
      intros k Hin. apply in_map_iff in Hin as (k0 & <- & Hk0).
      destruct (N.eqb (fst k0) n); [cbn [snd]; apply IH, Hk, Hk0|now apply Hk].
  Qed.

  (** [in_flight] finds an item in flight whenever the task is not completed. *)
  Lemma in_flight_sound : forall e p, in_flight e = Some p -> valid p e = true.
  Proof.
    induction e as [ts|kids IH|trees|vs|c] using etask_ind_nested; intros p H; cbn [in_flight] in H;
      try (injection H as <-; reflexivity); [|discriminate].
    induction kids as [|k t IHt]; [discriminate|].
    inversion IH as [|? ? Hk Ht]; subst.
    destruct (in_flight (snd k)) as [q|] eqn:E.
    - injection H as <-. cbn [valid existsb]. rewrite N.eqb_refl, (Hk q eq_refl). reflexivity.
    - specialize (IHt Ht H). destruct p as [|n q]; [discriminate|]. cbn [valid existsb] in *.
      rewrite IHt. apply Bool.orb_true_r.
  Qed.

  Lemma in_flight_complete : forall e, settled e -> is_done e = false -> in_flight e <> None.
  Proof.
    induction e as [ts|kids IH|trees|vs|c] using etask_ind_nested; intros Hs Hd; cbn [in_flight];
      try discriminate.
    apply settled_dir in Hs as [Hex Hk]. apply existsb_exists in Hex as (k0 & Hin & Hnd).
    apply Bool.negb_true_iff in Hnd.
    induction kids as [|k t IHt]; [contradiction|].
    inversion IH as [|? ? Hk1 Ht]; subst. inversion Hk as [|? ? Hs1 Hst]; subst.
    destruct (in_flight (snd k)) as [q|] eqn:E; [discriminate|].
    destruct Hin as [<-|Hin]; [exfalso; now apply (Hk1 Hs1 Hnd)|]. now apply IHt.
  Qed.

  (** The states the root task goes through. *)
  Definition root_ok (f : nat) (e : etask) : Prop :=
    depth_ok f e /\ settled e /\ match e with EDone _ | EFile _ => False | _ => True end.

  Lemma depth_ok_odd : forall e f, depth_ok f e -> odd_task e.
  Proof.
    induction e as [ts|kids IH|trees|vs|c] using etask_ind_nested; intros f H; try exact I.
    - now destruct H.
    - apply odd_dir. apply depth_ok_dir in H. rewrite Forall_forall in *. intros k Hk.
      apply (IH k Hk (Nat.pred f)), H, Hk.
  Qed.

  Lemma root_step_ok f e p : root_ok f e -> root_ok f (root_step e p).
  Proof.
    intros (Hd & Hs & Hsh). unfold root_ok.
    destruct (root_step_preserves accept content_merge e p (depth_ok_odd e f Hd) Hsh) as (_ & _ & Hsh').
    repeat split; auto.
    - destruct e; cbn [TreeMerger.root_step]; auto; now apply step_work.
    - destruct e; cbn [TreeMerger.root_step]; auto; now apply step_settled.
  Qed.

  (** C07 progress: a merge that has not returned has an item in flight. *)
  Theorem progress f e : root_ok f e -> (forall trees, e <> EWritten trees) ->
    exists p, in_flight e = Some p /\ valid p e = true.
  Proof.
    intros (Hd & Hs & Hsh) Hnw.
    assert (Hnd : is_done e = false) by (destruct e; try reflexivity; contradiction).
    destruct (in_flight e) as [p|] eqn:E; [|exfalso; now apply (in_flight_complete e Hs Hnd)].
    exists p. split; [reflexivity|now apply in_flight_sound].
  Qed.

  Lemma fold_written trees schedule : fold_left root_step schedule (EWritten trees) = EWritten trees.
  Proof. induction schedule as [|p t IH]; [reflexivity|]. cbn [fold_left TreeMerger.root_step]. exact IH. Qed.

  (** A schedule that never idles: each step completes an item in flight (until the merge
      has returned). *)
  Fixpoint busy (e : etask) (schedule : list (list N)) : Prop :=
    match schedule with
    | [] => True
    | p :: rest =>
        match e with EWritten _ => True | _ => valid p e = true end /\ busy (root_step e p) rest
    end.

  Lemma read_work_ge f ts : (3 <= read_work accept f ts)%nat.
  Proof. destruct f; cbn [read_work]; lia. Qed.

  Theorem busy_returns : forall schedule f e, root_ok f e -> busy e schedule ->
    (work f e <= S (length schedule))%nat ->
    exists trees, fold_left root_step schedule e = EWritten trees.
  Proof.
    induction schedule as [|p rest IH]; intros f e Hok Hb Hw.
    - destruct Hok as (Hd & Hs & Hsh). cbn [fold_left length] in *.
      destruct e as [ts|kids|trees|vs|c]; try contradiction; [| |eauto].
      + change (work f (ERead ts)) with (read_work accept f ts) in Hw. pose proof (read_work_ge f ts). lia.
      + rewrite work_dir in Hw. lia.
    - cbn [fold_left]. destruct Hb as [Hv Hb].
      destruct e as [ts|kids|trees|vs|c]; try (exfalso; exact (proj2 (proj2 Hok)));
        [| |exists trees; apply fold_written].
      all: apply (IH f); [now apply root_step_ok|assumption|].
      all: cbn [TreeMerger.root_step length] in *.
      all: destruct Hok as (Hd & _); destruct (step_work accept content_merge p f _ Hd) as (_ & _ & Hlt);
        specialize (Hlt Hv); lia.
  Qed.

  (** The scheduler that always completes the first item in flight. *)
  Fixpoint canonical (k : nat) (e : etask) : list (list N) :=
    match k with
    | O => []
    | S k' =>
        match e with
        | EWritten _ => []
        | _ => match in_flight e with
               | Some p => p :: canonical k' (step p e)
               | None => []
               end
        end
    end.

  Lemma canonical_busy : forall k f e, root_ok f e -> busy e (canonical k e).
  Proof.
    induction k as [|k IH]; intros f e Hok; [exact I|]. cbn [canonical].
    destruct e as [ts|kids|trees|vs|c]; try (exfalso; exact (proj2 (proj2 Hok))); [| |exact I].
    all: match goal with |- busy ?e _ =>
           destruct (progress f e Hok ltac:(intros ? H0; discriminate H0)) as (p & Hp & Hv) end.
    all: rewrite Hp; cbn [busy]; split; [assumption|].
    all: apply (IH f); exact (root_step_ok f _ p Hok).
  Qed.

  Lemma canonical_length : forall k f e, root_ok f e -> (work f e <= S k)%nat ->
    exists trees, fold_left root_step (canonical k e) e = EWritten trees.
  Proof.
    induction k as [|k IH]; intros f e Hok Hw.
    - apply (busy_returns [] f e Hok I). cbn [length]. exact Hw.
    - cbn [canonical].
      destruct e as [ts|kids|trees|vs|c]; try (exfalso; exact (proj2 (proj2 Hok)));
        [| |exists trees; reflexivity].
      all: match goal with |- exists _, fold_left _ _ ?e = _ =>
             destruct (progress f e Hok ltac:(intros ? H0; discriminate H0)) as (p & Hp & Hv) end.
      all: rewrite Hp; cbn [fold_left TreeMerger.root_step].
      all: apply (IH f); [exact (root_step_ok f _ p Hok)|].
      all: destruct Hok as (Hd & _); destruct (step_work accept content_merge p f _ Hd) as (_ & _ & Hlt);
        specialize (Hlt Hv); lia.
  Qed.

  Lemma root_ok_init ts : Nat.odd (length ts) = true -> root_ok (max_tdepth ts) (ERead ts).
  Proof. intros H. repeat split; auto. Qed.

  (** Total correctness of the concurrent merger model: every schedule that never idles and
      is long enough returns the recursive directory merge ... *)
  Theorem busy_schedule_total (ts : list tree) (schedule : list (list N)) :
    Nat.odd (length ts) = true -> busy (ERead ts) schedule ->
    (read_work accept (max_tdepth ts) ts <= S (length schedule))%nat ->
    run accept content_merge ts schedule = EWritten (mdf ts).
  Proof.
    intros Hodd Hb Hw.
    destruct (busy_returns schedule (max_tdepth ts) (ERead ts) (root_ok_init ts Hodd) Hb Hw) as [trees Ht].
    unfold run. rewrite Ht. f_equal. now apply (schedule_independent accept content_merge ts schedule).
  Qed.

  (** ... and such schedules exist: completing the first item in flight, [read_work] times. *)
  Theorem canonical_schedule_total (ts : list tree) : Nat.odd (length ts) = true ->
    let schedule := canonical (read_work accept (max_tdepth ts) ts) (ERead ts) in
    busy (ERead ts) schedule /\ run accept content_merge ts schedule = EWritten (mdf ts).
  Proof.
    intros Hodd schedule. pose proof (root_ok_init ts Hodd) as Hok. split.
    - now apply (canonical_busy _ (max_tdepth ts)).
    - destruct (canonical_length (read_work accept (max_tdepth ts) ts) (max_tdepth ts) (ERead ts) Hok)
        as [trees Ht]; [change (work (max_tdepth ts) (ERead ts)) with (read_work accept (max_tdepth ts) ts); lia|].
      unfold run. fold schedule in Ht. rewrite Ht. f_equal.
      now apply (schedule_independent accept content_merge ts schedule).
  Qed.
End Progress.
