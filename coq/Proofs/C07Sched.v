(** C07_schedule_independent: whatever the order in which the TreeMerger's work items
    complete, the merge it returns is the recursive directory merge. *)
From Verif Require Import Base.Prelude Model.Merge.
From Verif Require Import Proofs.MergeDen Proofs.C01 Proofs.C02 Proofs.TrivialMap Proofs.SimplifyDisjoint.
From Verif Require Import Model.TreeMerge Model.Rebase Model.TreeMerger.
From Verif Require Import Proofs.TreeValue Proofs.TreeMerge Proofs.C07 Proofs.C08 Proofs.ThereBack.
From Coq Require Import Lia Arith.

Section etask_ind_nested.
  Variable P : etask -> Prop.
  Hypothesis HR : forall ts, P (ERead ts).
  Hypothesis HD : forall kids, Forall (fun k => P (snd k)) kids -> P (EDir kids).
  Hypothesis HW : forall trees, P (EWritten trees).
  Hypothesis HF : forall vs, P (EFile vs).
  Hypothesis HO : forall c, P (EDone c).
  Fixpoint etask_ind_nested (e : etask) : P e :=
    match e with
    | ERead ts => HR ts
    | EDir kids =>
        HD kids ((fix go (l : list (N * etask)) : Forall (fun k => P (snd k)) l :=
                    match l with
                    | [] => Forall_nil _
                    | k :: t => Forall_cons k (etask_ind_nested (snd k)) (go t)
                    end) kids)
    | EWritten trees => HW trees
    | EFile vs => HF vs
    | EDone c => HO c
    end.
End etask_ind_nested.

Section Sched.
  Context (accept : bool) (content_merge : list N -> option N).
  Notation tm := (tm accept).
  Notation mdf := (merge_dir_full accept content_merge).
  Notation merge_path := (merge_path accept content_merge).
  Notation collapse := (collapse accept).
  Notation step := (step accept content_merge).
  Notation process_tree := (process_tree accept).
  Notation settle := (settle).

  (** What an entry will contribute to its directory once everything below it completed. *)
  Fixpoint eval (e : etask) : list oval :=
    match e with
    | ERead ts => collapse (map of_tree (mdf ts))
    | EDir kids =>
        collapse (map of_tree
                    (assemble ((fix go (l : list (N * etask)) : list (N * list oval) :=
                                  match l with [] => [] | k :: t => (fst k, eval (snd k)) :: go t end) kids)))
    | EWritten trees => collapse (map of_tree trees)
    | EFile vs => collapse (resolve_file_values accept content_merge vs)
    | EDone c => c
    end.
  Definition entries (kids : list (N * etask)) : list (N * list oval) :=
    map (fun k => (fst k, eval (snd k))) kids.
  Lemma eval_dir kids : eval (EDir kids) = collapse (map of_tree (assemble (entries kids))).
  Proof.
    cbn [eval]. unfold entries. do 3 f_equal.
  Qed.

  (** The trees the root will return. *)
  Definition root_value (e : etask) : list tree :=
    match e with
    | ERead ts => mdf ts
    | EDir kids => assemble (entries kids)
    | EWritten trees => trees
    | _ => []
    end.

  (** All merges in flight have an odd number of sides. *)
  Fixpoint odd_task (e : etask) : Prop :=
    match e with
    | ERead ts => Nat.odd (length ts) = true
    | EDir kids => (fix go (l : list (N * etask)) : Prop :=
                      match l with [] => True | k :: t => odd_task (snd k) /\ go t end) kids
    | _ => True
    end.
  Lemma odd_dir kids : odd_task (EDir kids) <-> Forall (fun k => odd_task (snd k)) kids.
  Proof.
    cbn [odd_task]. induction kids as [|k t IH]; [split; constructor|].
    rewrite Forall_cons_iff, <- IH. tauto.
  Qed.

  Lemma done_entries kids : forallb (fun k => is_done (snd k)) kids = true ->
    map (fun k => (fst k, done_value (snd k))) kids = entries kids.
  Proof.
    intros H. unfold entries. apply map_ext_in. intros k Hk. rewrite forallb_forall in H.
    specialize (H k Hk). destruct (snd k); try discriminate. reflexivity.
  Qed.

  Lemma eval_settle kids : eval (settle kids) = eval (EDir kids).
  Proof.
    unfold TreeMerger.settle. destruct (forallb _ kids) eqn:E; [|reflexivity].
    unfold written_of. rewrite eval_dir, done_entries by assumption. reflexivity.
  Qed.
  Lemma root_value_settle kids : root_value (settle kids) = root_value (EDir kids).
  Proof.
    unfold TreeMerger.settle. destruct (forallb _ kids) eqn:E; [|reflexivity].
    unfold written_of. cbn [root_value]. now rewrite done_entries.
  Qed.
  Lemma odd_settle kids : odd_task (EDir kids) -> odd_task (settle kids).
  Proof. unfold TreeMerger.settle. destruct (forallb _ kids); [intros _; exact I|auto]. Qed.

  (** process_tree: the entries it creates evaluate to the per-entry merge. *)
  Definition kid_of (ts : list tree) (n : N) : N * etask :=
    let vs := map (lookup n) ts in
    (n, match tm vs with
        | Some r => EDone [r]
        | None => if is_tree vs then ERead (map to_tree vs) else EFile vs
        end).
  Lemma process_tree_eq ts : process_tree ts = settle (map (kid_of ts) (names ts)).
  Proof. reflexivity. Qed.

  Lemma eval_kid ts n : eval (snd (kid_of ts n)) = merge_path (map (lookup n) ts).
  Proof.
    unfold kid_of, TreeMerge.merge_path, merge_vals. cbn [snd].
    destruct (tm (map (lookup n) ts)) eqn:E; [reflexivity|].
    destruct (is_tree (map (lookup n) ts)); reflexivity.
  Qed.

  Lemma entries_kids ts :
    entries (map (kid_of ts) (names ts))
    = es_of (fun n => merge_path (map (lookup n) ts)) (names ts).
  Proof.
    unfold entries, es_of. rewrite map_map. apply map_ext. intros n. now rewrite eval_kid.
  Qed.

  Lemma root_value_process ts : Nat.odd (length ts) = true -> root_value (process_tree ts) = mdf ts.
  Proof.
    intros Hodd. rewrite process_tree_eq, root_value_settle. cbn [root_value].
    now rewrite entries_kids, <- merge_dir_full_unfold.
  Qed.
  Lemma eval_process ts : Nat.odd (length ts) = true -> eval (process_tree ts) = eval (ERead ts).
  Proof.
    intros Hodd. rewrite process_tree_eq, eval_settle, eval_dir. cbn [eval].
    now rewrite entries_kids, <- merge_dir_full_unfold.
  Qed.
  Lemma odd_process ts : Nat.odd (length ts) = true -> odd_task (process_tree ts).
  Proof.
    intros Hodd. rewrite process_tree_eq. apply odd_settle, odd_dir, Forall_forall.
    intros k Hk. apply in_map_iff in Hk as (n & <- & _). unfold kid_of. cbn [snd].
    destruct (tm (map (lookup n) ts)); [exact I|].
    destruct (is_tree (map (lookup n) ts)); [|exact I]. cbn [odd_task]. now rewrite !map_length.
  Qed.

  (** * one step *)
  Definition upd (f : etask -> etask) (n : N) (kids : list (N * etask)) : list (N * etask) :=
    map (fun k => if N.eqb (fst k) n then (fst k, f (snd k)) else k) kids.

  Lemma entries_upd f n kids :
    Forall (fun k => eval (f (snd k)) = eval (snd k)) kids -> entries (upd f n kids) = entries kids.
  Proof.
    intros H. unfold entries, upd. rewrite map_map. apply map_ext_in. intros k Hk.
    rewrite Forall_forall in H. destruct (N.eqb (fst k) n); [|reflexivity]. cbn [fst snd].
    now rewrite (H k Hk).
  Qed.

  Theorem step_preserves : forall pick e, odd_task e ->
    eval (step pick e) = eval e /\ odd_task (step pick e)
    /\ (forall kids, e = EDir kids -> root_value (step pick e) = root_value e).
  Proof.
    induction pick as [|n rest IH]; intros e Hodd.
    - destruct e as [ts|kids|trees|vs|c]; cbn [TreeMerger.step]; repeat split; auto; try discriminate.
      + now apply eval_process.
      + now apply odd_process.
    - destruct e as [ts|kids|trees|vs|c]; cbn [TreeMerger.step]; repeat split; auto; try discriminate.
      all: fold (upd (step rest) n kids).
      all: assert (HF : Forall (fun k => eval (step rest (snd k)) = eval (snd k)) kids)
        by (apply odd_dir in Hodd; rewrite Forall_forall in *; intros k Hk; apply (IH (snd k)), Hodd, Hk).
      + rewrite eval_settle, !eval_dir, entries_upd by assumption. reflexivity.
      + apply odd_settle, odd_dir. apply odd_dir in Hodd. unfold upd. rewrite Forall_forall in *.
        intros k Hk. apply in_map_iff in Hk as (k0 & <- & Hk0).
        destruct (N.eqb (fst k0) n); [cbn [snd]; apply (IH (snd k0)), Hodd, Hk0|now apply Hodd].
      + intros kids' E. injection E as <-. rewrite root_value_settle. cbn [root_value].
        now rewrite entries_upd.
  Qed.

  Notation root_step := (root_step accept content_merge).

  Lemma root_step_preserves e pick : odd_task e ->
    match e with EDone _ | EFile _ => False | _ => True end ->
    root_value (root_step e pick) = root_value e /\ odd_task (root_step e pick)
    /\ match root_step e pick with EDone _ | EFile _ => False | _ => True end.
  Proof.
    intros Hodd Hshape. destruct e as [ts|kids|trees|vs|c]; try contradiction; cbn [TreeMerger.root_step].
    - destruct pick; cbn [TreeMerger.step]; [|auto].
      split; [now apply root_value_process|]. split; [now apply odd_process|].
      rewrite process_tree_eq. unfold TreeMerger.settle. now destruct (forallb _ _).
    - destruct (step_preserves pick (EDir kids) Hodd) as (_ & Ho & Hr).
      split; [exact (Hr kids eq_refl)|]. split; [assumption|].
      destruct pick; cbn [TreeMerger.step]; [exact I|]. unfold TreeMerger.settle. now destruct (forallb _ _).
    - auto.
  Qed.

  (** C07_schedule_independent. *)
  Theorem schedule_independent (ts : list tree) (schedule : list (list N)) trees :
    Nat.odd (length ts) = true ->
    run accept content_merge ts schedule = EWritten trees -> trees = mdf ts.
  Proof.
    intros Hodd. unfold run.
    assert (G : forall sched e, odd_task e -> match e with EDone _ | EFile _ => False | _ => True end ->
                                root_value (fold_left root_step sched e) = root_value e).
    { induction sched as [|p t IH]; intros e Ho Hs; [reflexivity|]. cbn [fold_left].
      destruct (root_step_preserves e p Ho Hs) as (Hr & Ho' & Hs'). now rewrite IH. }
    intros H. pose proof (G schedule (ERead ts) Hodd I) as HG. rewrite H in HG. exact HG.
  Qed.

  (** Progress: a merge that has not returned has an in-flight item. *)
  Fixpoint in_flight (e : etask) : option (list N) :=
    match e with
    | ERead _ | EWritten _ | EFile _ => Some []
    | EDone _ => None
    | EDir kids =>
        (fix go (l : list (N * etask)) : option (list N) :=
           match l with
           | [] => None
           | k :: t => match in_flight (snd k) with Some p => Some (fst k :: p) | None => go t end
           end) kids
    end.
End Sched.
