(** C27: without the cleanliness hypothesis the assert_eq!s of set_sparse_patterns fail on a
    concrete disk (the witness of the known-finding class sparse-removal-skipped-assert). *)
From Verif Require Import Base.Prelude Base.FsC Base.WcC Base.C25Chk Base.WcNames.
From Verif Require Import Proofs.FsC Proofs.WcCore Proofs.C25Main.
Local Open Scope string_scope.
Local Open Scope list_scope.

Definition asserts_full : Prop :=
  forall f w new, wf_fs f -> WcCore.anchor reserved_names f ->
    o_res (fst (set_sparse reserved_names f w new)) <> RPanic.

(** Tree {x/f, y}, patterns [x], the directory [x] replaced by a file behind jj's back, new
    patterns [y]. *)
Definition refut_f : fs := [(pth ".jj", EDir); (pth ".jj/repo", EDir); (pth "x", EFile "o" false)].
Definition refut_w : wc :=
  mkWc [(pth "x/f", TFile "1" false); (pth "y", TFile "2" false)] [(pth "x/f", false)] [pth "x"].

Lemma asserts_refuted : ~ asserts_full.
Proof.
  intros H. apply (H refut_f refut_w [pth "y"]).
  - apply wf_fs_b_sound. vm_compute. reflexivity.
  - apply (anchor_b_sound reserved_names). vm_compute. reflexivity.
  - vm_compute. reflexivity.
Qed.
