(** Proofs for C17. *)
From Verif Require Import Base.Prelude Base.C16Lib Gen.Tables Model.C17 Proofs.C16Lib.
From Coq Require Import Lia.
Local Open Scope N_scope.

(** * Boolean equalities *)
Lemma sig_eqb_spec a b : sig_eqb a b = true <-> a = b.
Proof.
  destruct a as [a1 a2 a3 a4], b as [b1 b2 b3 b4]. unfold sig_eqb. cbn [s_name s_email s_millis s_tz].
  rewrite !andb_true_iff, !bytes_eqb_spec, !Z.eqb_eq.
  split; [intros [[[-> ->] ->] ->]; reflexivity | intros [= -> -> -> ->]; tauto].
Qed.

Lemma lb_eqb_spec (a b : list bytes) : list_eqb bytes_eqb a b = true <-> a = b.
Proof. apply list_eqb_spec, bytes_eqb_spec. Qed.

Lemma commit_eqb_spec a b : commit_eqb a b = true <-> a = b.
Proof.
  destruct a as [a1 a2 a3 a4 a5 a6 a7 a8], b as [b1 b2 b3 b4 b5 b6 b7 b8]. unfold commit_eqb.
  cbn [c_parents c_predecessors c_root_tree c_labels c_change_id c_description c_author c_committer].
  rewrite !andb_true_iff, !lb_eqb_spec, !bytes_eqb_spec, !sig_eqb_spec.
  split; [intros [[[[[[[-> ->] ->] ->] ->] ->] ->] ->]; reflexivity
         | intros [= -> -> -> -> -> -> -> ->]; tauto].
Qed.

Lemma gsig_eqb_spec a b : gsig_eqb a b = true <-> a = b.
Proof.
  destruct a as [a1 a2 a3 a4], b as [b1 b2 b3 b4]. unfold gsig_eqb.
  cbn [g_name g_email g_seconds g_offset].
  rewrite !andb_true_iff, !bytes_eqb_spec, !Z.eqb_eq.
  split; [intros [[[-> ->] ->] ->]; reflexivity | intros [= -> -> -> ->]; tauto].
Qed.

Lemma gc_eqb_spec a b : gc_eqb a b = true <-> a = b.
Proof.
  destruct a as [a1 a2 a3 a4 a5 a6], b as [b1 b2 b3 b4 b5 b6]. unfold gc_eqb.
  cbn [gc_tree gc_parents gc_author gc_committer gc_headers gc_message].
  rewrite !andb_true_iff, !lb_eqb_spec, !gsig_eqb_spec, bytes_eqb_spec,
    (list_eqb_spec _ (pair_eqb_spec _ _ bytes_eqb_spec bytes_eqb_spec)).
  split; [intros [[[[[-> ->] ->] ->] ->] ->]; reflexivity | intros [= -> -> -> -> -> ->]; tauto].
Qed.

Lemma gc_eqb_refl a : gc_eqb a a = true.
Proof. apply gc_eqb_spec; reflexivity. Qed.

Lemma extras_eqb_spec a b : extras_eqb a b = true <-> a = b.
Proof.
  destruct a as [a1 a2], b as [b1 b2]. unfold extras_eqb. cbn [e_change_id e_predecessors].
  rewrite andb_true_iff, bytes_eqb_spec, lb_eqb_spec.
  split; [intros [-> ->]; reflexivity | intros [= -> ->]; tauto].
Qed.

Lemma rout_eqb_spec a b : rout_eqb a b = true <-> a = b.
Proof.
  destruct a, b; cbn; try (split; [discriminate | intros [=]]); try tauto.
  rewrite commit_eqb_spec. split; [intros ->; reflexivity | intros [= ->]; reflexivity].
Qed.

(** * Hex *)
Lemma hex_value_digit rev d : d < 16 -> hex_value rev (hex_digit rev d) = Some d.
Proof.
  intro H. unfold hex_value, hex_digit. destruct rev.
  - replace ((107 <=? 122 - d) && (122 - d <=? 122)) with true.
    + f_equal. lia.
    + symmetry. apply andb_true_iff. split; apply N.leb_le; lia.
  - destruct (N.ltb_spec d 10).
    + replace ((48 <=? 48 + d) && (48 + d <=? 57)) with true.
      * f_equal. lia.
      * symmetry. apply andb_true_iff. split; apply N.leb_le; lia.
    + replace ((48 <=? 87 + d) && (87 + d <=? 57)) with false.
      * replace ((97 <=? 87 + d) && (87 + d <=? 102)) with true.
        -- f_equal. lia.
        -- symmetry. apply andb_true_iff. split; apply N.leb_le; lia.
      * symmetry. apply andb_false_iff. right. apply N.leb_gt. lia.
Qed.

Lemma decode_encode_hex rev l :
  Forall (fun b => b < 256) l -> decode_hex rev (encode_hex rev l) = Some l.
Proof.
  induction 1 as [|b l Hb Hl IH]; [reflexivity|].
  cbn [encode_hex decode_hex].
  rewrite !hex_value_digit, IH.
  - f_equal. f_equal. pose proof (N.div_mod b 16 ltac:(lia)). lia.
  - apply N.mod_lt. lia.
  - apply N.div_lt_upper_bound; lia.
Qed.

Lemma hex_digit_not_space d : d < 16 -> hex_digit false d <> 32.
Proof. intro H. unfold hex_digit. destruct (N.ltb_spec d 10); lia. Qed.

Lemma encode_hex_no_space l :
  Forall (fun b => b < 256) l -> has_byte 32 (encode_hex false l) = false.
Proof.
  induction 1 as [|b l Hb Hl IH]; [reflexivity|].
  cbn [encode_hex has_byte existsb]. fold (has_byte 32 (encode_hex false l)). rewrite IH.
  assert (H1 : hex_digit false (b / 16) <> 32) by (apply hex_digit_not_space, N.div_lt_upper_bound; lia).
  assert (H2 : hex_digit false (b mod 16) <> 32) by (apply hex_digit_not_space, N.mod_lt; lia).
  apply N.eqb_neq in H1, H2. rewrite N.eqb_sym in H1. rewrite N.eqb_sym in H2.
  rewrite H1, H2. reflexivity.
Qed.

(** * split / join *)
Lemma split_on_no_sep sep p : has_byte sep p = false -> split_on sep p = [p].
Proof.
  induction p as [|b p IH]; [reflexivity|]. cbn [has_byte existsb]. fold (has_byte sep p).
  intro H. apply orb_false_iff in H as [H1 H2]. cbn [split_on].
  rewrite N.eqb_sym in H1. rewrite H1, (IH H2). reflexivity.
Qed.

Lemma split_on_app sep p rest :
  has_byte sep p = false ->
  split_on sep (p ++ sep :: rest) = p :: split_on sep rest.
Proof.
  induction p as [|b p IH]; intro H.
  - cbn. rewrite N.eqb_refl. reflexivity.
  - cbn [has_byte existsb] in H. fold (has_byte sep p) in H.
    apply orb_false_iff in H as [H1 H2]. cbn [app split_on].
    rewrite N.eqb_sym in H1. rewrite H1, (IH H2). reflexivity.
Qed.

Lemma split_join sep ps :
  ps <> [] -> forallb (fun p => negb (has_byte sep p)) ps = true ->
  split_on sep (join sep ps) = ps.
Proof.
  induction ps as [|p ps IH]; intros N F; [congruence|].
  cbn [forallb] in F. apply andb_true_iff in F as [Fp F]. apply negb_true_iff in Fp.
  destruct ps as [|q ps].
  - cbn [join]. apply split_on_no_sep, Fp.
  - change (join sep (p :: q :: ps)) with (p ++ sep :: join sep (q :: ps)).
    rewrite split_on_app by exact Fp. f_equal. apply IH; [discriminate | exact F].
Qed.

Lemma split_join_terminated sep ps :
  ps <> [] -> forallb (fun p => negb (has_byte sep p)) ps = true ->
  split_on sep (join sep ps ++ [sep]) = ps ++ [[]].
Proof.
  induction ps as [|p ps IH]; intros N F; [congruence|].
  cbn [forallb] in F. apply andb_true_iff in F as [Fp F]. apply negb_true_iff in Fp.
  destruct ps as [|q ps].
  - cbn [join]. rewrite split_on_app by exact Fp. reflexivity.
  - change (join sep (p :: q :: ps)) with (p ++ sep :: join sep (q :: ps)).
    rewrite <- app_assoc. cbn [app]. rewrite split_on_app by exact Fp.
    cbn [app]. f_equal. apply IH; [discriminate | exact F].
Qed.

Lemma split_terminator_join sep ps :
  ps <> [] -> forallb (fun p => negb (has_byte sep p)) ps = true ->
  split_terminator sep (join sep ps ++ [sep]) = ps.
Proof.
  intros N F. unfold split_terminator. rewrite (split_join_terminated sep ps N F).
  rewrite rev_app_distr. cbn [rev app]. apply rev_involutive.
Qed.

(** * Signatures *)
Lemma trim_placeholder : trim placeholder = placeholder.
Proof. vm_compute. reflexivity. Qed.

Lemma placeholder_not_nil : is_nil_b placeholder = false.
Proof. vm_compute. reflexivity. Qed.

Lemma sig_field_roundtrip n :
  bytes_eqb (trim n) n = true -> bytes_eqb n placeholder = false ->
  (let g := if is_nil_b n then placeholder else n in
   if bytes_eqb (trim g) placeholder then [] else trim g) = n.
Proof.
  intros T P. cbv zeta. destruct n as [|b n].
  - cbn [is_nil_b]. rewrite trim_placeholder, bytes_eqb_refl. reflexivity.
  - cbn [is_nil_b]. apply bytes_eqb_spec in T. rewrite T, P. reflexivity.
Qed.

Lemma signature_roundtrip s :
  bytes_eqb (trim (s_name s)) (s_name s) = true ->
  bytes_eqb (trim (s_email s)) (s_email s) = true ->
  bytes_eqb (s_name s) placeholder = false -> bytes_eqb (s_email s) placeholder = false ->
  signature_from_git (signature_to_git s)
  = mk_sig (s_name s) (s_email s) (s_millis s / 1000 * 1000) (s_tz s).
Proof.
  intros T1 T2 P1 P2. destruct s as [n e m z].
  unfold signature_from_git, signature_to_git. cbv zeta.
  cbn [g_name g_email g_seconds g_offset s_name s_email s_millis s_tz] in *.
  pose proof (sig_field_roundtrip n T1 P1) as Hn. pose proof (sig_field_roundtrip e T2 P2) as He.
  f_equal; [exact Hn | exact He | apply Z.div_mul; lia].
Qed.

(** * Headers *)
Lemma headers_distinct :
  bytes_eqb header_labels header_trees = false /\ bytes_eqb header_trees header_labels = false
  /\ bytes_eqb header_change_id header_labels = false
  /\ bytes_eqb header_change_id header_trees = false
  /\ bytes_eqb header_labels header_labels = true /\ bytes_eqb header_trees header_trees = true.
Proof. vm_compute. repeat split. Qed.

Lemma find_labels root c :
  find_header header_labels (gc_headers (to_git root c))
  = if is_resolved (c_labels c) then None else Some (join 10 (c_labels c) ++ [10]).
Proof.
  destruct headers_distinct as [H1 [H2 [H3 [H4 [H5 H6]]]]].
  unfold to_git. cbn [gc_headers].
  destruct (is_resolved (c_labels c)); destruct (is_resolved (c_root_tree c));
    cbn [app find_header]; rewrite ?H1, ?H2, ?H3, ?H4, ?H5, ?H6; reflexivity.
Qed.

Lemma find_trees root c :
  find_header header_trees (gc_headers (to_git root c))
  = if is_resolved (c_root_tree c) then None
    else Some (join 32 (map (encode_hex false) (c_root_tree c))).
Proof.
  destruct headers_distinct as [H1 [H2 [H3 [H4 [H5 H6]]]]].
  unfold to_git. cbn [gc_headers].
  destruct (is_resolved (c_labels c)); destruct (is_resolved (c_root_tree c));
    cbn [app find_header]; rewrite ?H1, ?H2, ?H3, ?H4, ?H5, ?H6; reflexivity.
Qed.

Lemma decode_trees hash_len (ts : list bytes) :
  forallb (len_ok hash_len) ts = true -> forallb bytes_okb ts = true ->
  (fix go (ps : list bytes) : option (list bytes) :=
     match ps with
     | [] => Some []
     | p :: r => match decode_hex false p with
                 | Some tid => if len_ok hash_len tid
                               then match go r with Some l => Some (tid :: l) | None => None end
                               else None
                 | None => None
                 end
     end) (map (encode_hex false) ts) = Some ts.
Proof.
  induction ts as [|t ts IH]; intros L W; [reflexivity|].
  cbn [forallb] in L, W. apply andb_true_iff in L as [L1 L]. apply andb_true_iff in W as [W1 W].
  cbn [map]. rewrite decode_encode_hex.
  - rewrite L1, (IH L W). reflexivity.
  - apply Forall_forall. intros x Hx. unfold bytes_okb in W1. rewrite forallb_forall in W1.
    apply N.ltb_lt, W1, Hx.
Qed.

Lemma extract_root_tree_to_git root c secs :
  Nat.odd (length (c_root_tree c)) = true ->
  forallb (len_ok (length root)) (c_root_tree c) = true -> trees_wfb c = true ->
  extract_root_tree (length root) (with_committer_seconds (to_git root c) secs)
  = Some (c_root_tree c).
Proof.
  intros O L W. unfold extract_root_tree.
  change (gc_headers (with_committer_seconds (to_git root c) secs))
    with (gc_headers (to_git root c)).
  rewrite find_trees. destruct (is_resolved (c_root_tree c)) eqn:R; [reflexivity|].
  rewrite split_join.
  - rewrite (decode_trees _ _ L W). rewrite R.
    rewrite <- Nat.negb_odd, O. reflexivity.
  - destruct (c_root_tree c); [discriminate | intro E; destruct (map _ _) eqn:M; discriminate].
  - rewrite forallb_forall. intros p Hp. apply in_map_iff in Hp as [t [<- Ht]].
    rewrite encode_hex_no_space; [reflexivity|].
    apply Forall_forall. intros x Hx. unfold trees_wfb in W. rewrite forallb_forall in W.
    specialize (W _ Ht). unfold bytes_okb in W. rewrite forallb_forall in W. apply N.ltb_lt, W, Hx.
Qed.

(** * Parents *)
Lemma parents_roundtrip root (ps : list bytes) :
  is_nil_b ps = false ->
  (existsb (bytes_eqb root) ps && negb (is_resolved ps)) = false ->
  (let f := filter (fun p => negb (bytes_eqb p root)) ps in
   if is_nil_b f then [root] else f) = ps.
Proof.
  intros N R. cbv zeta. destruct (existsb (bytes_eqb root) ps) eqn:E.
  - cbn in R. apply negb_false_iff in R. destruct ps as [|p [|q ps]]; try discriminate.
    cbn in E. rewrite orb_false_r in E. apply bytes_eqb_spec in E. subst p.
    cbn [filter]. rewrite bytes_eqb_refl. reflexivity.
  - assert (F : filter (fun p => negb (bytes_eqb p root)) ps = ps).
    { clear N R. induction ps as [|p ps IH]; [reflexivity|].
      cbn [existsb] in E. apply orb_false_iff in E as [E1 E2]. cbn [filter].
      replace (bytes_eqb p root) with false.
      - cbn. f_equal. apply IH, E2.
      - symmetry. destruct (bytes_eqb p root) eqn:B; [|reflexivity].
        apply bytes_eqb_spec in B. subst. rewrite bytes_eqb_refl in E1. discriminate. }
    rewrite F. destruct ps; [discriminate | reflexivity].
Qed.

(** * Decoding what was encoded *)
Lemma read_to_git root c secs t id :
  acceptedb root c = true -> git_domainb c = true -> trees_wfb c = true ->
  names_okb c = true ->
  table_get (with_committer_seconds (to_git root c) secs) t = Some (serialize_extras c) ->
  read root t (with_committer_seconds (to_git root c) secs) id
  = ROk (with_times c (s_millis (c_author c) / 1000 * 1000) (secs * 1000)).
Proof.
  intros A D W Nm G.
  unfold acceptedb in A. repeat (apply andb_true_iff in A as [A ?]).
  rename A into Lt, H5 into Ia, H4 into Ic, H3 into Np, H2 into Rp, H1 into Lp, H0 into Lb, H into Gx.
  unfold git_domainb, base_domainb, labels_okb in D. repeat (apply andb_true_iff in D as [D ?]).
  rename D into Ol, H1 into Rl, H0 into Ot, H into Cn.
  unfold names_okb, placeholder_nameb, padded_nameb in Nm.
  apply andb_true_iff in Nm as [Pl Pd]. apply negb_true_iff in Pl. apply negb_true_iff in Pd.
  apply negb_false_iff in Pd.
  apply orb_false_iff in Pl as [Pl Pce]. apply orb_false_iff in Pl as [Pl Pcn].
  apply orb_false_iff in Pl as [Pan Pae].
  apply andb_true_iff in Pd as [Pd Tce]. apply andb_true_iff in Pd as [Pd Tcn].
  apply andb_true_iff in Pd as [Tan Tae].
  assert (Tail : forall labels, labels = c_labels c ->
    match extract_root_tree (length root) (with_committer_seconds (to_git root c) secs) with
    | Some root_tree =>
        match table_get (with_committer_seconds (to_git root c) secs) t with
        | Some e =>
            ROk (mk_commit
                   (if is_nil_b (gc_parents (with_committer_seconds (to_git root c) secs))
                    then [root] else gc_parents (with_committer_seconds (to_git root c) secs))
                   (e_predecessors e) root_tree labels
                   (if is_nil_b (e_change_id e)
                    then match find_header header_change_id (gc_headers (to_git root c)) with
                         | Some v => match decode_hex true v with
                                     | Some cid => if Nat.eqb (length cid) change_id_length then cid
                                                   else synthetic_change_id id
                                     | None => synthetic_change_id id
                                     end
                         | None => synthetic_change_id id
                         end
                    else e_change_id e)
                   (gc_message (with_committer_seconds (to_git root c) secs))
                   (signature_from_git (gc_author (with_committer_seconds (to_git root c) secs)))
                   (signature_from_git (gc_committer (with_committer_seconds (to_git root c) secs))))
        | None => RErr
        end
    | None => RErr
    end = ROk (with_times c (s_millis (c_author c) / 1000 * 1000) (secs * 1000))).
  { intros labels ->.
    rewrite (extract_root_tree_to_git root c secs Ot Lt W).
    rewrite G. cbn [serialize_extras e_change_id e_predecessors].
    apply negb_true_iff in Cn. rewrite Cn.
    unfold with_times. f_equal. f_equal.
    + apply negb_true_iff in Np. apply negb_true_iff in Rp.
      exact (parents_roundtrip root (c_parents c) Np Rp).
    + change (gc_author (with_committer_seconds (to_git root c) secs)) with (signature_to_git (c_author c)).
      apply signature_roundtrip; assumption.
    + change (gc_committer (with_committer_seconds (to_git root c) secs))
        with (mk_gsig (g_name (signature_to_git (c_committer c))) (g_email (signature_to_git (c_committer c)))
                      secs (g_offset (signature_to_git (c_committer c)))).
      pose proof (signature_roundtrip (c_committer c) Tcn Tce Pcn Pce) as Sc.
      unfold signature_from_git, signature_to_git in *. cbv zeta in *.
      cbn [g_name g_email g_seconds g_offset] in *. injection Sc as S1 S2 S4.
      f_equal; [exact S1 | exact S2 | exact S4]. }
  unfold read.
  change (gc_headers (with_committer_seconds (to_git root c) secs)) with (gc_headers (to_git root c)).
  rewrite find_labels.
  destruct (is_resolved (c_labels c)) eqn:R.
  - cbn in Rl. apply lb_eqb_spec in Rl. apply Tail. symmetry. exact Rl.
  - cbv zeta. rewrite split_terminator_join.
    + rewrite <- Nat.negb_odd, Ol. cbn [negb]. apply Tail. reflexivity.
    + destruct (c_labels c); discriminate.
    + cbn [negb andb] in Lb. apply negb_true_iff in Lb.
      rewrite forallb_forall. intros p Hp. apply negb_true_iff.
      destruct (has_byte 10 p) eqn:Hb; [|reflexivity].
      assert (X : existsb (has_byte 10) (c_labels c) = true) by (apply existsb_exists; eauto).
      exfalso. exact (eq_true_false_abs _ X Lb).
Qed.

(** * Inverting a successful write *)
Lemma write_ok_inv k root t c gc c' t' :
  write_gen k root t c = (WOk gc c', t') ->
  acceptedb root c = true
  /\ exists secs,
       find_free (S (length t)) t (to_git root c) (g_seconds (gc_committer (to_git root c)))
                 (serialize_extras c) = Some secs
       /\ gc = with_committer_seconds (to_git root c) secs
       /\ c' = with_times c (if k then s_millis (c_author c) else s_millis (c_author c) / 1000 * 1000)
                          (secs * 1000)
       /\ t' = (gc, serialize_extras c) :: t.
Proof.
  unfold write_gen, acceptedb.
  destruct (is_resolved (c_root_tree c) && negb (forallb (len_ok (length root)) (c_root_tree c))) eqn:E1;
    [discriminate|].
  destruct (forallb (len_ok (length root)) (c_root_tree c)) eqn:E2; [|discriminate]. cbn [negb].
  destruct (i32_ok (s_tz (c_author c) * 60)) eqn:E3; [|discriminate].
  destruct (i32_ok (s_tz (c_committer c) * 60)) eqn:E4; [|discriminate]. cbn [andb negb].
  destruct (is_nil_b (c_parents c)) eqn:E5; [discriminate|].
  destruct (existsb (bytes_eqb root) (c_parents c) && negb (is_resolved (c_parents c))) eqn:E6;
    [discriminate|].
  destruct (forallb (len_ok (length root)) (c_parents c)) eqn:E7; [|discriminate]. cbn [negb].
  destruct (negb (is_resolved (c_labels c)) && existsb (has_byte 10) (c_labels c)) eqn:E8;
    [discriminate|]. cbn [negb andb].
  change (gc_author (to_git root c)) with (signature_to_git (c_author c)).
  change (gc_committer (to_git root c)) with (signature_to_git (c_committer c)).
  destruct (gix_sig_check (signature_to_git (c_author c))) as [[|]|]; try discriminate.
  destruct (gix_sig_check (signature_to_git (c_committer c))) as [[|]|]; try discriminate.
  destruct (find_free _ _ _ _ _) as [secs|] eqn:F; [|discriminate].
  intros [= <- <- <-]. split; [reflexivity|]. exists secs. repeat split.
Qed.

(** * The extras table *)
Lemma table_get_head gc e t : table_get gc ((gc, e) :: t) = Some e.
Proof. cbn. rewrite gc_eqb_refl. reflexivity. Qed.

Lemma find_free_spec fuel : forall t gc secs e s,
  find_free fuel t gc secs e = Some s ->
  table_get (with_committer_seconds gc s) t = None
  \/ table_get (with_committer_seconds gc s) t = Some e.
Proof.
  induction fuel as [|fuel IH]; intros t gc secs e s H; [discriminate|].
  cbn [find_free] in H. destruct (table_get (with_committer_seconds gc secs) t) as [e'|] eqn:G.
  - destruct (extras_eqb e' e) eqn:X.
    + injection H as <-. apply extras_eqb_spec in X. subst. right. exact G.
    + eapply IH, H.
  - injection H as <-. left. exact G.
Qed.

(** An entry, once present, is never changed by a later write (the new key is either fresh
    or already maps to the same extras). *)
Lemma write_preserves_table k root t c w t' key e :
  write_gen k root t c = (w, t') -> table_get key t = Some e -> table_get key t' = Some e.
Proof.
  intros W G. destruct w as [gc c'| |].
  - apply write_ok_inv in W as [_ [secs [F [Egc [_ ->]]]]].
    cbn [table_get]. destruct (gc_eqb gc key) eqn:K; [|exact G].
    apply gc_eqb_spec in K. subst key.
    apply find_free_spec in F. rewrite <- Egc in F. destruct F as [F|F]; congruence.
  - assert (t' = t); [|subst; exact G].
    revert W. unfold write_gen.
    repeat match goal with
           | |- context [if ?b then _ else _] => destruct b
           | |- context [match ?x with _ => _ end] => destruct x
           end; intro H; try discriminate H; inversion H; reflexivity.
  - assert (t' = t); [|subst; exact G].
    revert W. unfold write_gen.
    repeat match goal with
           | |- context [if ?b then _ else _] => destruct b
           | |- context [match ?x with _ => _ end] => destruct x
           end; intro H; try discriminate H; inversion H; reflexivity.
Qed.

(** * Read after write *)
Theorem git_read_write root t c gc c' t' id :
  write root t c = (WOk gc c', t') ->
  git_domainb c = true -> trees_wfb c = true -> names_okb c = true ->
  read root t' gc id = ROk c'.
Proof.
  intros W D Wf Nm. apply write_ok_inv in W as [A [secs [_ [-> [-> ->]]]]].
  apply read_to_git; try assumption. apply table_get_head.
Qed.

(** [read] only looks at the entry of its own key. *)
Lemma read_table_irrelevant root t1 t2 gc id :
  table_get gc t1 = table_get gc t2 -> read root t1 gc id = read root t2 gc id.
Proof. intro E. unfold read. rewrite E. reflexivity. Qed.

Lemma later_preserves root t1 t2 key e :
  later root t1 t2 -> table_get key t1 = Some e -> table_get key t2 = Some e.
Proof.
  induction 1 as [|t1 t2 c w t3 L IH W]; intro G; [exact G|].
  eapply write_preserves_table; [exact W | apply IH, G].
Qed.

(** What was read right after the write is read at any later time. *)
Theorem git_read_stable root t c gc c' t1 t2 id :
  write root t c = (WOk gc c', t1) -> later root t1 t2 ->
  git_domainb c = true -> trees_wfb c = true -> names_okb c = true ->
  read root t2 gc id = ROk c'.
Proof.
  intros W L D Wf Nm. rewrite <- (git_read_write root t c gc c' t1 id W D Wf Nm).
  apply read_table_irrelevant.
  pose proof W as W'. apply write_ok_inv in W' as [_ [secs [_ [_ [_ ->]]]]].
  rewrite (later_preserves _ _ _ gc (serialize_extras c) L); rewrite table_get_head; reflexivity.
Qed.

(** Two writes that return the same id returned the same commit. *)
Theorem git_same_id_same_commit root t c1 gc c1' t1 t2 c2 c2' t3 :
  write root t c1 = (WOk gc c1', t1) -> later root t1 t2 ->
  write root t2 c2 = (WOk gc c2', t3) ->
  git_domainb c1 = true -> trees_wfb c1 = true -> names_okb c1 = true ->
  git_domainb c2 = true -> trees_wfb c2 = true -> names_okb c2 = true ->
  c1' = c2'.
Proof.
  intros W1 L W2 D1 F1 N1 D2 F2 N2.
  assert (L3 : later root t1 t3) by (eapply later_step; eassumption).
  pose proof (git_read_stable root t c1 gc c1' t1 t3 [] W1 L3 D1 F1 N1) as R1.
  pose proof (git_read_write root t2 c2 gc c2' t3 [] W2 D2 F2 N2) as R2.
  congruence.
Qed.

(** The id is a function of the returned commit: it is the Git commit of the returned
    commit itself. *)
Lemma to_git_with_times root c a s :
  to_git root (with_times c (a / 1000 * 1000) (s * 1000))
  = with_committer_seconds (to_git root (with_times c a (s * 1000))) s.
Proof.
  unfold to_git, with_times, with_committer_seconds, signature_to_git.
  cbn [c_root_tree c_parents c_author c_committer c_labels c_change_id c_description
       s_name s_email s_millis s_tz gc_tree gc_parents gc_author gc_committer gc_headers gc_message
       g_name g_email g_seconds g_offset].
  rewrite !Z.div_mul by lia. reflexivity.
Qed.

Theorem git_id_of_returned root t c gc c' t' :
  write root t c = (WOk gc c', t') -> gc = to_git root c'.
Proof.
  intro W. apply write_ok_inv in W as [_ [secs [_ [-> [-> _]]]]].
  unfold to_git, with_times, with_committer_seconds, signature_to_git.
  cbn [c_root_tree c_parents c_author c_committer c_labels c_change_id c_description
       s_name s_email s_millis s_tz gc_tree gc_parents gc_author gc_committer gc_headers gc_message
       g_name g_email g_seconds g_offset].
  rewrite !Z.div_mul by lia. reflexivity.
Qed.

(** * Distinct recorded fields give distinct encodings *)
Lemma with_own_seconds gc : with_committer_seconds gc (g_seconds (gc_committer gc)) = gc.
Proof. destruct gc as [a b c [n e s o] h m]. reflexivity. Qed.

Lemma decode_encoding root c id :
  acceptedb root c = true -> git_domainb c = true -> trees_wfb c = true -> names_okb c = true ->
  read root [encoding root c] (to_git root c) id = ROk (normalize c).
Proof.
  intros A D W N.
  pose proof (read_to_git root c (g_seconds (gc_committer (to_git root c)))
                [encoding root c] id A D W N) as R.
  rewrite with_own_seconds in R. unfold normalize.
  change (g_seconds (gc_committer (to_git root c))) with (s_millis (c_committer c) / 1000)%Z in R.
  apply R. unfold encoding. apply table_get_head.
Qed.

Theorem distinct_encodings root c1 c2 :
  acceptedb root c1 = true -> git_domainb c1 = true -> trees_wfb c1 = true -> names_okb c1 = true ->
  acceptedb root c2 = true -> git_domainb c2 = true -> trees_wfb c2 = true -> names_okb c2 = true ->
  normalize c1 <> normalize c2 -> encoding root c1 <> encoding root c2.
Proof.
  intros A1 D1 W1 N1 A2 D2 W2 N2 Ne E. apply Ne.
  pose proof (decode_encoding root c1 [] A1 D1 W1 N1) as R1.
  pose proof (decode_encoding root c2 [] A2 D2 W2 N2) as R2.
  rewrite E in R1. replace (to_git root c1) with (to_git root c2) in R1.
  - congruence.
  - unfold encoding in E. congruence.
Qed.

(** * Witnesses of the findings *)
(** F1 (repaired by 7b9f28d): the old code returned an author timestamp it did not store. *)
Lemma author_ms_old_refuted :
  exists c gc c' t', write_old w_root [] c = (WOk gc c', t')
                     /\ git_domainb c = true /\ trees_wfb c = true /\ names_okb c = true
                     /\ read w_root t' gc [] <> ROk c'.
Proof.
  exists (w_commit [65] 1000123). eexists. eexists. eexists.
  split; [vm_compute; reflexivity|]. repeat split; try (vm_compute; reflexivity).
  vm_compute. discriminate.
Qed.

(** ... and the repaired code does not, on the same commit. *)
Lemma author_ms_repaired :
  exists gc c' t', write w_root [] (w_commit [65] 1000123) = (WOk gc c', t')
                   /\ read w_root t' gc [] = ROk c'
                   /\ s_millis (c_author c') = 1000000%Z.
Proof. eexists. eexists. eexists. split; [vm_compute; reflexivity|]. split; vm_compute; reflexivity. Qed.

(** F2: the empty name and the placeholder literal have the same encoding (hence the same
    commit id), and the second reads back with an empty name. *)
Lemma placeholder_collision_refuted :
  exists c1 c2,
    acceptedb w_root c1 = true /\ acceptedb w_root c2 = true
    /\ git_domainb c1 = true /\ git_domainb c2 = true
    /\ normalize c1 <> normalize c2
    /\ encoding w_root c1 = encoding w_root c2
    /\ (exists gc c' t', write w_root [] c2 = (WOk gc c', t') /\ read w_root t' gc [] <> ROk c').
Proof.
  exists (w_commit [] 1000000), (w_commit placeholder 1000000).
  repeat split; try (vm_compute; reflexivity).
  - vm_compute. discriminate.
  - eexists. eexists. eexists. split; [vm_compute; reflexivity|]. vm_compute. discriminate.
Qed.

(** F6: a name with leading or trailing whitespace reads back trimmed. *)
Lemma padded_name_refuted :
  exists c gc c' t', write w_root [] c = (WOk gc c', t')
                     /\ git_domainb c = true /\ placeholder_nameb c = false
                     /\ read w_root t' gc [] <> ROk c'.
Proof.
  exists (w_commit [32; 65] 1000000). eexists. eexists. eexists.
  split; [vm_compute; reflexivity|]. repeat split; try (vm_compute; reflexivity).
  vm_compute. discriminate.
Qed.

(** * The collision loop terminates within its fuel *)
Definition key_le (gc : git_commit) (secs : Z) (p : git_commit * extras) : bool :=
  gc_eqb (with_committer_seconds (fst p) 0) (with_committer_seconds gc 0)
  && (g_seconds (gc_committer (fst p)) <=? secs)%Z.

Lemma filter_length_le {A} (p : A -> bool) l : (length (filter p l) <= length l)%nat.
Proof. induction l as [|x l IH]; cbn; [lia|]. destruct (p x); cbn; lia. Qed.

Lemma filter_length_lt {A} (p q : A -> bool) l x :
  (forall y, p y = true -> q y = true) -> In x l -> q x = true -> p x = false ->
  (length (filter p l) < length (filter q l))%nat.
Proof.
  intros M. induction l as [|y l IH]; intros Hin Q P; [destruct Hin|].
  assert (Mono : (length (filter p l) <= length (filter q l))%nat).
  { clear -M. induction l as [|z l IH]; cbn; [lia|].
    destruct (p z) eqn:Pz; [rewrite (M z Pz); cbn; lia|]. destruct (q z); cbn; lia. }
  destruct Hin as [->|Hin].
  - cbn. rewrite P, Q. cbn. lia.
  - specialize (IH Hin Q P). cbn. destruct (p y) eqn:Py.
    + rewrite (M y Py). cbn. lia.
    + destruct (q y); cbn; lia.
Qed.

Lemma table_get_In key t e : table_get key t = Some e -> In (key, e) t.
Proof.
  induction t as [|[k e0] t IH]; cbn; [discriminate|].
  destruct (gc_eqb k key) eqn:K.
  - intros [= ->]. apply gc_eqb_spec in K. subst. left. reflexivity.
  - intro H. right. apply IH, H.
Qed.

Lemma wcs_wcs gc a b : with_committer_seconds (with_committer_seconds gc a) b = with_committer_seconds gc b.
Proof. reflexivity. Qed.

Lemma find_free_enough fuel : forall t gc secs e,
  (length (filter (key_le gc secs) t) < fuel)%nat ->
  exists s, find_free fuel t gc secs e = Some s.
Proof.
  induction fuel as [|fuel IH]; intros t gc secs e L; [lia|].
  cbn [find_free]. destruct (table_get (with_committer_seconds gc secs) t) as [e'|] eqn:G;
    [|eexists; reflexivity].
  destruct (extras_eqb e' e); [eexists; reflexivity|].
  apply IH. apply table_get_In in G.
  assert (length (filter (key_le gc (secs - 1)) t) < length (filter (key_le gc secs) t))%nat; [|lia].
  apply (filter_length_lt _ _ t (with_committer_seconds gc secs, e')).
  - intros [k e0]. unfold key_le. cbn [fst]. rewrite !andb_true_iff, !Z.leb_le. intros [? ?]. split; [assumption|lia].
  - exact G.
  - unfold key_le. cbn [fst]. rewrite wcs_wcs, gc_eqb_refl. cbn. apply Z.leb_le. lia.
  - unfold key_le. cbn [fst]. rewrite wcs_wcs, gc_eqb_refl. cbn. apply Z.leb_gt. lia.
Qed.

Theorem collision_loop_terminates t gc secs e :
  exists s, find_free (S (length t)) t gc secs e = Some s.
Proof.
  apply find_free_enough. pose proof (filter_length_le (key_le gc secs) t). lia.
Qed.

(** * The simple backend *)
Theorem simple_read_write c :
  simple_domainb c = true -> commit_from_proto (commit_to_proto c) = ROk c.
Proof.
  unfold simple_domainb, base_domainb, labels_okb, labels_canonb. intro D.
  apply andb_true_iff in D as [D Cn]. apply andb_true_iff in D as [D Ot].
  apply andb_true_iff in D as [Ol Rl].
  destruct c as [ps pr rt ls ci de au co].
  cbn [c_labels c_root_tree] in *.
  unfold commit_from_proto, commit_to_proto, labels_from_vec.
  cbn [pc_parents pc_predecessors pc_root_tree pc_labels pc_change_id pc_description pc_author
       pc_committer c_parents c_predecessors c_root_tree c_labels c_change_id c_description
       c_author c_committer].
  rewrite <- Nat.negb_odd, Ot. cbn [negb].
  destruct (is_resolved ls) eqn:R.
  - cbn in Rl. apply lb_eqb_spec in Rl. subst ls. reflexivity.
  - replace (is_nil_b ls) with false by (destruct ls; [discriminate|reflexivity]).
    cbn [negb andb orb] in *. rewrite <- Nat.negb_odd, Ol. cbn [negb]. rewrite R.
    apply negb_true_iff in Cn. rewrite Cn. reflexivity.
Qed.

Lemma c_sig_ok : codec_ok c_sig.
Proof.
  apply c_iso_ok; [intros []; reflexivity|].
  repeat apply c_pair_ok; first [apply c_bytes_ok | apply c_signed_ok; lia].
Qed.

Lemma c_unit_ok : codec_ok c_unit.
Proof. intros [] r _. reflexivity. Qed.

Lemma c_commit_ok : codec_ok c_commit.
Proof.
  apply c_iso_ok; [intros []; reflexivity|].
  repeat apply c_pair_ok;
    first [ apply c_list_ok, c_bytes_ok | apply c_bytes_ok | apply c_sig_ok
          | apply c_option_ok, c_unit_ok ].
Qed.

(** * The ContentHash encoding of a commit is injective *)
Lemma b_wfb_spec b : b_wfb b = true -> cwf c_bytes b.
Proof.
  unfold b_wfb, len64b. intro H. apply andb_true_iff in H as [H1 H2]. split.
  - apply Forall_forall. intros x Hx. rewrite forallb_forall in H1. apply N.ltb_lt, H1, Hx.
  - apply N.ltb_lt, H2.
Qed.

Lemma lb_wfb_spec l : lb_wfb l = true -> cwf (c_list c_bytes) l.
Proof.
  unfold lb_wfb, len64b. intro H. apply andb_true_iff in H as [H1 H2]. split.
  - apply Forall_forall. intros x Hx. rewrite forallb_forall in H1. apply b_wfb_spec, H1, Hx.
  - apply N.ltb_lt, H2.
Qed.

Lemma sig_wfb_spec s : sig_wfb s = true -> cwf c_sig s.
Proof.
  unfold sig_wfb. intro H.
  destruct s as [n e m z]. cbn [s_name s_email s_millis s_tz] in *.
  apply andb_true_iff in H as [H T]. apply andb_true_iff in H as [Hn He].
  apply andb_true_iff in T as [T T4]. apply andb_true_iff in T as [T T3].
  apply andb_true_iff in T as [T1 T2].
  apply Z.leb_le in T1. apply Z.ltb_lt in T2. apply Z.leb_le in T3. apply Z.ltb_lt in T4.
  refine (conj (b_wfb_spec _ Hn) (conj (b_wfb_spec _ He) (conj _ _))); cbn; lia.
Qed.

Lemma commit_enc_wfb_spec c : commit_enc_wfb c = true -> cwf c_commit c.
Proof.
  unfold commit_enc_wfb. intro H.
  apply andb_true_iff in H as [H Hco]. apply andb_true_iff in H as [H Hau].
  apply andb_true_iff in H as [H Hde]. apply andb_true_iff in H as [H Hci].
  apply andb_true_iff in H as [H Hls]. apply andb_true_iff in H as [H Hrt].
  apply andb_true_iff in H as [Hps Hpr].
  destruct c as [ps pr rt ls ci de au co].
  cbn [c_parents c_predecessors c_root_tree c_labels c_change_id c_description c_author c_committer] in *.
  exact (conj (lb_wfb_spec _ Hps) (conj (lb_wfb_spec _ Hpr) (conj (lb_wfb_spec _ Hrt)
        (conj (lb_wfb_spec _ Hls) (conj (b_wfb_spec _ Hci) (conj (b_wfb_spec _ Hde)
        (conj (sig_wfb_spec _ Hau) (conj (sig_wfb_spec _ Hco) I)))))))).
Qed.

Theorem commit_enc_injective c1 c2 :
  commit_enc_wfb c1 = true -> commit_enc_wfb c2 = true -> enc_commit c1 = enc_commit c2 -> c1 = c2.
Proof. intros H1 H2. apply (codec_inj _ c_commit_ok); apply commit_enc_wfb_spec; assumption. Qed.

(** * What the checker means *)
Lemma eqb_iff (a b : bool) : Bool.eqb a b = true <-> (a = true <-> b = true).
Proof. destruct a, b; cbn; intuition discriminate. Qed.

Lemma objects_okb_spec c :
  objects_okb c = true <-> forall written read, In (written, read) (k_objects c) -> read = Some written.
Proof.
  unfold objects_okb. rewrite forallb_forall. split.
  - intros H wr rd Hin. specialize (H _ Hin). cbn [fst snd] in H.
    apply (option_eqb_spec _ bytes_eqb_spec) in H. exact H.
  - intros H [wr rd] Hin. cbn [fst snd]. apply (option_eqb_spec _ bytes_eqb_spec). apply H, Hin.
Qed.

Theorem okb_spec c : okb c = true <-> case_ok c.
Proof.
  unfold okb, okb_gen, case_ok, ids_okb. rewrite !andb_true_iff, !forallb_forall, objects_okb_spec.
  assert (S1 : forall s, step_okb (fun _ => false) (k_git c) s = true <-> step_ok (k_git c) s).
  { intro s. unfold step_okb, step_ok. destruct (st_out s) as [id r| |]; [|tauto|tauto].
    cbn [orb]. rewrite andb_true_iff, orb_true_iff, negb_true_iff, rout_eqb_spec.
    destruct (domainb (k_git c) (st_in s)); intuition congruence. }
  split.
  - intros [[Hs Hp] Ho]. split; [|split; [|exact Ho]].
    + intros s Hin. apply S1, Hs, Hin.
    + intros s1 s2 H1 H2. specialize (Hp s1 H1). rewrite forallb_forall in Hp.
      specialize (Hp s2 H2). unfold pair_ok.
      destruct (st_out s1) as [i1 r1| |], (st_out s2) as [i2 r2| |]; try exact I.
      cbn [orb] in Hp. intros D1 D2. rewrite D1, D2 in Hp. cbn in Hp.
      apply eqb_iff in Hp. rewrite bytes_eqb_spec, commit_eqb_spec in Hp. exact Hp.
  - intros [Hs [Hp Ho]]. split; [split|exact Ho].
    + intros s Hin. apply S1, Hs, Hin.
    + intros s1 H1. rewrite forallb_forall. intros s2 H2. specialize (Hp s1 s2 H1 H2).
      unfold pair_ok in Hp.
      destruct (st_out s1) as [i1 r1| |], (st_out s2) as [i2 r2| |]; try reflexivity.
      cbn [orb]. destruct (domainb (k_git c) (st_in s1)); [|reflexivity].
      destruct (domainb (k_git c) (st_in s2)); [|reflexivity]. cbn.
      apply eqb_iff. rewrite bytes_eqb_spec, commit_eqb_spec. apply Hp; reflexivity.
Qed.

(** A case is demoted to a known finding only if some step lies in a known class. *)
Lemma forallb_ext_in {A} (f g : A -> bool) l :
  (forall x, In x l -> f x = g x) -> forallb f l = forallb g l.
Proof.
  induction l as [|x l IH]; intro H; [reflexivity|]. cbn.
  rewrite (H x (or_introl eq_refl)), IH; [reflexivity|]. intros; apply H; right; assumption.
Qed.

Lemma okb_gen_ext (e1 e2 : commit -> bool) c :
  (forall s, In s (k_steps c) -> e1 (st_in s) = e2 (st_in s)) -> okb_gen e1 c = okb_gen e2 c.
Proof.
  intro H. unfold okb_gen, ids_okb. f_equal. f_equal.
  - apply forallb_ext_in. intros s Hs. unfold step_okb. rewrite (H s Hs). reflexivity.
  - apply forallb_ext_in. intros s1 H1. apply forallb_ext_in. intros s2 H2.
    rewrite (H s1 H1), (H s2 H2). reflexivity.
Qed.

Theorem known_sound c :
  known c = true ->
  k_git c = true /\ okb c = false
  /\ exists s, In s (k_steps c) /\ known_classb (st_in s) = true.
Proof.
  unfold known. intro H. apply andb_true_iff in H as [H K]. apply andb_true_iff in H as [G N].
  apply negb_true_iff in N. repeat split; try assumption.
  destruct (existsb (fun s => known_classb (st_in s)) (k_steps c)) eqn:E.
  - apply existsb_exists in E. exact E.
  - exfalso. assert (okb_gen known_classb c = okb c).
    { apply okb_gen_ext. intros s Hs.
      destruct (known_classb (st_in s)) eqn:Ks; [|reflexivity].
      assert (existsb (fun s => known_classb (st_in s)) (k_steps c) = true)
        by (apply existsb_exists; eauto). congruence. }
    congruence.
Qed.
