(** Denotation of a mapped term vector, and the two situations in which every image of a
    merge resolves to the image of one side: the terms cancel pairwise except for that
    side, or (same-change accepted) all adds agree and all removes agree. *)
From Coq Require Import Lia Arith ZArith.
From Verif Require Import Base.Prelude Model.Merge Proofs.MergeDen Proofs.C01 Proofs.C02.
Local Open Scope Z_scope.

Section DenMap.
  Context {A B : Type} (eqa : A -> A -> bool) (eqb : B -> B -> bool).
  Hypothesis eqa_spec : forall x y, eqa x y = true <-> x = y.
  Hypothesis eqb_spec : forall x y, eqb x y = true <-> x = y.
  Variable g : A -> B.

  Fixpoint wsum (D : list A) (f : A -> Z) : Z :=
    match D with [] => 0 | v :: t => f v + wsum t f end.

  Lemma wsum_ext D f1 f2 : (forall v, In v D -> f1 v = f2 v) -> wsum D f1 = wsum D f2.
  Proof.
    induction D as [|v t IH]; intros H; cbn [wsum]; [reflexivity|].
    rewrite H by now left. rewrite IH; [reflexivity|]. intros; apply H; now right.
  Qed.

  Lemma wsum_zero D : wsum D (fun _ => 0) = 0.
  Proof. induction D; cbn [wsum]; lia. Qed.

  Lemma wsum_add D f1 f2 : wsum D (fun v => f1 v + f2 v) = wsum D f1 + wsum D f2.
  Proof. induction D; cbn [wsum]; lia. Qed.

  Lemma wsum_notin D x F : ~ In x D -> wsum D (fun v => if eqa x v then F v else 0) = 0.
  Proof.
    induction D as [|v t IH]; intros H; cbn [wsum]; [reflexivity|].
    rewrite IH by (intros C; apply H; now right).
    destruct (eqa x v) eqn:E; [|lia]. apply eqa_spec in E. subst. exfalso. apply H. now left.
  Qed.

  Lemma wsum_single D x F :
    NoDup D -> In x D -> wsum D (fun v => if eqa x v then F v else 0) = F x.
  Proof.
    induction 1 as [|v t Hn Hd IH]; intros Hin; [destruct Hin|]. cbn [wsum].
    destruct Hin as [->|Hin].
    - rewrite (proj2 (eqa_spec x x) eq_refl), wsum_notin by assumption. lia.
    - rewrite IH by assumption. destruct (eqa x v) eqn:E; [|lia].
      apply eqa_spec in E. subst. contradiction.
  Qed.

  Lemma den_s_map l : forall s w D, NoDup D -> incl l D ->
    den_s eqb s (map g l) w = wsum D (fun v => if eqb (g v) w then den_s eqa s l v else 0).
  Proof.
    induction l as [|x t IH]; intros s w D Hn Hi.
    - cbn [map den_s]. rewrite (wsum_ext D _ (fun _ => 0)); [now rewrite wsum_zero|].
      intros v _. now destruct (eqb (g v) w).
    - cbn [map]. rewrite den_s_cons.
      rewrite (IH (negb s) w D Hn) by (intros y Hy; apply Hi; now right).
      symmetry.
      rewrite (wsum_ext D (fun v => if eqb (g v) w then den_s eqa s (x :: t) v else 0)
                        (fun v => (if eqa x v then (if eqb (g v) w then sg s else 0) else 0)
                                  + (if eqb (g v) w then den_s eqa (negb s) t v else 0))).
      + rewrite wsum_add, wsum_single by (auto; apply Hi; now left).
        unfold ind. destruct (eqb (g x) w); lia.
      + intros v _. rewrite den_s_cons. unfold ind. destruct (eqb (g v) w), (eqa x v); lia.
  Qed.

  Lemma den_in_nonzero l v : den eqa l v <> 0 -> In v l.
  Proof.
    intros H. destruct (in_dec (C02.eq_dec eqa eqa_spec) v l) as [I|I]; [assumption|].
    exfalso. apply H. now apply (C02.den_notin eqa eqa_spec).
  Qed.

  (** If the terms cancel pairwise except for [X], so do their images, except for [g X]. *)
  Lemma den_map_delta l X :
    (forall v, den eqa l v = ind eqa X v) -> forall w, den eqb (map g l) w = ind eqb (g X) w.
  Proof.
    intros H w. unfold den.
    assert (HX : In X l).
    { apply den_in_nonzero. rewrite H. unfold ind. now rewrite (proj2 (eqa_spec X X) eq_refl). }
    set (D := nodup (C02.eq_dec eqa eqa_spec) l).
    rewrite (den_s_map l true w D); [|apply NoDup_nodup|intros y Hy; now apply nodup_In].
    rewrite (wsum_ext D _ (fun v => if eqa X v then (if eqb (g v) w then 1 else 0) else 0)).
    - rewrite wsum_single; [reflexivity|apply NoDup_nodup|now apply nodup_In].
    - intros v _. fold (den eqa l v). rewrite H. unfold ind. destruct (eqb (g v) w), (eqa X v); reflexivity.
  Qed.
End DenMap.

Section Resolving.
  Context {T : Type} (eqb : T -> T -> bool).
  Hypothesis eqb_spec : forall x y, eqb x y = true <-> x = y.

  (** Every image of the merge resolves to the image of [X]. *)
  Definition resolves_under_maps (accept : bool) (l : list T) (X : T) : Prop :=
    forall g : T -> T, trivial_merge eqb accept (map g l) = Some (g X).

  Lemma rum_delta accept l X :
    Nat.odd (length l) = true -> (forall v, den eqb l v = ind eqb X v) ->
    resolves_under_maps accept l X.
  Proof.
    intros Ho H g. apply (trivial_merge_spec eqb eqb_spec); [now rewrite map_length|].
    pose proof (den_map_delta eqb eqb eqb_spec g l X H) as D.
    split.
    - rewrite D. unfold ind. now rewrite (proj2 (eqb_spec _ _) eq_refl).
    - left. intros w Hw. rewrite D. unfold ind. destruct (eqb (g X) w) eqn:E; [|reflexivity].
      apply eqb_spec in E. congruence.
  Qed.

  (** All adds equal [S], all removes equal [Bv]. *)
  Definition sides_are (l : list T) (S Bv : T) : Prop :=
    Forall (fun a => a = S) (evens l) /\ Forall (fun r => r = Bv) (odds l).

  Lemma den_sides l S Bv : forall sgn : bool,
    Forall (fun a => a = S) (if sgn then evens l else odds l) ->
    Forall (fun r => r = Bv) (if sgn then odds l else evens l) ->
    forall v, den_s eqb sgn l v
              = Z.of_nat (length (if sgn then evens l else odds l)) * ind eqb S v
                - Z.of_nat (length (if sgn then odds l else evens l)) * ind eqb Bv v.
  Proof.
    induction l as [|x t IH]; intros sgn H1 H2 v.
    - destruct sgn; cbn; lia.
    - rewrite den_s_cons.
      change (evens (x :: t)) with (x :: odds t) in *. change (odds (x :: t)) with (evens t) in *.
      destruct sgn; cbn [negb].
      + inversion H1; subst. rewrite (IH false) by assumption. cbn [length sg]. rewrite Nat2Z.inj_succ. nia.
      + inversion H2; subst. rewrite (IH true) by assumption. cbn [length sg]. rewrite Nat2Z.inj_succ. nia.
  Qed.

  Lemma evens_odds_length (l : list T) :
    Nat.odd (length l) = true -> length (evens l) = S (length (odds l)).
  Proof.
    assert (G : forall (n : nat) (l : list T), (length l <= n)%nat ->
                (Nat.odd (length l) = true -> length (evens l) = S (length (odds l)))
                /\ (Nat.even (length l) = true -> length (evens l) = length (odds l))).
    { induction n as [|n IH]; intros l0 Hl.
      - destruct l0; [|cbn in Hl; lia]. cbn. split; [discriminate|reflexivity].
      - destruct l0 as [|a [|b t]].
        + cbn. split; [discriminate|reflexivity].
        + cbn. split; [reflexivity|discriminate].
        + change (evens (a :: b :: t)) with (a :: evens t).
          change (odds (a :: b :: t)) with (b :: odds t).
          cbn [length] in *. destruct (IH t) as (I1 & I2); [lia|].
          change (Nat.odd (S (S (length t)))) with (Nat.odd (length t)).
          change (Nat.even (S (S (length t)))) with (Nat.even (length t)).
          split; intros H; [rewrite (I1 H)|rewrite (I2 H)]; reflexivity. }
    intros H. now apply (G (length l) l).
  Qed.

  Lemma map_evens {U} (g : T -> U) l : evens (map g l) = map g (evens l)
  with map_odds {U} (g : T -> U) l : odds (map g l) = map g (odds l).
  Proof.
    - destruct l as [|x t]; [reflexivity|].
      change (evens (map g (x :: t))) with (g x :: odds (map g t)).
      change (evens (x :: t)) with (x :: odds t). cbn [map]. now rewrite map_odds.
    - destruct l as [|x t]; [reflexivity|].
      change (odds (map g (x :: t))) with (evens (map g t)).
      change (odds (x :: t)) with (evens t). apply map_evens.
  Qed.

  (** With all adds equal to [a], every other value has a non-positive net count, negative
      if it occurs among the removes. *)
  Lemma den_adds_const l a w : forall sgn : bool,
    Forall (fun x => x = a) (if sgn then evens l else odds l) -> w <> a ->
    (den_s eqb sgn l w <= 0)%Z
    /\ (In w (if sgn then odds l else evens l) -> (den_s eqb sgn l w < 0)%Z).
  Proof.
    induction l as [|x t IH]; intros sgn H Hw.
    - destruct sgn; cbn; split; try lia; intros [].
    - rewrite den_s_cons.
      change (evens (x :: t)) with (x :: odds t) in *. change (odds (x :: t)) with (evens t) in *.
      destruct sgn; cbn [negb sg].
      + inversion H; subst. destruct (IH false H3 Hw) as (A & B). unfold ind.
        destruct (eqb a w) eqn:E; [apply eqb_spec in E; congruence|]. split; [lia|]. intros Hin. specialize (B Hin). lia.
      + destruct (IH true H Hw) as (A & B). unfold ind. destruct (eqb x w) eqn:E.
        * split; lia.
        * split; [lia|]. intros [Hin|Hin]; [subst; rewrite (proj2 (eqb_spec w w) eq_refl) in E; discriminate|].
          specialize (B Hin). lia.
  Qed.

  (** Under same-change = keep, a merge whose adds all agree resolves only if the removes
      agree with them too. *)
  Lemma keep_resolves_all_equal l a v :
    Nat.odd (length l) = true -> Forall (fun x => x = a) (evens l) ->
    trivial_merge eqb false l = Some v -> Forall (fun r => r = a) (odds l).
  Proof.
    intros Ho He H. apply (trivial_merge_spec eqb eqb_spec) in H; [|assumption].
    destruct H as (Hpos & [Hz|(Hf & _)]); [|discriminate]. unfold den in *.
    apply Forall_forall. intros r Hr.
    destruct (C02.eq_dec eqb eqb_spec r a) as [|Hne]; [assumption|exfalso].
    destruct (den_adds_const l a r true He Hne) as (_ & B). specialize (B Hr).
    destruct (C02.eq_dec eqb eqb_spec r v) as [->|Hrv]; [lia|]. specialize (Hz r Hrv). lia.
  Qed.

  Lemma rum_same_sides l S Bv :
    Nat.odd (length l) = true -> sides_are l S Bv -> resolves_under_maps true l S.
  Proof.
    intros Ho (HS & HB) g.
    assert (Hs' : Forall (fun a => a = g S) (evens (map g l))).
    { rewrite map_evens. apply Forall_map. eapply Forall_impl; [|exact HS]. cbn. now intros a ->. }
    assert (Hb' : Forall (fun a => a = g Bv) (odds (map g l))).
    { rewrite map_odds. apply Forall_map. eapply Forall_impl; [|exact HB]. cbn. now intros a ->. }
    assert (Ho' : Nat.odd (length (map g l)) = true) by now rewrite map_length.
    pose proof (evens_odds_length (map g l) Ho') as Len.
    pose proof (den_sides (map g l) (g S) (g Bv) true Hs' Hb') as D.
    apply (trivial_merge_spec eqb eqb_spec); [assumption|]. unfold Resolves, den.
    set (k := Z.of_nat (length (odds (map g l)))) in *.
    assert (Hk : Z.of_nat (length (evens (map g l))) = k + 1) by (rewrite Len; unfold k; lia).
    assert (K0 : 0 <= k) by (unfold k; lia).
    destruct (C02.eq_dec eqb eqb_spec (g S) (g Bv)) as [E|NE].
    - (* all terms equal *)
      split.
      + rewrite D, Hk, <- E. unfold ind. rewrite (proj2 (eqb_spec _ _) eq_refl). lia.
      + left. intros w Hw. rewrite D, <- E. unfold ind.
        destruct (eqb (g S) w) eqn:Q; [apply eqb_spec in Q; congruence|lia].
    - split.
      + rewrite D, Hk. unfold ind. rewrite (proj2 (eqb_spec _ _) eq_refl).
        destruct (eqb (g Bv) (g S)) eqn:Q; [apply eqb_spec in Q; congruence|lia].
      + destruct (Z.eq_dec k 0) as [K|K].
        * left. intros w Hw. rewrite D, K. unfold ind.
          destruct (eqb (g S) w) eqn:Q; [apply eqb_spec in Q; congruence|lia].
        * right. split; [reflexivity|]. exists (g Bv). split; [congruence|]. split.
          -- rewrite D. unfold ind. rewrite (proj2 (eqb_spec _ _) eq_refl).
             destruct (eqb (g S) (g Bv)) eqn:Q; [apply eqb_spec in Q; congruence|lia].
          -- intros u H1 H2. rewrite D. unfold ind.
             destruct (eqb (g S) u) eqn:Q1; [apply eqb_spec in Q1; congruence|].
             destruct (eqb (g Bv) u) eqn:Q2; [apply eqb_spec in Q2; congruence|lia].
  Qed.
End Resolving.
