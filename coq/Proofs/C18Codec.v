(** C18 codec proofs: graph entries survive the segment encoding, for any number of parents. *)
From Verif Require Import Base.Prelude Gen.Tables Model.C18Codec.
From Coq Require Import Lia.
Local Open Scope N_scope.

Lemma de32_le32 x : x <= U32MAX -> de32 (le32 x) = x.
Proof.
  intros H. unfold de32, le32, U32MAX in *.
  assert (E1 : x / 65536 = x / 256 / 256) by (rewrite N.div_div by lia; reflexivity).
  assert (E2 : x / 16777216 = x / 256 / 256 / 256) by (rewrite !N.div_div by lia; reflexivity).
  rewrite E1, E2.
  pose proof (N.div_mod' x 256) as D1.
  pose proof (N.div_mod' (x / 256) 256) as D2.
  pose proof (N.div_mod' (x / 256 / 256) 256) as D3.
  assert (L : x / 256 / 256 / 256 < 256).
  { rewrite !N.div_div by lia. apply N.div_lt_upper_bound; lia. }
  rewrite (N.mod_small (x / 256 / 256 / 256) 256 L). lia.
Qed.

Lemma le32_length x : length (le32 x) = 4%nat.
Proof. reflexivity. Qed.

Lemma de32_app x rest : de32 (le32 x ++ rest) = de32 (le32 x).
Proof. reflexivity. Qed.

Lemma skipn4_le32 x rest : skipn 4 (le32 x ++ rest) = rest.
Proof. reflexivity. Qed.

Lemma not32_invol x : x <= U32MAX -> not32 (not32 x) = x.
Proof. unfold not32. lia. Qed.

Lemma flag_val : C18_OVERFLOW_FLAG = 2147483648.
Proof. reflexivity. Qed.

Lemma as_inlined_small x : x < C18_OVERFLOW_FLAG -> as_inlined x = Some x.
Proof. intros H. unfold as_inlined. apply N.ltb_lt in H. now rewrite H. Qed.

Lemma as_inlined_big x : C18_OVERFLOW_FLAG <= x -> as_inlined x = None.
Proof. intros H. unfold as_inlined. apply N.ltb_ge in H. now rewrite H. Qed.

(** the two parent fields decode back to the parent list, whatever follows in the overflow
    table *)
Lemma dec_enc_parents ps ovf more :
  (forall p, In p ps -> p < C18_OVERFLOW_FLAG) ->
  N.of_nat (length ovf) < C18_OVERFLOW_FLAG -> N.of_nat (length ps) < C18_OVERFLOW_FLAG ->
  let '(pb, extra) := enc_parents ps (N.of_nat (length ovf)) in
  dec_parents (de32 pb) (de32 (skipn 4 pb)) (ovf ++ extra ++ more) = ps.
Proof.
  intros Hp Ho Hl. pose proof flag_val as FV.
  destruct ps as [|p1 [|p2 [|p3 ps]]]; cbn [enc_parents]; rewrite de32_app, skipn4_le32.
  - rewrite de32_le32 by (unfold U32MAX; lia). unfold dec_parents.
    rewrite as_inlined_big by (unfold U32MAX; lia). unfold not32. rewrite N.sub_diag. reflexivity.
  - assert (L1 : p1 < C18_OVERFLOW_FLAG) by (apply Hp; now left).
    rewrite !de32_le32 by (unfold U32MAX; lia). unfold dec_parents.
    rewrite as_inlined_small by assumption. now rewrite as_inlined_big by (unfold U32MAX; lia).
  - assert (L1 : p1 < C18_OVERFLOW_FLAG) by (apply Hp; now left).
    assert (L2 : p2 < C18_OVERFLOW_FLAG) by (apply Hp; right; now left).
    rewrite !de32_le32 by (unfold U32MAX; lia). unfold dec_parents.
    now rewrite !as_inlined_small by assumption.
  - set (ps' := p1 :: p2 :: p3 :: ps) in *.
    rewrite !de32_le32 by (unfold not32, U32MAX; lia). unfold dec_parents.
    rewrite as_inlined_big by (unfold not32, U32MAX; lia).
    rewrite !not32_invol by (unfold U32MAX; lia). rewrite !Nat2N.id.
    rewrite skipn_app, skipn_all, Nat.sub_diag. cbn [skipn app].
    rewrite firstn_app, firstn_all, Nat.sub_diag. cbn [firstn]. now rewrite app_nil_r.
Qed.

Definition entry_ok (idlen : nat) (e : centry) : Prop :=
  length (ce_id e) = idlen /\ ce_gen e <= U32MAX /\
  (forall p, In p (ce_parents e) -> p < C18_OVERFLOW_FLAG) /\
  N.of_nat (length (ce_parents e)) < C18_OVERFLOW_FLAG.

Lemma entry_size : C18_GRAPH_ENTRY_FIXED_SIZE = 16%nat.
Proof. reflexivity. Qed.

Lemma enc_parents_len ps n : length (fst (enc_parents ps n)) = 8%nat.
Proof. destruct ps as [|p1 [|p2 [|p3 ps]]]; reflexivity. Qed.

Lemma enc_entries_ovf chg : forall es ovf graph povf,
  enc_entries chg es ovf = (graph, povf) -> exists more, povf = ovf ++ more.
Proof.
  induction es as [|e es IH]; intros ovf graph povf H; simpl in H.
  - injection H as _ <-. exists []. now rewrite app_nil_r.
  - destruct (enc_parents (ce_parents e) (N.of_nat (length ovf))) as [pb extra].
    destruct (enc_entries chg es (ovf ++ extra)) as [rest ovf'] eqn:E.
    injection H as _ <-. destruct (IH _ _ _ E) as (more & ->). exists (extra ++ more).
    now rewrite app_assoc.
Qed.

Lemma skipn_add {A} (a b : nat) (l : list A) : skipn (a + b) l = skipn b (skipn a l).
Proof.
  revert l. induction a as [|a IH]; intros l; [reflexivity|]. destruct l; simpl; [now destruct b|apply IH].
Qed.

Lemma de32_4 (l r : list N) : length l = 4%nat -> de32 (l ++ r) = de32 l.
Proof. destruct l as [|a [|b [|c [|d [|e l]]]]]; try discriminate. reflexivity. Qed.

Lemma dec_entry_head idlen (g4 pb c4 idb rest povf : list N) :
  length g4 = 4%nat -> length pb = 8%nat -> length c4 = 4%nat -> length idb = idlen ->
  dec_entry idlen (g4 ++ pb ++ c4 ++ idb ++ rest) povf 0 =
  (de32 g4, dec_parents (de32 pb) (de32 (skipn 4 pb)) povf, de32 c4, idb).
Proof.
  intros H1 H2 H3 H4. unfold dec_entry, rd32. rewrite entry_size. cbn [Nat.mul Nat.add].
  destruct g4 as [|g0 [|g1 [|g2 [|g3 [|? ?]]]]]; try discriminate.
  destruct pb as [|a0 [|a1 [|a2 [|a3 [|b0 [|b1 [|b2 [|b3 [|? ?]]]]]]]]]; try discriminate.
  destruct c4 as [|c0 [|c1 [|c2 [|c3 [|? ?]]]]]; try discriminate.
  cbn [app skipn de32]. rewrite firstn_app, H4, firstn_all2, Nat.sub_diag by lia.
  cbn [firstn]. now rewrite app_nil_r.
Qed.

Lemma dec_entry_tail idlen (eb rest povf : list N) i :
  length eb = (16 + idlen)%nat ->
  dec_entry idlen (eb ++ rest) povf (S i) = dec_entry idlen rest povf i.
Proof.
  intros H. unfold dec_entry, rd32. rewrite entry_size.
  assert (Sk : forall k, skipn (S i * (16 + idlen) + k) (eb ++ rest) = skipn (i * (16 + idlen) + k) rest).
  { intros k. replace (S i * (16 + idlen) + k)%nat with ((16 + idlen) + (i * (16 + idlen) + k))%nat by lia.
    rewrite skipn_add, skipn_app, H, Nat.sub_diag. rewrite (skipn_all2 eb) by lia. reflexivity. }
  pose proof (Sk 0%nat) as S0. rewrite !Nat.add_0_r in S0. now rewrite S0, !Sk.
Qed.

(** every graph entry reads back: generation, parents (inline or through the overflow
    table), change id slot and commit id *)
Theorem entries_roundtrip chg idlen : forall es ovf graph povf,
  enc_entries chg es ovf = (graph, povf) ->
  Forall (entry_ok idlen) es -> N.of_nat (length povf) < C18_OVERFLOW_FLAG ->
  (forall e, In e es -> index_of (ce_change e) chg 0 <= U32MAX) ->
  forall i e, nth_error es i = Some e ->
    dec_entry idlen graph povf i =
      (ce_gen e, ce_parents e, index_of (ce_change e) chg 0, ce_id e).
Proof.
  induction es as [|e0 es IH]; intros ovf graph povf H F Ho Hc i e Hi; [now destruct i|].
  cbn [enc_entries] in H.
  destruct (enc_parents (ce_parents e0) (N.of_nat (length ovf))) as [pb extra] eqn:Ep.
  destruct (enc_entries chg es (ovf ++ extra)) as [rest ovf'] eqn:E.
  injection H as <- <-. inversion F as [|? ? (Hid & Hg & Hp & Hl) F']; subst.
  destruct (enc_entries_ovf _ _ _ _ _ E) as (more & Eo).
  assert (Lpb : length pb = 8%nat).
  { pose proof (enc_parents_len (ce_parents e0) (N.of_nat (length ovf))) as L. now rewrite Ep in L. }
  destruct i as [|i].
  - injection Hi as <-.
    change (dec_entry (length (ce_id e0))
              (le32 (ce_gen e0) ++ pb ++ le32 (index_of (ce_change e0) chg 0) ++ ce_id e0 ++ rest) ovf' 0 =
            (ce_gen e0, ce_parents e0, index_of (ce_change e0) chg 0, ce_id e0)).
    rewrite (dec_entry_head (length (ce_id e0))) by (try reflexivity; assumption).
    rewrite !de32_le32 by (try assumption; apply Hc; now left).
    f_equal. f_equal. f_equal.
    pose proof (dec_enc_parents (ce_parents e0) ovf more Hp) as D. rewrite Ep in D.
    rewrite Eo, <- app_assoc. apply D; [|assumption]. rewrite Eo, !app_length in Ho. lia.
  - cbn [nth_error] in Hi.
    change (dec_entry (length (ce_id e0))
              (le32 (ce_gen e0) ++ pb ++ le32 (index_of (ce_change e0) chg 0) ++ ce_id e0 ++ rest) ovf' (S i) =
            (ce_gen e, ce_parents e, index_of (ce_change e) chg 0, ce_id e)).
    replace (le32 (ce_gen e0) ++ pb ++ le32 (index_of (ce_change e0) chg 0) ++ ce_id e0 ++ rest)
      with ((le32 (ce_gen e0) ++ pb ++ le32 (index_of (ce_change e0) chg 0) ++ ce_id e0) ++ rest)
      by (now rewrite <- !app_assoc).
    rewrite dec_entry_tail by (rewrite !app_length, Lpb, !le32_length; lia).
    exact (IH (ovf ++ extra) rest ovf' E F' Ho (fun e' He' => Hc e' (or_intror He')) i e Hi).
Qed.

(** * the whole file *)
Lemma skipn_app_exact {A} (l r : list A) n : length l = n -> skipn n (l ++ r) = r.
Proof. intros <-. rewrite skipn_app, skipn_all, Nat.sub_diag. reflexivity. Qed.

Lemma firstn_app_exact {A} (l r : list A) n : length l = n -> firstn n (l ++ r) = l.
Proof. intros <-. rewrite firstn_app, firstn_all, Nat.sub_diag. simpl. apply app_nil_r. Qed.

Lemma flat_le32_length l : length (flat_map le32 l) = (4 * length l)%nat.
Proof. induction l as [|x l IH]; [reflexivity|]. cbn [flat_map length]. rewrite app_length, IH, le32_length. lia. Qed.

Lemma rd32_flat_le32 (l : list N) (rest : list N) j : (j < length l)%nat ->
  (forall x, In x l -> x <= U32MAX) ->
  rd32 (flat_map le32 l ++ rest) (j * 4) = nth j l 0.
Proof.
  revert j. induction l as [|x l IH]; intros j Lj B; [simpl in Lj; lia|].
  destruct j as [|j].
  - unfold rd32. cbn [Nat.mul skipn flat_map]. rewrite <- app_assoc, de32_app, de32_le32; [reflexivity|].
    apply B. now left.
  - unfold rd32 in *. cbn [flat_map]. rewrite <- app_assoc.
    replace (S j * 4)%nat with (4 + j * 4)%nat by lia. rewrite skipn_add, skipn4_le32.
    simpl in Lj. cbn [nth]. apply IH; [lia|]. intros y Hy. apply B. now right.
Qed.

Lemma map_seq_nth (l : list N) : map (fun j => nth j l 0) (seq 0 (length l)) = l.
Proof.
  induction l as [|x l IH] using rev_ind; [reflexivity|].
  rewrite app_length. cbn [length]. rewrite Nat.add_1_r, seq_S, map_app. cbn [map Nat.add].
  rewrite app_nth2 by lia. rewrite Nat.sub_diag. cbn [nth]. f_equal.
  rewrite <- IH at 2. apply map_ext_in. intros i Hi. apply in_seq in Hi. apply app_nth1. lia.
Qed.

(** the reader on any byte string laid out the way the writer lays a file out *)
Lemma decode_file_struct idlen chlen (parent graph A B C : list N) (n nch : nat) (povf covf : list N) :
  N.of_nat (length parent) <= U32MAX -> N.of_nat n <= U32MAX -> N.of_nat nch <= U32MAX ->
  N.of_nat (length povf) <= U32MAX -> N.of_nat (length covf) <= U32MAX ->
  (forall x, In x povf -> x <= U32MAX) ->
  length graph = (n * (C18_GRAPH_ENTRY_FIXED_SIZE + idlen))%nat ->
  length A = (n * 4)%nat -> length B = (nch * chlen)%nat -> length C = (nch * 4)%nat ->
  decode_file idlen chlen
    (le32 C18_SEGMENT_FORMAT_VERSION ++ le32 (N.of_nat (length parent)) ++ parent ++
     le32 (N.of_nat n) ++ le32 (N.of_nat nch) ++ le32 (N.of_nat (length povf)) ++
     le32 (N.of_nat (length covf)) ++
     graph ++ A ++ B ++ C ++ flat_map le32 povf ++ flat_map le32 covf) =
  Some (parent,
        map (fun i => let '(g0, ps, _, id0) :=
                        dec_entry idlen (graph ++ A ++ B ++ C ++ flat_map le32 povf ++ flat_map le32 covf) povf i
                      in (g0, ps, id0)) (seq 0 n)).
Proof.
  intros Bp Bn Bc Bo Bv Bx Lg La Lb Lc. unfold decode_file.
  set (tail := graph ++ A ++ B ++ C ++ flat_map le32 povf ++ flat_map le32 covf).
  set (loc := le32 (N.of_nat n) ++ le32 (N.of_nat nch) ++ le32 (N.of_nat (length povf)) ++
              le32 (N.of_nat (length covf)) ++ tail).
  assert (V : rd32 (le32 C18_SEGMENT_FORMAT_VERSION ++ le32 (N.of_nat (length parent)) ++ parent ++ loc) 0
              = C18_SEGMENT_FORMAT_VERSION).
  { unfold rd32. cbn [skipn]. rewrite de32_app. apply de32_le32. unfold U32MAX. reflexivity || (cbv; discriminate). }
  assert (P : rd32 (le32 C18_SEGMENT_FORMAT_VERSION ++ le32 (N.of_nat (length parent)) ++ parent ++ loc) 4
              = N.of_nat (length parent)).
  { unfold rd32. rewrite skipn4_le32, de32_app. now apply de32_le32. }
  fold tail. fold loc. rewrite V, P, Nat2N.id, N.eqb_refl. cbn [negb].
  assert (S8 : skipn 8 (le32 C18_SEGMENT_FORMAT_VERSION ++ le32 (N.of_nat (length parent)) ++ parent ++ loc)
               = parent ++ loc).
  { change 8%nat with (4 + 4)%nat. now rewrite skipn_add, !skipn4_le32. }
  assert (SL : skipn (8 + length parent)
                 (le32 C18_SEGMENT_FORMAT_VERSION ++ le32 (N.of_nat (length parent)) ++ parent ++ loc) = loc).
  { rewrite skipn_add, S8. now apply skipn_app_exact. }
  rewrite S8, SL, (firstn_app_exact parent loc) by reflexivity.
  assert (R0 : rd32 loc 0 = N.of_nat n).
  { unfold rd32, loc. cbn [skipn]. rewrite de32_app. now apply de32_le32. }
  assert (R4 : rd32 loc 4 = N.of_nat nch).
  { unfold rd32, loc. rewrite skipn4_le32, de32_app. now apply de32_le32. }
  assert (R8 : rd32 loc 8 = N.of_nat (length povf)).
  { unfold rd32, loc. change 8%nat with (4 + 4)%nat. rewrite skipn_add, !skipn4_le32, de32_app. now apply de32_le32. }
  assert (R12 : rd32 loc 12 = N.of_nat (length covf)).
  { unfold rd32, loc. change 12%nat with (4 + (4 + 4))%nat. rewrite !skipn_add, !skipn4_le32, de32_app.
    now apply de32_le32. }
  assert (S16 : skipn 16 loc = tail).
  { unfold loc. change 16%nat with (4 + (4 + (4 + 4)))%nat. now rewrite !skipn_add, !skipn4_le32. }
  rewrite R0, R4, R8, R12, S16, !Nat2N.id.
  assert (Lt : length tail =
               (n * (C18_GRAPH_ENTRY_FIXED_SIZE + idlen) + n * 4 + nch * chlen + nch * 4
                + length povf * 4 + length covf * 4)%nat).
  { unfold tail. rewrite !app_length, !flat_le32_length, Lg, La, Lb, Lc. lia. }
  rewrite Lt, Nat.eqb_refl. cbn [negb]. f_equal. f_equal.
  - (* the overflow table decodes to povf *)
    apply map_ext_in. intros i Hi. f_equal.
    assert (E : map (fun j => rd32 tail
                   (n * (C18_GRAPH_ENTRY_FIXED_SIZE + idlen) + n * 4 + nch * chlen + nch * 4 + j * 4))
                  (seq 0 (length povf)) = povf).
    { rewrite <- (map_seq_nth povf) at 2. apply map_ext_in. intros j Hj. apply in_seq in Hj.
      unfold rd32, tail.
      replace (n * (C18_GRAPH_ENTRY_FIXED_SIZE + idlen) + n * 4 + nch * chlen + nch * 4 + j * 4)%nat
        with (length graph + (length A + (length B + (length C + j * 4))))%nat by lia.
      rewrite !skipn_add. rewrite (skipn_app_exact graph) by reflexivity.
      rewrite (skipn_app_exact A) by reflexivity. rewrite (skipn_app_exact B) by reflexivity.
      rewrite (skipn_app_exact C) by reflexivity.
      apply (rd32_flat_le32 povf (flat_map le32 covf) j); [lia|assumption]. }
    now rewrite E.
Qed.

Lemma enc_entries_len chg idlen : forall es ovf graph povf,
  enc_entries chg es ovf = (graph, povf) -> Forall (fun e => length (ce_id e) = idlen) es ->
  length graph = (length es * (C18_GRAPH_ENTRY_FIXED_SIZE + idlen))%nat.
Proof.
  induction es as [|e es IH]; intros ovf graph povf H F; cbn [enc_entries] in H.
  - injection H as <- _. reflexivity.
  - destruct (enc_parents (ce_parents e) (N.of_nat (length ovf))) as [pb extra] eqn:Ep.
    destruct (enc_entries chg es (ovf ++ extra)) as [rest ovf'] eqn:E.
    injection H as <- _. inversion F as [|? ? Hid F']; subst.
    pose proof (enc_parents_len (ce_parents e) (N.of_nat (length ovf))) as Lp. rewrite Ep in Lp. cbn [fst] in Lp.
    change (length (le32 (ce_gen e) ++ pb ++ le32 (index_of (ce_change e) chg 0) ++ ce_id e ++ rest) =
            (length (e :: es) * (C18_GRAPH_ENTRY_FIXED_SIZE + length (ce_id e)))%nat).
    rewrite !app_length, !le32_length, Lp, (IH _ _ _ E F'), entry_size. cbn [length]. lia.
Qed.

Lemma bytes_eqb_eq a : forall b, bytes_eqb a b = true <-> a = b.
Proof.
  unfold bytes_eqb. induction a as [|x a IH]; intros [|y b]; simpl; try (split; [discriminate|discriminate]); [tauto|].
  rewrite andb_true_iff, N.eqb_eq, IH. split; [intros [-> ->]; reflexivity|].
  intros E. inversion E. tauto.
Qed.

Lemma insert_sorted_keys {V} k (v : V) m l x :
  In x (map fst (insert_sorted k v m l)) <-> x = k \/ In x (map fst l).
Proof.
  induction l as [|[k' v'] r IH]; simpl; [intuition|].
  destruct (bytes_ltb k k'); [simpl; intuition|].
  destruct (bytes_eqb k k') eqn:E; simpl.
  - apply bytes_eqb_eq in E. subst k'. intuition.
  - rewrite IH. intuition.
Qed.

Lemma insert_sorted_len_new {V} k (v : V) m l :
  ~ In k (map fst l) -> length (insert_sorted k v m l) = S (length l).
Proof.
  induction l as [|[k' v'] r IH]; simpl; intros H; [reflexivity|].
  destruct (bytes_ltb k k'); [reflexivity|].
  destruct (bytes_eqb k k') eqn:E.
  - apply bytes_eqb_eq in E. subst k'. exfalso. apply H. now left.
  - simpl. f_equal. apply IH. intros C. apply H. now right.
Qed.

Lemma commit_lookup_len es : NoDup (map ce_id es) -> length (commit_lookup es) = length es.
Proof.
  unfold commit_lookup.
  assert (G : forall es st, NoDup (map ce_id es) ->
    (forall e, In e es -> ~ In (ce_id e) (map fst (snd st))) ->
    let r := fold_left (fun st e => (fst st + 1, insert_sorted (ce_id e) (fst st) (fun a _ => a) (snd st))) es st in
    length (snd r) = (length (snd st) + length es)%nat).
  { induction es0 as [|e es0 IH]; intros st ND Hn; simpl; [lia|].
    inversion ND as [|? ? Hne ND']; subst. rewrite IH; [|assumption|].
    - simpl. rewrite insert_sorted_len_new by (apply Hn; now left). lia.
    - intros e' He' C. simpl in C. apply insert_sorted_keys in C. destruct C as [C|C].
      + apply Hne. rewrite <- C. now apply in_map.
      + apply (Hn e'); [now right|assumption]. }
  intros ND. rewrite (G es (0, []) ND); [reflexivity|]. intros e _ [].
Qed.

Lemma change_lookup_keys es k : In k (map fst (change_lookup es)) -> exists e, In e es /\ ce_change e = k.
Proof.
  unfold change_lookup.
  assert (G : forall es st k, In k (map fst (snd (fold_left (fun st e =>
      (fst st + 1, insert_sorted (ce_change e) [fst st] (@app N) (snd st))) es st))) ->
      In k (map fst (snd st)) \/ exists e, In e es /\ ce_change e = k).
  { induction es0 as [|e es0 IH]; intros st k0 H; simpl in H; [now left|].
    destruct (IH _ _ H) as [C|(e' & He' & E)].
    - simpl in C. apply insert_sorted_keys in C. destruct C as [->|C]; [right; exists e; split; [now left|reflexivity]|now left].
    - right. exists e'. split; [now right|assumption]. }
  intros H. destruct (G es (0, []) k H) as [[]|H']. exact H'.
Qed.

Lemma flat_fst_len {V} (l : list (list N * V)) chlen :
  (forall k, In k (map fst l) -> length k = chlen) -> length (flat_map fst l) = (length l * chlen)%nat.
Proof.
  induction l as [|[k v] l IH]; intros H; [reflexivity|]. cbn [flat_map length fst].
  rewrite app_length, IH by (intros k' Hk'; apply H; now right). rewrite (H k) by now left. lia.
Qed.

Lemma enc_change_pos_len : forall l ovf, length (fst (enc_change_pos l ovf)) = (length l * 4)%nat.
Proof.
  induction l as [|[k ps] l IH]; intros ovf; [reflexivity|]. cbn [enc_change_pos].
  destruct ps as [|p [|q ps]].
  - specialize (IH (ovf ++ [])). destruct (enc_change_pos l (ovf ++ [])) as [b o]. cbn [fst] in *.
    rewrite app_length, le32_length, IH. cbn [length]. lia.
  - specialize (IH ovf). destruct (enc_change_pos l ovf) as [b o]. cbn [fst] in *.
    rewrite app_length, le32_length, IH. cbn [length]. lia.
  - specialize (IH (ovf ++ p :: q :: ps)). destruct (enc_change_pos l (ovf ++ p :: q :: ps)) as [b o].
    cbn [fst] in *. rewrite app_length, le32_length, IH. cbn [length]. lia.
Qed.

Lemma index_of_le k : forall l i, index_of k l i <= i + N.of_nat (length l).
Proof.
  induction l as [|k' l IH]; intros i; cbn [index_of length]; [lia|].
  destruct (bytes_eqb k k'); [lia|]. specialize (IH (i + 1)). lia.
Qed.

Theorem entries_roundtrip_tail chg idlen : forall es ovf graph povf tail,
  enc_entries chg es ovf = (graph, povf) ->
  Forall (entry_ok idlen) es -> N.of_nat (length povf) < C18_OVERFLOW_FLAG ->
  (forall e, In e es -> index_of (ce_change e) chg 0 <= U32MAX) ->
  forall i e, nth_error es i = Some e ->
    dec_entry idlen (graph ++ tail) povf i =
      (ce_gen e, ce_parents e, index_of (ce_change e) chg 0, ce_id e).
Proof.
  induction es as [|e0 es IH]; intros ovf graph povf tail H F Ho Hc i e Hi; [now destruct i|].
  cbn [enc_entries] in H.
  destruct (enc_parents (ce_parents e0) (N.of_nat (length ovf))) as [pb extra] eqn:Ep.
  destruct (enc_entries chg es (ovf ++ extra)) as [rest ovf'] eqn:E.
  injection H as <- <-. inversion F as [|? ? (Hid & Hg & Hp & Hl) F']; subst.
  destruct (enc_entries_ovf _ _ _ _ _ E) as (more & Eo).
  assert (Lpb : length pb = 8%nat).
  { pose proof (enc_parents_len (ce_parents e0) (N.of_nat (length ovf))) as L. now rewrite Ep in L. }
  destruct i as [|i].
  - injection Hi as <-.
    change (dec_entry (length (ce_id e0))
              ((le32 (ce_gen e0) ++ pb ++ le32 (index_of (ce_change e0) chg 0) ++ ce_id e0 ++ rest) ++ tail) ovf' 0 =
            (ce_gen e0, ce_parents e0, index_of (ce_change e0) chg 0, ce_id e0)).
    rewrite <- !app_assoc.
    rewrite (dec_entry_head (length (ce_id e0))) by (try reflexivity; assumption).
    rewrite !de32_le32 by (try assumption; apply Hc; now left).
    f_equal. f_equal. f_equal.
    pose proof (dec_enc_parents (ce_parents e0) ovf more Hp) as D. rewrite Ep in D.
    rewrite Eo, <- app_assoc. apply D; [|assumption]. rewrite Eo, !app_length in Ho. lia.
  - cbn [nth_error] in Hi.
    change (dec_entry (length (ce_id e0))
              ((le32 (ce_gen e0) ++ pb ++ le32 (index_of (ce_change e0) chg 0) ++ ce_id e0 ++ rest) ++ tail) ovf' (S i) =
            (ce_gen e, ce_parents e, index_of (ce_change e) chg 0, ce_id e)).
    replace ((le32 (ce_gen e0) ++ pb ++ le32 (index_of (ce_change e0) chg 0) ++ ce_id e0 ++ rest) ++ tail)
      with ((le32 (ce_gen e0) ++ pb ++ le32 (index_of (ce_change e0) chg 0) ++ ce_id e0) ++ (rest ++ tail))
      by (now rewrite <- !app_assoc).
    rewrite dec_entry_tail by (rewrite !app_length, Lpb, !le32_length; lia).
    exact (IH (ovf ++ extra) rest ovf' tail E F' Ho (fun e' He' => Hc e' (or_intror He')) i e Hi).
Qed.

Lemma map_seq_nth_gen (es : list centry) :
  map (fun i => let e := nth i es (mk_centry [] [] 0 []) in (ce_gen e, ce_parents e, ce_id e))
      (seq 0 (length es)) = map (fun e => (ce_gen e, ce_parents e, ce_id e)) es.
Proof.
  induction es as [|x l IH] using rev_ind; [reflexivity|].
  rewrite app_length. cbn [length]. rewrite Nat.add_1_r, seq_S, !map_app. cbn [map Nat.add].
  rewrite app_nth2 by lia. rewrite Nat.sub_diag. cbn [nth]. f_equal.
  rewrite <- IH. apply map_ext_in. intros i Hi. apply in_seq in Hi. now rewrite app_nth1 by lia.
Qed.

(** writing a segment and reading the file back: the parent file name and every commit's
    generation, parents and id come back, under the writer's own bounds *)
Theorem file_roundtrip idlen chlen parent es graph povf cpos covf :
  let hl := change_lookup es in
  enc_entries (map fst hl) es [] = (graph, povf) -> enc_change_pos hl [] = (cpos, covf) ->
  Forall (entry_ok idlen) es -> (forall e, In e es -> length (ce_change e) = chlen) ->
  NoDup (map ce_id es) ->
  N.of_nat (length parent) <= U32MAX -> N.of_nat (length es) <= U32MAX ->
  N.of_nat (length hl) <= U32MAX -> N.of_nat (length povf) < C18_OVERFLOW_FLAG ->
  N.of_nat (length covf) <= U32MAX ->
  decode_file idlen chlen (encode_file parent es) =
  Some (parent, map (fun e => (ce_gen e, ce_parents e, ce_id e)) es).
Proof.
  intros hl Eg Ec F Fc ND Bp Bn Bh Bo Bv. unfold encode_file, encode_local. fold hl. rewrite Eg, Ec.
  pose proof flag_val as FV.
  assert (Lg : length graph = (length es * (C18_GRAPH_ENTRY_FIXED_SIZE + idlen))%nat).
  { apply (enc_entries_len _ idlen _ _ _ _ Eg). eapply Forall_impl; [|exact F]. intros e He. apply He. }
  assert (La : length (flat_map (fun e => le32 (snd e)) (commit_lookup es)) = (length es * 4)%nat).
  { rewrite <- (commit_lookup_len es ND). generalize (commit_lookup es). clear.
    induction l as [|x l IH]; [reflexivity|]. cbn [flat_map length]. rewrite app_length, IH, le32_length. lia. }
  assert (Lb : length (flat_map fst hl) = (length hl * chlen)%nat).
  { apply flat_fst_len. intros k Hk. destruct (change_lookup_keys es k Hk) as (e & He & <-). now apply Fc. }
  assert (Lc : length cpos = (length hl * 4)%nat).
  { pose proof (enc_change_pos_len hl []) as L. now rewrite Ec in L. }
  assert (Bx : forall x, In x povf -> x <= U32MAX).
  { intros x Hx. clear - Eg F Hx FV.
    assert (G : forall es ovf graph povf, enc_entries (map fst hl) es ovf = (graph, povf) ->
              Forall (entry_ok idlen) es -> (forall x, In x ovf -> x < C18_OVERFLOW_FLAG) ->
              forall x, In x povf -> x < C18_OVERFLOW_FLAG).
    { induction es0 as [|e es0 IH]; intros ovf g0 p0 H F0 Ho y Hy; cbn [enc_entries] in H.
      - injection H as _ <-. now apply Ho.
      - destruct (enc_parents (ce_parents e) (N.of_nat (length ovf))) as [pb extra] eqn:Ep.
        destruct (enc_entries (map fst hl) es0 (ovf ++ extra)) as [rest ovf'] eqn:E.
        injection H as _ <-. inversion F0 as [|? ? (_ & _ & Hp & _) F0']; subst.
        apply (IH _ _ _ E F0'); [|assumption]. intros z Hz. apply in_app_or in Hz.
        destruct Hz as [Hz|Hz]; [now apply Ho|]. apply Hp.
        destruct (ce_parents e) as [|p1 [|p2 [|p3 ps]]]; cbn [enc_parents] in Ep;
          injection Ep as _ <-; try contradiction. exact Hz. }
    pose proof (G es [] graph povf Eg F (fun x H => match H with end) x Hx). unfold U32MAX. lia. }
  rewrite (decode_file_struct idlen chlen parent graph _ _ cpos (length es) (length hl) povf covf);
    try assumption; [|unfold U32MAX in *; lia].
  f_equal. f_equal.
  rewrite <- (map_seq_nth_gen es).
  apply map_ext_in. intros i Hi. apply in_seq in Hi.
  destruct (nth_error es i) as [e|] eqn:En; [|apply nth_error_None in En; lia].
  rewrite (entries_roundtrip_tail (map fst hl) idlen es [] graph povf _ Eg F Bo) with (e := e);
    [|intros e' _; pose proof (index_of_le (ce_change e') (map fst hl) 0) as I0;
      rewrite map_length in I0; lia|assumption].
  now rewrite (nth_error_nth es i _ En).
Qed.
