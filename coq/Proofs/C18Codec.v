(** C18 codec proofs: graph entries survive the segment encoding, for any number of parents. *)
From Verif Require Import Base.Prelude Gen.Tables Model.C18Codec.
From Coq Require Import Lia.
Local Open Scope N_scope.

Lemma de32_le32 x : x <= U32MAX -> de32 (le32 x) = x.
Proof.
  intros H. unfold de32, le32, U32MAX in *.
  assert (E1 : x / 65536 = x / 256 / 256) by (rewrite N.div_div by lia; reflexivity).
  assert (E2 : x / 16777216 = x / 256 / 256 / 256) by (rewrite !N.div_div by lia; reflexivity).
  rewrite E1, E2.
  pose proof (N.div_mod' x 256) as D1.
  pose proof (N.div_mod' (x / 256) 256) as D2.
  pose proof (N.div_mod' (x / 256 / 256) 256) as D3.
  assert (L : x / 256 / 256 / 256 < 256).
  { rewrite !N.div_div by lia. apply N.div_lt_upper_bound; lia. }
  rewrite (N.mod_small (x / 256 / 256 / 256) 256 L). lia.
Qed.

Lemma le32_length x : length (le32 x) = 4%nat.
Proof. reflexivity. Qed.

Lemma de32_app x rest : de32 (le32 x ++ rest) = de32 (le32 x).
Proof. reflexivity. Qed.

Lemma skipn4_le32 x rest : skipn 4 (le32 x ++ rest) = rest.
Proof. reflexivity. Qed.

Lemma not32_invol x : x <= U32MAX -> not32 (not32 x) = x.
Proof. unfold not32. lia. Qed.

Lemma flag_val : C18_OVERFLOW_FLAG = 2147483648.
Proof. reflexivity. Qed.

Lemma as_inlined_small x : x < C18_OVERFLOW_FLAG -> as_inlined x = Some x.
Proof. intros H. unfold as_inlined. apply N.ltb_lt in H. now rewrite H. Qed.

Lemma as_inlined_big x : C18_OVERFLOW_FLAG <= x -> as_inlined x = None.
Proof. intros H. unfold as_inlined. apply N.ltb_ge in H. now rewrite H. Qed.

(** the two parent fields decode back to the parent list, whatever follows in the overflow
    table *)
Lemma dec_enc_parents ps ovf more :
  (forall p, In p ps -> p < C18_OVERFLOW_FLAG) ->
  N.of_nat (length ovf) < C18_OVERFLOW_FLAG -> N.of_nat (length ps) < C18_OVERFLOW_FLAG ->
  let '(pb, extra) := enc_parents ps (N.of_nat (length ovf)) in
  dec_parents (de32 pb) (de32 (skipn 4 pb)) (ovf ++ extra ++ more) = ps.
Proof.
  intros Hp Ho Hl. pose proof flag_val as FV.
  destruct ps as [|p1 [|p2 [|p3 ps]]]; cbn [enc_parents]; rewrite de32_app, skipn4_le32.
  - rewrite de32_le32 by (unfold U32MAX; lia). unfold dec_parents.
    rewrite as_inlined_big by (unfold U32MAX; lia). unfold not32. rewrite N.sub_diag. reflexivity.
  - assert (L1 : p1 < C18_OVERFLOW_FLAG) by (apply Hp; now left).
    rewrite !de32_le32 by (unfold U32MAX; lia). unfold dec_parents.
    rewrite as_inlined_small by assumption. now rewrite as_inlined_big by (unfold U32MAX; lia).
  - assert (L1 : p1 < C18_OVERFLOW_FLAG) by (apply Hp; now left).
    assert (L2 : p2 < C18_OVERFLOW_FLAG) by (apply Hp; right; now left).
    rewrite !de32_le32 by (unfold U32MAX; lia). unfold dec_parents.
    now rewrite !as_inlined_small by assumption.
  - set (ps' := p1 :: p2 :: p3 :: ps) in *.
    rewrite !de32_le32 by (unfold not32, U32MAX; lia). unfold dec_parents.
    rewrite as_inlined_big by (unfold not32, U32MAX; lia).
    rewrite !not32_invol by (unfold U32MAX; lia). rewrite !Nat2N.id.
    rewrite skipn_app, skipn_all, Nat.sub_diag. cbn [skipn app].
    rewrite firstn_app, firstn_all, Nat.sub_diag. cbn [firstn]. now rewrite app_nil_r.
Qed.

Definition entry_ok (idlen : nat) (e : centry) : Prop :=
  length (ce_id e) = idlen /\ ce_gen e <= U32MAX /\
  (forall p, In p (ce_parents e) -> p < C18_OVERFLOW_FLAG) /\
  N.of_nat (length (ce_parents e)) < C18_OVERFLOW_FLAG.

Lemma entry_size : C18_GRAPH_ENTRY_FIXED_SIZE = 16%nat.
Proof. reflexivity. Qed.

Lemma enc_parents_len ps n : length (fst (enc_parents ps n)) = 8%nat.
Proof. destruct ps as [|p1 [|p2 [|p3 ps]]]; reflexivity. Qed.

Lemma enc_entries_ovf chg : forall es ovf graph povf,
  enc_entries chg es ovf = (graph, povf) -> exists more, povf = ovf ++ more.
Proof.
  induction es as [|e es IH]; intros ovf graph povf H; simpl in H.
  - injection H as _ <-. exists []. now rewrite app_nil_r.
  - destruct (enc_parents (ce_parents e) (N.of_nat (length ovf))) as [pb extra].
    destruct (enc_entries chg es (ovf ++ extra)) as [rest ovf'] eqn:E.
    injection H as _ <-. destruct (IH _ _ _ E) as (more & ->). exists (extra ++ more).
    now rewrite app_assoc.
Qed.

Lemma skipn_add {A} (a b : nat) (l : list A) : skipn (a + b) l = skipn b (skipn a l).
Proof.
  revert l. induction a as [|a IH]; intros l; [reflexivity|]. destruct l; simpl; [now destruct b|apply IH].
Qed.

Lemma de32_4 (l r : list N) : length l = 4%nat -> de32 (l ++ r) = de32 l.
Proof. destruct l as [|a [|b [|c [|d [|e l]]]]]; try discriminate. reflexivity. Qed.

Lemma dec_entry_head idlen (g4 pb c4 idb rest povf : list N) :
  length g4 = 4%nat -> length pb = 8%nat -> length c4 = 4%nat -> length idb = idlen ->
  dec_entry idlen (g4 ++ pb ++ c4 ++ idb ++ rest) povf 0 =
  (de32 g4, dec_parents (de32 pb) (de32 (skipn 4 pb)) povf, de32 c4, idb).
Proof.
  intros H1 H2 H3 H4. unfold dec_entry, rd32. rewrite entry_size. cbn [Nat.mul Nat.add].
  destruct g4 as [|g0 [|g1 [|g2 [|g3 [|? ?]]]]]; try discriminate.
  destruct pb as [|a0 [|a1 [|a2 [|a3 [|b0 [|b1 [|b2 [|b3 [|? ?]]]]]]]]]; try discriminate.
  destruct c4 as [|c0 [|c1 [|c2 [|c3 [|? ?]]]]]; try discriminate.
  cbn [app skipn de32]. rewrite firstn_app, H4, firstn_all2, Nat.sub_diag by lia.
  cbn [firstn]. now rewrite app_nil_r.
Qed.

Lemma dec_entry_tail idlen (eb rest povf : list N) i :
  length eb = (16 + idlen)%nat ->
  dec_entry idlen (eb ++ rest) povf (S i) = dec_entry idlen rest povf i.
Proof.
  intros H. unfold dec_entry, rd32. rewrite entry_size.
  assert (Sk : forall k, skipn (S i * (16 + idlen) + k) (eb ++ rest) = skipn (i * (16 + idlen) + k) rest).
  { intros k. replace (S i * (16 + idlen) + k)%nat with ((16 + idlen) + (i * (16 + idlen) + k))%nat by lia.
    rewrite skipn_add, skipn_app, H, Nat.sub_diag. rewrite (skipn_all2 eb) by lia. reflexivity. }
  pose proof (Sk 0%nat) as S0. rewrite !Nat.add_0_r in S0. now rewrite S0, !Sk.
Qed.

(** every graph entry reads back: generation, parents (inline or through the overflow
    table), change id slot and commit id *)
Theorem entries_roundtrip chg idlen : forall es ovf graph povf,
  enc_entries chg es ovf = (graph, povf) ->
  Forall (entry_ok idlen) es -> N.of_nat (length povf) < C18_OVERFLOW_FLAG ->
  (forall e, In e es -> index_of (ce_change e) chg 0 <= U32MAX) ->
  forall i e, nth_error es i = Some e ->
    dec_entry idlen graph povf i =
      (ce_gen e, ce_parents e, index_of (ce_change e) chg 0, ce_id e).
Proof.
  induction es as [|e0 es IH]; intros ovf graph povf H F Ho Hc i e Hi; [now destruct i|].
  cbn [enc_entries] in H.
  destruct (enc_parents (ce_parents e0) (N.of_nat (length ovf))) as [pb extra] eqn:Ep.
  destruct (enc_entries chg es (ovf ++ extra)) as [rest ovf'] eqn:E.
  injection H as <- <-. inversion F as [|? ? (Hid & Hg & Hp & Hl) F']; subst.
  destruct (enc_entries_ovf _ _ _ _ _ E) as (more & Eo).
  assert (Lpb : length pb = 8%nat).
  { pose proof (enc_parents_len (ce_parents e0) (N.of_nat (length ovf))) as L. now rewrite Ep in L. }
  destruct i as [|i].
  - injection Hi as <-.
    change (dec_entry (length (ce_id e0))
              (le32 (ce_gen e0) ++ pb ++ le32 (index_of (ce_change e0) chg 0) ++ ce_id e0 ++ rest) ovf' 0 =
            (ce_gen e0, ce_parents e0, index_of (ce_change e0) chg 0, ce_id e0)).
    rewrite (dec_entry_head (length (ce_id e0))) by (try reflexivity; assumption).
    rewrite !de32_le32 by (try assumption; apply Hc; now left).
    f_equal. f_equal. f_equal.
    pose proof (dec_enc_parents (ce_parents e0) ovf more Hp) as D. rewrite Ep in D.
    rewrite Eo, <- app_assoc. apply D; [|assumption]. rewrite Eo, !app_length in Ho. lia.
  - cbn [nth_error] in Hi.
    change (dec_entry (length (ce_id e0))
              (le32 (ce_gen e0) ++ pb ++ le32 (index_of (ce_change e0) chg 0) ++ ce_id e0 ++ rest) ovf' (S i) =
            (ce_gen e, ce_parents e, index_of (ce_change e) chg 0, ce_id e)).
    replace (le32 (ce_gen e0) ++ pb ++ le32 (index_of (ce_change e0) chg 0) ++ ce_id e0 ++ rest)
      with ((le32 (ce_gen e0) ++ pb ++ le32 (index_of (ce_change e0) chg 0) ++ ce_id e0) ++ rest)
      by (now rewrite <- !app_assoc).
    rewrite dec_entry_tail by (rewrite !app_length, Lpb, !le32_length; lia).
    exact (IH (ovf ++ extra) rest ovf' E F' Ho (fun e' He' => Hc e' (or_intror He')) i e Hi).
Qed.
