(** C05, part 1: line splitting ([lines]), line-complete byte strings, marker lines. *)
From Coq Require Import Lia.
From Verif Require Import Base.Prelude Gen.Tables Model.Conflicts.
Local Open Scope N_scope.

(* ------------------------------------------------------------------ last byte *)

Lemma last_opt_app_single a x : last_opt (a ++ [x]) = Some x.
Proof.
  induction a as [|y a IH]; [reflexivity|].
  cbn [app last_opt]. destruct (a ++ [x]) eqn:E.
  - destruct a; discriminate.
  - exact IH.
Qed.

Lemma last_opt_app a b : b <> [] -> last_opt (a ++ b) = last_opt b.
Proof.
  intros Hb. induction a as [|y a IH]; [reflexivity|].
  cbn [app last_opt]. destruct (a ++ b) eqn:E.
  - destruct a, b; try discriminate. congruence.
  - exact IH.
Qed.

Lemma last_opt_cons x a : a <> [] -> last_opt (x :: a) = last_opt a.
Proof. destruct a; [congruence|reflexivity]. Qed.

Lemma last_opt_snoc_inv (a : bytes) : a <> [] -> exists a' x, a = a' ++ [x].
Proof.
  intros H. destruct (exists_last H) as [a' [x E]]. eauto.
Qed.

(** Line-complete: empty or LF-terminated. *)
Definition lc (a : bytes) : Prop := ends_ok a = true.

Lemma lc_nil : lc []. Proof. reflexivity. Qed.
Lemma lc_snoc a : lc (a ++ [LF]).
Proof. unfold lc, ends_ok. rewrite last_opt_app_single. reflexivity. Qed.
Lemma lc_app a b : lc b -> b <> [] -> lc (a ++ b).
Proof. unfold lc, ends_ok. intros H Hb. rewrite last_opt_app by exact Hb. exact H. Qed.
Lemma lc_app2 a b : lc a -> lc b -> lc (a ++ b).
Proof.
  intros Ha Hb. destruct b as [|x b]; [rewrite app_nil_r; exact Ha|].
  apply lc_app; [exact Hb|discriminate].
Qed.
Lemma lc_cons x a : a <> [] -> (lc (x :: a) <-> lc a).
Proof. intros H. unfold lc, ends_ok. rewrite last_opt_cons by exact H. tauto. Qed.
Lemma lc_single x : lc [x] -> x = LF.
Proof. unfold lc, ends_ok. cbn. intros H. apply N.eqb_eq in H. exact H. Qed.

Lemma lc_inv a : lc a -> a = [] \/ exists a', a = a' ++ [LF].
Proof.
  intros H. destruct a as [|x a]; [left; reflexivity|right].
  destruct (last_opt_snoc_inv (x :: a)) as [a' [y E]]; [discriminate|].
  rewrite E in H. unfold lc, ends_ok in H. rewrite last_opt_app_single in H.
  apply N.eqb_eq in H. subst y. eauto.
Qed.

Lemma lc_concat ls : Forall lc ls -> lc (concat ls).
Proof.
  induction 1; [exact lc_nil|]. cbn [concat]. apply lc_app2; assumption.
Qed.

(* ------------------------------------------------------------------ lines *)

Lemma lines_nonempty a : a <> [] -> lines a <> [].
Proof.
  destruct a as [|x a]; [congruence|]. intros _. cbn [lines].
  destruct (x =? LF); [discriminate|]. destruct (lines a); discriminate.
Qed.

Lemma concat_lines a : concat (lines a) = a.
Proof.
  induction a as [|x a IH]; [reflexivity|]. cbn [lines].
  destruct (x =? LF).
  - cbn [concat app]. rewrite IH. reflexivity.
  - destruct (lines a) as [|y r] eqn:E.
    + cbn in IH. subst a. reflexivity.
    + cbn [concat] in *. cbn [app]. rewrite IH. reflexivity.
Qed.

Lemma lines_app a b : lc a -> lines (a ++ b) = lines a ++ lines b.
Proof.
  induction a as [|x a IH]; intros Hlc; [reflexivity|].
  cbn [app lines]. destruct (x =? LF) eqn:Ex.
  - destruct a as [|y a'].
    + reflexivity.
    + rewrite IH; [reflexivity|]. apply (lc_cons x); [discriminate|exact Hlc].
  - destruct a as [|y a'].
    + apply lc_single in Hlc. subst x. discriminate.
    + assert (Ha : lc (y :: a')) by (apply (lc_cons x); [discriminate|exact Hlc]).
      rewrite IH by exact Ha.
      pose proof (lines_nonempty (y :: a')) as Hne.
      destruct (lines (y :: a')) as [|l r]; [exfalso; apply Hne; [discriminate|reflexivity]|].
      reflexivity.
Qed.

(** A terminated line: no LF except the last byte. *)
Definition is_line (l : bytes) : Prop := exists x, l = x ++ [LF] /\ ~ In LF x.

Lemma lines_no_lf x : ~ In LF x -> x <> [] -> lines x = [x].
Proof.
  induction x as [|b x IH]; [congruence|]. intros Hin _. cbn [lines].
  destruct (b =? LF) eqn:E; [apply N.eqb_eq in E; exfalso; apply Hin; left; auto|].
  destruct x as [|c x']; [reflexivity|].
  rewrite IH; [reflexivity| |discriminate]. intros H. apply Hin. right. exact H.
Qed.

Lemma lines_single x : ~ In LF x -> lines (x ++ [LF]) = [x ++ [LF]].
Proof.
  induction x as [|b x IH]; intros Hin; [reflexivity|].
  cbn [app lines]. destruct (b =? LF) eqn:E.
  - apply N.eqb_eq in E. exfalso. apply Hin. left. auto.
  - rewrite IH; [reflexivity|]. intros H. apply Hin. right. exact H.
Qed.

Lemma lines_is_line l : is_line l -> lines l = [l].
Proof. intros [x [-> H]]. apply lines_single. exact H. Qed.

Lemma is_line_lc l : is_line l -> lc l.
Proof. intros [x [-> _]]. apply lc_snoc. Qed.

Lemma is_line_nonempty l : is_line l -> l <> [].
Proof. intros [x [-> _]]. destruct x; discriminate. Qed.

Lemma lines_concat ls : Forall is_line ls -> lines (concat ls) = ls.
Proof.
  induction 1 as [|l ls Hl _ IH]; [reflexivity|].
  cbn [concat]. rewrite lines_app by (apply is_line_lc; exact Hl).
  rewrite (lines_is_line l Hl), IH. reflexivity.
Qed.

(** Every byte string is a line-complete part followed by an LF-free rest. *)
Lemma split_last_line a : exists a1 l, a = a1 ++ l /\ lc a1 /\ ~ In LF l.
Proof.
  induction a as [|x a IH]; [exists [], []; repeat split; auto|].
  destruct IH as [a1 [l [E [H1 H2]]]].
  destruct a1 as [|y a1'].
  - cbn in E. subst a. destruct (N.eq_dec x LF) as [->|Hx].
    + exists [LF], l. repeat split; auto.
    + exists [], (x :: l). repeat split; auto. intros [H|H]; [congruence|auto].
  - exists (x :: y :: a1'), l. subst a. repeat split; auto.
Qed.

Lemma lines_all_lines a : lc a -> Forall is_line (lines a).
Proof.
  induction a as [|x a IH]; intros Hlc; [constructor|].
  cbn [lines]. destruct (x =? LF) eqn:E.
  - apply N.eqb_eq in E. subst x. constructor.
    + exists []. split; [reflexivity|]. intros [].
    + destruct a as [|y a']; [constructor|]. apply IH.
      apply (lc_cons LF); [discriminate|exact Hlc].
  - destruct a as [|y a'].
    + apply lc_single in Hlc. subst x. discriminate.
    + assert (Ha : lc (y :: a')) by (apply (lc_cons x); [discriminate|exact Hlc]).
      specialize (IH Ha).
      pose proof (lines_nonempty (y :: a')) as Hne.
      destruct (lines (y :: a')) as [|l r]; [exfalso; apply Hne; [discriminate|reflexivity]|].
      inversion IH as [|? ? Hl Hr]; subst. constructor; [|exact Hr].
      destruct Hl as [z [-> Hz]]. exists (x :: z). split; [reflexivity|].
      intros [H|H]; [|auto]. subst x. discriminate.
Qed.

Lemma lines_elem_nonempty a : Forall (fun l => l <> []) (lines a).
Proof.
  induction a as [|x a IH]; [constructor|]. cbn [lines].
  destruct (x =? LF); [constructor; [discriminate|exact IH]|].
  destruct (lines a) as [|l r]; [repeat constructor; discriminate|].
  inversion IH; subst. constructor; [discriminate|assumption].
Qed.

Lemma fold_lines_app {S} (f : S -> bytes -> S) a b s :
  lc a -> fold_left f (lines (a ++ b)) s = fold_left f (lines b) (fold_left f (lines a) s).
Proof. intros H. rewrite lines_app by exact H. apply fold_left_app. Qed.

(* ------------------------------------------------------------------ marker bytes *)

Lemma parse_byte_kind k : parse_byte (kind_byte k) = Some k.
Proof. destruct k; vm_compute; reflexivity. Qed.

Lemma kind_byte_not_ws k : is_ws (kind_byte k) = false.
Proof. destruct k; vm_compute; reflexivity. Qed.

Lemma kind_byte_not_lf k : kind_byte k <> LF.
Proof. destruct k; vm_compute; discriminate. Qed.

Lemma kind_byte_not_cr k : kind_byte k <> CR.
Proof. destruct k; vm_compute; discriminate. Qed.

Lemma parse_byte_sound b k : parse_byte b = Some k -> b = kind_byte k.
Proof.
  unfold parse_byte. intros H. apply find_some in H. destruct H as [_ H].
  apply N.eqb_eq in H. auto.
Qed.

Lemma parse_byte_sp : parse_byte SP = None. Proof. vm_compute. reflexivity. Qed.
Lemma parse_byte_lf : parse_byte LF = None. Proof. vm_compute. reflexivity. Qed.
Lemma parse_byte_cr : parse_byte CR = None. Proof. vm_compute. reflexivity. Qed.

Lemma is_ws_lf : is_ws LF = true. Proof. reflexivity. Qed.
Lemma is_ws_cr : is_ws CR = true. Proof. reflexivity. Qed.
Lemma is_ws_sp : is_ws SP = true. Proof. reflexivity. Qed.

Lemma after_run_repeat c n rest :
  (match rest with [] => True | b :: _ => b <> c end) ->
  after_run c (repeat c n ++ rest) = rest /\ run_len c (repeat c n ++ rest) = (n + run_len c rest)%nat.
Proof.
  intros H. induction n as [|n IH]; cbn [repeat app].
  - split; [|reflexivity]. destruct rest as [|b r]; [reflexivity|].
    cbn [after_run]. destruct (b =? c) eqn:E; [apply N.eqb_eq in E; congruence|reflexivity].
  - cbn [after_run run_len]. rewrite N.eqb_refl. destruct IH as [-> ->]. split; reflexivity.
Qed.

Lemma run_len_head_neq c rest :
  (match rest with [] => True | b :: _ => b <> c end) -> run_len c rest = O.
Proof.
  destruct rest as [|b r]; [reflexivity|]. intros H. cbn [run_len].
  destruct (b =? c) eqn:E; [apply N.eqb_eq in E; congruence|reflexivity].
Qed.

(** A marker of kind [k] and length [n >= 1] followed by nothing or by whitespace. *)
Lemma marker_any_len_marker k n rest :
  (1 <= n)%nat ->
  (match rest with [] => True | b :: _ => is_ws b = true end) ->
  marker_any_len (repeat (kind_byte k) n ++ rest) = Some (k, n).
Proof.
  intros Hn Hrest.
  assert (Hneq : match rest with [] => True | b :: _ => b <> kind_byte k end).
  { destruct rest as [|b r]; [exact I|]. intros ->. rewrite kind_byte_not_ws in Hrest. discriminate. }
  destruct (after_run_repeat (kind_byte k) n rest Hneq) as [Ha Hr].
  rewrite (run_len_head_neq _ _ Hneq), Nat.add_0_r in Hr.
  unfold marker_any_len. destruct n as [|n]; [lia|].
  cbn [repeat app]. change (kind_byte k :: repeat (kind_byte k) n ++ rest)
    with (repeat (kind_byte k) (S n) ++ rest).
  rewrite parse_byte_kind, Ha, Hr.
  destruct rest as [|b r]; [reflexivity|]. rewrite Hrest. reflexivity.
Qed.

Definition valid_eol (eol : bytes) : Prop := eol = [LF] \/ eol = [CR; LF].

Lemma write_marker_rest_ws sfx tail :
  (match tail with [] => True | b :: _ => is_ws b = true end) ->
  match (match sfx with [] => [] | _ => SP :: sfx end) ++ tail with
  | [] => True | b :: _ => is_ws b = true end.
Proof. destruct sfx; cbn; auto. Qed.

(** A printed marker line (with or without the EOL) parses as its kind at its length. *)
Lemma parse_marker_written k n sfx tail :
  (1 <= n)%nat ->
  (match tail with [] => True | b :: _ => is_ws b = true end) ->
  parse_marker (write_marker k n sfx ++ tail) n = Some k.
Proof.
  intros Hn Ht. unfold parse_marker, write_marker. rewrite <- app_assoc.
  rewrite marker_any_len_marker; [|exact Hn|apply write_marker_rest_ws; exact Ht].
  rewrite Nat.leb_refl. reflexivity.
Qed.

Lemma valid_eol_head_ws eol : valid_eol eol ->
  match eol with [] => True | b :: _ => is_ws b = true end.
Proof. intros [->| ->]; reflexivity. Qed.

Lemma parse_marker_line k n sfx eol :
  (1 <= n)%nat -> valid_eol eol ->
  parse_marker (write_marker k n sfx ++ eol) n = Some k.
Proof. intros Hn He. apply parse_marker_written; [exact Hn|apply valid_eol_head_ws; exact He]. Qed.

Lemma parse_marker_bare k n sfx :
  (1 <= n)%nat -> parse_marker (write_marker k n sfx) n = Some k.
Proof.
  intros Hn. rewrite <- (app_nil_r (write_marker k n sfx)).
  apply parse_marker_written; [exact Hn|exact I].
Qed.

Lemma in_repeat_inv {A} (x y : A) n : In x (repeat y n) -> x = y.
Proof. induction n; cbn; [tauto|]. intros [H|H]; auto. Qed.

Lemma write_marker_no_lf k n sfx : ~ In LF sfx -> ~ In LF (write_marker k n sfx).
Proof.
  intros Hs H. unfold write_marker in H. apply in_app_or in H. destruct H as [H|H].
  - apply in_repeat_inv in H. symmetry in H. exact (kind_byte_not_lf k H).
  - destruct sfx as [|b s]; [exact H|]. destruct H as [H|H]; [discriminate|auto].
Qed.

Lemma valid_eol_split eol : valid_eol eol -> exists e, eol = e ++ [LF] /\ ~ In LF e.
Proof.
  intros [->| ->]; [exists []|exists [CR]]; split; try reflexivity.
  - intros [].
  - intros [H|[]]. discriminate.
Qed.

Lemma marker_line_is_line k n sfx eol :
  ~ In LF sfx -> valid_eol eol -> is_line (write_marker k n sfx ++ eol).
Proof.
  intros Hs He. destruct (valid_eol_split eol He) as [e [-> Hne]].
  exists (write_marker k n sfx ++ e). split; [rewrite app_assoc; reflexivity|].
  intros H. apply in_app_or in H. destruct H as [H|H]; [|auto].
  exact (write_marker_no_lf k n sfx Hs H).
Qed.

Lemma valid_eol_is_line eol : valid_eol eol -> is_line eol.
Proof.
  intros He. destruct (valid_eol_split eol He) as [e [-> Hne]]. exists e. auto.
Qed.

Lemma valid_eol_lc eol : valid_eol eol -> lc eol.
Proof. intros H. apply is_line_lc, valid_eol_is_line, H. Qed.

Lemma valid_eol_nonempty eol : valid_eol eol -> eol <> [].
Proof. intros [->| ->]; discriminate. Qed.

(* ------------------------------------------------------------------ dominated lines *)

(** [l] is not a marker of length [>= L - 1]. *)
Definition dom (L : nat) (l : bytes) : Prop :=
  forall k n, marker_any_len l = Some (k, n) -> (S n < L)%nat.
Definition dom_all (L : nat) (c : bytes) : Prop := Forall (dom L) (lines c).

Lemma dom_parse_none L l : dom L l -> parse_marker l L = None.
Proof.
  intros H. unfold parse_marker. destruct (marker_any_len l) as [[k n]|] eqn:E; [|reflexivity].
  specialize (H k n E). destruct (Nat.leb L n) eqn:El; [|reflexivity].
  apply Nat.leb_le in El. lia.
Qed.

(** One arbitrary byte in front of a dominated line still gives no marker of length [L]. *)
Lemma dom_prefixed L p l : (2 <= L)%nat -> dom L l -> parse_marker (p :: l) L = None.
Proof.
  intros HL Hd. unfold parse_marker, marker_any_len.
  destruct (parse_byte p) as [k|] eqn:Ep; [|reflexivity].
  cbn [after_run run_len]. rewrite N.eqb_refl.
  destruct l as [|c l'].
  - cbn. destruct (Nat.leb L 1) eqn:E; [apply Nat.leb_le in E; lia|reflexivity].
  - cbn [after_run run_len]. destruct (c =? p) eqn:Ec.
    + apply N.eqb_eq in Ec. subst c.
      assert (Hm : marker_any_len (p :: l') =
                   match after_run p l' with
                   | [] => Some (k, S (run_len p l'))
                   | nb :: _ => if is_ws nb then Some (k, S (run_len p l')) else None
                   end).
      { unfold marker_any_len. rewrite Ep. cbn [after_run run_len]. rewrite N.eqb_refl.
        reflexivity. }
      destruct (after_run p l') as [|nb r].
      * specialize (Hd k _ Hm). destruct (Nat.leb L (S (S (run_len p l')))) eqn:E;
          [apply Nat.leb_le in E; lia|reflexivity].
      * destruct (is_ws nb); [|reflexivity].
        specialize (Hd k _ Hm). destruct (Nat.leb L (S (S (run_len p l')))) eqn:E;
          [apply Nat.leb_le in E; lia|reflexivity].
    + destruct (is_ws c); [|reflexivity].
      destruct (Nat.leb L 1) eqn:E; [apply Nat.leb_le in E; lia|reflexivity].
Qed.

Lemma dom_eol L eol : valid_eol eol -> dom L eol.
Proof.
  intros [->| ->] k n H; unfold marker_any_len in H.
  - rewrite parse_byte_lf in H. discriminate.
  - rewrite parse_byte_cr in H. discriminate.
Qed.

(** Appending an EOL to an unterminated non-empty line does not change its marker reading. *)
Lemma after_run_app_eol c l e :
  (match e with [] => True | b :: _ => b <> c end) ->
  after_run c (l ++ e) = after_run c l ++ e /\ run_len c (l ++ e) = run_len c l.
Proof.
  intros He. induction l as [|b l IH]; cbn [app].
  - destruct e as [|x e']; [split; reflexivity|]. cbn [after_run run_len].
    destruct (x =? c) eqn:E; [apply N.eqb_eq in E; congruence|split; reflexivity].
  - cbn [after_run run_len]. destruct (b =? c); [|split; reflexivity].
    destruct IH as [-> ->]. split; reflexivity.
Qed.

Lemma marker_any_len_app_eol l eol :
  valid_eol eol -> l <> [] -> marker_any_len (l ++ eol) = marker_any_len l.
Proof.
  intros He Hl. destruct l as [|c l']; [congruence|].
  unfold marker_any_len. cbn [app]. destruct (parse_byte c) as [k|] eqn:Ep; [|reflexivity].
  assert (Hne : match eol with [] => True | b :: _ => b <> c end).
  { apply parse_byte_sound in Ep. subst c.
    destruct He as [->| ->]; intros H; symmetry in H;
      [exact (kind_byte_not_lf k H)|exact (kind_byte_not_cr k H)]. }
  change (c :: l' ++ eol) with ((c :: l') ++ eol).
  destruct (after_run_app_eol c (c :: l') eol Hne) as [-> ->].
  destruct (after_run c (c :: l')) as [|nb r].
  - cbn [app]. destruct He as [->| ->]; reflexivity.
  - reflexivity.
Qed.

Lemma dom_all_app L a b : lc a -> dom_all L a -> dom_all L b -> dom_all L (a ++ b).
Proof.
  intros Hlc Ha Hb. unfold dom_all. rewrite lines_app by exact Hlc.
  apply Forall_app. split; assumption.
Qed.

Lemma dom_all_app_inv L a b : lc a -> dom_all L (a ++ b) -> dom_all L a /\ dom_all L b.
Proof.
  intros Hlc H. unfold dom_all in *. rewrite lines_app in H by exact Hlc.
  apply Forall_app in H. exact H.
Qed.

Lemma dom_all_push_eol L c eol : valid_eol eol -> dom_all L c -> dom_all L (c ++ eol).
Proof.
  intros He Hc. destruct (split_last_line c) as [a1 [l [-> [H1 H2]]]].
  apply dom_all_app_inv in Hc; [|exact H1]. destruct Hc as [Ha Hl].
  rewrite <- app_assoc. apply dom_all_app; [exact H1|exact Ha|].
  destruct l as [|b l'].
  - cbn [app]. unfold dom_all. rewrite (lines_is_line eol (valid_eol_is_line eol He)).
    constructor; [apply dom_eol; exact He|constructor].
  - unfold dom_all in *. rewrite lines_no_lf in Hl by (auto; discriminate).
    inversion Hl as [|? ? Hd _]; subst.
    destruct (valid_eol_split eol He) as [e [Ee Hne]].
    assert (Hline : is_line ((b :: l') ++ eol)).
    { exists ((b :: l') ++ e). split; [rewrite Ee, app_assoc; reflexivity|].
      intros H. apply in_app_or in H. destruct H; auto. }
    rewrite (lines_is_line _ Hline). constructor; [|constructor].
    intros k n H. rewrite marker_any_len_app_eol in H by (auto; discriminate).
    exact (Hd k n H).
Qed.

Lemma dom_all_nil L : dom_all L []. Proof. constructor. Qed.

(** Digits. *)
Lemma dec_aux_digits fuel : forall n acc,
  Forall (fun b => 48 <= b <= 57) acc -> Forall (fun b => 48 <= b <= 57) (dec_aux fuel n acc).
Proof.
  induction fuel as [|f IH]; intros n acc Hacc; cbn [dec_aux]; [exact Hacc|].
  assert (Hd : 48 <= 48 + n mod 10 <= 57).
  { assert (Hm : n mod 10 < 10) by (apply N.mod_upper_bound; discriminate).
    generalize dependent (n mod 10). intros m Hm. lia. }
  destruct (n <? 10); [constructor; assumption|]. apply IH. constructor; assumption.
Qed.

Lemma dec_digits n : Forall (fun b => 48 <= b <= 57) (dec n).
Proof. apply dec_aux_digits. constructor. Qed.

Lemma dec_no_lf n : ~ In LF (dec n).
Proof.
  intros H. pose proof (dec_digits n) as Hd. rewrite Forall_forall in Hd.
  specialize (Hd _ H). unfold LF in Hd. lia.
Qed.
