(** C11: termination of the replacement resolution, meaning of the checker's clauses. *)
From Verif Require Import Base.Prelude Base.DagV Model.Merge Model.RepoV Model.C11 Proofs.C10.
From Coq Require Import Lia Arith.

(** * rewritten_ids_with terminates (never runs out of the stated fuel), for every mapping,
    cyclic or not: every key is expanded at most once. *)
Section RwTermination.
  Variable pm : list (nat * rewrite).
  Variable pred : rewrite -> bool.

  Fixpoint weight (l : list (nat * rewrite)) (visited : list nat) : nat :=
    match l with
    | [] => 0
    | (k, r) :: t => (if memn k visited then 0 else length (new_parent_ids r)) + weight t visited
    end.

  Lemma weight_mono l visited id : weight l (id :: visited) <= weight l visited.
  Proof.
    induction l as [|[k r] t IH]; cbn [weight]; [lia|].
    cbn [memn existsb]. fold (memn k visited).
    destruct (k =? id); destruct (memn k visited); cbn [orb]; lia.
  Qed.

  Lemma weight_visit l visited id r :
    aget Nat.eqb id l = Some r -> memn id visited = false ->
    weight l (id :: visited) + length (new_parent_ids r) <= weight l visited.
  Proof.
    induction l as [|[k r'] t IH]; cbn [aget weight]; intros H V; [discriminate|].
    cbn [memn existsb]. fold (memn k visited).
    destruct (id =? k) eqn:E.
    - apply Nat.eqb_eq in E. subst k. injection H as ->. rewrite Nat.eqb_refl, V. cbn [orb].
      pose proof (weight_mono t visited id). lia.
    - specialize (IH H V). rewrite Nat.eqb_sym, E. cbn [orb]. lia.
  Qed.

  Lemma weight_nil l : weight l [] = pm_size l.
  Proof. induction l as [|[k r] t IH]; cbn [weight pm_size fold_right snd memn existsb]; [reflexivity|]. unfold pm_size in IH. lia. Qed.

  Lemma rw_ids_fuel fuel : forall to_visit visited new_ids,
    length to_visit + weight pm visited < fuel ->
    rw_ids fuel pm pred to_visit visited new_ids <> Fuel.
  Proof.
    induction fuel as [|f IH]; intros tv vis ni L; [lia|].
    cbn [rw_ids]. destruct tv as [|id rest].
    - destruct ni; discriminate.
    - cbn [length] in L. destruct (memn id vis) eqn:V.
      + apply IH. lia.
      + unfold pm_filtered. destruct (pm_get pm id) as [r|] eqn:G.
        * destruct (pred r).
          -- destruct (new_parent_ids r) as [|a reps] eqn:R; [discriminate|].
             apply IH. rewrite app_length.
             pose proof (weight_visit pm vis id r G V) as Hw. rewrite R in Hw. lia.
          -- apply IH. pose proof (weight_mono pm vis id). lia.
        * apply IH. pose proof (weight_mono pm vis id). lia.
  Qed.

  Theorem rewritten_ids_with_terminates old_ids : rewritten_ids_with pm pred old_ids <> Fuel.
  Proof.
    unfold rewritten_ids_with. destruct old_ids as [|a t]; [discriminate|].
    apply rw_ids_fuel. rewrite weight_nil. lia.
  Qed.

  (** Every id of the result is one of the given ids or a replacement target, and has no
      (selected) record itself: the resolution is complete. *)
  Lemma rw_ids_result fuel : forall to_visit visited new_ids l,
    rw_ids fuel pm pred to_visit visited new_ids = Ok l ->
    forall x, In x l ->
      In x new_ids \/
      (pm_filtered pm pred x = None /\
       (In x to_visit \/ exists k r, In (k, r) pm /\ In x (new_parent_ids r))).
  Proof.
    induction fuel as [|f IH]; intros tv vis ni l H x Hx; [discriminate|].
    cbn [rw_ids] in H. destruct tv as [|id rest].
    - destruct ni; [discriminate|]. injection H as <-. left. now apply in_rev.
    - destruct (memn id vis).
      + destruct (IH _ _ _ _ H x Hx) as [A|[A [B|B]]]; [now left|right|right]; auto.
        split; [assumption|left; now right].
      + destruct (pm_filtered pm pred id) as [r|] eqn:F.
        * destruct (new_parent_ids r) as [|a reps] eqn:R; [discriminate|].
          destruct (IH _ _ _ _ H x Hx) as [A|[A [B|B]]]; [now left|right|right]; auto.
          split; [assumption|]. apply in_app_or in B. destruct B as [B|B]; [right|left; now right].
          unfold pm_filtered in F. destruct (pm_get pm id) as [r'|] eqn:G; [|discriminate].
          destruct (pred r'); [|discriminate]. injection F as ->.
          exists id, r. split; [now apply (aget_In Nat.eqb Nateqb_spec)|]. now rewrite R.
        * destruct (IH _ _ _ _ H x Hx) as [A|[A [B|B]]].
          -- destruct A as [<-|A]; [|now left]. right. split; [assumption|left; now left].
          -- right. split; [assumption|left; now right].
          -- right. auto.
  Qed.

  Lemma rw_ids_nonempty fuel : forall tv vis ni l, rw_ids fuel pm pred tv vis ni = Ok l -> l <> [].
  Proof.
    induction fuel as [|f IH]; intros tv vis ni l H; [discriminate|].
    cbn [rw_ids] in H. destruct tv as [|id rest].
    - destruct ni as [|n ni]; [discriminate|]. injection H as <-.
      intros E. destruct (rev ni); discriminate.
    - destruct (memn id vis); [eauto|].
      destruct (pm_filtered pm pred id) as [r|]; [|eauto].
      destruct (new_parent_ids r); [discriminate|eauto].
  Qed.

  Theorem rewritten_ids_with_result old_ids l :
    rewritten_ids_with pm pred old_ids = Ok l ->
    l <> [] /\
    forall x, In x l ->
      pm_filtered pm pred x = None /\
      (In x old_ids \/ exists k r, In (k, r) pm /\ In x (new_parent_ids r)).
  Proof.
    unfold rewritten_ids_with. destruct old_ids as [|a t]; [discriminate|]. intros H. split.
    - eapply rw_ids_nonempty; eassumption.
    - intros x Hx. destruct (rw_ids_result _ _ _ _ _ H x Hx) as [[]|A]. exact A.
  Qed.
End RwTermination.

(** * The meaning of the orphan clause *)
Inductive Tainted (g : dag) (keys shield : list nat) : nat -> Prop :=
| T_key k : In k keys -> k < length g -> Tainted g keys shield k
| T_child x p : x < length g -> ~ In x shield -> In p (parents g x) ->
                Tainted g keys shield p -> Tainted g keys shield x.

Lemma taint_marks_spec keys shield rest : forall pre marked,
  wf_dag (pre ++ rest) ->
  (forall x, In x marked <-> x < length pre /\ Tainted (pre ++ rest) keys shield x) ->
  forall x, In x (taint_marks keys shield (length pre) rest marked) <->
            Tainted (pre ++ rest) keys shield x.
Proof.
  induction rest as [|ps t IH]; intros pre marked W HM x; cbn [taint_marks].
  - rewrite HM. rewrite app_nil_r in *. split; [tauto|]. intros HT. split; [|assumption].
    destruct HT; assumption.
  - assert (E : pre ++ ps :: t = (pre ++ [ps]) ++ t) by now rewrite <- app_assoc.
    assert (L : length (pre ++ [ps]) = S (length pre)) by (rewrite app_length; cbn; lia).
    rewrite <- L. rewrite E in *. apply IH; [assumption|].
    assert (P : parents ((pre ++ [ps]) ++ t) (length pre) = ps).
    { unfold parents. rewrite app_nth1 by lia. rewrite app_nth2 by lia. now rewrite Nat.sub_diag. }
    assert (Lg : length pre < length ((pre ++ [ps]) ++ t)) by (rewrite app_length; lia).
    clear x. intros x.
    set (cond := memn (length pre) keys || (negb (memn (length pre) shield) && existsb (fun p => memn p marked) ps)).
    assert (C : cond = true <-> Tainted ((pre ++ [ps]) ++ t) keys shield (length pre)).
    { unfold cond. rewrite orb_true_iff, andb_true_iff, negb_true_iff, memn_In, memn_false, existsb_exists.
      split.
      - intros [K|[S [p [Hp Hm]]]].
        + now apply T_key.
        + apply memn_In in Hm. apply HM in Hm. destruct Hm as [_ Hm].
          eapply T_child; [assumption|assumption|rewrite P; eassumption|assumption].
      - intros HT. inversion HT as [k K _|y p _ S Hp Hpt]; subst; [now left|right].
        split; [assumption|]. rewrite P in Hp. exists p. split; [assumption|].
        apply memn_In. apply HM. split; [|assumption].
        apply (W (length pre) p). now rewrite P. }
    destruct cond eqn:EC.
    + cbn [In]. rewrite HM, L. split.
      * intros [<-|[A B]]; [split; [lia|now apply C]|split; [lia|assumption]].
      * intros [A B]. destruct (Nat.eq_dec x (length pre)) as [->|N]; [now left|right].
        split; [lia|assumption].
    + rewrite HM, L. split.
      * intros [A B]. split; [lia|assumption].
      * intros [A B]. split; [|assumption].
        destruct (Nat.eq_dec x (length pre)) as [->|N]; [|lia].
        apply C in B. discriminate.
Qed.

Theorem tainted_spec g keys shield x : wf_dag g ->
  (In x (tainted g keys shield) <-> Tainted g keys shield x).
Proof.
  intros W. unfold tainted. apply (taint_marks_spec keys shield g [] []); [assumption|].
  intros y. cbn. split; [intros []|intros [L _]; lia].
Qed.

Theorem no_orphans_b_spec s0 o G v : wf_dag (pg G) ->
  (no_orphans_b s0 o G v = true <->
   forall x, covered (pg G) (v_heads v) x ->
     ~ In x (shield s0 o G) ->
     ~ Tainted (pg G) (nd_keys (final_pm G (length (s_g s0)) (s_pm s0) (o_oracle o))) (shield s0 o G) x).
Proof.
  intros W. unfold no_orphans_b. rewrite forallb_forall. split.
  - intros H x Hc Hs Ht. apply covered_ancs in Hc; [|assumption].
    specialize (H x Hc). apply orb_true_iff in H. destruct H as [H|H].
    + apply memn_In in H. contradiction.
    + apply negb_true_iff, memn_false in H. apply H. now apply tainted_spec.
  - intros H x Hx. apply orb_true_iff.
    destruct (memn x (shield s0 o G)) eqn:E; [now left|right].
    apply negb_true_iff, memn_false. intros Ht. apply tainted_spec in Ht; [|assumption].
    apply memn_false in E. apply (H x); [now apply covered_ancs|assumption|assumption].
Qed.
