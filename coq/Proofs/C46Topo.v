(** C46 — specification of the iterative depth-first topological sort
    ([Model.C46.topo_step], core/src/dag_walk.rs:100-137 + the final reverse). *)
From Coq Require Import Lia Relations.
From Verif Require Import Base.Prelude Model.C46 Proofs.C46Scan.

Lemma push_nbrs_fst l : map fst (push_nbrs l) = rev l.
Proof.
  unfold push_nbrs. rewrite map_rev, map_map. cbn. now rewrite map_id.
Qed.

Lemma push_nbrs_In x b l : In (x, b) (push_nbrs l) <-> b = false /\ In x l.
Proof.
  unfold push_nbrs. rewrite <- in_rev, in_map_iff. split.
  - intros (y & E & Hy). inversion E; subst. auto.
  - intros [-> H]. exists x. auto.
Qed.

Lemma push_nbrs_length l : length (push_nbrs l) = length l.
Proof. unfold push_nbrs. now rewrite rev_length, map_length. Qed.

(** Nearest entry below with the "neighbours visited" flag set: the node being expanded. *)
Fixpoint owner (below : list (N * bool)) : option N :=
  match below with
  | [] => None
  | (n, true) :: _ => Some n
  | (_, false) :: r => owner r
  end.

Lemma owner_app_false l x stk :
  (forall e, In e l -> snd e = false) -> owner (l ++ (x, true) :: stk) = Some x.
Proof.
  induction l as [|[n b] l IH]; intros H; cbn; [reflexivity|].
  assert (b = false) as -> by (apply (H (n, b)); now left).
  apply IH. intros e He. apply H. now right.
Qed.

Lemma owner_In stk o : owner stk = Some o -> In (o, true) stk.
Proof.
  induction stk as [|[n [|]] r IH]; cbn; try discriminate.
  - intros H; inversion H; subst. now left.
  - intros H. right. auto.
Qed.

Lemma In_true_owner stk t : In (t, true) stk -> exists o, owner stk = Some o.
Proof.
  induction stk as [|[n [|]] r IH]; cbn; [intros []| |].
  - eauto.
  - intros [H|H]; [discriminate|auto].
Qed.

Section Topo.
  Variable m : pmap.
  Variable start : list N.

  (** Every stack entry is a neighbour of the node being expanded below it, or a start node. *)
  Fixpoint stack_ok (stk : list (N * bool)) : Prop :=
    match stk with
    | [] => True
    | (n, _) :: below =>
        match owner below with
        | Some o => edge m o n
        | None => In n start
        end /\ stack_ok below
    end.

  (** Every expanded node has each neighbour emitted or still above it on the stack. *)
  Fixpoint cov (above : list N) (stk : list (N * bool)) (Em : list N) : Prop :=
    match stk with
    | [] => True
    | (n, b) :: below =>
        (b = true -> forall p, edge m n p -> In p Em \/ In p above) /\ cov (n :: above) below Em
    end.

  Lemma cov_mono stk : forall A Em A' Em',
    (forall p, In p Em \/ In p A -> In p Em' \/ In p A') -> cov A stk Em -> cov A' stk Em'.
  Proof.
    induction stk as [|[n b] below IH]; intros A Em A' Em' Hinc; cbn; [trivial|].
    intros [H1 H2]. split.
    - intros Hb p Hp. apply Hinc. auto.
    - apply (IH (n :: A) Em). 2: assumption.
      intros p [H|[<-|H]].
      + destruct (Hinc p (or_introl H)); cbn; auto.
      + right. now left.
      + destruct (Hinc p (or_intror H)); cbn; auto.
  Qed.

  Lemma cov_false l : forall A stk Em,
    (forall e, In e l -> snd e = false) ->
    cov (rev (map fst l) ++ A) stk Em -> cov A (l ++ stk) Em.
  Proof.
    induction l as [|[n b] l IH]; intros A stk Em Hf; cbn; [trivial|].
    intros H. split.
    - intros Hb. specialize (Hf (n, b) (or_introl eq_refl)). cbn in Hf. congruence.
    - apply IH; [intros e He; apply Hf; now right|].
      rewrite <- app_assoc in H. exact H.
  Qed.

  Definition true_nodes (stk : list (N * bool)) : list N := map fst (filter snd stk).

  Lemma true_nodes_In x stk : In x (true_nodes stk) <-> In (x, true) stk.
  Proof.
    unfold true_nodes. rewrite in_map_iff. split.
    - intros ([y b] & E & H). apply filter_In in H. cbn in *. destruct H as [H ->]. now subst.
    - intros H. exists (x, true). split; [reflexivity|]. apply filter_In. auto.
  Qed.

  Lemma true_nodes_push l stk : true_nodes (push_nbrs l ++ stk) = true_nodes stk.
  Proof.
    unfold true_nodes. rewrite filter_app.
    assert (filter snd (push_nbrs l) = []) as ->; [|reflexivity].
    unfold push_nbrs. induction (rev (map (fun x : N => (x, false)) l)) as [|e r IH] eqn:E.
    - reflexivity.
    - assert (Hall : forall e0, In e0 (e :: r) -> snd e0 = false).
      { intros e0 He0. rewrite <- E in He0. apply in_rev in He0. apply in_map_iff in He0.
        destruct He0 as (y & <- & _). reflexivity. }
      clear E IH. induction (e :: r) as [|e1 r1 IH1]; [reflexivity|]. cbn.
      rewrite (Hall e1 (or_introl eq_refl)). apply IH1. intros e0 H0. apply Hall. now right.
  Qed.

  Lemma true_nodes_push_nil l : true_nodes (push_nbrs l) = [].
  Proof. rewrite <- (app_nil_r (push_nbrs l)). now rewrite true_nodes_push. Qed.

  Definition univ := topo_univ m start.

  Record topo_inv (s : topo_st) : Prop := {
    ti_res : t_result s = t_emitted s;
    ti_nodup : NoDup (t_emitted s);
    ti_order : forall l1 n l2, t_emitted s = l1 ++ n :: l2 ->
               forall p, edge m n p -> In p l2;
    ti_cov : cov [] (t_stack s) (t_emitted s);
    ti_start : forall x, In x start -> In x (t_emitted s) \/ In x (map fst (t_stack s));
    ti_sound : forall x, In x (t_emitted s) \/ In x (map fst (t_stack s)) ->
               reach_from m start x;
    ti_vis : forall x, In x (t_visiting s) <-> In (x, true) (t_stack s);
    ti_true_nodup : NoDup (true_nodes (t_stack s));
    ti_true_fresh : forall x, In (x, true) (t_stack s) -> ~ In x (t_emitted s);
    ti_ok : stack_ok (t_stack s);
    ti_univ : forall x, In x (map fst (t_stack s)) -> In x univ;
  }.

  Lemma topo_inv_init : topo_inv (mk_topo (push_nbrs start) [] [] []).
  Proof.
    constructor; cbn.
    - reflexivity.
    - constructor.
    - intros l1 n l2 H. destruct l1; discriminate.
    - rewrite <- (app_nil_r (push_nbrs start)). apply cov_false; [|exact I].
      intros [x b] H. apply push_nbrs_In in H. now destruct H.
    - intros x Hx. right. rewrite push_nbrs_fst. now apply in_rev in Hx.
    - intros x [[]|H]. rewrite push_nbrs_fst in H. apply in_rev in H.
      exists x. split; [assumption|apply mreach_refl].
    - intros x. split; [intros []|]. intros H. apply push_nbrs_In in H. now destruct H.
    - change (NoDup (true_nodes (push_nbrs start))). rewrite true_nodes_push_nil. constructor.
    - intros x H. apply push_nbrs_In in H. now destruct H.
    - assert (forall l, (forall e, In e l -> snd e = false /\ In (fst e) start) -> stack_ok l) as Hl.
      { induction l as [|[n b] l IH]; intros H; cbn; [trivial|]. split.
        - assert (owner l = None) as ->.
          { clear IH. induction l as [|[n' b'] l IHl]; [reflexivity|]. cbn.
            destruct (H (n', b') (or_intror (or_introl eq_refl))) as [Hb _]. cbn in Hb. subst b'.
            apply IHl. intros e [He|He]; apply H; [now left|right; now right]. }
          apply (H (n, b)). now left.
        - apply IH. intros e He. apply H. now right. }
      apply Hl. intros [x b] H. apply push_nbrs_In in H. cbn. tauto.
    - intros x H. rewrite push_nbrs_fst in H. apply in_rev in H.
      unfold univ, topo_univ. apply in_or_app. now left.
  Qed.

  Lemma stack_ok_push x stk :
    stack_ok ((x, true) :: stk) -> stack_ok (push_nbrs (nbrs m x) ++ (x, true) :: stk).
  Proof.
    intros Hok.
    assert (forall l, (forall e, In e l -> snd e = false /\ edge m x (fst e)) ->
                      stack_ok (l ++ (x, true) :: stk)) as Hl.
    { induction l as [|[n b] l IH]; intros H; [exact Hok|]. cbn. split.
      - rewrite owner_app_false.
        + apply (H (n, b)). now left.
        + intros e He. apply H. now right.
      - apply IH. intros e He. apply H. now right. }
    apply Hl. intros [p b] H. apply push_nbrs_In in H. cbn. unfold edge. tauto.
  Qed.

  Lemma topo_inv_step s s' : topo_inv s -> topo_step m s = Continue s' -> topo_inv s'.
  Proof.
    intros [Hres Hnd Hord Hcov Hst Hsnd Hvis Htn Htf Hok Hun]. unfold topo_step.
    destruct (t_stack s) as [|[node visited] stk] eqn:Es; [discriminate|].
    destruct (memN node (t_emitted s)) eqn:Eem.
    - (* already emitted: skip *)
      apply memN_In in Eem.
      intros H; inversion H; subst s'; clear H. constructor; cbn; auto.
      + cbn in Hcov. destruct Hcov as [_ Hcov]. revert Hcov. apply cov_mono.
        intros p [H|[<-|[]]]; auto.
      + intros x Hx. destruct (Hst x Hx) as [H|[<-|H]]; auto.
      + intros x [H|H]; apply Hsnd; cbn; auto.
      + intros x. rewrite Hvis. cbn. split; [|auto].
        intros [H|H]; [|assumption]. injection H as E1 E2. subst x visited.
        exfalso. apply (Htf node); [now left|assumption].
      + destruct visited; [|exact Htn]. unfold true_nodes in Htn. cbn in Htn.
        now inversion Htn.
      + intros x Hx. apply Htf. now right.
      + cbn in Hok. tauto.
      + intros x Hx. apply Hun. cbn. now right.
    - apply memN_false in Eem. destruct visited; cbn [negb].
      + (* all neighbours done: emit *)
        intros H; inversion H; subst s'; clear H.
        assert (Hnbrs : forall p, edge m node p -> In p (t_emitted s)).
        { cbn in Hcov. destruct Hcov as [Hc _]. intros p Hp.
          destruct (Hc eq_refl p Hp) as [H|[]]. assumption. }
        assert (Hfresh : ~ In (node, true) stk).
        { unfold true_nodes in Htn. cbn in Htn. inversion Htn as [|? ? Hn _]; subst.
          intros H. apply Hn. now apply true_nodes_In. }
        constructor; cbn.
        * now rewrite Hres.
        * now constructor.
        * intros l1 n l2 E p Hp. destruct l1 as [|a l1]; cbn in E; inversion E; subst.
          -- auto.
          -- eapply Hord; eauto.
        * cbn in Hcov. destruct Hcov as [_ Hcov]. revert Hcov. apply cov_mono.
          intros p [H|[<-|[]]]; cbn; auto.
        * intros x Hx. destruct (Hst x Hx) as [H|[<-|H]]; auto.
        * intros x [[<-|H]|H]; apply Hsnd; cbn; auto.
        * intros x. rewrite filter_In, Hvis. cbn. split.
          -- intros [[H|H] Hne]; [|assumption]. inversion H; subst.
             rewrite N.eqb_refl in Hne. discriminate.
          -- intros H. split; [now right|]. destruct (N.eqb x node) eqn:E; [|reflexivity].
             apply N.eqb_eq in E. subst. contradiction.
        * unfold true_nodes in Htn. cbn in Htn. now inversion Htn.
        * intros x Hx [<-|H]; [contradiction|]. apply (Htf x); [now right|assumption].
        * cbn in Hok. tauto.
        * intros x Hx. apply Hun. cbn. now right.
      + (* first visit *)
        destruct (memN node (t_visiting s)) eqn:Ev; [discriminate|].
        apply memN_false in Ev.
        intros H; inversion H; subst s'; clear H.
        assert (Hnt : ~ In (node, true) stk).
        { intros H. apply Ev. apply Hvis. now right. }
        constructor; cbn.
        * assumption.
        * assumption.
        * assumption.
        * apply cov_false.
          { intros [x b] H. apply push_nbrs_In in H. now destruct H. }
          cbn. split.
          -- intros _ p Hp. right. rewrite app_nil_r, push_nbrs_fst, rev_involutive. exact Hp.
          -- cbn in Hcov. destruct Hcov as [_ Hcov]. revert Hcov. apply cov_mono.
             intros p [H|[<-|[]]]; cbn; auto.
        * intros x Hx. destruct (Hst x Hx) as [H|H]; [now left|]. right.
          rewrite map_app. apply in_or_app. right. exact H.
        * intros x [H|H]; [apply Hsnd; now left|].
          rewrite map_app in H. apply in_app_or in H. destruct H as [H|H].
          -- rewrite push_nbrs_fst in H. apply in_rev in H.
             assert (Hn : reach_from m start node) by (apply Hsnd; right; now left).
             destruct Hn as (t & Ht & Hr). exists t. split; [assumption|].
             eapply mreach_trans; [exact Hr|]. eapply mreach_step; [exact H|apply mreach_refl].
          -- apply Hsnd. right. exact H.
        * intros x. rewrite in_app_iff. cbn. rewrite push_nbrs_In. split.
          -- intros [<-|H]; [right; now left|]. apply Hvis in H. destruct H as [H|H].
             ++ discriminate.
             ++ right. now right.
          -- intros [[H _]|[H|H]]; [discriminate| |].
             ++ inversion H. now left.
             ++ right. apply Hvis. now right.
        * change (NoDup (true_nodes (push_nbrs (nbrs m node) ++ (node, true) :: stk))).
          rewrite true_nodes_push.
          change (NoDup (node :: true_nodes stk)).
          change (NoDup (true_nodes stk)) in Htn.
          constructor; [|assumption].
          intros H. apply Hnt. now apply true_nodes_In.
        * intros x H. apply in_app_or in H. destruct H as [H|[H|H]].
          -- apply push_nbrs_In in H. now destruct H.
          -- inversion H; subst. assumption.
          -- apply Htf. now right.
        * apply stack_ok_push. exact Hok.
        * intros x H. rewrite map_app in H. apply in_app_or in H. destruct H as [H|H].
          -- rewrite push_nbrs_fst in H. apply in_rev in H.
             unfold univ, topo_univ. apply in_or_app. right. eapply nbrs_in_all_preds; eauto.
          -- apply Hun. exact H.
  Qed.

  (** Non-empty paths along recorded predecessor edges. *)
  Definition tpath : N -> N -> Prop := clos_trans_1n N (edge m).

  Lemma tpath_snoc x y z : tpath x y -> edge m y z -> tpath x z.
  Proof.
    induction 1 as [a b Hab|a b c Hab _ IH]; intros Hz.
    - eapply Relation_Operators.t1n_trans; [exact Hab|]. now apply Relation_Operators.t1n_step.
    - eapply Relation_Operators.t1n_trans; [exact Hab|]. now apply IH.
  Qed.

  Lemma owner_chain_path stk t : forall o,
    stack_ok stk -> In (t, true) stk -> owner stk = Some o -> o = t \/ tpath t o.
  Proof.
    induction stk as [|[n b] r IH]; intros o Hok Hin Ho; [destruct Hin|].
    cbn in Hok. destruct Hok as [Hn Hr]. destruct b; cbn in Ho.
    - inversion Ho; subst o. destruct Hin as [H|H]; [inversion H; now left|].
      destruct (In_true_owner r t H) as (o' & Eo). rewrite Eo in Hn.
      destruct (IH o' Hr H Eo) as [->|Hp].
      + right. now apply Relation_Operators.t1n_step.
      + right. eapply tpath_snoc; eauto.
    - destruct Hin as [H|H]; [discriminate|]. eauto.
  Qed.

  (** What the sort returns. [inr res]: newest first, i.e. a commit before its predecessors.
      [inl c]: [c] really lies on a cycle of recorded predecessor edges. *)
  Definition topo_post (r : N + list N) : Prop :=
    match r with
    | inl c => tpath c c /\ reach_from m start c
    | inr res =>
        NoDup res
        /\ (forall x, In x res <-> reach_from m start x)
        /\ (forall l1 n l2, res = l1 ++ n :: l2 -> forall p, edge m n p -> In p l2)
    end.

  Lemma topo_inv_stop s r : topo_inv s -> topo_step m s = Stop r -> topo_post r.
  Proof.
    intros [Hres Hnd Hord Hcov Hst Hsnd Hvis Htn Htf Hok Hun]. unfold topo_step.
    destruct (t_stack s) as [|[node visited] stk] eqn:Es.
    - intros H; inversion H; subst r; clear H. cbn. rewrite Hres.
      split; [assumption|]. split; [|assumption].
      intros x. split.
      + intros Hx. apply Hsnd. now left.
      + apply (reach_closed m (fun y => In y (t_emitted s)) start).
        * intros t Ht. destruct (Hst t Ht) as [H|[]]. assumption.
        * intros c p Hc Hcp. apply in_split in Hc. destruct Hc as (l1 & l2 & E).
          specialize (Hord l1 c l2 E p Hcp). rewrite E. apply in_or_app. right. now right.
    - destruct (memN node (t_emitted s)); [discriminate|].
      destruct visited; cbn [negb]; [discriminate|].
      destruct (memN node (t_visiting s)) eqn:Ev; [|discriminate].
      intros H; inversion H; subst r. cbn. split.
      + apply memN_In in Ev. apply Hvis in Ev. destruct Ev as [Ev|Ev]; [discriminate|].
        cbn in Hok. destruct Hok as [Hn Hr].
        destruct (In_true_owner stk node Ev) as (o & Eo). rewrite Eo in Hn.
        destruct (owner_chain_path stk node o Hr Ev Eo) as [->|Hp].
        * now apply Relation_Operators.t1n_step.
        * eapply tpath_snoc; eauto.
      + apply Hsnd. right. now left.
  Qed.

  (** Termination: a node is expanded at most once. *)
  Definition unexp (l V Em : list N) : nat :=
    sum_list (map (fun u => if memN u V || memN u Em then O else S (length (nbrs m u))) l).

  Definition topo_measure (s : topo_st) : nat :=
    length (t_stack s) + unexp univ (t_visiting s) (t_emitted s).

  Lemma unexp_cons u l V Em :
    unexp (u :: l) V Em =
    (if memN u V || memN u Em then O else S (length (nbrs m u))) + unexp l V Em.
  Proof. reflexivity. Qed.

  Lemma unexp_le l V Em V' Em' :
    (forall u, In u V \/ In u Em -> In u V' \/ In u Em') ->
    unexp l V' Em' <= unexp l V Em.
  Proof.
    intros H. induction l as [|u l IH]; [unfold unexp; cbn; lia|].
    rewrite !unexp_cons.
    destruct (memN u V || memN u Em) eqn:E.
    - assert (memN u V' || memN u Em' = true) as ->; [|lia].
      apply orb_true_iff in E. apply orb_true_iff. rewrite !memN_In in *. auto.
    - destruct (memN u V' || memN u Em'); lia.
  Qed.

  Lemma unexp_expand l V Em x :
    In x l -> ~ In x V -> ~ In x Em ->
    unexp l (x :: V) Em + S (length (nbrs m x)) <= unexp l V Em.
  Proof.
    intros Hl HV HE. induction l as [|u l IH]; [destruct Hl|].
    rewrite !unexp_cons.
    assert (Hmono : unexp l (x :: V) Em <= unexp l V Em).
    { apply unexp_le. intros u0 [H|H]; [left; now right|now right]. }
    destruct Hl as [->|Hl].
    - assert (memN x (x :: V) = true) as -> by (apply memN_In; now left).
      assert (memN x V = false) as -> by (now apply memN_false).
      assert (memN x Em = false) as -> by (now apply memN_false).
      cbn [orb]. lia.
    - specialize (IH Hl).
      destruct (memN u V || memN u Em) eqn:E.
      + assert (memN u (x :: V) || memN u Em = true) as ->; [|lia].
        apply orb_true_iff in E. apply orb_true_iff. rewrite !memN_In in *.
        destruct E; [left; now right|now right].
      + destruct (memN u (x :: V) || memN u Em); lia.
  Qed.

  Lemma topo_measure_step s s' :
    topo_inv s -> topo_step m s = Continue s' -> topo_measure s' < topo_measure s.
  Proof.
    intros [Hres Hnd Hord Hcov Hst Hsnd Hvis Htn Htf Hok Hun]. unfold topo_step, topo_measure.
    destruct (t_stack s) as [|[node visited] stk] eqn:Es; [discriminate|].
    destruct (memN node (t_emitted s)) eqn:Eem.
    - intros H; inversion H; subst s'; clear H. cbn. lia.
    - apply memN_false in Eem. destruct visited; cbn [negb].
      + intros H; inversion H; subst s'; clear H. cbn.
        assert (unexp univ (filter (fun x => negb (N.eqb x node)) (t_visiting s))
                      (node :: t_emitted s) <= unexp univ (t_visiting s) (t_emitted s)); [|lia].
        apply unexp_le. intros u [H|H]; [|right; now right].
        destruct (N.eqb u node) eqn:E.
        * apply N.eqb_eq in E. subst. right. now left.
        * left. apply filter_In. split; [assumption|]. now rewrite E.
      + destruct (memN node (t_visiting s)) eqn:Ev; [discriminate|].
        apply memN_false in Ev.
        intros H; inversion H; subst s'; clear H. cbn.
        rewrite app_length, push_nbrs_length. cbn.
        assert (Hu : In node univ) by (apply Hun; now left).
        pose proof (unexp_expand univ (t_visiting s) (t_emitted s) node Hu Ev Eem). lia.
  Qed.

  Lemma topo_terminates : topo_reverse m start <> None.
  Proof.
    unfold topo_reverse.
    apply (run_terminates (topo_step m) topo_inv topo_inv_step topo_measure topo_measure_step).
    - apply topo_inv_init.
    - unfold topo_measure, topo_fuel. cbn. rewrite push_nbrs_length.
      assert (unexp univ [] [] = sum_list (map (fun u => S (length (nbrs m u))) (topo_univ m start))) as ->.
      { reflexivity. }
      lia.
  Qed.

  Lemma topo_spec r : topo_reverse m start = Some r -> topo_post r.
  Proof.
    unfold topo_reverse.
    apply (run_inv (topo_step m) topo_inv topo_inv_step topo_post topo_inv_stop).
    apply topo_inv_init.
  Qed.

  (** ** No false alarm: on a ranked (hence acyclic) graph the sort never reports a cycle. *)
  Section Ranked.
    Variable rank : N -> nat.
    Hypothesis rank_edge : forall c p, edge m c p -> rank p < rank c.

    Lemma owner_chain stk t o :
      stack_ok stk -> In (t, true) stk -> owner stk = Some o -> rank o <= rank t.
    Proof.
      revert o. induction stk as [|[n b] r IH]; intros o Hok Hin Ho; [destruct Hin|].
      cbn in Hok. destruct Hok as [Hn Hr]. destruct b; cbn in Ho.
      - inversion Ho; subst o. destruct Hin as [H|H]; [inversion H; lia|].
        destruct (In_true_owner r t H) as (o' & Eo). rewrite Eo in Hn.
        specialize (IH o' Hr H Eo). apply rank_edge in Hn. lia.
      - destruct Hin as [H|H]; [discriminate|]. eauto.
    Qed.

    Lemma topo_no_cycle_step s c : topo_inv s -> topo_step m s <> Stop (inl c).
    Proof.
      intros [Hres Hnd Hord Hcov Hst Hsnd Hvis Htn Htf Hok Hun]. unfold topo_step.
      destruct (t_stack s) as [|[node visited] stk] eqn:Es; [discriminate|].
      destruct (memN node (t_emitted s)); [discriminate|].
      destruct visited; cbn [negb]; [discriminate|].
      destruct (memN node (t_visiting s)) eqn:Ev; [|discriminate].
      apply memN_In in Ev. apply Hvis in Ev. destruct Ev as [Ev|Ev]; [discriminate|].
      cbn in Hok. destruct Hok as [Hn Hr].
      destruct (In_true_owner stk node Ev) as (o & Eo). rewrite Eo in Hn.
      pose proof (owner_chain stk node o Hr Ev Eo). apply rank_edge in Hn. lia.
    Qed.

    Lemma topo_ranked_ok : exists res, topo_reverse m start = Some (inr res).
    Proof.
      destruct (topo_reverse m start) as [[c|res]|] eqn:E.
      - exfalso.
        assert (H : forall fuel s r, topo_inv s -> run (topo_step m) fuel s = Some r -> r <> inl c).
        { apply (run_inv (topo_step m) topo_inv topo_inv_step (fun r => r <> inl c)).
          intros s r Hs Hr ->. eapply topo_no_cycle_step; eauto. }
        apply (H _ _ _ topo_inv_init E). reflexivity.
      - eauto.
      - exfalso. now apply topo_terminates in E.
    Qed.
  End Ranked.
End Topo.
