(** C18 proofs: the index's graph queries compute the graph specification. *)
From Verif Require Import Base.Prelude Base.DagI Gen.Tables Model.C18.
From Coq Require Import Lia Arith.
Local Open Scope nat_scope.

(** * heaps as descending lists *)

Fixpoint desc (h : list nat) : Prop :=
  match h with
  | [] => True
  | x :: t => (forall y, In y t -> y <= x) /\ desc t
  end.

Lemma hpush_in x h y : In y (hpush x h) <-> y = x \/ In y h.
Proof.
  induction h as [|z t IH]; simpl.
  - intuition.
  - destruct (z <=? x); simpl; rewrite ?IH; intuition.
Qed.

Lemma hpush_desc x h : desc h -> desc (hpush x h).
Proof.
  induction h as [|z t IH]; simpl; intros D.
  - split; [intros y []|exact I].
  - destruct D as [Dz Dt]. destruct (Nat.leb_spec z x) as [L|L]; simpl.
    + split; [|split; assumption]. intros y [<-|Hy]; [assumption|]. apply Dz in Hy. lia.
    + split; [|now apply IH]. intros y Hy. apply hpush_in in Hy.
      destruct Hy as [->|Hy]; [lia|now apply Dz].
Qed.

Lemma hextend_in ps : forall h y, In y (hextend ps h) <-> In y ps \/ In y h.
Proof.
  unfold hextend. induction ps as [|p ps IH]; intros h y; simpl.
  - intuition.
  - rewrite IH, hpush_in. intuition.
Qed.

Lemma hextend_desc ps : forall h, desc h -> desc (hextend ps h).
Proof.
  unfold hextend. induction ps as [|p ps IH]; intros h D; simpl; [assumption|].
  apply IH. now apply hpush_desc.
Qed.

Lemma heap_from_in l y : In y (heap_from l) <-> In y l.
Proof.
  unfold heap_from. induction l as [|x l IH]; simpl; [reflexivity|].
  rewrite hpush_in, IH. intuition.
Qed.

Lemma heap_from_desc l : desc (heap_from l).
Proof.
  unfold heap_from. induction l as [|x l IH]; simpl; [exact I|]. now apply hpush_desc.
Qed.

Lemma drop_eq_in x t y :
  (forall z, In z t -> z <= x) -> desc t ->
  (In y (drop_eq x t) <-> In y t /\ y < x).
Proof.
  induction t as [|z t IH]; simpl; intros B D.
  - intuition.
  - destruct D as [Dz Dt]. destruct (Nat.eqb_spec z x) as [->|N].
    + rewrite IH; [|intros w Hw; apply B; now right|assumption].
      split; [intros [H1 H2]; split; [now right|assumption]|].
      intros [[->|H1] H2]; [lia|now split].
    + assert (z < x). { specialize (B z (or_introl eq_refl)). lia. }
      simpl. split.
      * intros [->|H1]; [split; [now left|assumption]|].
        split; [now right|]. apply Dz in H1. lia.
      * intros [H1 _]. assumption.
Qed.

Lemma drop_eq_desc x t : desc t -> desc (drop_eq x t).
Proof.
  induction t as [|z t IH]; simpl; intros D; [exact I|].
  destruct (z =? x); [apply IH; now destruct D|assumption].
Qed.

Lemma dedup_pop_in q t y : desc (q :: t) -> (In y (dedup_pop (q :: t)) <-> In y t /\ y < q).
Proof. intros [B D]. simpl. now apply drop_eq_in. Qed.

Lemma dedup_pop_desc h : desc h -> desc (dedup_pop h).
Proof. destruct h as [|q t]; simpl; [trivial|]. intros [_ D]. now apply drop_eq_desc. Qed.

Lemma shift_in q t ps y : desc (q :: t) ->
  (In y (shift_to_parents (q :: t) ps) <-> In y ps \/ (In y t /\ y < q)).
Proof.
  intros [B D]. unfold shift_to_parents. destruct ps as [|p0 rest].
  - rewrite drop_eq_in by assumption. simpl. intuition.
  - rewrite hextend_in, hpush_in, drop_eq_in by assumption. simpl. intuition.
Qed.

Lemma shift_desc h ps : desc h -> desc (shift_to_parents h ps).
Proof.
  destruct h as [|q t]; simpl; [trivial|]. intros [_ D]. destruct ps as [|p0 rest].
  - now apply drop_eq_desc.
  - apply hextend_desc, hpush_desc. now apply drop_eq_desc.
Qed.

Lemma desc_hd_bound h y : desc h -> In y h -> y <= hd 0 h.
Proof.
  destruct h as [|q t]; simpl; [intros _ []|]. intros [B _] [<-|H]; [lia|now apply B].
Qed.

(** * is_ancestor_pos *)

Section IsAncestor.
  Variable g : graph.
  Hypothesis W : wf g.
  Variables a d0 : nat.
  Let n := length g.
  Let ga := gen g a.

  Definition cost_of (visited : list nat) (x : nat) : nat :=
    if memn x visited then 0 else S (length (parents g x)).
  Definition cost (visited : list nat) : nat :=
    list_sum (map (cost_of visited) (seq 0 n)).

  Lemma list_sum_map_le (f f' : nat -> nat) l :
    (forall x, In x l -> f' x <= f x) -> list_sum (map f' l) <= list_sum (map f l).
  Proof.
    induction l as [|y l IH]; simpl; intros H; [lia|].
    pose proof (H y (or_introl eq_refl)). specialize (IH (fun x Hx => H x (or_intror Hx))). lia.
  Qed.

  Lemma list_sum_map_drop (f f' : nat -> nat) l x :
    NoDup l -> In x l -> f' x = 0 -> (forall y, y <> x -> f' y = f y) ->
    list_sum (map f l) = f x + list_sum (map f' l).
  Proof.
    induction l as [|y l IH]; simpl; intros ND Hx H0 He; [contradiction|].
    inversion ND as [|? ? Hn ND']; subst. destruct Hx as [->|Hx].
    - rewrite H0. simpl. f_equal. f_equal. apply map_ext_in. intros z Hz.
      symmetry. apply He. intros ->. contradiction.
    - rewrite (IH ND' Hx H0 He). rewrite (He y); [lia|]. intros ->. contradiction.
  Qed.

  Lemma cost_visit visited x :
    x < n -> memn x visited = false ->
    cost visited = S (length (parents g x)) + cost (x :: visited).
  Proof.
    intros L M. unfold cost.
    rewrite (list_sum_map_drop (cost_of visited) (cost_of (x :: visited)) (seq 0 n) x).
    - unfold cost_of at 1. now rewrite M.
    - apply seq_NoDup.
    - apply in_seq. lia.
    - unfold cost_of, memn. simpl. now rewrite Nat.eqb_refl.
    - intros y Ny. unfold cost_of, memn. simpl.
      destruct (Nat.eqb_spec y x); [congruence|reflexivity].
  Qed.

  Lemma map_nth_seq {A} (l : list A) (dflt : A) :
    map (fun i => nth i l dflt) (seq 0 (length l)) = l.
  Proof.
    induction l as [|x l IH] using rev_ind; [reflexivity|].
    rewrite app_length. simpl. rewrite Nat.add_1_r, seq_S, map_app. simpl.
    rewrite app_nth2 by lia. rewrite Nat.sub_diag. simpl. f_equal.
    rewrite <- IH at 2. apply map_ext_in. intros i Hi. apply in_seq in Hi.
    apply app_nth1. lia.
  Qed.

  Lemma list_sum_map_S (f : nat -> nat) l :
    list_sum (map (fun x => S (f x)) l) = length l + list_sum (map f l).
  Proof. induction l as [|y l IH]; simpl; [reflexivity|]. rewrite IH. lia. Qed.

  Lemma cost_nil : cost [] = n + edges g.
  Proof.
    unfold cost, edges, cost_of. simpl.
    rewrite (list_sum_map_S (fun x => length (parents g x))), seq_length. f_equal.
    transitivity (list_sum (map (@length nat) (map (fun i => nth i g []) (seq 0 (length g))))).
    - rewrite map_map. reflexivity.
    - now rewrite map_nth_seq.
  Qed.

  Record inv (work visited : list nat) : Prop := {
    inv_vis : forall v, In v visited -> a < v /\ v < n;
    inv_closed : forall v, In v visited -> ga < gen g v ->
                 forall p, In p (parents g v) -> In p visited \/ In p work \/ p < a;
    inv_work : forall w, In w work -> anc g w d0 /\ w < n;
    inv_d0 : In d0 visited \/ In d0 work \/ d0 < a;
  }.

  Lemma closed_no_anc visited : inv [] visited -> forall v, In v visited -> ~ anc g a v.
  Proof.
    intros I v. induction v as [v IH] using lt_wf_ind. intros Hv Ha.
    destruct (inv_vis _ _ I v Hv) as [Lav _].
    assert (S : sanc g a v) by (split; [assumption|lia]).
    destruct (sanc_inv _ _ _ S) as (p & Hp & Hap).
    assert (G : ga < gen g v) by (now apply gen_sanc_lt).
    destruct (inv_closed _ _ I v Hv G p Hp) as [Hpv|[[]|Lp]].
    - apply (IH p); [now apply W in Hp|assumption|assumption].
    - apply (anc_le _ _ _ W) in Hap. lia.
  Qed.

  Lemma is_anc_loop_ok : forall fuel work visited,
    inv work visited -> length work + cost visited < fuel ->
    is_anc_loop g (gens g) a ga fuel work visited = Some (ancb g a d0).
  Proof.
    induction fuel as [|fuel IH]; intros work visited I F; [lia|].
    simpl. destruct work as [|d w].
    - f_equal. destruct (ancb g a d0) eqn:E; [exfalso|reflexivity].
      apply ancb_spec in E; [|assumption].
      destruct (inv_d0 _ _ I) as [H|[[]|H]].
      + exact (closed_no_anc _ I _ H E).
      + apply (anc_le _ _ _ W) in E. lia.
    - destruct (inv_work _ _ I d (or_introl eq_refl)) as [Hd Ld].
      destruct (Nat.compare_spec d a) as [E|L|L].
      + subst d. f_equal. symmetry. now apply ancb_spec.
      + apply IH; [|simpl in F; lia]. constructor.
        * apply (inv_vis _ _ I).
        * intros v Hv G p Hp. destruct (inv_closed _ _ I v Hv G p Hp) as [H|[[<-|H]|H]]; auto.
        * intros x Hx. apply (inv_work _ _ I). now right.
        * destruct (inv_d0 _ _ I) as [H|[[<-|H]|H]]; auto.
      + destruct (memn d visited) eqn:M.
        * apply memn_spec in M. apply IH; [|simpl in F; lia]. constructor.
          -- apply (inv_vis _ _ I).
          -- intros v Hv G p Hp.
             destruct (inv_closed _ _ I v Hv G p Hp) as [H|[[<-|H]|H]]; auto.
          -- intros x Hx. apply (inv_work _ _ I). now right.
          -- destruct (inv_d0 _ _ I) as [H|[[<-|H]|H]]; auto.
        * pose proof (cost_visit visited d Ld M) as C.
          change (nth d (gens g) 0) with (gen g d).
          destruct (Nat.leb_spec (gen g d) ga) as [G|G].
          -- apply IH; [|simpl in F; lia]. constructor.
             ++ intros v [<-|Hv]; [split; assumption|]. now apply (inv_vis _ _ I).
             ++ intros v [<-|Hv] Gv p Hp; [lia|].
                destruct (inv_closed _ _ I v Hv Gv p Hp) as [H|[[<-|H]|H]];
                  [left; now right|left; now left|right; now left|right; now right].
             ++ intros x Hx. apply (inv_work _ _ I). now right.
             ++ destruct (inv_d0 _ _ I) as [H|[[<-|H]|H]];
                  [left; now right|left; now left|right; now left|right; now right].
          -- apply IH.
             ++ constructor.
                ** intros v [<-|Hv]; [split; assumption|]. now apply (inv_vis _ _ I).
                ** intros v [<-|Hv] Gv p Hp.
                   --- right. left. apply in_or_app. left. now apply in_rev in Hp.
                   --- destruct (inv_closed _ _ I v Hv Gv p Hp) as [H|[[<-|H]|H]];
                         [left; now right|left; now left| |right; now right].
                       right. left. apply in_or_app. now right.
                ** intros x Hx. apply in_app_or in Hx. destruct Hx as [Hx|Hx].
                   --- apply in_rev in Hx. split.
                       +++ eapply anc_trans; [apply anc_parent; eassumption|assumption].
                       +++ apply W in Hx. lia.
                   --- apply (inv_work _ _ I). now right.
                ** destruct (inv_d0 _ _ I) as [H|[[<-|H]|H]];
                     [left; now right|left; now left| |right; now right].
                   right. left. apply in_or_app. now right.
             ++ rewrite app_length, rev_length. simpl in F. lia.
  Qed.

  Lemma is_ancestor_pos_ok : d0 < n -> is_ancestor_pos g a d0 = Some (ancb g a d0).
  Proof.
    intros L. unfold is_ancestor_pos. apply is_anc_loop_ok.
    - constructor.
      + intros v [].
      + intros v [].
      + intros w [<-|[]]. split; [constructor|assumption].
      + right. left. now left.
    - rewrite cost_nil. unfold is_ancestor_fuel. simpl. fold n. lia.
  Qed.
End IsAncestor.

(** * heads_pos *)

Fixpoint sdesc (l : list nat) : Prop :=
  match l with
  | [] => True
  | x :: t => (forall y, In y t -> y < x) /\ sdesc t
  end.

Lemma sdesc_desc l : sdesc l -> desc l.
Proof.
  induction l as [|x t IH]; simpl; [trivial|]. intros [B D]. split; [|now apply IH].
  intros y Hy. apply B in Hy. lia.
Qed.

Section Heads.
  Variable g : graph.
  Hypothesis W : wf g.
  Variable mg : nat.
  Variable C : list nat.
  Hypothesis mg_le : forall c, In c C -> mg <= gen g c.

  (** every heap item is a strict ancestor of a head found so far *)
  Definition covA (h acc : list nat) : Prop :=
    forall q, In q h -> exists hh, In hh acc /\ sanc g q hh.
  (** every possible candidate below [k] that is a strict ancestor of a found head is still
      reachable from the heap *)
  Definition cover (h acc : list nat) (k : nat) : Prop :=
    forall x, x < k -> mg <= gen g x -> (exists hh, In hh acc /\ sanc g x hh) ->
    exists q, In q h /\ anc g x q.

  Lemma cover_mono h acc k k' : k' <= k -> cover h acc k -> cover h acc k'.
  Proof. intros L Cv x Hx. apply Cv. lia. Qed.

  Definition drain_step (h : list nat) (q : nat) : list nat :=
    if nth q (gens g) 0 <=? mg then dedup_pop h else shift_to_parents h (parents g q).

  Lemma drain_step_in q t y : desc (q :: t) ->
    In y (drain_step (q :: t) q) -> (In y t /\ y < q) \/ In y (parents g q).
  Proof.
    intros D. unfold drain_step. destruct (_ <=? _).
    - rewrite dedup_pop_in by assumption. now left.
    - rewrite shift_in by assumption. intuition.
  Qed.

  Lemma drain_step_lt q t y : desc (q :: t) -> In y (drain_step (q :: t) q) -> y < q.
  Proof.
    intros D H. apply drain_step_in in H; [|assumption].
    destruct H as [[_ H]|H]; [assumption|now apply W in H].
  Qed.

  Lemma drain_step_desc q t : desc (q :: t) -> desc (drain_step (q :: t) q).
  Proof.
    intros D. unfold drain_step. destruct (_ <=? _); [now apply dedup_pop_desc|now apply shift_desc].
  Qed.

  Lemma drain_step_covA q t acc : desc (q :: t) -> covA (q :: t) acc -> covA (drain_step (q :: t) q) acc.
  Proof.
    intros D A y Hy. apply drain_step_in in Hy; [|assumption]. destruct Hy as [[Hy _]|Hy].
    - apply A. now right.
    - destruct (A q (or_introl eq_refl)) as (hh & Hh & S). exists hh. split; [assumption|].
      eapply anc_sanc_trans; [assumption|apply anc_parent; eassumption|assumption].
  Qed.

  Lemma drain_step_cover q t acc k k' : desc (q :: t) ->
    cover (q :: t) acc k -> (forall x, x < k' -> x < k /\ x <> q) ->
    cover (drain_step (q :: t) q) acc k'.
  Proof.
    intros D Cv Hk x Hx Gx Hh. destruct (Hk x Hx) as [Lx Nx].
    destruct (Cv x Lx Gx Hh) as (q0 & Hq0 & Ha).
    assert (Q : q0 = q \/ (In q0 t /\ q0 < q)).
    { destruct Hq0 as [->|Hq0]; [now left|]. destruct D as [B _]. specialize (B _ Hq0).
      destruct (Nat.eq_dec q0 q); [now left|right; split; [assumption|lia]]. }
    unfold drain_step. change (nth q (gens g) 0) with (gen g q).
    destruct Q as [->|[Hq0' Lq0]].
    - assert (S : sanc g x q) by (split; assumption).
      destruct (Nat.leb_spec (gen g q) mg) as [G|G].
      + pose proof (gen_sanc_lt _ _ _ W S). lia.
      + destruct (sanc_inv _ _ _ S) as (p & Hp & Hxp). exists p. split; [|assumption].
        apply shift_in; [assumption|]. now left.
    - exists q0. split; [|assumption]. destruct (_ <=? _).
      + apply dedup_pop_in; [assumption|]. now split.
      + apply shift_in; [assumption|]. right. now split.
  Qed.

  Lemma heads_drain_ok acc c : forall fuel h,
    desc h -> hd 0 h < fuel -> covA h acc -> cover h acc (S c) ->
    exists h' b, heads_drain g (gens g) mg fuel h c = Some (h', b) /\ desc h' /\ covA h' acc /\
      (if b then (exists hh, In hh acc /\ sanc g c hh) /\ cover h' acc c
       else (forall q, In q h' -> q < c) /\ cover h' acc (S c)).
  Proof.
    induction fuel as [|fuel IH]; intros h D F A Cv; [lia|].
    simpl. destruct h as [|q t].
    - exists [], false. repeat split; try assumption. intros q [].
    - destruct (Nat.ltb_spec q c) as [L|L].
      + exists (q :: t), false. repeat split; try assumption; try apply D.
        intros y [<-|Hy]; [assumption|]. destruct D as [B _]. apply B in Hy. lia.
      + fold (drain_step (q :: t) q).
        pose proof (drain_step_desc q t D) as D'.
        pose proof (drain_step_covA q t acc D A) as A'.
        destruct (Nat.eqb_spec q c) as [E|N].
        * subst q. exists (drain_step (c :: t) c), true. repeat split; try assumption.
          -- apply (A c). now left.
          -- eapply drain_step_cover; [assumption|eassumption|]. intros x Hx. lia.
        * assert (Cv' : cover (drain_step (q :: t) q) acc (S c)).
          { eapply drain_step_cover; [assumption|eassumption|]. intros x Hx. lia. }
          apply IH; try assumption.
          simpl in F. destruct (drain_step (q :: t) q) as [|z zs] eqn:E; simpl; [lia|].
          assert (z < q); [|lia]. apply (drain_step_lt q t z D). rewrite E. now left.
  Qed.

  Definition is_head (c : nat) : bool :=
    negb (existsb (fun y => negb (y =? c) && ancb_t (ancsets g) c y) C).

  Lemma is_head_false c hh : In hh C -> sanc g c hh -> is_head c = false.
  Proof.
    intros Hh [Ha Hn]. unfold is_head. apply negb_false_iff, existsb_exists. exists hh.
    split; [assumption|]. apply andb_true_iff. split.
    - apply negb_true_iff, Nat.eqb_neq. congruence.
    - now apply ancb_t_spec.
  Qed.

  Lemma is_head_true c : (forall y, In y C -> y <> c -> ~ anc g c y) -> is_head c = true.
  Proof.
    intros H. unfold is_head. apply negb_true_iff.
    destruct (existsb _ C) eqn:E; [exfalso|reflexivity].
    apply existsb_exists in E. destruct E as (y & Hy & E). apply andb_true_iff in E.
    destruct E as [E1 E2]. apply negb_true_iff, Nat.eqb_neq in E1.
    apply ancb_t_spec in E2; [|assumption]. exact (H y Hy E1 E2).
  Qed.

  Lemma heads_loop_ok : forall cs h acc done,
    (forall y, In y C <-> In y done \/ In y cs) ->
    sdesc cs -> (forall y c, In y done -> In c cs -> c < y) ->
    desc h -> covA h acc -> (forall c, In c cs -> cover h acc (S c)) ->
    (forall y, In y acc -> In y done) ->
    (forall y, In y done -> In y acc \/ exists hh, In hh acc /\ sanc g y hh) ->
    heads_loop g (gens g) mg cs h acc = Some (rev acc ++ filter is_head cs).
  Proof.
    induction cs as [|c cs IH]; intros h acc done HC SD Hdone D A Cv Hacc Hd.
    - simpl. now rewrite app_nil_r.
    - cbn [heads_loop filter]. destruct SD as [Bc SD].
      assert (F : hd 0 h < top_fuel h) by (unfold top_fuel; lia).
      destruct (heads_drain_ok acc c _ h D F A (Cv c (or_introl eq_refl)))
        as (h' & b & E & D' & A' & R).
      rewrite E. 
      assert (HC' : forall y, In y C <-> In y (c :: done) \/ In y cs).
      { intros y. rewrite HC. simpl. intuition. }
      assert (Hdone' : forall y c0, In y (c :: done) -> In c0 cs -> c0 < y).
      { intros y c0 [<-|Hy] Hc0; [now apply Bc|]. apply Hdone; [assumption|now right]. }
      destruct b.
      + destruct R as [(hh & Hh & S) Cv'].
        assert (is_head c = false) as ->.
        { apply (is_head_false c hh); [|assumption]. apply HC. left. now apply Hacc. }
        apply (IH h' acc (c :: done)); try assumption.
        * intros c0 Hc0. eapply cover_mono; [|eassumption]. apply Bc in Hc0. lia.
        * intros y Hy. right. now apply Hacc.
        * intros y [<-|Hy]; [right; now exists hh|now apply Hd].
      + destruct R as [Lt Cv'].
        assert (Gc : mg <= gen g c). { apply mg_le, HC. right. now left. }
        assert (is_head c = true) as ->.
        { apply is_head_true. intros y Hy Ny Ha.
          assert (S : sanc g c y) by (split; [assumption|congruence]).
          assert (Hyd : In y done).
          { apply HC in Hy. destruct Hy as [Hy|[Hy|Hy]]; [assumption|congruence|].
            apply Bc in Hy. pose proof (sanc_lt _ _ _ W S). lia. }
          assert (X : exists hh, In hh acc /\ sanc g c hh).
          { destruct (Hd y Hyd) as [Hy'|(hh & Hh & S')].
            - now exists y.
            - exists hh. split; [assumption|].
              eapply anc_sanc_trans; [assumption|apply Ha|assumption]. }
          destruct (Cv' c (Nat.lt_succ_diag_r c) Gc X) as (q & Hq & Hcq).
          apply Lt in Hq. apply (anc_le _ _ _ W) in Hcq. lia. }
        replace (rev acc ++ c :: filter is_head cs) with (rev (c :: acc) ++ filter is_head cs)
          by (simpl; now rewrite <- app_assoc).
        apply (IH (hextend (parents g c) h') (c :: acc) (c :: done)); try assumption.
        * now apply hextend_desc.
        * intros q Hq. apply hextend_in in Hq. destruct Hq as [Hq|Hq].
          -- exists c. split; [now left|]. split; [now apply anc_parent|].
             apply W in Hq. lia.
          -- destruct (A' q Hq) as (hh & Hh & S). exists hh. split; [now right|assumption].
        * intros c0 Hc0 x Hx Gx (hh & [<-|Hh] & S).
          -- destruct (sanc_inv _ _ _ S) as (p & Hp & Hxp). exists p.
             split; [|assumption]. apply hextend_in. now left.
          -- destruct (Cv' x) as (q & Hq & Hxq); [apply Bc in Hc0; lia|assumption| |].
             ++ now exists hh.
             ++ exists q. split; [|assumption]. apply hextend_in. now right.
        * intros y [<-|Hy]; [now left|right; now apply Hacc].
        * intros y [<-|Hy]; [left; now left|].
          destruct (Hd y Hy) as [H|(hh & Hh & S)]; [left; now right|].
          right. exists hh. split; [now right|assumption].
  Qed.
End Heads.

Lemma fold_min_le (f : nat -> nat) l : forall init,
  fold_left (fun m x => Nat.min m (f x)) l init <= init /\
  forall x, In x l -> fold_left (fun m x => Nat.min m (f x)) l init <= f x.
Proof.
  induction l as [|y l IH]; intros init; simpl.
  - split; [lia|intros x []].
  - destruct (IH (Nat.min init (f y))) as [H1 H2]. split; [lia|].
    intros x [<-|Hx]; [lia|now apply H2].
Qed.

Lemma min_gen_le g cands c : In c cands -> min_gen (gens g) cands <= gen g c.
Proof.
  destruct cands as [|c0 cs]; [intros []|]. unfold min_gen, gen.
  destruct (fold_min_le (fun x => nth x (gens g) 0) cs (nth c0 (gens g) 0)) as [H1 H2].
  intros [<-|Hc]; [assumption|now apply H2].
Qed.

Lemma heads_pos_ok g cands : wf g -> sdesc cands -> heads_pos g cands = Some (heads_of g cands).
Proof.
  intros W SD. unfold heads_pos. destruct cands as [|c0 cs]; [reflexivity|].
  set (C := c0 :: cs) in *.
  rewrite (heads_loop_ok g W (min_gen (gens g) C) C (fun c => min_gen_le g C c) C [] [] []).
  - reflexivity.
  - intros y. simpl. intuition.
  - assumption.
  - intros y c [].
  - exact I.
  - intros q [].
  - intros c _ x _ _ (hh & [] & _).
  - intros y [].
  - intros y [].
Qed.

Lemma dedup_adj_in l z : In z (dedup_adj l) <-> In z l.
Proof.
  induction l as [|x t IH]; [reflexivity|]. destruct t as [|y t']; [reflexivity|].
  cbn [dedup_adj]. destruct (Nat.eqb_spec x y) as [->|N].
  - rewrite IH. simpl. intuition.
  - simpl In at 1. rewrite IH. simpl. intuition.
Qed.

Lemma dedup_adj_sdesc l : desc l -> sdesc (dedup_adj l).
Proof.
  induction l as [|x t IH]; [trivial|]. destruct t as [|y t']; [simpl; intuition|].
  intros DD. pose proof DD as [B D]. cbn [dedup_adj]. destruct (Nat.eqb_spec x y) as [->|N].
  - now apply IH.
  - split; [|now apply IH]. intros z Hz.
    apply (proj1 (dedup_adj_in (y :: t') z)) in Hz.
    assert (y < x). { specialize (B y (or_introl eq_refl)). lia. }
    destruct Hz as [<-|Hz]; [assumption|]. destruct D as [By _]. apply By in Hz. lia.
Qed.

Lemma heads_ok g cands : wf g -> heads g cands = Some (spec_heads g cands).
Proof.
  intros W. unfold heads, spec_heads. apply heads_pos_ok; [assumption|].
  apply dedup_adj_sdesc, heap_from_desc.
Qed.

(** * common_ancestors_pos *)

Fixpoint sasc (l : list nat) : Prop :=
  match l with
  | [] => True
  | x :: t => (forall y, In y t -> x < y) /\ sasc t
  end.

Lemma sdesc_app l x : sdesc l -> (forall y, In y l -> x < y) -> sdesc (l ++ [x]).
Proof.
  induction l as [|z t IH]; simpl; intros D B.
  - split; [intros y []|exact I].
  - destruct D as [Bz D]. split.
    + intros y Hy. apply in_app_or in Hy. destruct Hy as [Hy|[<-|[]]]; [now apply Bz|].
      apply B. now left.
    + apply IH; [assumption|]. intros y Hy. apply B. now right.
Qed.

Lemma sasc_rev l : sasc l -> sdesc (rev l).
Proof.
  induction l as [|x t IH]; simpl; [trivial|]. intros [B D].
  apply sdesc_app; [now apply IH|]. intros y Hy. apply in_rev in Hy. now apply B.
Qed.

Lemma sdesc_ext l1 : forall l2, sdesc l1 -> sdesc l2 -> (forall x, In x l1 <-> In x l2) -> l1 = l2.
Proof.
  induction l1 as [|x1 t1 IH]; intros l2 D1 D2 E.
  - destruct l2 as [|x2 t2]; [reflexivity|]. exfalso. apply (E x2). now left.
  - destruct l2 as [|x2 t2]; [exfalso; apply (E x1); now left|].
    destruct D1 as [B1 D1]. destruct D2 as [B2 D2].
    assert (x1 = x2).
    { pose proof (proj1 (E x1) (or_introl eq_refl)) as H1.
      pose proof (proj2 (E x2) (or_introl eq_refl)) as H2.
      destruct H1 as [H1|H1]; [congruence|]. destruct H2 as [H2|H2]; [congruence|].
      apply B2 in H1. apply B1 in H2. lia. }
    subst x2. f_equal. apply IH; try assumption. intros x. split; intros H.
    + pose proof (proj1 (E x) (or_intror H)) as [<-|H']; [|assumption].
      apply B1 in H. lia.
    + pose proof (proj2 (E x) (or_intror H)) as [<-|H']; [|assumption].
      apply B2 in H. lia.
Qed.

Lemma sdesc_filter (f : nat -> bool) l : sdesc l -> sdesc (filter f l).
Proof.
  induction l as [|x t IH]; simpl; [trivial|]. intros [B D]. destruct (f x); simpl.
  - split; [|now apply IH]. intros y Hy. apply filter_In in Hy. now apply B.
  - now apply IH.
Qed.

Lemma sdesc_all_pos g : sdesc (all_pos_desc g).
Proof.
  unfold all_pos_desc. generalize (length g) as n. induction n as [|n IH]; [exact I|].
  rewrite seq_S, rev_app_distr. simpl. split; [|assumption].
  intros y Hy. apply in_rev, in_seq in Hy. lia.
Qed.

Lemma all_pos_in g x : In x (all_pos_desc g) <-> x < length g.
Proof. unfold all_pos_desc. rewrite <- in_rev, in_seq. lia. Qed.

Section Common.
  Variable g : graph.
  Hypothesis W : wf g.
  Variables S1 S2 : list nat.

  Definition below (S : list nat) (x : nat) : Prop := exists s, In s S /\ anc g x s.
  Definition common (x : nat) : Prop := below S1 x /\ below S2 x.

  Record cinv (h1 h2 acc : list nat) : Prop := {
    ci_d1 : desc h1;
    ci_d2 : desc h2;
    ci_r1 : forall q, In q h1 -> below S1 q;
    ci_r2 : forall q, In q h2 -> below S2 q;
    ci_acc : forall r, In r acc -> common r;
    ci_cov : forall x, common x ->
             (exists r, In r acc /\ anc g x r) \/
             ((exists q, In q h1 /\ anc g x q) /\ (exists q, In q h2 /\ anc g x q));
    ci_o1 : forall r q, In r acc -> In q h1 -> q < r;
    ci_o2 : forall r q, In r acc -> In q h2 -> q < r;
    ci_asc : sasc acc;
  }.

  Lemma hmeasure_lt h q : (forall y, In y h -> y < q) -> hmeasure h <= q.
  Proof. destruct h as [|z t]; simpl; [lia|]. intros H. specialize (H z (or_introl eq_refl)). lia. Qed.

  Lemma shift_lt q t y : desc (q :: t) -> In y (shift_to_parents (q :: t) (parents g q)) -> y < q.
  Proof.
    intros D H. apply shift_in in H; [|assumption]. destruct H as [H|[_ H]]; [|assumption].
    now apply W in H.
  Qed.

  Lemma below_parent S q p : below S q -> In p (parents g q) -> below S p.
  Proof.
    intros (s & Hs & Ha) Hp. exists s. split; [assumption|].
    eapply anc_trans; [apply anc_parent; eassumption|assumption].
  Qed.

  (** shifting the strictly larger top of one heap keeps the covering *)
  Lemma shift_cover q t x (other : list nat) :
    desc (q :: t) -> (exists q0, In q0 (q :: t) /\ anc g x q0) -> x < q ->
    exists q0, In q0 (shift_to_parents (q :: t) (parents g q)) /\ anc g x q0.
  Proof.
    intros D (q0 & Hq0 & Ha) L.
    assert (Q : q0 = q \/ (In q0 t /\ q0 < q)).
    { destruct Hq0 as [->|Hq0]; [now left|]. destruct D as [B _]. specialize (B _ Hq0).
      destruct (Nat.eq_dec q0 q); [now left|right; split; [assumption|lia]]. }
    destruct Q as [->|[H1 H2]].
    - assert (S : sanc g x q) by (split; [assumption|lia]).
      destruct (sanc_inv _ _ _ S) as (p & Hp & Hxp). exists p. split; [|assumption].
      apply shift_in; [assumption|]. now left.
    - exists q0. split; [|assumption]. apply shift_in; [assumption|]. right. now split.
  Qed.

  Lemma ca_loop_ok : forall fuel h1 h2 acc,
    cinv h1 h2 acc -> hmeasure h1 + hmeasure h2 < fuel ->
    exists r, ca_loop g fuel h1 h2 acc = Some r /\ sdesc r /\
      (forall x, In x r -> common x) /\ (forall x, common x -> exists y, In y r /\ anc g x y).
  Proof.
    induction fuel as [|fuel IH]; intros h1 h2 acc I F; [lia|].
    assert (Fin : (h1 = [] \/ h2 = []) ->
      exists r, Some (rev acc) = Some r /\ sdesc r /\
        (forall x, In x r -> common x) /\ (forall x, common x -> exists y, In y r /\ anc g x y)).
    { intros E. exists (rev acc). split; [reflexivity|]. split; [apply sasc_rev, (ci_asc _ _ _ I)|].
      split.
      - intros x Hx. apply in_rev in Hx. now apply (ci_acc _ _ _ I).
      - intros x Cx. destruct (ci_cov _ _ _ I x Cx) as [(r & Hr & Ha)|[(q1 & H1 & _) (q2 & H2 & _)]].
        + exists r. split; [now apply in_rev in Hr|assumption].
        + destruct E as [-> | ->]; contradiction. }
    simpl. destruct h1 as [|p1 t1]; [apply Fin; now left|].
    destruct h2 as [|p2 t2]; [apply Fin; now right|]. clear Fin.
    pose proof (ci_d1 _ _ _ I) as D1. pose proof (ci_d2 _ _ _ I) as D2.
    destruct (Nat.compare_spec p1 p2) as [E|L|L].
    - (* equal: a common ancestor *)
      subst p2. apply IH.
      + constructor.
        * now apply dedup_pop_desc.
        * now apply dedup_pop_desc.
        * intros q Hq. apply dedup_pop_in in Hq; [|assumption]. apply (ci_r1 _ _ _ I). now right.
        * intros q Hq. apply dedup_pop_in in Hq; [|assumption]. apply (ci_r2 _ _ _ I). now right.
        * intros r [<-|Hr]; [|now apply (ci_acc _ _ _ I)].
          split; [apply (ci_r1 _ _ _ I)|apply (ci_r2 _ _ _ I)]; now left.
        * intros x Cx.
          destruct (ci_cov _ _ _ I x Cx) as [(r & Hr & Ha)|[(q1 & H1 & A1) (q2 & H2 & A2)]].
          -- left. exists r. split; [now right|assumption].
          -- assert (Q1 : q1 = p1 \/ (In q1 t1 /\ q1 < p1)).
             { destruct H1 as [->|H1]; [now left|]. destruct D1 as [B _]. specialize (B _ H1).
               destruct (Nat.eq_dec q1 p1); [now left|right; split; [assumption|lia]]. }
             assert (Q2 : q2 = p1 \/ (In q2 t2 /\ q2 < p1)).
             { destruct H2 as [->|H2]; [now left|]. destruct D2 as [B _]. specialize (B _ H2).
               destruct (Nat.eq_dec q2 p1); [now left|right; split; [assumption|lia]]. }
             destruct Q1 as [->|Q1]; [left; exists p1; split; [now left|assumption]|].
             destruct Q2 as [->|Q2]; [left; exists p1; split; [now left|assumption]|].
             right. split; [exists q1|exists q2]; (split; [|assumption]);
               (apply dedup_pop_in; assumption).
        * intros r q [<-|Hr] Hq.
          -- apply dedup_pop_in in Hq; [|assumption]. apply Hq.
          -- apply dedup_pop_in in Hq; [|assumption]. apply (ci_o1 _ _ _ I r q Hr). now right.
        * intros r q [<-|Hr] Hq.
          -- apply dedup_pop_in in Hq; [|assumption]. apply Hq.
          -- apply dedup_pop_in in Hq; [|assumption]. apply (ci_o2 _ _ _ I r q Hr). now right.
        * split; [|apply (ci_asc _ _ _ I)]. intros y Hy. apply (ci_o1 _ _ _ I y p1 Hy). now left.
      + assert (hmeasure (dedup_pop (p1 :: t1)) <= p1).
        { apply hmeasure_lt. intros y Hy. apply dedup_pop_in in Hy; [|assumption]. apply Hy. }
        assert (hmeasure (dedup_pop (p1 :: t2)) <= p1).
        { apply hmeasure_lt. intros y Hy. apply dedup_pop_in in Hy; [|assumption]. apply Hy. }
        simpl in F. lia.
    - (* p1 < p2: shift heap 2 *)
      apply IH.
      + constructor; try apply I.
        * now apply shift_desc.
        * intros q Hq. apply shift_in in Hq; [|assumption]. destruct Hq as [Hq|[Hq _]].
          -- eapply below_parent; [|eassumption]. apply (ci_r2 _ _ _ I). now left.
          -- apply (ci_r2 _ _ _ I). now right.
        * intros x Cx.
          destruct (ci_cov _ _ _ I x Cx) as [H|[(q1 & H1 & A1) H2]]; [now left|].
          right. split; [now exists q1|]. apply (shift_cover p2 t2 x t1 D2 H2).
          pose proof (anc_le _ _ _ W A1). pose proof (desc_hd_bound _ _ D1 H1). simpl in *. lia.
        * intros r q Hr Hq. apply shift_lt in Hq; [|assumption].
          pose proof (ci_o2 _ _ _ I r p2 Hr (or_introl eq_refl)). lia.
      + assert (hmeasure (shift_to_parents (p2 :: t2) (parents g p2)) <= p2).
        { apply hmeasure_lt. intros y Hy. now apply shift_lt in Hy. }
        change (hmeasure (p1 :: t1)) with (S p1) in *.
        change (hmeasure (p2 :: t2)) with (S p2) in *. lia.
    - (* p1 > p2: shift heap 1 *)
      apply IH.
      + constructor; try apply I.
        * now apply shift_desc.
        * intros q Hq. apply shift_in in Hq; [|assumption]. destruct Hq as [Hq|[Hq _]].
          -- eapply below_parent; [|eassumption]. apply (ci_r1 _ _ _ I). now left.
          -- apply (ci_r1 _ _ _ I). now right.
        * intros x Cx.
          destruct (ci_cov _ _ _ I x Cx) as [H|[H1 (q2 & H2 & A2)]]; [now left|].
          right. split; [|now exists q2]. apply (shift_cover p1 t1 x t2 D1 H1).
          pose proof (anc_le _ _ _ W A2). pose proof (desc_hd_bound _ _ D2 H2). simpl in *. lia.
        * intros r q Hr Hq. apply shift_lt in Hq; [|assumption].
          pose proof (ci_o1 _ _ _ I r p1 Hr (or_introl eq_refl)). lia.
      + assert (hmeasure (shift_to_parents (p1 :: t1) (parents g p1)) <= p1).
        { apply hmeasure_lt. intros y Hy. now apply shift_lt in Hy. }
        change (hmeasure (p1 :: t1)) with (S p1) in *.
        change (hmeasure (p2 :: t2)) with (S p2) in *. lia.
  Qed.

  Hypothesis R1 : forall s, In s S1 -> s < length g.

  Lemma common_set_in x : In x (common_set g S1 S2) <-> common x.
  Proof.
    unfold common_set. rewrite filter_In, all_pos_in, andb_true_iff.
    fold (anc_any g S1 x). fold (anc_any g S2 x).
    rewrite !anc_any_spec by assumption. unfold common, below. split; [tauto|].
    intros [H1 H2]. split; [|tauto]. destruct H1 as (s & Hs & Ha).
    pose proof (anc_le _ _ _ W Ha). specialize (R1 s Hs). lia.
  Qed.

  Lemma common_ancestors_pos_ok :
    common_ancestors_pos g S1 S2 = Some (spec_common g S1 S2).
  Proof.
    unfold common_ancestors_pos.
    destruct (ca_loop_ok (S (hmeasure (heap_from S1) + hmeasure (heap_from S2)))
                (heap_from S1) (heap_from S2) []) as (r & E & SD & Rc & Rcov); [|lia|].
    - constructor; try apply heap_from_desc.
      + intros q Hq. apply (proj1 (heap_from_in _ _)) in Hq. exists q. split; [assumption|constructor].
      + intros q Hq. apply (proj1 (heap_from_in _ _)) in Hq. exists q. split; [assumption|constructor].
      + intros r [].
      + intros x [(s1 & Hs1 & A1) (s2 & Hs2 & A2)]. right.
        split; [exists s1|exists s2]; (split; [now apply heap_from_in|assumption]).
      + intros r q [].
      + intros r q [].
      + exact I.
    - rewrite E. rewrite heads_pos_ok by assumption. f_equal. unfold spec_common.
      apply sdesc_ext.
      + apply sdesc_filter. assumption.
      + apply sdesc_filter, sdesc_filter, sdesc_all_pos.
      + intros x. rewrite !heads_of_spec by assumption. rewrite common_set_in. split.
        * intros [Hx Hm]. split; [now apply Rc|]. intros y Hy Ha. apply common_set_in in Hy.
          destruct (Rcov y Hy) as (y' & Hy' & Hyy').
          assert (y' = x) by (apply Hm; [assumption|eapply anc_trans; eassumption]).
          subst y'. eapply anc_antisym; eassumption.
        * intros [Cx Hm]. destruct (Rcov x Cx) as (y & Hy & Hxy).
          assert (y = x). { apply Hm; [|assumption]. apply common_set_in. now apply Rc. }
          subst y. split; [assumption|]. intros z Hz Ha. apply Hm; [|assumption].
          apply common_set_in. now apply Rc.
  Qed.
End Common.

(** * all_heads_pos and generation numbers *)

Lemma all_heads_in g x : wf g ->
  (In x (all_heads_pos g) <-> x < length g /\ forall y, ~ In x (parents g y)).
Proof.
  intros W. unfold all_heads_pos. rewrite filter_In, in_seq, negb_true_iff. split.
  - intros [L E]. split; [lia|]. intros y Hy.
    assert (X : existsb (memn x) g = true); [|congruence].
    apply existsb_exists. exists (parents g y). split.
    + unfold parents. apply nth_In. now apply parents_in in Hy.
    + now apply memn_spec.
  - intros [L H]. split; [lia|]. destruct (existsb (memn x) g) eqn:E; [exfalso|reflexivity].
    apply existsb_exists in E. destruct E as (ps & Hps & M). apply memn_spec in M.
    destruct (In_nth _ _ [] Hps) as (y & Ly & Ey). apply (H y). unfold parents. now rewrite Ey.
Qed.

(** A position that is nobody's parent is exactly a maximal element of the whole index. *)
Lemma all_heads_maximal g x : wf g ->
  (In x (all_heads_pos g) <-> In x (heads_of g (all_pos_desc g))).
Proof.
  intros W. rewrite all_heads_in, heads_of_spec by assumption. rewrite all_pos_in. split.
  - intros [L H]. split; [assumption|]. intros y _ Ha.
    destruct (Nat.eq_dec y x) as [E|N]; [assumption|exfalso].
    assert (S : sanc g x y) by (split; [assumption|congruence]).
    clear Ha. destruct S as [Ha N']. induction Ha as [|d p Hp Hxp IH]; [congruence|].
    destruct (Nat.eq_dec x p) as [->|Np]; [exact (H d Hp)|]. apply IH; congruence.
  - intros [L H]. split; [assumption|]. intros y Hy.
    assert (y = x).
    { apply H; [|now apply anc_parent]. apply all_pos_in. now apply parents_in in Hy. }
    subst y. apply W in Hy. lia.
Qed.

(** * statements in terms of the graph *)

Definition maximal_in (g : graph) (P : nat -> Prop) (x : nat) : Prop :=
  P x /\ forall y, P y -> anc g x y -> y = x.
Definition common_of (g : graph) (s1 s2 : list nat) (x : nat) : Prop :=
  (exists s, In s s1 /\ anc g x s) /\ (exists s, In s s2 /\ anc g x s).

Lemma spec_heads_in g cands x : wf g ->
  (In x (spec_heads g cands) <-> maximal_in g (fun y => In y cands) x).
Proof.
  intros W. unfold spec_heads, maximal_in. rewrite heads_of_spec by assumption.
  rewrite dedup_adj_in, heap_from_in. split; intros [H1 H2]; (split; [assumption|]).
  - intros y Hy. apply H2. apply (proj2 (dedup_adj_in _ _)). now apply (proj2 (heap_from_in _ _)).
  - intros y Hy. apply H2. apply (proj1 (dedup_adj_in _ _)) in Hy.
    now apply (proj1 (heap_from_in _ _)) in Hy.
Qed.

Lemma spec_heads_sdesc g cands : sdesc (spec_heads g cands).
Proof. apply sdesc_filter, dedup_adj_sdesc, heap_from_desc. Qed.

Lemma spec_common_in g s1 s2 x : wf g -> (forall s, In s s1 -> s < length g) ->
  (In x (spec_common g s1 s2) <-> maximal_in g (common_of g s1 s2) x).
Proof.
  intros W R. unfold spec_common, maximal_in. rewrite heads_of_spec by assumption.
  rewrite (common_set_in g W s1 s2 R). split; intros [H1 H2]; (split; [assumption|]).
  - intros y Hy. apply H2. now apply (proj2 (common_set_in g W s1 s2 R y)).
  - intros y Hy. apply H2. now apply (proj1 (common_set_in g W s1 s2 R y)) in Hy.
Qed.

Lemma spec_common_sdesc g s1 s2 : sdesc (spec_common g s1 s2).
Proof. apply sdesc_filter, sdesc_filter, sdesc_all_pos. Qed.

Lemma lnat_eqb_spec l1 l2 : lnat_eqb l1 l2 = true <-> l1 = l2.
Proof.
  unfold lnat_eqb. revert l2. induction l1 as [|x t IH]; intros [|y t2]; simpl;
    try (split; [discriminate|discriminate]); [tauto|].
  rewrite andb_true_iff, Nat.eqb_eq, IH. split; [intros [-> ->]; reflexivity|].
  intros E. inversion E. tauto.
Qed.

Lemma in_range_spec g l : in_range g l = true <-> forall x, In x l -> x < length g.
Proof.
  unfold in_range. rewrite forallb_forall. split; intros H x Hx.
  - now apply Nat.ltb_lt, H.
  - now apply Nat.ltb_lt, H.
Qed.

(** What the checker's verdict means for one recorded answer. *)
Definition query_holds (g : graph) (q : query) : Prop :=
  match q with
  | QAnc a d r => r = true <-> anc g a d
  | QHeads c r => sdesc r /\ forall x, In x r <-> maximal_in g (fun y => In y c) x
  | QCommon s1 s2 r => sdesc r /\ forall x, In x r <-> maximal_in g (common_of g s1 s2) x
  | QGen x r => r = list_max (map (fun p => S (gen g p)) (parents g x))
  | QAllHeads r => sdesc (rev r) /\
                   forall x, In x r <-> x < length g /\ forall y, ~ In x (parents g y)
  | QHeadsRange rs hs lo hi fs r =>
      lo = 0 -> (forall i, length (parents g i) <= hi) ->
      sdesc r /\
      forall x, In x r <->
        maximal_in g (fun y => y < length g /\ (exists h, In h hs /\ anc g y h) /\
                               ~ (exists r0, In r0 rs /\ anc g y r0) /\
                               match fs with Some l => In y l | None => True end) x
  end.

Lemma query_ok_sound g q : wf g -> query_ok g q = true -> query_holds g q.
Proof.
  intros W. destruct q as [a d r|c r|s1 s2 r|x r|r|rs hs lo hi fs r]; simpl.
  6:{ intros H Hlo Hhi.
      assert (C : (lo =? 0) && forallb (fun ps => length ps <=? hi) g = true).
      { apply andb_true_iff. split; [now apply Nat.eqb_eq|]. apply forallb_forall. intros ps Hps.
        apply Nat.leb_le. destruct (In_nth _ _ [] Hps) as (i & _ & <-). apply Hhi. }
      rewrite C in H. rewrite !andb_true_iff in H. destruct H as [[E _] _].
      apply lnat_eqb_spec in E. subst r. unfold spec_heads_range.
      split; [apply sdesc_filter, sdesc_filter, sdesc_all_pos|].
      intros x. rewrite heads_of_spec by assumption. unfold maximal_in.
      assert (M : forall y, In y (filter (fun x0 => anc_any_t (ancsets g) hs x0 &&
                     negb (anc_any_t (ancsets g) rs x0) &&
                     match fs with Some l => fun x1 => memn x1 l | None => fun _ => true end x0)
                     (all_pos_desc g)) <->
                 (y < length g /\ (exists h, In h hs /\ anc g y h) /\
                  ~ (exists r0, In r0 rs /\ anc g y r0) /\
                  match fs with Some l => In y l | None => True end)).
      { intros y. rewrite filter_In, all_pos_in, !andb_true_iff, negb_true_iff.
        fold (anc_any g hs y). fold (anc_any g rs y).
        rewrite anc_any_spec by assumption.
        assert (E : anc_any g rs y = false <-> ~ (exists r0, In r0 rs /\ anc g y r0)).
        { rewrite <- Bool.not_true_iff_false, anc_any_spec by assumption. tauto. }
        rewrite E. destruct fs as [l|]; [rewrite memn_spec|]; intuition. }
      split; intros [H1 H2]; (split; [now apply M|]); intros y Hy; apply H2; now apply M. }
  - rewrite andb_true_iff. intros [E _]. apply eqb_prop in E. subst r. now apply ancb_spec.
  - rewrite andb_true_iff. intros [E _]. apply lnat_eqb_spec in E. subst r.
    split; [apply spec_heads_sdesc|]. intros x. now apply spec_heads_in.
  - rewrite !andb_true_iff. intros [[E R1] _]. apply lnat_eqb_spec in E. subst r.
    split; [apply spec_common_sdesc|]. intros x. apply spec_common_in; [assumption|].
    now apply in_range_spec.
  - intros E. now apply Nat.eqb_eq in E.
  - intros E. apply lnat_eqb_spec in E. subst r. split.
    + rewrite rev_involutive. apply sdesc_filter, sdesc_all_pos.
    + intros x. rewrite <- in_rev, <- all_heads_maximal by assumption. now apply all_heads_in.
Qed.

(** The model's [all_heads_pos] is that ascending list. *)
Lemma sdesc_rev_seq_filter (f : nat -> bool) n : sdesc (rev (filter f (seq 0 n))).
Proof.
  induction n as [|n IH]; [exact I|]. rewrite seq_S, filter_app, rev_app_distr. simpl.
  destruct (f n); simpl; [|assumption]. split; [|assumption].
  intros y Hy. apply in_rev, filter_In in Hy. destruct Hy as [Hy _]. apply in_seq in Hy. lia.
Qed.

Lemma all_heads_pos_ok g : wf g -> all_heads_pos g = rev (heads_of g (all_pos_desc g)).
Proof.
  intros W. rewrite <- (rev_involutive (all_heads_pos g)). f_equal. apply sdesc_ext.
  - apply sdesc_rev_seq_filter.
  - apply sdesc_filter, sdesc_all_pos.
  - intros x. rewrite <- in_rev. now apply all_heads_maximal.
Qed.

(** On a well-formed index with in-range arguments the model and the checker agree, i.e. the
    checker accepts exactly the model's answer. *)
Lemma query_corr_iff_ok g q : wf g ->
  match q with
  | QAnc a d _ => d < length g /\ a < length g
  | QHeads c _ => forall x, In x c -> x < length g
  | QCommon s1 s2 _ => (forall x, In x s1 -> x < length g) /\ (forall x, In x s2 -> x < length g)
  | QHeadsRange _ _ _ _ _ _ => False
  | _ => True
  end ->
  query_corr g q = query_ok g q.
Proof.
  intros W. destruct q as [a d r|c r|s1 s2 r|x r|r|rs hs lo hi fs r]; simpl; [| | | | |intros []].
  - intros [Ld La]. rewrite (is_ancestor_pos_ok g W a d Ld). simpl.
    destruct (Nat.ltb_spec a (length g)); [|lia]. destruct (Nat.ltb_spec d (length g)); [|lia].
    simpl. now rewrite andb_true_r.
  - intros R. rewrite heads_ok by assumption. simpl.
    rewrite (proj2 (in_range_spec g c) R). now rewrite andb_true_r.
  - intros [R1 R2]. rewrite common_ancestors_pos_ok by assumption. simpl.
    rewrite (proj2 (in_range_spec g s1) R1), (proj2 (in_range_spec g s2) R2).
    now rewrite !andb_true_r.
  - intros _. rewrite <- gen_spec by assumption. apply Nat.eqb_sym.
  - intros _. now rewrite all_heads_pos_ok.
Qed.

(** * statements as pinned in Props/C18.v *)
Lemma generation_thm : forall (g : graph), wf g ->
  (forall i, gen g i = list_max (map (fun p => S (gen g p)) (parents g i))) /\
  (forall i p, In p (parents g i) -> gen g p < gen g i) /\
  (forall a d, anc g a d -> a <> d -> gen g a < gen g d) /\
  (forall ps, gens (g ++ [ps]) = gens g ++ [gen_of (gens g) ps]).
Proof.
  intros g W. split; [exact (gen_spec g W)|]. split; [intros i p; now apply gen_parent_lt|].
  split; [intros a d H N; apply gen_sanc_lt; [assumption|now split]|]. exact (gens_snoc g).
Qed.

Lemma is_ancestor_thm : forall (g : graph) (a d : nat), wf g -> d < length g ->
  exists b, is_ancestor_pos g a d = Some b /\ (b = true <-> anc g a d).
Proof.
  intros g a d W L. exists (ancb g a d). split; [now apply is_ancestor_pos_ok|].
  now apply ancb_spec.
Qed.

Lemma heads_pos_thm : forall (g : graph) (cands : list nat), wf g -> sdesc cands ->
  heads_pos g cands = Some (heads_of g cands) /\
  forall x, In x (heads_of g cands) <-> maximal_in g (fun y => In y cands) x.
Proof.
  intros g cands W SD. split; [now apply heads_pos_ok|]. intros x. now apply heads_of_spec.
Qed.

Lemma heads_thm : forall (g : graph) (cands : list nat), wf g ->
  exists r, heads g cands = Some r /\ sdesc r /\
    forall x, In x r <-> maximal_in g (fun y => In y cands) x.
Proof.
  intros g cands W. exists (spec_heads g cands). split; [now apply heads_ok|].
  split; [apply spec_heads_sdesc|]. intros x. now apply spec_heads_in.
Qed.

Lemma common_ancestors_thm : forall (g : graph) (s1 s2 : list nat), wf g ->
  (forall s, In s s1 -> s < length g) ->
  exists r, common_ancestors_pos g s1 s2 = Some r /\ sdesc r /\
    forall x, In x r <-> maximal_in g (common_of g s1 s2) x.
Proof.
  intros g s1 s2 W R. exists (spec_common g s1 s2).
  split; [now apply common_ancestors_pos_ok|]. split; [apply spec_common_sdesc|].
  intros x. now apply spec_common_in.
Qed.

Lemma all_heads_thm : forall (g : graph), wf g ->
  all_heads_pos g = rev (heads_of g (all_pos_desc g)) /\
  forall x, In x (all_heads_pos g) <-> x < length g /\ forall y, ~ In x (parents g y).
Proof.
  intros g W. split; [now apply all_heads_pos_ok|]. intros x. now apply all_heads_in.
Qed.

(** * the segment stack is the flat index *)
Lemma num_commits_flat st : num_commits st = length (flat st).
Proof.
  unfold num_commits, flat. induction st as [|seg st IH]; simpl; [reflexivity|].
  rewrite concat_app, app_length, <- IH. simpl. rewrite app_nil_r. lia.
Qed.

Lemma flat_cons seg st : flat (seg :: st) = flat st ++ seg.
Proof. unfold flat. simpl. rewrite concat_app. simpl. now rewrite app_nil_r. Qed.

Lemma entry_by_pos_flat st : forall pos, entry_by_pos st pos = nth_error (flat st) pos.
Proof.
  induction st as [|seg st IH]; intros pos; simpl.
  - unfold flat. simpl. now destruct pos.
  - rewrite flat_cons, num_commits_flat. destruct (Nat.leb_spec (length (flat st)) pos) as [L|L].
    + now rewrite nth_error_app2.
    + rewrite nth_error_app1 by assumption. apply IH.
Qed.

Lemma find_local_spec id seg : forall i l, find_local id seg i = Some l ->
  i <= l /\ nth_error seg (l - i) = Some (fst (nth (l - i) seg (0%N, [])), snd (nth (l - i) seg (0%N, [])))
  /\ fst (nth (l - i) seg (0%N, [])) = id /\ l - i < length seg.
Proof.
  induction seg as [|e r IH]; intros i l; simpl; [discriminate|].
  destruct (N.eqb_spec (fst e) id) as [E|N].
  - intros H. injection H as <-. rewrite Nat.sub_diag. simpl. repeat split; try lia; try assumption.
    now destruct e.
  - intros H. apply IH in H. destruct H as (H1 & H2 & H3 & H4).
    replace (l - i) with (S (l - S i)) by lia. simpl. repeat split; try lia; assumption.
Qed.

Lemma find_local_none id seg : forall i, find_local id seg i = None -> forall e, In e seg -> fst e <> id.
Proof.
  induction seg as [|e r IH]; intros i H e' He'; [contradiction|]. simpl in H.
  destruct (N.eqb_spec (fst e) id) as [E|N]; [discriminate|].
  destruct He' as [<-|He']; [assumption|]. eapply IH; eassumption.
Qed.

(** commit_id_to_pos returns a position whose flat entry carries that id; [None] means the id
    is nowhere in the index *)
Lemma commit_id_to_pos_some st id : forall p, commit_id_to_pos st id = Some p ->
  p < length (flat st) /\ exists ps, nth_error (flat st) p = Some (id, ps).
Proof.
  induction st as [|seg st IH]; intros p; simpl; [discriminate|].
  rewrite flat_cons, app_length. destruct (find_local id seg 0) as [l|] eqn:F.
  - intros H. injection H as <-. apply find_local_spec in F. destruct F as (_ & F2 & F3 & F4).
    rewrite Nat.sub_0_r in *. rewrite num_commits_flat. split; [lia|].
    rewrite nth_error_app2 by lia. replace (l + length (flat st) - length (flat st)) with l by lia.
    rewrite F2, F3. eauto.
  - intros H. destruct (IH p H) as [L (ps & E)]. split; [lia|]. exists ps.
    now rewrite nth_error_app1.
Qed.

Lemma commit_id_to_pos_none st id : commit_id_to_pos st id = None ->
  forall e, In e (flat st) -> fst e <> id.
Proof.
  induction st as [|seg st IH]; simpl; intros H e He; [now unfold flat in He|].
  rewrite flat_cons in He. destruct (find_local id seg 0) eqn:F; [discriminate|].
  apply in_app_or in He. destruct He as [He|He]; [now apply IH|].
  eapply find_local_none; eassumption.
Qed.

Lemma all_some_spec {A} (l : list (option A)) xs : all_some l = Some xs -> l = map Some xs.
Proof.
  revert xs. induction l as [|o l IH]; intros xs; simpl.
  - intros H. injection H as <-. reflexivity.
  - destruct o as [x|]; [|discriminate]. destruct (all_some l) as [ys|]; [|discriminate].
    intros H. injection H as <-. simpl. f_equal. now apply IH.
Qed.

(** add_commit_data appends one entry to the flat index (or leaves it alone when the id is
    known); every recorded parent position is an existing, smaller position: the index
    invariant [wf] is preserved *)
Lemma add_commit_data_flat st id pids st' : add_commit_data st id pids = Some st' ->
  (flat st' = flat st /\ commit_id_to_pos st id <> None) \/
  (exists ps, flat st' = flat st ++ [(id, ps)] /\ (forall p, In p ps -> p < length (flat st)) /\
              map (commit_id_to_pos st) pids = map Some ps).
Proof.
  unfold add_commit_data. destruct (commit_id_to_pos st id) eqn:E.
  - intros H. injection H as <-. left. split; [reflexivity|discriminate].
  - destruct (all_some (map (commit_id_to_pos st) pids)) as [ps|] eqn:A; [|discriminate].
    apply all_some_spec in A. intros H. right. exists ps. split; [|split; [|assumption]].
    + destruct st as [|top rest]; injection H as <-.
      * reflexivity.
      * rewrite !flat_cons. now rewrite app_assoc.
    + intros p Hp. assert (Hin : In (Some p) (map (commit_id_to_pos st) pids)).
      { rewrite A. now apply in_map. }
      apply in_map_iff in Hin. destruct Hin as (pid & Hpid & _).
      now apply commit_id_to_pos_some in Hpid.
Qed.

Lemma add_commit_data_wf st id pids st' :
  wf (flat_graph st) -> add_commit_data st id pids = Some st' -> wf (flat_graph st').
Proof.
  intros W H. destruct (add_commit_data_flat _ _ _ _ H) as [[E _]|(ps & E & B & _)];
    unfold flat_graph in *; rewrite E; [assumption|].
  rewrite map_app. simpl. apply wf_snoc. split; [assumption|]. intros p Hp.
  rewrite map_length. now apply B.
Qed.

(** squashing never changes the flat index, and on sizes it is [squash_sizes] *)
Lemma squash_segs_flat : forall files top, flat (squash_segs top files) = flat (top :: files).
Proof.
  induction files as [|f rest IH]; intros top; cbn [squash_segs]; [reflexivity|].
  destruct (C18_SQUASH_FACTOR * length top <? length f); [reflexivity|].
  rewrite IH, !flat_cons. now rewrite app_assoc.
Qed.

Lemma squash_segs_sizes : forall files top,
  map (@length sentry) (squash_segs top files) = squash_sizes (length top) (map (@length sentry) files).
Proof.
  induction files as [|f rest IH]; intros top; cbn [squash_segs squash_sizes map]; [reflexivity|].
  destruct (C18_SQUASH_FACTOR * length top <? length f); [reflexivity|].
  rewrite IH, app_length. f_equal. lia.
Qed.

Lemma squash_sizes_sum : forall files n, list_sum (squash_sizes n files) = n + list_sum files.
Proof.
  induction files as [|f rest IH]; intros n; cbn [squash_sizes]; [simpl; lia|].
  destruct (C18_SQUASH_FACTOR * n <? f); [simpl; lia|]. rewrite IH. simpl. lia.
Qed.

Lemma squash_sizes_top : forall files n x y r, squash_sizes n files = x :: y :: r -> 2 * x < y.
Proof.
  induction files as [|f rest IH]; intros n x y r; cbn [squash_sizes]; [discriminate|].
  change C18_SQUASH_FACTOR with 2%nat.
  destruct (Nat.ltb_spec (2 * n) f) as [L|L].
  - intros H. injection H as <- <- _. assumption.
  - apply IH.
Qed.

Lemma squash_sizes_head : forall files n x r, squash_sizes n files = x :: r -> n <= x.
Proof.
  induction files as [|f rest IH]; intros n x r; cbn [squash_sizes].
  - intros H. injection H. lia.
  - destruct (C18_SQUASH_FACTOR * n <? f); [intros H; injection H; lia|]. intros H. apply IH in H. lia.
Qed.

(** the checker's meaning for a recorded transaction *)
Lemma level_corr_ok o : level_corr o = true -> level_ok o = true.
Proof.
  destruct o as [[before added] after]. unfold level_corr, level_ok.
  intros H. apply lnat_eqb_spec in H. subst after.
  assert (S : list_sum (rev (saved_levels added (rev before))) = list_sum before + added).
  { assert (R : forall l, list_sum (rev l) = list_sum l).
    { induction l as [|x l IH]; simpl; [reflexivity|]. rewrite list_sum_app, IH. simpl. lia. }
    rewrite R. unfold saved_levels.
    pose proof (squash_sizes_sum (rev before) added) as E. rewrite R in E.
    destruct (squash_sizes added (rev before)) as [|[|x] [|y r]] eqn:Q; simpl in *; lia. }
  rewrite S, Nat.eqb_refl, rev_involutive. simpl. unfold saved_levels.
  destruct (squash_sizes added (rev before)) as [|x [|y r]] eqn:Q; try reflexivity.
  - destruct x; reflexivity.
  - pose proof (squash_sizes_top _ _ _ _ _ Q) as T. destruct x as [|x].
    + (* an empty mutable segment was dropped: nothing was added *)
      assert (added = 0) by (apply squash_sizes_head in Q; lia).
      subst added. destruct r as [|z r']; [reflexivity|]. rewrite orb_true_r. reflexivity.
    + apply orb_true_iff. left. apply Nat.ltb_lt. lia.
Qed.

Lemma abs_flat_thm :
  (forall st pos, entry_by_pos st pos = nth_error (flat st) pos) /\
  (forall st id p, commit_id_to_pos st id = Some p ->
     p < length (flat st) /\ exists ps, nth_error (flat st) p = Some (id, ps)) /\
  (forall st id, commit_id_to_pos st id = None -> forall e, In e (flat st) -> fst e <> id) /\
  (forall st id pids st', add_commit_data st id pids = Some st' ->
     (flat st' = flat st /\ commit_id_to_pos st id <> None) \/
     (exists ps, flat st' = flat st ++ [(id, ps)] /\ (forall p, In p ps -> p < length (flat st)) /\
                 map (commit_id_to_pos st) pids = map Some ps)) /\
  (forall st id pids st', wf (flat_graph st) -> add_commit_data st id pids = Some st' ->
     wf (flat_graph st')) /\
  (forall files top, flat (squash_segs top files) = flat (top :: files) /\
     map (@length sentry) (squash_segs top files) =
     squash_sizes (length top) (map (@length sentry) files)).
Proof.
  split; [exact entry_by_pos_flat|]. split; [exact commit_id_to_pos_some|].
  split; [exact commit_id_to_pos_none|]. split; [exact add_commit_data_flat|].
  split; [exact add_commit_data_wf|]. intros files top.
  split; [apply squash_segs_flat|apply squash_segs_sizes].
Qed.

Lemma squash_thm :
  (forall files n, list_sum (squash_sizes n files) = n + list_sum files) /\
  (forall files n x y r, squash_sizes n files = x :: y :: r -> 2 * x < y) /\
  (forall o, level_corr o = true -> level_ok o = true).
Proof. split; [exact squash_sizes_sum|]. split; [exact squash_sizes_top|exact level_corr_ok]. Qed.

(** * merging another index in *)
Lemma merge_in_fold_none other : forall todo, fold_left (fun acc (e : sentry) =>
    match acc with
    | Some s => add_commit_data s (fst e) (ids_of_parents other (snd e))
    | None => None
    end) todo None = None.
Proof. induction todo as [|e l IH]; simpl; [reflexivity|assumption]. Qed.

(** merge_in keeps every own entry at its position, only appends, and keeps the index
    well-formed; every id of the other index ends up indexed *)
Lemma merge_in_spec other : forall todo st st',
  fold_left (fun acc (e : sentry) =>
    match acc with
    | Some s => add_commit_data s (fst e) (ids_of_parents other (snd e))
    | None => None
    end) todo (Some st) = Some st' ->
  wf (flat_graph st) ->
  wf (flat_graph st') /\ (exists more, flat st' = flat st ++ more) /\
  (forall e, In e todo -> commit_id_to_pos st' (fst e) <> None).
Proof.
  induction todo as [|e todo IH]; intros st st' H W; simpl in H.
  - injection H as <-. split; [assumption|]. split; [exists []; now rewrite app_nil_r|intros e []].
  - destruct (add_commit_data st (fst e) (ids_of_parents other (snd e))) as [s1|] eqn:A.
    + pose proof (add_commit_data_wf _ _ _ _ W A) as W1.
      destruct (IH s1 st' H W1) as (W' & (more & Em) & Hin).
      split; [assumption|]. split.
      * destruct (add_commit_data_flat _ _ _ _ A) as [[E _]|(ps & E & _)].
        -- exists more. now rewrite Em, E.
        -- exists ([(fst e, ps)] ++ more). now rewrite Em, E, <- app_assoc.
      * intros e' [<-|He']; [|now apply Hin].
        (* the id is known right after its own step, and positions are only appended *)
        assert (K1 : commit_id_to_pos s1 (fst e) <> None).
        { destruct (add_commit_data_flat _ _ _ _ A) as [[E K]|(ps & E & _)].
          - unfold add_commit_data in A. destruct (commit_id_to_pos st (fst e)) eqn:C; [|congruence].
            injection A as <-. congruence.
          - intros C. apply (commit_id_to_pos_none s1 (fst e) C (fst e, ps)); [|reflexivity].
            rewrite E. apply in_or_app. right. now left. }
        intros C. destruct (commit_id_to_pos s1 (fst e)) as [p|] eqn:C1; [|congruence].
        destruct (commit_id_to_pos_some _ _ _ C1) as (Lp & ps & Hn).
        apply (commit_id_to_pos_none st' (fst e) C (fst e, ps)); [|reflexivity].
        rewrite Em. apply in_or_app. left. now apply nth_error_In in Hn.
    + now rewrite merge_in_fold_none in H.
Qed.

Lemma merge_thm : forall st other st', merge_in st other = Some st' -> wf (flat_graph st) ->
  wf (flat_graph st') /\ (exists more, flat st' = flat st ++ more) /\
  (forall e, In e other -> commit_id_to_pos st' (fst e) <> None).
Proof. intros st other st'. apply merge_in_spec. Qed.

(** * heads_from_range_and_filter with every parent followed *)
Section HeadsRange.
  Variable g : graph.
  Hypothesis W : wf g.
  Variables rs hs : list nat.
  Variable flt : nat -> bool.
  Variable hi : nat.
  Hypothesis Hhi : forall i, length (parents g i) <= hi.

  Lemma slice_all i : slice_range 0 hi (parents g i) = parents g i.
  Proof. unfold slice_range. simpl. rewrite Nat.sub_0_r. apply firstn_all2, Hhi. Qed.

  Definition inH (x : nat) : Prop := exists h, In h hs /\ anc g x h.
  Definition inR (x : nat) : Prop := exists r, In r rs /\ anc g x r.
  Definition unw (F : list nat) (x : nat) : Prop := inR x \/ exists f, In f F /\ sanc g x f.
  Definition inT (x : nat) : Prop := inH x /\ ~ inR x /\ flt x = true.
  Definition coverU (U F : list nat) (k : nat) : Prop :=
    forall x, x < k -> unw F x -> exists u, In u U /\ anc g x u.

  Lemma unw_anc F x y : anc g x y -> unw F y -> unw F x.
  Proof.
    intros Ha [(r & Hr & Hy)|(f & Hf & Hy)].
    - left. exists r. split; [assumption|]. eapply anc_trans; eassumption.
    - right. exists f. split; [assumption|]. eapply anc_sanc_trans; eassumption.
  Qed.

  Lemma unw_mono F f x : unw F x -> unw (f :: F) x.
  Proof. intros [H|(f' & Hf & H)]; [now left|right; exists f'; split; [now right|assumption]]. Qed.

  Lemma shiftU_cover q t F k k' : desc (q :: t) -> coverU (q :: t) F k ->
    (forall x, x < k' -> x < k /\ x <> q) ->
    coverU (shift_to_parents (q :: t) (parents g q)) F k'.
  Proof.
    intros D Cv Hk x Hx Ux. destruct (Hk x Hx) as [Lx Nx].
    destruct (Cv x Lx Ux) as (u & Hu & Ha).
    assert (Q : u = q \/ (In u t /\ u < q)).
    { destruct Hu as [->|Hu]; [now left|]. destruct D as [B _]. specialize (B _ Hu).
      destruct (Nat.eq_dec u q); [now left|right; split; [assumption|lia]]. }
    destruct Q as [->|[H1 H2]].
    - destruct (sanc_inv g x q (conj Ha Nx)) as (p & Hp & Hxp). exists p. split; [|assumption].
      apply shift_in; [assumption|]. now left.
    - exists u. split; [|assumption]. apply shift_in; [assumption|]. right. now split.
  Qed.

  Lemma shift_until_ok F w : forall fuel U,
    desc U -> hd 0 U < fuel -> (forall u, In u U -> unw F u) -> coverU U F (S w) ->
    exists U' b, shift_until g fuel U w = Some (U', b) /\ desc U' /\
      (forall u, In u U' -> unw F u) /\
      (if b then unw F w /\ coverU U' F w
       else (forall u, In u U' -> u < w) /\ coverU U' F (S w)).
  Proof.
    induction fuel as [|fuel IH]; intros U D Fu Su Cv; [lia|].
    simpl. destruct U as [|q t].
    - exists [], false. repeat split; try assumption. intros u [].
    - destruct (Nat.ltb_spec q w) as [L|L].
      + exists (q :: t), false. split; [reflexivity|]. split; [assumption|]. split; [assumption|].
        split; [|assumption]. intros u [<-|Hu]; [assumption|]. destruct D as [B _]. apply B in Hu. lia.
      + assert (D' : desc (shift_to_parents (q :: t) (parents g q))) by now apply shift_desc.
        assert (Su' : forall u, In u (shift_to_parents (q :: t) (parents g q)) -> unw F u).
        { intros u Hu. apply shift_in in Hu; [|assumption]. destruct Hu as [Hu|[Hu _]].
          - apply (unw_anc F u q); [now apply anc_parent|]. apply Su. now left.
          - apply Su. now right. }
        destruct (Nat.eqb_spec q w) as [E|N].
        * subst q. exists (shift_to_parents (w :: t) (parents g w)), true.
          split; [reflexivity|]. split; [assumption|]. split; [assumption|].
          split; [apply Su; now left|]. eapply shiftU_cover; [assumption|eassumption|].
          intros x Hx. lia.
        * apply IH; try assumption.
          -- simpl in Fu. destruct (shift_to_parents (q :: t) (parents g q)) as [|z zs] eqn:Es; simpl; [lia|].
             assert (z < q); [|lia]. assert (Hz : In z (shift_to_parents (q :: t) (parents g q))) by (rewrite Es; now left).
             apply shift_in in Hz; [|assumption]. destruct Hz as [Hz|[_ Hz]]; [now apply W in Hz|assumption].
          -- eapply shiftU_cover; [assumption|eassumption|]. intros x Hx. lia.
  Qed.

  Record hinv (Wd U F : list nat) : Prop := {
    hi_dw : desc Wd;
    hi_du : desc U;
    hi_su : forall u, In u U -> unw F u;
    hi_sw : forall w, In w Wd -> inH w;
    hi_cu : forall w, In w Wd -> coverU U F (S w);
    hi_cw : forall x, inH x ->
            (exists w, In w Wd /\ anc g x w) \/ unw F x \/ In x F \/
            (flt x = false /\ forall w, In w Wd -> w < x);
    hi_f : forall f, In f F -> inT f /\ (forall f', In f' F -> ~ sanc g f f');
    hi_fw : forall f w, In f F -> In w Wd -> w < f;
    hi_fs : sasc F;
  }.

  Lemma coverU_mono U F k k' : k' <= k -> coverU U F k -> coverU U F k'.
  Proof. intros L C x Hx. apply C. lia. Qed.

  Lemma hrf_loop_ok : forall fuel Wd U F,
    hinv Wd U F -> hmeasure Wd < fuel ->
    exists r, hrf_loop g 0 hi flt fuel Wd U F = Some r /\ sdesc r /\
      (forall x, In x r -> inT x /\ forall f', In f' r -> ~ sanc g x f') /\
      (forall x, inH x -> unw r x \/ In x r \/ flt x = false).
  Proof.
    induction fuel as [|fuel IH]; intros Wd U F I Fu; [lia|].
    cbn [hrf_loop]. destruct Wd as [|w t].
    - exists (rev F). split; [reflexivity|]. split; [apply sasc_rev, (hi_fs _ _ _ I)|]. split.
      + intros x Hx. apply in_rev in Hx. destruct (hi_f _ _ _ I x Hx) as [T1 T2]. split; [assumption|].
        intros f' Hf'. apply T2. now apply in_rev.
      + intros x Hx. destruct (hi_cw _ _ _ I x Hx) as [(w & [] & _)|[H|[H|[H _]]]].
        * left. destruct H as [H|(f & Hf & Hs)]; [now left|right; exists f; split; [now apply in_rev in Hf|assumption]].
        * right. left. now apply in_rev in H.
        * right. now right.
    - pose proof (hi_dw _ _ _ I) as Dw. pose proof (hi_du _ _ _ I) as Du.
      assert (Fu' : hd 0 U < top_fuel U) by (unfold top_fuel; lia).
      destruct (shift_until_ok F w _ U Du Fu' (hi_su _ _ _ I) (hi_cu _ _ _ I w (or_introl eq_refl)))
        as (U' & b & E & Du' & Su' & Rb).
      rewrite E.
      assert (Hpop : forall y, In y (dedup_pop (w :: t)) <-> In y t /\ y < w).
      { intros y. now apply dedup_pop_in. }
      assert (Mpop : hmeasure (dedup_pop (w :: t)) <= w).
      { apply hmeasure_lt. intros y Hy. now apply Hpop in Hy. }
      destruct b.
      + (* w is an ancestor of a root or of a found head: dropped *)
        destruct Rb as [Uw Cv'].
        apply IH; [|simpl in Fu; lia]. constructor; try assumption.
        * now apply dedup_pop_desc.
        * intros y Hy. apply Hpop in Hy. apply (hi_sw _ _ _ I). now right.
        * intros y Hy. apply Hpop in Hy. eapply coverU_mono; [|exact Cv']. lia.
        * intros x Hx. destruct (hi_cw _ _ _ I x Hx) as [(w0 & Hw0 & Ha)|[H|[H|[H1 H2]]]].
          -- assert (Q : w0 = w \/ (In w0 t /\ w0 < w)).
             { destruct Hw0 as [->|Hw0]; [now left|]. destruct Dw as [B _]. specialize (B _ Hw0).
               destruct (Nat.eq_dec w0 w); [now left|right; split; [assumption|lia]]. }
             destruct Q as [->|Q]; [right; left; now apply (unw_anc F x w)|].
             left. exists w0. split; [now apply Hpop|assumption].
          -- right. now left.
          -- right. right. now left.
          -- right. right. right. split; [assumption|]. intros y Hy. apply Hpop in Hy. apply H2. now right.
        * apply (hi_f _ _ _ I).
        * intros f y Hf Hy. apply Hpop in Hy. apply (hi_fw _ _ _ I f y Hf). now right.
        * apply (hi_fs _ _ _ I).
      + destruct Rb as [Lt Cv'].
        assert (Nw : ~ unw F w).
        { intros C. destruct (Cv' w (Nat.lt_succ_diag_r w) C) as (u & Hu & Ha).
          apply Lt in Hu. apply (anc_le _ _ _ W) in Ha. lia. }
        destruct (flt w) eqn:Ew.
        * (* a head *)
          apply IH; [|simpl in Fu; lia]. constructor.
          -- now apply dedup_pop_desc.
          -- now apply hextend_desc.
          -- intros u Hu. apply hextend_in in Hu. destruct Hu as [Hu|Hu].
             ++ right. exists w. split; [now left|]. split; [now apply anc_parent|]. apply W in Hu. lia.
             ++ apply unw_mono. now apply Su'.
          -- intros y Hy. apply Hpop in Hy. apply (hi_sw _ _ _ I). now right.
          -- intros y Hy x Hx Ux. apply Hpop in Hy.
             destruct Ux as [Ux|(f & [<-|Hf] & Hs)].
             ++ destruct (Cv' x) as (u & Hu & Ha); [lia|now left|]. exists u. split; [|assumption].
                apply hextend_in. now right.
             ++ destruct (sanc_inv _ _ _ Hs) as (p & Hp & Hxp). exists p. split; [|assumption].
                apply hextend_in. now left.
             ++ destruct (Cv' x) as (u & Hu & Ha); [lia|right; now exists f|]. exists u. split; [|assumption].
                apply hextend_in. now right.
          -- intros x Hx. destruct (hi_cw _ _ _ I x Hx) as [(w0 & Hw0 & Ha)|[H|[H|[H1 H2]]]].
             ++ assert (Q : w0 = w \/ (In w0 t /\ w0 < w)).
                { destruct Hw0 as [->|Hw0]; [now left|]. destruct Dw as [B _]. specialize (B _ Hw0).
                  destruct (Nat.eq_dec w0 w); [now left|right; split; [assumption|lia]]. }
                destruct Q as [->|Q].
                ** destruct (Nat.eq_dec x w) as [->|N]; [right; right; left; now left|].
                   right. left. right. exists w. split; [now left|now split].
                ** left. exists w0. split; [now apply Hpop|assumption].
             ++ right. left. now apply unw_mono.
             ++ right. right. left. now right.
             ++ right. right. right. split; [assumption|]. intros y Hy. apply Hpop in Hy. apply H2. now right.
          -- intros f [<-|Hf].
             ++ split.
                ** split; [apply (hi_sw _ _ _ I); now left|]. split; [|assumption].
                   intros C. apply Nw. now left.
                ** intros f' [<-|Hf'] S0; [destruct S0; congruence|].
                   apply Nw. right. exists f'. split; [assumption|exact S0].
             ++ destruct (hi_f _ _ _ I f Hf) as [T1 T2]. split; [assumption|].
                intros f' [<-|Hf'] S0; [|now apply (T2 f')].
                pose proof (hi_fw _ _ _ I f w Hf (or_introl eq_refl)). apply (sanc_lt _ _ _ W) in S0. lia.
          -- intros f y [<-|Hf] Hy; apply Hpop in Hy; [lia|]. apply (hi_fw _ _ _ I f y Hf). now right.
          -- split; [|apply (hi_fs _ _ _ I)]. intros y Hy. apply (hi_fw _ _ _ I y w Hy). now left.
        * (* not selected: its parents become wanted *)
          rewrite slice_all.
          assert (Hsh : forall y, In y (shift_to_parents (w :: t) (parents g w)) <->
                                  In y (parents g w) \/ (In y t /\ y < w)).
          { intros y. now apply shift_in. }
          assert (Lsh : forall y, In y (shift_to_parents (w :: t) (parents g w)) -> y < w).
          { intros y Hy. apply Hsh in Hy. destruct Hy as [Hy|[_ Hy]]; [now apply W in Hy|assumption]. }
          apply IH.
          -- constructor; try assumption.
             ++ now apply shift_desc.
             ++ intros y Hy. apply Hsh in Hy. destruct Hy as [Hy|[Hy _]].
                ** destruct (hi_sw _ _ _ I w (or_introl eq_refl)) as (h & Hh & Ha). exists h.
                   split; [assumption|]. eapply anc_trans; [apply anc_parent; eassumption|assumption].
                ** apply (hi_sw _ _ _ I). now right.
             ++ intros y Hy. apply Lsh in Hy. eapply coverU_mono; [|exact Cv']. lia.
             ++ intros x Hx. destruct (hi_cw _ _ _ I x Hx) as [(w0 & Hw0 & Ha)|[H|[H|[H1 H2]]]].
                ** assert (Q : w0 = w \/ (In w0 t /\ w0 < w)).
                   { destruct Hw0 as [->|Hw0]; [now left|]. destruct Dw as [B _]. specialize (B _ Hw0).
                     destruct (Nat.eq_dec w0 w); [now left|right; split; [assumption|lia]]. }
                   destruct Q as [->|Q].
                   --- destruct (Nat.eq_dec x w) as [->|N].
                       +++ right. right. right. split; [assumption|]. intros y Hy. now apply Lsh.
                       +++ destruct (sanc_inv _ _ _ (conj Ha N)) as (p & Hp & Hxp). left. exists p.
                           split; [|assumption]. apply Hsh. now left.
                   --- left. exists w0. split; [apply Hsh; now right|assumption].
                ** right. now left.
                ** right. right. now left.
                ** right. right. right. split; [assumption|]. intros y Hy. apply Lsh in Hy.
                   pose proof (H2 w (or_introl eq_refl)). lia.
             ++ apply (hi_f _ _ _ I).
             ++ intros f y Hf Hy. apply Lsh in Hy. pose proof (hi_fw _ _ _ I f w Hf (or_introl eq_refl)). lia.
             ++ apply (hi_fs _ _ _ I).
          -- assert (hmeasure (shift_to_parents (w :: t) (parents g w)) <= w) by (now apply hmeasure_lt).
             simpl in Fu. lia.
  Qed.
End HeadsRange.

Lemma hrf_ok (g : graph) (W : wf g) rs hs flt hi :
  (forall i, length (parents g i) <= hi) -> (forall h, In h hs -> h < length g) ->
  heads_from_range_and_filter g rs hs 0 hi flt =
  Some (heads_of g (filter (fun x => anc_any g hs x && negb (anc_any g rs x) && flt x) (all_pos_desc g))).
Proof.
  intros Hhi Rh. unfold heads_from_range_and_filter. destruct hs as [|h0 hs'].
  - f_equal. symmetry.
    assert (E : filter (fun x => anc_any g [] x && negb (anc_any g rs x) && flt x) (all_pos_desc g) = []).
    { generalize (all_pos_desc g). induction l as [|y l IH]; [reflexivity|]. simpl. exact IH. }
    rewrite E. reflexivity.
  - set (hs := h0 :: hs') in *. set (TL := filter _ (all_pos_desc g)).
    assert (TLin : forall y, In y TL <-> y < length g /\ inT g rs hs flt y).
    { intros y. unfold TL, inT, inH, inR. rewrite filter_In, all_pos_in, !andb_true_iff, negb_true_iff.
      rewrite anc_any_spec by assumption.
      assert (E : anc_any g rs y = false <-> ~ (exists r, In r rs /\ anc g y r)).
      { rewrite <- Bool.not_true_iff_false, anc_any_spec by assumption. tauto. }
      rewrite E. tauto. }
    destruct (hrf_loop_ok g W rs hs flt hi Hhi (S (hmeasure (heap_from hs))) (heap_from hs) (heap_from rs) [])
      as (r & E & SD & Rs & Rc); [|lia|].
    { constructor; try apply heap_from_desc.
      - intros u Hu. apply (proj1 (heap_from_in _ _)) in Hu. left. exists u. split; [assumption|constructor].
      - intros w Hw. apply (proj1 (heap_from_in _ _)) in Hw. exists w. split; [assumption|constructor].
      - intros w _ x _ [(r & Hr & Ha)|(f & [] & _)]. exists r. split; [now apply heap_from_in|assumption].
      - intros x (h & Hh & Ha). left. exists h. split; [now apply heap_from_in|assumption].
      - intros f [].
      - intros f w [].
      - exact I. }
    rewrite E. f_equal. apply sdesc_ext; [assumption|apply sdesc_filter, sdesc_filter, sdesc_all_pos|].
    intros x. rewrite heads_of_spec by assumption. split.
    + intros Hx. destruct (Rs x Hx) as [Tx Mx]. split.
      * apply TLin. split; [|assumption]. destruct Tx as [(h & Hh & Ha) _].
        pose proof (anc_le _ _ _ W Ha). specialize (Rh h Hh). lia.
      * intros y Hy Ha. destruct (Nat.eq_dec y x) as [E'|N]; [assumption|exfalso].
        apply TLin in Hy. destruct Hy as [_ (Hy1 & Hy2 & Hy3)].
        destruct (Rc y Hy1) as [[C|(f' & Hf' & S0)]|[C|C]].
        -- contradiction.
        -- apply (Mx f' Hf'). eapply anc_sanc_trans; eassumption.
        -- apply (Mx y C). split; [assumption|congruence].
        -- congruence.
    + intros [Hx Mx]. apply TLin in Hx. destruct Hx as [Lx (Hx1 & Hx2 & Hx3)].
      destruct (Rc x Hx1) as [[C|(f' & Hf' & S0)]|[C|C]]; [contradiction| |assumption|congruence].
      exfalso. destruct S0 as [Ha N]. apply N. symmetry. apply Mx; [|assumption].
      apply TLin. destruct (Rs f' Hf') as [Tf _]. split; [|assumption].
      destruct Tf as [(h & Hh & Ha') _]. pose proof (anc_le _ _ _ W Ha'). specialize (Rh h Hh). lia.
Qed.

Lemma heads_range_ok (g : graph) (W : wf g) roots heads flt hi :
  (forall i, length (parents g i) <= hi) -> (forall h, In h heads -> h < length g) ->
  heads_range g roots heads 0 hi flt = Some (spec_heads_range g roots heads flt).
Proof.
  intros Hhi Rh. unfold heads_range.
  set (rs := dedup_adj (heap_from roots)).
  set (hs := filter (fun h => negb (memn h rs)) (dedup_adj (heap_from heads))).
  assert (Rin : forall x, In x rs <-> In x roots).
  { intros x. unfold rs. now rewrite dedup_adj_in, heap_from_in. }
  assert (Hin : forall x, In x hs <-> In x heads /\ ~ In x roots).
  { intros x. unfold hs. rewrite filter_In, dedup_adj_in, heap_from_in, negb_true_iff, memn_false, Rin. tauto. }
  rewrite hrf_ok; [|assumption|assumption|intros h Hh; apply Rh; now apply Hin in Hh].
  f_equal. unfold spec_heads_range. f_equal. apply filter_ext. intros x.
  fold (anc_any g heads x). fold (anc_any g roots x).
  assert (E1 : anc_any g rs x = anc_any g roots x).
  { apply Bool.eq_iff_eq_true. rewrite !anc_any_spec by assumption.
    split; intros (r & Hr & Ha); exists r; (split; [now apply Rin|assumption]). }
  rewrite E1. destruct (anc_any g roots x) eqn:Er; [now rewrite !andb_false_r|].
  rewrite !andb_true_r. f_equal. apply Bool.eq_iff_eq_true. rewrite !anc_any_spec by assumption.
  split.
  - intros (h & Hh & Ha). exists h. split; [now apply Hin in Hh|assumption].
  - intros (h & Hh & Ha). exists h. split; [|assumption]. apply Hin. split; [assumption|].
    intros C. assert (X : anc_any g roots x = true); [|congruence].
    apply anc_any_spec; [assumption|]. now exists h.
Qed.

Lemma heads_range_thm : forall (g : graph) roots heads flt hi, wf g ->
  (forall i, length (parents g i) <= hi) -> (forall h, In h heads -> h < length g) ->
  heads_range g roots heads 0 hi flt = Some (spec_heads_range g roots heads flt) /\
  sdesc (spec_heads_range g roots heads flt) /\
  forall x, In x (spec_heads_range g roots heads flt) <->
    maximal_in g (fun y => y < length g /\ (exists h, In h heads /\ anc g y h) /\
                           ~ (exists r0, In r0 roots /\ anc g y r0) /\ flt y = true) x.
Proof.
  intros g roots heads flt hi W Hhi Rh. split; [now apply heads_range_ok|].
  split; [apply sdesc_filter, sdesc_filter, sdesc_all_pos|].
  intros x. unfold spec_heads_range. rewrite heads_of_spec by assumption. unfold maximal_in.
  assert (M : forall y, In y (filter (fun x0 => anc_any_t (ancsets g) heads x0 &&
                 negb (anc_any_t (ancsets g) roots x0) && flt x0) (all_pos_desc g)) <->
             (y < length g /\ (exists h, In h heads /\ anc g y h) /\
              ~ (exists r0, In r0 roots /\ anc g y r0) /\ flt y = true)).
  { intros y. rewrite filter_In, all_pos_in, !andb_true_iff, negb_true_iff.
    fold (anc_any g heads y). fold (anc_any g roots y).
    rewrite anc_any_spec by assumption.
    assert (E : anc_any g roots y = false <-> ~ (exists r0, In r0 roots /\ anc g y r0)).
    { rewrite <- Bool.not_true_iff_false, anc_any_spec by assumption. tauto. }
    rewrite E. tauto. }
  split; intros [H1 H2]; (split; [now apply M|]); intros y Hy; apply H2; now apply M.
Qed.

(** * heads_from_range_and_filter with a restricted parent range (e.g. first parents only) *)
Section HeadsRangeGen.
  Variable g : graph.
  Hypothesis W : wf g.
  Variables rs hs : list nat.
  Variable flt : nat -> bool.
  Variables lo hi : nat.

  Definition rpar (y : nat) : list nat := slice_range lo hi (parents g y).

  Lemma in_firstn {A} (n : nat) : forall (l : list A) x, In x (firstn n l) -> In x l.
  Proof.
    induction n as [|n IH]; intros l x H; [contradiction|]. destruct l as [|a l]; [contradiction|].
    destruct H as [<-|H]; [now left|right; now apply IH].
  Qed.
  Lemma in_skipn {A} (n : nat) : forall (l : list A) x, In x (skipn n l) -> In x l.
  Proof.
    induction n as [|n IH]; intros l x H; [assumption|]. destruct l as [|a l]; [contradiction|].
    right. now apply IH.
  Qed.
  Lemma rpar_parent y x : In x (rpar y) -> In x (parents g y).
  Proof. unfold rpar, slice_range. intros H. apply in_firstn in H. now apply in_skipn in H. Qed.

  Lemma rpar_lt y x : In x (rpar y) -> x < y.
  Proof. intros H. apply rpar_parent in H. now apply W in H. Qed.

  Notation unw := (unw g rs).
  Notation inR := (inR g rs).
  Notation coverU := (coverU g rs).

  (** where a wanted position comes from: a head, or a followed parent of a processed
      position that was neither unwanted nor selected *)
  Definition src (D F : list nat) (w : nat) : Prop :=
    In w hs \/ exists y, In y D /\ flt y = false /\ ~ unw F y /\ In w (rpar y).

  Record ginv (Wd U F D : list nat) : Prop := {
    gi_dw : desc Wd;
    gi_du : desc U;
    gi_su : forall u, In u U -> unw F u;
    gi_cu : forall w, In w Wd -> coverU U F (S w);
    gi_h : forall h, In h hs -> In h Wd \/ In h D;
    gi_c : forall y, In y D -> flt y = false -> ~ unw F y -> forall x, In x (rpar y) -> In x Wd \/ In x D;
    gi_d : forall d, In d D -> unw F d \/ In d F \/ flt d = false;
    gi_sw : forall w, In w Wd -> src D F w;
    gi_sd : forall d, In d D -> src D F d;
    gi_od : forall d w, In d D -> In w Wd -> w < d;
    gi_f : forall f, In f F -> In f D /\ ~ inR f /\ flt f = true /\ forall f', In f' F -> ~ sanc g f f';
    gi_fs : sasc F;
  }.

  Lemma src_mono D F w d : src D F w -> src (d :: D) F w.
  Proof. intros [H|(y & Hy & H)]; [now left|right; exists y; split; [now right|assumption]]. Qed.

  Lemma src_found D F w f : (forall y, In y D -> f < y) -> src D F w -> src D (f :: F) w.
  Proof.
    intros Hf [H|(y & Hy & H1 & H2 & H3)]; [now left|]. right. exists y. split; [assumption|].
    split; [assumption|]. split; [|assumption].
    intros [C|(f' & [<-|Hf'] & S0)].
    - apply H2. now left.
    - apply (sanc_lt _ _ _ W) in S0. specialize (Hf y Hy). lia.
    - apply H2. right. now exists f'.
  Qed.

  Definition gfinal (r D : list nat) : Prop :=
    (forall h, In h hs -> In h D) /\
    (forall y, In y D -> flt y = false -> ~ unw r y -> forall x, In x (rpar y) -> In x D) /\
    (forall d, In d D -> unw r d \/ In d r \/ flt d = false) /\
    (forall d, In d D -> src D r d) /\
    (forall f, In f r -> In f D /\ ~ inR f /\ flt f = true /\ forall f', In f' r -> ~ sanc g f f').

  Lemma unw_rev F x : unw (rev F) x <-> unw F x.
  Proof.
    split; intros [H|(f & Hf & S0)]; try (now left); right; exists f; (split; [|assumption]).
    - now apply in_rev.
    - now apply in_rev in Hf.
  Qed.

  Lemma hrf_gen_ok : forall fuel Wd U F D,
    ginv Wd U F D -> hmeasure Wd < fuel ->
    exists r D', hrf_loop g lo hi flt fuel Wd U F = Some r /\ sdesc r /\ gfinal r D'.
  Proof.
    induction fuel as [|fuel IH]; intros Wd U F D I Fu; [lia|].
    cbn [hrf_loop]. destruct Wd as [|w t].
    - exists (rev F), D. split; [reflexivity|]. split; [apply sasc_rev, (gi_fs _ _ _ _ I)|].
      unfold gfinal. split; [|split; [|split; [|split]]].
      + intros h Hh. destruct (gi_h _ _ _ _ I h Hh) as [[]|H]. exact H.
      + intros y Hy Fy Uy x Hx. rewrite unw_rev in Uy.
        destruct (gi_c _ _ _ _ I y Hy Fy Uy x Hx) as [[]|H]. exact H.
      + intros d Hd. destruct (gi_d _ _ _ _ I d Hd) as [H|[H|H]].
        * left. now apply unw_rev.
        * right. left. now apply in_rev in H.
        * right. now right.
      + intros d Hd. destruct (gi_sd _ _ _ _ I d Hd) as [H|(y & Hy & H1 & H2 & H3)]; [now left|].
        right. exists y. repeat split; try assumption. now rewrite unw_rev.
      + intros f Hf. apply in_rev in Hf. destruct (gi_f _ _ _ _ I f Hf) as (A & B & C & E0).
        repeat split; try assumption. intros f' Hf'. apply E0. now apply in_rev.
    - pose proof (gi_dw _ _ _ _ I) as Dw. pose proof (gi_du _ _ _ _ I) as Du.
      assert (Fu' : hd 0 U < top_fuel U) by (unfold top_fuel; lia).
      destruct (shift_until_ok g W rs F w _ U Du Fu' (gi_su _ _ _ _ I) (gi_cu _ _ _ _ I w (or_introl eq_refl)))
        as (U' & b & E & Du' & Su' & Rb).
      rewrite E.
      assert (Hpop : forall y, In y (dedup_pop (w :: t)) <-> In y t /\ y < w).
      { intros y. now apply dedup_pop_in. }
      assert (Mpop : hmeasure (dedup_pop (w :: t)) <= w).
      { apply hmeasure_lt. intros y Hy. now apply Hpop in Hy. }
      assert (Qw : forall y, In y (w :: t) -> y = w \/ (In y t /\ y < w)).
      { intros y [<-|Hy]; [now left|]. destruct Dw as [B _]. specialize (B _ Hy).
        destruct (Nat.eq_dec y w); [now left|right; split; [assumption|lia]]. }
      assert (Od : forall d, In d D -> w < d).
      { intros d Hd. apply (gi_od _ _ _ _ I d w Hd). now left. }
      destruct b.
      + (* unwanted: dropped *)
        destruct Rb as [Uw Cv'].
        apply (IH _ _ _ (w :: D)); [|simpl in Fu; lia]. constructor; try assumption.
        * now apply dedup_pop_desc.
        * intros y Hy. apply Hpop in Hy. eapply coverU_mono; [|exact Cv']. lia.
        * intros h Hh. destruct (gi_h _ _ _ _ I h Hh) as [H|H]; [|right; now right].
          destruct (Qw h H) as [->|Q]; [right; now left|left; now apply Hpop].
        * intros y [<-|Hy] Fy Uy x Hx; [contradiction|].
          destruct (gi_c _ _ _ _ I y Hy Fy Uy x Hx) as [H|H]; [|right; now right].
          destruct (Qw x H) as [->|Q]; [right; now left|left; now apply Hpop].
        * intros d [<-|Hd]; [now left|now apply (gi_d _ _ _ _ I)].
        * intros y Hy. apply Hpop in Hy. apply src_mono, (gi_sw _ _ _ _ I). now right.
        * intros d [<-|Hd]; apply src_mono; [apply (gi_sw _ _ _ _ I); now left|now apply (gi_sd _ _ _ _ I)].
        * intros d y [<-|Hd] Hy; apply Hpop in Hy; [apply Hy|]. apply (gi_od _ _ _ _ I d y Hd). now right.
        * intros f Hf. destruct (gi_f _ _ _ _ I f Hf) as (A & B). split; [now right|exact B].
        * apply (gi_fs _ _ _ _ I).
      + destruct Rb as [Lt Cv'].
        assert (Nw : ~ unw F w).
        { intros C. destruct (Cv' w (Nat.lt_succ_diag_r w) C) as (u & Hu & Ha).
          apply Lt in Hu. apply (anc_le _ _ _ W) in Ha. lia. }
        destruct (flt w) eqn:Ew.
        * (* selected *)
          apply (IH _ _ _ (w :: D)); [|simpl in Fu; lia]. constructor.
          -- now apply dedup_pop_desc.
          -- now apply hextend_desc.
          -- intros u Hu. apply hextend_in in Hu. destruct Hu as [Hu|Hu].
             ++ right. exists w. split; [now left|]. split; [now apply anc_parent|]. apply W in Hu. lia.
             ++ apply unw_mono. now apply Su'.
          -- intros y Hy x Hx Ux. apply Hpop in Hy.
             destruct Ux as [Ux|(f & [<-|Hf] & Hs)].
             ++ destruct (Cv' x) as (u & Hu & Ha); [lia|now left|]. exists u. split; [|assumption].
                apply hextend_in. now right.
             ++ destruct (sanc_inv _ _ _ Hs) as (p & Hp & Hxp). exists p. split; [|assumption].
                apply hextend_in. now left.
             ++ destruct (Cv' x) as (u & Hu & Ha); [lia|right; now exists f|]. exists u. split; [|assumption].
                apply hextend_in. now right.
          -- intros h Hh. destruct (gi_h _ _ _ _ I h Hh) as [H|H]; [|right; now right].
             destruct (Qw h H) as [->|Q]; [right; now left|left; now apply Hpop].
          -- intros y [<-|Hy] Fy Uy x Hx; [congruence|].
             assert (Uy' : ~ unw F y) by (intros C; apply Uy; now apply unw_mono).
             destruct (gi_c _ _ _ _ I y Hy Fy Uy' x Hx) as [H|H]; [|right; now right].
             destruct (Qw x H) as [->|Q]; [right; now left|left; now apply Hpop].
          -- intros d [<-|Hd]; [right; left; now left|].
             destruct (gi_d _ _ _ _ I d Hd) as [H|[H|H]];
               [left; now apply unw_mono|right; left; now right|right; now right].
          -- intros y Hy. apply Hpop in Hy. apply src_mono, src_found; [assumption|].
             apply (gi_sw _ _ _ _ I). now right.
          -- intros d [<-|Hd]; apply src_mono, src_found; try assumption;
               [apply (gi_sw _ _ _ _ I); now left|now apply (gi_sd _ _ _ _ I)].
          -- intros d y [<-|Hd] Hy; apply Hpop in Hy; [apply Hy|]. apply (gi_od _ _ _ _ I d y Hd). now right.
          -- intros f [<-|Hf].
             ++ split; [now left|]. split; [intros C; apply Nw; now left|]. split; [assumption|].
                intros f' [<-|Hf'] S0; [destruct S0; congruence|].
                apply Nw. right. exists f'. split; [assumption|exact S0].
             ++ destruct (gi_f _ _ _ _ I f Hf) as (A & B & C & E0). split; [now right|].
                split; [assumption|]. split; [assumption|].
                intros f' [<-|Hf'] S0; [|now apply (E0 f')].
                apply (sanc_lt _ _ _ W) in S0. specialize (Od f A). lia.
          -- split; [|apply (gi_fs _ _ _ _ I)]. intros y Hy.
             destruct (gi_f _ _ _ _ I y Hy) as (A & _). now apply Od.
        * (* not selected: the followed parents become wanted *)
          fold (rpar w).
          assert (Hsh : forall y, In y (shift_to_parents (w :: t) (rpar w)) <->
                                  In y (rpar w) \/ (In y t /\ y < w)).
          { intros y. now apply shift_in. }
          assert (Lsh : forall y, In y (shift_to_parents (w :: t) (rpar w)) -> y < w).
          { intros y Hy. apply Hsh in Hy. destruct Hy as [Hy|[_ Hy]]; [now apply rpar_lt in Hy|assumption]. }
          apply (IH _ _ _ (w :: D)).
          -- constructor; try assumption.
             ++ now apply shift_desc.
             ++ intros y Hy. apply Lsh in Hy. eapply coverU_mono; [|exact Cv']. lia.
             ++ intros h Hh. destruct (gi_h _ _ _ _ I h Hh) as [H|H]; [|right; now right].
                destruct (Qw h H) as [->|Q]; [right; now left|left; apply Hsh; now right].
             ++ intros y [<-|Hy] Fy Uy x Hx; [left; apply Hsh; now left|].
                destruct (gi_c _ _ _ _ I y Hy Fy Uy x Hx) as [H|H]; [|right; now right].
                destruct (Qw x H) as [->|Q]; [right; now left|left; apply Hsh; now right].
             ++ intros d [<-|Hd]; [right; now right|now apply (gi_d _ _ _ _ I)].
             ++ intros y Hy. apply Hsh in Hy. destruct Hy as [Hy|[Hy _]].
                ** right. exists w. split; [now left|]. repeat split; assumption.
                ** apply src_mono, (gi_sw _ _ _ _ I). now right.
             ++ intros d [<-|Hd]; apply src_mono; [apply (gi_sw _ _ _ _ I); now left|now apply (gi_sd _ _ _ _ I)].
             ++ intros d y [<-|Hd] Hy; [now apply Lsh|]. apply Lsh in Hy. specialize (Od d Hd). lia.
             ++ intros f Hf. destruct (gi_f _ _ _ _ I f Hf) as (A & B). split; [now right|exact B].
             ++ apply (gi_fs _ _ _ _ I).
          -- assert (hmeasure (shift_to_parents (w :: t) (rpar w)) <= w) by (now apply hmeasure_lt).
             simpl in Fu. lia.
  Qed.
End HeadsRangeGen.

Section RestrictedSpec.
  Variable g : graph.
  Hypothesis W : wf g.
  Variables rs hs : list nat.
  Variable flt : nat -> bool.
  Variables lo hi : nat.

  (** reachable from a head along followed parents, passing only through positions that are
      neither unwanted (ancestor of a root or strict ancestor of a result) nor selected *)
  Inductive rreach (r : list nat) : nat -> Prop :=
  | rr_head h : In h hs -> rreach r h
  | rr_step y x : rreach r y -> ~ unw g rs r y -> flt y = false -> In x (rpar g lo hi y) -> rreach r x.

  Definition rsel (r : list nat) (x : nat) : Prop :=
    rreach r x /\ ~ unw g rs r x /\ flt x = true.

  Lemma gfinal_rreach r D : gfinal g rs hs flt lo hi r D -> forall x, rreach r x <-> In x D.
  Proof.
    intros (G1 & G2 & G3 & G4 & G5) x. split.
    - induction 1 as [h Hh|y x _ IH Uy Fy Hx]; [now apply G1|]. now apply (G2 y IH Fy Uy).
    - remember (list_max D - x) as k eqn:Ek. revert x Ek.
      induction k as [k IH] using lt_wf_ind. intros x Ek Hx.
      destruct (G4 x Hx) as [H|(y & Hy & Fy & Uy & Hxy)]; [now apply rr_head|].
      eapply rr_step; [|eassumption|assumption|eassumption].
      pose proof (rpar_lt g W lo hi y x Hxy). pose proof (list_max_in D y Hy).
      apply (IH (list_max D - y)); [lia|reflexivity|assumption].
  Qed.

  Theorem hrf_restricted_ok :
    exists r, heads_from_range_and_filter g rs hs lo hi flt = Some r /\ sdesc r /\
              forall x, In x r <-> rsel r x.
  Proof.
    unfold heads_from_range_and_filter. destruct hs as [|h0 hs'] eqn:Eh.
    - exists []. split; [reflexivity|]. split; [exact I|]. intros x. split; [intros []|].
      intros [R _]. exfalso. clear - R Eh. induction R as [h Hh|]; [rewrite Eh in Hh; contradiction|assumption].
    - rewrite <- Eh.
      destruct (hrf_gen_ok g W rs hs flt lo hi (S (hmeasure (heap_from hs))) (heap_from hs) (heap_from rs) [] [])
        as (r & D & E & SD & G); [|lia|].
      { constructor; try apply heap_from_desc.
        - intros u Hu. apply (proj1 (heap_from_in _ _)) in Hu. left. exists u. split; [assumption|constructor].
        - intros w _ x _ [(r & Hr & Ha)|(f & [] & _)]. exists r. split; [now apply heap_from_in|assumption].
        - intros h Hh. left. now apply heap_from_in.
        - intros y [].
        - intros d [].
        - intros w Hw. left. now apply (proj1 (heap_from_in _ _)) in Hw.
        - intros d [].
        - intros d w [].
        - intros f [].
        - exact I. }
      exists r. split; [exact E|]. split; [assumption|].
      intros x. pose proof (gfinal_rreach r D G) as RD. destruct G as (G1 & G2 & G3 & G4 & G5).
      unfold rsel. split.
      + intros Hx. destruct (G5 x Hx) as (A & B & C & E0). split; [now apply RD|]. split; [|assumption].
        intros [U0|(f & Hf & S0)]; [contradiction|]. exact (E0 f Hf S0).
      + intros (R & U0 & F0). apply RD in R. destruct (G3 x R) as [H|[H|H]]; [contradiction|assumption|congruence].
  Qed.

  (** the characterisation has exactly one solution *)
  Lemma unw_agree r1 r2 x : (forall z, x < z -> (In z r1 <-> In z r2)) ->
    (unw g rs r1 x <-> unw g rs r2 x).
  Proof.
    intros A. split; intros [H|(f & Hf & S0)]; try (now left); right; exists f; (split; [|assumption]);
      apply A; try assumption; now apply (sanc_lt _ _ _ W).
  Qed.

  Lemma rreach_agree r1 r2 x : rreach r1 x -> (forall z, x < z -> (In z r1 <-> In z r2)) -> rreach r2 x.
  Proof.
    induction 1 as [h Hh|y x Ry IH Uy Fy Hx]; intros A; [now apply rr_head|].
    pose proof (rpar_lt g W lo hi y x Hx) as L.
    assert (Ay : forall z, y < z -> (In z r1 <-> In z r2)) by (intros z Hz; apply A; lia).
    eapply rr_step; [now apply IH| |assumption|eassumption].
    intros C. apply Uy. now apply (unw_agree r1 r2 y Ay).
  Qed.

  Lemma rreach_bound r x : rreach r x -> x <= list_max hs.
  Proof.
    induction 1 as [h Hh|y x _ IH _ _ Hx]; [now apply list_max_in|].
    pose proof (rpar_lt g W lo hi y x Hx). lia.
  Qed.

  Theorem rsel_unique r1 r2 :
    (forall x, In x r1 <-> rsel r1 x) -> (forall x, In x r2 <-> rsel r2 x) ->
    forall x, In x r1 <-> In x r2.
  Proof.
    intros H1 H2 x. remember (S (list_max hs) - x) as k eqn:Ek. revert x Ek.
    induction k as [k IH] using lt_wf_ind. intros x Ek.
    destruct (Nat.lt_ge_cases (list_max hs) x) as [L|L].
    - split; intros Hx; exfalso.
      + apply H1 in Hx. destruct Hx as [R _]. apply rreach_bound in R. lia.
      + apply H2 in Hx. destruct Hx as [R _]. apply rreach_bound in R. lia.
    - assert (A : forall z, x < z -> (In z r1 <-> In z r2)).
      { intros z Hz. destruct (Nat.lt_ge_cases (list_max hs) z) as [Lz|Lz].
        - split; intros Hx; exfalso.
          + apply H1 in Hx. destruct Hx as [R _]. apply rreach_bound in R. lia.
          + apply H2 in Hx. destruct Hx as [R _]. apply rreach_bound in R. lia.
        - apply (IH (S (list_max hs) - z)); [lia|reflexivity]. }
      assert (A' : forall z, x < z -> (In z r2 <-> In z r1)) by (intros z Hz; symmetry; now apply A).
      rewrite H1, H2. unfold rsel. split; intros (R & U0 & F0); (split; [|split; [|assumption]]).
      + now apply (rreach_agree r1 r2).
      + intros C. apply U0. now apply (unw_agree r1 r2 x A).
      + now apply (rreach_agree r2 r1).
      + intros C. apply U0. now apply (unw_agree r2 r1 x A').
  Qed.
End RestrictedSpec.

Lemma heads_range_restricted_thm : forall (g : graph) rs hs flt lo hi, wf g ->
  (exists r, heads_from_range_and_filter g rs hs lo hi flt = Some r /\ sdesc r /\
             forall x, In x r <-> rsel g rs hs flt lo hi r x) /\
  (forall r1 r2, (forall x, In x r1 <-> rsel g rs hs flt lo hi r1 x) ->
                 (forall x, In x r2 <-> rsel g rs hs flt lo hi r2 x) ->
                 forall x, In x r1 <-> In x r2).
Proof.
  intros g rs hs flt lo hi W. split; [now apply hrf_restricted_ok|now apply rsel_unique].
Qed.

(** * the boolean evaluation of the restricted-range characterisation on an answer *)
Section RselCheck.
  Variable g : graph.
  Hypothesis W : wf g.
  Variables rs hs r : list nat.
  Variable flt : nat -> bool.
  Variables lo hi : nat.
  Notation t := (ancsets g).
  Hypothesis Rh : forall h, In h hs -> h < length g.

  Lemma unw_b_spec x : unw_b t rs r x = true <-> unw g rs r x.
  Proof.
    unfold unw_b, unw, inR. rewrite orb_true_iff. fold (anc_any g rs x).
    rewrite anc_any_spec, existsb_exists by assumption. split.
    - intros [H|(f & Hf & E)]; [now left|right]. apply andb_true_iff in E. destruct E as [E1 E2].
      apply negb_true_iff, Nat.eqb_neq in E1. apply (ancb_t_spec g W) in E2.
      exists f. split; [assumption|]. split; [assumption|congruence].
    - intros [H|(f & Hf & Ha & N)]; [now left|right]. exists f. split; [assumption|].
      apply andb_true_iff. split; [apply negb_true_iff, Nat.eqb_neq; congruence|now apply (ancb_t_spec g W)].
  Qed.

  Notation step := (rreach_step g t rs r flt lo hi).
  Notation RR := (rreach g rs hs flt lo hi r).

  Lemma step_sub acc y x : In x acc -> In x (step acc y).
  Proof. unfold rreach_step. destruct (_ && _ && _); [intros H; apply in_or_app; now right|trivial]. Qed.

  Lemma fold_sub l : forall acc x, In x acc -> In x (fold_left step l acc).
  Proof. induction l as [|y l IH]; intros acc x H; simpl; [assumption|]. apply IH. now apply step_sub. Qed.

  Lemma step_new acc y x : In x (step acc y) -> In x acc \/ (In x (rpar g lo hi y) /\ In y acc /\
                                                            ~ unw g rs r y /\ flt y = false).
  Proof.
    unfold rreach_step. destruct (memn y acc && negb (unw_b t rs r y) && negb (flt y)) eqn:E; [|now left].
    intros H. apply in_app_or in H. destruct H as [H|H]; [|now left]. right.
    rewrite !andb_true_iff, !negb_true_iff in E. destruct E as [[E1 E2] E3].
    split; [exact H|]. split; [now apply memn_spec|]. split; [|assumption].
    intros C. apply unw_b_spec in C. congruence.
  Qed.

  (** what a later part of the sweep adds lies strictly below the positions it processes *)
  Lemma fold_stable l : forall acc z, (forall y, In y l -> y <= z) ->
    (In z (fold_left step l acc) <-> In z acc).
  Proof.
    induction l as [|y l IH]; intros acc z B; simpl; [reflexivity|].
    rewrite IH by (intros y' Hy'; apply B; now right). split; [|apply step_sub].
    intros H. apply step_new in H. destruct H as [H|(H & _)]; [assumption|].
    apply (rpar_lt g W lo hi) in H. specialize (B y (or_introl eq_refl)). lia.
  Qed.

  Lemma fold_sound l : forall acc, (forall x, In x acc -> RR x) ->
    forall x, In x (fold_left step l acc) -> RR x.
  Proof.
    induction l as [|y l IH]; intros acc Ha x Hx; simpl in Hx; [now apply Ha|].
    apply (IH (step acc y)); [|assumption]. intros z Hz. apply step_new in Hz.
    destruct Hz as [Hz|(Hz & Hy & Uy & Fy)]; [now apply Ha|].
    eapply rr_step; [apply Ha; eassumption|assumption|assumption|assumption].
  Qed.

  Lemma fold_closed l : sdesc l -> forall acc y, In y l ->
    In y (fold_left step l acc) -> ~ unw g rs r y -> flt y = false ->
    forall x, In x (rpar g lo hi y) -> In x (fold_left step l acc).
  Proof.
    induction l as [|y0 l IH]; intros SD acc y Hy Hin Uy Fy x Hx; [contradiction|].
    destruct SD as [B SD]. simpl in *. destruct Hy as [<-|Hy].
    - apply fold_sub. apply fold_stable in Hin; [|intros y' Hy'; apply B in Hy'; lia].
      assert (Hacc : In y0 acc).
      { apply step_new in Hin. destruct Hin as [H|(H & _)]; [assumption|].
        apply (rpar_lt g W lo hi) in H. lia. }
      unfold rreach_step. apply (proj2 (memn_spec y0 acc)) in Hacc. rewrite Hacc.
      assert (unw_b t rs r y0 = false) as ->.
      { destruct (unw_b t rs r y0) eqn:E; [|reflexivity]. apply unw_b_spec in E. contradiction. }
      rewrite Fy. simpl. apply in_or_app. now left.
    - now apply (IH SD (step acc y0) y).
  Qed.

  Lemma rreach_set_spec x : In x (rreach_set g t rs hs r flt lo hi) <-> RR x.
  Proof.
    unfold rreach_set. split.
    - apply fold_sound. intros h Hh. now apply rr_head.
    - induction 1 as [h Hh|y x Ry IH Uy Fy Hx]; [now apply fold_sub|].
      apply (fold_closed (all_pos_desc g) (sdesc_all_pos g) hs y); try assumption.
      apply all_pos_in. clear - Ry Rh W.
      induction Ry as [h Hh|y x _ IH _ _ Hx]; [now apply Rh|].
      apply (rpar_lt g W lo hi) in Hx. lia.
  Qed.

  Lemma rsel_ok_sound : rsel_ok g rs hs flt lo hi r = true ->
    (forall h, In h hs -> h < length g) -> forall x, In x r <-> rsel g rs hs flt lo hi r x.
  Proof.
    unfold rsel_ok. rewrite !andb_true_iff, forallb_forall. intros [[H Rr] _] _ x.
    pose proof (proj1 (in_range_spec g r) Rr) as Rr'. unfold rsel.
    destruct (Nat.lt_ge_cases x (length g)) as [L|L].
    - assert (Hx : In x (all_pos_desc g)) by now apply all_pos_in.
      specialize (H x Hx). apply eqb_prop in H. rewrite <- memn_spec, H.
      rewrite !andb_true_iff, negb_true_iff, memn_spec, rreach_set_spec.
      assert (E : unw_b t rs r x = false <-> ~ unw g rs r x).
      { rewrite <- Bool.not_true_iff_false, unw_b_spec. tauto. }
      rewrite E. tauto.
    - split.
      + intros Hx. apply Rr' in Hx. lia.
      + intros (R & _). exfalso. clear - R Rh W L.
        assert (x < length g); [|lia].
        induction R as [h Hh|y x _ IH _ _ Hx]; [now apply Rh|].
        apply (rpar_lt g W lo hi) in Hx. lia.
  Qed.
End RselCheck.

(** the checker's verdict on a HeadsRange answer with a restricted parent range *)
Lemma heads_range_query_sound g rs hs lo hi fs r : wf g ->
  (lo =? 0) && forallb (fun ps => length ps <=? hi) g = false ->
  query_ok g (QHeadsRange rs hs lo hi fs r) = true ->
  let rs' := dedup_adj (heap_from rs) in
  let hs' := filter (fun h => negb (memn h rs')) (dedup_adj (heap_from hs)) in
  forall x, In x r <->
    rsel g rs' hs' (match fs with Some l => fun x => memn x l | None => fun _ => true end) lo hi r x.
Proof.
  intros W C H rs' hs'. cbn [query_ok] in H. rewrite C in H. fold rs' hs' in H.
  pose proof H as H'. unfold rsel_ok in H'. rewrite !andb_true_iff in H'. destruct H' as [_ Rh].
  pose proof (proj1 (in_range_spec g hs') Rh) as Rh'.
  now apply (rsel_ok_sound g W rs' hs' r _ lo hi Rh').
Qed.
