(** C23, order independence: the result of the snapshot does not depend on the order in which
    a directory's entries are listed (read_dir order is arbitrary and the real walk processes
    entries in parallel). *)
From Verif Require Import Base.Prelude Gen.Tables Model.C23 Proofs.C23.
From Coq Require Import Lia Permutation.
Local Open Scope N_scope.

(** Two directory trees with the same entries by name at every level. *)
Inductive deq : dnode -> dnode -> Prop :=
| deq_file c x s : deq (DFile c x s) (DFile c x s)
| deq_link t s : deq (DSymlink t s) (DSymlink t s)
| deq_special : deq DSpecial DSpecial
| deq_dir es1 es2 :
    (forall nm a, find_entry nm es1 = Some a -> exists b, find_entry nm es2 = Some b /\ deq a b) ->
    (forall nm, find_entry nm es1 = None -> find_entry nm es2 = None) ->
    deq (DDir es1) (DDir es2).

Lemma deq_leaf_value a b : deq a b -> leaf_value a = leaf_value b.
Proof. intros H. destruct H; reflexivity. Qed.

Lemma deq_size a b : deq a b -> node_size a = node_size b.
Proof. intros H. destruct H; reflexivity. Qed.

Lemma deq_is_dir a b : deq a b -> is_dir a = is_dir b.
Proof. intros H. destruct H; reflexivity. Qed.

Lemma nested_repo_find es :
  nested_repo es = true <-> exists nm, reserved nm = true /\ find_entry nm es <> None.
Proof.
  unfold nested_repo. rewrite existsb_exists. split.
  - intros ([k n] & Hin & Hr). cbn in Hr. exists k. split; [exact Hr|].
    clear Hr. induction es as [|[k' n'] es IH]; [destruct Hin|]. cbn.
    destruct (String.eqb k' k) eqn:E; [discriminate|].
    destruct Hin as [H|H]; [injection H as -> ->; rewrite String.eqb_refl in E; discriminate|].
    exact (IH H).
  - intros (nm & Hr & Hf). destruct (find_entry nm es) as [ch|] eqn:E; [|contradiction].
    exists (nm, ch). split; [apply find_entry_in; exact E|exact Hr].
Qed.

Lemma deq_nested es1 es2 : deq (DDir es1) (DDir es2) -> nested_repo es1 = nested_repo es2.
Proof.
  intros H. inversion H as [| | |? ? Hs Hn]; subst.
  destruct (nested_repo es1) eqn:E1; destruct (nested_repo es2) eqn:E2; try reflexivity.
  - apply nested_repo_find in E1. destruct E1 as (nm & Hr & Hf).
    destruct (find_entry nm es1) as [a|] eqn:Ea; [|contradiction].
    destruct (Hs nm a Ea) as (b & Hb & _).
    assert (nested_repo es2 = true) by (apply nested_repo_find; exists nm; split; [exact Hr|congruence]).
    congruence.
  - apply nested_repo_find in E2. destruct E2 as (nm & Hr & Hf).
    destruct (find_entry nm es1) as [a|] eqn:Ea.
    + assert (nested_repo es1 = true)
        by (apply nested_repo_find; exists nm; split; [exact Hr|congruence]).
      congruence.
    + rewrite (Hn nm Ea) in Hf. contradiction.
Qed.

Section Order.
  Context (c : cfg).

  Lemma deq_classify p nm a b : deq a b -> classify c p nm a = classify c p nm b.
  Proof.
    intros H. unfold classify. destruct (reserved nm); [reflexivity|].
    destruct (is_sub c p); [reflexivity|].
    destruct H as [x y z|t z| |es1 es2 Hs Hn]; try reflexivity.
    rewrite (deq_nested es1 es2 (deq_dir _ _ Hs Hn)). reflexivity.
  Qed.

  Definition stat_rel (r1 r2 : stat_res) : Prop :=
    match r1, r2 with
    | SFound a, SFound b => deq a b
    | SNotFound, SNotFound => True
    | SNotDir, SNotDir => True
    | _, _ => False
    end.

  Lemma deq_dstat : forall q n1 n2, deq n1 n2 -> stat_rel (dstat n1 q) (dstat n2 q).
  Proof.
    induction q as [|nm q IH]; intros n1 n2 H; cbn [dstat]; [exact H|].
    destruct H as [x y z|t z| |es1 es2 Hs Hn]; try exact I.
    destruct (find_entry nm es1) as [a|] eqn:Ea.
    - destruct (Hs nm a Ea) as (b & -> & Hab). apply IH. exact Hab.
    - rewrite (Hn nm Ea). exact I.
  Qed.

  Variables root1 root2 : dnode.
  Hypothesis roots : deq root1 root2.

  Lemma deq_tracked_only p : tracked_only c root1 p = tracked_only c root2 p.
  Proof.
    unfold tracked_only. destruct (st_at c p) as [s|]; [|reflexivity].
    destruct (negb (ts_sub s) && sparse_matches c p); [|reflexivity].
    pose proof (deq_dstat p root1 root2 roots) as H.
    destruct (dstat root1 p) as [a| |], (dstat root2 p) as [b| |]; cbn in H; try contradiction;
      try reflexivity.
    rewrite (deq_leaf_value a b H). reflexivity.
  Qed.

  Lemma deq_act : forall q dir n1 n2,
    deq n1 n2 -> act c root1 dir n1 q = act c root2 dir n2 q.
  Proof.
    induction q as [|nm q' IH]; intros dir n1 n2 H.
    - cbn [act]. destruct H; reflexivity.
    - cbn [act]. destruct H as [x y z|t z| |es1 es2 Hs Hn]; try reflexivity.
      destruct (find_entry nm es1) as [a|] eqn:Ea.
      + destruct (Hs nm a Ea) as (b & -> & Hab).
        rewrite (deq_classify (dir ++ [nm]) nm a b Hab).
        destruct (classify c (dir ++ [nm]) nm b); destruct q' as [|x r]; try reflexivity.
        * apply deq_tracked_only.
        * apply IH. exact Hab.
      + rewrite (Hn nm Ea). reflexivity.
  Qed.

  Theorem order_independent :
    paths_unique (map fst (c_tracked c)) = true ->
    wf_node root1 = true -> wf_node root2 = true ->
    forall p, new_tree_at c root1 p = new_tree_at c root2 p
              /\ new_tracked c root1 p = new_tracked c root2 p.
  Proof.
    intros Hu Hw1 Hw2 p.
    rewrite (model_tree c root1 Hu Hw1), (model_tree c root2 Hu Hw2).
    rewrite (model_tracked c root1 Hu Hw1), (model_tracked c root2 Hu Hw2).
    rewrite (deq_act p [] root1 root2 roots). split; reflexivity.
  Qed.
End Order.

(** Listing a directory's entries in another order gives an equivalent tree. *)
Lemma find_entry_perm es1 es2 nm :
  names_unique (map fst es1) = true -> Permutation es1 es2 ->
  find_entry nm es1 = find_entry nm es2.
Proof.
  intros Hu Hp.
  assert (Hu2 : names_unique (map fst es2) = true).
  { clear nm. revert Hu. induction Hp as [|e l1 l2 Hp IH|a b l|l1 l2 l3 H1 IH1 H2 IH2]; cbn; auto.
    - intros H. apply andb_true_iff in H. destruct H as [H1 H2]. rewrite (IH H2), andb_true_r.
      apply negb_true_iff. apply negb_true_iff in H1.
      destruct (mem String.eqb (fst e) (map fst l2)) eqn:E; [|reflexivity].
      apply smem_spec in E. apply in_map_iff in E. destruct E as (x & Ex & Hx).
      assert (In x l1) by (eapply Permutation_in; [apply Permutation_sym; exact Hp|exact Hx]).
      assert (mem String.eqb (fst e) (map fst l1) = true).
      { apply smem_spec. rewrite <- Ex. apply in_map. assumption. }
      congruence.
    - intros H. unfold mem in *. cbn [names_unique map existsb] in *.
      apply andb_true_iff in H. destruct H as [H1 H]. apply andb_true_iff in H.
      destruct H as [H2 H3]. apply negb_true_iff in H1. apply orb_false_iff in H1.
      destruct H1 as [H1a H1b]. apply negb_true_iff in H2.
      rewrite String.eqb_sym in H1a. rewrite H1a, H2, H1b, H3. reflexivity. }
  destruct (find_entry nm es1) as [a|] eqn:E1.
  - symmetry. apply find_entry_unique; [exact Hu2|].
    eapply Permutation_in; [exact Hp|apply find_entry_in; exact E1].
  - destruct (find_entry nm es2) as [b|] eqn:E2; [|reflexivity].
    assert (In (nm, b) es1)
      by (eapply Permutation_in; [apply Permutation_sym; exact Hp|apply find_entry_in; exact E2]).
    rewrite (find_entry_unique _ _ _ Hu H) in E1. discriminate.
Qed.

Lemma deq_refl : forall n, deq n n.
Proof.
  intros n. remember (dsize n) as k eqn:Hk. revert n Hk.
  induction k as [k IH] using lt_wf_ind. intros n Hk.
  destruct n as [x y z|t z| |es]; try constructor.
  - intros nm a Ha. exists a. split; [exact Ha|].
    apply (IH (dsize a)); [|reflexivity]. subst k. apply (dsize_child nm). apply find_entry_in. exact Ha.
  - auto.
Qed.

Lemma deq_perm es1 es2 :
  names_unique (map fst es1) = true -> Permutation es1 es2 -> deq (DDir es1) (DDir es2).
Proof.
  intros Hu Hp. constructor.
  - intros nm a Ha. exists a. split; [|apply deq_refl].
    rewrite <- (find_entry_perm es1 es2 nm Hu Hp). exact Ha.
  - intros nm Ha. rewrite <- (find_entry_perm es1 es2 nm Hu Hp). exact Ha.
Qed.
