(** Layer B, conclusion: the histogram matching [M_hist] (for every iteration order of the
    table that is a permutation, and every cut-off) returns valid, token-equal matchings. *)
From Coq Require Import Lia Arith Sorted Permutation.
From Verif Require Import Base.Prelude Model.Diff
     Proofs.DiffBase Proofs.DiffA2 Proofs.DiffA4 Proofs.DiffThm Proofs.DiffB1 Proofs.DiffB2 Proofs.DiffB3 Proofs.DiffB5 Proofs.DiffB6.

Section Any.
  Context {T : Type} (eqb : T -> T -> bool).
  Hypothesis eqb_spec : forall x y, eqb x y = true <-> x = y.
  Variable order : list (T * list nat) -> list (T * list nat).
  Hypothesis order_perm : forall h, Permutation (order h) h.
  Variable max_occ : nat.

  Theorem collect_unchanged_words_valid (left right : list T) :
    let R := collect_unchanged_words eqb order max_occ left right in
    valid_matching (length left) (length right) R
    /\ Forall (fun q => exists k, nth_error left (fst q) = Some k /\ nth_error right (snd q) = Some k) R.
  Proof.
    cbv zeta. unfold collect_unchanged_words.
    destruct (cuw_spec eqb eqb_spec order order_perm max_occ (S (length left)) left right 0 0) as (S & W).
    cbv zeta in S, W.
    assert (W' : Forall (fun q => exists k, nth_error left (fst q) = Some k /\ nth_error right (snd q) = Some k)
                        (cuw eqb order max_occ (Datatypes.S (length left)) left right 0 0)).
    { eapply Forall_impl; [|exact W]. intros q (_ & _ & k & A & B). cbn [fst snd] in A, B.
      rewrite Nat.sub_0_r in A, B. eauto. }
    split; [|exact W']. split; [|exact S].
    eapply Forall_impl; [|exact W']. intros q (k & A & B). split; apply nth_error_Some; congruence.
  Qed.
End Any.

Theorem M_hist_valid a b :
  valid_matching (length a) (length b) (M_hist a b) /\ eq_matching a b (M_hist a b).
Proof.
  unfold M_hist.
  destruct (collect_unchanged_words_valid bytes_eqb bytes_eqb_spec (fun h => h)
              (fun h => Permutation_refl h) max_occurrences a b) as (V & E).
  split; [exact V|]. unfold eq_matching. eapply Forall_impl; [|exact E].
  intros q (k & A & B). apply (nth_error_nth _ _ (@nil N)) in A, B. unfold bytes in *. congruence.
Qed.

Theorem M_hist_rev_valid a b :
  valid_matching (length a) (length b) (M_hist_rev a b) /\ eq_matching a b (M_hist_rev a b).
Proof.
  unfold M_hist_rev.
  destruct (collect_unchanged_words_valid bytes_eqb bytes_eqb_spec (@rev _)
              (fun h => Permutation_sym (Permutation_rev h)) max_occurrences a b) as (V & E).
  split; [exact V|]. unfold eq_matching. eapply Forall_impl; [|exact E].
  intros q (k & A & B). apply (nth_error_nth _ _ (@nil N)) in A, B. unfold bytes in *. congruence.
Qed.

Theorem M_hist_self a : M_hist a a = identity_matching (length a).
Proof.
  apply (collect_unchanged_words_self bytes_eqb bytes_eqb_spec (fun h => h) (fun h => Permutation_refl h)).
Qed.

(** * Determinism: the hunks do not depend on the table's iteration order *)
Lemma fold_left_ext {A B} (f g : A -> B -> A) : (forall a b, f a b = g a b) ->
  forall l a, fold_left f l a = fold_left g l a.
Proof. intros H. induction l as [|x l IH]; intros a; cbn [fold_left]; [reflexivity|]. now rewrite H, IH. Qed.

Section Ext.
  Variables M1 M2 : list bytes -> list bytes -> list (nat * nat).
  Hypothesis HM : forall a b, M1 a b = M2 a b.

  Lemma diff_regions_ext tok cmp ins : diff_regions M1 tok cmp ins = diff_regions M2 tok cmp ins.
  Proof.
    unfold diff_regions. destruct ins as [|base [|first tail]]; try reflexivity.
    f_equal. f_equal. f_equal. f_equal. rewrite HM. apply fold_left_ext. intros cur o. now rewrite HM.
  Qed.

  Lemma refine_go_ext tok cmp ins : forall rest u,
    refine_go M1 tok cmp ins u rest = refine_go M2 tok cmp ins u rest.
  Proof.
    induction rest as [|cur rest IH]; intros u; cbn [refine_go]; [reflexivity|].
    now rewrite diff_regions_ext, IH.
  Qed.

  Lemma run_steps_ext s ins : run_steps M1 s ins = run_steps M2 s ins.
  Proof.
    unfold run_steps. destruct s as [|[t c] rest]; [reflexivity|]. rewrite diff_regions_ext.
    apply fold_left_ext. intros regs tc. unfold refine. destruct regs as [|u0 r]; [reflexivity|].
    now rewrite refine_go_ext.
  Qed.
End Ext.

Theorem M_order_independent (order1 order2 : list (bytes * list nat) -> list (bytes * list nat)) :
  (forall h, Permutation (order1 h) h) -> (forall h, Permutation (order2 h) h) ->
  forall max_occ a b,
    collect_unchanged_words bytes_eqb order1 max_occ a b = collect_unchanged_words bytes_eqb order2 max_occ a b.
Proof.
  intros P1 P2 max_occ a b.
  apply (DiffB6.collect_unchanged_words_det bytes_eqb bytes_eqb_spec order1 order2 P1 P2).
Qed.

Theorem hunks_order_independent (order1 order2 : list (bytes * list nat) -> list (bytes * list nat)) :
  (forall h, Permutation (order1 h) h) -> (forall h, Permutation (order2 h) h) ->
  forall max_occ s ins,
    hunks (run_steps (collect_unchanged_words bytes_eqb order1 max_occ) s ins)
    = hunks (run_steps (collect_unchanged_words bytes_eqb order2 max_occ) s ins).
Proof.
  intros P1 P2 max_occ s ins. f_equal. apply run_steps_ext. intros a b. now apply M_order_independent.
Qed.
