(** Layer B, conclusion: the histogram matching [M_hist] (for every iteration order of the
    table that is a permutation, and every cut-off) returns valid, token-equal matchings. *)
From Coq Require Import Lia Arith Sorted Permutation.
From Verif Require Import Base.Prelude Model.Diff
     Proofs.DiffBase Proofs.DiffA2 Proofs.DiffA4 Proofs.DiffThm Proofs.DiffB1 Proofs.DiffB2 Proofs.DiffB3 Proofs.DiffB5.

Section Any.
  Context {T : Type} (eqb : T -> T -> bool).
  Hypothesis eqb_spec : forall x y, eqb x y = true <-> x = y.
  Variable order : list (T * list nat) -> list (T * list nat).
  Hypothesis order_perm : forall h, Permutation (order h) h.
  Variable max_occ : nat.

  Theorem collect_unchanged_words_valid (left right : list T) :
    let R := collect_unchanged_words eqb order max_occ left right in
    valid_matching (length left) (length right) R
    /\ Forall (fun q => exists k, nth_error left (fst q) = Some k /\ nth_error right (snd q) = Some k) R.
  Proof.
    cbv zeta. unfold collect_unchanged_words.
    destruct (cuw_spec eqb eqb_spec order order_perm max_occ (S (length left)) left right 0 0) as (S & W).
    cbv zeta in S, W.
    assert (W' : Forall (fun q => exists k, nth_error left (fst q) = Some k /\ nth_error right (snd q) = Some k)
                        (cuw eqb order max_occ (Datatypes.S (length left)) left right 0 0)).
    { eapply Forall_impl; [|exact W]. intros q (_ & _ & k & A & B). cbn [fst snd] in A, B.
      rewrite Nat.sub_0_r in A, B. eauto. }
    split; [|exact W']. split; [|exact S].
    eapply Forall_impl; [|exact W']. intros q (k & A & B). split; apply nth_error_Some; congruence.
  Qed.
End Any.

Theorem M_hist_valid a b :
  valid_matching (length a) (length b) (M_hist a b) /\ eq_matching a b (M_hist a b).
Proof.
  unfold M_hist.
  destruct (collect_unchanged_words_valid bytes_eqb bytes_eqb_spec (fun h => h)
              (fun h => Permutation_refl h) max_occurrences a b) as (V & E).
  split; [exact V|]. unfold eq_matching. eapply Forall_impl; [|exact E].
  intros q (k & A & B). apply (nth_error_nth _ _ (@nil N)) in A, B. unfold bytes in *. congruence.
Qed.

Theorem M_hist_rev_valid a b :
  valid_matching (length a) (length b) (M_hist_rev a b) /\ eq_matching a b (M_hist_rev a b).
Proof.
  unfold M_hist_rev.
  destruct (collect_unchanged_words_valid bytes_eqb bytes_eqb_spec (@rev _)
              (fun h => Permutation_sym (Permutation_rev h)) max_occurrences a b) as (V & E).
  split; [exact V|]. unfold eq_matching. eapply Forall_impl; [|exact E].
  intros q (k & A & B). apply (nth_error_nth _ _ (@nil N)) in A, B. unfold bytes in *. congruence.
Qed.

Theorem M_hist_self a : M_hist a a = identity_matching (length a).
Proof.
  apply (collect_unchanged_words_self bytes_eqb bytes_eqb_spec (fun h => h) (fun h => Permutation_refl h)).
Qed.
