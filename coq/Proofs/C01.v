(** C01: [simplify] and [flatten] preserve the denotation of a conflict. *)
From Verif Require Import Base.Prelude Model.Merge Proofs.MergeDen.
From Coq Require Import Lia Arith.
Local Open Scope Z_scope.

Section C01.
  Context {T : Type} (eqb : T -> T -> bool).
  Hypothesis eqb_spec : forall x y, eqb x y = true <-> x = y.

  Notation ind := (ind eqb).
  Notation den := (den eqb).
  Notation den_s := (den_s eqb).

  Lemma find_remove_spec l : forall pos b a r,
    find_remove eqb pos b l a = Some r ->
    (pos <= r)%nat /\ exists i x, nth_error l (r - pos) = Some (i, x) /\ eqb x a = true
                                  /\ Nat.even (r - pos) = b.
  Proof.
    induction l as [|[i x] t IH]; intros pos b a r H; [discriminate|].
    cbn [find_remove] in H.
    destruct (b && eqb x a)%bool eqn:E.
    - injection H as <-. apply andb_prop in E as [-> E]. split; [lia|].
      exists i, x. rewrite Nat.sub_diag. auto.
    - apply IH in H as (Hle & j & y & Hn & He & Hp). split; [lia|].
      exists j, y. replace (r - pos)%nat with (S (r - S pos)) by lia. cbn [nth_error].
      rewrite Nat.even_succ, <- Nat.negb_even, Hp. rewrite Bool.negb_involutive. auto.
  Qed.

  Lemma simp_step_den l ai l' ai' :
    Nat.even ai = true -> simp_step eqb l ai = (l', ai') ->
    (forall v, den (map snd l') v = den (map snd l) v) /\ Nat.even ai' = true
    /\ ((l' = l /\ ai' = (ai + 2)%nat) \/ (length l' = (length l - 2)%nat /\ ai' = ai /\ (2 <= length l)%nat)).
  Proof.
    intros Hev H. unfold simp_step in H.
    assert (Hadv : Nat.even (ai + 2) = true).
    { replace (ai + 2)%nat with (S (S ai)) by lia. now rewrite Nat.even_succ_succ. }
    destruct (nth_error l ai) as [[i a]|] eqn:Ha; [|injection H as <- <-; auto].
    destruct (find_remove eqb 0 false l a) as [r|] eqn:Hf; [|injection H as <- <-; auto].
    destruct (nth_error l (S r)) as [y|] eqn:Hy; [|injection H as <- <-; auto].
    injection H as <- <-.
    apply find_remove_spec in Hf as (_ & j & x & Hr & Hx & Hp). rewrite Nat.sub_0_r in Hr, Hp.
    split; [|split; [assumption|right]].
    - intros v. rewrite map_remove2, map_set_nth. unfold Merge.den.
      assert (Hne : Nat.eqb ai r = false).
      { apply Nat.eqb_neq; intros ->; congruence. }
      rewrite (den_remove2 eqb true _ r x (snd y)).
      + rewrite (den_set_nth eqb true _ ai a); [|now rewrite nth_error_map, Ha].
        unfold sgz. rewrite Hev, Hp. cbn [sg]. rewrite (ind_eq eqb eqb_spec x a v Hx). lia.
      + rewrite nth_error_set_nth, Hne, nth_error_map, Hr. reflexivity.
      + rewrite nth_error_set_nth, nth_error_map, Hy. cbn. destruct (Nat.eqb ai (S r)); reflexivity.
    - assert (S r < length l)%nat by (apply nth_error_Some; congruence).
      rewrite length_remove2; rewrite length_set_nth; [|assumption]. lia.
  Qed.

  Lemma simp_loop_den fuel : forall l ai v,
    Nat.even ai = true -> den (map snd (simp_loop eqb fuel l ai)) v = den (map snd l) v.
  Proof.
    induction fuel as [|f IH]; intros l ai v Hev; [reflexivity|].
    cbn [simp_loop]. destruct (Nat.ltb ai (length l)); [|reflexivity].
    destruct (simp_step eqb l ai) as [l' ai'] eqn:E.
    destruct (simp_step_den _ _ _ _ Hev E) as (Hd & Hev' & _).
    now rewrite IH, Hd.
  Qed.

  Lemma map_snd_enumerate {A} (l : list A) i : map snd (enumerate_from i l) = l.
  Proof. revert i; induction l; intros i; cbn; [reflexivity|now rewrite IHl]. Qed.

  Lemma simplify_den m v : den (simplify eqb m) v = den m v.
  Proof.
    unfold simplify, simplified_pairs. rewrite simp_loop_den by reflexivity.
    now rewrite map_snd_enumerate.
  Qed.

  (** Arity: the result has odd length whenever the input has. *)
  Lemma simp_loop_length_parity fuel : forall l ai,
    Nat.even ai = true ->
    Nat.even (length (simp_loop eqb fuel l ai)) = Nat.even (length l)
    /\ (length (simp_loop eqb fuel l ai) <= length l)%nat.
  Proof.
    induction fuel as [|f IH]; intros l ai Hev; [cbn [simp_loop]; split; [reflexivity|lia]|].
    cbn [simp_loop]. destruct (Nat.ltb ai (length l)); [|split; [reflexivity|lia]].
    destruct (simp_step eqb l ai) as [l' ai'] eqn:E.
    destruct (simp_step_den _ _ _ _ Hev E) as (_ & Hev' & [[-> ->]|(Hl & -> & H2)]).
    - now apply IH.
    - destruct (IH l' ai Hev') as [A B]. rewrite A, Hl. split; [|lia].
      destruct (length l) as [|[|n]]; [lia|lia|].
      replace (S (S n) - 2)%nat with n by lia. now rewrite Nat.even_succ_succ.
  Qed.

  Lemma simplify_arity m :
    Nat.even (length (simplify eqb m)) = Nat.even (length m)
    /\ (length (simplify eqb m) <= length m)%nat.
  Proof.
    unfold simplify, simplified_pairs. rewrite map_length.
    destruct (simp_loop_length_parity (S (length m)) (enumerate_from 0 m) 0 eq_refl) as [A B].
    assert (L : length (enumerate_from 0 m) = length m).
    { rewrite <- (map_length snd), map_snd_enumerate. reflexivity. }
    rewrite L in A, B. split; assumption.
  Qed.

  (** * flatten *)
  Lemma swap_pairs_even n : forall t u,
    length t = (2 * n)%nat ->
    swap_pairs (t ++ u) = swap_pairs t ++ swap_pairs u
    /\ length (swap_pairs t) = length t
    /\ forall s v, den_s s (swap_pairs t) v = - den_s s t v.
  Proof.
    induction n as [|n IH]; intros t u H.
    - destruct t; [|discriminate]. cbn. repeat split; auto.
    - destruct t as [|a [|b t]]; try (cbn in H; lia).
      assert (Ht : length t = (2 * n)%nat) by (cbn in H; lia).
      destruct (IH t u Ht) as (A & B & C). cbn [app swap_pairs length]. rewrite A, B.
      repeat split; auto. intros s v. rewrite !den_s_cons, Bool.negb_involutive, C.
      destruct s; cbn [sg negb]; lia.
  Qed.

  Lemma odd_length_split (r : list T) :
    Nat.odd (length r) = true -> exists b t n, r = b :: t /\ length t = (2 * n)%nat.
  Proof.
    destruct r as [|b t]; [discriminate|]. cbn [length]. rewrite Nat.odd_succ. intros H.
    apply Nat.even_spec in H as [n Hn]. exists b, t, n. auto.
  Qed.

  Lemma neg_inner_den r v :
    Nat.odd (length r) = true ->
    den_s false (neg_inner r) v = - den r v /\ length (neg_inner r) = length r.
  Proof.
    intros H. destruct (odd_length_split r H) as (b & t & n & -> & Ht).
    unfold neg_inner, rotate_left1.
    destruct (swap_pairs_even n t [b] Ht) as (A & B & C). rewrite A. cbn [swap_pairs].
    split.
    - rewrite den_s_app, C, B. unfold Merge.den. rewrite !den_s_cons. cbn [Merge.den_s negb].
      unfold sgz. rewrite Ht. replace (Nat.even (2 * n)) with true.
      2:{ symmetry. apply Nat.even_spec. now exists n. }
      cbn [sg]. lia.
    - rewrite app_length, B. cbn. lia.
  Qed.

  Lemma flatten_rest_den k : forall l v,
    length l = (2 * k)%nat -> Forall (fun m => Nat.odd (length m) = true) l ->
    den_s false (flatten_rest l) v = den_nested_s eqb false l v
    /\ Nat.even (length (flatten_rest l)) = true.
  Proof.
    induction k as [|k IH]; intros l v Hl Hall.
    - destruct l; [|discriminate]. cbn. auto.
    - destruct l as [|r [|a t]]; try (cbn in Hl; lia).
      assert (Ht : length t = (2 * k)%nat) by (cbn in Hl; lia).
      inversion Hall as [|? ? Hr Hall']; subst. inversion Hall' as [|? ? Ha Hall'']; subst.
      destruct (IH t v Ht Hall'') as (A & B). destruct (neg_inner_den r v Hr) as (C & D).
      cbn [flatten_rest den_nested_s negb]. split.
      + rewrite !den_s_app, C, D. unfold sgz. rewrite <- !Nat.negb_odd, Hr, Ha. cbn [negb sg].
        pose proof (MergeDen.den_s_neg eqb true (flatten_rest t) v) as N. cbn [negb] in N.
        unfold Merge.den. lia.
      + rewrite !app_length, D. rewrite Nat.even_add, Nat.even_add, B.
        rewrite <- !Nat.negb_odd, Hr, Ha. reflexivity.
  Qed.

  Lemma flatten_den mm v :
    Nat.odd (length mm) = true -> Forall (fun m => Nat.odd (length m) = true) mm ->
    den (flatten mm) v = den_nested eqb mm v.
  Proof.
    intros H Hall. destruct mm as [|f t]; [discriminate|].
    cbn [length] in H. rewrite Nat.odd_succ in H. apply Nat.even_spec in H as [k Hk].
    inversion Hall as [|? ? Hf Hall']; subst.
    destruct (flatten_rest_den k t v Hk Hall') as (A & _).
    unfold flatten, den_nested, Merge.den. cbn [den_nested_s negb]. rewrite den_s_app.
    unfold sgz. rewrite <- Nat.negb_odd, Hf. cbn [negb sg].
    pose proof (MergeDen.den_s_neg eqb true (flatten_rest t) v) as N. cbn [negb] in N.
    unfold Merge.den. lia.
  Qed.

  (** * the boolean checker used on implementation outputs *)
  Lemma den_s_notin s l v : ~ In v l -> den_s s l v = 0.
  Proof.
    revert s; induction l as [|x t IH]; intros s H; [reflexivity|].
    rewrite den_s_cons, IH by (intros C; apply H; now right).
    unfold MergeDen.ind. destruct (eqb x v) eqn:E; [|lia].
    apply eqb_spec in E. subst. exfalso. apply H. now left.
  Qed.

  Lemma eq_dec_of_eqb (x y : T) : {x = y} + {x <> y}.
  Proof.
    destruct (eqb x y) eqn:E; [left; now apply eqb_spec|right].
    intros C. apply eqb_spec in C. congruence.
  Qed.

  Lemma den_eqb_spec l1 l2 :
    den_eqb eqb l1 l2 = true <-> forall v, den l1 v = den l2 v.
  Proof.
    unfold den_eqb. rewrite forallb_forall. split.
    - intros H v. destruct (in_dec eq_dec_of_eqb v (l1 ++ l2)) as [I|I].
      + (* decidable membership up to eqb *) clear -H I eqb_spec. now apply Z.eqb_eq, H.
      + unfold Merge.den. rewrite !den_s_notin; auto; intros C; apply I, in_or_app; auto.
    - intros H v _. apply Z.eqb_eq, H.
  Qed.
End C01.
