(** C24: the theorems about check_out on clean disks and the meaning of the checkers of
    Base/C24Chk.v. *)
From Verif Require Import Base.Prelude Base.FsC Base.WcC Base.C24Chk.
From Verif Require Import Proofs.FsC Proofs.WcCore Proofs.C24Step Proofs.C24Run Proofs.PathOrd Proofs.C24Diff.
From Coq Require Import Lia.
Local Open Scope string_scope.
Local Open Scope list_scope.

Lemma is_tree_in_ext : forall t t' q, (forall p, leaf t p = leaf t' p) -> is_tree_in t q = is_tree_in t' q.
Proof.
  intros t t' q H. destruct (is_tree_in t' q) eqn:E.
  - apply is_tree_in_spec in E as [p [v [A B]]]. apply is_tree_in_spec. exists p, v. now rewrite H.
  - apply is_tree_in_false. intros p v Hp. rewrite H in Hp. exact (proj1 (is_tree_in_false t' q) E p v Hp).
Qed.

Lemma expected_ext : forall t t' u q, (forall p, leaf t p = leaf t' p) -> expected t u q = expected t' u q.
Proof.
  intros t t' u q H. destruct q as [|a q]; [reflexivity|]. unfold expected.
  now rewrite H, (is_tree_in_ext t t' _ H).
Qed.

Lemma models_ext : forall t t' u f, (forall p, leaf t p = leaf t' p) -> models t u f -> models t' u f.
Proof. intros t t' u f H Hm q. rewrite Hm. now apply expected_ext. Qed.


(** ** The meaning of the boolean checkers *)

Lemma prefixes_spec : forall p q, In q (prefixes p) <-> is_prefix q p = true.
Proof.
  induction p as [|x p IH]; intros q; cbn.
  - split; [intros [<-|[]]; reflexivity | intros H; apply is_prefix_nil_r in H; now left].
  - split.
    + intros [<-|H]; [reflexivity|]. apply in_map_iff in H as [r [<- Hr]]. cbn.
      rewrite String.eqb_refl. now apply IH.
    + destruct q as [|y q]; [now left|]. cbn. intros H. apply Bool.andb_true_iff in H as [H1 H2].
      apply String.eqb_eq in H1. subst y. right. apply in_map. now apply IH.
Qed.

Lemma opt_entry_eqb_spec' : forall a b, option_eqb entry_eqb a b = true <-> a = b.
Proof.
  assert (H : forall x y, entry_eqb x y = true <-> x = y).
  { destruct x as [c x|t|], y as [c' x'|t'|]; cbn; try (split; congruence).
    - rewrite Bool.andb_true_iff, String.eqb_eq, Bool.eqb_true_iff.
      split; [intros [-> ->]; reflexivity | intros E; inversion E; auto].
    - rewrite String.eqb_eq. split; congruence. }
  destruct a, b; cbn; try (split; congruence). rewrite H. split; congruence.
Qed.

Lemma models_b_spec : forall t u f, models_b t u f = true <-> models t u f.
Proof.
  intros t u f. unfold models_b. rewrite forallb_forall. split.
  - intros H q. destruct (in_dec path_dec q (candidates t u f)) as [Hin|Hnin].
    + apply opt_entry_eqb_spec'. auto.
    + (* off every candidate: nothing on either side *)
      unfold candidates in Hnin.
      assert (H1 : lookup f q = None).
      { destruct (lookup f q) as [e|] eqn:E; [|reflexivity]. exfalso. apply Hnin. apply in_or_app. left.
        apply in_map_iff. exists (q, e). split; auto. now apply lookup_In. }
      assert (H2 : forall p, In p (keys t) -> is_prefix q p = false).
      { intros p Hp. destruct (is_prefix q p) eqn:E; [|reflexivity]. exfalso. apply Hnin.
        apply in_or_app. right. apply in_or_app. left. apply in_flat_map. exists p. split; auto.
        now apply prefixes_spec. }
      assert (H3 : forall p, In p (map fst u) -> is_prefix q p = false).
      { intros p Hp. destruct (is_prefix q p) eqn:E; [|reflexivity]. exfalso. apply Hnin.
        apply in_or_app. right. apply in_or_app. right. apply in_flat_map. exists p. split; auto.
        now apply prefixes_spec. }
      rewrite H1. destruct q as [|a q]; [reflexivity|]. rewrite expected_cons by discriminate.
      destruct (leaf t (a :: q)) as [v|] eqn:El.
      { exfalso. specialize (H2 _ (leaf_keys t _ _ El)). rewrite is_prefix_refl in H2. discriminate. }
      assert (T1 : is_tree_in t (a :: q) = false).
      { apply is_tree_in_false. intros p v Hp. destruct (is_strict_prefix (a :: q) p) eqn:E; [|reflexivity].
        apply is_strict_prefix_prefix in E. rewrite (H2 p (leaf_keys t _ _ Hp)) in E. discriminate. }
      assert (T2 : fs_below u (a :: q) = false).
      { apply fs_below_false. intros w e Hw. destruct (is_strict_prefix (a :: q) w) eqn:E; [|reflexivity].
        apply is_strict_prefix_prefix in E. rewrite H3 in E; [discriminate|].
        apply in_map_iff. exists (w, e). split; auto. now apply lookup_In. }
      rewrite T1, T2. cbn. destruct (lookup u (a :: q)) as [e|] eqn:E; [|reflexivity]. exfalso.
      assert (Hk : In (a :: q) (map fst u)) by (apply in_map_iff; exists (a :: q, e); split; auto; now apply lookup_In).
      specialize (H3 _ Hk). rewrite is_prefix_refl in H3. discriminate.
  - intros H q _. apply opt_entry_eqb_spec'. apply H.
Qed.

Lemma fs_eqb_spec : forall a b, fs_eqb a b = true <-> forall q, lookup a q = lookup b q.
Proof.
  intros a b. unfold fs_eqb, fs_sub. rewrite Bool.andb_true_iff, !forallb_forall. split.
  - intros [H1 H2] q. destruct (lookup a q) as [e|] eqn:Ea.
    + specialize (H1 (q, e) (lookup_In _ _ _ Ea)). cbn in H1. apply opt_entry_eqb_spec' in H1. congruence.
    + destruct (lookup b q) as [e|] eqn:Eb; [|reflexivity].
      specialize (H2 (q, e) (lookup_In _ _ _ Eb)). cbn in H2. apply opt_entry_eqb_spec' in H2. congruence.
  - intros H. split; intros [q e] _; cbn; apply opt_entry_eqb_spec'; auto.
Qed.

Lemma tree_same_spec : forall a b, tree_same a b = true <-> forall p, leaf a p = leaf b p.
Proof.
  intros a b. unfold tree_same, tree_sub. rewrite Bool.andb_true_iff, !forallb_forall. split.
  - intros [H1 H2] p. destruct (leaf a p) as [v|] eqn:Ea.
    + specialize (H1 (p, v) (leaf_In _ _ _ Ea)). cbn in H1. apply option_tval_eqb_spec in H1. congruence.
    + destruct (leaf b p) as [v|] eqn:Eb; [|reflexivity].
      specialize (H2 (p, v) (leaf_In _ _ _ Eb)). cbn in H2. apply option_tval_eqb_spec in H2. congruence.
  - intros H. split; intros [p v] _; cbn; apply option_tval_eqb_spec; auto.
Qed.

Lemma tree_eqb_spec : forall a b, tree_eqb a b = true <-> a = b.
Proof.
  unfold tree_eqb. induction a as [|[p v] a IH]; destruct b as [|[q w] b]; cbn; try (split; congruence).
  unfold pair_eqb. cbn. rewrite !Bool.andb_true_iff, IH, path_eqb_spec.
  assert (H : tval_eqb v w = true <-> v = w).
  { pose proof (option_tval_eqb_spec (Some v) (Some w)) as X. cbn in X. rewrite X. split; congruence. }
  rewrite H. split; [intros [[-> ->] ->]; reflexivity | intros E; inversion E; auto].
Qed.

(** What [okb] accepts: the statement of C24 about one recorded sequence. *)
Definition step_okp (u : fs) (sparse : list path) (s : step) : Prop :=
  models (restrict (matches sparse) (st_tree s)) u (st_disk s)
  /\ exists r, st_res s = ROk r /\ n_skipped r = 0%N.

Definition case_ok (c : case) : Prop :=
  (forall s, In s (c_steps c) -> step_okp (c_disk0 c) (c_sparse c) s)
  /\ (exists t, c_snapshot c = Some t /\ forall p, leaf t p = leaf (last_tree c) p)
  /\ snap (last_disk c) (keys (restrict (matches (c_sparse c)) (last_tree c)))
     = restrict (matches (c_sparse c)) (last_tree c)
  /\ (forall q, lookup (c_scratch c) q = lookup (last_disk c) q)
  /\ (forall b, In b (c_real_only c) -> b = true).

Lemma step_ok_spec : forall u sp s, step_ok u sp s = true <-> step_okp u sp s.
Proof.
  intros u sp s. unfold step_ok, step_okp. rewrite Bool.andb_true_iff, models_b_spec. split.
  - intros [H1 H2]. split; auto. destruct (st_res s); try discriminate. apply N.eqb_eq in H2. eauto.
  - intros [H1 [r [H2 H3]]]. split; auto. rewrite H2. now apply N.eqb_eq.
Qed.

Theorem okb_spec : forall c, C24Chk.okb c = true <-> case_ok c.
Proof.
  intros c. unfold C24Chk.okb, case_ok.
  rewrite !Bool.andb_true_iff, !forallb_forall, tree_eqb_spec, fs_eqb_spec. split.
  - intros [[[[H1 H2] H3] H4] H5]. split; [intros s Hs; apply step_ok_spec; auto|]. split; [|auto].
    destruct (c_snapshot c) as [t|]; cbn in H2; [|discriminate]. exists t. split; auto. now apply tree_same_spec.
  - intros [H1 [[t [H2 H2']] [H3 [H4 H5]]]]. repeat split; auto.
    + intros s Hs. apply step_ok_spec. auto.
    + rewrite H2. cbn. now apply tree_same_spec.
Qed.

Section WithReserved.
Variable rn : list name.
Local Notation tok := (C24Step.tok rn).
Local Notation uok := (C24Step.uok rn).
Local Notation uokp := (C24Diff.uokp rn).
Local Notation run_update := (WcC.run_update rn).
Local Notation check_out := (WcC.check_out rn).

(** In the (unrestricted) tree no file has files below it. *)
Definition flat_ok (t : tree) : Prop := forall p v, leaf t p = Some v -> is_tree_in t p = false.

(** ** Checkout gives the disk of the new tree *)

Theorem update_clean : forall m t1 t2 u f states,
  tok (restrict m t1) -> tok (restrict m t2) -> flat_ok t1 ->
  uokp u (keys (restrict m t1) ++ keys (restrict m t2)) ->
  models (restrict m t1) u f ->
  exists st, o_res (run_update f states (diff_fs m t1 t2)) = ROk st /\ n_skipped st = 0%N
    /\ models (restrict m t2) u (o_fs (run_update f states (diff_fs m t1 t2))).
Proof.
  intros m t1 t2 u f states HA HB H1 Hu Hm.
  destruct (diff_fs_valid rn m t1 t2 u HA HB H1 Hu) as [Hv [Hfin [Hs Hd]]].
  assert (HuA : uok u (restrict m t1)).
  { eapply uokp_uok; eauto. intros p v Hp. apply in_or_app. left. eapply leaf_keys; eauto. }
  destruct (clean_update rn _ _ u f states HA HuA Hv Hm Hs Hd) as [st [E1 [E2 [_ [E3 _]]]]].
  exists st. split; [exact E1|]. split; [exact E2|]. eapply models_ext; eauto.
Qed.

Theorem update_clean_stats : forall m t1 t2 u f states,
  tok (restrict m t1) -> tok (restrict m t2) -> flat_ok t1 ->
  uokp u (keys (restrict m t1) ++ keys (restrict m t2)) ->
  models (restrict m t1) u f ->
  o_res (run_update f states (diff_fs m t1 t2)) = ROk (fold_left bump (diff_fs m t1 t2) stats0)
  /\ models (restrict m t2) u (o_fs (run_update f states (diff_fs m t1 t2))).
Proof.
  intros m t1 t2 u f states HA HB H1 Hu Hm.
  destruct (diff_fs_valid rn m t1 t2 u HA HB H1 Hu) as [Hv [Hfin [Hs Hd]]].
  assert (HuA : uok u (restrict m t1)).
  { eapply uokp_uok; eauto. intros p v Hp. apply in_or_app. left. eapply leaf_keys; eauto. }
  destruct (clean_update rn _ _ u f states HA HuA Hv Hm Hs Hd) as [st [E1 [E2 [E4 [E3 _]]]]].
  split; [congruence|]. eapply models_ext; eauto.
Qed.

Theorem check_out_clean : forall w t2 u f,
  let m := matches (wc_sparse w) in
  tok (restrict m (wc_tree w)) -> tok (restrict m t2) -> flat_ok (wc_tree w) ->
  uokp u (keys (restrict m (wc_tree w)) ++ keys (restrict m t2)) ->
  models (restrict m (wc_tree w)) u f ->
  let '(o, w') := check_out f w t2 in
  (exists st, o_res o = ROk st /\ n_skipped st = 0%N)
  /\ models (restrict m t2) u (o_fs o)
  /\ wc_tree w' = t2 /\ wc_sparse w' = wc_sparse w.
Proof.
  intros w t2 u f m HA HB H1 Hu Hm. unfold WcC.check_out.
  destruct (update_clean m (wc_tree w) t2 u f (wc_states w) HA HB H1 Hu Hm) as [st [E1 [E2 E3]]].
  fold m. rewrite E1. cbn. repeat split; eauto.
Qed.

(** Same disk whichever tree the working copy came from. *)
Theorem path_independent : forall m ta tb t2 u fa fb sa sb,
  tok (restrict m ta) -> tok (restrict m tb) -> tok (restrict m t2) -> flat_ok ta -> flat_ok tb ->
  uokp u (keys (restrict m ta) ++ keys (restrict m t2)) ->
  uokp u (keys (restrict m tb) ++ keys (restrict m t2)) ->
  models (restrict m ta) u fa -> models (restrict m tb) u fb ->
  forall q, lookup (o_fs (run_update fa sa (diff_fs m ta t2))) q
          = lookup (o_fs (run_update fb sb (diff_fs m tb t2))) q.
Proof.
  intros m ta tb t2 u fa fb sa sb Ha Hb H2 Hfa Hfb Hua Hub Hma Hmb q.
  destruct (update_clean m ta t2 u fa sa Ha H2 Hfa Hua Hma) as [_ [_ [_ E1]]].
  destruct (update_clean m tb t2 u fb sb Hb H2 Hfb Hub Hmb) as [_ [_ [_ E2]]].
  now rewrite E1, E2.
Qed.

(** ** The declarative snapshot is a fixpoint *)

Lemma nodup_leaf : forall (t : tree) p v, nodup_paths (keys t) = true -> In (p, v) t -> leaf t p = Some v.
Proof.
  induction t as [|[q w] t IH]; intros p v Hn Hin; [contradiction|]. cbn in *.
  apply Bool.andb_true_iff in Hn as [Hn1 Hn2]. destruct Hin as [Hin|Hin].
  - inversion Hin; subst. now rewrite path_eqb_refl.
  - destruct (path_eqb q p) eqn:E; [|now apply IH].
    apply path_eqb_spec in E. subst q. exfalso. apply Bool.negb_true_iff in Hn1.
    assert (Hx : mem path_eqb p (map fst t) = true); [|congruence].
    apply mem_path_In. apply in_map_iff. exists (p, v). auto.
Qed.

Lemma snap_exact : forall f (l : tree),
  (forall p v, In (p, v) l -> lookup f p = Some (materialize v)) -> snap f (keys l) = l.
Proof.
  induction l as [|[p v] l IH]; intros H; [reflexivity|]. cbn.
  rewrite (H p v (or_introl eq_refl)). destruct v; cbn; f_equal; apply IH; intros; apply H; now right.
Qed.

Theorem snapshot_fixpoint : forall t u f,
  tok t -> nodup_paths (keys t) = true -> models t u f -> snap f (keys t) = t.
Proof.
  intros t u f [Ht _] Hn Hm. apply snap_exact. intros p v Hin.
  pose proof (nodup_leaf t p v Hn Hin) as Hl. destruct (Ht p v Hl) as [Hp _].
  rewrite Hm, expected_cons by assumption. now rewrite Hl.
Qed.

(** ** Sequences of checkouts *)

Fixpoint run_seq (f : fs) (w : wc) (ts : list tree) : option (fs * wc) :=
  match ts with
  | [] => Some (f, w)
  | t :: r => let '(o, w') := check_out f w t in
              match o_res o with
              | ROk st => if N.eqb (n_skipped st) 0 then run_seq (o_fs o) w' r else None
              | _ => None
              end
  end.

Lemma uokp_incl : forall u k k', uokp u k -> (forall p, In p k' -> In p k) -> uokp u k'.
Proof.
  intros u k k' [H1 [H2 H3]] Hk. split; [exact H1|]. split; [exact H2|].
  intros x e Hx. destruct (H3 x e Hx) as [A B]. split.
  - intros p Hp. apply A. auto.
  - intros [p [Hp Hxp]]. destruct B as [-> [w [e' [C [D E]]]]]; [exists p; auto|].
    split; [reflexivity|]. exists w, e'. repeat split; auto.
Qed.

Lemma last_cons_default : forall (r : list tree) t d, last (t :: r) d = last r t.
Proof.
  induction r as [|x r IH]; intros t d; [reflexivity|].
  change (last (t :: x :: r) d) with (last (x :: r) d). rewrite !IH. reflexivity.
Qed.

Theorem sequence_clean : forall sp ts w u f,
  wc_sparse w = sp ->
  tok (restrict (matches sp) (wc_tree w)) -> flat_ok (wc_tree w) ->
  (forall t, In t ts -> tok (restrict (matches sp) t) /\ flat_ok t) ->
  uokp u (keys (restrict (matches sp) (wc_tree w)) ++ flat_map (fun t => keys (restrict (matches sp) t)) ts) ->
  models (restrict (matches sp) (wc_tree w)) u f ->
  exists f' w', run_seq f w ts = Some (f', w')
    /\ wc_tree w' = last ts (wc_tree w) /\ wc_sparse w' = sp
    /\ models (restrict (matches sp) (wc_tree w')) u f'.
Proof.
  intros sp. induction ts as [|t r IH]; intros w u f Hsp H0 Hf0 Hts Hu Hm.
  - exists f, w. cbn. auto.
  - destruct (Hts t (or_introl eq_refl)) as [Ht Hft].
    assert (Hu1 : uokp u (keys (restrict (matches sp) (wc_tree w)) ++ keys (restrict (matches sp) t))).
    { eapply uokp_incl; [exact Hu|]. intros p Hp. cbn. apply in_app_or in Hp as [Hp|Hp]; apply in_or_app; auto.
      right. apply in_or_app. now left. }
    pose proof (check_out_clean w t u f) as Hc. cbn zeta in Hc. rewrite Hsp in Hc.
    specialize (Hc H0 Ht Hf0 Hu1 Hm). cbn [run_seq].
    destruct (check_out f w t) as [o w1]. destruct Hc as [[st [E1 E2]] [Hm1 [Ew1 Es1]]].
    rewrite E1, E2. cbn [N.eqb].
    assert (Hsp1 : wc_sparse w1 = sp) by congruence.
    assert (P1 : tok (restrict (matches sp) (wc_tree w1))) by now rewrite Ew1.
    assert (P2 : flat_ok (wc_tree w1)) by now rewrite Ew1.
    assert (P3 : forall t', In t' r -> tok (restrict (matches sp) t') /\ flat_ok t').
    { intros t' Ht'. apply Hts. now right. }
    assert (P4 : uokp u (keys (restrict (matches sp) (wc_tree w1))
                         ++ flat_map (fun t => keys (restrict (matches sp) t)) r)).
    { rewrite Ew1. eapply uokp_incl; [exact Hu|]. intros p Hp. cbn.
      apply in_app_or in Hp as [Hp|Hp]; apply in_or_app; right; apply in_or_app; auto. }
    assert (P5 : models (restrict (matches sp) (wc_tree w1)) u (o_fs o)) by now rewrite Ew1.
    destruct (IH w1 u (o_fs o) Hsp1 P1 P2 P3 P4 P5) as [f' [w' [A [B [C D]]]]].
    exists f', w'. split; [exact A|]. split; [|split; [exact C | exact D]].
    rewrite B, Ew1. symmetry. apply last_cons_default.
Qed.

(** ** The hypotheses, decided on the recorded inputs *)

Lemma restrict_leaf_sub : forall m t p v, leaf (restrict m t) p = Some v -> leaf t p = Some v.
Proof. intros m t p v H. rewrite leaf_restrict in H. destruct (m p); [exact H | discriminate]. Qed.

Lemma tok_restrict : forall m t, tok t -> tok (restrict m t).
Proof.
  intros m t [H1 H2]. split.
  - intros p v Hp. apply (H1 p v). eapply restrict_leaf_sub; eauto.
  - intros p q v w Hp Hq. eapply H2; eapply restrict_leaf_sub; eauto.
Qed.

Lemma nodup_keys_In : forall (t : tree) p v, leaf t p = Some v -> In (p, v) t.
Proof. intros. now apply leaf_In. Qed.

Lemma tree_ok_b_sound : forall t, tree_ok_b rn t = true ->
  tok t /\ nodup_paths (keys t) = true /\ flat_ok t.
Proof.
  intros t H. unfold tree_ok_b in H. apply Bool.andb_true_iff in H as [H H3].
  apply Bool.andb_true_iff in H as [H1 H2]. rewrite forallb_forall in H2, H3.
  assert (Hpf : forall p q v w, leaf t p = Some v -> leaf t q = Some w -> is_strict_prefix p q = false).
  { intros p q v w Hp Hq. specialize (H3 (p, v) (leaf_In _ _ _ Hp)). cbn in H3. rewrite forallb_forall in H3.
    specialize (H3 (q, w) (leaf_In _ _ _ Hq)). cbn in H3. now apply Bool.negb_true_iff in H3. }
  split; [split|split]; auto.
  - intros p v Hp. specialize (H2 (p, v) (leaf_In _ _ _ Hp)). cbn in H2.
    apply Bool.andb_true_iff in H2 as [H2 H2c]. apply Bool.andb_true_iff in H2 as [H2a H2b].
    repeat split; auto; [destruct p; [discriminate|discriminate] | now apply Bool.negb_true_iff in H2c].
  - intros p v Hp. apply is_tree_in_false. intros q w Hq. eapply Hpf; eauto.
Qed.

Lemma off_paths_spec : forall k w, off_paths k w = true <-> forall p, In p k -> is_prefix w p = false.
Proof.
  intros k w. unfold off_paths. rewrite forallb_forall. split; intros H p Hp; specialize (H p Hp).
  - now apply Bool.negb_true_iff in H.
  - now apply Bool.negb_true_iff.
Qed.

Lemma compat_b_sound : forall u k,
  wf_fs u -> WcCore.anchor rn u -> compat_b u k = true -> uokp u k.
Proof.
  intros u k Hwf Ha H. split; [intros x e Hx; now apply Hwf in Hx|]. split; [exact Ha|].
  unfold compat_b in H. rewrite forallb_forall in H.
  intros x e Hx. specialize (H (x, e) (lookup_In _ _ _ Hx)). cbn in H.
  apply Bool.andb_true_iff in H as [H1 H2]. rewrite forallb_forall in H1. split.
  - intros p Hp. specialize (H1 p Hp). now apply Bool.negb_true_iff in H1.
  - intros [p [Hp Hxp]]. apply Bool.orb_true_iff in H2 as [H2|H2].
    + exfalso. apply Bool.negb_true_iff in H2.
      assert (existsb (fun p0 => is_strict_prefix x p0) k = true); [|congruence].
      apply existsb_exists. eauto.
    + apply Bool.andb_true_iff in H2 as [H2 H3]. rewrite Hx in H2. destruct e; try discriminate.
      split; [reflexivity|]. apply existsb_exists in H3 as [[w e'] [Hin H3]]. cbn in H3.
      apply Bool.andb_true_iff in H3 as [H3 H4]. apply In_lookup in Hin as [e'' He''].
      exists w, e''. repeat split; auto. now apply off_paths_spec.
Qed.

(** The workspace before the first checkout is the disk of the empty tree. *)
Lemma models_empty : forall u, wf_fs u -> models [] u u.
Proof.
  intros u Hwf q. destruct q as [|a q].
  - cbn. destruct (lookup u []) as [e|] eqn:E; [|reflexivity]. apply Hwf in E. tauto.
  - rewrite expected_cons by discriminate. cbn [leaf is_tree_in existsb orb].
    destruct (fs_below u (a :: q)) eqn:E; [|reflexivity].
    apply fs_below_spec in E as [w [e [Hw Hq]]]. apply Hwf in Hw as [Hwne Hd].
    apply is_dir_lookup; [discriminate|]. eapply all_dirs_spec; [exact Hd|].
    rewrite (parent_last w Hwne) in Hq. eapply strict_prefix_snoc; eauto.
Qed.

Lemma keys_restrict_sub : forall m t p, In p (keys (restrict m t)) -> In p (keys t).
Proof.
  intros m t p H. unfold keys, restrict in *. apply in_map_iff in H as [[q v] [<- H]].
  apply filter_In in H as [H _]. apply in_map_iff. exists (q, v). auto.
Qed.

Theorem pre_ok_sound : forall c, pre_ok rn c = true ->
  wf_fs (c_disk0 c) /\ WcCore.anchor rn (c_disk0 c)
  /\ (forall s, In s (c_steps c) ->
        tok (st_tree s) /\ nodup_paths (keys (st_tree s)) = true /\ flat_ok (st_tree s))
  /\ uokp (c_disk0 c) (flat_map (fun s => keys (st_tree s)) (c_steps c)).
Proof.
  intros c H. unfold pre_ok in H. apply Bool.andb_true_iff in H as [H H4].
  apply Bool.andb_true_iff in H as [H H3]. apply Bool.andb_true_iff in H as [H1 H2].
  assert (Hwf : wf_fs (c_disk0 c)).
  { intros q e Hq. rewrite forallb_forall in H1. specialize (H1 (q, e) (lookup_In _ _ _ Hq)). cbn in H1.
    destruct q; [discriminate|]. split; [discriminate | exact H1]. }
  assert (Ha : WcCore.anchor rn (c_disk0 c)).
  { apply existsb_exists in H2 as [[q e] [Hin H2]]. cbn in H2. destruct q as [|x [|y q]]; try discriminate.
    exists x. split; auto. apply In_lookup in Hin as [e' He']. congruence. }
  split; [exact Hwf|]. split; [exact Ha|]. split.
  - intros s Hs. rewrite forallb_forall in H3. apply tree_ok_b_sound. auto.
  - now apply compat_b_sound.
Qed.

End WithReserved.
