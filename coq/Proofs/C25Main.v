(** C25: the theorems about [run_update] over arbitrary disks, and the meaning of the
    boolean checkers of Base/C25Chk.v. *)
From Verif Require Import Base.Prelude Base.FsC Base.WcC Base.C25Chk Proofs.FsC Proofs.WcCore.
From Coq Require Import Lia.
Local Open Scope string_scope.
Local Open Scope list_scope.

Section WithReserved.
Variable rn : list name.
Local Notation is_reserved := (FsC.is_reserved rn).
Local Notation has_reserved := (WcC.has_reserved rn).
Local Notation process_entry := (WcC.process_entry rn).
Local Notation process_all := (WcC.process_all rn).
Local Notation run_update := (WcC.run_update rn).
Local Notation create_parent_dirs := (WcC.create_parent_dirs rn).
Local Notation can_create_new_file := (WcC.can_create_new_file rn).
Local Notation entry_tail := (WcC.entry_tail rn).
Local Notation anchor := (WcCore.anchor rn).
Local Notation sinv := (WcCore.sinv rn).

Definition paths_ok (d : list dentry) : Prop := forall e, In e d -> d_path e <> [].

(** The disk a checkout starts from: well-formed, and the workspace root holds an entry
    with a reserved name (the [.jj] directory). *)
Definition start_ok (f : fs) : Prop := wf_fs f /\ anchor f.

Lemma st0_sinv : forall f, start_ok f -> sinv (st0 f).
Proof.
  intros f [Hwf Ha]. unfold WcCore.sinv, st0. cbn.
  split; [split; [exact Hwf | constructor] | split; [exact Ha | split; reflexivity]].
Qed.

Lemma result_of_err_escape : forall e, result_of_err e = REscape -> e = EEscape.
Proof. destruct e; cbn; congruence. Qed.

Theorem run_update_main : forall f states d,
  start_ok f -> paths_ok d ->
  let o := run_update f states d in
  wf_fs (o_fs o) /\ Forall (fun ev => ev_safe ev = true) (o_trace o) /\ o_res o <> REscape
  /\ rel d f (o_fs o)
  /\ (forall q, has_reserved q = true -> lookup (o_fs o) q = lookup f q).
Proof.
  intros f states d Hs Hp. unfold WcC.run_update.
  destruct (process_all (st0 f) d) as [s|er s] eqn:E;
    apply process_all_spec in E; auto using st0_sinv; destruct E as [[Hwf Hsafe] [Hne [Hrel Hres]]];
    cbn [pr_state st0 s_w w_fs] in *.
  - destruct (merge_in_asserts (s_changed s) (s_deleted s)); cbn;
      (split; [exact Hwf | split; [apply Forall_rev; exact Hsafe | split; [discriminate | split; [exact Hrel | exact Hres]]]]).
  - cbn. split; [exact Hwf | split; [apply Forall_rev; exact Hsafe | split; [| split; [exact Hrel | exact Hres]]]].
    intros H. apply result_of_err_escape in H. subst er. exact Hne.
Qed.

(** ** Consequences of [rel] *)

Lemma rel_untouched_leaf : forall d f f' q e,
  rel d f f' -> lookup f q = Some e -> e <> EDir ->
  (forall en, In en d -> d_path en = q -> d_before en = None) ->
  lookup f' q = Some e.
Proof.
  intros d f f' q e H Hq He Hnt. destruct (H q) as [A|[[A _]|[[_ [en [B [C D]]]]|[A _]]]]; try congruence.
  exfalso. unfold tracked in D. rewrite (Hnt en B (eq_sym C)) in D. discriminate.
Qed.

Lemma rel_untouched_dir : forall d f f' q,
  rel d f f' -> lookup f q = Some EDir ->
  (forall en, In en d -> is_strict_prefix q (d_path en) = true -> d_after en <> None) ->
  lookup f' q = Some EDir.
Proof.
  intros d f f' q H Hq Hnr. destruct (H q) as [A|[[A _]|[[A _]|[_ [en [B [C D]]]]]]]; try congruence.
  - rewrite Hq in A. discriminate.
  - exfalso. unfold removal in D. specialize (Hnr en B C). destruct (d_after en); [discriminate|congruence].
Qed.

Lemma rel_confined : forall d f f' q,
  rel d f f' -> lookup f' q <> lookup f q -> exists en, In en d /\ is_prefix q (d_path en) = true.
Proof.
  intros d f f' q H Hq. destruct (H q) as [A|[[_ [en [B C]]]|[[_ [en [B [C _]]]]|[_ [en [B [C _]]]]]]].
  - contradiction.
  - eauto.
  - exists en. split; auto. subst q. apply is_prefix_refl.
  - exists en. split; auto. now apply is_strict_prefix_prefix.
Qed.

(** ** Skipped paths *)

Lemma bump_skipped : forall t e, n_skipped (bump t e) = n_skipped t.
Proof. intros t e. unfold bump. destruct (d_after e), (d_before e); reflexivity. Qed.

Ltac break_match_hyp H :=
  repeat match type of H with
         | context [match ?x with _ => _ end] => destruct x eqn:?
         | context [if ?x then _ else _] => destruct x eqn:?
         end.

(** Bookkeeping of one entry: the list of changed states only grows, the skip counter never
    decreases. *)
Lemma entry_tail_books : forall s e dp s',
  entry_tail s e dp = PDone s' ->
  (exists l, s_changed s' = s_changed s ++ l) /\ (n_skipped (s_stats s) <= n_skipped (s_stats s'))%N.
Proof.
  intros s e dp s' H. unfold WcC.entry_tail in H.
  break_match_hyp H; inversion H; subst; cbn; split; try lia; eauto; exists []; now rewrite app_nil_r.
Qed.

Lemma process_entry_books : forall s e s',
  process_entry s e = PDone s' ->
  (exists l, s_changed s' = s_changed s ++ l) /\ (n_skipped (s_stats s) <= n_skipped (s_stats s'))%N.
Proof.
  intros s e s' H. unfold WcC.process_entry in H. cbn [s_prev s_w s_changed s_deleted s_stats] in H.
  destruct (common_prefix (d_path e) (s_prev s)) as [c adj].
  destruct adj as [|a adj'].
  - destruct (forallb valid_name (d_path e)); [|discriminate].
    apply entry_tail_books in H. cbn in H. now rewrite bump_skipped in H.
  - destruct (forallb valid_name c); cbn [negb] in H; [|discriminate].
    destruct (create_parent_dirs (s_w s) c (a :: adj')) as [[dp|] w1|er w1]; [| |discriminate].
    + apply entry_tail_books in H. cbn in H. now rewrite bump_skipped in H.
    + inversion H; subst. cbn. rewrite bump_skipped. split; [eauto | lia].
Qed.

Lemma process_all_books : forall d s s',
  process_all s d = PDone s' ->
  (exists l, s_changed s' = s_changed s ++ l) /\ (n_skipped (s_stats s) <= n_skipped (s_stats s'))%N.
Proof.
  induction d as [|e rest IH]; intros s s' H; cbn in H.
  - inversion H; subst. split; [exists []; now rewrite app_nil_r | lia].
  - destruct (process_entry s e) as [s1|] eqn:E; [|discriminate].
    apply process_entry_books in E as [[l1 A1] B1]. apply IH in H as [[l2 A2] B2].
    split; [exists (l1 ++ l2); now rewrite A2, A1, app_assoc | lia].
Qed.

(** An entry that asks for a new file where a file or link is in the way (at the path or
    above it) is skipped: placeholder state, counter, or the whole update fails. *)
Lemma process_entry_blocked : forall s e q r,
  sinv s -> d_path e <> [] -> d_before e = None ->
  is_prefix q (d_path e) = true -> is_leaf (lookup (w_fs (s_w s)) q) = true ->
  process_entry s e = r ->
  match r with
  | PDone s' => s_changed s' = s_changed s ++ [(d_path e, FPlaceholder)]
                /\ n_skipped (s_stats s') = (n_skipped (s_stats s) + 1)%N
  | PFail _ _ => True
  end.
Proof.
  intros s e q r [Hg [Hanc [Hprev Hprevr]]] Hp Hb Hq Hleaf H.
  assert (Hqne : q <> []).
  { destruct Hg as [Hwf _]. destruct (lookup (w_fs (s_w s)) q) eqn:E; [|discriminate].
    now apply Hwf in E. }
  unfold WcC.process_entry in H. cbn [s_prev s_w s_changed s_deleted s_stats] in H.
  destruct (common_prefix (d_path e) (s_prev s)) as [c adj] eqn:Ec.
  apply common_prefix_spec in Ec as [Hpath Hc].
  assert (Hdc : all_dirs (w_fs (s_w s)) c = true) by (eapply all_dirs_prefix; eauto).
  assert (Hrc : has_reserved c = false) by (eapply has_reserved_prefix_false; eauto).
  assert (Hnotdir : forall f', all_dirs f' q = true -> lookup f' q = lookup (w_fs (s_w s)) q -> False).
  { intros f' Hd He. assert (Hdq : is_dir f' q = true) by (eapply all_dirs_spec; eauto using is_prefix_refl).
    apply is_dir_lookup in Hdq; auto. rewrite He in Hdq. rewrite Hdq in Hleaf. discriminate. }
  destruct adj as [|a adj'].
  - exfalso. rewrite app_nil_r in Hpath. subst c. apply (Hnotdir (w_fs (s_w s))); auto.
    eapply all_dirs_prefix; [exact Hprev|]. eapply is_prefix_trans; eauto.
  - set (adj := a :: adj') in *. assert (Hadj : adj <> []) by discriminate.
    destruct (forallb valid_name c); cbn [negb] in H; [|subst r; exact I].
    destruct (create_parent_dirs (s_w s) c adj) as [[dp|] w1|er w1] eqn:E1;
      apply create_parent_dirs_spec in E1; auto; destruct E1 as [Hg1 [Hne1 [Hmd [Hrs Hpost]]]];
      cbn [res_world] in *; [| subst r; cbn; rewrite bump_skipped; auto | subst r; exact I].
    destruct Hpost as [Hdp [Hd1 [Hr1 Hv1]]]. rewrite <- Hpath in Hdp. subst dp.
    assert (Hsameq : lookup (w_fs w1) q = lookup (w_fs (s_w s)) q).
    { destruct (Hmd q) as [A|[A _]]; [exact A|]. rewrite A in Hleaf. discriminate. }
    (* q is the path itself: otherwise it lies on the chain of directories just checked *)
    apply is_prefix_cases in Hq as [Hq|Hq].
    2:{ exfalso. apply (Hnotdir (w_fs w1)); auto. eapply all_dirs_prefix; [exact Hd1|].
        rewrite (parent_last (d_path e) Hp) in Hq. eapply strict_prefix_snoc; eauto. }
    subst q. unfold WcC.entry_tail in H. cbn [s_w d_path] in H. rewrite Hb in H.
    destruct (can_create_new_file w1 (d_path e)) as [[|] w2|er w2] eqn:E2;
      apply can_create_new_file_spec in E2; auto; destruct E2 as [_ [_ [_ Hpost2]]].
    + exfalso. destruct Hpost2 as [A _]. rewrite Hsameq in A. rewrite A in Hleaf. discriminate.
    + subst r. cbn. rewrite bump_skipped. auto.
    + subst r. exact I.
Qed.

Lemma rel_snoc : forall done e f0 f f1,
  rel done f0 f -> stepok (d_path e) (tracked e) (removal e) f f1 -> rel (done ++ [e]) f0 f1.
Proof.
  intros done e f0 f f1 H1 H2 q.
  assert (Hin : forall x, In x done -> In x (done ++ [e])) by (intros; apply in_or_app; now left).
  assert (Hine : In e (done ++ [e])) by (apply in_or_app; right; now left).
  assert (Hkeep : lookup f q <> lookup f0 q ->
          (lookup f0 q = None /\ exists e', In e' (done ++ [e]) /\ is_prefix q (d_path e') = true)
          \/ (is_leaf (lookup f0 q) = true /\ exists e', In e' (done ++ [e]) /\ q = d_path e' /\ tracked e' = true)
          \/ (lookup f0 q = Some EDir /\ exists e', In e' (done ++ [e])
              /\ is_strict_prefix q (d_path e') = true /\ removal e' = true)).
  { intros Hd. destruct (H1 q) as [A|[[A [e' [B C]]]|[[A [e' [B C]]]|[A [e' [B C]]]]]]; [contradiction| | |].
    - left. split; auto. exists e'. auto.
    - right; left. split; auto. exists e'. auto.
    - right; right. split; auto. exists e'. auto. }
  destruct (H2 q) as [A|Hne].
  - destruct (H1 q) as [B|[[B [e' [C D]]]|[[B [e' [C D]]]|[B [e' [C D]]]]]].
    + left. congruence.
    + right; left. split; auto. exists e'. auto.
    + right; right; left. split; auto. exists e'. auto.
    + right; right; right. split; auto. exists e'. auto.
  - right. destruct (lookup f0 q) as [[c x|t|]|] eqn:E0.
    + (* a file in f0 *)
      destruct Hne as [[A B]|[[A [B C]]|[A [B C]]]].
      * apply Hkeep. congruence.
      * destruct (lookup f q) eqn:Ef; [|discriminate]. right; left. split; auto. exists e. auto.
      * apply Hkeep. congruence.
    + destruct Hne as [[A B]|[[A [B C]]|[A [B C]]]].
      * apply Hkeep. congruence.
      * right; left. split; auto. exists e. auto.
      * apply Hkeep. congruence.
    + destruct Hne as [[A B]|[[A [B C]]|[A [B C]]]].
      * apply Hkeep. congruence.
      * apply Hkeep. intros E. rewrite E in A. discriminate.
      * right; right. split; auto. exists e. auto.
    + destruct Hne as [[A B]|[[A [B C]]|[A [B C]]]].
      * left. split; auto. exists e. auto.
      * left. split; auto. exists e. split; auto. subst q. apply is_prefix_refl.
      * left. split; auto. exists e. split; auto. now apply is_strict_prefix_prefix.
Qed.

Lemma tracked_changed_false : forall d q,
  tracked_changed d q = false -> forall en, In en d -> d_path en = q -> d_before en = None.
Proof.
  intros d q H en Hin Hq. unfold tracked_changed in H.
  destruct (d_before en) eqn:E; [|reflexivity]. exfalso.
  assert (existsb (fun e => path_eqb (d_path e) q && is_some (d_before e)) d = true).
  { apply existsb_exists. exists en. split; auto. rewrite Hq, path_eqb_refl, E. reflexivity. }
  congruence.
Qed.

Lemma blocked_spec : forall d f0 e,
  blocked d f0 e = true ->
  d_before e = None /\ d_after e <> None /\
  exists q, is_prefix q (d_path e) = true /\ is_leaf (lookup f0 q) = true /\ tracked_changed d q = false.
Proof.
  intros d f0 e H. unfold blocked, wants_new, obstacle in H.
  apply Bool.andb_true_iff in H as [H1 H2]. apply Bool.andb_true_iff in H1 as [A B].
  apply existsb_exists in H2 as [[q x] [_ H2]]. cbn in H2.
  apply Bool.andb_true_iff in H2 as [H2 C]. apply Bool.andb_true_iff in H2 as [D E].
  split; [destruct (d_before e); [discriminate|reflexivity]|].
  split; [destruct (d_after e); [discriminate|discriminate]|].
  exists q. repeat split; auto. now apply Bool.negb_true_iff in C.
Qed.

Lemma process_all_skips : forall dall f0 rest done s s',
  sinv s -> paths_ok rest -> rel done f0 (w_fs (s_w s)) ->
  (forall x, In x done -> In x dall) -> (forall x, In x rest -> In x dall) ->
  process_all s rest = PDone s' ->
  (n_skipped (s_stats s) + N.of_nat (length (filter (blocked dall f0) rest)) <= n_skipped (s_stats s'))%N
  /\ forall e, In e rest -> blocked dall f0 e = true -> In (d_path e, FPlaceholder) (s_changed s').
Proof.
  intros dall f0. induction rest as [|e rest IH]; intros done s s' Hinv Hp Hrel Hd Hr H.
  - cbn in H. inversion H; subst. cbn. split; [lia | intros e []].
  - cbn in H. destruct (process_entry s e) as [s1|er s1] eqn:E; [|discriminate].
    assert (Hpe : d_path e <> []) by (apply Hp; now left).
    pose proof E as Espec. apply process_entry_spec in Espec; auto.
    destruct Espec as [_ [_ [Hstep [_ Hinv1]]]]. cbn [pr_state] in *.
    assert (Hrel1 : rel (done ++ [e]) f0 (w_fs (s_w s1))) by (eapply rel_snoc; eauto).
    assert (Hd1 : forall x, In x (done ++ [e]) -> In x dall).
    { intros x Hx. apply in_app_or in Hx as [Hx|[<-|[]]]; auto. apply Hr. now left. }
    specialize (IH (done ++ [e]) s1 s' Hinv1 (fun x Hx => Hp x (or_intror Hx)) Hrel1 Hd1
                   (fun x Hx => Hr x (or_intror Hx)) H).
    destruct IH as [IH1 IH2].
    destruct (process_all_books rest s1 s' H) as [[l Hl] _].
    cbn [filter]. destruct (blocked dall f0 e) eqn:Eb.
    + apply blocked_spec in Eb as [Hb [_ [q [Hq1 [Hq2 Hq3]]]]].
      assert (Hqs : lookup (w_fs (s_w s)) q = lookup f0 q).
      { destruct (lookup f0 q) as [en|] eqn:E0; [|discriminate].
        eapply rel_untouched_leaf; eauto.
        - intros ->. discriminate.
        - intros en' Hin' Hp'. eapply tracked_changed_false; eauto. }
      pose proof (process_entry_blocked s e q (PDone s1) Hinv Hpe Hb Hq1) as Hblk.
      rewrite Hqs in Hblk. specialize (Hblk Hq2 E). cbn in Hblk. destruct Hblk as [Hc Hn].
      split.
      * cbn [length]. lia.
      * intros e' [<-|Hin] He'.
        -- rewrite Hl, Hc. apply in_or_app. left. apply in_or_app. right. now left.
        -- apply IH2; auto.
    + split.
      * destruct (process_entry_books s e s1 E) as [_ Hle]. lia.
      * intros e' [<-|Hin] He'; [congruence|]. apply IH2; auto.
Qed.

Lemma has_placeholder_merge_in : forall states changed deleted p,
  In (p, FPlaceholder) changed -> has_placeholder (merge_in states changed deleted) p = true.
Proof.
  intros states changed deleted p H. unfold has_placeholder, merge_in. apply existsb_exists.
  exists (p, true). split.
  - apply in_or_app. right. apply in_map_iff. exists (p, FPlaceholder). auto.
  - cbn. now rewrite path_eqb_refl.
Qed.

Theorem run_update_skips : forall f states d st,
  start_ok f -> paths_ok d -> o_res (run_update f states d) = ROk st ->
  (N.of_nat (length (filter (blocked d f) d)) <= n_skipped st)%N
  /\ forall e, In e d -> blocked d f e = true ->
       has_placeholder (o_states (run_update f states d)) (d_path e) = true.
Proof.
  intros f states d st Hs Hp H. unfold WcC.run_update in *.
  destruct (process_all (st0 f) d) as [s|er s] eqn:E.
  2:{ cbn in H. destruct er; discriminate. }
  destruct (merge_in_asserts (s_changed s) (s_deleted s)); cbn in *; [|discriminate].
  inversion H; subst st.
  destruct (process_all_skips d f d [] (st0 f) s (st0_sinv f Hs) Hp) as [A B]; auto.
  - intros q. now left.
  - intros x [].
  - cbn in A. split; [lia|]. intros e He Hb. apply has_placeholder_merge_in. auto.
Qed.

(** ** The meaning of the boolean checkers *)

Lemma entry_eqb_spec : forall a b, entry_eqb a b = true <-> a = b.
Proof.
  destruct a as [c x|t|], b as [c' x'|t'|]; cbn; try (split; congruence).
  - rewrite Bool.andb_true_iff, String.eqb_eq, Bool.eqb_true_iff. split; [intros [-> ->]; reflexivity | intros H; inversion H; auto].
  - rewrite String.eqb_eq. split; congruence.
Qed.

Lemma opt_entry_eqb_spec : forall a b, option_eqb entry_eqb a b = true <-> a = b.
Proof.
  destruct a, b; cbn; try (split; congruence). rewrite entry_eqb_spec. split; congruence.
Qed.

Definition untouched (d : list dentry) (f0 f1 : fs) : Prop :=
  forall q e, lookup f0 q = Some e ->
    match e with
    | EDir => removal_below d q = true \/ lookup f1 q = Some EDir
    | _ => tracked_changed d q = true \/ lookup f1 q = Some e
    end.

Definition confined (d : list dentry) (f0 f1 : fs) : Prop :=
  forall q e, lookup f1 q = Some e ->
    lookup f0 q = Some e \/ exists en, In en d /\ is_prefix q (d_path en) = true.

Definition reserved_same (f0 f1 : fs) : Prop :=
  forall q, has_reserved q = true -> lookup f0 q = lookup f1 q.

Definition skipped (d : list dentry) (f0 : fs) (r : result) (states1 : list (path * bool)) : Prop :=
  forall st, r = ROk st ->
    (N.of_nat (length (filter (blocked d f0) d)) <= n_skipped st)%N
    /\ forall e, In e d -> blocked d f0 e = true -> has_placeholder states1 (d_path e) = true.

Lemma untouched_b_spec : forall d f0 f1, untouched_b d f0 f1 = true <-> untouched d f0 f1.
Proof.
  intros d f0 f1. unfold untouched_b, untouched. rewrite forallb_forall. split.
  - intros H q e Hq. specialize (H (q, e) (lookup_In _ _ _ Hq)). cbn in H. rewrite Hq in H.
    destruct e; apply Bool.orb_true_iff in H as [H|H]; auto; right; now apply opt_entry_eqb_spec in H.
  - intros H [q x] Hin. cbn. destruct (lookup f0 q) as [e|] eqn:E; [|reflexivity].
    specialize (H q e E).
    destruct e; apply Bool.orb_true_iff; destruct H as [H|H]; auto; right; now apply opt_entry_eqb_spec.
Qed.

Lemma confined_b_spec : forall d f0 f1, confined_b d f0 f1 = true <-> confined d f0 f1.
Proof.
  intros d f0 f1. unfold confined_b, confined. rewrite forallb_forall. split.
  - intros H q e Hq. specialize (H (q, e) (lookup_In _ _ _ Hq)). cbn in H.
    apply Bool.orb_true_iff in H as [H|H].
    + left. apply opt_entry_eqb_spec in H. congruence.
    + right. apply existsb_exists in H as [en [A B]]. eauto.
  - intros H [q x] Hin. cbn. apply Bool.orb_true_iff.
    destruct (lookup f1 q) as [e|] eqn:E.
    + destruct (H q e E) as [A|[en [A B]]].
      * left. apply opt_entry_eqb_spec. congruence.
      * right. apply existsb_exists. eauto.
    + apply In_lookup in Hin as [e' He']. congruence.
Qed.

Lemma reserved_b_spec : forall f0 f1, reserved_b rn f0 f1 = true <-> reserved_same f0 f1.
Proof.
  intros f0 f1. unfold reserved_b, reserved_same. rewrite forallb_forall. split.
  - intros H q Hq. destruct (lookup f0 q) as [e|] eqn:E0.
    + specialize (H (q, e) (in_or_app _ _ _ (or_introl (lookup_In _ _ _ E0)))). cbn [fst] in H.
      rewrite Hq in H. cbn [negb orb] in H. apply opt_entry_eqb_spec in H. congruence.
    + destruct (lookup f1 q) as [e|] eqn:E1; [|reflexivity].
      specialize (H (q, e) (in_or_app _ _ _ (or_intror (lookup_In _ _ _ E1)))). cbn [fst] in H.
      rewrite Hq in H. cbn [negb orb] in H. apply opt_entry_eqb_spec in H. congruence.
  - intros H [q x] Hin. cbn [fst]. destruct (has_reserved q) eqn:Eq; [|reflexivity]. cbn [negb orb].
    apply opt_entry_eqb_spec. auto.
Qed.

Lemma skipped_b_spec : forall d f0 r states1, skipped_b d f0 r states1 = true <-> skipped d f0 r states1.
Proof.
  intros d f0 r states1. unfold skipped_b, skipped. destruct r; try (split; [intros _ st H; discriminate | reflexivity]).
  rewrite Bool.andb_true_iff, N.leb_le, forallb_forall. split.
  - intros [A B] st H. inversion H; subst. split; auto. intros e He Hb. specialize (B e He).
    rewrite Hb in B. exact B.
  - intros H. destruct (H s eq_refl) as [A B]. split; auto. intros e He.
    destruct (blocked d f0 e) eqn:Eb; [|reflexivity]. cbn. auto.
Qed.

(** What [okb] accepts: the statement of C25 about one recorded checkout. *)
Definition case_ok (c : case) : Prop :=
  untouched (c_diff c) (c_disk0 c) (c_disk1 c)
  /\ confined (c_diff c) (c_disk0 c) (c_disk1 c)
  /\ skipped (c_diff c) (c_disk0 c) (c_res c) (c_states1 c)
  /\ reserved_same (c_disk0 c) (c_disk1 c)
  /\ c_outside_ok c = true
  /\ c_res c <> REscape.

Lemma result_eqb_escape : forall r, result_eqb r REscape = true <-> r = REscape.
Proof. destruct r; cbn; split; congruence. Qed.

Theorem okb_spec : forall c, C25Chk.okb rn c = true <-> case_ok c.
Proof.
  intros c. unfold C25Chk.okb, case_ok.
  rewrite !Bool.andb_true_iff, untouched_b_spec, confined_b_spec, skipped_b_spec, reserved_b_spec,
    Bool.negb_true_iff.
  split.
  - intros [[[[[A B] C] D] E] F].
    split; [exact A | split; [exact B | split; [exact C | split; [exact D | split; [exact E|]]]]].
    intros H. apply result_eqb_escape in H. congruence.
  - intros [A [B [C [D [E F]]]]].
    split; [split; [split; [split; [split; [exact A | exact B] | exact C] | exact D] | exact E]|].
    destruct (result_eqb (c_res c) REscape) eqn:G; [|reflexivity]. apply result_eqb_escape in G. contradiction.
Qed.

(** ** The model satisfies what the checkers check, on every input *)

Lemma tracked_changed_spec : forall d q,
  tracked_changed d q = true <-> exists en, In en d /\ d_path en = q /\ d_before en <> None.
Proof.
  intros d q. unfold tracked_changed. rewrite existsb_exists. split.
  - intros [en [A B]]. apply Bool.andb_true_iff in B as [B C]. apply path_eqb_spec in B.
    exists en. repeat split; auto. destruct (d_before en); [discriminate|discriminate].
  - intros [en [A [B C]]]. exists en. split; auto. rewrite B, path_eqb_refl.
    destruct (d_before en); [reflexivity|congruence].
Qed.

Lemma removal_below_spec : forall d q,
  removal_below d q = true <-> exists en, In en d /\ is_strict_prefix q (d_path en) = true /\ d_after en = None.
Proof.
  intros d q. unfold removal_below. rewrite existsb_exists. split.
  - intros [en [A B]]. apply Bool.andb_true_iff in B as [B C]. exists en. repeat split; auto.
    destruct (d_after en); [discriminate|reflexivity].
  - intros [en [A [B C]]]. exists en. split; auto. rewrite B, C. reflexivity.
Qed.

Theorem run_update_case_ok : forall f states d,
  start_ok f -> paths_ok d ->
  let o := run_update f states d in
  untouched d f (o_fs o) /\ confined d f (o_fs o) /\ skipped d f (o_res o) (o_states o)
  /\ reserved_same f (o_fs o) /\ o_res o <> REscape
  /\ Forall (fun ev => ev_safe ev = true) (o_trace o).
Proof.
  intros f states d Hs Hp o. destruct (run_update_main f states d Hs Hp) as [Hwf [Htr [Hne [Hrel Hres]]]].
  fold o in Hwf, Htr, Hne, Hrel, Hres.
  split; [|split; [|split; [|split; [|split; [exact Hne | exact Htr]]]]].
  - intros q e Hq. destruct e as [c x|t|].
    + destruct (tracked_changed d q) eqn:Et; [now left|right].
      eapply rel_untouched_leaf; eauto; [discriminate|]. now apply tracked_changed_false.
    + destruct (tracked_changed d q) eqn:Et; [now left|right].
      eapply rel_untouched_leaf; eauto; [discriminate|]. now apply tracked_changed_false.
    + destruct (removal_below d q) eqn:Er; [now left|right].
      eapply rel_untouched_dir; eauto. intros en Hin Hsp Ha.
      assert (removal_below d q = true) by (apply removal_below_spec; eauto). congruence.
  - intros q e Hq. destruct (lookup f q) as [e0|] eqn:E0.
    + destruct (entry_eqb e0 e) eqn:Ee.
      * apply entry_eqb_spec in Ee. left. congruence.
      * right. eapply rel_confined; eauto. rewrite Hq, E0. intros Hc. inversion Hc; subst.
        rewrite (proj2 (entry_eqb_spec e0 e0) eq_refl) in Ee. discriminate.
    + right. eapply rel_confined; eauto. rewrite Hq, E0. discriminate.
  - intros st Hst. apply run_update_skips; auto.
  - intros q Hq. symmetry. auto.
Qed.

(** ** The hypotheses, decided *)

Lemma wf_fs_b_sound : forall f, wf_fs_b f = true -> wf_fs f.
Proof.
  intros f H q e Hq. unfold wf_fs_b in H. rewrite forallb_forall in H.
  specialize (H (q, e) (lookup_In _ _ _ Hq)). cbn in H. destruct q; [discriminate|].
  split; [discriminate | exact H].
Qed.

Lemma anchor_b_sound : forall f, anchor_b rn f = true -> anchor f.
Proof.
  intros f H. unfold anchor_b in H. apply existsb_exists in H as [[q e] [Hin H]]. cbn in H.
  destruct q as [|x [|y q]]; try discriminate. exists x. split; auto.
  apply In_lookup in Hin as [e' He']. congruence.
Qed.

Lemma paths_ok_b_sound : forall d, paths_ok_b d = true -> paths_ok d.
Proof.
  intros d H e He. unfold paths_ok_b in H. rewrite forallb_forall in H. specialize (H e He).
  destruct (d_path e); [discriminate|discriminate].
Qed.

(** ** Statements in the form pinned by Props/C25.v *)

Theorem untouched_thm : forall f states d q e,
  start_ok f -> paths_ok d -> lookup f q = Some e ->
  match e with
  | EDir => (exists en, In en d /\ is_strict_prefix q (d_path en) = true /\ d_after en = None)
            \/ lookup (o_fs (run_update f states d)) q = Some EDir
  | _ => (exists en, In en d /\ d_path en = q /\ d_before en <> None)
         \/ lookup (o_fs (run_update f states d)) q = Some e
  end.
Proof.
  intros f states d q e Hs Hp Hq.
  destruct (run_update_case_ok f states d Hs Hp) as [Hu _]. specialize (Hu q e Hq).
  destruct e; destruct Hu as [Hu|Hu]; auto; left;
    first [now apply tracked_changed_spec | now apply removal_below_spec].
Qed.

Theorem confined_thm : forall f states d q e,
  start_ok f -> paths_ok d -> lookup (o_fs (run_update f states d)) q = Some e ->
  lookup f q = Some e \/ exists en, In en d /\ is_prefix q (d_path en) = true.
Proof.
  intros f states d q e Hs Hp Hq.
  destruct (run_update_case_ok f states d Hs Hp) as [_ [Hc _]]. exact (Hc q e Hq).
Qed.

Theorem skip_thm : forall f states d st e q,
  start_ok f -> paths_ok d -> o_res (run_update f states d) = ROk st ->
  In e d -> d_before e = None -> d_after e <> None ->
  is_prefix q (d_path e) = true -> is_leaf (lookup f q) = true ->
  (forall en, In en d -> d_path en = q -> d_before en = None) ->
  has_placeholder (o_states (run_update f states d)) (d_path e) = true
  /\ (1 <= n_skipped st)%N
  /\ lookup (o_fs (run_update f states d)) q = lookup f q.
Proof.
  intros f states d st e q Hs Hp Hr He Hb Ha Hq Hl Hnt.
  assert (Htc : tracked_changed d q = false).
  { destruct (tracked_changed d q) eqn:E; [|reflexivity]. apply tracked_changed_spec in E as [en [A [B C]]].
    rewrite (Hnt en A B) in C. congruence. }
  assert (Hblk : blocked d f e = true).
  { unfold blocked, wants_new, obstacle. rewrite Hb. destruct (d_after e); [|congruence]. cbn.
    destruct (lookup f q) as [x|] eqn:E; [|discriminate]. apply existsb_exists. exists (q, x).
    split; [now apply lookup_In|]. cbn. rewrite Hq, E, Hl, Htc. reflexivity. }
  destruct (run_update_skips f states d st Hs Hp Hr) as [A B]. split; [auto|]. split.
  - assert (1 <= length (filter (blocked d f) d))%nat.
    { assert (In e (filter (blocked d f) d)) by (apply filter_In; auto).
      destruct (filter (blocked d f) d); [contradiction | cbn; lia]. }
    lia.
  - destruct (lookup f q) as [x|] eqn:E; [|discriminate].
    destruct (run_update_main f states d Hs Hp) as [_ [_ [_ [Hrel _]]]].
    eapply rel_untouched_leaf; eauto. intros ->. discriminate.
Qed.

Theorem no_escape_thm : forall f states d,
  start_ok f -> paths_ok d ->
  Forall (fun ev => ev_safe ev = true) (o_trace (run_update f states d))
  /\ o_res (run_update f states d) <> REscape.
Proof.
  intros f states d Hs Hp. destruct (run_update_main f states d Hs Hp) as [_ [A [B _]]]. auto.
Qed.

Theorem reserved_thm : forall f states d q,
  start_ok f -> paths_ok d -> has_reserved q = true ->
  lookup (o_fs (run_update f states d)) q = lookup f q.
Proof.
  intros f states d q Hs Hp Hq. destruct (run_update_main f states d Hs Hp) as [_ [_ [_ [_ A]]]]. auto.
Qed.

Theorem hyps_decided : forall f d,
  wf_fs_b f = true -> anchor_b rn f = true -> paths_ok_b d = true -> start_ok f /\ paths_ok d.
Proof.
  intros f d A B C. split; [split|].
  - exact (wf_fs_b_sound f A).
  - exact (anchor_b_sound f B).
  - exact (paths_ok_b_sound d C).
Qed.

Theorem wf_thm : forall f states d,
  start_ok f -> paths_ok d -> wf_fs (o_fs (run_update f states d)).
Proof. intros f states d Hs Hp. now destruct (run_update_main f states d Hs Hp) as [A _]. Qed.

End WithReserved.

(** The safety bit of an event is the safety of its path in the disk at the moment of the
    call: every prefix of the parent is a real directory of the workspace. *)
Lemma safe_spec : forall f p,
  safe f p = true <-> p <> [] /\ forall q, q <> [] -> is_prefix q (parent p) = true -> lookup f q = Some EDir.
Proof.
  intros f p. unfold safe. destruct p as [|a p]; [split; [discriminate | intros [H _]; congruence]|].
  rewrite all_dirs_spec. split.
  - intros H. split; [discriminate|]. intros q Hq Hp. apply is_dir_lookup; auto.
  - intros [_ H] q Hq. destruct q as [|b q]; [reflexivity|]. apply is_dir_lookup; [discriminate|].
    apply H; [discriminate | exact Hq].
Qed.

Lemma prims_log_safety :
  (forall w p r w', p_create_dir w p = (r, w') -> w_tr w' = mkEv OCreateDir p (safe (w_fs w) p) :: w_tr w)
  /\ (forall w p r w', p_create_new w p = (r, w') -> w_tr w' = mkEv OCreateNew p (safe (w_fs w) p) :: w_tr w)
  /\ (forall w p c x r w', p_write w p c x = (r, w') -> w_tr w' = mkEv OWrite p (safe (w_fs w) p) :: w_tr w)
  /\ (forall w p r w', p_remove_file w p = (r, w') -> w_tr w' = mkEv ORemoveFile p (safe (w_fs w) p) :: w_tr w)
  /\ (forall w p t r w', p_symlink w p t = (r, w') -> w_tr w' = mkEv OSymlink p (safe (w_fs w) p) :: w_tr w)
  /\ (forall w p r w', p_lstat w p = (r, w') -> w_tr w' = mkEv OLstat p (safe (w_fs w) p) :: w_tr w)
  /\ (forall w p r w', p_lstat_q w p = (r, w') -> w_tr w' = mkEv OLstatQ p (safe (w_fs w) p) :: w_tr w)
  /\ (forall w p r w', p_remove_dir w p = (r, w') -> p <> [] ->
        w_tr w' = mkEv ORemoveDir p (safe (w_fs w) p) :: w_tr w)
  /\ (forall w r w', p_remove_dir w [] = (r, w') ->
        w_tr w' = mkEv ORemoveDir [] (has_child (w_fs w) []) :: w_tr w /\ w_fs w' = w_fs w).
Proof.
  repeat split; intros.
  - now apply p_create_dir_spec in H as [H _].
  - now apply p_create_new_spec in H as [H _].
  - now apply p_write_spec in H as [H _].
  - now apply p_remove_file_spec in H as [H _].
  - now apply p_symlink_spec in H as [H _].
  - now apply p_lstat_spec in H as [H _].
  - now apply p_lstat_q_spec in H as [H _].
  - apply p_remove_dir_spec in H as [H _]. now apply H.
  - apply p_remove_dir_spec in H as [_ [H _]]. now apply H.
  - cbn in H. destruct (has_child (w_fs w) []); inversion H; reflexivity.
Qed.
