(** C27: set_sparse_patterns on a clean disk adds exactly the tree files entering the
    patterns, removes exactly those leaving, and leaves the tree alone; the declarative
    sparse snapshot keeps every path outside the patterns. *)
From Verif Require Import Base.Prelude Base.FsC Base.WcC Base.C24Chk Base.C25Chk Base.C27Chk.
From Verif Require Import Proofs.FsC Proofs.WcCore Proofs.C24Step Proofs.C24Run Proofs.PathOrd
  Proofs.C24Diff Proofs.C24Main Proofs.C25Main.
From Coq Require Import Lia Permutation.
Local Open Scope string_scope.
Local Open Scope list_scope.

(** ** Tracked files outside the matcher, seen as untracked entries *)

Definition leaves_fs (t : tree) : fs := map (fun pv => (fst pv, materialize (snd pv))) t.

Lemma lookup_app : forall (a b : fs) q,
  lookup (a ++ b) q = match lookup a q with Some e => Some e | None => lookup b q end.
Proof.
  induction a as [|[p e] a IH]; intros b q; cbn; [reflexivity|].
  destruct (path_eqb p q); [reflexivity | apply IH].
Qed.

Lemma lookup_leaves : forall t q, lookup (leaves_fs t) q = option_map materialize (leaf t q).
Proof.
  induction t as [|[p v] t IH]; intros q; cbn; [reflexivity|].
  destruct (path_eqb p q); [reflexivity | apply IH].
Qed.

Lemma fs_below_app : forall a b q, fs_below (a ++ b) q = fs_below a q || fs_below b q.
Proof. intros. unfold fs_below. apply existsb_app. Qed.

Lemma fs_below_leaves : forall t q, fs_below (leaves_fs t) q = is_tree_in t q.
Proof.
  intros t q. unfold fs_below, is_tree_in, leaves_fs. induction t as [|[p v] t IH]; cbn; [reflexivity|].
  now rewrite IH.
Qed.

Lemma leaf_app : forall (a b : tree) q,
  leaf (a ++ b) q = match leaf a q with Some v => Some v | None => leaf b q end.
Proof.
  induction a as [|[p v] a IH]; intros b q; cbn; [reflexivity|].
  destruct (path_eqb p q); [reflexivity | apply IH].
Qed.

Lemma is_tree_in_app : forall a b q, is_tree_in (a ++ b) q = is_tree_in a q || is_tree_in b q.
Proof. intros. unfold is_tree_in. apply existsb_app. Qed.

(** Moving a part [r] of the tree to the untracked side does not change the expected
    disk, as long as nothing lies below the files of [r]. *)
Lemma expected_move : forall a r u q,
  (forall p v, leaf r p = Some v ->
     is_tree_in a p = false /\ is_tree_in r p = false /\ fs_below u p = false) ->
  expected (a ++ r) u q = expected a (leaves_fs r ++ u) q.
Proof.
  intros a r u q H. destruct q as [|x q]; [reflexivity|]. rewrite !expected_cons by discriminate.
  rewrite leaf_app, is_tree_in_app, fs_below_app, fs_below_leaves, lookup_app, lookup_leaves.
  destruct (leaf a (x :: q)) as [v|]; [reflexivity|].
  destruct (leaf r (x :: q)) as [v|] eqn:Er; cbn.
  - destruct (H _ _ Er) as [H1 [H2 H3]]. rewrite H1, H2, H3. reflexivity.
  - now rewrite Bool.orb_assoc.
Qed.

Lemma models_move : forall a r u f,
  (forall p v, leaf r p = Some v ->
     is_tree_in a p = false /\ is_tree_in r p = false /\ fs_below u p = false) ->
  (models (a ++ r) u f <-> models a (leaves_fs r ++ u) f).
Proof.
  intros a r u f H. split; intros Hm q; rewrite Hm; [|symmetry]; now apply expected_move.
Qed.

(** ** Counting the entries of a one-sided diff *)

Lemma ssorted_NoDup : forall l, ssorted l -> NoDup l.
Proof.
  induction l as [|p l IH]; intros H; [constructor|]. destruct H as [H1 H2]. constructor; auto.
  intros Hin. specialize (H1 p Hin). rewrite path_ltb_irrefl in H1. discriminate.
Qed.

Lemma nodup_paths_NoDup : forall l, nodup_paths l = true -> NoDup l.
Proof.
  induction l as [|p l IH]; cbn; intros H; [constructor|]. apply Bool.andb_true_iff in H as [H1 H2].
  constructor; auto. intros Hin. apply mem_path_In in Hin. rewrite Hin in H1. discriminate.
Qed.

Lemma NoDup_keys_restrict : forall m (t : tree), NoDup (keys t) -> NoDup (keys (restrict m t)).
Proof.
  intros m t. unfold keys, restrict. induction t as [|[p v] t IH]; cbn; intros H; [constructor|].
  inversion H as [|x l Hn Hd]; subst. destruct (m p); cbn; auto. constructor; auto.
  intros Hin. apply Hn. apply in_map_iff in Hin as [[q w] [E Hin]]. apply filter_In in Hin as [Hin _].
  apply in_map_iff. exists (q, w). auto.
Qed.

Lemma In_keys_leaf : forall (t : tree) p, In p (keys t) <-> leaf t p <> None.
Proof.
  intros t p. split.
  - intros H. unfold keys in H. apply in_map_iff in H as [[q v] [<- Hin]]. apply In_leaf in Hin as [v' Hv'].
    cbn. congruence.
  - intros H. destruct (leaf t p) as [v|] eqn:E; [|congruence]. eapply leaf_keys; eauto.
Qed.

Lemma hold_files_In' : forall l held x, In x (hold_files held l) ->
  held = Some x \/ exists bt, In (x, bt) l.
Proof.
  induction l as [|[e bt] r IH]; intros held x Hx.
  - destruct held as [h|]; cbn in Hx; [destruct Hx as [<-|[]]; now left | contradiction].
  - cbn [hold_files] in Hx. apply in_app_or in Hx as [Hx|Hx].
    + destruct held as [h|]; [|destruct (false); contradiction].
      destruct (negb (is_prefix (d_path h) (d_path e))); [|contradiction].
      destruct Hx as [<-|[]]. now left.
    + destruct bt.
      * apply IH in Hx as [Hx|[bt' Hx]]; [inversion Hx; subst; right; exists true; now left|].
        right. exists bt'. now right.
      * destruct Hx as [<-|Hx]; [right; exists false; now left|].
        apply IH in Hx as [Hx|[bt' Hx]].
        -- left. destruct held as [h|]; [|destruct (false); discriminate].
           destruct (negb (is_prefix (d_path h) (d_path e))); [discriminate | exact Hx].
        -- right. exists bt'. now right.
Qed.

Section OneSided.
Variables (m : path -> bool) (t1 t2 : tree).

Lemma rpaths_raw_In : forall p,
  In p (rpaths (raw_diff m t1 t2)) <-> leaf (restrict m t1) p <> leaf (restrict m t2) p.
Proof.
  intros p. split; [|apply raw_diff_complete].
  intros H. destruct (raw_diff_ok m t1 t2) as [Hall _]. rewrite Forall_forall in Hall.
  unfold rpaths in H. apply in_map_iff in H as [[e bt] [<- Hin]]. destruct (Hall _ Hin) as [H1 [H2 [H3 _]]].
  cbn in *. congruence.
Qed.

Lemma raw_entries : forall x, In x (hold_files None (raw_diff m t1 t2)) ->
  d_before x = leaf (restrict m t1) (d_path x) /\ d_after x = leaf (restrict m t2) (d_path x)
  /\ d_before x <> d_after x.
Proof.
  intros x Hx. apply hold_files_In' in Hx as [Hx|[bt Hx]]; [discriminate|].
  destruct (raw_diff_ok m t1 t2) as [Hall _]. rewrite Forall_forall in Hall.
  destruct (Hall _ Hx) as [H1 [H2 [H3 _]]]. auto.
Qed.

End OneSided.

Lemma restrict_nil : forall m, restrict m [] = [].
Proof. reflexivity. Qed.

Lemma writes_all : forall d, (forall x, In x d -> d_after x <> None) -> map fst (writes d) = map d_path d.
Proof.
  induction d as [|x d IH]; intros H; [reflexivity|]. rewrite writes_cons, IH by (intros; apply H; now right).
  cbn. destruct (d_after x) eqn:E; [reflexivity|]. exfalso. apply (H x); auto. now left.
Qed.

Lemma wl_all : forall l, (forall eb, In eb l -> d_after (fst eb) <> None) -> wl l = rpaths l.
Proof.
  induction l as [|[e bt] l IH]; intros H; [reflexivity|].
  change (wl ((e, bt) :: l)) with (match d_after e with Some _ => [d_path e] | None => [] end ++ wl l).
  change (rpaths ((e, bt) :: l)) with (d_path e :: rpaths l).
  rewrite IH by (intros; apply H; now right).
  destruct (d_after e) eqn:E; [reflexivity|]. exfalso. apply (H (e, bt)); [now left | exact E].
Qed.

Lemma hold_noflags : forall l, (forall eb, In eb l -> snd eb = false) -> hold_files None l = map fst l.
Proof.
  induction l as [|[e bt] l IH]; intros H; [reflexivity|]. cbn.
  assert (bt = false) by (apply (H (e, bt)); now left). subst bt.
  rewrite IH by (intros; apply H; now right). reflexivity.
Qed.

Lemma perm_length_keys : forall m (t : tree) (l : list path),
  NoDup (keys t) -> NoDup l -> (forall p, In p l <-> leaf (restrict m t) p <> None) ->
  length l = length (restrict m t).
Proof.
  intros m t l Hn Hl H. transitivity (length (keys (restrict m t))); [|unfold keys; apply map_length].
  apply Permutation_length. apply NoDup_Permutation; auto using NoDup_keys_restrict.
  intros p. rewrite H. symmetry. apply In_keys_leaf.
Qed.

Lemma fold_bump_adds : forall d s,
  (forall x, In x d -> d_before x = None /\ d_after x <> None) ->
  fold_left bump d s = mkStats (n_added s + N.of_nat (length d)) (n_updated s) (n_removed s) (n_skipped s).
Proof.
  induction d as [|x d IH]; intros s H.
  - cbn. rewrite N.add_0_r. now destruct s.
  - cbn [fold_left length]. rewrite IH by (intros; apply H; now right).
    destruct (H x (or_introl eq_refl)) as [H1 H2]. unfold bump. rewrite H1.
    destruct (d_after x); [|congruence]. cbn. f_equal. lia.
Qed.

Lemma fold_bump_removes : forall d s,
  (forall x, In x d -> d_after x = None) ->
  fold_left bump d s = mkStats (n_added s) (n_updated s) (n_removed s + N.of_nat (length d)) (n_skipped s).
Proof.
  induction d as [|x d IH]; intros s H.
  - cbn. rewrite N.add_0_r. now destruct s.
  - cbn [fold_left length]. rewrite IH by (intros; apply H; now right).
    unfold bump. rewrite (H x (or_introl eq_refl)). cbn. f_equal. lia.
Qed.


Section WithReserved.
Variable rn : list name.
Local Notation tok := (C24Step.tok rn).
Local Notation uokp := (C24Diff.uokp rn).
Local Notation run_update := (WcC.run_update rn).
Local Notation set_sparse := (WcC.set_sparse rn).

(** Sub-trees of a tree that can be checked out have nothing below their files. *)
Lemma sub_nothing_below : forall t a r u,
  tok t -> uokp u (keys t) ->
  (forall p v, leaf a p = Some v -> leaf t p = Some v) ->
  (forall p v, leaf r p = Some v -> leaf t p = Some v) ->
  forall p v, leaf r p = Some v ->
    is_tree_in a p = false /\ is_tree_in r p = false /\ fs_below u p = false.
Proof.
  intros t a r u [_ Ht] [_ [_ Hu]] Ha Hr p v Hp. pose proof (Hr _ _ Hp) as Htp. repeat split.
  - apply is_tree_in_false. intros q w Hq. eapply Ht; eauto.
  - apply is_tree_in_false. intros q w Hq. eapply Ht; eauto.
  - apply fs_below_false. intros w e Hw. destruct (Hu w e Hw) as [H1 _].
    destruct (is_strict_prefix p w) eqn:E; [|reflexivity]. apply is_strict_prefix_prefix in E.
    rewrite (H1 p (leaf_keys t p v Htp)) in E. discriminate.
Qed.

(** The kept part of the tree is not in the way of the part that changes. *)
Lemma uokp_leaves : forall t r u k,
  tok t -> uokp u (keys t) ->
  (forall p v, leaf r p = Some v -> leaf t p = Some v) ->
  (forall p, In p k -> In p (keys t)) ->
  (forall p v, In p k -> leaf r p = Some v -> False) ->
  uokp (leaves_fs r ++ u) k.
Proof.
  intros t r u k [Ht1 Ht2] [Hu1 [Hu2 Hu3]] Hr Hk Hdisj.
  assert (Hkt : forall p, In p (keys t) -> exists v, leaf t p = Some v).
  { intros p Hp. unfold keys in Hp. apply in_map_iff in Hp as [[q v] [<- Hin]]. now apply In_leaf in Hin. }
  split; [|split].
  - intros x e Hx. rewrite lookup_app, lookup_leaves in Hx.
    destruct (leaf r x) as [v|] eqn:Er; [apply (Ht1 x v); eauto | eapply Hu1; eauto].
  - destruct Hu2 as [x [Hx1 Hx2]]. exists x. split; auto. rewrite lookup_app.
    destruct (lookup (leaves_fs r) [x]); [discriminate | exact Hx2].
  - intros x e Hx. rewrite lookup_app, lookup_leaves in Hx.
    destruct (leaf r x) as [v|] eqn:Er; cbn in Hx.
    + (* a kept tree file *)
      pose proof (Hr _ _ Er) as Htx. split.
      * intros p Hp. destruct (Hkt p (Hk p Hp)) as [w Hw].
        destruct (is_prefix p x) eqn:E; [|reflexivity]. exfalso.
        apply is_prefix_cases in E as [->|E]; [eapply Hdisj; eauto|].
        rewrite (Ht2 p x w v Hw Htx) in E. discriminate.
      * intros [p [Hp Hxp]]. exfalso. destruct (Hkt p (Hk p Hp)) as [w Hw].
        rewrite (Ht2 x p v w Htx Hw) in Hxp. discriminate.
    + destruct (Hu3 x e Hx) as [H1 H2]. split; [intros p Hp; apply H1; auto|].
      intros [p [Hp Hxp]]. destruct H2 as [-> [w [e' [A [B C]]]]]; [exists p; auto|].
      split; [reflexivity|]. exists w, e'. split; [|split; [exact B | intros q Hq; apply C; auto]].
      rewrite lookup_app, lookup_leaves.
      destruct (leaf r w) as [vw|] eqn:Ew; [|exact A]. exfalso.
      pose proof (Hr _ _ Ew) as Htw. pose proof (C w (leaf_keys t w vw Htw)) as X.
      rewrite is_prefix_refl in X. discriminate.
Qed.

(** The adding pass: one entry per tree file inside the matcher. *)
Lemma add_pass : forall m (t : tree),
  NoDup (keys t) -> tok (restrict m t) ->
  fold_left bump (diff_fs m [] t) stats0 = mkStats (count_in m t) 0 0 0.
Proof.
  intros m t Hn Htok.
  assert (Hent : forall x, In x (diff_fs m [] t) -> d_before x = None /\ d_after x <> None).
  { intros x Hx. destruct (raw_entries m [] t x Hx) as [H1 [H2 H3]]. rewrite restrict_nil in H1. cbn in H1.
    split; [exact H1 | congruence]. }
  rewrite fold_bump_adds by exact Hent. unfold stats0. cbn [n_added n_updated n_removed n_skipped].
  rewrite N.add_0_l. f_equal. unfold count_in. f_equal.
  destruct (raw_diff_ok m [] t) as [Hall Hs].
  assert (Hafter : forall eb, In eb (raw_diff m [] t) -> d_after (fst eb) <> None).
  { intros eb Hin. rewrite Forall_forall in Hall. destruct (Hall _ Hin) as [H1 [H2 [H3 _]]].
    rewrite restrict_nil in H1. cbn in H1. congruence. }
  assert (Hp : map d_path (diff_fs m [] t) = rpaths (raw_diff m [] t)).
  { rewrite <- writes_all by (intros x Hx; apply (Hent x Hx)).
    destruct (hold_writes rn m [] t Htok (fun p v (H : leaf [] p = Some v) => False_ind _ (eq_ind None (fun o => match o with None => True | Some _ => False end) I _ H)) _ Hall Hs) as [Hw _]. unfold diff_fs. rewrite Hw. now apply wl_all. }
  rewrite <- (map_length d_path), Hp. apply perm_length_keys; auto using ssorted_NoDup.
  intros p. rewrite rpaths_raw_In, restrict_nil. cbn. split; congruence.
Qed.

(** The removing pass. *)
Lemma remove_pass : forall m (t : tree),
  NoDup (keys t) -> flat_ok t ->
  fold_left bump (diff_fs m t []) stats0 = mkStats 0 0 (count_in m t) 0.
Proof.
  intros m t Hn Hf.
  assert (Hent : forall x, In x (diff_fs m t []) -> d_after x = None).
  { intros x Hx. destruct (raw_entries m t [] x Hx) as [H1 [H2 H3]]. now rewrite restrict_nil in H2. }
  rewrite fold_bump_removes by exact Hent. unfold stats0. cbn [n_added n_updated n_removed n_skipped].
  rewrite N.add_0_l. f_equal. unfold count_in. f_equal.
  destruct (raw_diff_ok m t []) as [Hall Hs].
  assert (Hflags : forall eb, In eb (raw_diff m t []) -> snd eb = false).
  { intros eb Hin. rewrite Forall_forall in Hall. destruct (Hall _ Hin) as [H1 [H2 [H3 H4]]].
    rewrite restrict_nil in H2. cbn in H2. rewrite H4.
    destruct (leaf (restrict m t) (d_path (fst eb))) as [v|] eqn:E; [|congruence].
    apply restrict_leaf_sub in E. now apply (Hf _ _ E). }
  unfold diff_fs. rewrite hold_noflags by exact Hflags. rewrite map_length, <- (map_length (fun eb => d_path (fst eb))).
  change (map (fun eb : dentry * bool => d_path (fst eb)) (raw_diff m t [])) with (rpaths (raw_diff m t [])).
  apply perm_length_keys; auto using ssorted_NoDup.
  intros p. rewrite rpaths_raw_In, restrict_nil. cbn. split; congruence.
Qed.

(** ** set_sparse_patterns on a clean disk *)

Lemma tok_nil : tok [].
Proof. split; intros; discriminate. Qed.

Lemma flat_ok_nil : flat_ok [].
Proof. intros p v H. discriminate. Qed.

Lemma matches_diff_true : forall a b p, matches_diff a b p = true -> matches a p = true /\ matches b p = false.
Proof. intros a b p H. unfold matches_diff in H. apply Bool.andb_true_iff in H as [H1 H2]. now apply Bool.negb_true_iff in H2. Qed.

Theorem set_sparse_clean : forall w new u f,
  tok (wc_tree w) -> nodup_paths (keys (wc_tree w)) = true -> flat_ok (wc_tree w) ->
  uokp u (keys (wc_tree w)) ->
  models (restrict (matches (wc_sparse w)) (wc_tree w)) u f ->
  let '(o, w') := set_sparse f w new in
  o_res o = ROk (mkStats (count_in (matches_diff new (wc_sparse w)) (wc_tree w)) 0
                         (count_in (matches_diff (wc_sparse w) new) (wc_tree w)) 0)
  /\ models (restrict (matches new) (wc_tree w)) u (o_fs o)
  /\ wc_tree w' = wc_tree w /\ wc_sparse w' = new.
Proof.
  intros w new u f Ht Hn Hf Hu Hm. set (t := wc_tree w) in *. set (old := wc_sparse w) in *.
  set (m1 := matches_diff new old). set (m2 := matches_diff old new).
  set (R := restrict (matches old) t). set (A1 := restrict m1 t).
  set (R2 := restrict (matches new) t). set (D := restrict m2 t).
  pose proof (nodup_paths_NoDup _ Hn) as Hnd.
  assert (Hsub : forall mm p v, leaf (restrict mm t) p = Some v -> leaf t p = Some v).
  { intros mm p v. apply restrict_leaf_sub. }
  assert (Hk : forall mm p, In p (keys (restrict mm t)) -> In p (keys t)) by (intros; eapply keys_restrict_sub; eauto).
  assert (Hin_m : forall mm p, In p (keys (restrict mm t)) -> mm p = true).
  { intros mm p Hp. apply In_keys_leaf in Hp. rewrite leaf_restrict in Hp. destruct (mm p); congruence. }
  (* first pass: add *)
  assert (Hm0 : models [] (leaves_fs R ++ u) f).
  { apply (models_move [] R u f); [|exact Hm]. eapply sub_nothing_below; eauto. intros; discriminate. }
  assert (Hu1 : uokp (leaves_fs R ++ u) (keys (restrict m1 []) ++ keys A1)).
  { cbn. apply (uokp_leaves t R u (keys A1) Ht Hu (Hsub _) (Hk _)).
    intros p v Hp Hr. apply Hin_m in Hp. apply matches_diff_true in Hp as [_ Hp].
    unfold R in Hr. rewrite leaf_restrict, Hp in Hr. discriminate. }
  destruct (update_clean_stats rn m1 [] t (leaves_fs R ++ u) f (wc_states w)) as [E1 Hm1];
    auto using tok_nil, flat_ok_nil; [apply tok_restrict; exact Ht|].
  rewrite add_pass in E1 by (auto; apply tok_restrict; exact Ht).
  unfold WcC.set_sparse. fold t old m1 m2. rewrite E1.
  set (o1 := WcC.run_update rn f (wc_states w) (diff_fs m1 [] t)) in *.
  fold A1 in Hm1.
  assert (Hm1' : models (A1 ++ R) u (o_fs o1)).
  { apply (models_move A1 R u (o_fs o1)); [|exact Hm1]. eapply sub_nothing_below; eauto; apply Hsub. }
  (* second pass: remove *)
  assert (Hsame : forall p, leaf (A1 ++ R) p = leaf (D ++ R2) p).
  { intros p. rewrite !leaf_app. unfold A1, R, D, R2. rewrite !leaf_restrict. unfold m1, m2, matches_diff.
    destruct (matches new p), (matches old p); cbn; try reflexivity; destruct (leaf t p); reflexivity. }
  assert (Hm2 : models D (leaves_fs R2 ++ u) (o_fs o1)).
  { apply (models_move D R2 u (o_fs o1)); [eapply sub_nothing_below; eauto; apply Hsub|].
    eapply models_ext; eauto. }
  assert (Hu2 : uokp (leaves_fs R2 ++ u) (keys D ++ keys (restrict m2 []))).
  { cbn. rewrite app_nil_r. apply (uokp_leaves t R2 u (keys D) Ht Hu (Hsub _) (Hk _)).
    intros p v Hp Hr. apply Hin_m in Hp. apply matches_diff_true in Hp as [_ Hp].
    unfold R2 in Hr. rewrite leaf_restrict, Hp in Hr. discriminate. }
  destruct (update_clean_stats rn m2 t [] (leaves_fs R2 ++ u) (o_fs o1) (o_states o1)) as [E2 Hm3];
    auto using tok_nil; [apply tok_restrict; exact Ht|].
  rewrite remove_pass in E2 by auto. rewrite E2. cbn [n_added n_updated n_removed n_skipped N.eqb andb].
  cbn [o_res o_fs fst snd]. split; [reflexivity|]. split; [|split; reflexivity].
  rewrite restrict_nil in Hm3.
  apply (models_move [] R2 u) in Hm3; [exact Hm3|]. eapply sub_nothing_below; eauto. intros; discriminate.
Qed.

(** The tree recorded in the working copy is never changed, whatever the disk. *)
Theorem set_sparse_tree_unchanged : forall f w new, wc_tree (snd (set_sparse f w new)) = wc_tree w.
Proof.
  intros f w new. unfold WcC.set_sparse.
  destruct (o_res (WcC.run_update rn f (wc_states w) (diff_fs (matches_diff new (wc_sparse w)) [] (wc_tree w))));
    try reflexivity.
  destruct (o_res (WcC.run_update rn _ _ (diff_fs (matches_diff (wc_sparse w) new) (wc_tree w) [])));
    try reflexivity.
  match goal with |- context [if ?b then _ else _] => destruct b end; reflexivity.
Qed.

(** ** The sparse snapshot keeps what is outside the patterns *)

Theorem snap_sparse_fixpoint : forall m t u f,
  tok t -> nodup_paths (keys t) = true -> models (restrict m t) u f -> snap_sparse f m t = t.
Proof.
  intros m t u f [Ht _] Hn Hm. unfold snap_sparse.
  assert (H : forall l : tree, (forall p v, In (p, v) l -> leaf t p = Some v) ->
            flat_map (fun pv => if m (fst pv)
                                then match lookup f (fst pv) with
                                     | Some (EFile c x) => [(fst pv, TFile c x)]
                                     | Some (ESym s0) => [(fst pv, TSym s0)]
                                     | _ => []
                                     end
                                else [pv]) l = l).
  { induction l as [|[p v] l IH]; intros Hl; [reflexivity|]. cbn [flat_map fst].
    rewrite IH by (intros; apply Hl; now right). pose proof (Hl p v (or_introl eq_refl)) as Hp.
    destruct (m p) eqn:Em; [|reflexivity]. destruct (Ht p v Hp) as [Hne _].
    rewrite Hm, expected_cons, leaf_restrict, Em, Hp by assumption. destruct v; reflexivity. }
  apply H. intros p v Hin. now apply nodup_leaf.
Qed.

(** Paths outside the patterns are kept whatever the disk holds. *)
Theorem snap_sparse_outside : forall m t f p v,
  nodup_paths (keys t) = true -> leaf t p = Some v -> m p = false -> In (p, v) (snap_sparse f m t).
Proof.
  intros m t f p v Hn Hp Hm. unfold snap_sparse. apply in_flat_map. exists (p, v).
  split; [now apply leaf_In|]. cbn. rewrite Hm. now left.
Qed.

(** ** The meaning of the boolean checkers *)

Definition sdiff (s : sstep) : list dentry :=
  diff_fs (matches_diff (ss_new s) (ss_old s)) [] (ss_tree s)
  ++ diff_fs (matches_diff (ss_old s) (ss_new s)) (ss_tree s) [].

Definition sstep_okp (u : fs) (s : sstep) : Prop :=
  let t := ss_tree s in
  ss_tree_same s = true
  /\ (exists sn, ss_snapshot s = Some sn
        /\ (forall p v, In (p, v) t -> matches (ss_new s) p = false -> leaf sn p = Some v)
        /\ (ss_clean s = true -> forall p, leaf sn p = leaf t p))
  /\ C25Main.untouched (sdiff s) (ss_disk0 s) (ss_disk1 s)
  /\ C25Main.confined (sdiff s) (ss_disk0 s) (ss_disk1 s)
  /\ match ss_res s with
     | ROk r => n_updated r = 0%N
                /\ (ss_clean s = true ->
                    models (restrict (matches (ss_new s)) t) u (ss_disk1 s)
                    /\ n_skipped r = 0%N
                    /\ n_added r = count_in (matches_diff (ss_new s) (ss_old s)) t
                    /\ n_removed r = count_in (matches_diff (ss_old s) (ss_new s)) t)
     | RPanic => False
     | _ => ss_clean s = false
     end.

Lemma outside_kept_spec : forall m t sn,
  outside_kept m t (Some sn) = true <->
  forall p v, In (p, v) t -> m p = false -> leaf sn p = Some v.
Proof.
  intros m t sn. cbn. rewrite forallb_forall. split.
  - intros H p v Hin Hm. specialize (H (p, v) Hin). cbn in H. rewrite Hm in H. cbn in H.
    now apply option_tval_eqb_spec in H.
  - intros H [p v] Hin. cbn. destruct (m p) eqn:Em; [reflexivity|]. cbn. apply option_tval_eqb_spec. auto.
Qed.

Theorem sstep_ok_spec : forall u s, sstep_ok u s = true <-> sstep_okp u s.
Proof.
  intros u s. unfold sstep_ok, sstep_okp. fold (sdiff s).
  rewrite !Bool.andb_true_iff, C25Main.untouched_b_spec, C25Main.confined_b_spec. split.
  - intros [[[[[H1 H2] H3] H4] H5] H6]. split; [exact H1|]. split; [|split; [exact H4|split; [exact H5|]]].
    + destruct (ss_snapshot s) as [sn|]; [|discriminate]. exists sn. split; [reflexivity|]. split.
      * now apply outside_kept_spec.
      * intros Hc. rewrite Hc in H3. cbn in H3. now apply tree_same_spec.
    + destruct (ss_res s); try discriminate.
      * apply Bool.andb_true_iff in H6 as [H6 H7]. apply N.eqb_eq in H6. split; [exact H6|].
        intros Hc. rewrite Hc in H7. cbn in H7. rewrite !Bool.andb_true_iff in H7.
        destruct H7 as [[[A B] C] D]. apply models_b_spec in A. apply N.eqb_eq in B, C, D. auto.
      * now apply Bool.negb_true_iff in H6.
      * now apply Bool.negb_true_iff in H6.
      * now apply Bool.negb_true_iff in H6.
      * now apply Bool.negb_true_iff in H6.
  - intros [H1 [[sn [E [H2 H3]]] [H4 [H5 H6]]]]. rewrite E.
    split; [split; [split; [split; [split; [exact H1|]|]|exact H4]|exact H5]|].
    + now apply outside_kept_spec.
    + destruct (ss_clean s); [|reflexivity]. cbn. apply tree_same_spec. auto.
    + destruct (ss_res s); try contradiction.
      * destruct H6 as [H6 H7]. apply Bool.andb_true_iff. split; [now apply N.eqb_eq|].
        destruct (ss_clean s); [|reflexivity]. cbn. destruct (H7 eq_refl) as [A [B [C D]]].
        rewrite !Bool.andb_true_iff. repeat split; try (now apply N.eqb_eq). now apply models_b_spec.
      * now apply Bool.negb_true_iff.
      * now apply Bool.negb_true_iff.
      * now apply Bool.negb_true_iff.
      * now apply Bool.negb_true_iff.
Qed.

Definition inside (m : path -> bool) (d0 d1 : fs) : Prop :=
  forall q, lookup d0 q <> lookup d1 q ->
    is_leaf (lookup d0 q) = true \/ is_leaf (lookup d1 q) = true -> m q = true.

Lemma inside_b_spec : forall m d0 d1, inside_b m d0 d1 = true <-> inside m d0 d1.
Proof.
  intros m d0 d1. unfold inside_b, inside. rewrite forallb_forall. split.
  - intros H q Hne Hleaf.
    assert (Hin : exists e, In (q, e) (d0 ++ d1)).
    { destruct (lookup d0 q) as [e|] eqn:E0; [exists e; apply in_or_app; left; now apply lookup_In|].
      destruct (lookup d1 q) as [e|] eqn:E1; [exists e; apply in_or_app; right; now apply lookup_In|].
      congruence. }
    destruct Hin as [e Hin]. specialize (H (q, e) Hin). cbn in H.
    apply Bool.orb_true_iff in H as [H|H]; [|exact H].
    apply Bool.orb_true_iff in H as [H|H].
    + apply opt_entry_eqb_spec' in H. contradiction.
    + apply Bool.negb_true_iff in H. destruct Hleaf as [Hl|Hl]; rewrite Hl in H; cbn in H;
        [discriminate | rewrite Bool.orb_true_r in H; discriminate].
  - intros H [q e] _. cbn.
    destruct (option_eqb entry_eqb (lookup d0 q) (lookup d1 q)) eqn:Ee; [reflexivity|]. cbn.
    destruct (is_leaf (lookup d0 q) || is_leaf (lookup d1 q)) eqn:El; [|reflexivity]. cbn.
    apply H.
    + intros Hx. rewrite (proj2 (opt_entry_eqb_spec' _ _) Hx) in Ee. discriminate.
    + now apply Bool.orb_true_iff in El.
Qed.

Lemma list_path_eqb_spec : forall a b : list path, list_eqb path_eqb a b = true <-> a = b.
Proof.
  induction a as [|x a IH]; destruct b as [|y b]; cbn; try (split; congruence).
  rewrite Bool.andb_true_iff, IH, path_eqb_spec. split; [intros [-> ->]; reflexivity | intros E; inversion E; auto].
Qed.

Definition sess_okp (u : fs) (st : sess_step) : Prop :=
  match st with
  | SeSparse s after =>
      sstep_okp u s /\ after = match ss_res s with ROk _ => ss_new s | _ => ss_old s end
  | SeSnap t sp d r =>
      exists sn, r = Some sn
        /\ forall p v, In (p, v) t -> matches sp p = false -> leaf sn p = Some v
  | SeCheckout t sp d0 t2 res tr d1 =>
      C25Main.untouched (diff_fs (matches sp) t t2) d0 d1
      /\ C25Main.confined (diff_fs (matches sp) t t2) d0 d1
      /\ inside (matches sp) d0 d1
  end.

Theorem sess_ok_spec : forall u st, sess_ok u st = true <-> sess_okp u st.
Proof.
  intros u st. destruct st as [s after|t sp d r|t sp d0 t2 res tr d1]; cbn [sess_ok sess_okp].
  - rewrite Bool.andb_true_iff, sstep_ok_spec, list_path_eqb_spec. reflexivity.
  - destruct r as [sn|].
    + rewrite outside_kept_spec. split; [intros H; exists sn; auto | intros [sn' [E H]]; inversion E; subst; exact H].
    + cbn. split; [discriminate | intros [sn [E _]]; discriminate].
  - rewrite !Bool.andb_true_iff, C25Main.untouched_b_spec, C25Main.confined_b_spec, inside_b_spec. tauto.
Qed.

Theorem okb_spec : forall c, C27Chk.okb c = true <->
  (forall s, In s (c_steps c) -> sstep_okp (c_untracked c) s)
  /\ (forall st, In st (c_session c) -> sess_okp (c_untracked c) st).
Proof.
  intros c. unfold C27Chk.okb. rewrite Bool.andb_true_iff, !forallb_forall.
  split; intros [H1 H2]; (split; [intros s Hs; apply sstep_ok_spec; auto | intros st Hs; apply sess_ok_spec; auto]).
Qed.

(** The hypotheses of [set_sparse_clean], decided on a clean recorded step. *)
Theorem pre_ok_sound : forall c, C27Chk.pre_ok rn c = true ->
  forall s, In s (c_steps c) -> ss_clean s = true ->
    tok (ss_tree s) /\ nodup_paths (keys (ss_tree s)) = true /\ flat_ok (ss_tree s)
    /\ uokp (c_untracked c) (keys (ss_tree s))
    /\ models (restrict (matches (ss_old s)) (ss_tree s)) (c_untracked c) (ss_disk0 s).
Proof.
  intros c H s Hs Hc. unfold C27Chk.pre_ok in H. apply Bool.andb_true_iff in H as [H H3].
  apply Bool.andb_true_iff in H as [H1 H2].
  assert (Hwf : wf_fs (c_untracked c)).
  { intros q e Hq. rewrite forallb_forall in H1. specialize (H1 (q, e) (lookup_In _ _ _ Hq)). cbn in H1.
    destruct q; [discriminate|]. split; [discriminate | exact H1]. }
  assert (Ha : WcCore.anchor rn (c_untracked c)).
  { apply existsb_exists in H2 as [[q e] [Hin H2]]. cbn in H2. destruct q as [|x [|y q]]; try discriminate.
    exists x. split; auto. apply In_lookup in Hin as [e' He']. congruence. }
  rewrite forallb_forall in H3. specialize (H3 s Hs). rewrite Hc in H3. cbn in H3.
  rewrite !Bool.andb_true_iff in H3. destruct H3 as [[A B] C].
  destruct (tree_ok_b_sound rn _ A) as [T1 [T2 T3]].
  split; [exact T1|]. split; [exact T2|]. split; [exact T3|]. split.
  - now apply compat_b_sound.
  - now apply models_b_spec.
Qed.

End WithReserved.
