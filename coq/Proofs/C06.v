(** C06: [update_from_content] returns the unsimplified ids for unedited content, turns
    marker-free content into one normal file, and writes edited hunks back to every side. *)
From Coq Require Import Lia.
From Verif Require Import Base.Prelude Gen.Tables Model.Merge Model.Conflicts Model.C06.
From Verif Require Import Proofs.C01 Proofs.C01Update.
From Verif Require Import Proofs.C05Lines Proofs.C05Jj Proofs.C05Top Proofs.C05.
Local Open Scope N_scope.

(* ------------------------------------------------------------------ reflection *)

Lemma fid_eqb_spec (x y : option (list N)) : fid_eqb x y = true <-> x = y.
Proof.
  unfold fid_eqb. destruct x, y; cbn; split; intros E; try reflexivity; try discriminate.
  - apply bytes_eqb_eq in E. congruence.
  - injection E as ->. apply bytes_eqb_eq. reflexivity.
Qed.

Lemma hunks_eqb6_eq (a b : list (list (list N))) : C06.hunks_eqb a b = true <-> a = b.
Proof. apply list_eqb_eq. intros x y. apply list_eqb_eq. exact bytes_eqb_eq. Qed.

Lemma fids_eqb_eq (a b : list (option (list N))) : list_eqb fid_eqb a b = true <-> a = b.
Proof. apply list_eqb_eq. exact fid_eqb_spec. Qed.

Lemma tval_eqb_eq (a b : option (list N * bool)) : tval_eqb a b = true <-> a = b.
Proof.
  unfold tval_eqb. destruct a as [[c x]|], b as [[d y]|]; cbn; split; intros E;
    try reflexivity; try discriminate.
  - apply andb_prop in E. destruct E as [E1 E2]. apply bytes_eqb_eq in E1.
    apply Bool.eqb_prop in E2. congruence.
  - injection E as -> ->. apply andb_true_intro. split; [apply bytes_eqb_eq; reflexivity|].
    apply Bool.eqb_reflx.
Qed.

Lemma vals_eqb_eq (a b : list (option (list N * bool))) : vals_eqb a b = true <-> a = b.
Proof. apply list_eqb_eq. exact tval_eqb_eq. Qed.

Lemma option_eqb_eq {A} (eqb : A -> A -> bool) :
  (forall x y, eqb x y = true <-> x = y) ->
  forall a b : option A, option_eqb eqb a b = true <-> a = b.
Proof.
  intros H a b. destruct a, b; cbn; split; intros E; try reflexivity; try discriminate.
  - apply H in E. congruence.
  - injection E as ->. apply H. reflexivity.
Qed.

(* ------------------------------------------------------------------ no start marker, no parse *)

Lemma pc_fold_no_start input n L ls : forall st,
  Forall (fun l => parse_marker l L <> Some KStart) ls ->
  p_conflict_start st = None -> p_hunks st = [] ->
  p_hunks (fold_left (pc_step input n L) ls st) = [].
Proof.
  induction ls as [|l ls IH]; intros st H Hc Hh; [exact Hh|].
  inversion H as [|? ? Hl Hls]; subst. cbn [fold_left]. apply IH; [exact Hls| |].
  - unfold pc_step. destruct (parse_marker l L) as [[]|]; try congruence; cbn; try exact Hc.
    rewrite Hc. reflexivity.
  - unfold pc_step. destruct (parse_marker l L) as [[]|]; try congruence; cbn; try exact Hh.
    rewrite Hc. cbn. exact Hh.
Qed.

Lemma no_start_parse_none L n content :
  no_start_b L content = true -> parse_conflict content n L = None.
Proof.
  intros H. unfold parse_conflict. destruct content as [|b c]; [reflexivity|].
  rewrite pc_fold_no_start; [reflexivity| |reflexivity|reflexivity].
  unfold no_start_b in H. rewrite forallb_forall in H. rewrite Forall_forall. intros l Hl.
  specialize (H l Hl). destruct (parse_marker l L) as [[]|]; try discriminate; congruence.
Qed.

(* ------------------------------------------------------------------ update_from_content *)

Section UFC.
  Variable MH : list (list N) -> list N + list (list (list N)).

  Definition simplified_of (ids : list (option (list N))) := simplify fid_eqb ids.
  Definition old_merge (ids : list (option (list N))) :=
    MH (map read_fid (simplified_of ids)).

  (** Unedited content of an unresolved file merge. *)
  Theorem unchanged_conflict ids D eol L st_ labels hs :
    old_merge ids = inr hs ->
    DiffOk D -> EolOk eol -> LabelsOk labels ->
    WfHunks (nsides (simplified_of ids)) hs -> Dominated L hs ->
    update_from_content MH ids (materialize_conflict_hunks D eol L hs st_ labels) L = ids.
  Proof.
    intros Hm HD He Hl Hw Hd. unfold update_from_content.
    unfold old_merge, simplified_of in *. rewrite Hm.
    assert (Hp : parse_conflict (materialize_conflict_hunks D eol L hs st_ labels)
                   (nsides (simplify fid_eqb ids)) L = Some hs)
      by (apply roundtrip_main; assumption).
    rewrite Hp. assert (E : C06.hunks_eqb hs hs = true) by (apply hunks_eqb6_eq; reflexivity).
    rewrite E. reflexivity.
  Qed.

  (** Unedited content of a file merge that merges cleanly. *)
  Theorem unchanged_resolved ids L c :
    old_merge ids = inl c ->
    parse_conflict c (nsides (simplified_of ids)) L = None ->
    update_from_content MH ids c L = ids.
  Proof.
    intros Hm Hp. unfold update_from_content. unfold old_merge, simplified_of in *.
    rewrite Hm, Hp, bytes_eqb_refl. reflexivity.
  Qed.

  (** Content without valid markers of the right arity becomes one normal file. *)
  Theorem no_markers ids L content :
    parse_conflict content (nsides (simplified_of ids)) L = None ->
    (forall old, old_merge ids = inl old -> old <> content) ->
    update_from_content MH ids content L = [Some content].
  Proof.
    intros Hp Hne. unfold update_from_content. unfold old_merge, simplified_of in *.
    rewrite Hp. destruct (MH (map read_fid (simplify fid_eqb ids))) as [old|hs] eqn:E.
    - destruct (bytes_eqb old content) eqn:Eb; [|reflexivity].
      apply bytes_eqb_eq in Eb. exfalso. exact (Hne old eq_refl Eb).
    - reflexivity.
  Qed.

  (** Any parsed hunk list different from the old one is written back side by side. *)
  Theorem changed_written_back ids L content hs' :
    parse_conflict content (nsides (simplified_of ids)) L = Some hs' ->
    (forall old, old_merge ids = inr old -> old <> hs') ->
    update_from_content MH ids content L = write_back ids hs'.
  Proof.
    intros Hp Hne. unfold update_from_content, write_back. unfold old_merge, simplified_of in *.
    rewrite Hp. destruct (MH (map read_fid (simplify fid_eqb ids))) as [old|hs] eqn:E.
    - reflexivity.
    - destruct (C06.hunks_eqb hs hs') eqn:Eb; [|reflexivity].
      apply hunks_eqb6_eq in Eb. exfalso. exact (Hne hs eq_refl Eb).
  Qed.

  (** The resolved-region edit: materialize an edited hunk list. *)
  Theorem edited_written_back ids D eol L st_ labels hs' :
    DiffOk D -> EolOk eol -> LabelsOk labels ->
    WfHunks (nsides (simplified_of ids)) hs' -> Dominated L hs' ->
    (forall old, old_merge ids = inr old -> old <> hs') ->
    update_from_content MH ids (materialize_conflict_hunks D eol L hs' st_ labels) L
    = write_back ids hs'.
  Proof.
    intros HD He Hl Hw Hd Hne. apply changed_written_back; [|exact Hne].
    apply roundtrip_main; assumption.
  Qed.

  (** Through the working copy: the whole tree value (ids and executable bits) is kept. *)
  Theorem snapshot_unchanged vals D eol L st_ labels hs x :
    let ids := map (option_map fst) vals in
    (3 <= length vals)%nat ->
    old_merge ids = inr hs ->
    DiffOk D -> EolOk eol -> LabelsOk labels ->
    WfHunks (nsides (simplified_of ids)) hs -> Dominated L hs ->
    snapshot_conflict MH vals (materialize_conflict_hunks D eol L hs st_ labels) x L = Some vals.
  Proof.
    intros ids Hlen Hm HD He Hl Hw Hd. unfold snapshot_conflict. fold ids.
    rewrite (unchanged_conflict ids D eol L st_ labels hs Hm HD He Hl Hw Hd).
    assert (E : list_eqb fid_eqb ids ids = true) by (apply fids_eqb_eq; reflexivity).
    rewrite E. subst ids.
    destruct vals as [|v1 [|v2 [|v3 r]]]; cbn [length] in Hlen; try lia.
    cbn [map]. destruct (option_map fst v1); reflexivity.
  Qed.
End UFC.

(* ------------------------------------------------------------------ sequences of snapshots *)

(** Any number of snapshots of the unedited file, whatever the executable bits found on disk:
    after each of them the tree value is the original conflict and the stored marker length
    is still the one the file was materialized with. *)
Theorem wc_step_unchanged MH vals D eol L st_ labels hs x :
  let ids := map (option_map fst) vals in
  (3 <= length vals)%nat ->
  old_merge MH ids = inr hs ->
  DiffOk D -> EolOk eol -> LabelsOk labels ->
  WfHunks (nsides (simplified_of ids)) hs -> Dominated L hs ->
  wc_step MH (vals, Some L) (materialize_conflict_hunks D eol L hs st_ labels) x
  = Some (vals, Some L).
Proof.
  intros ids Hlen Hm HD He Hl Hw Hd. unfold wc_step.
  rewrite (snapshot_unchanged MH vals D eol L st_ labels hs x Hlen Hm HD He Hl Hw Hd).
  assert (E : vals_eqb vals vals = true) by (apply vals_eqb_eq; reflexivity). rewrite E.
  destruct vals as [|v1 [|v2 [|v3 r]]]; cbn [length] in Hlen; try lia. reflexivity.
Qed.

Theorem wc_run_unchanged MH vals D eol L st_ labels hs execs :
  let ids := map (option_map fst) vals in
  (3 <= length vals)%nat ->
  old_merge MH ids = inr hs ->
  DiffOk D -> EolOk eol -> LabelsOk labels ->
  WfHunks (nsides (simplified_of ids)) hs -> Dominated L hs ->
  wc_run MH (vals, Some L) (materialize_conflict_hunks D eol L hs st_ labels) execs
  = map (fun _ => Some (vals, Some L)) execs.
Proof.
  intros ids Hlen Hm HD He Hl Hw Hd. induction execs as [|x t IH]; [reflexivity|].
  cbn [wc_run map].
  rewrite (wc_step_unchanged MH vals D eol L st_ labels hs x Hlen Hm HD He Hl Hw Hd).
  rewrite IH. reflexivity.
Qed.

Theorem seq_okb_spec (c : case) :
  seq_okb c = true <->
  forall e, In e (c_seq c) -> snd (fst e) = Some (c_vals c) /\ snd e = Some (c_len c).
Proof.
  unfold seq_okb. rewrite forallb_forall. split; intros H e He; specialize (H e He).
  - apply andb_prop in H. destruct H as [H1 H2].
    apply (option_eqb_eq _ vals_eqb_eq) in H1. apply (option_eqb_eq _ N.eqb_eq) in H2. auto.
  - destruct H as [H1 H2]. apply andb_true_intro. split.
    + apply (option_eqb_eq _ vals_eqb_eq). exact H1.
    + apply (option_eqb_eq _ N.eqb_eq). exact H2.
Qed.

(* ------------------------------------------------------------------ the per-case hypothesis checker *)

Lemma hyps6_b_sound (c : case) hs :
  hyps6_b c hs = true ->
  DiffOk (lookup_diff (c_diffs c)) /\ LabelsOk (c_labels c)
  /\ WfHunks (nsides (case_simplified c)) hs /\ Dominated (N.to_nat (c_len c)) hs.
Proof.
  unfold hyps6_b. intros H.
  apply andb_prop in H. destruct H as [H H4]. apply andb_prop in H. destruct H as [H H3].
  apply andb_prop in H. destruct H as [H1 H2].
  split; [apply lookup_diff_ok; exact H4|]. split; [apply labels_okb_sound; exact H3|].
  split; [apply wf_hunksb_sound; exact H1|apply hunks_dominatedb_sound; exact H2].
Qed.

(** When the checker accepts the real merge result of a case, the model returns the input ids
    on the model's materialization: the instance of [unchanged_conflict] for that case. *)
Theorem case_unchanged_sound (c : case) hs :
  c_mh c = inr hs -> hyps6_b c hs = true ->
  update_from_content (case_MH c) (case_ids c) (materialize_of c hs) (N.to_nat (c_len c))
  = case_ids c.
Proof.
  intros Hm H. destruct (hyps6_b_sound c hs H) as [HD [Hl [Hw Hd]]].
  apply unchanged_conflict; try assumption. apply detect_eol_ok.
Qed.

Theorem case_edit_sound (c : case) hs hs' :
  c_mh c = inr hs -> hyps6_b c hs' = true -> hs <> hs' ->
  update_from_content (case_MH c) (case_ids c) (materialize_of c hs') (N.to_nat (c_len c))
  = write_back (case_ids c) hs'.
Proof.
  intros Hm H Hne. destruct (hyps6_b_sound c hs' H) as [HD [Hl [Hw Hd]]].
  apply edited_written_back; try assumption.
  - apply detect_eol_ok.
  - intros old Ho. unfold old_merge, case_MH in Ho. rewrite Hm in Ho. injection Ho as <-. exact Hne.
Qed.

(* ------------------------------------------------------------------ what write_back writes *)

(** The bytes hunk [h] contributes to side [j]. *)
Definition term_at (j : nat) (h : list (list N)) : list N :=
  match h with
  | [slice] => slice
  | _ => nth j h []
  end.
Definition side_content (j : nat) (hs : list (list (list N))) : list N :=
  concat (map (term_at j) hs).

Lemma zip_app_length : forall cs h, length (zip_app cs h) = length cs.
Proof.
  induction cs as [|c cs IH]; intros [|x h]; cbn; try reflexivity. rewrite IH. reflexivity.
Qed.

Lemma add_hunk_length cs h : length (add_hunk cs h) = length cs.
Proof.
  unfold add_hunk. destruct h as [|s [|s2 r]]; [apply zip_app_length|apply map_length|apply zip_app_length].
Qed.

Lemma fold_add_hunk_length hs : forall cs, length (fold_left add_hunk hs cs) = length cs.
Proof.
  induction hs as [|h hs IH]; intros cs; [reflexivity|]. cbn [fold_left].
  rewrite IH. apply add_hunk_length.
Qed.

Lemma zip_app_nth : forall cs h j,
  (length cs <= length h)%nat ->
  nth j (zip_app cs h) [] = nth j cs [] ++ (if Nat.ltb j (length cs) then nth j h [] else []).
Proof.
  induction cs as [|c cs IH]; intros [|x h] j Hlen; cbn [zip_app length] in *.
  - destruct j; reflexivity.
  - destruct j; reflexivity.
  - lia.
  - destruct j as [|j]; [cbn; reflexivity|]. cbn [nth]. rewrite IH by lia.
    reflexivity.
Qed.

Lemma map_app_nth (cs : list (list N)) s j :
  (j < length cs)%nat -> nth j (map (fun c => c ++ s) cs) [] = nth j cs [] ++ s.
Proof.
  revert j. induction cs as [|c cs IH]; intros j Hj; cbn in *; [lia|].
  destruct j; [reflexivity|]. apply IH. lia.
Qed.

Lemma add_hunk_nth cs h j n :
  length cs = n -> (j < n)%nat -> (length h = 1%nat \/ length h = n) ->
  nth j (add_hunk cs h) [] = nth j cs [] ++ term_at j h.
Proof.
  intros Hn Hj Hh. unfold add_hunk, term_at. destruct h as [|s [|s2 r]].
  - destruct Hh as [Hh|Hh]; cbn in Hh; [discriminate|]. subst n. lia.
  - apply map_app_nth. lia.
  - destruct Hh as [Hh|Hh]; [cbn in Hh; discriminate|].
    rewrite zip_app_nth by lia.
    assert (E : Nat.ltb j (length cs) = true) by (apply Nat.ltb_lt; lia).
    rewrite E. reflexivity.
Qed.

Lemma fold_add_hunk_nth n hs : forall cs j,
  length cs = n -> (j < n)%nat ->
  Forall (fun h => length h = 1%nat \/ length h = n) hs ->
  nth j (fold_left add_hunk hs cs) [] = nth j cs [] ++ side_content j hs.
Proof.
  induction hs as [|h hs IH]; intros cs j Hn Hj Hf.
  - cbn. rewrite app_nil_r. reflexivity.
  - inversion Hf as [|? ? Hh Hhs]; subst. cbn [fold_left].
    rewrite IH; [|rewrite add_hunk_length; reflexivity|exact Hj|exact Hhs].
    rewrite (add_hunk_nth cs h j (length cs)) by auto.
    unfold side_content. cbn [map concat]. rewrite app_assoc. reflexivity.
Qed.

Lemma nth_map_const_nil {A} (l : list A) j : nth j (map (fun _ => @nil N) l) [] = [].
Proof. revert j. induction l; intros [|j]; cbn; auto. Qed.

Lemma nth_error_combine_nth {A B} (da : A) (db : B) : forall (l1 : list A) (l2 : list B) j,
  length l1 = length l2 -> (j < length l2)%nat ->
  nth_error (combine l1 l2) j = Some (nth j l1 da, nth j l2 db).
Proof.
  induction l1 as [|a l1 IH]; intros [|b l2] j Hlen Hj; cbn in *; try lia.
  destruct j; [reflexivity|]. apply IH; lia.
Qed.

(** The new simplified ids: side [j] holds exactly the bytes the hunks give it (the edited
    resolved text on every side, its own term of every conflict hunk); an absent side stays
    absent iff it receives no byte. *)
Theorem write_back_simplified ids hs j :
  let s := simplify fid_eqb ids in
  Forall (fun h => length h = 1%nat \/ length h = length s) hs ->
  (j < length s)%nat ->
  nth_error
    (map (fun p => new_id (fst p) (snd p))
         (combine (fold_left add_hunk hs (map (fun _ => []) s)) s)) j
  = Some (new_id (side_content j hs) (nth j s None)).
Proof.
  intros s Hf Hj.
  set (cs := fold_left add_hunk hs (map (fun _ => []) s)).
  assert (Hlen : length cs = length s).
  { subst cs. rewrite fold_add_hunk_length, map_length. reflexivity. }
  assert (Hnth : nth j cs [] = side_content j hs).
  { subst cs. rewrite (fold_add_hunk_nth (length s)); [|apply map_length|exact Hj|exact Hf].
    rewrite nth_map_const_nil. reflexivity. }
  rewrite nth_error_map.
  assert (Hc : nth_error (combine cs s) j = Some (nth j cs [], nth j s None))
    by (apply nth_error_combine_nth; assumption).
  rewrite Hc. cbn [option_map fst snd]. rewrite Hnth. reflexivity.
Qed.

(** Expansion to the original arity: positions that survived simplification receive the new
    simplified ids, every other position keeps its id. *)
Theorem write_back_lands ids hs :
  Nat.odd (length ids) = true ->
  let s := simplify fid_eqb ids in
  let new_ids := map (fun p => new_id (fst p) (snd p))
                     (combine (fold_left add_hunk hs (map (fun _ => []) s)) s) in
  length new_ids = length s /\
  length (write_back ids hs) = length ids /\
  (length s = length ids -> write_back ids hs = new_ids) /\
  (length s <> length ids ->
     (forall i, ~ In i (simplified_mapping fid_eqb ids) ->
        nth_error (write_back ids hs) i = nth_error ids i) /\
     (forall j i, nth_error (simplified_mapping fid_eqb ids) j = Some i ->
        nth_error (write_back ids hs) i = nth_error new_ids j)).
Proof.
  intros Hodd s new_ids.
  assert (Hlen : length new_ids = length s).
  { subst new_ids. rewrite map_length, combine_length, fold_add_hunk_length, map_length.
    apply Nat.min_id. }
  destruct (update_lands_guarded fid_eqb fid_eqb_spec ids new_ids Hodd Hlen) as [U1 [U2 U3]].
  unfold write_back. fold s. fold new_ids.
  split; [exact Hlen|]. destruct (Nat.eqb (length new_ids) (length ids)) eqn:E.
  - apply Nat.eqb_eq in E. split; [exact E|]. split; [reflexivity|]. intros Hne. lia.
  - apply Nat.eqb_neq in E. split; [exact U1|]. split; [intros Heq; lia|].
    intros _. split; [exact U2|exact U3].
Qed.

(** An edit of one resolved hunk lands at the same place of every side. *)
Theorem side_content_edit j hs1 r hs2 :
  side_content j (hs1 ++ [r] :: hs2) = side_content j hs1 ++ r ++ side_content j hs2.
Proof. unfold side_content. rewrite map_app, concat_app. reflexivity. Qed.

(* ------------------------------------------------------------------ checker spec *)

Definition C06_ok (c : case) : Prop :=
  match c_kind c with
  | 0%N => c_result c = Some (c_vals c)
  | 1%N =>
      match c_mh c, c_edit c with
      | inr hs, Some (k, r) =>
          ids_of_result c = Some (write_back (case_ids c) (edit_hunks hs (N.to_nat k) r))
      | _, _ => True
      end
  | 2%N =>
      no_start_b (N.to_nat (c_len c)) (c_content c) = true ->
      ids_of_result c =
      Some (match c_mh c with
            | inl old => if bytes_eqb old (c_content c) then case_ids c else [Some (c_content c)]
            | inr _ => [Some (c_content c)]
            end)
  | _ => True
  end.

Theorem okb_spec (c : case) : okb c = true <-> C06_ok c.
Proof.
  unfold okb, C06_ok. destruct (c_kind c) as [|p].
  - apply option_eqb_eq. exact vals_eqb_eq.
  - destruct p as [p|p|].
    + tauto.
    + destruct p as [p|p|]; try tauto.
      destruct (no_start_b _ _); cbn [negb orb].
      * rewrite (option_eqb_eq _ fids_eqb_eq). tauto.
      * split; [intros _ H; discriminate|reflexivity].
    + destruct (c_mh c) as [old|hs]; [tauto|]. destruct (c_edit c) as [[k r]|]; [|tauto].
      apply (option_eqb_eq _ fids_eqb_eq).
Qed.
