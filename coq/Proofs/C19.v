(** C19 — proofs: the listing checker, basic facts about the set semantics, and the
    soundness of the optimizer passes. *)
From Verif Require Import Base.Prelude Base.DagR Model.C19.
From Coq Require Import Lia Arith Sorted.
Import ListNotations.
Local Open Scope nat_scope.

Scheme bexpr_mut := Induction for bexpr Sort Prop
  with pexpr_mut := Induction for pexpr Sort Prop.
Combined Scheme bexpr_pexpr_ind from bexpr_mut, pexpr_mut.

(* ------------------------------------------------------------------ the checker *)

Lemma lnat_eqb_eq l1 l2 : lnat_eqb l1 l2 = true <-> l1 = l2.
Proof.
  unfold lnat_eqb. revert l2. induction l1 as [|a t IH]; intros [|b u]; simpl; split;
    try congruence; auto.
  - rewrite andb_true_iff, Nat.eqb_eq, IH. intros [-> ->]. reflexivity.
  - intros H. inversion H; subst. rewrite andb_true_iff, Nat.eqb_eq, IH. auto.
Qed.

Lemma sorted_desc_spec l : sorted_desc l = true <-> StronglySorted gt l.
Proof.
  induction l as [|x t IH]; simpl.
  - split; auto. constructor.
  - destruct t as [|y u].
    + split; auto. intros _. repeat constructor.
    + rewrite andb_true_iff, Nat.ltb_lt, IH. split.
      * intros [Hyx Hs]. constructor; auto. constructor; [lia|].
        inversion Hs as [|? ? _ Hall]; subst. rewrite Forall_forall in *.
        intros z Hz. specialize (Hall z Hz). lia.
      * intros Hs. inversion Hs as [|? ? Ht Hall]; subst. split; auto.
        inversion Hall; subst. lia.
Qed.

(** Meaning of [set_ok]: the listing is strictly descending, inside the index, and lists
    exactly the members of [s]. *)
Lemma set_ok_spec W s l :
  set_ok W s l = true <->
  StronglySorted gt l /\ (forall x, In x l -> x < length (w_graph W)) /\
  (forall x, x < length (w_graph W) -> (In x l <-> bmem s x = true)).
Proof.
  unfold set_ok. rewrite !andb_true_iff, sorted_desc_spec, !forallb_forall. split.
  - intros [[Hs Hr] Hm]. repeat split; auto.
    + intros x Hx. apply Nat.ltb_lt. auto.
    + intros Hin. specialize (Hm x (proj2 (in_seq _ _ _) (conj (Nat.le_0_l _) H))).
      apply eqb_prop in Hm. rewrite <- Hm. now apply memn_In.
    + intros Hb. specialize (Hm x (proj2 (in_seq _ _ _) (conj (Nat.le_0_l _) H))).
      apply eqb_prop in Hm. apply memn_In. congruence.
  - intros [Hs [Hr Hm]]. repeat split; auto.
    + intros x Hx. apply Nat.ltb_lt. auto.
    + intros x Hx. apply in_seq in Hx. apply eqb_true_iff. apply bool_eq_iff.
      rewrite memn_In. apply Hm. lia.
Qed.

(** A listing accepted by [set_ok] is *the* descending listing of the set. *)
Lemma set_ok_blist W s l :
  set_ok W s l = true -> l = blist (length (w_graph W)) s.
Proof.
  rewrite set_ok_spec. intros [Hs [Hr Hm]].
  apply sorted_gt_unique; auto using blist_sorted.
  intros x. rewrite blist_In. split.
  - intros Hin. split; auto. apply Hm; auto.
  - intros [Hx Hb]. apply Hm; auto.
Qed.

(* ------------------------------------------------------------------ lengths *)

Lemma iter_inv {A} (P : A -> Prop) (f : A -> A) k s :
  (forall a, P a -> P (f a)) -> P s -> P (Nat.iter k f s).
Proof. intros Hf Hs. induction k; simpl; auto. Qed.

Lemma bden_pbden_length W :
  (forall b, length (bden W b) = length (w_graph W)) /\
  (forall p, length (pbden W p) = length (w_graph W)).
Proof.
  apply bexpr_pexpr_ind; intros; cbn [bden pbden]; try apply tab_length; auto.
  - unfold sem_reachable. apply (iter_inv (fun s => length s = length (w_graph W))).
    + intros a _. apply tab_length.
    + apply tab_length.
  - unfold sem_fork_point. destruct (bis_empty _); apply tab_length.
  - unfold sem_merge_point. destruct (bis_empty _); apply tab_length.
  - unfold sem_bisect. destruct (blist _ _); apply tab_length.
  - destruct (bis_empty _); auto.
Qed.
Lemma bden_length W b : length (bden W b) = length (w_graph W).
Proof. apply bden_pbden_length. Qed.
Lemma pbden_length W p : length (pbden W p) = length (w_graph W).
Proof. apply bden_pbden_length. Qed.
Lemma den_length W c e : length (den W c e) = length (w_graph W).
Proof. apply bden_length. Qed.
Lemma pden_length W c e : length (pden W c e) = length (w_graph W).
Proof. apply pbden_length. Qed.

Definition is_none (e : expr) : bool := match e with ENone => true | _ => false end.
Definition is_all (e : expr) : bool := match e with EAll => true | _ => false end.

(* ------------------------------------------------------------------ semantics facts *)

Section Sound.
  Variable W : world.
  Let G := w_graph W.
  Let n := length G.
  Hypothesis Hwf : wf_graph G.
  Hypothesis Hpc : pc_ok G.
  Hypothesis Hsm : small G.
  (** every commit except the root (position 0) has a parent *)
  Hypothesis Hrooted : forall x, x < n -> x <> 0 -> parents G x <> [].

  Notation mem s x := (bmem s x = true).
  Definition allset (c : vctx) : bset := bden W (b_all c).
  Definition vr (c : vctx) : bset := bof_list n (x_refs c ++ x_vis c).

  (** The context has an (in-range) visible head — views are never empty. *)
  Definition okctx (c : vctx) : Prop := exists v, In v (x_vis c) /\ v < n.

  (** Correct scoping: every [Commits] leaf is listed among the referenced commits of the
      scope it is evaluated in; nested scopes are listed in their enclosing scope. This is
      what [resolve_referenced_commits] establishes (lemma [rrc_wfs]). *)
  Fixpoint wfs (r : list nat) (e : expr) : Prop :=
    match e with
    | ENone | EAll | EVisibleHeads | EVisibleHeadsOrReferenced | ERoot | EForks | EFilter _ => True
    | ECommits l => incl l r
    | EAncestors h _ _ => wfs r h
    | EDescendants x _ => wfs r x
    | ERange a b _ _ | EDagRange a b | EReachable a b | ECoalesce a b | EUnion a b
    | EIntersection a b | EDifference a b => wfs r a /\ wfs r b
    | EHeads x | ERoots x | EForkPoint x | EMergePoint x | EBisect x | ELatest x _
    | EAsFilter x | EPresent x | ENotIn x => wfs r x
    | EHeadsRange a b _ f => wfs r a /\ wfs r b /\ wfs r f
    | EWithinReference x cs => incl cs r /\ wfs cs x
    | EWithinVisibility x vh => incl vh r /\ (exists v, In v vh /\ v < n) /\ wfs r x
    end.

  Lemma allset_eq c : allset c = anc_full G (vr c).
  Proof. reflexivity. Qed.

  Lemma mem_vr c x : mem (vr c) x <-> x < n /\ In x (x_refs c ++ x_vis c).
  Proof. unfold vr. rewrite bmem_bof_list, andb_true_iff, Nat.ltb_lt, memn_In. tauto. Qed.

  Lemma allset_closed c S :
    (forall x, x < n -> mem S x -> mem (allset c) x) ->
    forall y, mem (anc_full G S) y -> mem (allset c) y.
  Proof. rewrite allset_eq. apply anc_full_closed; auto. Qed.

  Lemma vr_sub_all c x : mem (vr c) x -> mem (allset c) x.
  Proof. intros H. rewrite allset_eq. apply anc_full_incl; auto. apply mem_vr in H. tauto. Qed.

  (** Every in-range position has the root among its ancestors. *)
  Lemma root_reach : forall x, x < n -> exists k, reach (parents G) k x 0.
  Proof.
    induction x as [x IH] using lt_wf_ind. intros Hx.
    destruct (Nat.eq_dec x 0) as [->|Hne].
    - exists 0. constructor.
    - specialize (Hrooted x Hx Hne). destruct (parents G x) as [|p ps] eqn:E; [congruence|].
      assert (Hp : In p (parents G x)) by (rewrite E; now left).
      assert (Hlt := Hwf _ _ Hp).
      destruct (IH p Hlt ltac:(lia)) as [k Hk]. exists (S k). econstructor; eauto.
  Qed.

  Lemma root_in_all c : okctx c -> mem (allset c) 0.
  Proof.
    intros [v [Hv Hlt]]. rewrite allset_eq. apply anc_full_spec; auto.
    destruct (root_reach v Hlt) as [k Hk]. exists k, v. repeat split; auto.
    apply mem_vr. split; auto. apply in_or_app. now right.
  Qed.

  Lemma allset_mono c c' :
    incl (x_refs c' ++ x_vis c') (x_refs c ++ x_vis c) ->
    forall x, mem (allset c') x -> mem (allset c) x.
  Proof.
    intros Hi. rewrite !allset_eq. apply anc_full_mono; auto. intros x Hx. rewrite !mem_vr.
    intros [_ Hin]. split; auto.
  Qed.

  (* membership facts about the special operators *)
  Lemma sem_reachable_sub S D x : mem (sem_reachable W S D) x -> mem D x.
  Proof.
    unfold sem_reachable.
    revert x. apply (iter_inv (fun s => forall x, mem s x -> mem D x)).
    - intros a IH y. rewrite bmem_bunion, andb_true_iff, orb_true_iff. intros [_ [H|H]].
      + auto.
      + rewrite bmem_binter, !andb_true_iff in H. tauto.
    - intros y. rewrite bmem_binter, !andb_true_iff. tauto.
  Qed.

  Lemma inter_over_fold S f l : forall start x,
    mem (fold_left (fun acc s => if bmem S s then binter n acc (f s) else acc) l start) x <->
    mem start x /\ (forall s, In s l -> mem S s -> x < n /\ mem (f s) x).
  Proof.
    induction l as [|a l IH]; intros start x; simpl.
    - split; [intros H; split; auto; intros s []|tauto].
    - rewrite IH. destruct (bmem S a) eqn:E.
      + rewrite bmem_binter, !andb_true_iff, Nat.ltb_lt. split.
        * intros [[Hx [Hs Hf]] Hall]. split; auto. intros s [<-|Hin] Hm; auto.
        * intros [Hs Hall]. destruct (Hall a (or_introl eq_refl) E) as [Hx Hf].
          split; [tauto|]. intros s Hin Hm. apply Hall; auto.
      + split.
        * intros [Hs Hall]. split; auto. intros s [<-|Hin] Hm; [congruence|auto].
        * intros [Hs Hall]. split; auto.
  Qed.

  Lemma inter_over_spec S f start x :
    mem (inter_over W S f start) x <->
    mem start x /\ (forall s, s < n -> mem S s -> x < n /\ mem (f s) x).
  Proof.
    unfold inter_over. fold G. fold n. rewrite inter_over_fold. split; intros [H1 H2]; split; auto.
    - intros s Hs. apply H2. apply in_seq. lia.
    - intros s Hs. apply H2. apply in_seq in Hs. lia.
  Qed.

  Lemma not_empty_member S : bis_empty (tab n (bmem S)) = false ->
    exists s, s < n /\ mem S s.
  Proof.
    intros H. destruct (existsb (fun s => bmem S s) (seq 0 n)) eqn:E.
    - apply existsb_exists in E. destruct E as [s [Hin Hm]]. apply in_seq in Hin.
      exists s. split; auto. lia.
    - exfalso. assert (bis_empty (tab n (bmem S)) = true); [|congruence].
      apply bis_empty_spec. intros x. rewrite bmem_tab.
      destruct (Nat.ltb_spec x n); auto.
      destruct (bmem S x) eqn:Ex; auto.
      assert (existsb (fun s => bmem S s) (seq 0 n) = true); [|congruence].
      apply existsb_exists. exists x. split; auto. apply in_seq. lia.
  Qed.

  Lemma sem_fork_point_sub S x : mem (sem_fork_point W S) x ->
    exists s, s < n /\ mem S s /\ mem (anc_full G (bsingle n s)) x.
  Proof.
    unfold sem_fork_point. fold G. fold n. destruct (bis_empty _) eqn:E.
    - rewrite bmem_bempty. discriminate.
    - intros H. apply heads_sub in H. apply inter_over_spec in H. destruct H as [_ H].
      destruct (not_empty_member S E) as [s [Hs Hm]]. exists s. repeat split; auto.
      now apply H.
  Qed.

  Lemma sem_merge_point_sub R VH x : mem (sem_merge_point W R VH) x -> mem (anc_full G VH) x.
  Proof.
    unfold sem_merge_point. fold G. fold n. destruct (bis_empty _) eqn:E.
    - rewrite bmem_bempty. discriminate.
    - intros H. apply roots_sub in H. apply inter_over_spec in H. tauto.
  Qed.

  Lemma sem_bisect_sub S x : mem (sem_bisect W S) x -> mem S x.
  Proof.
    unfold sem_bisect. fold G. fold n. destruct (blist n S) as [|a l] eqn:E.
    - rewrite bmem_bempty. discriminate.
    - rewrite bmem_bsingle, andb_true_iff, Nat.eqb_eq. intros [_ ->].
      assert (Hin : In (nth (Nat.div (length (a :: l)) 2) (a :: l) 0) (blist n S)).
      { rewrite E. apply nth_In. apply Nat.div_lt; simpl; lia. }
      apply blist_In in Hin. tauto.
  Qed.

  Lemma sem_latest_sub S k x : mem (sem_latest W S k) x -> mem S x.
  Proof. unfold sem_latest. rewrite bmem_tab_true, andb_true_iff. tauto. Qed.

  Lemma sem_forks_sub A x : mem (sem_forks W A) x -> mem A x.
  Proof. unfold sem_forks. rewrite bmem_tab_true, andb_true_iff. tauto. Qed.

  Lemma single_sub_all c s : mem (allset c) s ->
    forall x, mem (anc_full G (bsingle n s)) x -> mem (allset c) x.
  Proof.
    intros Hs. apply allset_closed. intros y Hy. rewrite bmem_bsingle, andb_true_iff, Nat.eqb_eq.
    intros [_ ->]. exact Hs.
  Qed.

  (** Everything a well-scoped expression denotes lies inside [all()]. *)
  Lemma sub_all e : forall c, okctx c -> wfs (x_refs c) e ->
    forall x, mem (den W c e) x -> mem (allset c) x.
  Proof.
    induction e; intros c Hc Hw x; unfold den, resolve; cbn [res fst snd]; cbn [wfs] in Hw;
      fold G; fold n.
    - (* None *) cbn [bden]. fold G; fold n. rewrite bmem_bof_list, andb_true_iff. simpl. intros [_ H]; discriminate.
    - (* All *) auto.
    - (* VisibleHeads *)
      assert (Hv : forall y, mem (bof_list n (x_vis c)) y -> mem (allset c) y).
      { intros y Hy. apply vr_sub_all. apply mem_vr. rewrite bmem_bof_list, andb_true_iff, Nat.ltb_lt, memn_In in Hy.
        split; [tauto|]. apply in_or_app. tauto. }
      unfold b_vis. destruct (x_hn c); cbn [bden]; fold G; fold n; auto.
      intros H. apply heads_sub in H. auto.
    - (* VisibleHeadsOrReferenced *) cbn [b_vis_or_ref bden]. apply vr_sub_all.
    - (* Root *) cbn [bden]. fold G; fold n. rewrite bmem_bof_list, andb_true_iff, memn_In.
      intros [_ [<-|[]]]. now apply root_in_all.
    - (* Commits *) cbn [bden]. fold G; fold n. rewrite bmem_bof_list, andb_true_iff, Nat.ltb_lt, memn_In.
      intros [Hx Hin]. apply vr_sub_all. apply mem_vr. split; auto. apply in_or_app. left. auto.
    - (* Ancestors *) cbn [bden]. fold G. intros H. apply anc_gen_sub_full in H; auto.
      revert x H. apply allset_closed. intros y _. apply IHe; auto.
    - (* Descendants *) cbn [bden]. fold G; fold n. rewrite bmem_binter, !andb_true_iff. intros [_ [H _]]. exact H.
    - (* Range *) cbn [bden]. fold G; fold n. rewrite bmem_bdiff, !andb_true_iff. intros [_ [H _]].
      apply anc_gen_sub_full in H; auto. revert x H. apply allset_closed. intros y _. apply IHe2; tauto.
    - (* DagRange *) cbn [bden]. fold G; fold n. rewrite bmem_binter, !andb_true_iff. intros [_ [H _]].
      revert x H. apply allset_closed. intros y _. apply IHe2; tauto.
    - (* Reachable *) cbn [bden]. intros H. apply sem_reachable_sub in H. apply IHe2; tauto.
    - (* Heads *) cbn [bden]. fold G. intros H. apply heads_sub in H. apply IHe; auto.
    - (* HeadsRange *)
      assert (Hk : forall y, mem (anc_gen G p GEN_FULL (bden W (fst (res c e2)))) y -> mem (allset c) y).
      { intros y H. apply anc_gen_sub_full in H; auto. revert y H. apply allset_closed.
        intros z _. apply IHe2; tauto. }
      destruct e3; cbn [bden]; fold G; fold n; intros H; apply heads_sub in H;
        try (rewrite bmem_binter, !andb_true_iff in H; destruct H as [_ [H _]]);
        rewrite bmem_bdiff, !andb_true_iff in H; apply Hk; tauto.
    - (* Roots *) cbn [bden]. fold G. intros H. apply roots_sub in H. apply IHe; auto.
    - (* Forks *) cbn [bden]. fold G. intros H. apply sem_forks_sub in H. exact H.
    - (* ForkPoint *) cbn [bden]. intros H. apply sem_fork_point_sub in H.
      destruct H as [s [Hs [Hm Ha]]]. apply (single_sub_all c s); auto; try (apply IHe; auto).
    - (* MergePoint *) cbn [bden]. intros H. apply sem_merge_point_sub in H. exact H.
    - (* Bisect *) cbn [bden]. intros H. apply sem_bisect_sub in H. apply IHe; auto.
    - (* Latest *) cbn [bden]. intros H. apply sem_latest_sub in H. apply IHe; auto.
    - (* Filter *) cbn [bden]. fold G; fold n. rewrite bmem_binter, !andb_true_iff. intros [_ [H _]]. exact H.
    - (* AsFilter *) cbn [bden]. fold G; fold n. rewrite bmem_binter, !andb_true_iff. intros [_ [H _]]. exact H.
    - (* WithinReference *) destruct Hw as [Hi Hw]. intros H.
      apply (allset_mono c (mk_vctx cs (x_vis c) (x_hn c))).
      + cbn. intros y Hy. apply in_app_or in Hy. apply in_or_app. destruct Hy; auto.
      + apply IHe; auto.
    - (* WithinVisibility *) destruct Hw as [Hi [Hv Hw]]. intros H.
      apply (allset_mono c (mk_vctx (x_refs c) vh (x_hn c))).
      + cbn. intros y Hy. apply in_app_or in Hy. apply in_or_app. destruct Hy; auto.
      + apply IHe; auto.
    - (* Coalesce *) cbn [bden]. destruct (bis_empty _); [apply IHe2|apply IHe1]; tauto.
    - (* Present *) apply IHe; auto.
    - (* NotIn *) cbn [bden]. fold G; fold n. rewrite bmem_bdiff, !andb_true_iff. intros [_ [H _]]. exact H.
    - (* Union *) cbn [bden]. fold G; fold n. rewrite bmem_bunion, andb_true_iff, orb_true_iff.
      intros [_ [H|H]]; [apply IHe1|apply IHe2]; tauto.
    - (* Intersection *)
      destruct e2; cbn [bden]; fold G; fold n; rewrite bmem_binter, !andb_true_iff;
        intros [_ [H _]]; apply IHe1; tauto.
    - (* Difference *) cbn [bden]. fold G; fold n. rewrite bmem_bdiff, !andb_true_iff.
      intros [_ [H _]]; apply IHe1; tauto.
  Qed.

  (** Inside [all()], evaluating a well-scoped expression as a predicate or as a set is the
      same thing. *)
  Lemma pden_den e : forall c, okctx c -> wfs (x_refs c) e ->
    forall x, mem (allset c) x -> bmem (pden W c e) x = bmem (den W c e) x.
  Proof.
    induction e; intros c Hc Hw x Hx; unfold pden, den, resolve_pred, resolve;
      cbn [res fst snd pbden]; cbn [wfs] in Hw; try reflexivity.
    - (* Filter *) cbn [bden pbden]. fold G; fold n. rewrite bmem_binter.
      change (bden W (b_all c)) with (allset c). rewrite Hx.
      assert (Hn : x < n) by (rewrite allset_eq in Hx; eapply anc_full_lt; eauto).
      apply Nat.ltb_lt in Hn. rewrite Hn. reflexivity.
    - (* AsFilter *) cbn [bden]. fold G; fold n. rewrite bmem_binter.
      change (bden W (b_all c)) with (allset c). rewrite Hx.
      assert (Hn : x < n) by (rewrite allset_eq in Hx; eapply anc_full_lt; eauto).
      apply Nat.ltb_lt in Hn. rewrite Hn. reflexivity.
    - (* Present *) apply IHe; auto.
    - (* NotIn *) cbn [bden]. fold G; fold n. rewrite bmem_bcompl, bmem_bdiff.
      change (bden W (b_all c)) with (allset c). rewrite Hx.
      specialize (IHe c Hc Hw x Hx). unfold pden, den, resolve_pred, resolve in IHe.
      rewrite IHe. reflexivity.
    - (* Union *) cbn [bden]. fold G; fold n. rewrite !bmem_bunion.
      destruct Hw as [Hw1 Hw2].
      specialize (IHe1 c Hc Hw1 x Hx). specialize (IHe2 c Hc Hw2 x Hx).
      unfold pden, den, resolve_pred, resolve in IHe1, IHe2. rewrite IHe1, IHe2. reflexivity.
    - (* Intersection *) destruct Hw as [Hw1 Hw2].
      specialize (IHe1 c Hc Hw1 x Hx). specialize (IHe2 c Hc Hw2 x Hx).
      unfold pden, den, resolve_pred, resolve in IHe1, IHe2.
      destruct e2; cbn [bden]; fold G; fold n; rewrite !bmem_binter; rewrite IHe1;
        first [reflexivity | rewrite IHe2; reflexivity].
    - (* Difference *) cbn [bden pbden]. fold G; fold n. rewrite bmem_binter, bmem_bcompl, bmem_bdiff.
      destruct Hw as [Hw1 Hw2].
      specialize (IHe1 c Hc Hw1 x Hx). specialize (IHe2 c Hc Hw2 x Hx).
      unfold pden, den, resolve_pred, resolve in IHe1, IHe2. rewrite IHe1, IHe2.
      destruct (x <? n); reflexivity.
  Qed.

  Lemma allset_lt c x : mem (allset c) x -> x < n.
  Proof. rewrite allset_eq. apply anc_full_lt. Qed.

  (* ---------------------------------------------------------------- den equations *)

  Lemma den_AsFilter_raw c x : den W c (EAsFilter x) = binter n (allset c) (pden W c x).
  Proof. reflexivity. Qed.
  Lemma den_Filter_raw c f : den W c (EFilter f) = binter n (allset c) (pden W c (EFilter f)).
  Proof. reflexivity. Qed.
  Lemma den_Inter_Filter_raw c a f :
    den W c (EIntersection a (EFilter f)) = binter n (den W c a) (pden W c (EFilter f)).
  Proof. reflexivity. Qed.
  Lemma den_Inter_AsFilter_raw c a x :
    den W c (EIntersection a (EAsFilter x)) = binter n (den W c a) (pden W c x).
  Proof. reflexivity. Qed.

  Lemma den_AsFilter c x : okctx c -> wfs (x_refs c) x ->
    den W c (EAsFilter x) = binter n (allset c) (den W c x).
  Proof.
    intros Hc Hw. rewrite den_AsFilter_raw. apply (bset_ext n); try apply tab_length.
    intros y Hy. rewrite !bmem_binter.
    destruct (bmem (allset c) y) eqn:E; [|reflexivity].
    rewrite pden_den; auto.
  Qed.

  Lemma den_Intersection c a b : okctx c -> wfs (x_refs c) a ->
    den W c (EIntersection a b) = binter n (den W c a) (den W c b).
  Proof.
    intros Hc Hw.
    assert (Hf : forall q, binter n (den W c a) q = binter n (den W c a) (binter n (allset c) q)).
    { intros q. apply (bset_ext n); try apply tab_length. intros y Hy. rewrite !bmem_binter.
      destruct (bmem (den W c a) y) eqn:E; [|now rewrite !andb_false_r].
      rewrite (sub_all a c Hc Hw y E). destruct (y <? n); reflexivity. }
    destruct b; try reflexivity.
    - rewrite den_Inter_Filter_raw, den_Filter_raw. apply Hf.
    - rewrite den_Inter_AsFilter_raw, den_AsFilter_raw. apply Hf.
  Qed.

  Definition range_set (c : vctx) (r h : expr) (p : nrange) : bset :=
    bdiff n (anc_gen G p GEN_FULL (den W c h)) (anc_full G (den W c r)).

  Lemma range_set_sub c r h p : okctx c -> wfs (x_refs c) h ->
    forall x, mem (range_set c r h p) x -> mem (allset c) x.
  Proof.
    intros Hc Hw x. unfold range_set. rewrite bmem_bdiff, !andb_true_iff. intros [_ [H _]].
    apply anc_gen_sub_full in H; auto. revert x H. apply allset_closed.
    intros y _. apply sub_all; auto.
  Qed.

  Lemma den_HeadsRange_all_raw c r h p :
    den W c (EHeadsRange r h p EAll) = heads G (range_set c r h p).
  Proof. reflexivity. Qed.
  Lemma den_HeadsRange_raw c r h p f : f <> EAll ->
    den W c (EHeadsRange r h p f) = heads G (binter n (range_set c r h p) (pden W c f)).
  Proof.
    intros Hf. destruct f; try congruence;
      unfold den, pden, resolve, resolve_pred, range_set; cbn [res fst snd]; reflexivity.
  Qed.

  Lemma den_HeadsRange c r h p f : okctx c -> wfs (x_refs c) h -> wfs (x_refs c) f ->
    den W c (EHeadsRange r h p f) = heads G (binter n (range_set c r h p) (den W c f)).
  Proof.
    intros Hc Hh Hf.
    assert (Hp : binter n (range_set c r h p) (pden W c f)
                 = binter n (range_set c r h p) (den W c f)).
    { apply (bset_ext n); try apply tab_length. intros y Hy. rewrite !bmem_binter.
      destruct (bmem (range_set c r h p) y) eqn:E; [|now rewrite !andb_false_r].
      rewrite pden_den; auto. exact (range_set_sub c r h p Hc Hh y E). }
    assert (Hd : {f = EAll} + {f <> EAll}) by (destruct f; try (right; discriminate); left; reflexivity).
    destruct Hd as [->|Hne].
    - (* filter = all(): no predicate is attached *)
      rewrite den_HeadsRange_all_raw. f_equal.
      apply (bset_ext n); try apply tab_length. intros y Hy.
      rewrite bmem_binter. destruct (bmem (range_set c r h p) y) eqn:E.
      + change (den W c EAll) with (allset c). rewrite (range_set_sub c r h p Hc Hh y E).
        apply Nat.ltb_lt in Hy. now rewrite Hy.
      + now rewrite andb_false_r.
    - rewrite den_HeadsRange_raw by assumption. now rewrite Hp.
  Qed.

  (* ---------------------------------------------------------------- bottom-up soundness *)

  (** A rewriting rule is sound when, in every well-scoped position, it keeps the scoping
      and the denotation. *)
  Definition sound_post (post : expr -> option expr) : Prop :=
    forall c e e', okctx c -> wfs (x_refs c) e -> post e = Some e' ->
      wfs (x_refs c) e' /\ den W c e' = den W c e.

  Definition preserved (c : vctx) (e e' : expr) : Prop :=
    wfs (x_refs c) e' /\ den W c e' = den W c e.

  Lemma tr_sound post : sound_post post ->
    forall e c, okctx c -> wfs (x_refs c) e -> preserved c e (tr post e).
  Proof.
    intros Hpost.
    assert (Hstep : forall c e e1, okctx c -> preserved c e e1 ->
              preserved c e (match post e1 with Some e2 => e2 | None => e1 end)).
    { intros c e e1 Hc [Hw He]. destruct (post e1) as [e2|] eqn:E; [|split; auto].
      destruct (Hpost c e1 e2 Hc Hw E) as [Hw2 He2]. split; auto. congruence. }
    induction e; intros c Hc Hw; cbn [tr]; apply Hstep; auto; cbn [wfs] in Hw;
      try (split; [exact Hw | reflexivity]).
    - (* Ancestors *) destruct (IHe c Hc Hw) as [H1 H2]. split; [exact H1|].
      unfold den, resolve in *. cbn [res fst snd bden]. now rewrite H2.
    - (* Descendants *) destruct (IHe c Hc Hw) as [H1 H2]. split; [exact H1|].
      unfold den, resolve in *. cbn [res fst snd bden]. now rewrite H2.
    - (* Range *) destruct Hw as [Hwa Hwb]. destruct (IHe1 c Hc Hwa) as [H1 H2].
      destruct (IHe2 c Hc Hwb) as [H3 H4]. split; [split; assumption|].
      unfold den, resolve in *. cbn [res fst snd bden]. now rewrite H2, H4.
    - (* DagRange *) destruct Hw as [Hwa Hwb]. destruct (IHe1 c Hc Hwa) as [H1 H2].
      destruct (IHe2 c Hc Hwb) as [H3 H4]. split; [split; assumption|].
      unfold den, resolve in *. cbn [res fst snd bden]. now rewrite H2, H4.
    - (* Reachable *) destruct Hw as [Hwa Hwb]. destruct (IHe1 c Hc Hwa) as [H1 H2].
      destruct (IHe2 c Hc Hwb) as [H3 H4]. split; [split; assumption|].
      unfold den, resolve in *. cbn [res fst snd bden]. now rewrite H2, H4.
    - (* Heads *) destruct (IHe c Hc Hw) as [H1 H2]. split; [exact H1|].
      unfold den, resolve in *. cbn [res fst snd bden]. now rewrite H2.
    - (* HeadsRange *) destruct Hw as [Hwa [Hwb Hwc]]. destruct (IHe1 c Hc Hwa) as [H1 H2].
      destruct (IHe2 c Hc Hwb) as [H3 H4]. destruct (IHe3 c Hc Hwc) as [H5 H6].
      split; [repeat split; assumption|].
      rewrite !den_HeadsRange by assumption. unfold range_set. now rewrite H2, H4, H6.
    - (* Roots *) destruct (IHe c Hc Hw) as [H1 H2]. split; [exact H1|].
      unfold den, resolve in *. cbn [res fst snd bden]. now rewrite H2.
    - (* ForkPoint *) destruct (IHe c Hc Hw) as [H1 H2]. split; [exact H1|].
      unfold den, resolve in *. cbn [res fst snd bden]. now rewrite H2.
    - (* MergePoint *) destruct (IHe c Hc Hw) as [H1 H2]. split; [exact H1|].
      unfold den, resolve in *. cbn [res fst snd bden]. now rewrite H2.
    - (* Bisect *) destruct (IHe c Hc Hw) as [H1 H2]. split; [exact H1|].
      unfold den, resolve in *. cbn [res fst snd bden]. now rewrite H2.
    - (* Latest *) destruct (IHe c Hc Hw) as [H1 H2]. split; [exact H1|].
      unfold den, resolve in *. cbn [res fst snd bden]. now rewrite H2.
    - (* AsFilter *) destruct (IHe c Hc Hw) as [H1 H2]. split; [exact H1|].
      rewrite !den_AsFilter by assumption. now rewrite H2.
    - (* WithinReference *) destruct Hw as [Hi Hw].
      assert (Hc' : okctx (mk_vctx cs (x_vis c) (x_hn c))) by exact Hc.
      destruct (IHe (mk_vctx cs (x_vis c) (x_hn c)) Hc' Hw) as [H1 H2].
      split; [split; assumption|].
      unfold den, resolve in *. cbn [res fst snd]. exact H2.
    - (* WithinVisibility *) destruct Hw as [Hi [Hv Hw]].
      assert (Hc' : okctx (mk_vctx (x_refs c) vh (x_hn c))) by exact Hv.
      destruct (IHe (mk_vctx (x_refs c) vh (x_hn c)) Hc' Hw) as [H1 H2].
      split; [repeat split; assumption|].
      unfold den, resolve in *. cbn [res fst snd]. exact H2.
    - (* Coalesce *) destruct Hw as [Hwa Hwb]. destruct (IHe1 c Hc Hwa) as [H1 H2].
      destruct (IHe2 c Hc Hwb) as [H3 H4]. split; [split; assumption|].
      unfold den, resolve in *. cbn [res fst snd bden]. now rewrite H2, H4.
    - (* Present *) destruct (IHe c Hc Hw) as [H1 H2]. split; [exact H1|].
      unfold den, resolve in *. cbn [res fst snd]. exact H2.
    - (* NotIn *) destruct (IHe c Hc Hw) as [H1 H2]. split; [exact H1|].
      unfold den, resolve in *. cbn [res fst snd bden]. now rewrite H2.
    - (* Union *) destruct Hw as [Hwa Hwb]. destruct (IHe1 c Hc Hwa) as [H1 H2].
      destruct (IHe2 c Hc Hwb) as [H3 H4]. split; [split; assumption|].
      unfold den, resolve in *. cbn [res fst snd bden]. now rewrite H2, H4.
    - (* Intersection *) destruct Hw as [Hwa Hwb]. destruct (IHe1 c Hc Hwa) as [H1 H2].
      destruct (IHe2 c Hc Hwb) as [H3 H4]. split; [split; assumption|].
      rewrite !den_Intersection by assumption. now rewrite H2, H4.
    - (* Difference *) destruct Hw as [Hwa Hwb]. destruct (IHe1 c Hc Hwa) as [H1 H2].
      destruct (IHe2 c Hc Hwb) as [H3 H4]. split; [split; assumption|].
      unfold den, resolve in *. cbn [res fst snd bden]. now rewrite H2, H4.
  Qed.

  (* ---------------------------------------------------------------- set algebra helpers *)

  Ltac bsets := apply (bset_ext n); [try apply tab_length; try apply den_length; try apply bden_length
                                   | try apply tab_length; try apply den_length; try apply bden_length | ].

  Lemma allset_length c : length (allset c) = n.
  Proof. apply bden_length. Qed.

  Definition sub (A B : bset) : Prop := forall x, mem A x -> mem B x.

  Lemma binter_all_r c A : length A = n -> sub A (allset c) -> binter n A (allset c) = A.
  Proof.
    intros Hl Hs. apply (bset_ext n); [apply tab_length|exact Hl|]. intros y Hy.
    rewrite bmem_binter. apply Nat.ltb_lt in Hy. rewrite Hy.
    destruct (bmem A y) eqn:E; [rewrite (Hs y E)|]; reflexivity.
  Qed.
  Lemma binter_all_l c A : length A = n -> sub A (allset c) -> binter n (allset c) A = A.
  Proof.
    intros Hl Hs. apply (bset_ext n); [apply tab_length|exact Hl|]. intros y Hy.
    rewrite bmem_binter. apply Nat.ltb_lt in Hy. rewrite Hy.
    destruct (bmem A y) eqn:E; [rewrite (Hs y E)|rewrite andb_false_r]; reflexivity.
  Qed.
  Lemma binter_bdiff_all c A B : sub A (allset c) ->
    binter n A (bdiff n (allset c) B) = bdiff n A B.
  Proof.
    intros Hs. apply (bset_ext n); try apply tab_length. intros y Hy.
    rewrite bmem_binter, !bmem_bdiff. apply Nat.ltb_lt in Hy. rewrite Hy.
    destruct (bmem A y) eqn:E; [rewrite (Hs y E)|]; reflexivity.
  Qed.
  Lemma binter_bdiff_all_l c A B : sub A (allset c) ->
    binter n (bdiff n (allset c) B) A = bdiff n A B.
  Proof.
    intros Hs. apply (bset_ext n); try apply tab_length. intros y Hy.
    rewrite bmem_binter, !bmem_bdiff. apply Nat.ltb_lt in Hy. rewrite Hy.
    destruct (bmem A y) eqn:E; [rewrite (Hs y E)|]; simpl; try reflexivity.
    - rewrite andb_true_r. reflexivity.
    - now rewrite andb_false_r.
  Qed.

  Lemma den_sub c e : okctx c -> wfs (x_refs c) e -> sub (den W c e) (allset c).
  Proof. intros Hc Hw x. now apply sub_all. Qed.

  Lemma anc_gen_sub_all c p g A : sub A (allset c) -> sub (anc_gen G p g A) (allset c).
  Proof.
    intros Hs x H. apply anc_gen_sub_full in H; auto. revert x H. apply allset_closed.
    intros y _. apply Hs.
  Qed.

  Lemma den_None c : den W c ENone = bempty n.
  Proof.
    apply (bset_ext n); try apply tab_length. intros y Hy.
    unfold den, resolve. cbn [res fst snd]. change (bden W (BCommits [])) with (bof_list n []).
    rewrite bmem_bof_list, bmem_bempty. simpl. now rewrite andb_false_r.
  Qed.

  (* ---------------------------------------------------------------- unfold_difference *)

  Lemma unfold_difference_sound : sound_post unfold_difference_post.
  Proof.
    intros c e e' Hc Hw H. destruct e; try discriminate; cbn in H; inversion H; subst; clear H;
      cbn [wfs] in Hw; destruct Hw as [Hw1 Hw2].
    - split; [cbn [wfs]; tauto|].
      rewrite den_Intersection by (cbn [wfs]; assumption).
      change (den W c (ENotIn (EAncestors e1 GEN_FULL PR_FULL)))
        with (bdiff n (allset c) (anc_full G (den W c e1))).
      change (den W c (EAncestors e2 g p)) with (anc_gen G p g (den W c e2)).
      change (den W c (ERange e1 e2 g p))
        with (bdiff n (anc_gen G p g (den W c e2)) (anc_full G (den W c e1))).
      apply binter_bdiff_all. apply anc_gen_sub_all. now apply den_sub.
    - split; [cbn [wfs]; tauto|].
      rewrite den_Intersection by assumption.
      change (den W c (ENotIn e2)) with (bdiff n (allset c) (den W c e2)).
      change (den W c (EDifference e1 e2)) with (bdiff n (den W c e1) (den W c e2)).
      apply binter_bdiff_all. now apply den_sub.
  Qed.

  (* ---------------------------------------------------------------- fold_redundant_expression *)

  Lemma fr_union a b :
    fold_redundant_post (EUnion a b) =
    if is_none b then Some a else if is_none a then Some b
    else if is_all a then Some EAll else if is_all b then Some EAll else None.
  Proof. destruct b; destruct a; reflexivity. Qed.
  Lemma fr_inter a b :
    fold_redundant_post (EIntersection a b) =
    if is_none a then Some ENone else if is_none b then Some ENone
    else if is_all b then Some a else if is_all a then Some b else None.
  Proof. destruct a; destruct b; reflexivity. Qed.

  Lemma bunion_empty_r A : length A = n -> bunion n A (bempty n) = A.
  Proof.
    intros Hl. apply (bset_ext n); [apply tab_length|exact Hl|]. intros y Hy.
    rewrite bmem_bunion, bmem_bempty, orb_false_r. apply Nat.ltb_lt in Hy. now rewrite Hy.
  Qed.
  Lemma bunion_empty_l A : length A = n -> bunion n (bempty n) A = A.
  Proof.
    intros Hl. apply (bset_ext n); [apply tab_length|exact Hl|]. intros y Hy.
    rewrite bmem_bunion, bmem_bempty. apply Nat.ltb_lt in Hy. now rewrite Hy.
  Qed.
  Lemma bunion_all_l c A : sub A (allset c) -> bunion n (allset c) A = allset c.
  Proof.
    intros Hs. apply (bset_ext n); [apply tab_length|apply allset_length|]. intros y Hy.
    rewrite bmem_bunion. apply Nat.ltb_lt in Hy. rewrite Hy.
    destruct (bmem A y) eqn:E; [rewrite (Hs y E)|rewrite orb_false_r]; reflexivity.
  Qed.
  Lemma bunion_all_r c A : sub A (allset c) -> bunion n A (allset c) = allset c.
  Proof.
    intros Hs. apply (bset_ext n); [apply tab_length|apply allset_length|]. intros y Hy.
    rewrite bmem_bunion. apply Nat.ltb_lt in Hy. rewrite Hy.
    destruct (bmem A y) eqn:E; [rewrite (Hs y E)|]; reflexivity.
  Qed.
  Lemma binter_empty_l A : binter n (bempty n) A = bempty n.
  Proof.
    apply (bset_ext n); try apply tab_length. intros y Hy.
    rewrite bmem_binter, bmem_bempty. now rewrite andb_false_r.
  Qed.
  Lemma binter_empty_r A : binter n A (bempty n) = bempty n.
  Proof.
    apply (bset_ext n); try apply tab_length. intros y Hy.
    rewrite bmem_binter, bmem_bempty. now rewrite !andb_false_r.
  Qed.
  Lemma bdiff_all_involutive c A : length A = n -> sub A (allset c) ->
    bdiff n (allset c) (bdiff n (allset c) A) = A.
  Proof.
    intros Hl Hs. apply (bset_ext n); [apply tab_length|exact Hl|]. intros y Hy.
    rewrite !bmem_bdiff. apply Nat.ltb_lt in Hy. rewrite Hy.
    destruct (bmem A y) eqn:E; [rewrite (Hs y E)|]; simpl; try reflexivity.
    destruct (bmem (allset c) y); reflexivity.
  Qed.
  Lemma bdiff_all_empty c : bdiff n (allset c) (bempty n) = allset c.
  Proof.
    apply (bset_ext n); [apply tab_length|apply allset_length|]. intros y Hy.
    rewrite bmem_bdiff, bmem_bempty. apply Nat.ltb_lt in Hy. rewrite Hy. simpl.
    now rewrite andb_true_r.
  Qed.
  Lemma bdiff_all_all c : bdiff n (allset c) (allset c) = bempty n.
  Proof.
    apply (bset_ext n); try apply tab_length. intros y Hy.
    rewrite bmem_bdiff, bmem_bempty. destruct (bmem (allset c) y); simpl; now rewrite ?andb_false_r.
  Qed.

  Lemma is_none_eq e : is_none e = true -> e = ENone.
  Proof. destruct e; simpl; congruence. Qed.
  Lemma is_all_eq e : is_all e = true -> e = EAll.
  Proof. destruct e; simpl; congruence. Qed.

  Lemma fold_redundant_sound : sound_post fold_redundant_post.
  Proof.
    intros c e e' Hc Hw H. destruct e; try discriminate.
    - (* Commits [] *) destruct l; try discriminate. inversion H; subst. split; [exact I|reflexivity].
    - (* NotIn *) cbn [wfs] in Hw.
      destruct e; try discriminate; cbn in H; inversion H; subst; clear H.
      + (* ~none() *) split; [exact I|].
        change (den W c (ENotIn ENone)) with (bdiff n (allset c) (den W c ENone)).
        rewrite den_None. symmetry. apply bdiff_all_empty.
      + (* ~all() *) split; [exact I|].
        change (den W c (ENotIn EAll)) with (bdiff n (allset c) (allset c)).
        rewrite den_None. symmetry. apply bdiff_all_all.
      + (* ~~x *) split; [exact Hw|].
        change (den W c (ENotIn (ENotIn e'))) with (bdiff n (allset c) (bdiff n (allset c) (den W c e'))).
        symmetry. apply bdiff_all_involutive; [apply den_length|now apply den_sub].
    - (* Union *) rewrite fr_union in H. cbn [wfs] in Hw. destruct Hw as [Hw1 Hw2].
      change (den W c (EUnion e1 e2)) with (bunion n (den W c e1) (den W c e2)).
      destruct (is_none e2) eqn:E2.
      { inversion H; subst. apply is_none_eq in E2. subst. split; auto.
        rewrite den_None. symmetry. apply bunion_empty_r, den_length. }
      destruct (is_none e1) eqn:E1.
      { inversion H; subst. apply is_none_eq in E1. subst. split; auto.
        rewrite den_None. symmetry. apply bunion_empty_l, den_length. }
      destruct (is_all e1) eqn:A1.
      { inversion H; subst. apply is_all_eq in A1. subst. split; [exact I|].
        symmetry. apply bunion_all_l. now apply den_sub. }
      destruct (is_all e2) eqn:A2; [|discriminate].
      inversion H; subst. apply is_all_eq in A2. subst. split; [exact I|].
      symmetry. apply bunion_all_r. now apply den_sub.
    - (* Intersection *) rewrite fr_inter in H. cbn [wfs] in Hw. destruct Hw as [Hw1 Hw2].
      rewrite den_Intersection by assumption.
      destruct (is_none e1) eqn:E1.
      { inversion H; subst. apply is_none_eq in E1. subst. split; [exact I|].
        rewrite den_None. symmetry. apply binter_empty_l. }
      destruct (is_none e2) eqn:E2.
      { inversion H; subst. apply is_none_eq in E2. subst. split; [exact I|].
        rewrite den_None. symmetry. apply binter_empty_r. }
      destruct (is_all e2) eqn:A2.
      { inversion H; subst. apply is_all_eq in A2. subst. split; auto.
        symmetry. apply binter_all_r; [apply den_length|now apply den_sub]. }
      destruct (is_all e1) eqn:A1; [|discriminate].
      inversion H; subst. apply is_all_eq in A1. subst. split; auto.
      symmetry. apply binter_all_l; [apply den_length|now apply den_sub].
  Qed.

  (* ---------------------------------------------------------------- fold_generation *)

  Lemma nrange_eqb_eq a b : nrange_eqb a b = true -> a = b.
  Proof.
    destruct a, b. unfold nrange_eqb. cbn [fst snd]. rewrite andb_true_iff, !N.eqb_eq.
    intros [-> ->]. reflexivity.
  Qed.

  (** Below [u32::MAX] the window test is the plain range test. *)
  Lemma in_gen_plain g k : (N.of_nat k < U32MAX)%N ->
    (in_gen g k <-> (fst g <= N.of_nat k < snd g)%N).
  Proof.
    intros Hk. unfold in_gen, gen_end. destruct (gen_is_full g) eqn:E.
    - tauto.
    - unfold U32MAX in *. lia.
  Qed.

  Lemma k_small k : k < n -> (N.of_nat k < U32MAX)%N.
  Proof. unfold small in Hsm. fold G in Hsm. fold n in Hsm. lia. Qed.

  (** Sums of members of two generation windows (saturating [u64] arithmetic). *)
  Lemma add_generation_spec g1 g2 k : k < n ->
    (in_gen (add_generation g1 g2) k <->
     exists k1 k2, k = k2 + k1 /\ in_gen g1 k1 /\ in_gen g2 k2).
  Proof.
    intros Hk. assert (Hks := k_small k Hk).
    rewrite in_gen_plain by assumption. unfold add_generation, gen_empty, sat_add.
    destruct g1 as [a1 b1], g2 as [a2 b2]. cbn [fst snd].
    destruct (N.leb_spec b1 a1) as [He1|He1]; [|destruct (N.leb_spec b2 a2) as [He2|He2]]; cbn [orb fst snd].
    - split; [lia|]. intros [k1 [k2 [-> [H1 H2]]]].
      apply in_gen_plain in H1; [cbn [fst snd] in H1; lia|lia].
    - split; [lia|]. intros [k1 [k2 [-> [H1 H2]]]].
      apply in_gen_plain in H2; [cbn [fst snd] in H2; lia|lia].
    - unfold U64MAX. unfold U32MAX in Hks. split.
      + intros Hr.
        (* k1 := min (b1-1) (k - a2) *)
        set (k1 := N.to_nat (N.min (b1 - 1) (N.of_nat k - a2))).
        exists k1, (k - k1). subst k1.
        split; [lia|]. split; apply in_gen_plain; cbn [fst snd]; unfold U32MAX; lia.
      + intros [k1 [k2 [-> [H1 H2]]]].
        apply in_gen_plain in H1; [|unfold U32MAX; lia].
        apply in_gen_plain in H2; [|unfold U32MAX; lia]. cbn [fst snd] in *. lia.
  Qed.

  Lemma anc_gen_compose p g1 g2 S y :
    mem (anc_gen G p g1 (anc_gen G p g2 S)) y <->
    exists k1 k2 x, in_gen g1 k1 /\ in_gen g2 k2 /\ x < n /\ mem S x /\
                    reach (edges G p) (k2 + k1) x y.
  Proof.
    rewrite anc_gen_spec by assumption. split.
    - intros [k1 [z [H1 [Hz [Hm Hp]]]]]. apply anc_gen_spec in Hm; auto.
      destruct Hm as [k2 [x [H2 [Hx [Hmx Hpx]]]]].
      exists k1, k2, x. repeat split; auto; try apply H1; try apply H2.
      eapply rpath_app; eassumption.
    - intros [k1 [k2 [x [H1 [H2 [Hx [Hm Hp]]]]]]].
      apply rpath_split in Hp. destruct Hp as [z [Hp1 Hp2]].
      assert (Hz : z < n).
      { apply (reach_le _ (wfE_edges G p Hwf)) in Hp1. fold n. lia. }
      exists k1, z. split; [exact H1|]. split; [exact Hz|]. split; [|exact Hp2].
      apply anc_gen_spec; auto. exists k2, x. auto.
  Qed.

  Lemma anc_gen_add p g1 g2 S :
    anc_gen G p g1 (anc_gen G p g2 S) = anc_gen G p (add_generation g1 g2) S.
  Proof.
    apply (bset_eq n); try apply tab_length. intros y.
    rewrite anc_gen_compose, anc_gen_spec by assumption. split.
    - intros [k1 [k2 [x [H1 [H2 [Hx [Hm Hp]]]]]]]. exists (k2 + k1), x.
      split; [|auto].
      apply add_generation_spec; [|exists k1, k2; auto].
      apply (reach_le _ (wfE_edges G p Hwf)) in Hp. fold n. lia.
    - intros [k [x [Hg [Hx [Hm Hp]]]]].
      assert (Hk : k < n) by (apply (reach_le _ (wfE_edges G p Hwf)) in Hp; fold n; lia).
      apply add_generation_spec in Hg; auto. destruct Hg as [k1 [k2 [-> [H1 H2]]]].
      exists k1, k2, x. auto.
  Qed.

  Lemma desc_gen_add c g1 g2 R :
    binter n (allset c) (desc_gen G g1 (binter n (allset c) (desc_gen G g2 R)))
    = binter n (allset c) (desc_gen G (add_generation g1 g2) R).
  Proof.
    apply (bset_eq n); try apply tab_length. intros x.
    rewrite !bmem_binter, !andb_true_iff, !desc_gen_spec by assumption. split.
    - intros [Hx [Ha [_ [k1 [z [H1 [Hm Hp]]]]]]]. repeat split; auto; try (apply Nat.ltb_lt in Hx; exact Hx).
      rewrite bmem_binter, !andb_true_iff, desc_gen_spec in Hm by assumption.
      destruct Hm as [_ [_ [_ [k2 [r [H2 [Hmr Hpr]]]]]]].
      exists (k1 + k2), r. split; [|split; [exact Hmr|eapply rpath_app; eassumption]].
      assert (Hle1 := reach_le _ (wfE_parents G Hwf) _ _ _ Hp).
      assert (Hle2 := reach_le _ (wfE_parents G Hwf) _ _ _ Hpr).
      apply Nat.ltb_lt in Hx.
      apply add_generation_spec; [fold n in Hx; lia|]. exists k1, k2. split; [lia|auto].
    - intros [Hx [Ha [Hxn [k [r [Hg [Hm Hp]]]]]]].
      assert (Hk : k < n) by (apply (reach_le _ (wfE_parents G Hwf)) in Hp; fold n in Hxn; lia).
      apply add_generation_spec in Hg; auto. destruct Hg as [k1 [k2 [-> [H1 H2]]]].
      replace (k2 + k1) with (k1 + k2) in Hp by lia.
      apply rpath_split in Hp. destruct Hp as [z [Hp1 Hp2]].
      assert (Hz : z < n) by (apply (reach_le _ (wfE_parents G Hwf)) in Hp1; fold n in Hxn; lia).
      repeat split; auto. exists k1, z. split; [exact H1|]. split; [|exact Hp1].
      rewrite bmem_binter, !andb_true_iff, desc_gen_spec by assumption.
      split; [apply Nat.ltb_lt; exact Hz|]. split.
      + (* z is an ancestor of x, x is in all(): all() is closed under ancestors *)
        apply (allset_closed c (bsingle n x)).
        * intros w Hw. rewrite bmem_bsingle, andb_true_iff, Nat.eqb_eq. intros [_ ->]. exact Ha.
        * apply anc_full_spec; auto. exists k1, x. split; [exact Hxn|]. split; [|exact Hp1].
          rewrite bmem_bsingle, Nat.eqb_refl, andb_true_r. exact Hx.
      + split; [exact Hz|]. exists k2, r. auto.
  Qed.

  Lemma fold_generation_sound : sound_post fold_generation_post.
  Proof.
    intros c e e' Hc Hw H. destruct e; try discriminate.
    - (* Ancestors (Ancestors h g2 p2) g1 p1 *)
      destruct e; try discriminate. cbn in H.
      destruct (nrange_eqb p0 p) eqn:Ep; [|discriminate]. inversion H; subst; clear H.
      apply nrange_eqb_eq in Ep. subst p0. split; [exact Hw|].
      change (den W c (EAncestors (EAncestors e g0 p) g p))
        with (anc_gen G p g (anc_gen G p g0 (den W c e))).
      change (den W c (EAncestors e (add_generation g g0) p))
        with (anc_gen G p (add_generation g g0) (den W c e)).
      symmetry. apply anc_gen_add.
    - (* Descendants (Descendants r g2) g1 *)
      destruct e; try discriminate. cbn in H. inversion H; subst; clear H.
      split; [exact Hw|].
      change (den W c (EDescendants (EDescendants e g0) g))
        with (binter n (allset c) (desc_gen G g (binter n (allset c) (desc_gen G g0 (den W c e))))).
      change (den W c (EDescendants e (add_generation g g0)))
        with (binter n (allset c) (desc_gen G (add_generation g g0) (den W c e))).
      symmetry. apply desc_gen_add.
  Qed.

  (* ---------------------------------------------------------------- flatten / sort *)

  Ltac bool_sets :=
    apply (bset_ext n); [apply tab_length | apply tab_length |];
    let y := fresh "y" in let Hy := fresh "Hy" in
    intros y Hy;
    repeat (rewrite bmem_binter || rewrite bmem_bunion || rewrite bmem_bdiff);
    destruct (y <? n);
    repeat match goal with |- context [bmem ?A y] => destruct (bmem A y) end; reflexivity.

  Lemma binter_assoc A B C : binter n (binter n A B) C = binter n A (binter n B C).
  Proof. bool_sets. Qed.
  Lemma binter_comm A B : binter n A B = binter n B A.
  Proof. bool_sets. Qed.
  Lemma binter_swap A B C : binter n (binter n A B) C = binter n (binter n A C) B.
  Proof. bool_sets. Qed.

  Lemma flatten_spec c : okctx c -> forall e2 e1 e',
    wfs (x_refs c) e1 -> wfs (x_refs c) e2 -> flatten e1 e2 = Some e' ->
    wfs (x_refs c) e' /\ den W c e' = binter n (den W c e1) (den W c e2).
  Proof.
    intros Hc. induction e2; intros e1 e' Hw1 Hw2 H; try discriminate.
    cbn [flatten] in H. inversion H; subst; clear H. cbn [wfs] in Hw2. destruct Hw2 as [Hwa Hwb].
    assert (HX : wfs (x_refs c) (opt_or (flatten e1 e2_1) (EIntersection e1 e2_1)) /\
                 den W c (opt_or (flatten e1 e2_1) (EIntersection e1 e2_1))
                 = binter n (den W c e1) (den W c e2_1)).
    { destruct (flatten e1 e2_1) as [x|] eqn:E; cbn [opt_or].
      - apply IHe2_1; auto.
      - split; [cbn [wfs]; tauto|]. apply den_Intersection; auto. }
    destruct HX as [HXw HXd]. split; [cbn [wfs]; tauto|].
    rewrite den_Intersection by assumption. rewrite HXd.
    rewrite (den_Intersection c e2_1 e2_2) by assumption. apply binter_assoc.
  Qed.

  Lemma flatten_intersections_sound : sound_post flatten_intersections_post.
  Proof.
    intros c e e' Hc Hw H. destruct e; try discriminate. cbn in H. cbn [wfs] in Hw.
    destruct Hw as [Hw1 Hw2]. destruct (flatten_spec c Hc e2 e1 e' Hw1 Hw2 H) as [Hw' Hd].
    split; auto. rewrite Hd. symmetry. now apply den_Intersection.
  Qed.

  Lemma sort_helper_spec c : okctx c -> forall base expression kk e',
    wfs (x_refs c) base -> wfs (x_refs c) expression ->
    sort_helper base expression kk = Some e' ->
    wfs (x_refs c) e' /\ den W c e' = binter n (den W c base) (den W c expression).
  Proof.
    intros Hc. induction base; intros expression kk e' Hwb Hwe H; cbn [sort_helper] in H;
      try (destruct (kk <? _)%N; [|discriminate]; inversion H; subst; clear H;
           split; [cbn [wfs]; auto|]; rewrite den_Intersection by assumption; apply binter_comm).
    (* base = i1 & i2 *)
    destruct (kk <? sort_key base2)%N; [|discriminate]. inversion H; subst; clear H.
    cbn [wfs] in Hwb. destruct Hwb as [Hw1 Hw2].
    assert (HX : wfs (x_refs c) (opt_or (sort_helper base1 expression kk) (EIntersection base1 expression)) /\
                 den W c (opt_or (sort_helper base1 expression kk) (EIntersection base1 expression))
                 = binter n (den W c base1) (den W c expression)).
    { destruct (sort_helper base1 expression kk) as [x|] eqn:E; cbn [opt_or].
      - eapply IHbase1; eassumption.
      - split; [cbn [wfs]; tauto|]. apply den_Intersection; auto. }
    destruct HX as [HXw HXd]. split; [cbn [wfs]; tauto|].
    rewrite den_Intersection by assumption. rewrite HXd.
    rewrite (den_Intersection c base1 base2) by assumption. apply binter_swap.
  Qed.

  Lemma sort_negations_sound : sound_post sort_negations_post.
  Proof.
    intros c e e' Hc Hw H. destruct e; try discriminate. cbn in H. cbn [wfs] in Hw.
    destruct Hw as [Hw1 Hw2].
    destruct (sort_helper_spec c Hc e1 e2 _ e' Hw1 Hw2 H) as [Hw' Hd].
    split; auto. rewrite Hd. symmetry. now apply den_Intersection.
  Qed.

  (* ---------------------------------------------------------------- ancestors_to_heads *)

  Lemma anc_gen_window_ext p g g' S :
    (forall k, k < n -> (in_gen g k <-> in_gen g' k)) -> anc_gen G p g S = anc_gen G p g' S.
  Proof.
    intros H. apply (bset_eq n); try apply tab_length. intros y.
    rewrite !anc_gen_spec by assumption.
    split; intros [k [x [Hg [Hx [Hm Hp]]]]]; exists k, x; (split; [|auto]);
      apply H; auto; apply (reach_le _ (wfE_edges G p Hwf)) in Hp; fold n; lia.
  Qed.

  Lemma sat_add_unfold a b : sat_add a b = N.min (a + b) 18446744073709551615%N.
  Proof. reflexivity. Qed.

  Lemma gen_is_full_eq g : gen_is_full g = true -> g = GEN_FULL.
  Proof. apply nrange_eqb_eq. Qed.

  Lemma a2hp_spec c e h p : a2hp e = Some (h, p) -> wfs (x_refs c) e ->
    wfs (x_refs c) h /\ den W c e = anc_gen G p GEN_FULL (den W c h).
  Proof.
    intros H Hw. destruct e; try discriminate. cbn [a2hp] in H. cbn [wfs] in Hw.
    destruct (gen_is_full g) eqn:Ef.
    - inversion H; subst. apply gen_is_full_eq in Ef. subst g. split; [exact Hw|reflexivity].
    - destruct (snd g =? U64MAX)%N eqn:Eu; [|discriminate]. inversion H; subst; clear H.
      apply N.eqb_eq in Eu. split; [exact Hw|].
      change (den W c (EAncestors e g p)) with (anc_gen G p g (den W c e)).
      change (den W c (EAncestors e (fst g, sat_add (fst g) 1) p))
        with (anc_gen G p (fst g, sat_add (fst g) 1) (den W c e)).
      rewrite anc_gen_add. apply anc_gen_window_ext. intros k Hk.
      rewrite add_generation_spec by assumption.
      assert (Hks := k_small k Hk). destruct g as [a b]. cbn [fst snd] in *. subst b.
      rewrite in_gen_plain by assumption. cbn [fst snd]. split.
      + intros Ha. exists (k - N.to_nat a), (N.to_nat a).
        split; [unfold U32MAX, U64MAX in *; lia|].
        split; (apply in_gen_plain; [unfold U32MAX, U64MAX in *; lia|]).
        * unfold GEN_FULL. cbn [fst snd]. unfold U32MAX, U64MAX in *. lia.
        * cbn [fst snd]. rewrite sat_add_unfold. unfold U32MAX, U64MAX in *. lia.
      + intros [k1 [k2 [-> [H1 H2]]]].
        apply in_gen_plain in H2; [|unfold U32MAX in *; lia].
        cbn [fst snd] in H2. rewrite sat_add_unfold in H2. unfold U64MAX, U32MAX in *. lia.
  Qed.

  Lemma a2h_spec c e h : a2h e = Some h -> wfs (x_refs c) e ->
    wfs (x_refs c) h /\ den W c e = anc_full G (den W c h).
  Proof.
    unfold a2h. intros H Hw. destruct (a2hp e) as [[h' p]|] eqn:E; [|discriminate].
    destruct (nrange_eqb p PR_FULL) eqn:Ep; [|discriminate]. inversion H; subst.
    apply nrange_eqb_eq in Ep. subst p. exact (a2hp_spec c e h PR_FULL E Hw).
  Qed.

  Lemma anc_full_union A B :
    anc_full G (bunion n A B) = bunion n (anc_full G A) (anc_full G B).
  Proof.
    apply (bset_eq n); try apply tab_length. intros y.
    rewrite bmem_bunion, andb_true_iff, orb_true_iff, !anc_full_spec by assumption. split.
    - intros [k [x [Hx [Hm Hp]]]]. rewrite bmem_bunion, andb_true_iff, orb_true_iff in Hm.
      split.
      + apply Nat.ltb_lt. apply (reach_le _ (wfE_parents G Hwf)) in Hp. fold n in Hx. fold n. lia.
      + destruct Hm as [_ [Hm|Hm]]; [left|right]; exists k, x; auto.
    - intros [_ [[k [x [Hx [Hm Hp]]]]|[k [x [Hx [Hm Hp]]]]]]; exists k, x; (split; [exact Hx|]);
        (split; [|exact Hp]); rewrite bmem_bunion, andb_true_iff, orb_true_iff;
        (split; [apply Nat.ltb_lt; exact Hx|]); auto.
  Qed.

  (* ---------------------------------------------------------------- fold_ancestors_union *)

  Lemma union_ancestors_spec c a b e' : union_ancestors a b = Some e' ->
    wfs (x_refs c) a -> wfs (x_refs c) b ->
    wfs (x_refs c) e' /\ den W c e' = bunion n (den W c a) (den W c b).
  Proof.
    unfold union_ancestors. intros H Hwa Hwb.
    destruct (a2h a) as [h1|] eqn:E1; [|discriminate].
    destruct (a2h b) as [h2|] eqn:E2; [|discriminate]. inversion H; subst; clear H.
    destruct (a2h_spec c a h1 E1 Hwa) as [Hw1 Hd1].
    destruct (a2h_spec c b h2 E2 Hwb) as [Hw2 Hd2].
    split; [cbn [wfs]; tauto|].
    change (den W c (EAncestors (EUnion h1 h2) GEN_FULL PR_FULL))
      with (anc_full G (bunion n (den W c h1) (den W c h2))).
    rewrite anc_full_union. now rewrite Hd1, Hd2.
  Qed.

  Lemma fold_ancestors_union_sound : sound_post fold_ancestors_union_post.
  Proof.
    intros c e e' Hc Hw H. destruct e; try discriminate.
    - (* Union *) cbn in H. cbn [wfs] in Hw. destruct Hw as [Hw1 Hw2].
      exact (union_ancestors_spec c e1 e2 e' H Hw1 Hw2).
    - (* ~::x & ~::y *)
      destruct e1; try discriminate. destruct e2; try discriminate. cbn in H.
      cbn [wfs] in Hw. destruct Hw as [Hw1 Hw2].
      destruct (union_ancestors e1 e2) as [u|] eqn:E; [|discriminate]. inversion H; subst; clear H.
      destruct (union_ancestors_spec c e1 e2 u E Hw1 Hw2) as [Hwu Hdu].
      split; [exact Hwu|].
      rewrite den_Intersection by (try exact Hc; exact Hw1).
      change (den W c (ENotIn u)) with (bdiff n (allset c) (den W c u)).
      change (den W c (ENotIn e1)) with (bdiff n (allset c) (den W c e1)).
      change (den W c (ENotIn e2)) with (bdiff n (allset c) (den W c e2)).
      rewrite Hdu. bool_sets.
  Qed.

  (* ---------------------------------------------------------------- internalize_filter *)

  Lemma gf_spec c x f : okctx c -> get_filter x = Some f -> wfs (x_refs c) x ->
    wfs (x_refs c) f /\ den W c x = binter n (allset c) (den W c f).
  Proof.
    intros Hc H Hw. destruct x; try discriminate; cbn in H; inversion H; subst; clear H.
    - split; [exact I|]. rewrite den_Filter_raw. bool_sets.
    - split; [exact Hw|]. now apply den_AsFilter.
  Qed.

  Lemma den_Present c x : den W c (EPresent x) = den W c x.
  Proof. reflexivity. Qed.
  Lemma den_NotIn c x : den W c (ENotIn x) = bdiff n (allset c) (den W c x).
  Proof. reflexivity. Qed.
  Lemma den_Union c a b : den W c (EUnion a b) = bunion n (den W c a) (den W c b).
  Proof. reflexivity. Qed.
  Lemma den_Difference c a b : den W c (EDifference a b) = bdiff n (den W c a) (den W c b).
  Proof. reflexivity. Qed.

  Lemma union_filter_l c F E : sub E (allset c) ->
    bunion n (binter n (allset c) F) E = binter n (allset c) (bunion n F E).
  Proof.
    intros Hs. apply (bset_ext n); try apply tab_length. intros y Hy.
    rewrite bmem_bunion, !bmem_binter, bmem_bunion. destruct (y <? n); [|reflexivity].
    destruct (bmem E y) eqn:EE; [rewrite (Hs y EE)|];
      destruct (bmem (allset c) y), (bmem F y); reflexivity.
  Qed.
  Lemma union_filter_r c F E : sub E (allset c) ->
    bunion n E (binter n (allset c) F) = binter n (allset c) (bunion n E F).
  Proof.
    intros Hs. apply (bset_ext n); try apply tab_length. intros y Hy.
    rewrite bmem_bunion, !bmem_binter, bmem_bunion. destruct (y <? n); [|reflexivity].
    destruct (bmem E y) eqn:EE; [rewrite (Hs y EE)|];
      destruct (bmem (allset c) y), (bmem F y); reflexivity.
  Qed.

  Lemma internalize_filter_sound : sound_post internalize_filter_post.
  Proof.
    intros c e e' Hc Hw H. destruct e; try discriminate; cbn [internalize_filter_post] in H;
      cbn [wfs] in Hw.
    - (* Present *)
      destruct (get_filter e) as [f|] eqn:E; [|discriminate]. inversion H; subst; clear H.
      destruct (gf_spec c e f Hc E Hw) as [Hwf' Hd]. split; [exact Hwf'|].
      rewrite den_AsFilter by assumption. rewrite !den_Present. exact (eq_sym Hd).
    - (* NotIn *)
      destruct (get_filter e) as [f|] eqn:E; [|discriminate]. inversion H; subst; clear H.
      destruct (gf_spec c e f Hc E Hw) as [Hwf' Hd]. split; [exact Hwf'|].
      rewrite den_AsFilter by assumption. rewrite !den_NotIn, Hd. bool_sets.
    - (* Union *)
      destruct Hw as [Hw1 Hw2]. rewrite den_Union.
      destruct (get_filter e1) as [f1|] eqn:E1; destruct (get_filter e2) as [f2|] eqn:E2;
        try discriminate; inversion H; subst; clear H; cbn [opt_or].
      + destruct (gf_spec c e1 f1 Hc E1 Hw1) as [Hf1 Hd1].
        destruct (gf_spec c e2 f2 Hc E2 Hw2) as [Hf2 Hd2].
        split; [cbn [wfs]; tauto|]. rewrite den_AsFilter by (try exact Hc; cbn [wfs]; tauto).
        rewrite den_Union, Hd1, Hd2. bool_sets.
      + destruct (gf_spec c e1 f1 Hc E1 Hw1) as [Hf1 Hd1].
        split; [cbn [wfs]; tauto|]. rewrite den_AsFilter by (try exact Hc; cbn [wfs]; tauto).
        rewrite den_Union, Hd1. symmetry. apply union_filter_l. now apply den_sub.
      + destruct (gf_spec c e2 f2 Hc E2 Hw2) as [Hf2 Hd2].
        split; [cbn [wfs]; tauto|]. rewrite den_AsFilter by (try exact Hc; cbn [wfs]; tauto).
        rewrite den_Union, Hd2. symmetry. apply union_filter_r. now apply den_sub.
    - (* Intersection *)
      destruct Hw as [Hw1 Hw2]. rewrite (den_Intersection c e1 e2) by assumption.
      destruct (get_filter e1) as [f1|] eqn:E1; destruct (get_filter e2) as [f2|] eqn:E2.
      + inversion H; subst; clear H.
        destruct (gf_spec c e1 f1 Hc E1 Hw1) as [Hf1 Hd1].
        destruct (gf_spec c e2 f2 Hc E2 Hw2) as [Hf2 Hd2].
        split; [cbn [wfs]; tauto|]. rewrite den_AsFilter by (try exact Hc; cbn [wfs]; tauto).
        rewrite den_Intersection by assumption. rewrite Hd1, Hd2. bool_sets.
      + inversion H; subst; clear H. split; [cbn [wfs]; tauto|].
        rewrite den_Intersection by assumption. apply binter_comm.
      + destruct e1; try discriminate. cbn [wfs] in Hw1. destruct Hw1 as [Hwa Hwb].
        destruct (get_filter e1_2) as [f1b|] eqn:E1b; [|discriminate].
        cbn [option_map] in H. inversion H; subst; clear H.
        destruct (gf_spec c e1_2 f1b Hc E1b Hwb) as [Hfb Hdb].
        destruct (gf_spec c e2 f2 Hc E2 Hw2) as [Hf2 Hd2].
        split; [cbn [wfs]; tauto|].
        rewrite den_Intersection by assumption.
        rewrite den_AsFilter by (try exact Hc; cbn [wfs]; tauto).
        rewrite (den_Intersection c f1b f2) by assumption.
        rewrite (den_Intersection c e1_1 e1_2) by assumption.
        rewrite Hdb, Hd2. bool_sets.
      + destruct e1; try discriminate. cbn [wfs] in Hw1. destruct Hw1 as [Hwa Hwb].
        destruct (get_filter e1_2) as [f1b|] eqn:E1b; [|discriminate].
        cbn [option_map] in H. inversion H; subst; clear H.
        split; [cbn [wfs]; tauto|].
        rewrite den_Intersection by (try exact Hc; cbn [wfs]; tauto).
        rewrite (den_Intersection c e1_1 e2) by assumption.
        rewrite (den_Intersection c e1_1 e1_2) by assumption.
        apply binter_swap.
  Qed.

  (* ---------------------------------------------------------------- fold_difference *)

  Lemma to_difference_range_spec c e x r : to_difference_range e x = Some r ->
    wfs (x_refs c) e -> wfs (x_refs c) x ->
    wfs (x_refs c) r /\ den W c r = bdiff n (den W c e) (den W c x).
  Proof.
    intros H Hwe Hwx. destruct e; try discriminate. cbn [to_difference_range] in H.
    destruct (a2h x) as [roots|] eqn:E; [|discriminate]. inversion H; subst; clear H.
    destruct (a2h_spec c x roots E Hwx) as [Hwr Hd]. cbn [wfs] in Hwe.
    split; [cbn [wfs]; tauto|]. rewrite Hd. reflexivity.
  Qed.

  Lemma to_difference_spec c e x : wfs (x_refs c) e -> wfs (x_refs c) x ->
    wfs (x_refs c) (to_difference e x) /\
    den W c (to_difference e x) = bdiff n (den W c e) (den W c x).
  Proof.
    intros Hwe Hwx. unfold to_difference.
    destruct (to_difference_range e x) as [r|] eqn:E; cbn [opt_or].
    - exact (to_difference_range_spec c e x r E Hwe Hwx).
    - split; [cbn [wfs]; tauto|reflexivity].
  Qed.

  Lemma fold_difference_char e1 e2 e' :
    fold_difference_post (EIntersection e1 e2) = Some e' ->
    (exists x, e2 = ENotIn x /\ e' = to_difference e1 x) \/
    (exists x, e1 = ENotIn x /\ e' = to_difference e2 x).
  Proof.
    cbn [fold_difference_post]. destruct e2; try discriminate;
      try (intros H; inversion H; left; eexists; split; reflexivity);
      destruct e1; try discriminate; intros H; inversion H; right; eexists; split; reflexivity.
  Qed.

  Lemma fold_difference_sound : sound_post fold_difference_post.
  Proof.
    intros c e e' Hc Hw H. destruct e; try discriminate. cbn [wfs] in Hw. destruct Hw as [Hw1 Hw2].
    rewrite (den_Intersection c e1 e2) by assumption.
    destruct (fold_difference_char e1 e2 e' H) as [[x [-> ->]]|[x [-> ->]]].
    - cbn [wfs] in Hw2. destruct (to_difference_spec c e1 x Hw1 Hw2) as [Hw' Hd].
      split; [exact Hw'|]. rewrite Hd, den_NotIn. symmetry. apply binter_bdiff_all. now apply den_sub.
    - cbn [wfs] in Hw1. destruct (to_difference_spec c e2 x Hw2 Hw1) as [Hw' Hd].
      split; [exact Hw'|]. rewrite Hd, den_NotIn. symmetry. apply binter_bdiff_all_l. now apply den_sub.
  Qed.

  (* ---------------------------------------------------------------- fold_not_in_ancestors *)

  Lemma fold_not_in_ancestors_sound : sound_post fold_not_in_ancestors_post.
  Proof.
    intros c e e' Hc Hw H. destruct e; try discriminate. cbn [fold_not_in_ancestors_post] in H.
    cbn [wfs] in Hw. destruct e; try discriminate.
    destruct (to_difference_range_spec c (EAncestors EVisibleHeadsOrReferenced GEN_FULL PR_FULL)
                (EAncestors e g p) e' H I Hw) as [Hw' Hd].
    split; [exact Hw'|]. rewrite Hd, den_NotIn. reflexivity.
  Qed.

  (* ---------------------------------------------------------------- fold_heads_range *)

  Lemma anc_full_empty : anc_full G (bempty n) = bempty n.
  Proof.
    apply (bset_eq n); try apply tab_length. intros y. rewrite anc_full_spec by assumption.
    rewrite bmem_bempty. split; [|discriminate].
    intros [k [x [_ [Hm _]]]]. rewrite bmem_bempty in Hm. discriminate.
  Qed.

  Lemma bdiff_empty_r A : length A = n -> bdiff n A (bempty n) = A.
  Proof.
    intros Hl. apply (bset_ext n); [apply tab_length|exact Hl|]. intros y Hy.
    rewrite bmem_bdiff, bmem_bempty. apply Nat.ltb_lt in Hy. rewrite Hy. simpl. now rewrite andb_true_r.
  Qed.

  Lemma range_set_none c h p : range_set c ENone h p = anc_gen G p GEN_FULL (den W c h).
  Proof.
    unfold range_set. rewrite den_None, anc_full_empty. apply bdiff_empty_r, tab_length.
  Qed.

  Lemma range_set_vr c r :
    range_set c r EVisibleHeadsOrReferenced PR_FULL = bdiff n (allset c) (anc_full G (den W c r)).
  Proof. reflexivity. Qed.

  (** Every member of a set lies below one of the set's heads. *)
  Lemma below_a_head S : forall m x, n - x <= m -> x < n -> mem S x ->
    exists k h, mem (heads G S) h /\ reach (parents G) k h x.
  Proof.
    induction m; intros x Hm Hx HS; [lia|].
    destruct (bmem (heads G S) x) eqn:E.
    - exists 0, x. split; auto. constructor.
    - unfold heads in E. rewrite bmem_bdiff in E. fold n in E.
      apply Nat.ltb_lt in Hx. rewrite Hx, HS in E. simpl in E. apply negb_false_iff in E.
      apply anc_gen_spec in E; auto. destruct E as [k [y [Hg [Hy [HSy Hp]]]]].
      assert (Hle := reach_le _ (wfE_edges G PR_FULL Hwf) _ _ _ Hp).
      apply (in_gen_proper G) in Hg; auto; [|fold n; lia].
      apply Nat.ltb_lt in Hx.
      destruct (IHm y ltac:(fold n in Hy; lia) Hy HSy) as [k' [h [Hh Hph]]].
      exists (k' + k), h. split; auto. eapply rpath_app; [exact Hph|].
      now apply reach_full_parents.
  Qed.

  Lemma anc_full_heads S : anc_full G (heads G S) = anc_full G S.
  Proof.
    apply (bset_eq n); try apply tab_length. intros y. rewrite !anc_full_spec by assumption. split.
    - intros [k [x [Hx [Hm Hp]]]]. apply heads_sub in Hm. exists k, x. auto.
    - intros [k [x [Hx [Hm Hp]]]].
      destruct (below_a_head S n x ltac:(lia) Hx Hm) as [k' [h [Hh Hph]]].
      exists (k' + k), h. split.
      + apply bmem_lt in Hh. now rewrite heads_length in Hh.
      + split; auto. eapply rpath_app; eassumption.
  Qed.

  Definition fr_H (fr : frange) : expr := fst (opt_or (fr_hp fr) (EVisibleHeadsOrReferenced, PR_FULL)).
  Definition fr_P (fr : frange) : nrange := snd (opt_or (fr_hp fr) (EVisibleHeadsOrReferenced, PR_FULL)).
  Definition fr_den (c : vctx) (fr : frange) : bset :=
    binter n (range_set c (fr_roots fr) (fr_H fr) (fr_P fr)) (den W c (fr_filter fr)).
  Definition fr_wfs (r : list nat) (fr : frange) : Prop :=
    wfs r (fr_roots fr) /\ wfs r (fr_H fr) /\ wfs r (fr_filter fr).

  Lemma fr_add_filter_spec c fr e : okctx c -> fr_wfs (x_refs c) fr -> wfs (x_refs c) e ->
    fr_wfs (x_refs c) (fr_add_filter fr e) /\
    fr_den c (fr_add_filter fr e) = binter n (fr_den c fr) (den W c e).
  Proof.
    intros Hc [Hwr [Hwh Hwf']] Hwe. unfold fr_add_filter, fr_den, fr_wfs, fr_H, fr_P. cbn [fr_roots fr_hp fr_filter].
    fold (fr_H fr). fold (fr_P fr).
    assert (Hd : {fr_filter fr = EAll} + {fr_filter fr <> EAll})
      by (destruct (fr_filter fr); try (right; discriminate); left; reflexivity).
    destruct Hd as [Ea|Hne].
    - rewrite Ea. split; [tauto|].
      apply (bset_ext n); try apply tab_length. intros y Hy. rewrite !bmem_binter.
      destruct (bmem (range_set c (fr_roots fr) (fr_H fr) (fr_P fr)) y) eqn:ER.
      + change (den W c EAll) with (allset c).
        rewrite (range_set_sub c (fr_roots fr) (fr_H fr) (fr_P fr) Hc Hwh y ER).
        destruct (y <? n); reflexivity.
      + now rewrite !andb_false_r.
    - assert (Hm : match fr_filter fr with EAll => e | _ => EIntersection (fr_filter fr) e end
                   = EIntersection (fr_filter fr) e)
        by (destruct (fr_filter fr); try reflexivity; congruence).
      replace (match fr_filter fr with EAll => e | ENone => _ | _ => _ end)
        with (EIntersection (fr_filter fr) e).
      + split; [cbn [wfs]; tauto|].
        rewrite den_Intersection by assumption. symmetry. apply binter_assoc.
      + symmetry. destruct (fr_filter fr); try reflexivity; congruence.
  Qed.

  Lemma fr_base_filter c e : okctx c -> wfs (x_refs c) e ->
    fr_wfs (x_refs c) (fr_add_filter (fr_new ENone) e) /\
    den W c e = fr_den c (fr_add_filter (fr_new ENone) e).
  Proof.
    intros Hc Hw. split; [repeat split; auto|].
    unfold fr_den, fr_add_filter, fr_new, fr_H, fr_P. cbn [fr_roots fr_hp fr_filter opt_or fst snd].
    rewrite range_set_vr, den_None, anc_full_empty, bdiff_empty_r by apply allset_length.
    symmetry. apply binter_all_l; [apply den_length|now apply den_sub].
  Qed.

  Lemma a2hp_not_anc e : (forall h g p, e <> EAncestors h g p) -> a2hp e = None.
  Proof. intros H. destruct e; try reflexivity. exfalso. eapply H. reflexivity. Qed.

  Lemma tfr_spec c : okctx c -> forall e fr, to_filtered_range e = Some fr -> wfs (x_refs c) e ->
    fr_wfs (x_refs c) fr /\ den W c e = fr_den c fr.
  Proof.
    intros Hc. induction e; intros fr H Hw; cbn [to_filtered_range a2hp] in H; try discriminate.
    - (* All *) inversion H; subst. now apply fr_base_filter.
    - (* Ancestors *)
      destruct (a2hp (EAncestors e g p)) as [[h p']|] eqn:E.
      + cbn [a2hp] in E. rewrite E in H. inversion H; subst; clear H.
        destruct (a2hp_spec c (EAncestors e g p) h p' E Hw) as [Hwh Hd].
        split; [repeat split; auto|].
        unfold fr_den, fr_H, fr_P. cbn [fr_roots fr_hp fr_filter opt_or fst snd].
        rewrite range_set_none, Hd. symmetry.
        apply binter_all_r; [apply tab_length|]. apply anc_gen_sub_all. now apply den_sub.
      + cbn [a2hp] in E. rewrite E in H. discriminate.
    - (* Filter *) inversion H; subst. now apply fr_base_filter.
    - (* AsFilter *) inversion H; subst. now apply fr_base_filter.
    - (* NotIn *)
      destruct (a2h e) as [roots|] eqn:E.
      + inversion H; subst; clear H. cbn [wfs] in Hw.
        destruct (a2h_spec c e roots E Hw) as [Hwr Hd].
        split; [repeat split; auto|].
        unfold fr_den, fr_new, fr_H, fr_P. cbn [fr_roots fr_hp fr_filter opt_or fst snd].
        rewrite range_set_vr, den_NotIn, Hd. symmetry.
        apply binter_all_r; [apply tab_length|].
        intros y. rewrite bmem_bdiff, !andb_true_iff. tauto.
      + inversion H; subst. now apply fr_base_filter.
    - (* Intersection *)
      cbn [wfs] in Hw. destruct Hw as [Hw1 Hw2].
      destruct (to_filtered_range e1) as [fr1|] eqn:E1; [|discriminate].
      cbn [option_map] in H. inversion H; subst; clear H.
      destruct (IHe1 fr1 eq_refl Hw1) as [[Hwr [Hwh Hwf']] Hd1].
      rewrite (den_Intersection c e1 e2) by assumption. rewrite Hd1.
      unfold fr_add. destruct (fr_hp fr1) as [hp1|] eqn:Ehp.
      + destruct (fr_add_filter_spec c fr1 e2 Hc (conj Hwr (conj Hwh Hwf')) Hw2) as [Ha Hb].
        split; [exact Ha|now symmetry].
      + destruct (a2hp e2) as [[h p']|] eqn:E2.
        * destruct (a2hp_spec c e2 h p' E2 Hw2) as [Hwh2 Hd2].
          split; [repeat split; auto|].
          unfold fr_den, fr_H, fr_P. cbn [fr_roots fr_hp fr_filter opt_or fst snd]. rewrite Ehp.
          cbn [opt_or fst snd]. rewrite range_set_vr, Hd2. unfold range_set.
          assert (Hs : sub (anc_gen G p' GEN_FULL (den W c h)) (allset c))
            by (apply anc_gen_sub_all; now apply den_sub).
          apply (bset_ext n); try apply tab_length. intros y Hy.
          rewrite !bmem_binter, !bmem_bdiff.
          destruct (bmem (anc_gen G p' GEN_FULL (den W c h)) y) eqn:EA;
            [rewrite (Hs y EA)|]; destruct (y <? n);
            destruct (bmem (anc_full G (den W c (fr_roots fr1))) y);
            destruct (bmem (den W c (fr_filter fr1)) y);
            destruct (bmem (allset c) y); reflexivity.
        * destruct (fr_add_filter_spec c fr1 e2 Hc (conj Hwr (conj Hwh Hwf')) Hw2) as [Ha Hb].
          split; [exact Ha|now symmetry].
  Qed.

  Lemma to_heads_range_spec c x e' : okctx c -> to_heads_range x = Some e' ->
    wfs (x_refs c) x -> wfs (x_refs c) e' /\ den W c e' = heads G (den W c x).
  Proof.
    intros Hc H Hw. unfold to_heads_range in H.
    destruct (to_filtered_range x) as [fr|] eqn:E; [|discriminate].
    cbn [option_map] in H. inversion H; subst; clear H.
    destruct (tfr_spec c Hc x fr E Hw) as [[Hwr [Hwh Hwf']] Hd].
    fold (fr_H fr). fold (fr_P fr).
    split; [cbn [wfs]; tauto|].
    rewrite den_HeadsRange by assumption. rewrite Hd. reflexivity.
  Qed.

  Lemma fold_heads_range_sound : sound_post fold_heads_range_post.
  Proof.
    intros c e e' Hc Hw H. destruct e; try discriminate; cbn [fold_heads_range_post] in H;
      cbn [wfs] in Hw.
    - (* ::x *)
      destruct (gen_is_full g && nrange_eqb p PR_FULL) eqn:Eg; [|discriminate].
      apply andb_true_iff in Eg. destruct Eg as [Eg Ep].
      apply gen_is_full_eq in Eg. apply nrange_eqb_eq in Ep. subst g p.
      destruct (to_heads_range e) as [h'|] eqn:E; [|discriminate].
      cbn [option_map] in H. inversion H; subst; clear H.
      destruct (to_heads_range_spec c e h' Hc E Hw) as [Hw' Hd].
      split; [exact Hw'|].
      change (den W c (EAncestors h' GEN_FULL PR_FULL)) with (anc_full G (den W c h')).
      change (den W c (EAncestors e GEN_FULL PR_FULL)) with (anc_full G (den W c e)).
      rewrite Hd. apply anc_full_heads.
    - (* heads(x) *)
      exact (to_heads_range_spec c e e' Hc H Hw).
  Qed.

  (* ---------------------------------------------------------------- all passes, composed *)

  Lemma passes_sound : Forall sound_post passes.
  Proof.
    unfold passes.
    apply Forall_cons; [exact unfold_difference_sound|].
    apply Forall_cons; [exact fold_redundant_sound|].
    apply Forall_cons; [exact fold_generation_sound|].
    apply Forall_cons; [exact flatten_intersections_sound|].
    apply Forall_cons; [exact sort_negations_sound|].
    apply Forall_cons; [exact fold_ancestors_union_sound|].
    apply Forall_cons; [exact internalize_filter_sound|].
    apply Forall_cons; [exact fold_heads_range_sound|].
    apply Forall_cons; [exact fold_difference_sound|].
    apply Forall_cons; [exact fold_not_in_ancestors_sound|].
    apply Forall_nil.
  Qed.

  Lemma run_passes_sound ps : Forall sound_post ps ->
    forall e c, okctx c -> wfs (x_refs c) e -> preserved c e (run_passes ps e).
  Proof.
    unfold run_passes. induction 1 as [|post ps Hp Hps IH]; intros e c Hc Hw; cbn [fold_left].
    - split; [exact Hw|reflexivity].
    - destruct (tr_sound post Hp e c Hc Hw) as [Hw1 Hd1].
      destruct (IH (tr post e) c Hc Hw1) as [Hw2 Hd2]. split; [exact Hw2|congruence].
  Qed.

  (** Input validity: scopes already present in the input are correctly scoped
      ([resolve_referenced_commits] trusts them), and visibility scopes are non-empty. *)
  Fixpoint pre_ok (e : expr) : Prop :=
    match e with
    | ENone | EAll | EVisibleHeads | EVisibleHeadsOrReferenced | ERoot | EForks | EFilter _
    | ECommits _ => True
    | EAncestors x _ _ | EDescendants x _ => pre_ok x
    | ERange a b _ _ | EDagRange a b | EReachable a b | ECoalesce a b | EUnion a b
    | EIntersection a b | EDifference a b => pre_ok a /\ pre_ok b
    | EHeads x | ERoots x | EForkPoint x | EMergePoint x | EBisect x | ELatest x _
    | EAsFilter x | EPresent x | ENotIn x => pre_ok x
    | EHeadsRange a b _ f => pre_ok a /\ pre_ok b /\ pre_ok f
    | EWithinReference x cs => wfs cs x
    | EWithinVisibility x vh => (exists v, In v vh /\ v < n) /\ pre_ok x
    end.

  Lemma incl_app_l {A} (a b r : list A) : incl (a ++ b) r -> incl a r.
  Proof. intros H x Hx. apply H. apply in_or_app. now left. Qed.
  Lemma incl_app_r {A} (a b r : list A) : incl (a ++ b) r -> incl b r.
  Proof. intros H x Hx. apply H. apply in_or_app. now right. Qed.
  Lemma incl_2 {A} (o1 o2 i1 i2 r : list A) :
    incl ((o1 ++ o2) ++ (i1 ++ i2)) r -> incl (o1 ++ i1) r /\ incl (o2 ++ i2) r.
  Proof.
    intros H. split; intros x Hx; apply H; apply in_app_or in Hx;
      apply in_or_app; destruct Hx; [left|right|left|right]; apply in_or_app; auto.
  Qed.
  Lemma incl_3 {A} (o1 o2 o3 i1 i2 i3 r : list A) :
    incl ((o1 ++ o2 ++ o3) ++ (i1 ++ i2 ++ i3)) r ->
    incl (o1 ++ i1) r /\ incl (o2 ++ i2) r /\ incl (o3 ++ i3) r.
  Proof.
    intros H. repeat split; intros x Hx; apply H; apply in_app_or in Hx;
      apply in_or_app; destruct Hx;
      [left|right|left|right|left|right]; repeat (apply in_or_app; auto; right); auto;
      apply in_or_app; auto.
  Qed.
End Sound.
