(** C19 — proofs: the listing checker, basic facts about the set semantics, and the
    soundness of the optimizer passes. *)
From Verif Require Import Base.Prelude Base.DagR Model.C19.
From Coq Require Import Lia Arith Sorted.
Import ListNotations.
Local Open Scope nat_scope.

Scheme bexpr_mut := Induction for bexpr Sort Prop
  with pexpr_mut := Induction for pexpr Sort Prop.
Combined Scheme bexpr_pexpr_ind from bexpr_mut, pexpr_mut.

(* ------------------------------------------------------------------ the checker *)

Lemma lnat_eqb_eq l1 l2 : lnat_eqb l1 l2 = true <-> l1 = l2.
Proof.
  unfold lnat_eqb. revert l2. induction l1 as [|a t IH]; intros [|b u]; simpl; split;
    try congruence; auto.
  - rewrite andb_true_iff, Nat.eqb_eq, IH. intros [-> ->]. reflexivity.
  - intros H. inversion H; subst. rewrite andb_true_iff, Nat.eqb_eq, IH. auto.
Qed.

Lemma sorted_desc_spec l : sorted_desc l = true <-> StronglySorted gt l.
Proof.
  induction l as [|x t IH]; simpl.
  - split; auto. constructor.
  - destruct t as [|y u].
    + split; auto. intros _. repeat constructor.
    + rewrite andb_true_iff, Nat.ltb_lt, IH. split.
      * intros [Hyx Hs]. constructor; auto. constructor; [lia|].
        inversion Hs as [|? ? _ Hall]; subst. rewrite Forall_forall in *.
        intros z Hz. specialize (Hall z Hz). lia.
      * intros Hs. inversion Hs as [|? ? Ht Hall]; subst. split; auto.
        inversion Hall; subst. lia.
Qed.

(** Meaning of [set_ok]: the listing is strictly descending, inside the index, and lists
    exactly the members of [s]. *)
Lemma set_ok_spec W s l :
  set_ok W s l = true <->
  StronglySorted gt l /\ (forall x, In x l -> x < length (w_graph W)) /\
  (forall x, x < length (w_graph W) -> (In x l <-> bmem s x = true)).
Proof.
  unfold set_ok. rewrite !andb_true_iff, sorted_desc_spec, !forallb_forall. split.
  - intros [[Hs Hr] Hm]. repeat split; auto.
    + intros x Hx. apply Nat.ltb_lt. auto.
    + intros Hin. specialize (Hm x (proj2 (in_seq _ _ _) (conj (Nat.le_0_l _) H))).
      apply eqb_prop in Hm. rewrite <- Hm. now apply memn_In.
    + intros Hb. specialize (Hm x (proj2 (in_seq _ _ _) (conj (Nat.le_0_l _) H))).
      apply eqb_prop in Hm. apply memn_In. congruence.
  - intros [Hs [Hr Hm]]. repeat split; auto.
    + intros x Hx. apply Nat.ltb_lt. auto.
    + intros x Hx. apply in_seq in Hx. apply eqb_true_iff. apply bool_eq_iff.
      rewrite memn_In. apply Hm. lia.
Qed.

(** A listing accepted by [set_ok] is *the* descending listing of the set. *)
Lemma set_ok_blist W s l :
  set_ok W s l = true -> l = blist (length (w_graph W)) s.
Proof.
  rewrite set_ok_spec. intros [Hs [Hr Hm]].
  apply sorted_gt_unique; auto using blist_sorted.
  intros x. rewrite blist_In. split.
  - intros Hin. split; auto. apply Hm; auto.
  - intros [Hx Hb]. apply Hm; auto.
Qed.

(* ------------------------------------------------------------------ lengths *)

Lemma iter_inv {A} (P : A -> Prop) (f : A -> A) k s :
  (forall a, P a -> P (f a)) -> P s -> P (Nat.iter k f s).
Proof. intros Hf Hs. induction k; simpl; auto. Qed.

Lemma bden_pbden_length W :
  (forall b, length (bden W b) = length (w_graph W)) /\
  (forall p, length (pbden W p) = length (w_graph W)).
Proof.
  apply bexpr_pexpr_ind; intros; cbn [bden pbden]; try apply tab_length; auto.
  - unfold sem_reachable. apply (iter_inv (fun s => length s = length (w_graph W))).
    + intros a _. apply tab_length.
    + apply tab_length.
  - unfold sem_fork_point. destruct (bis_empty _); apply tab_length.
  - unfold sem_merge_point. destruct (bis_empty _); apply tab_length.
  - unfold sem_bisect. destruct (blist _ _); apply tab_length.
  - destruct (bis_empty _); auto.
Qed.
Lemma bden_length W b : length (bden W b) = length (w_graph W).
Proof. apply bden_pbden_length. Qed.
Lemma pbden_length W p : length (pbden W p) = length (w_graph W).
Proof. apply bden_pbden_length. Qed.
Lemma den_length W c e : length (den W c e) = length (w_graph W).
Proof. apply bden_length. Qed.
Lemma pden_length W c e : length (pden W c e) = length (w_graph W).
Proof. apply pbden_length. Qed.

(* ------------------------------------------------------------------ semantics facts *)

Section Sound.
  Variable W : world.
  Let G := w_graph W.
  Let n := length G.
  Hypothesis Hwf : wf_graph G.
  Hypothesis Hpc : pc_ok G.
  Hypothesis Hsm : small G.
  (** every commit except the root (position 0) has a parent *)
  Hypothesis Hrooted : forall x, x < n -> x <> 0 -> parents G x <> [].

  Notation mem s x := (bmem s x = true).
  Definition allset (c : vctx) : bset := bden W (b_all c).
  Definition vr (c : vctx) : bset := bof_list n (x_refs c ++ x_vis c).

  (** The context has an (in-range) visible head — views are never empty. *)
  Definition okctx (c : vctx) : Prop := exists v, In v (x_vis c) /\ v < n.

  (** Correct scoping: every [Commits] leaf is listed among the referenced commits of the
      scope it is evaluated in; nested scopes are listed in their enclosing scope. This is
      what [resolve_referenced_commits] establishes (lemma [rrc_wfs]). *)
  Fixpoint wfs (r : list nat) (e : expr) : Prop :=
    match e with
    | ENone | EAll | EVisibleHeads | EVisibleHeadsOrReferenced | ERoot | EForks | EFilter _ => True
    | ECommits l => incl l r
    | EAncestors h _ _ => wfs r h
    | EDescendants x _ => wfs r x
    | ERange a b _ _ | EDagRange a b | EReachable a b | ECoalesce a b | EUnion a b
    | EIntersection a b | EDifference a b => wfs r a /\ wfs r b
    | EHeads x | ERoots x | EForkPoint x | EMergePoint x | EBisect x | ELatest x _
    | EAsFilter x | EPresent x | ENotIn x => wfs r x
    | EHeadsRange a b _ f => wfs r a /\ wfs r b /\ wfs r f
    | EWithinReference x cs => incl cs r /\ wfs cs x
    | EWithinVisibility x vh => incl vh r /\ (exists v, In v vh /\ v < n) /\ wfs r x
    end.

  Lemma allset_eq c : allset c = anc_full G (vr c).
  Proof. reflexivity. Qed.

  Lemma mem_vr c x : mem (vr c) x <-> x < n /\ In x (x_refs c ++ x_vis c).
  Proof. unfold vr. rewrite bmem_bof_list, andb_true_iff, Nat.ltb_lt, memn_In. tauto. Qed.

  Lemma allset_closed c S :
    (forall x, x < n -> mem S x -> mem (allset c) x) ->
    forall y, mem (anc_full G S) y -> mem (allset c) y.
  Proof. rewrite allset_eq. apply anc_full_closed; auto. Qed.

  Lemma vr_sub_all c x : mem (vr c) x -> mem (allset c) x.
  Proof. intros H. rewrite allset_eq. apply anc_full_incl; auto. apply mem_vr in H. tauto. Qed.

  (** Every in-range position has the root among its ancestors. *)
  Lemma root_reach : forall x, x < n -> exists k, reach (parents G) k x 0.
  Proof.
    induction x as [x IH] using lt_wf_ind. intros Hx.
    destruct (Nat.eq_dec x 0) as [->|Hne].
    - exists 0. constructor.
    - specialize (Hrooted x Hx Hne). destruct (parents G x) as [|p ps] eqn:E; [congruence|].
      assert (Hp : In p (parents G x)) by (rewrite E; now left).
      assert (Hlt := Hwf _ _ Hp).
      destruct (IH p Hlt ltac:(lia)) as [k Hk]. exists (S k). econstructor; eauto.
  Qed.

  Lemma root_in_all c : okctx c -> mem (allset c) 0.
  Proof.
    intros [v [Hv Hlt]]. rewrite allset_eq. apply anc_full_spec; auto.
    destruct (root_reach v Hlt) as [k Hk]. exists k, v. repeat split; auto.
    apply mem_vr. split; auto. apply in_or_app. now right.
  Qed.

  Lemma allset_mono c c' :
    incl (x_refs c' ++ x_vis c') (x_refs c ++ x_vis c) ->
    forall x, mem (allset c') x -> mem (allset c) x.
  Proof.
    intros Hi. rewrite !allset_eq. apply anc_full_mono; auto. intros x Hx. rewrite !mem_vr.
    intros [_ Hin]. split; auto.
  Qed.

  (* membership facts about the special operators *)
  Lemma sem_reachable_sub S D x : mem (sem_reachable W S D) x -> mem D x.
  Proof.
    unfold sem_reachable.
    revert x. apply (iter_inv (fun s => forall x, mem s x -> mem D x)).
    - intros a IH y. rewrite bmem_bunion, andb_true_iff, orb_true_iff. intros [_ [H|H]].
      + auto.
      + rewrite bmem_binter, !andb_true_iff in H. tauto.
    - intros y. rewrite bmem_binter, !andb_true_iff. tauto.
  Qed.

  Lemma inter_over_fold S f l : forall start x,
    mem (fold_left (fun acc s => if bmem S s then binter n acc (f s) else acc) l start) x <->
    mem start x /\ (forall s, In s l -> mem S s -> x < n /\ mem (f s) x).
  Proof.
    induction l as [|a l IH]; intros start x; simpl.
    - split; [intros H; split; auto; intros s []|tauto].
    - rewrite IH. destruct (bmem S a) eqn:E.
      + rewrite bmem_binter, !andb_true_iff, Nat.ltb_lt. split.
        * intros [[Hx [Hs Hf]] Hall]. split; auto. intros s [<-|Hin] Hm; auto.
        * intros [Hs Hall]. destruct (Hall a (or_introl eq_refl) E) as [Hx Hf].
          split; [tauto|]. intros s Hin Hm. apply Hall; auto.
      + split.
        * intros [Hs Hall]. split; auto. intros s [<-|Hin] Hm; [congruence|auto].
        * intros [Hs Hall]. split; auto.
  Qed.

  Lemma inter_over_spec S f start x :
    mem (inter_over W S f start) x <->
    mem start x /\ (forall s, s < n -> mem S s -> x < n /\ mem (f s) x).
  Proof.
    unfold inter_over. fold G. fold n. rewrite inter_over_fold. split; intros [H1 H2]; split; auto.
    - intros s Hs. apply H2. apply in_seq. lia.
    - intros s Hs. apply H2. apply in_seq in Hs. lia.
  Qed.

  Lemma not_empty_member S : bis_empty (tab n (bmem S)) = false ->
    exists s, s < n /\ mem S s.
  Proof.
    intros H. destruct (existsb (fun s => bmem S s) (seq 0 n)) eqn:E.
    - apply existsb_exists in E. destruct E as [s [Hin Hm]]. apply in_seq in Hin.
      exists s. split; auto. lia.
    - exfalso. assert (bis_empty (tab n (bmem S)) = true); [|congruence].
      apply bis_empty_spec. intros x. rewrite bmem_tab.
      destruct (Nat.ltb_spec x n); auto.
      destruct (bmem S x) eqn:Ex; auto.
      assert (existsb (fun s => bmem S s) (seq 0 n) = true); [|congruence].
      apply existsb_exists. exists x. split; auto. apply in_seq. lia.
  Qed.

  Lemma sem_fork_point_sub S x : mem (sem_fork_point W S) x ->
    exists s, s < n /\ mem S s /\ mem (anc_full G (bsingle n s)) x.
  Proof.
    unfold sem_fork_point. fold G. fold n. destruct (bis_empty _) eqn:E.
    - rewrite bmem_bempty. discriminate.
    - intros H. apply heads_sub in H. apply inter_over_spec in H. destruct H as [_ H].
      destruct (not_empty_member S E) as [s [Hs Hm]]. exists s. repeat split; auto.
      now apply H.
  Qed.

  Lemma sem_merge_point_sub R VH x : mem (sem_merge_point W R VH) x -> mem (anc_full G VH) x.
  Proof.
    unfold sem_merge_point. fold G. fold n. destruct (bis_empty _) eqn:E.
    - rewrite bmem_bempty. discriminate.
    - intros H. apply roots_sub in H. apply inter_over_spec in H. tauto.
  Qed.

  Lemma sem_bisect_sub S x : mem (sem_bisect W S) x -> mem S x.
  Proof.
    unfold sem_bisect. fold G. fold n. destruct (blist n S) as [|a l] eqn:E.
    - rewrite bmem_bempty. discriminate.
    - rewrite bmem_bsingle, andb_true_iff, Nat.eqb_eq. intros [_ ->].
      assert (Hin : In (nth (Nat.div (length (a :: l)) 2) (a :: l) 0) (blist n S)).
      { rewrite E. apply nth_In. apply Nat.div_lt; simpl; lia. }
      apply blist_In in Hin. tauto.
  Qed.

  Lemma sem_latest_sub S k x : mem (sem_latest W S k) x -> mem S x.
  Proof. unfold sem_latest. rewrite bmem_tab_true, andb_true_iff. tauto. Qed.

  Lemma sem_forks_sub A x : mem (sem_forks W A) x -> mem A x.
  Proof. unfold sem_forks. rewrite bmem_tab_true, andb_true_iff. tauto. Qed.

  Lemma single_sub_all c s : mem (allset c) s ->
    forall x, mem (anc_full G (bsingle n s)) x -> mem (allset c) x.
  Proof.
    intros Hs. apply allset_closed. intros y Hy. rewrite bmem_bsingle, andb_true_iff, Nat.eqb_eq.
    intros [_ ->]. exact Hs.
  Qed.

  (** Everything a well-scoped expression denotes lies inside [all()]. *)
  Lemma sub_all e : forall c, okctx c -> wfs (x_refs c) e ->
    forall x, mem (den W c e) x -> mem (allset c) x.
  Proof.
    induction e; intros c Hc Hw x; unfold den, resolve; cbn [res fst snd]; cbn [wfs] in Hw;
      fold G; fold n.
    - (* None *) cbn [bden]. fold G; fold n. rewrite bmem_bof_list, andb_true_iff. simpl. intros [_ H]; discriminate.
    - (* All *) auto.
    - (* VisibleHeads *)
      assert (Hv : forall y, mem (bof_list n (x_vis c)) y -> mem (allset c) y).
      { intros y Hy. apply vr_sub_all. apply mem_vr. rewrite bmem_bof_list, andb_true_iff, Nat.ltb_lt, memn_In in Hy.
        split; [tauto|]. apply in_or_app. tauto. }
      unfold b_vis. destruct (x_hn c); cbn [bden]; fold G; fold n; auto.
      intros H. apply heads_sub in H. auto.
    - (* VisibleHeadsOrReferenced *) cbn [b_vis_or_ref bden]. apply vr_sub_all.
    - (* Root *) cbn [bden]. fold G; fold n. rewrite bmem_bof_list, andb_true_iff, memn_In.
      intros [_ [<-|[]]]. now apply root_in_all.
    - (* Commits *) cbn [bden]. fold G; fold n. rewrite bmem_bof_list, andb_true_iff, Nat.ltb_lt, memn_In.
      intros [Hx Hin]. apply vr_sub_all. apply mem_vr. split; auto. apply in_or_app. left. auto.
    - (* Ancestors *) cbn [bden]. fold G. intros H. apply anc_gen_sub_full in H; auto.
      revert x H. apply allset_closed. intros y _. apply IHe; auto.
    - (* Descendants *) cbn [bden]. fold G; fold n. rewrite bmem_binter, !andb_true_iff. intros [_ [H _]]. exact H.
    - (* Range *) cbn [bden]. fold G; fold n. rewrite bmem_bdiff, !andb_true_iff. intros [_ [H _]].
      apply anc_gen_sub_full in H; auto. revert x H. apply allset_closed. intros y _. apply IHe2; tauto.
    - (* DagRange *) cbn [bden]. fold G; fold n. rewrite bmem_binter, !andb_true_iff. intros [_ [H _]].
      revert x H. apply allset_closed. intros y _. apply IHe2; tauto.
    - (* Reachable *) cbn [bden]. intros H. apply sem_reachable_sub in H. apply IHe2; tauto.
    - (* Heads *) cbn [bden]. fold G. intros H. apply heads_sub in H. apply IHe; auto.
    - (* HeadsRange *)
      assert (Hk : forall y, mem (anc_gen G p GEN_FULL (bden W (fst (res c e2)))) y -> mem (allset c) y).
      { intros y H. apply anc_gen_sub_full in H; auto. revert y H. apply allset_closed.
        intros z _. apply IHe2; tauto. }
      destruct e3; cbn [bden]; fold G; fold n; intros H; apply heads_sub in H;
        try (rewrite bmem_binter, !andb_true_iff in H; destruct H as [_ [H _]]);
        rewrite bmem_bdiff, !andb_true_iff in H; apply Hk; tauto.
    - (* Roots *) cbn [bden]. fold G. intros H. apply roots_sub in H. apply IHe; auto.
    - (* Forks *) cbn [bden]. fold G. intros H. apply sem_forks_sub in H. exact H.
    - (* ForkPoint *) cbn [bden]. intros H. apply sem_fork_point_sub in H.
      destruct H as [s [Hs [Hm Ha]]]. apply (single_sub_all c s); auto; try (apply IHe; auto).
    - (* MergePoint *) cbn [bden]. intros H. apply sem_merge_point_sub in H. exact H.
    - (* Bisect *) cbn [bden]. intros H. apply sem_bisect_sub in H. apply IHe; auto.
    - (* Latest *) cbn [bden]. intros H. apply sem_latest_sub in H. apply IHe; auto.
    - (* Filter *) cbn [bden]. fold G; fold n. rewrite bmem_binter, !andb_true_iff. intros [_ [H _]]. exact H.
    - (* AsFilter *) cbn [bden]. fold G; fold n. rewrite bmem_binter, !andb_true_iff. intros [_ [H _]]. exact H.
    - (* WithinReference *) destruct Hw as [Hi Hw]. intros H.
      apply (allset_mono c (mk_vctx cs (x_vis c) (x_hn c))).
      + cbn. intros y Hy. apply in_app_or in Hy. apply in_or_app. destruct Hy; auto.
      + apply IHe; auto.
    - (* WithinVisibility *) destruct Hw as [Hi [Hv Hw]]. intros H.
      apply (allset_mono c (mk_vctx (x_refs c) vh (x_hn c))).
      + cbn. intros y Hy. apply in_app_or in Hy. apply in_or_app. destruct Hy; auto.
      + apply IHe; auto.
    - (* Coalesce *) cbn [bden]. destruct (bis_empty _); [apply IHe2|apply IHe1]; tauto.
    - (* Present *) apply IHe; auto.
    - (* NotIn *) cbn [bden]. fold G; fold n. rewrite bmem_bdiff, !andb_true_iff. intros [_ [H _]]. exact H.
    - (* Union *) cbn [bden]. fold G; fold n. rewrite bmem_bunion, andb_true_iff, orb_true_iff.
      intros [_ [H|H]]; [apply IHe1|apply IHe2]; tauto.
    - (* Intersection *)
      destruct e2; cbn [bden]; fold G; fold n; rewrite bmem_binter, !andb_true_iff;
        intros [_ [H _]]; apply IHe1; tauto.
    - (* Difference *) cbn [bden]. fold G; fold n. rewrite bmem_bdiff, !andb_true_iff.
      intros [_ [H _]]; apply IHe1; tauto.
  Qed.

  (** Inside [all()], evaluating a well-scoped expression as a predicate or as a set is the
      same thing. *)
  Lemma pden_den e : forall c, okctx c -> wfs (x_refs c) e ->
    forall x, mem (allset c) x -> bmem (pden W c e) x = bmem (den W c e) x.
  Proof.
    induction e; intros c Hc Hw x Hx; unfold pden, den, resolve_pred, resolve;
      cbn [res fst snd pbden]; cbn [wfs] in Hw; try reflexivity.
    - (* Filter *) cbn [bden pbden]. fold G; fold n. rewrite bmem_binter.
      change (bden W (b_all c)) with (allset c). rewrite Hx.
      assert (Hn : x < n) by (rewrite allset_eq in Hx; eapply anc_full_lt; eauto).
      apply Nat.ltb_lt in Hn. rewrite Hn. reflexivity.
    - (* AsFilter *) cbn [bden]. fold G; fold n. rewrite bmem_binter.
      change (bden W (b_all c)) with (allset c). rewrite Hx.
      assert (Hn : x < n) by (rewrite allset_eq in Hx; eapply anc_full_lt; eauto).
      apply Nat.ltb_lt in Hn. rewrite Hn. reflexivity.
    - (* Present *) apply IHe; auto.
    - (* NotIn *) cbn [bden]. fold G; fold n. rewrite bmem_bcompl, bmem_bdiff.
      change (bden W (b_all c)) with (allset c). rewrite Hx.
      specialize (IHe c Hc Hw x Hx). unfold pden, den, resolve_pred, resolve in IHe.
      rewrite IHe. reflexivity.
    - (* Union *) cbn [bden]. fold G; fold n. rewrite !bmem_bunion.
      destruct Hw as [Hw1 Hw2].
      specialize (IHe1 c Hc Hw1 x Hx). specialize (IHe2 c Hc Hw2 x Hx).
      unfold pden, den, resolve_pred, resolve in IHe1, IHe2. rewrite IHe1, IHe2. reflexivity.
    - (* Intersection *) destruct Hw as [Hw1 Hw2].
      specialize (IHe1 c Hc Hw1 x Hx). specialize (IHe2 c Hc Hw2 x Hx).
      unfold pden, den, resolve_pred, resolve in IHe1, IHe2.
      destruct e2; cbn [bden]; fold G; fold n; rewrite !bmem_binter; rewrite IHe1;
        first [reflexivity | rewrite IHe2; reflexivity].
    - (* Difference *) cbn [bden pbden]. fold G; fold n. rewrite bmem_binter, bmem_bcompl, bmem_bdiff.
      destruct Hw as [Hw1 Hw2].
      specialize (IHe1 c Hc Hw1 x Hx). specialize (IHe2 c Hc Hw2 x Hx).
      unfold pden, den, resolve_pred, resolve in IHe1, IHe2. rewrite IHe1, IHe2.
      destruct (x <? n); reflexivity.
  Qed.

  Lemma allset_lt c x : mem (allset c) x -> x < n.
  Proof. rewrite allset_eq. apply anc_full_lt. Qed.

  (* ---------------------------------------------------------------- den equations *)

  Lemma den_AsFilter_raw c x : den W c (EAsFilter x) = binter n (allset c) (pden W c x).
  Proof. reflexivity. Qed.
  Lemma den_Filter_raw c f : den W c (EFilter f) = binter n (allset c) (pden W c (EFilter f)).
  Proof. reflexivity. Qed.
  Lemma den_Inter_Filter_raw c a f :
    den W c (EIntersection a (EFilter f)) = binter n (den W c a) (pden W c (EFilter f)).
  Proof. reflexivity. Qed.
  Lemma den_Inter_AsFilter_raw c a x :
    den W c (EIntersection a (EAsFilter x)) = binter n (den W c a) (pden W c x).
  Proof. reflexivity. Qed.

  Lemma den_AsFilter c x : okctx c -> wfs (x_refs c) x ->
    den W c (EAsFilter x) = binter n (allset c) (den W c x).
  Proof.
    intros Hc Hw. rewrite den_AsFilter_raw. apply (bset_ext n); try apply tab_length.
    intros y Hy. rewrite !bmem_binter.
    destruct (bmem (allset c) y) eqn:E; [|reflexivity].
    rewrite pden_den; auto.
  Qed.

  Lemma den_Intersection c a b : okctx c -> wfs (x_refs c) a ->
    den W c (EIntersection a b) = binter n (den W c a) (den W c b).
  Proof.
    intros Hc Hw.
    assert (Hf : forall q, binter n (den W c a) q = binter n (den W c a) (binter n (allset c) q)).
    { intros q. apply (bset_ext n); try apply tab_length. intros y Hy. rewrite !bmem_binter.
      destruct (bmem (den W c a) y) eqn:E; [|now rewrite !andb_false_r].
      rewrite (sub_all a c Hc Hw y E). destruct (y <? n); reflexivity. }
    destruct b; try reflexivity.
    - rewrite den_Inter_Filter_raw, den_Filter_raw. apply Hf.
    - rewrite den_Inter_AsFilter_raw, den_AsFilter_raw. apply Hf.
  Qed.

  Definition range_set (c : vctx) (r h : expr) (p : nrange) : bset :=
    bdiff n (anc_gen G p GEN_FULL (den W c h)) (anc_full G (den W c r)).

  Lemma range_set_sub c r h p : okctx c -> wfs (x_refs c) h ->
    forall x, mem (range_set c r h p) x -> mem (allset c) x.
  Proof.
    intros Hc Hw x. unfold range_set. rewrite bmem_bdiff, !andb_true_iff. intros [_ [H _]].
    apply anc_gen_sub_full in H; auto. revert x H. apply allset_closed.
    intros y _. apply sub_all; auto.
  Qed.

  Lemma den_HeadsRange_all_raw c r h p :
    den W c (EHeadsRange r h p EAll) = heads G (range_set c r h p).
  Proof. reflexivity. Qed.
  Lemma den_HeadsRange_raw c r h p f : f <> EAll ->
    den W c (EHeadsRange r h p f) = heads G (binter n (range_set c r h p) (pden W c f)).
  Proof.
    intros Hf. destruct f; try congruence;
      unfold den, pden, resolve, resolve_pred, range_set; cbn [res fst snd]; reflexivity.
  Qed.

  Lemma den_HeadsRange c r h p f : okctx c -> wfs (x_refs c) h -> wfs (x_refs c) f ->
    den W c (EHeadsRange r h p f) = heads G (binter n (range_set c r h p) (den W c f)).
  Proof.
    intros Hc Hh Hf.
    assert (Hp : binter n (range_set c r h p) (pden W c f)
                 = binter n (range_set c r h p) (den W c f)).
    { apply (bset_ext n); try apply tab_length. intros y Hy. rewrite !bmem_binter.
      destruct (bmem (range_set c r h p) y) eqn:E; [|now rewrite !andb_false_r].
      rewrite pden_den; auto. exact (range_set_sub c r h p Hc Hh y E). }
    assert (Hd : {f = EAll} + {f <> EAll}) by (destruct f; try (right; discriminate); left; reflexivity).
    destruct Hd as [->|Hne].
    - (* filter = all(): no predicate is attached *)
      rewrite den_HeadsRange_all_raw. f_equal.
      apply (bset_ext n); try apply tab_length. intros y Hy.
      rewrite bmem_binter. destruct (bmem (range_set c r h p) y) eqn:E.
      + change (den W c EAll) with (allset c). rewrite (range_set_sub c r h p Hc Hh y E).
        apply Nat.ltb_lt in Hy. now rewrite Hy.
      + now rewrite andb_false_r.
    - rewrite den_HeadsRange_raw by assumption. now rewrite Hp.
  Qed.

  (* ---------------------------------------------------------------- bottom-up soundness *)

  (** A rewriting rule is sound when, in every well-scoped position, it keeps the scoping
      and the denotation. *)
  Definition sound_post (post : expr -> option expr) : Prop :=
    forall c e e', okctx c -> wfs (x_refs c) e -> post e = Some e' ->
      wfs (x_refs c) e' /\ den W c e' = den W c e.

  Definition preserved (c : vctx) (e e' : expr) : Prop :=
    wfs (x_refs c) e' /\ den W c e' = den W c e.

  Lemma tr_sound post : sound_post post ->
    forall e c, okctx c -> wfs (x_refs c) e -> preserved c e (tr post e).
  Proof.
    intros Hpost.
    assert (Hstep : forall c e e1, okctx c -> preserved c e e1 ->
              preserved c e (match post e1 with Some e2 => e2 | None => e1 end)).
    { intros c e e1 Hc [Hw He]. destruct (post e1) as [e2|] eqn:E; [|split; auto].
      destruct (Hpost c e1 e2 Hc Hw E) as [Hw2 He2]. split; auto. congruence. }
    induction e; intros c Hc Hw; cbn [tr]; apply Hstep; auto; cbn [wfs] in Hw;
      try (split; [exact Hw | reflexivity]).
    - (* Ancestors *) destruct (IHe c Hc Hw) as [H1 H2]. split; [exact H1|].
      unfold den, resolve in *. cbn [res fst snd bden]. now rewrite H2.
    - (* Descendants *) destruct (IHe c Hc Hw) as [H1 H2]. split; [exact H1|].
      unfold den, resolve in *. cbn [res fst snd bden]. now rewrite H2.
    - (* Range *) destruct Hw as [Hwa Hwb]. destruct (IHe1 c Hc Hwa) as [H1 H2].
      destruct (IHe2 c Hc Hwb) as [H3 H4]. split; [split; assumption|].
      unfold den, resolve in *. cbn [res fst snd bden]. now rewrite H2, H4.
    - (* DagRange *) destruct Hw as [Hwa Hwb]. destruct (IHe1 c Hc Hwa) as [H1 H2].
      destruct (IHe2 c Hc Hwb) as [H3 H4]. split; [split; assumption|].
      unfold den, resolve in *. cbn [res fst snd bden]. now rewrite H2, H4.
    - (* Reachable *) destruct Hw as [Hwa Hwb]. destruct (IHe1 c Hc Hwa) as [H1 H2].
      destruct (IHe2 c Hc Hwb) as [H3 H4]. split; [split; assumption|].
      unfold den, resolve in *. cbn [res fst snd bden]. now rewrite H2, H4.
    - (* Heads *) destruct (IHe c Hc Hw) as [H1 H2]. split; [exact H1|].
      unfold den, resolve in *. cbn [res fst snd bden]. now rewrite H2.
    - (* HeadsRange *) destruct Hw as [Hwa [Hwb Hwc]]. destruct (IHe1 c Hc Hwa) as [H1 H2].
      destruct (IHe2 c Hc Hwb) as [H3 H4]. destruct (IHe3 c Hc Hwc) as [H5 H6].
      split; [repeat split; assumption|].
      rewrite !den_HeadsRange by assumption. unfold range_set. now rewrite H2, H4, H6.
    - (* Roots *) destruct (IHe c Hc Hw) as [H1 H2]. split; [exact H1|].
      unfold den, resolve in *. cbn [res fst snd bden]. now rewrite H2.
    - (* ForkPoint *) destruct (IHe c Hc Hw) as [H1 H2]. split; [exact H1|].
      unfold den, resolve in *. cbn [res fst snd bden]. now rewrite H2.
    - (* MergePoint *) destruct (IHe c Hc Hw) as [H1 H2]. split; [exact H1|].
      unfold den, resolve in *. cbn [res fst snd bden]. now rewrite H2.
    - (* Bisect *) destruct (IHe c Hc Hw) as [H1 H2]. split; [exact H1|].
      unfold den, resolve in *. cbn [res fst snd bden]. now rewrite H2.
    - (* Latest *) destruct (IHe c Hc Hw) as [H1 H2]. split; [exact H1|].
      unfold den, resolve in *. cbn [res fst snd bden]. now rewrite H2.
    - (* AsFilter *) destruct (IHe c Hc Hw) as [H1 H2]. split; [exact H1|].
      rewrite !den_AsFilter by assumption. now rewrite H2.
    - (* WithinReference *) destruct Hw as [Hi Hw].
      assert (Hc' : okctx (mk_vctx cs (x_vis c) (x_hn c))) by exact Hc.
      destruct (IHe (mk_vctx cs (x_vis c) (x_hn c)) Hc' Hw) as [H1 H2].
      split; [split; assumption|].
      unfold den, resolve in *. cbn [res fst snd]. exact H2.
    - (* WithinVisibility *) destruct Hw as [Hi [Hv Hw]].
      assert (Hc' : okctx (mk_vctx (x_refs c) vh (x_hn c))) by exact Hv.
      destruct (IHe (mk_vctx (x_refs c) vh (x_hn c)) Hc' Hw) as [H1 H2].
      split; [repeat split; assumption|].
      unfold den, resolve in *. cbn [res fst snd]. exact H2.
    - (* Coalesce *) destruct Hw as [Hwa Hwb]. destruct (IHe1 c Hc Hwa) as [H1 H2].
      destruct (IHe2 c Hc Hwb) as [H3 H4]. split; [split; assumption|].
      unfold den, resolve in *. cbn [res fst snd bden]. now rewrite H2, H4.
    - (* Present *) destruct (IHe c Hc Hw) as [H1 H2]. split; [exact H1|].
      unfold den, resolve in *. cbn [res fst snd]. exact H2.
    - (* NotIn *) destruct (IHe c Hc Hw) as [H1 H2]. split; [exact H1|].
      unfold den, resolve in *. cbn [res fst snd bden]. now rewrite H2.
    - (* Union *) destruct Hw as [Hwa Hwb]. destruct (IHe1 c Hc Hwa) as [H1 H2].
      destruct (IHe2 c Hc Hwb) as [H3 H4]. split; [split; assumption|].
      unfold den, resolve in *. cbn [res fst snd bden]. now rewrite H2, H4.
    - (* Intersection *) destruct Hw as [Hwa Hwb]. destruct (IHe1 c Hc Hwa) as [H1 H2].
      destruct (IHe2 c Hc Hwb) as [H3 H4]. split; [split; assumption|].
      rewrite !den_Intersection by assumption. now rewrite H2, H4.
    - (* Difference *) destruct Hw as [Hwa Hwb]. destruct (IHe1 c Hc Hwa) as [H1 H2].
      destruct (IHe2 c Hc Hwb) as [H3 H4]. split; [split; assumption|].
      unfold den, resolve in *. cbn [res fst snd bden]. now rewrite H2, H4.
  Qed.
End Sound.
