(** C24: one diff entry processed on a disk that holds exactly a tree plus untracked
    entries not in the way gives the disk of the patched tree. *)
From Verif Require Import Base.Prelude Base.FsC Base.WcC Base.C24Chk Proofs.FsC Proofs.WcCore.
From Coq Require Import Lia.
Local Open Scope string_scope.
Local Open Scope list_scope.

(** ** Trees as maps *)

Definition tree_del (t : tree) (p : path) : tree :=
  filter (fun qv => negb (path_eqb (fst qv) p)) t.
Definition tree_set (t : tree) (p : path) (a : option tval) : tree :=
  match a with Some v => (p, v) :: tree_del t p | None => tree_del t p end.

Lemma leaf_tree_del : forall t p q, leaf (tree_del t p) q = if path_eqb p q then None else leaf t q.
Proof.
  unfold tree_del. induction t as [|[r v] t IH]; intros p q; cbn.
  - now destruct (path_eqb p q).
  - destruct (path_eqb r p) eqn:E1; cbn.
    + apply path_eqb_spec in E1. subst. rewrite IH. now destruct (path_eqb p q).
    + rewrite IH. destruct (path_eqb r q) eqn:E2; [|reflexivity].
      apply path_eqb_spec in E2. subst. rewrite path_eqb_sym, E1. reflexivity.
Qed.

Lemma leaf_tree_set : forall t p a q, leaf (tree_set t p a) q = if path_eqb p q then a else leaf t q.
Proof.
  intros t p a q. destruct a as [v|]; cbn; [|apply leaf_tree_del].
  destruct (path_eqb p q) eqn:E; [reflexivity|]. rewrite leaf_tree_del, E. reflexivity.
Qed.

Lemma leaf_In : forall (t : tree) p v, leaf t p = Some v -> In (p, v) t.
Proof.
  induction t as [|[q w] t IH]; cbn; intros p v H; [discriminate|].
  destruct (path_eqb q p) eqn:E.
  - apply path_eqb_spec in E. inversion H; subst. now left.
  - right. eauto.
Qed.

Lemma In_leaf : forall (t : tree) p v, In (p, v) t -> exists v', leaf t p = Some v'.
Proof.
  induction t as [|[q w] t IH]; cbn; intros p v H; [contradiction|].
  destruct (path_eqb q p) eqn:E; [eauto|].
  destruct H as [H|H]; [inversion H; subst; rewrite path_eqb_refl in E; discriminate | eauto].
Qed.

Lemma is_tree_in_spec : forall t q,
  is_tree_in t q = true <-> exists p v, leaf t p = Some v /\ is_strict_prefix q p = true.
Proof.
  intros t q. unfold is_tree_in. rewrite existsb_exists. split.
  - intros [[p v] [Hin H]]. cbn in H. apply In_leaf in Hin as [v' Hv']. eauto.
  - intros [p [v [H1 H2]]]. exists (p, v). split; [now apply leaf_In | exact H2].
Qed.

Lemma fs_below_spec : forall u q,
  fs_below u q = true <-> exists w e, lookup u w = Some e /\ is_strict_prefix q w = true.
Proof.
  intros u q. unfold fs_below. rewrite existsb_exists. split.
  - intros [[w e] [Hin H]]. cbn in H. apply In_lookup in Hin as [e' He']. eauto.
  - intros [w [e [H1 H2]]]. exists (w, e). split; [now apply lookup_In | exact H2].
Qed.

Lemma is_tree_in_false : forall t q,
  is_tree_in t q = false <-> forall p v, leaf t p = Some v -> is_strict_prefix q p = false.
Proof.
  intros t q. split.
  - intros H p v Hp. destruct (is_strict_prefix q p) eqn:E; [|reflexivity].
    assert (is_tree_in t q = true) by (apply is_tree_in_spec; eauto). congruence.
  - intros H. destruct (is_tree_in t q) eqn:E; [|reflexivity].
    apply is_tree_in_spec in E as [p [v [A B]]]. rewrite (H p v A) in B. discriminate.
Qed.

Lemma fs_below_false : forall u q,
  fs_below u q = false <-> forall w e, lookup u w = Some e -> is_strict_prefix q w = false.
Proof.
  intros u q. split.
  - intros H w e Hw. destruct (is_strict_prefix q w) eqn:E; [|reflexivity].
    assert (fs_below u q = true) by (apply fs_below_spec; eauto). congruence.
  - intros H. destruct (fs_below u q) eqn:E; [|reflexivity].
    apply fs_below_spec in E as [w [e [A B]]]. rewrite (H w e A) in B. discriminate.
Qed.

Section WithReserved.
Variable rn : list name.
Local Notation has_reserved := (WcC.has_reserved rn).
Local Notation anchor := (WcCore.anchor rn).
Local Notation sinv := (WcCore.sinv rn).
Local Notation process_entry := (WcC.process_entry rn).
Local Notation create_parent_dirs := (WcC.create_parent_dirs rn).
Local Notation remove_old_file := (WcC.remove_old_file rn).
Local Notation can_create_new_file := (WcC.can_create_new_file rn).
Local Notation entry_tail := (WcC.entry_tail rn).

(** A tree that can be checked out. *)
Definition tok (t : tree) : Prop :=
  (forall p v, leaf t p = Some v ->
     p <> [] /\ forallb valid_name p = true /\ has_reserved p = false)
  /\ (forall p q v w, leaf t p = Some v -> leaf t q = Some w -> is_strict_prefix p q = false).

(** No entry at the root path itself. *)
Definition nonroot (u : fs) : Prop := forall x e, lookup u x = Some e -> x <> [].

(** Untracked entries not in the way of the tree. (The list [u] need not spell out the
    directories above its entries: [expected] supplies them.) *)
Definition uok (u : fs) (t : tree) : Prop :=
  nonroot u /\ anchor u /\
  forall x e, lookup u x = Some e ->
    (forall p v, leaf t p = Some v -> is_prefix p x = false)
    /\ ((exists p v, leaf t p = Some v /\ is_strict_prefix x p = true) ->
        e = EDir /\ exists w e', lookup u w = Some e' /\ is_strict_prefix x w = true
                                 /\ forall p v, leaf t p = Some v -> is_prefix w p = false).

Lemma expected_nil : forall t u, expected t u [] = None.
Proof. reflexivity. Qed.

Lemma expected_cons : forall t u q, q <> [] ->
  expected t u q = match leaf t q with
                   | Some v => Some (materialize v)
                   | None => if is_tree_in t q || fs_below u q then Some EDir else lookup u q
                   end.
Proof. intros t u q H. destruct q; [congruence|reflexivity]. Qed.

(** On such a disk everything above a tree path or an untracked entry is a directory. *)
Lemma expected_dir_above : forall t u r q,
  tok t -> uok u t -> r <> [] -> is_strict_prefix r q = true -> expected t u q <> None ->
  expected t u r = Some EDir.
Proof.
  intros t u r q [Ht1 Ht2] [Hu1 [Hu2 Hu3]] Hr Hrq Hq.
  assert (Hqne : q <> []).
  { intros ->. apply is_strict_prefix_prefix in Hrq. apply is_prefix_nil_r in Hrq. congruence. }
  rewrite expected_cons in * by assumption.
  (* r carries no leaf, and something lies below it *)
  assert (Hbelow : is_tree_in t r = true \/ fs_below u r = true).
  { destruct (leaf t q) as [v|] eqn:Eq.
    - left. apply is_tree_in_spec. eauto.
    - destruct (is_tree_in t q) eqn:Et.
      + left. apply is_tree_in_spec in Et as [p [v [A B]]]. apply is_tree_in_spec. exists p, v. split; auto.
        eapply is_strict_prefix_trans_l; eauto. now apply is_strict_prefix_prefix.
      + destruct (fs_below u q) eqn:Ef.
        * right. apply fs_below_spec in Ef as [w [e [A B]]]. apply fs_below_spec. exists w, e. split; auto.
          eapply is_strict_prefix_trans_l; eauto. now apply is_strict_prefix_prefix.
        * cbn in Hq. destruct (lookup u q) as [e|] eqn:El; [|congruence].
          right. apply fs_below_spec. eauto. }
  assert (Hnoleaf : leaf t r = None).
  { destruct (leaf t r) as [v|] eqn:Er; [|reflexivity]. exfalso.
    destruct Hbelow as [Hb|Hb].
    - apply is_tree_in_spec in Hb as [p [v' [A B]]]. rewrite (Ht2 r p v v' Er A) in B. discriminate.
    - apply fs_below_spec in Hb as [w [e [A B]]]. destruct (Hu3 w e A) as [C _].
      apply is_strict_prefix_prefix in B. rewrite (C r v Er) in B. discriminate. }
  rewrite Hnoleaf. destruct Hbelow as [Hb|Hb]; rewrite Hb; [reflexivity | now rewrite Bool.orb_true_r].
Qed.

Lemma models_wf : forall t u f, tok t -> uok u t -> models t u f -> wf_fs f.
Proof.
  intros t u f Ht Hu Hm q e Hq. rewrite Hm in Hq.
  assert (Hqne : q <> []) by (intros ->; discriminate). split; [exact Hqne|].
  apply all_dirs_spec. intros r Hr. destruct r as [|a r]; [reflexivity|].
  apply is_dir_lookup; [discriminate|]. rewrite Hm.
  apply (expected_dir_above t u (a :: r) q Ht Hu); [discriminate | | congruence].
  eapply is_strict_prefix_trans_r; [exact Hr|]. now apply parent_is_strict_prefix.
Qed.

Lemma models_anchor : forall t u f, tok t -> uok u t -> models t u f -> anchor f.
Proof.
  intros t u f [Ht1 Ht2] [Hu1 [[x [Hx1 Hx2]] Hu3]] Hm. exists x. split; auto. rewrite Hm.
  rewrite expected_cons by discriminate.
  destruct (leaf t [x]) as [v|] eqn:El.
  - exfalso. destruct (Ht1 _ _ El) as [_ [_ Hr]]. unfold WcC.has_reserved in Hr. cbn in Hr.
    rewrite Hx1 in Hr. discriminate.
  - destruct (is_tree_in t [x] || fs_below u [x]); congruence.
Qed.

(** ** The pruning loop, exactly *)

(** Everything strictly below [q] lies on the chain of directories leading to [d]. *)
Definition only_chain (f : fs) (q d : path) : Prop :=
  forall r e, lookup f r = Some e -> is_strict_prefix q r = true -> is_prefix r d = true.

Lemma no_child_nothing_below : forall f d r e,
  wf_fs f -> d <> [] -> has_child f d = false -> lookup f r = Some e -> is_strict_prefix d r = true -> False.
Proof.
  intros f d r e Hwf Hd Hc Hr Hdr. apply is_strict_prefix_spec in Hdr as [x [t ->]].
  assert (Hx : exists e', lookup f (d ++ [x]) = Some e').
  { destruct t as [|y t] using rev_ind; [eauto|].
    apply Hwf in Hr as [_ Hr].
    replace (d ++ x :: t ++ [y]) with ((d ++ x :: t) ++ [y]) in Hr by now rewrite <- app_assoc.
    rewrite parent_snoc in Hr.
    assert (Hd' : is_dir f (d ++ [x]) = true).
    { eapply all_dirs_spec; [exact Hr|]. apply is_prefix_spec. exists t. now rewrite <- app_assoc. }
    apply is_dir_lookup in Hd'; [eauto | destruct d; discriminate]. }
  destruct Hx as [e' Hx]. rewrite (proj1 (has_child_false f d) Hc x) in Hx. discriminate.
Qed.

Lemma prune_rev_exact : forall rp w,
  good w -> all_dirs (w_fs w) (rev rp) = true ->
  (exists x, lookup (w_fs w) [x] <> None /\ is_prefix [x] (rev rp) = false) ->
  exists w', prune_rev w rp = Done tt w' /\ good w' /\
    (forall q, lookup (w_fs w') q = lookup (w_fs w) q
               \/ (q <> [] /\ is_prefix q (rev rp) = true /\ only_chain (w_fs w) q (rev rp)
                   /\ lookup (w_fs w') q = None))
    /\ (forall q, q <> [] -> is_prefix q (rev rp) = true -> only_chain (w_fs w) q (rev rp) ->
                  lookup (w_fs w') q = None).
Proof.
  induction rp as [|c rp IH]; intros w [Hwf Hs] Hd [x [Hx Hnp]].
  - cbn. assert (Hc : has_child (w_fs w) [] = true).
    { apply has_child_spec. destruct (lookup (w_fs w) [x]) eqn:E; [|congruence]. exists x, e. exact E. }
    unfold p_remove_dir. rewrite Hc. cbn. eexists. split; [reflexivity|]. cbn. split; [|split].
    + split; auto. unfold all_safe. cbn. constructor; auto.
    + intros q. now left.
    + intros q Hq Hp. apply is_prefix_nil_r in Hp. congruence.
  - cbn [rev] in *. set (d' := rev rp) in *. set (d := d' ++ [c]) in *.
    assert (Hne : d <> []) by (unfold d; destruct d'; discriminate).
    assert (Hsafe : safe (w_fs w) d = true).
    { unfold d. rewrite safe_snoc. eapply all_dirs_prefix; eauto. apply is_prefix_app. }
    assert (Hdir : lookup (w_fs w) d = Some EDir).
    { apply is_dir_lookup; auto. eapply all_dirs_spec; eauto using is_prefix_refl. }
    cbn [prune_rev]. cbn [rev]. fold d' d.
    destruct (has_child (w_fs w) d) eqn:Hc.
    + (* not empty: the loop stops *)
      destruct (p_remove_dir w d) as [r1 w1] eqn:E1.
      pose proof E1 as E1'. apply p_remove_dir_spec in E1' as [Htr1 [_ Hcase]]. specialize (Htr1 Hne).
      rewrite Hsafe in *. assert (Hs1 : all_safe w1) by (eapply all_safe_cons; eauto).
      destruct Hcase as [[_ [_ [_ [_ [Hc' _]]]]]|[Hr1 [Hfs1 Hun]]]; [congruence|].
      assert (Hnu : r1 <> PUnsafe).
      { intros ->. destruct Hun as [Hun _]. specialize (Hun eq_refl).
        destruct (path_eqb d []) eqn:En; [apply path_eqb_spec in En; congruence|]. discriminate. }
      exists w1. split; [destruct r1; congruence|].
      split; [split; [rewrite Hfs1; exact Hwf | exact Hs1]|]. rewrite Hfs1. split.
      * intros q. now left.
      * intros q Hq Hp Hoc. exfalso.
        apply has_child_spec in Hc as [y [e Hy]].
        assert (Hsp : is_strict_prefix q (d ++ [y]) = true).
        { eapply is_strict_prefix_trans_r; [exact Hp | apply is_strict_prefix_snoc_r]. }
        specialize (Hoc _ _ Hy Hsp). apply is_prefix_spec in Hoc as [t Ht].
        apply (f_equal (@length _)) in Ht. rewrite !app_length in Ht. cbn in Ht. lia.
    + (* empty: removed, continue above *)
      rewrite (p_remove_dir_empty w d Hne Hsafe Hdir Hc).
      set (w1 := {| w_fs := fs_remove (w_fs w) d; w_tr := {| ev_op := ORemoveDir; ev_path := d; ev_safe := true |} :: w_tr w |}).
      assert (Hu : upd (w_fs w) (w_fs w1) d None) by apply upd_remove.
      assert (Hg1 : good w1).
      { split; [eapply wf_upd_none; eauto | unfold all_safe; cbn; constructor; auto]. }
      assert (Hd1 : all_dirs (w_fs w1) d' = true).
      { rewrite <- (parent_snoc d' c). fold d. erewrite upd_parent_dirs; eauto.
        unfold d. rewrite parent_snoc. eapply all_dirs_prefix; eauto. apply is_prefix_app. }
      assert (Hx1 : exists x, lookup (w_fs w1) [x] <> None /\ is_prefix [x] d' = false).
      { exists x. split; [|now apply is_prefix_snoc_false in Hnp].
        rewrite (upd_other _ _ _ _ _ Hu); auto. intros E. rewrite E, is_prefix_refl in Hnp. discriminate. }
      destruct (IH w1 Hg1 Hd1 Hx1) as [w' [Hrun [Hg' [HA HB]]]].
      exists w'. split; [exact Hrun|]. split; [exact Hg'|].
      assert (Hnb : forall r e, lookup (w_fs w) r = Some e -> is_strict_prefix d r = true -> False).
      { intros r e Hr Hdr. eapply no_child_nothing_below; eauto. }
      assert (Hoc1 : forall q, only_chain (w_fs w1) q d' -> only_chain (w_fs w) q d).
      { intros q Hoc r e Hr Hqr. destruct (path_dec r d) as [->|Hrd]; [apply is_prefix_refl|].
        rewrite <- (upd_other _ _ _ _ _ Hu Hrd) in Hr. specialize (Hoc _ _ Hr Hqr).
        eapply is_prefix_trans; [exact Hoc | apply is_prefix_app]. }
      assert (Hoc2 : forall q, only_chain (w_fs w) q d -> only_chain (w_fs w1) q d').
      { intros q Hoc r e Hr Hqr. destruct (path_dec r d) as [->|Hrd].
        - rewrite (upd_same _ _ _ _ Hu) in Hr. discriminate.
        - rewrite (upd_other _ _ _ _ _ Hu Hrd) in Hr. specialize (Hoc _ _ Hr Hqr).
          apply is_prefix_snoc in Hoc as [Hoc|Hoc]; [contradiction | exact Hoc]. }
      split.
      * intros q. destruct (HA q) as [Hq|[Hq1 [Hq2 [Hq3 Hq4]]]].
        -- destruct (path_dec q d) as [->|Hqd].
           ++ right. rewrite Hq, (upd_same _ _ _ _ Hu). repeat split; auto using is_prefix_refl.
              intros r e Hr Hdr. exfalso. eauto.
           ++ left. rewrite Hq. eapply upd_other; eauto.
        -- right. repeat split; auto.
           eapply is_prefix_trans; [exact Hq2 | apply is_prefix_app].
      * intros q Hq Hp Hoc. apply is_prefix_snoc in Hp as [->|Hp].
        -- fold d. destruct (HA d) as [Hq'|[_ [_ [_ Hq']]]]; [|exact Hq'].
           rewrite Hq'. apply (upd_same _ _ _ _ Hu).
        -- apply HB; auto.
Qed.

(** ** One entry on a clean disk *)

Section Step.
Set Default Proof Using "All".
Variables (A : tree) (U : fs) (e : dentry).
Local Notation p := (d_path e).
Local Notation A' := (tree_set A (d_path e) (d_after e)).
Hypothesis HtA : tok A.
Hypothesis HtA' : tok A'.
Hypothesis HuA : uok U A.
Hypothesis HuA' : uok U A'.
Hypothesis Hb : leaf A p = d_before e.
Hypothesis Hab : d_before e <> d_after e.

Lemma leafA'_p : leaf A' p = d_after e.
Proof. now rewrite leaf_tree_set, path_eqb_refl. Qed.

Lemma leafA'_other : forall q, q <> p -> leaf A' q = leaf A q.
Proof.
  intros q Hq. rewrite leaf_tree_set. destruct (path_eqb p q) eqn:E; [|reflexivity].
  apply path_eqb_spec in E. congruence.
Qed.

(** The path is a leaf of the old or of the new tree. *)
Lemma p_in_one : (exists v, leaf A p = Some v) \/ (exists v, leaf A' p = Some v).
Proof.
  rewrite leafA'_p, Hb. destruct (d_before e) as [vb|]; [left; eauto|].
  destruct (d_after e) as [va|]; [right; eauto | congruence].
Qed.

Lemma p_facts : p <> [] /\ forallb valid_name p = true /\ has_reserved p = false.
Proof.
  destruct p_in_one as [[v Hv]|[v Hv]]; [apply (proj1 HtA _ _ Hv) | apply (proj1 HtA' _ _ Hv)].
Qed.

(** No leaf of either tree lies strictly above the path. *)
Lemma no_leaf_above : forall q, is_strict_prefix q p = true -> leaf A q = None /\ leaf A' q = None.
Proof.
  intros q Hq. assert (Hqp : q <> p) by (intros ->; rewrite is_strict_prefix_irrefl in Hq; discriminate).
  rewrite (leafA'_other q Hqp). split; destruct (leaf A q) as [v|] eqn:E; auto; exfalso.
  all: destruct p_in_one as [[v' Hv']|[v' Hv']];
    [ rewrite (proj2 HtA q p v v' E Hv') in Hq; discriminate
    | rewrite <- (leafA'_other q Hqp) in E; rewrite (proj2 HtA' q p v v' E Hv') in Hq; discriminate ].
Qed.

(** An untracked entry strictly above the path is a directory. *)
Lemma untracked_above_is_dir : forall q x, is_strict_prefix q p = true -> lookup U q = Some x -> x = EDir.
Proof.
  intros q x Hq Hx. destruct p_in_one as [[v Hv]|[v Hv]].
  - destruct HuA as [_ [_ H3]]. destruct (H3 q x Hx) as [_ H]. apply H. eauto.
  - destruct HuA' as [_ [_ H3]]. destruct (H3 q x Hx) as [_ H]. apply H. eauto.
Qed.

Variable f : fs.
Hypothesis Hm : models A U f.

Lemma above_dirish : forall q, q <> [] -> is_strict_prefix q p = true ->
  lookup f q = None \/ lookup f q = Some EDir.
Proof.
  intros q Hq Hqp. rewrite Hm, expected_cons by assumption.
  destruct (no_leaf_above q Hqp) as [-> _].
  destruct (is_tree_in A q || fs_below U q); [now right|].
  destruct (lookup U q) as [x|] eqn:E; [right | now left].
  now rewrite (untracked_above_is_dir q x Hqp E).
Qed.

(** What is on disk at the path: the old tree's file, or nothing. *)
Lemma at_path : lookup f p = match d_before e with Some vb => Some (materialize vb) | None => None end.
Proof.
  destruct p_facts as [Hp _]. rewrite Hm, expected_cons, Hb by assumption.
  assert (Hcase : (exists vb, d_before e = Some vb) \/ d_before e = None) by (destruct (d_before e); eauto).
  destruct Hcase as [[vb Eb]|Eb]; rewrite Eb; [reflexivity|].
  assert (Ha : exists va, d_after e = Some va) by (destruct (d_after e); [eauto | congruence]).
  destruct Ha as [va Ea].
  assert (HA'p : leaf A' p = Some va) by (rewrite leafA'_p; exact Ea).
  assert (H1 : is_tree_in A p = false).
  { apply is_tree_in_false. intros r v Hr. destruct (is_strict_prefix p r) eqn:E; [|reflexivity]. exfalso.
    assert (Hrp : r <> p) by (intros ->; rewrite is_strict_prefix_irrefl in E; discriminate).
    rewrite <- (leafA'_other r Hrp) in Hr. rewrite (proj2 HtA' p r va v HA'p Hr) in E. discriminate. }
  assert (H2 : fs_below U p = false).
  { apply fs_below_false. intros w x Hw. destruct (is_strict_prefix p w) eqn:E; [|reflexivity]. exfalso.
    destruct HuA' as [_ [_ H3]]. destruct (H3 w x Hw) as [H _]. specialize (H p va HA'p).
    apply is_strict_prefix_prefix in E. congruence. }
  rewrite H1, H2. cbn. destruct (lookup U p) as [x|] eqn:E; [|reflexivity]. exfalso.
  destruct HuA' as [_ [_ H3]]. destruct (H3 p x E) as [H _]. specialize (H p va HA'p).
  rewrite is_prefix_refl in H. discriminate.
Qed.

(** Paths that are neither the entry's path nor above it see the same expected entry. *)
Lemma is_tree_in_other : forall q, is_strict_prefix q p = false -> is_tree_in A' q = is_tree_in A q.
Proof.
  intros q Hq. destruct (is_tree_in A q) eqn:E.
  - apply is_tree_in_spec in E as [r [v [H1 H2]]]. apply is_tree_in_spec.
    assert (Hrp : r <> p) by (intros ->; congruence). exists r, v. split; auto.
    now rewrite (leafA'_other r Hrp).
  - apply is_tree_in_false. intros r v Hr. destruct (is_strict_prefix q r) eqn:E2; [|reflexivity]. exfalso.
    assert (Hrp : r <> p) by (intros ->; congruence). rewrite (leafA'_other r Hrp) in Hr.
    rewrite (proj1 (is_tree_in_false A q) E r v Hr) in E2. discriminate.
Qed.

Lemma expected_other : forall q, q <> p -> is_strict_prefix q p = false -> expected A' U q = expected A U q.
Proof.
  intros q Hqp Hq. destruct q as [|a q]; [reflexivity|].
  rewrite !expected_cons by discriminate. rewrite (leafA'_other _ Hqp), (is_tree_in_other _ Hq). reflexivity.
Qed.

(** The new tree's file has been written. *)
Lemma models_written : forall va f3,
  d_after e = Some va ->
  lookup f3 p = Some (materialize va) ->
  (forall q, q <> [] -> is_strict_prefix q p = true -> lookup f3 q = Some EDir) ->
  (forall q, q <> p -> (q = [] \/ is_strict_prefix q p = false) -> lookup f3 q = lookup f q) ->
  models A' U f3.
Proof.
  intros va f3 Ea H1 H2 H3 q. destruct p_facts as [Hp _].
  destruct (path_dec q p) as [->|Hqp].
  - rewrite H1, expected_cons, leafA'_p, Ea by assumption. reflexivity.
  - destruct q as [|x q]; [rewrite H3; auto; rewrite Hm; reflexivity|].
    destruct (is_strict_prefix (x :: q) p) eqn:Esp.
    + rewrite H2 by (auto; discriminate). rewrite expected_cons by discriminate.
      destruct (no_leaf_above _ Esp) as [_ ->].
      assert (Ht : is_tree_in A' (x :: q) = true).
      { apply is_tree_in_spec. exists p, va. split; auto. rewrite leafA'_p. exact Ea. }
      rewrite Ht. reflexivity.
    + rewrite H3 by auto. rewrite Hm. symmetry. now apply expected_other.
Qed.

(** A removed file, parents pruned. *)
Lemma models_removed : forall vb f2 f3,
  d_before e = Some vb -> d_after e = None ->
  (forall q, lookup f2 q = if path_eqb p q then None else lookup f q) ->
  (forall q, lookup f3 q = lookup f2 q
             \/ (q <> [] /\ is_prefix q (parent p) = true /\ only_chain f2 q (parent p)
                 /\ lookup f3 q = None)) ->
  (forall q, q <> [] -> is_prefix q (parent p) = true -> only_chain f2 q (parent p) -> lookup f3 q = None) ->
  models A' U f3.
Proof.
  intros vb f2 f3 Eb Ea H2 HA HB q. destruct p_facts as [Hp _].
  assert (HAp : leaf A p = Some vb) by (rewrite Hb; exact Eb).
  assert (Hf2 : forall r, r <> p -> lookup f2 r = lookup f r).
  { intros r Hr. rewrite H2. destruct (path_eqb p r) eqn:E; [apply path_eqb_spec in E; congruence | reflexivity]. }
  assert (Hf2p : lookup f2 p = None) by (rewrite H2, path_eqb_refl; reflexivity).
  assert (Hchain : forall r, is_prefix r (parent p) = true -> is_strict_prefix r p = true).
  { intros r Hr. eapply is_strict_prefix_trans_r; [exact Hr | now apply parent_is_strict_prefix]. }
  assert (Hnot_on : forall r, r <> [] -> is_prefix r (parent p) = false -> r <> p -> is_strict_prefix r p = false).
  { intros r Hr Hrp Hne. destruct (is_strict_prefix r p) eqn:E; [|reflexivity].
    rewrite (parent_last p Hp) in E. apply strict_prefix_snoc in E. congruence. }
  (* entries of U exist on the disk f *)
  assert (HUf : forall w x, lookup U w = Some x -> lookup f w <> None /\ w <> p).
  { intros w x Hw. destruct HuA as [Hwf [_ H3]]. destruct (H3 w x Hw) as [C _].
    assert (Hwne : w <> []) by (apply Hwf in Hw; tauto || exact Hw).
    split.
    - rewrite Hm, expected_cons by assumption.
      destruct (leaf A w) as [v|] eqn:E; [discriminate|].
      destruct (is_tree_in A w || fs_below U w); [discriminate | congruence].
    - intros ->. specialize (C p vb HAp). rewrite is_prefix_refl in C. discriminate. }
  destruct (path_dec q p) as [->|Hqp].
  - (* the path itself is gone *)
    assert (E3 : lookup f3 p = None).
    { destruct (HA p) as [E|[_ [_ [_ E]]]]; [rewrite E; exact Hf2p | exact E]. }
    rewrite E3, expected_cons, leafA'_p by assumption.
    assert (T1 : is_tree_in A' p = false).
    { apply is_tree_in_false. intros r v Hr. destruct (is_strict_prefix p r) eqn:E; [|reflexivity]. exfalso.
      assert (Hrp : r <> p) by (intros ->; rewrite is_strict_prefix_irrefl in E; discriminate).
      rewrite (leafA'_other r Hrp) in Hr. rewrite (proj2 HtA p r vb v HAp Hr) in E. discriminate. }
    assert (T2 : fs_below U p = false).
    { apply fs_below_false. intros w x Hw. destruct (is_strict_prefix p w) eqn:E; [|reflexivity]. exfalso.
      destruct HuA as [_ [_ H3]]. destruct (H3 w x Hw) as [C _]. specialize (C p vb HAp).
      apply is_strict_prefix_prefix in E. congruence. }
    rewrite T1, T2, Ea. cbn. destruct (lookup U p) as [x|] eqn:E; [|reflexivity]. exfalso.
    destruct (HUf p x E) as [_ C]. congruence.
  - destruct q as [|a q].
    { destruct (HA []) as [E|[C _]]; [|congruence]. rewrite E, Hf2 by auto. rewrite Hm. reflexivity. }
    set (qq := a :: q) in *. assert (Hqq : qq <> []) by discriminate.
    destruct (is_prefix qq (parent p)) eqn:Eon.
    + (* on the chain of parents *)
      pose proof (Hchain qq Eon) as Hsp.
      rewrite expected_cons by assumption. destruct (no_leaf_above _ Hsp) as [_ ->].
      assert (Hfq : lookup f qq = Some EDir).
      { rewrite Hm. eapply expected_dir_above; eauto. rewrite <- Hm. rewrite at_path, Eb. discriminate. }
      destruct (is_tree_in A' qq || fs_below U qq) eqn:ED.
      * (* something off the chain lies below: the directory stays *)
        destruct (HA qq) as [E|[_ [_ [Hoc _]]]]; [rewrite E, Hf2 by auto; exact Hfq|]. exfalso.
        assert (Hoff : exists r, lookup f2 r <> None /\ is_strict_prefix qq r = true /\ is_prefix r (parent p) = false).
        { apply Bool.orb_true_iff in ED as [ED|ED].
          - apply is_tree_in_spec in ED as [r [v [Hr Hqr]]].
            assert (Hrp : r <> p) by (intros ->; rewrite leafA'_p, Ea in Hr; discriminate).
            rewrite (leafA'_other r Hrp) in Hr. exists r. split; [|split; auto].
            + rewrite Hf2 by auto. rewrite Hm, expected_cons, Hr; [discriminate|].
              apply (proj1 HtA _ _ Hr).
            + destruct (is_prefix r (parent p)) eqn:E; [|reflexivity]. exfalso.
              apply Hchain in E. rewrite (proj2 HtA r p v vb Hr HAp) in E. discriminate.
          - apply fs_below_spec in ED as [w [x [Hw Hqw]]]. destruct (HUf w x Hw) as [Hfw Hwp].
            destruct (is_prefix w (parent p)) eqn:E.
            + (* an untracked directory on the chain holds something off every tree path *)
              destruct HuA as [_ [_ H3]]. destruct (H3 w x Hw) as [_ C].
              destruct C as [_ [w' [x' [Hw' [Hww' Hoffp]]]]]; [exists p, vb; auto|].
              destruct (HUf w' x' Hw') as [Hfw' Hwp'].
              exists w'. split; [rewrite Hf2 by auto; exact Hfw'|]. split.
              * eapply is_strict_prefix_trans_l; [exact Hqw | now apply is_strict_prefix_prefix].
              * destruct (is_prefix w' (parent p)) eqn:E'; [|reflexivity]. exfalso.
                apply Hchain in E'. apply is_strict_prefix_prefix in E'. rewrite (Hoffp p vb HAp) in E'. discriminate.
            + exists w. split; [rewrite Hf2 by auto; exact Hfw | auto]. }
        destruct Hoff as [r [Hr1 [Hr2 Hr3]]]. destruct (lookup f2 r) as [x|] eqn:Er; [|congruence].
        rewrite (Hoc r x Er Hr2) in Hr3. discriminate.
      * (* nothing else below: pruned *)
        apply Bool.orb_false_iff in ED as [ED1 ED2].
        assert (HUq : lookup U qq = None).
        { destruct (lookup U qq) as [x|] eqn:E; [|reflexivity]. exfalso.
          destruct HuA as [_ [_ H3]]. destruct (H3 qq x E) as [_ C].
          destruct C as [_ [w' [x' [Hw' [Hww' _]]]]]; [exists p, vb; auto|].
          rewrite (proj1 (fs_below_false U qq) ED2 w' x' Hw') in Hww'. discriminate. }
        rewrite HUq. apply HB; auto.
        intros r x Hr Hqr.
        assert (Hrp : r <> p) by (intros ->; congruence).
        rewrite Hf2 in Hr by auto.
        destruct (is_prefix r (parent p)) eqn:Eon'; [reflexivity|]. exfalso.
        assert (Hrne : r <> []).
        { intros ->. apply is_strict_prefix_prefix in Hqr. apply is_prefix_nil_r in Hqr. congruence. }
        rewrite Hm, expected_cons in Hr by assumption.
        pose proof (Hnot_on r Hrne Eon' Hrp) as Hnsp.
        destruct (leaf A r) as [v|] eqn:El.
        { (* a leaf of the new tree below qq *)
          assert (is_tree_in A' qq = true); [|congruence].
          apply is_tree_in_spec. exists r, v. split; auto. now rewrite (leafA'_other r Hrp). }
        destruct (is_tree_in A r) eqn:Et.
        { apply is_tree_in_spec in Et as [r' [v [Hr' Hrr']]].
          assert (Hr'p : r' <> p) by (intros ->; congruence).
          assert (is_tree_in A' qq = true); [|congruence].
          apply is_tree_in_spec. exists r', v. split; [now rewrite (leafA'_other r' Hr'p)|].
          eapply is_strict_prefix_trans_l; [exact Hqr | now apply is_strict_prefix_prefix]. }
        destruct (fs_below U r) eqn:Ef.
        { apply fs_below_spec in Ef as [w [x' [Hw Hrw]]].
          assert (is_strict_prefix qq w = true).
          { eapply is_strict_prefix_trans_l; [exact Hqr | now apply is_strict_prefix_prefix]. }
          rewrite (proj1 (fs_below_false U qq) ED2 w x' Hw) in H. discriminate. }
        cbn in Hr. rewrite (proj1 (fs_below_false U qq) ED2 r x Hr) in Hqr. discriminate.
    + (* off the chain *)
      assert (Hnsp : is_strict_prefix qq p = false) by (apply Hnot_on; auto).
      destruct (HA qq) as [E|[_ [C _]]]; [|congruence].
      rewrite E, Hf2 by auto. rewrite Hm. symmetry. now apply expected_other.
Qed.

Variable s : st.
Hypothesis Hs : sinv s.
Hypothesis Hfs : w_fs (s_w s) = f.

Lemma strict_prefix_is_dir_after : forall f1 q,
  all_dirs f1 (parent p) = true -> q <> [] -> is_strict_prefix q p = true -> lookup f1 q = Some EDir.
Proof.
  intros f1 q Hd Hq Hqp. destruct p_facts as [Hp _]. apply is_dir_lookup; auto.
  eapply all_dirs_spec; [exact Hd|]. rewrite (parent_last p Hp) in Hqp. eapply strict_prefix_snoc; eauto.
Qed.

(** The directories above the path get created; nothing is in the way. *)
Lemma cpd_clean : forall c adj,
  p = c ++ adj -> adj <> [] -> all_dirs f c = true -> has_reserved c = false ->
  exists w1, create_parent_dirs (s_w s) c adj = Done (Some p) w1 /\ good w1
    /\ all_dirs (w_fs w1) (parent p) = true
    /\ (forall q, lookup (w_fs w1) q = lookup f q
                  \/ (q <> [] /\ is_strict_prefix q p = true /\ lookup (w_fs w1) q = Some EDir)).
Proof.
  intros c adj Hpath Hadj Hdc Hrc. destruct Hs as [Hg _]. destruct p_facts as [Hp [Hv Hr]].
  destruct (create_parent_dirs (s_w s) c adj) as [[dp|] w1|er w1] eqn:E;
    apply create_parent_dirs_spec in E; auto; try (now rewrite Hfs);
    destruct E as [Hg1 [Hne1 [Hmd [Hrs Hpost]]]]; cbn [res_world] in *; rewrite Hfs in *.
  - destruct Hpost as [-> [Hd1 _]]. rewrite <- Hpath in *. exists w1.
    split; [reflexivity|]. split; [exact Hg1|]. split; [exact Hd1|].
    intros q. destruct (Hmd q) as [Hq|[Ha [Hb' [C D]]]]; [now left|right].
    assert (Hqne : q <> []).
    { intros ->. apply is_strict_prefix_spec in C as [x [t C]]. destruct c; discriminate. }
    repeat split; auto. rewrite <- parent_app in D by assumption. rewrite <- Hpath in D.
    eapply is_strict_prefix_trans_r; [exact D | now apply parent_is_strict_prefix].
  - exfalso. destruct Hpost as [q [Ha [B C]]].
    assert (Hqne : q <> []).
    { intros ->. apply is_strict_prefix_spec in Ha as [x [t Ha]]. destruct c; discriminate. }
    assert (Hqp : is_strict_prefix q p = true).
    { rewrite <- parent_app in B by assumption. rewrite <- Hpath in B.
      eapply is_strict_prefix_trans_r; [exact B | now apply parent_is_strict_prefix]. }
    destruct (Hmd q) as [Hq|[_ [Hq _]]]; [|rewrite Hq in C; discriminate].
    rewrite Hq in C. destruct (above_dirish q Hqne Hqp) as [E|E]; rewrite E in C; discriminate.
  - exfalso. destruct er; auto.
    + rewrite Hpath, has_reserved_app, Hrc in Hr. cbn in Hr.
      rewrite <- (removelast_last_app adj Hadj), has_reserved_snoc, Hpost in Hr. discriminate.
    + rewrite Hpath, forallb_app, Hpost, Bool.andb_false_r in Hv. discriminate.
Qed.

Lemma not_reserved_last : is_reserved rn (last p "") = false.
Proof.
  destruct p_facts as [Hp [_ Hr]]. rewrite has_reserved_parent in Hr by assumption.
  now apply Bool.orb_false_iff in Hr.
Qed.


Unset Default Proof Using.
End Step.

Theorem step_clean : forall A U e f s,
  tok A -> tok (tree_set A (d_path e) (d_after e)) ->
  uok U A -> uok U (tree_set A (d_path e) (d_after e)) ->
  leaf A (d_path e) = d_before e -> d_before e <> d_after e ->
  models A U f -> sinv s -> w_fs (s_w s) = f ->
  exists s', process_entry s e = PDone s' /\ sinv s'
    /\ models (tree_set A (d_path e) (d_after e)) U (w_fs (s_w s'))
    /\ s_stats s' = bump (s_stats s) e
    /\ s_changed s' = s_changed s ++ match d_after e with Some _ => [(d_path e, FWritten)] | None => [] end
    /\ s_deleted s' = s_deleted s ++ match d_after e with Some _ => [] | None => [d_path e] end.
Proof.
  intros A U [p b a] f s HtA HtA' HuA HuA' Hb Hab Hm Hs Hfs.
  set (e := mkD p b a) in *.
  pose proof (p_facts A U e HtA HtA' HuA HuA' Hb Hab) as [Hp [Hv Hr]]. pose proof Hs as [Hg [Hanc [Hprev Hprevr]]].
  pose proof (at_path A U e HtA HtA' HuA HuA' Hb Hab f Hm) as Hat.
  cbn [e d_path d_before d_after] in *.
  (* the whole result is determined: compute it, then use the generic invariant lemma *)
  assert (Hcomp : exists s', process_entry s e = PDone s' /\ models (tree_set A p a) U (w_fs (s_w s'))
    /\ s_stats s' = bump (s_stats s) e
    /\ s_changed s' = s_changed s ++ match a with Some _ => [(p, FWritten)] | None => [] end
    /\ s_deleted s' = s_deleted s ++ match a with Some _ => [] | None => [p] end).
  2:{ destruct Hcomp as [s' [E [Hm' R]]]. exists s'. split; [exact E|]. split; [|split; [exact Hm' | exact R]].
      pose proof (process_entry_spec rn s e (PDone s') E Hp Hs) as [_ [_ [_ [_ Hinv]]]]. exact Hinv. }
  unfold WcC.process_entry. cbn [e d_path d_before d_after s_prev s_w s_changed s_deleted s_stats].
  destruct (common_prefix p (s_prev s)) as [c adj] eqn:Ec.
  apply common_prefix_spec in Ec as [Hpath Hc].
  assert (Hdc : all_dirs f c = true) by (rewrite <- Hfs; eapply all_dirs_prefix; eauto).
  assert (Hrc : has_reserved c = false) by (eapply has_reserved_prefix_false; eauto).
  destruct adj as [|a0 adj'].
  { (* impossible: the path itself would be a directory of the cached chain *)
    exfalso. rewrite app_nil_r in Hpath. subst c.
    assert (Hd : lookup f p = Some EDir).
    { apply is_dir_lookup; auto. eapply all_dirs_spec; [exact Hdc | apply is_prefix_refl]. }
    rewrite Hat in Hd. destruct b as [[|]|]; cbn in Hd; discriminate. }
  set (adj := a0 :: adj') in *. assert (Hadj : adj <> []) by discriminate.
  assert (Hvc : forallb valid_name c = true).
  { rewrite Hpath, forallb_app in Hv. now apply Bool.andb_true_iff in Hv. }
  rewrite Hvc. cbn [negb].
  destruct (cpd_clean A U e HtA HtA' HuA HuA' Hb Hab f Hm s Hs Hfs c adj Hpath Hadj Hdc Hrc)
    as [w1 [E1 [Hg1 [Hd1 Hf1]]]].
  cbn [e d_path d_before d_after] in *. rewrite E1.
  (* the disk after the first stage, pointwise *)
  assert (Hf1p : lookup (w_fs w1) p = lookup f p).
  { destruct (Hf1 p) as [E|[_ [E _]]]; [exact E|]. rewrite is_strict_prefix_irrefl in E. discriminate. }
  assert (Hnrl : is_reserved rn (last p "") = false) by apply (not_reserved_last A U e HtA HtA' HuA HuA' Hb Hab f Hm s Hs Hfs).
  unfold WcC.entry_tail. cbn [e d_path d_before d_after s_w s_prev s_changed s_deleted s_stats].
  (* second stage *)
  assert (Hstage2 : exists w2, good w2 /\ all_dirs (w_fs w2) (parent p) = true
            /\ lookup (w_fs w2) p = None /\ (forall q, q <> p -> lookup (w_fs w2) q = lookup (w_fs w1) q)
            /\ (match b with
                | Some _ => remove_old_file w1 p
                | None => Done false w1
                end = Done (is_some b) (if is_some b then w2 else w1))
            /\ (if is_some b then True else can_create_new_file w1 p = Done true w2)).
  { destruct b as [vb|]; cbn [is_some].
    - destruct (remove_old_file w1 p) as [[|] w2|er w2] eqn:E2;
        apply remove_old_file_spec in E2; auto; destruct E2 as [Hg2 [_ Hpost2]]; cbn [res_world] in *.
      + destruct Hpost2 as [_ [_ Hu]]. exists w2.
        split; [exact Hg2|]. split; [erewrite upd_parent_dirs; eauto|].
        split; [apply (upd_same _ _ _ _ Hu)|].
        split; [intros q Hq; eapply upd_other; eauto|]. split; [reflexivity | exact I].
      + exfalso. destruct Hpost2 as [_ [E|[E _]]]; rewrite Hf1p, Hat in E; cbn in E.
        * discriminate.
        * destruct vb; discriminate.
      + exfalso. destruct er; auto. destruct Hpost2 as [_ [_ E]]. rewrite Hnrl in E. discriminate.
    - assert (Hnone : lookup (w_fs w1) p = None) by (rewrite Hf1p, Hat; reflexivity).
      cbn in Hat.
      destruct (can_create_new_file w1 p) as [[|] w2|er w2] eqn:E2;
        apply can_create_new_file_spec in E2; auto; destruct E2 as [Hg2 [_ [Hsame Hpost2]]]; cbn [res_world] in *.
      + exists w2. split; [exact Hg2|].
        split; [rewrite <- Hd1; apply all_dirs_ext; auto|].
        split; [now rewrite Hsame|]. split; [intros q Hq; apply Hsame|]. split; reflexivity.
      + exfalso. destruct Hpost2 as [E _]. congruence.
      + exfalso. destruct er; auto. rewrite Hnrl in Hpost2. discriminate. }
  destruct Hstage2 as [w2 [Hg2 [Hd2 [Hn2 [Ho2 [Er1 Er2]]]]]]. rewrite Er1.
  assert (Hr2 : (if is_some b then Done true (if is_some b then w2 else w1)
                 else can_create_new_file (if is_some b then w2 else w1) p) = Done true w2).
  { destruct (is_some b); [reflexivity | exact Er2]. }
  rewrite Hr2. clear Er1 Er2 Hr2.
  (* the disk after the second stage *)
  assert (Hf2 : forall q, q <> p -> lookup (w_fs w2) q = lookup f q
                 \/ (q <> [] /\ is_strict_prefix q p = true /\ lookup (w_fs w2) q = Some EDir)).
  { intros q Hq. rewrite (Ho2 q Hq). apply Hf1. }
  assert (Hdirs2 : forall q, q <> [] -> is_strict_prefix q p = true -> lookup (w_fs w2) q = Some EDir).
  { intros q Hq Hqp. apply (strict_prefix_is_dir_after A U e HtA HtA' HuA HuA' Hb Hab f Hm s Hs Hfs); auto. }
  destruct a as [[cc x|t]|].
  - (* a regular file *)
    destruct (write_file w2 p cc x) as [u w3|er w3] eqn:E3;
      apply write_file_spec in E3; auto; destruct E3 as [Hg3 [_ Hpost3]]; cbn [res_world] in *.
    2:{ exfalso. destruct Hpost3 as [_ E]. congruence. }
    destruct Hpost3 as [_ Hu]. eexists. split; [reflexivity|]. cbn [s_w s_stats s_changed s_deleted].
    split; [|rewrite app_nil_r; auto].
    apply (models_written A U e HtA HtA' HuA HuA' Hb Hab f Hm (TFile cc x) (w_fs w3) eq_refl).
    + apply (upd_same _ _ _ _ Hu).
    + intros q Hq Hqp. rewrite (upd_other _ _ _ _ _ Hu); auto.
      intros ->. cbn in Hqp. rewrite is_strict_prefix_irrefl in Hqp. discriminate.
    + intros q Hq Hcase. cbn in Hq. rewrite (upd_other _ _ _ _ _ Hu) by assumption.
      destruct (Hf2 q Hq) as [E|[Hx [Hy _]]]; [exact E|]. destruct Hcase; cbn in *; congruence.
  - (* a symbolic link *)
    destruct (write_symlink w2 p t) as [u w3|er w3] eqn:E3;
      apply write_symlink_spec in E3; auto; destruct E3 as [Hg3 [_ Hpost3]]; cbn [res_world] in *.
    2:{ exfalso. destruct Hpost3 as [_ E]. congruence. }
    destruct Hpost3 as [_ Hu]. eexists. split; [reflexivity|]. cbn [s_w s_stats s_changed s_deleted].
    split; [|rewrite app_nil_r; auto].
    apply (models_written A U e HtA HtA' HuA HuA' Hb Hab f Hm (TSym t) (w_fs w3) eq_refl).
    + apply (upd_same _ _ _ _ Hu).
    + intros q Hq Hqp. rewrite (upd_other _ _ _ _ _ Hu); auto.
      intros ->. cbn in Hqp. rewrite is_strict_prefix_irrefl in Hqp. discriminate.
    + intros q Hq Hcase. cbn in Hq. rewrite (upd_other _ _ _ _ _ Hu) by assumption.
      destruct (Hf2 q Hq) as [E|[Hx [Hy _]]]; [exact E|]. destruct Hcase; cbn in *; congruence.
  - (* a removal *)
    destruct b as [vb|]; [|congruence].
    assert (Hanc2 : exists x0, lookup (w_fs w2) [x0] <> None /\ is_prefix [x0] (rev (rev (parent p))) = false).
    { destruct Hanc as [x0 [Hx1 Hx2]]. exists x0. rewrite rev_involutive. split.
      - assert (Hx0p : [x0] <> p).
        { intros E. rewrite <- E in Hr. unfold WcC.has_reserved in Hr. cbn in Hr. rewrite Hx1 in Hr. discriminate. }
        destruct (Hf2 [x0] Hx0p) as [E|[_ [_ E]]]; [rewrite E, <- Hfs; exact Hx2 | congruence].
      - apply (anchor_not_prefix rn); auto. eapply has_reserved_prefix_false; [|exact Hr].
        apply is_strict_prefix_prefix. now apply parent_is_strict_prefix. }
    destruct (prune_rev_exact (rev (parent p)) w2 Hg2) as [w3 [E3 [Hg3 [HA HB]]]];
      try (now rewrite rev_involutive); auto.
    rewrite rev_involutive in HA, HB. rewrite E3.
    eexists. split; [reflexivity|]. cbn [s_w s_stats s_changed s_deleted].
    split; [|rewrite app_nil_r; auto].
    apply (models_removed A U e HtA HtA' HuA HuA' Hb Hab f Hm vb (w_fs w2) (w_fs w3) eq_refl eq_refl); auto.
    intros q. cbn [e d_path]. destruct (path_eqb p q) eqn:Eq.
    + apply path_eqb_spec in Eq. subst q. exact Hn2.
    + assert (Hq : q <> p) by (intros ->; rewrite path_eqb_refl in Eq; discriminate).
      destruct (Hf2 q Hq) as [E|[Hx [Hy Hz]]]; [exact E|].
      (* the parents of a tracked file were directories already *)
      rewrite Hz. symmetry. rewrite Hm. eapply expected_dir_above; eauto.
      rewrite <- Hm, Hat. cbn. discriminate.
Qed.

End WithReserved.
