(** C01, part 4: meaning of every conjunct of the boolean checker [C01.okb] that the
    harness applies to the implementation's outputs. *)
From Verif Require Import Base.Prelude Model.Merge Model.C01 Proofs.MergeDen Proofs.C01
  Proofs.C01Simp Proofs.C01Deep.
From Coq Require Import Lia Arith.
Local Open Scope Z_scope.

Section Checker.
  Context {T : Type} (eqb : T -> T -> bool).
  Hypothesis eqb_spec : forall x y, eqb x y = true <-> x = y.

  Lemma eqb_refl' x : eqb x x = true.
  Proof. now apply eqb_spec. Qed.

  Lemma option_eqb_spec (a b : option T) : option_eqb eqb a b = true <-> a = b.
  Proof.
    destruct a, b; cbn; split; try congruence; try discriminate.
    - intros H. apply eqb_spec in H. now subst.
    - intros H. injection H as ->. apply eqb_refl'.
  Qed.

  Lemma list_eqb_spec (l1 l2 : list T) : list_eqb eqb l1 l2 = true <-> l1 = l2.
  Proof.
    revert l2; induction l1 as [|x t IH]; intros [|y u]; cbn; split; try congruence; try discriminate.
    - intros H. apply andb_prop in H as [A B]. apply eqb_spec in A. apply IH in B. now subst.
    - intros H. injection H as -> ->. rewrite eqb_refl'. now apply IH.
  Qed.

  (** ** disjointness *)
  Lemma mem_spec x l : mem eqb x l = true <-> In x l.
  Proof.
    unfold mem. rewrite existsb_exists. split.
    - intros (y & Hy & E). apply eqb_spec in E. now subst.
    - intros H. exists x. split; [exact H|apply eqb_refl'].
  Qed.

  Lemma disjointb_spec l :
    disjointb eqb l = true <-> forall v, In v (adds l) -> ~ In v (removes l).
  Proof.
    unfold disjointb, adds, removes. rewrite forallb_forall. split.
    - intros H v Ha Hr. specialize (H v Ha). apply Bool.negb_true_iff in H.
      apply mem_spec in Hr. congruence.
    - intros H v Ha. apply Bool.negb_true_iff. destruct (mem eqb v (odds l)) eqn:E; [|reflexivity].
      apply mem_spec in E. exfalso. exact (H v Ha E).
  Qed.

  (** ** flatten *)
  Lemma den_nested_s_notin s mm v : ~ In v (concat mm) -> den_nested_s eqb s mm v = 0.
  Proof.
    revert s; induction mm as [|m t IH]; intros s H; [reflexivity|].
    cbn [den_nested_s concat] in *. rewrite IH by (intros C; apply H, in_or_app; auto).
    unfold Merge.den. rewrite (den_s_notin eqb eqb_spec) by (intros C; apply H, in_or_app; auto).
    destruct s; reflexivity.
  Qed.

  Lemma flat_den_okb_spec flat nested :
    flat_den_okb eqb flat nested = true <-> forall v, den eqb flat v = den_nested eqb nested v.
  Proof.
    unfold flat_den_okb. rewrite forallb_forall. split.
    - intros H v. destruct (in_dec (eq_dec_of_eqb eqb eqb_spec) v (flat ++ concat nested)) as [I|I].
      + now apply Z.eqb_eq, H.
      + unfold den_nested, Merge.den.
        rewrite (den_s_notin eqb eqb_spec) by (intros C; apply I, in_or_app; auto).
        rewrite den_nested_s_notin by (intros C; apply I, in_or_app; auto). reflexivity.
    - intros H v _. apply Z.eqb_eq, H.
  Qed.

  Lemma wdeep3_notin (n3 : list (list (list T))) v :
    ~ In v (concat (concat n3)) -> wdeep eqb 3 v n3 = 0.
  Proof.
    intros H. cbn [wdeep]. apply sden_zero. intros mm Hmm. apply sden_zero. intros m Hm.
    apply sden_zero. intros x Hx. destruct (eqb x v) eqn:E; [|reflexivity].
    apply eqb_spec in E. subst x. exfalso. apply H.
    apply in_concat. exists m. split; [|exact Hx]. apply in_concat. exists mm. auto.
  Qed.

  Lemma flat3_den_okb_spec flat n3 :
    flat3_den_okb eqb flat n3 = true <-> forall v, den eqb flat v = wdeep eqb 3 v n3.
  Proof.
    unfold flat3_den_okb. rewrite forallb_forall. split.
    - intros H v. destruct (in_dec (eq_dec_of_eqb eqb eqb_spec) v (flat ++ concat (concat n3))) as [I|I].
      + now apply Z.eqb_eq, H.
      + unfold Merge.den. rewrite (den_s_notin eqb eqb_spec) by (intros C; apply I, in_or_app; auto).
        rewrite wdeep3_notin by (intros C; apply I, in_or_app; auto). reflexivity.
    - intros H v _. apply Z.eqb_eq, H.
  Qed.

  (** ** the mapping *)
  Lemma nodupb_spec (l : list nat) : nodupb l = true <-> NoDup l.
  Proof.
    induction l as [|x t IH]; cbn [nodupb]; [split; [constructor|reflexivity]|].
    rewrite Bool.andb_true_iff, Bool.negb_true_iff, IH. split.
    - intros [A B]. constructor; [|exact B]. intros C.
      assert (existsb (Nat.eqb x) t = true); [|congruence].
      apply existsb_exists. exists x. split; [exact C|apply Nat.eqb_refl].
    - intros H. inversion H as [|? ? A B]; subst. split; [|exact B].
      destruct (existsb (Nat.eqb x) t) eqn:E; [|reflexivity].
      apply existsb_exists in E as (y & Hy & Exy). apply Nat.eqb_eq in Exy. subst. contradiction.
  Qed.

  Lemma map_okb_from_spec (m s : list T) mp : forall j,
    map_okb_from eqb m s j mp = true <->
    forall k i, nth_error mp k = Some i ->
      (i < length m)%nat /\ Nat.even i = Nat.even (j + k) /\ nth_error s (j + k) = nth_error m i.
  Proof.
    induction mp as [|i0 t IH]; intros j; cbn [map_okb_from].
    - split; [intros _ k i H; now destruct k|reflexivity].
    - rewrite !Bool.andb_true_iff, IH, Nat.ltb_lt, Bool.eqb_true_iff, option_eqb_spec. split.
      + intros [[[A B] C] D] k i H. destruct k as [|k].
        * cbn in H. injection H as <-. rewrite Nat.add_0_r. auto.
        * cbn [nth_error] in H. replace (j + S k)%nat with (S j + k)%nat by lia. apply (D k i H).
      + intros H. split; [|intros k i Hk; replace (S j + k)%nat with (j + S k)%nat by lia; apply (H (S k) i Hk)].
        destruct (H 0%nat i0 eq_refl) as (A & B & C). rewrite Nat.add_0_r in B, C. auto.
  Qed.

  Definition mapping_ok (m s : list T) (mp : list nat) : Prop :=
    length mp = length s /\ NoDup mp /\
    forall j i, nth_error mp j = Some i ->
      (i < length m)%nat /\ Nat.even i = Nat.even j /\ nth_error s j = nth_error m i.

  Lemma mapping_okb_spec m s mp : mapping_okb eqb m s mp = true <-> mapping_ok m s mp.
  Proof.
    unfold mapping_okb, mapping_ok.
    rewrite !Bool.andb_true_iff, Nat.eqb_eq, nodupb_spec, map_okb_from_spec. cbn [Nat.add]. tauto.
  Qed.

  (** ** the write-back *)
  Lemma index_of_some i l : forall j, index_of i l = Some j -> nth_error l j = Some i.
  Proof.
    induction l as [|x t IH]; intros j H; [discriminate|]. cbn [index_of] in H.
    destruct (Nat.eqb x i) eqn:E.
    - injection H as <-. apply Nat.eqb_eq in E. now subst.
    - destruct (index_of i t) as [j'|]; [|discriminate]. cbn in H. injection H as <-. now apply IH.
  Qed.

  Lemma index_of_none i l : index_of i l = None <-> ~ In i l.
  Proof.
    induction l as [|x t IH]; cbn [index_of]; [split; auto|].
    destruct (Nat.eqb x i) eqn:E.
    - apply Nat.eqb_eq in E. subst. split; [discriminate|]. intros H. exfalso. apply H. now left.
    - apply Nat.eqb_neq in E. destruct (index_of i t) as [j|] eqn:F; cbn.
      + split; [discriminate|]. intros H. exfalso. apply H. right.
        eapply nth_error_In, index_of_some, F.
      + split; [|reflexivity]. intros _ [C|C]; [congruence|]. now apply IH in C.
  Qed.

  Lemma index_of_nodup i l : forall j,
    NoDup l -> nth_error l j = Some i -> index_of i l = Some j.
  Proof.
    induction l as [|x t IH]; intros j Hnd H; [now destruct j|].
    inversion Hnd as [|? ? Hn Hd]; subst. cbn [index_of]. destruct j as [|j].
    - cbn in H. injection H as ->. now rewrite Nat.eqb_refl.
    - cbn [nth_error] in H. destruct (Nat.eqb x i) eqn:E.
      + apply Nat.eqb_eq in E. subst. exfalso. apply Hn. eapply nth_error_In, H.
      + now rewrite (IH j Hd H).
  Qed.

  Definition lands (m : list T) (mp : list nat) (e u : list T) : Prop :=
    length u = length m /\ length e = length mp
    /\ (forall i, ~ In i mp -> nth_error u i = nth_error m i)
    /\ (forall j i, nth_error mp j = Some i -> nth_error u i = nth_error e j).

  Lemma landsb_spec m mp e u :
    NoDup mp -> (forall i, In i mp -> (i < length m)%nat) ->
    (landsb eqb m mp e u = true <-> lands m mp e u).
  Proof.
    intros Hnd Hrange. unfold landsb, lands.
    rewrite !Bool.andb_true_iff, !Nat.eqb_eq, forallb_forall. split.
    - intros [[A B] C]. repeat split; auto.
      + intros i Hi. destruct (Nat.lt_ge_cases i (length m)) as [L|G].
        * assert (Hin : In i (seq 0 (length m))) by (apply in_seq; lia).
          specialize (C i Hin). apply option_eqb_spec in C.
          apply index_of_none in Hi. now rewrite Hi in C.
        * rewrite (proj2 (nth_error_None m i) G). apply nth_error_None. lia.
      + intros j i Hj. assert (L : (i < length m)%nat) by (eapply Hrange, nth_error_In, Hj).
        assert (Hin : In i (seq 0 (length m))) by (apply in_seq; lia).
        specialize (C i Hin). apply option_eqb_spec in C.
        now rewrite (index_of_nodup i mp j Hnd Hj) in C.
    - intros (A & B & C & D). repeat split; auto. intros i Hin. apply option_eqb_spec.
      destruct (index_of i mp) as [j|] eqn:E.
      + apply D. now apply index_of_some.
      + apply C. now apply index_of_none.
  Qed.
End Checker.

(** ** multisets of changes *)
Lemma count_notin x l : ~ In x l -> count N.eqb x l = 0.
Proof.
  induction l as [|y t IH]; intros H; [reflexivity|]. cbn [count].
  rewrite IH by (intros C; apply H; now right).
  destruct (N.eqb y x) eqn:E; [|reflexivity]. apply N.eqb_eq in E. subst. exfalso. apply H. now left.
Qed.

Lemma multiset_eqb_spec l1 l2 :
  multiset_eqb l1 l2 = true <-> forall x, count N.eqb x l1 = count N.eqb x l2.
Proof.
  unfold multiset_eqb. rewrite forallb_forall. split.
  - intros H x. destruct (in_dec N.eq_dec x (l1 ++ l2)) as [I|I].
    + now apply Z.eqb_eq, H.
    + rewrite !count_notin; auto; intros C; apply I, in_or_app; auto.
  - intros H x _. apply Z.eqb_eq, H.
Qed.

Lemma N_eqb_spec' : forall x y : N, N.eqb x y = true <-> x = y.
Proof. exact N.eqb_eq. Qed.

(** ** the whole checker *)
Record C01_ok (c : case) : Prop := {
  ok_den : forall v, den N.eqb (c_m c) v = den N.eqb (c_simplified c) v;
  ok_arity : Nat.odd (length (c_simplified c)) = true;
  ok_disjoint : forall v, In v (adds (c_simplified c)) -> ~ In v (removes (c_simplified c));
  ok_idem : c_resimplified c = c_simplified c;
  ok_mapping : mapping_ok (c_m c) (c_simplified c) (map N.to_nat (c_mapping c));
  ok_flat : forall v, den N.eqb (c_flat c) v = den_nested N.eqb (c_nested c) v;
  ok_flat3 : forall v, den N.eqb (c_flat3 c) v = wdeep N.eqb 3 v (c_nested3 c);
  ok_lands : lands (c_m c) (map N.to_nat (c_mapping c)) (c_edit c) (c_updated c);
  ok_changes : forall x, count N.eqb x (changes (c_m c) (c_updated c))
                         = count N.eqb x (changes (c_simplified c) (c_edit c));
}.

Lemma okb_spec c : okb c = true <-> C01_ok c.
Proof.
  unfold okb. rewrite !Bool.andb_true_iff.
  rewrite (den_eqb_spec N.eqb N_eqb_spec'), (disjointb_spec N.eqb N_eqb_spec'),
    (mapping_okb_spec N.eqb N_eqb_spec'), (flat_den_okb_spec N.eqb N_eqb_spec'),
    (flat3_den_okb_spec N.eqb N_eqb_spec'),
    multiset_eqb_spec.
  unfold leqb. rewrite (list_eqb_spec N.eqb N_eqb_spec').
  split.
  - intros [[[[[[[[A B] C] D] E] F] F3] G] H]. destruct E as (E1 & E2 & E3).
    apply (landsb_spec N.eqb N_eqb_spec') in G; auto.
    + constructor; auto. split; [exact E1|split; [exact E2|exact E3]].
    + intros i Hi. apply In_nth_error in Hi as [j Hj]. now destruct (E3 j i Hj).
  - intros [A B C D E F F3 G H]. destruct E as (E1 & E2 & E3).
    split; [split; [split; [split; [split; [split; [split; [split|]|]|]|]|]|]|]; auto.
    + split; [exact E1|split; [exact E2|exact E3]].
    + apply (landsb_spec N.eqb N_eqb_spec'); auto.
      intros i Hi. apply In_nth_error in Hi as [j Hj]. now destruct (E3 j i Hj).
Qed.
