(** Equal inputs receive equal ranges in every unchanged region (hence equal slices in every
    hunk), provided the matching function returns valid matchings and the identity matching
    on identical token lists. This is the key lemma of the file-merge laws (C04). *)
From Coq Require Import Lia Arith Sorted.
From Verif Require Import Base.Prelude Model.Diff
     Proofs.DiffBase Proofs.DiffA Proofs.DiffA2 Proofs.DiffA3.

Definition eqsides (ins : list bytes) (r : region) : Prop :=
  forall i j, i < length ins -> j < length ins -> nth i ins [] = nth j ins [] ->
              nth i r (0, 0) = nth j r (0, 0).

Lemma matching_inj l b o o' : StronglySorted lt2 l -> In (b, o) l -> In (b, o') l -> o = o'.
Proof.
  induction 1 as [|p l S IH F]; intros H1 H2; [destruct H1|].
  rewrite Forall_forall in F. destruct H1 as [H1|H1], H2 as [H2|H2].
  - congruence.
  - subst p. destruct (F _ H2) as (A & _). cbn in A. lia.
  - subst p. destruct (F _ H1) as (A & _). cbn in A. lia.
  - auto.
Qed.

Lemma identity_in n b o : In (b, o) (identity_matching n) -> o = b.
Proof. unfold identity_matching. rewrite in_map_iff. intros (i & E & _). congruence. Qed.

Lemma eqsides_merge ins a b :
  length a = length ins -> length b = length ins ->
  eqsides ins a -> eqsides ins b -> eqsides ins (merge_region a b).
Proof.
  intros La Lb Ha Hb i j Hi Hj E. unfold merge_region.
  rewrite (map2_nth _ a b i (0, 0) (0, 0)), (map2_nth _ a b j (0, 0) (0, 0)) by lia.
  now rewrite (Ha i j Hi Hj E), (Hb i j Hi Hj E).
Qed.

Lemma nth_map_default {A B} (g : A -> B) l i d d' :
  i < length l -> nth i (map g l) d' = g (nth i l d).
Proof.
  intros H. rewrite (nth_indep _ d' (g d)) by now rewrite map_length. apply map_nth.
Qed.

Lemma eqsides_point ins (f : bytes -> nat) : eqsides ins (map (fun x => (f x, f x)) ins).
Proof.
  intros i j Hi Hj E. rewrite !(nth_map_default _ ins _ []) by assumption. now rewrite E.
Qed.

Lemma contents_nth (inputs : list bytes) (r : region) i :
  i < length inputs -> i < length r ->
  nth i (contents inputs r) [] = slice (nth i inputs []) (fst (nth i r (0, 0))) (snd (nth i r (0, 0))).
Proof.
  intros H1 H2. unfold contents.
  apply (map2_nth (fun (x : bytes) (rg : nat * nat) => slice x (fst rg) (snd rg)) inputs r i [] (0, 0) []);
    assumption.
Qed.

Lemma between_nth (p c : region) i :
  i < length p -> i < length c ->
  nth i (between p c) (0, 0) = (snd (nth i p (0, 0)), fst (nth i c (0, 0))).
Proof.
  intros H1 H2. unfold between.
  apply (map2_nth (fun p0 c0 : nat * nat => (snd p0, fst c0)) p c i (0, 0) (0, 0) (0, 0)); assumption.
Qed.

Lemma Forall2_nth_r {A B} (R : A -> B -> Prop) la lb i b da :
  Forall2 R la lb -> nth_error lb i = Some b -> R (nth i la da) b.
Proof.
  intros H; revert i; induction H as [|x y la lb H Hs IH]; intros i Hy; [destruct i; discriminate|].
  destruct i as [|i]; cbn [nth_error nth] in *; [injection Hy as <-; exact H|now apply IH].
Qed.

Section Eqsides.
  Variable M : list bytes -> list bytes -> list (nat * nat).
  Hypothesis M_valid : forall a b, valid_matching (length a) (length b) (M a b).
  Hypothesis M_self : forall a, M a a = identity_matching (length a).

  Definition Q (ins : list bytes) (r : region) : Prop := length r = length ins /\ eqsides ins r.

  Lemma Q_merge ins a b : Q ins a -> Q ins b -> adjb a b = true -> Q ins (merge_region a b).
  Proof.
    intros (La & Ha) (Lb & Hb) _. split; [rewrite merge_length; lia|now apply eqsides_merge].
  Qed.

  (** Every position of an entry is the partner of its base position in the matching of the
      corresponding input. *)
  Definition entries_in (bw : list bytes) (wof : bytes -> list bytes) (others : list bytes)
             (es : list entry) : Prop :=
    Forall (fun e => Forall2 (fun o x => In (fst e, o) (M bw (wof x))) (snd e) others) es.

  Lemma intersect_entries_in bw wof others o cur :
    entries_in bw wof others cur ->
    entries_in bw wof (others ++ [o]) (intersect cur (M bw (wof o))).
  Proof.
    intros Hc. apply Forall_forall. intros e He. apply intersect_in in He.
    destruct He as (os & no & A & B & C). unfold entries_in in Hc. rewrite Forall_forall in Hc.
    specialize (Hc _ B). cbn [fst snd] in Hc. rewrite A. apply Forall2_app; [assumption|].
    constructor; [assumption|constructor].
  Qed.

  Lemma diff_regions_Q tok cmp ins : ins <> [] -> Forall (Q ins) (diff_regions M tok cmp ins).
  Proof.
    destruct ins as [|base others]; [congruence|]. intros _. unfold diff_regions.
    set (any_empty := existsb is_nil (base :: others)).
    set (ranges_of := fun x : bytes => if any_empty then [] else tokenize tok x).
    destruct others as [|first tail].
    - apply compact_Forall; [apply Q_merge|]. constructor; [|constructor]. split; [reflexivity|].
      intros i j Hi Hj _. cbn in Hi, Hj. now replace i with 0 by lia; replace j with 0 by lia.
    - set (others := first :: tail) in *.
      set (wof := fun o : bytes => words cmp o (ranges_of o)).
      set (bw := wof base).
      set (entries := fold_left _ tail _).
      assert (He : entries_in bw wof others entries).
      { unfold entries, others.
        assert (Gn : forall tl done es,
                   entries_in bw wof done es ->
                   entries_in bw wof (done ++ tl)
                              (fold_left (fun cur o => intersect cur (M bw (wof o))) tl es)).
        { induction tl as [|o tl IH]; intros done es H; cbn [fold_left].
          - now rewrite app_nil_r.
          - replace (done ++ o :: tl) with ((done ++ [o]) ++ tl) by now rewrite <- app_assoc.
            apply IH. now apply intersect_entries_in. }
        apply (Gn tail [first]). unfold entries_in. apply Forall_map. apply Forall_forall.
        intros p Hp. cbn [fst snd]. constructor; [|constructor]. now destruct p. }
      apply compact_Forall; [apply Q_merge|].
      cbn [app]. change (if any_empty then [] else tokenize tok base) with (ranges_of base).
      constructor; [|apply Forall_app; split].
      + split; [now rewrite map_length|]. apply (eqsides_point (base :: others) (fun _ => 0)).
      + apply Forall_map. apply Forall_forall. intros e Hin.
        unfold entries_in in He. rewrite Forall_forall in He. specialize (He e Hin).
        assert (Le : length (snd e) = length others) by (eapply Forall2_length'; eauto).
        split.
        * unfold region_of. cbn [length]. rewrite map2_length, map_length. lia.
        * (* positions of equal inputs coincide *)
          assert (Pos : forall i x, nth_error others i = Some x ->
                                    In (fst e, nth i (snd e) 0) (M bw (wof x))).
          { intros i x Hx. apply (Forall2_nth_r _ _ _ _ _ 0 He Hx). }
          assert (Rg : forall i, i < length others ->
                     nth (S i) (region_of (ranges_of base) (map ranges_of others) e) (0, 0)
                     = range_at (ranges_of (nth i others [])) (nth i (snd e) 0)).
          { intros i Hi. unfold region_of. cbn [nth].
            rewrite (map2_nth _ (map ranges_of others) (snd e) i [] 0 (0, 0)).
            - f_equal. now apply nth_map_default.
            - now rewrite map_length.
            - lia. }
          assert (Vm : forall x, StronglySorted lt2 (M bw (wof x))) by (intros x; apply M_valid).
          intros i j Hi Hj E. cbn [length] in Hi, Hj.
          destruct i as [|i], j as [|j]; [reflexivity| | |].
          -- (* base against other j *)
            cbn [nth] in E. rewrite Rg by lia. unfold region_of. cbn [nth].
            assert (Hx : nth_error others j = Some (nth j others [])) by (apply nth_error_nth'; lia).
            pose proof (Pos _ _ Hx) as P. rewrite <- E in P. fold bw in P.
            unfold bw in P at 2. rewrite M_self in P. apply identity_in in P. rewrite P, <- E. reflexivity.
          -- cbn [nth] in E. rewrite Rg by lia. unfold region_of. cbn [nth].
            assert (Hx : nth_error others i = Some (nth i others [])) by (apply nth_error_nth'; lia).
            pose proof (Pos _ _ Hx) as P. rewrite E in P. fold bw in P.
            unfold bw in P at 2. rewrite M_self in P. apply identity_in in P. rewrite P, E. reflexivity.
          -- cbn [nth] in E. rewrite !Rg by lia.
            assert (Hx : nth_error others i = Some (nth i others [])) by (apply nth_error_nth'; lia).
            assert (Hy : nth_error others j = Some (nth j others [])) by (apply nth_error_nth'; lia).
            pose proof (Pos _ _ Hx) as P1. pose proof (Pos _ _ Hy) as P2. rewrite E in P1.
            rewrite (matching_inj _ _ _ _ (Vm _) P1 P2), E. reflexivity.
      + constructor; [|constructor]. split; [now rewrite map_length|].
        apply (eqsides_point (base :: others) (@length N)).
  Qed.

  Lemma eqsides_shift ins u cur r :
    length u = length ins -> length cur = length ins -> length r = length ins ->
    eqsides ins u -> eqsides ins cur -> eqsides (contents ins (between u cur)) r ->
    eqsides ins (shift_region u r).
  Proof.
    intros Lu Lc Lr Hu Hc Hr i j Hi Hj E.
    assert (Lii : length (contents ins (between u cur)) = length ins).
    { unfold contents. rewrite map2_length, between_length by lia. unfold bytes in *. lia. }
    assert (Eii : nth i (contents ins (between u cur)) [] = nth j (contents ins (between u cur)) []).
    { rewrite !contents_nth by (try rewrite between_length; unfold bytes in *; lia).
      rewrite !between_nth by (unfold bytes in *; lia).
      cbn [fst snd]. now rewrite E, (Hu i j Hi Hj E), (Hc i j Hi Hj E). }
    assert (Er : nth i r (0, 0) = nth j r (0, 0)) by (apply Hr; try rewrite Lii; assumption).
    unfold shift_region.
    rewrite (map2_nth _ r u i (0, 0) (0, 0)), (map2_nth _ r u j (0, 0) (0, 0))
      by (unfold bytes in *; lia).
    now rewrite Er, (Hu i j Hi Hj E).
  Qed.

  Lemma refine_go_Q tok cmp ins : ins <> [] -> forall rest u,
    Q ins u -> Forall (Q ins) rest ->
    Forall (Q ins) (refine_go M tok cmp ins u rest).
  Proof.
    intros Hne. induction rest as [|cur rest' IH]; intros u Hu HP; cbn [refine_go]; [constructor|].
    inversion HP as [|? ? Pc Pr]; subst. destruct Hu as (Lu & Eu). destruct Pc as (Lc & Ec).
    apply Forall_app. split; [|constructor; [now split|apply IH; [now split|assumption]]].
    set (ii := contents ins (between u cur)).
    assert (Lii : length ii = length ins).
    { unfold ii, contents. rewrite map2_length, between_length by lia. unfold bytes in *. lia. }
    assert (Hii : ii <> []) by (destruct ii; [destruct ins; [congruence|discriminate]|discriminate]).
    pose proof (diff_regions_Q tok cmp ii Hii) as IQ.
    apply Forall_map. rewrite Forall_forall in *. intros r Hr. destruct (IQ r Hr) as (Lr & Er).
    split.
    - rewrite shift_length; lia.
    - apply (eqsides_shift ins u cur r); auto; lia.
  Qed.

  Lemma refine_Q tok cmp ins l :
    ins <> [] -> Forall (Q ins) l -> Forall (Q ins) (refine M tok cmp ins l).
  Proof.
    intros Hne HP. destruct l as [|u0 rest]; [constructor|]. unfold refine. inversion HP; subst.
    apply compact_Forall; [apply Q_merge|]. constructor; [assumption|]. now apply refine_go_Q.
  Qed.

  Lemma run_steps_Q s ins : ins <> [] -> Forall (Q ins) (run_steps M s ins).
  Proof.
    intros Hne. destruct s as [|[t c0] rest]; [constructor|]. unfold run_steps.
    pose proof (diff_regions_Q t c0 ins Hne) as H0. revert H0.
    generalize (diff_regions M t c0 ins). induction rest as [|[t' c'] rest IH];
      intros l Hl; cbn [fold_left fst snd]; [exact Hl|].
    apply IH. now apply refine_Q.
  Qed.

  Lemma hunks_from_Q ins : forall l prev, Q ins prev -> Forall (Q ins) l ->
    Forall (fun h => Q ins (snd h)) (hunks_from prev l).
  Proof.
    induction l as [|cur t IH]; intros prev Hp Hl; cbn [hunks_from]; [constructor|].
    inversion Hl as [|? ? Hc Ht]; subst. destruct Hp as (Lp & Ep). destruct Hc as (Lc & Ec).
    constructor; [|apply Forall_app; split].
    - cbn [snd]. split; [rewrite between_length; lia|].
      intros i j Hi Hj E. rewrite !between_nth by (unfold bytes in *; lia).
      now rewrite (Ep i j Hi Hj E), (Ec i j Hi Hj E).
    - destruct (all_emptyb cur); constructor; [|constructor]. now split.
    - apply IH; [now split|assumption].
  Qed.

  (** Equal inputs receive equal slices in every hunk. *)
  Theorem hunks_equal_slices s ins :
    ins <> [] ->
    forall h, In h (hunks (run_steps M s ins)) ->
    length (snd h) = length ins
    /\ forall i j, i < length ins -> j < length ins -> nth i ins [] = nth j ins [] ->
                   nth i (contents ins (snd h)) [] = nth j (contents ins (snd h)) [].
  Proof.
    intros Hne h Hh. pose proof (run_steps_Q s ins Hne) as HQ.
    assert (QH : Forall (fun h => Q ins (snd h)) (hunks (run_steps M s ins))).
    { destruct (run_steps M s ins) as [|u0 rest]; [constructor|]. inversion HQ; subst. cbn [hunks].
      apply Forall_app. split; [|now apply hunks_from_Q].
      destruct (all_emptyb u0); constructor; [|constructor]. assumption. }
    rewrite Forall_forall in QH. destruct (QH h Hh) as (L & E). split; [assumption|].
    intros i j Hi Hj Eij. rewrite !contents_nth by (unfold bytes in *; lia).
    now rewrite Eij, (E i j Hi Hj Eij).
  Qed.
End Eqsides.
