(** C01, part 6: a conflict without a value that is both add and remove, whose net counts
    are those of a single value, IS that value; hence [simplify] resolves every conflict whose
    denotation is a single value (corollary used for per-path / per-hunk resolution). *)
From Verif Require Import Base.Prelude Model.Merge Proofs.MergeDen Proofs.C01 Proofs.C01Simp.
From Coq Require Import Lia Arith.
Local Open Scope Z_scope.

Section C01Resolved.
  Context {T : Type} (eqb : T -> T -> bool).
  Hypothesis eqb_spec : forall x y, eqb x y = true <-> x = y.

  Lemma evens_cons' (x : T) t : evens (x :: t) = x :: odds t.
  Proof. reflexivity. Qed.
  Lemma odds_cons' (x : T) t : odds (x :: t) = evens t.
  Proof. reflexivity. Qed.

  Lemma den_count_gen (l : list T) v :
    den eqb l v = count eqb v (adds l) - count eqb v (removes l).
  Proof.
    unfold Merge.den, adds, removes.
    assert (H : forall s, den_s eqb s l v = sg s * (count eqb v (evens l) - count eqb v (odds l))).
    { induction l as [|x t IH]; intros s; [cbn; lia|].
      rewrite den_s_cons, IH, evens_cons', odds_cons'. cbn [count]. unfold ind.
      destruct (eqb x v), s; cbn [sg negb]; lia. }
    rewrite H. cbn [sg]. lia.
  Qed.

  Lemma count_notin_gen v (l : list T) : ~ In v l -> count eqb v l = 0.
  Proof.
    induction l as [|y t IH]; intros H; [reflexivity|]. cbn [count].
    rewrite IH by (intros C; apply H; now right).
    destruct (eqb y v) eqn:E; [|reflexivity]. apply eqb_spec in E. subst. exfalso. apply H. now left.
  Qed.

  Lemma count_in_pos v (l : list T) : In v l -> 0 < count eqb v l.
  Proof.
    induction l as [|y t IH]; intros H; [destruct H|]. cbn [count].
    assert (N : 0 <= count eqb v t).
    { clear. induction t as [|z u IHu]; cbn [count]; [lia|]. destruct (eqb z v); lia. }
    destruct H as [->|H].
    - rewrite (proj2 (eqb_spec v v) eq_refl). lia.
    - specialize (IH H). destruct (eqb y v); lia.
  Qed.

  Lemma length_evens_S (l : list T) :
    Nat.odd (length l) = true -> length (evens l) = S (length (odds l)).
  Proof.
    assert (H : forall l : list T,
              (Nat.odd (length l) = true -> length (evens l) = S (length (odds l)))
              /\ (Nat.even (length l) = true -> length (evens l) = length (odds l))).
    { induction l0 as [|h t [A B]]; [split; [discriminate|reflexivity]|].
      rewrite evens_cons', odds_cons'. cbn [length]. rewrite Nat.odd_succ, Nat.even_succ.
      split; intros E; [now rewrite (B E)|now rewrite (A E)]. }
    apply H.
  Qed.

  Theorem simplified_single (m : list T) (v : T) :
    Nat.odd (length m) = true ->
    (forall a, In a (adds m) -> ~ In a (removes m)) ->
    (forall w, den eqb m w = if eqb v w then 1 else 0) ->
    m = [v].
  Proof.
    intros Hodd Hdis Hden.
    assert (Hr : removes m = []).
    { remember (removes m) as rs eqn:E. destruct rs as [|r t]; [reflexivity|]. exfalso.
      assert (Ir : In r (removes m)) by (rewrite <- E; now left).
      assert (Na : ~ In r (adds m)) by (intros C; apply (Hdis r C); now left).
      pose proof (Hden r) as D. rewrite den_count_gen, (count_notin_gen r _ Na) in D.
      pose proof (count_in_pos r _ Ir). destruct (eqb v r); lia. }
    pose proof (length_evens_S m Hodd) as L. unfold removes in Hr. rewrite Hr in L. cbn in L.
    destruct m as [|a [|b t]]; try discriminate.
    pose proof (Hden a) as D. unfold Merge.den in D. cbn [den_s] in D.
    rewrite (proj2 (eqb_spec a a) eq_refl) in D.
    destruct (eqb v a) eqn:E; [apply eqb_spec in E; now subst|lia].
  Qed.

  (** [simplify] resolves every conflict whose denotation is a single value. *)
  Theorem simplify_resolves (m : list T) (v : T) :
    Nat.odd (length m) = true ->
    (forall w, den eqb m w = if eqb v w then 1 else 0) ->
    simplify eqb m = [v].
  Proof.
    intros Hodd Hden. apply simplified_single.
    - destruct (simplify_arity eqb eqb_spec m) as [E _].
      rewrite <- Nat.negb_even, E, Nat.negb_even. exact Hodd.
    - intros a. now apply (simplified_disjoint eqb eqb_spec).
    - intros w. rewrite (simplify_den eqb eqb_spec). apply Hden.
  Qed.
End C01Resolved.
