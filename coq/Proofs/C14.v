(** C14 — proofs. The covering invariant (DESIGN A.4): the downward closure [Cov] of the heads
    directory never shrinks, whatever the interleaving, with or without a working lock and
    even when directory reads return arbitrary sets of stored operation ids. *)
From Verif Require Import Base.Prelude Base.SchedS Proofs.SchedS Model.C14.
From Coq Require Import Arith Lia.

(* ------------------------------------------------------------------ small list facts *)
Lemma memn_spec : forall x l, memn x l = true <-> In x l.
Proof.
  intros x l. unfold memn. rewrite existsb_exists. split.
  - intros [y [Hy He]]. apply Nat.eqb_eq in He. subst. exact Hy.
  - intros H. exists x. split; [exact H|apply Nat.eqb_refl].
Qed.

Lemma In_insert : forall n l x, In x (insert n l) <-> x = n \/ In x l.
Proof.
  intros n l x. induction l as [|h t IH]; simpl.
  - intuition.
  - destruct (n <? h) eqn:E1; simpl; [intuition|].
    destruct (n =? h) eqn:E2; simpl.
    + apply Nat.eqb_eq in E2. subst. intuition.
    + rewrite IH. intuition.
Qed.

Lemma NoDup_insert : forall n l, NoDup l -> ~ In n l -> NoDup (insert n l).
Proof.
  intros n l. induction l as [|h t IH]; intros Hnd Hn; simpl.
  - constructor; [intros []|constructor].
  - destruct (n <? h); [constructor; assumption|].
    destruct (n =? h); [assumption|].
    inversion Hnd; subst. constructor.
    + rewrite In_insert. intros [->|Hin]; [apply Hn; left; reflexivity|contradiction].
    + apply IH; [assumption|]. intros Hin. apply Hn. right. exact Hin.
Qed.

Lemma In_add_head : forall n l x, In x (add_head n l) <-> x = n \/ In x l.
Proof.
  intros n l x. unfold add_head. destruct (memn n l) eqn:E.
  - apply memn_spec in E. split; [auto|]. intros [->|H]; assumption.
  - apply In_insert.
Qed.

Lemma NoDup_add_head : forall n l, NoDup l -> NoDup (add_head n l).
Proof.
  intros n l H. unfold add_head. destruct (memn n l) eqn:E; [exact H|].
  apply NoDup_insert; [exact H|]. rewrite <- memn_spec. congruence.
Qed.

Lemma add_head_in : forall n l, In n l -> add_head n l = l.
Proof. intros n l H. unfold add_head. apply memn_spec in H. rewrite H. reflexivity. Qed.

Lemma In_remove_id : forall x l h, In h (remove_id x l) <-> In h l /\ h <> x.
Proof.
  intros x l h. unfold remove_id. rewrite filter_In. rewrite Bool.negb_true_iff, Nat.eqb_neq.
  reflexivity.
Qed.

Lemma NoDup_filter {A} (f : A -> bool) (l : list A) : NoDup l -> NoDup (filter f l).
Proof.
  induction 1 as [|x l Hx Hnd IH]; simpl; [constructor|].
  destruct (f x); [constructor; [rewrite filter_In; tauto|exact IH]|exact IH].
Qed.

Lemma remove_id_notin : forall x l, ~ In x l -> remove_id x l = l.
Proof.
  intros x l. induction l as [|h t IH]; intros Hn; simpl; [reflexivity|].
  destruct (h =? x) eqn:E; simpl.
  - apply Nat.eqb_eq in E. subst. exfalso. apply Hn. left. reflexivity.
  - f_equal. apply IH. intros H. apply Hn. right. exact H.
Qed.

Lemma filter_len_le {A} (f : A -> bool) (l : list A) : length (filter f l) <= length l.
Proof. induction l as [|h t IH]; simpl; [lia|]. destruct (f h); simpl; lia. Qed.

Lemma remove_id_length_lt : forall x l, In x l -> length (remove_id x l) < length l.
Proof.
  intros x l. induction l as [|h t IH]; intros Hin; simpl; [destruct Hin|].
  destruct (h =? x) eqn:E; simpl.
  - unfold remove_id. pose proof (filter_len_le (fun h0 => negb (h0 =? x)) t). lia.
  - destruct Hin as [->|Hin]; [rewrite Nat.eqb_refl in E; discriminate|].
    specialize (IH Hin). unfold remove_id in *. lia.
Qed.

Lemma In_uniq : forall l x, In x (uniq l) <-> In x l.
Proof.
  induction l as [|h t IH]; intros x; simpl; [tauto|].
  rewrite In_insert, IH. intuition.
Qed.

Lemma nth_error_set_nth_eq {A} : forall (l : list A) n x,
  n < length l -> nth_error (set_nth n x l) n = Some x.
Proof.
  induction l as [|h t IH]; intros n x Hn; simpl in *; [lia|].
  destruct n; simpl; [reflexivity|]. apply IH. lia.
Qed.

Lemma Forall_set_nth {A} (P : A -> Prop) : forall (l : list A) n x,
  Forall P l -> P x -> Forall P (set_nth n x l).
Proof.
  induction l as [|h t IH]; intros n x Hl Hx; [destruct n; constructor|].
  inversion Hl; subst. destruct n; simpl; constructor; auto.
Qed.

Lemma length_set_nth {A} : forall (l : list A) n x, length (set_nth n x l) = length l.
Proof.
  induction l as [|h t IH]; intros n x; [destruct n; reflexivity|].
  destruct n; simpl; [reflexivity|]. f_equal. apply IH.
Qed.

(* ------------------------------------------------------------------ the DAG *)
Lemma parents_lt_len : forall g i p, In p (parents g i) -> i < length g.
Proof.
  intros g i p H. unfold parents in H.
  destruct (Nat.lt_ge_cases i (length g)) as [Hlt|Hge]; [exact Hlt|].
  rewrite nth_overflow in H by exact Hge. destruct H.
Qed.

Lemma parents_app_old : forall g l i, i < length g -> parents (g ++ l) i = parents g i.
Proof. intros g l i H. unfold parents. apply app_nth1. exact H. Qed.

Lemma parents_app_new : forall g ps, parents (g ++ [ps]) (length g) = ps.
Proof. intros g ps. unfold parents. rewrite app_nth2 by lia. rewrite Nat.sub_diag. reflexivity. Qed.

Lemma anc_app : forall g l x y, anc g x y -> anc (g ++ l) x y.
Proof.
  intros g l x y H. induction H as [x|x p y Hp _ IH].
  - apply anc_refl.
  - eapply anc_step; [|exact IH].
    rewrite parents_app_old; [exact Hp|]. eapply parents_lt_len. exact Hp.
Qed.

Lemma sanc_app : forall g l x y, sanc g x y -> sanc (g ++ l) x y.
Proof.
  intros g l x y [p [Hp Ha]]. exists p. split.
  - rewrite parents_app_old; [exact Hp|]. eapply parents_lt_len. exact Hp.
  - apply anc_app. exact Ha.
Qed.

Lemma anc_trans : forall g x y z, anc g x y -> anc g y z -> anc g x z.
Proof.
  intros g x y z Hxy Hyz. induction Hyz as [y|y p z Hp _ IH].
  - exact Hxy.
  - eapply anc_step; [exact Hp|]. apply IH. exact Hxy.
Qed.

Lemma sanc_anc : forall g x y, sanc g x y -> anc g x y.
Proof. intros g x y [p [Hp Ha]]. eapply anc_step; eassumption. Qed.

Lemma anc_sanc_trans : forall g x y z, anc g x y -> sanc g y z -> sanc g x z.
Proof.
  intros g x y z Hxy [p [Hp Ha]]. exists p. split; [exact Hp|].
  eapply anc_trans; eassumption.
Qed.

Lemma sanc_anc_trans : forall g x y z, sanc g x y -> anc g y z -> sanc g x z.
Proof.
  intros g x y z Hxy Hyz. induction Hyz as [y|y p z Hp _ IH].
  - exact Hxy.
  - exists p. split; [exact Hp|]. apply sanc_anc. apply IH. exact Hxy.
Qed.

Lemma anc_le : forall g, wf_dag g -> forall x y, anc g x y -> x <= y.
Proof.
  intros g Hwf x y H. induction H as [x|x p y Hp _ IH]; [lia|].
  specialize (Hwf _ _ Hp). lia.
Qed.

Lemma sanc_lt : forall g, wf_dag g -> forall x y, sanc g x y -> x < y.
Proof.
  intros g Hwf x y [p [Hp Ha]]. pose proof (anc_le g Hwf _ _ Ha). specialize (Hwf _ _ Hp). lia.
Qed.

Lemma wf_dag_app : forall g ps,
  wf_dag g -> (forall p, In p ps -> p < length g) -> wf_dag (g ++ [ps]).
Proof.
  intros g ps Hwf Hps i p Hin.
  destruct (Nat.lt_ge_cases i (length g)) as [Hlt|Hge].
  - rewrite parents_app_old in Hin by exact Hlt. apply Hwf. exact Hin.
  - pose proof (parents_lt_len _ _ _ Hin) as Hl. rewrite app_length in Hl. simpl in Hl.
    assert (i = length g) by lia. subst i. rewrite parents_app_new in Hin.
    apply Hps. exact Hin.
Qed.

(* ------------------------------------------------------------------ executable ancestry *)
Lemma ancb_f_sound : forall g f x y, ancb_f g f x y = true -> anc g x y.
Proof.
  intros g f. induction f as [|f IH]; intros x y H; simpl in H.
  - rewrite Bool.orb_false_r in H. apply Nat.eqb_eq in H. subst. apply anc_refl.
  - apply Bool.orb_true_iff in H. destruct H as [H|H].
    + apply Nat.eqb_eq in H. subst. apply anc_refl.
    + apply existsb_exists in H. destruct H as [p [Hp Hr]].
      eapply anc_step; [exact Hp|]. apply IH. exact Hr.
Qed.

Lemma ancb_f_complete : forall g, wf_dag g ->
  forall x y, anc g x y -> forall f, y <= f -> ancb_f g f x y = true.
Proof.
  intros g Hwf x y H. induction H as [x|x p y Hp _ IH]; intros f Hf.
  - destruct f; simpl; rewrite Nat.eqb_refl; reflexivity.
  - pose proof (Hwf _ _ Hp) as Hlt. destruct f as [|f]; [lia|]. simpl.
    apply Bool.orb_true_iff. right. apply existsb_exists. exists p. split; [exact Hp|].
    apply IH. lia.
Qed.

Lemma ancb_spec : forall g, wf_dag g -> forall x y, ancb g x y = true <-> anc g x y.
Proof.
  intros g Hwf x y. unfold ancb. split.
  - apply ancb_f_sound.
  - intros H. apply ancb_f_complete; auto.
Qed.

Lemma sancb_spec : forall g, wf_dag g -> forall x y, sancb g x y = true <-> sanc g x y.
Proof.
  intros g Hwf x y. unfold sancb, sanc. rewrite existsb_exists. split.
  - intros [p [Hp Ha]]. exists p. split; [exact Hp|]. apply ancb_spec; assumption.
  - intros [p [Hp Ha]]. exists p. split; [exact Hp|]. apply ancb_spec; assumption.
Qed.

Lemma covb_spec : forall g, wf_dag g -> forall H x, covb g H x = true <-> Cov g H x.
Proof.
  intros g Hwf H x. unfold covb, Cov. rewrite existsb_exists. split.
  - intros [h [Hh Ha]]. exists h. split; [exact Hh|]. apply ancb_spec; assumption.
  - intros [h [Hh Ha]]. exists h. split; [exact Hh|]. apply ancb_spec; assumption.
Qed.

Lemma wf_from_spec : forall g i, wf_from i g = true ->
  forall k p, In p (nth k g []) -> p < i + k.
Proof.
  induction g as [|ps r IH]; intros i Hw k p Hin; simpl in *.
  - destruct k; destruct Hin.
  - apply Bool.andb_true_iff in Hw. destruct Hw as [H1 H2]. destruct k.
    + rewrite forallb_forall in H1. specialize (H1 _ Hin). apply Nat.ltb_lt in H1. lia.
    + specialize (IH _ H2 _ _ Hin). lia.
Qed.

Lemma wf_dagb_sound : forall g, wf_dagb g = true -> wf_dag g.
Proof. intros g H i p Hin. apply (wf_from_spec g 0 H i p Hin). Qed.

(* ------------------------------------------------------------------ Cov *)
Lemma Cov_heads_mono : forall g H H' x, (forall h, In h H -> In h H') -> Cov g H x -> Cov g H' x.
Proof. intros g H H' x Hs [h [Hh Ha]]. exists h. split; auto. Qed.

Lemma Cov_app : forall g l H x, Cov g H x -> Cov (g ++ l) H x.
Proof. intros g l H x [h [Hh Ha]]. exists h. split; [exact Hh|]. apply anc_app. exact Ha. Qed.

Lemma Cov_head : forall g H h, In h H -> Cov g H h.
Proof. intros g H h Hh. exists h. split; [exact Hh|apply anc_refl]. Qed.

(** The key step (acyclicity): a head [x] that is a strict ancestor of a covered operation
    [n] can be removed without changing what is covered. *)
Lemma Cov_remove : forall g, wf_dag g -> forall H x n y,
  sanc g x n -> Cov g H n -> Cov g H y -> Cov g (remove_id x H) y.
Proof.
  intros g Hwf H x n y Hxn [hn [Hhn Hanc_n]] [h [Hh Ha]].
  assert (Hne : hn <> x).
  { intros ->. pose proof (sanc_lt g Hwf _ _ Hxn). pose proof (anc_le g Hwf _ _ Hanc_n). lia. }
  destruct (Nat.eq_dec h x) as [->|Hhx].
  - exists hn. split; [apply In_remove_id; auto|].
    eapply anc_trans; [|exact Hanc_n]. eapply anc_trans; [exact Ha|]. apply sanc_anc. exact Hxn.
  - exists h. split; [apply In_remove_id; auto|exact Ha].
Qed.

(* ------------------------------------------------------------------ heads_of *)
Lemma heads_of_subset : forall g seen h, In h (heads_of g seen) -> In h seen.
Proof. intros g seen h H. unfold heads_of in H. apply filter_In in H. tauto. Qed.

Lemma heads_of_cover : forall g, wf_dag g -> forall seen x,
  In x seen -> exists h, In h (heads_of g seen) /\ anc g x h.
Proof.
  intros g Hwf seen.
  assert (Hb : exists B, forall x, In x seen -> x < B).
  { exists (S (list_max seen)). intros x Hx.
    pose proof (proj1 (list_max_le seen (list_max seen)) (Nat.le_refl _)) as Hf.
    rewrite Forall_forall in Hf. specialize (Hf _ Hx). lia. }
  destruct Hb as [B HB].
  assert (Hk : forall k x, In x seen -> B - x <= k -> exists h, In h (heads_of g seen) /\ anc g x h).
  { induction k as [|k IH]; intros x Hx Hle.
    - specialize (HB _ Hx). lia.
    - destruct (existsb (fun y => sancb g x y) seen) eqn:E.
      + apply existsb_exists in E. destruct E as [y [Hy Hs]].
        apply sancb_spec in Hs; [|exact Hwf]. pose proof (sanc_lt g Hwf _ _ Hs) as Hlt.
        destruct (IH y Hy) as [h [Hh Ha]]; [specialize (HB _ Hy); lia|].
        exists h. split; [exact Hh|]. eapply anc_trans; [apply sanc_anc; exact Hs|exact Ha].
      + exists x. split; [|apply anc_refl]. unfold heads_of. apply filter_In. split; [exact Hx|].
        rewrite E. reflexivity. }
  intros x Hx. apply (Hk (B - x) x Hx). lia.
Qed.

Lemma heads_of_rest : forall g, wf_dag g -> forall seen x,
  In x seen -> ~ In x (heads_of g seen) -> exists h, In h (heads_of g seen) /\ sanc g x h.
Proof.
  intros g Hwf seen x Hx Hn.
  destruct (existsb (fun y => sancb g x y) seen) eqn:E.
  - apply existsb_exists in E. destruct E as [y [Hy Hs]]. apply sancb_spec in Hs; [|exact Hwf].
    destruct (heads_of_cover g Hwf seen y Hy) as [h [Hh Ha]].
    exists h. split; [exact Hh|]. eapply sanc_anc_trans; eassumption.
  - exfalso. apply Hn. unfold heads_of. apply filter_In. split; [exact Hx|]. rewrite E. reflexivity.
Qed.

(* ------------------------------------------------------------------ the invariant *)
Definition pc_ok (g : dag) (H : list nat) (c : pc) : Prop :=
  match c with
  | PLockPub n => n < length g
  | PAdd n todo => n < length g /\ (forall x, In x todo -> x <> n -> sanc g x n)
  | PRem n todo => Cov g H n /\ (forall x, In x todo -> sanc g x n)
  | _ => True
  end.

Definition proc_ok (g : dag) (H : list nat) (p : proc) : Prop :=
  p_cur p < length g /\ pc_ok g H (p_pc p).

Definition Inv (s : state) : Prop :=
  wf_dag (s_dag s)
  /\ (forall h, In h (s_heads s) -> h < length (s_dag s))
  /\ s_heads s <> []
  /\ NoDup (s_heads s)
  /\ Forall (proc_ok (s_dag s) (s_heads s)) (s_procs s).

(** What never shrinks: the set of operations reachable from the heads directory. *)
Definition cov_le (s s' : state) : Prop :=
  forall x, Cov (s_dag s) (s_heads s) x -> Cov (s_dag s') (s_heads s') x.

Lemma cov_le_refl : forall s, cov_le s s.
Proof. intros s x H. exact H. Qed.

Lemma cov_le_trans : forall a b c, cov_le a b -> cov_le b c -> cov_le a c.
Proof. intros a b c H1 H2 x H. apply H2. apply H1. exact H. Qed.

Lemma pc_ok_mono : forall g l H H' c,
  (forall x, Cov g H x -> Cov (g ++ l) H' x) -> pc_ok g H c -> pc_ok (g ++ l) H' c.
Proof.
  intros g l H H' c Hc Hok. destruct c; simpl in *; auto.
  - rewrite app_length. lia.
  - destruct Hok as [Hn Ht]. split; [rewrite app_length; lia|].
    intros x Hx Hne. apply sanc_app. auto.
  - destruct Hok as [Hn Ht]. split; [auto|]. intros x Hx. apply sanc_app. auto.
Qed.

Lemma proc_ok_mono : forall g l H H' p,
  (forall x, Cov g H x -> Cov (g ++ l) H' x) -> proc_ok g H p -> proc_ok (g ++ l) H' p.
Proof.
  intros g l H H' p Hc [H1 H2]. split; [rewrite app_length; lia|]. eapply pc_ok_mono; eassumption.
Qed.

Lemma after_todo_ok : forall g H n todo,
  Cov g H n -> (forall x, In x todo -> sanc g x n) -> pc_ok g H (after_todo n todo).
Proof. intros g H n todo Hc Ht. destruct todo; simpl; [exact I|]. split; assumption. Qed.

(** Re-establishing the invariant after a step that extends the DAG by [l], replaces the
    directory by [H'] and the moving process by [q]. *)
Lemma Inv_update : forall s l H' lk pid q,
  Inv s ->
  wf_dag (s_dag s ++ l) ->
  (forall h, In h H' -> h < length (s_dag s ++ l)) ->
  H' <> [] -> NoDup H' ->
  (forall x, Cov (s_dag s) (s_heads s) x -> Cov (s_dag s ++ l) H' x) ->
  proc_ok (s_dag s ++ l) H' q ->
  Inv (mk_state (s_dag s ++ l) H' lk (set_nth pid q (s_procs s)))
  /\ cov_le s (mk_state (s_dag s ++ l) H' lk (set_nth pid q (s_procs s))).
Proof.
  intros s l H' lk pid q (Hwf & Hval & Hne & Hnd & Hps) Hwf' Hval' Hne' Hnd' Hcov Hq.
  split; [|exact Hcov].
  unfold Inv; simpl. repeat split; auto.
  apply Forall_set_nth; [|exact Hq].
  eapply Forall_impl; [|exact Hps]. intros p Hp. eapply proc_ok_mono; eassumption.
Qed.

Lemma Inv_update0 : forall s H' lk pid q,
  Inv s ->
  (forall h, In h H' -> h < length (s_dag s)) ->
  H' <> [] -> NoDup H' ->
  (forall x, Cov (s_dag s) (s_heads s) x -> Cov (s_dag s) H' x) ->
  proc_ok (s_dag s) H' q ->
  Inv (mk_state (s_dag s) H' lk (set_nth pid q (s_procs s)))
  /\ cov_le s (mk_state (s_dag s) H' lk (set_nth pid q (s_procs s))).
Proof.
  intros s H' lk pid q HI Hval Hne Hnd Hcov Hq.
  pose proof (Inv_update s [] H' lk pid q HI) as HU. rewrite app_nil_r in HU.
  apply HU; auto. destruct HI as [Hwf _]. exact Hwf.
Qed.

Lemma read_valid : forall s e, Inv s -> forall x, In x (read s e) -> x < length (s_dag s).
Proof.
  intros s e (Hwf & Hval & _) x Hx. unfold read in Hx. destruct (e_weak e) as [l|].
  - apply filter_In in Hx. destruct Hx as [_ Hx]. apply Nat.ltb_lt in Hx. exact Hx.
  - apply Hval. exact Hx.
Qed.

Lemma nth_error_proc_ok : forall s pid p,
  Inv s -> nth_error (s_procs s) pid = Some p -> proc_ok (s_dag s) (s_heads s) p.
Proof.
  intros s pid p (_ & _ & _ & _ & Hps) Hn. rewrite Forall_forall in Hps. apply Hps.
  eapply nth_error_In. exact Hn.
Qed.

(** Every atomic step keeps the invariant and never shrinks the covered set. *)
Lemma step_ok : forall lw s e, Inv s -> Inv (step lw s e) /\ cov_le s (step lw s e).
Proof.
  intros lw s e HI. unfold step, step_lbl.
  destruct (nth_error (s_procs s) (e_pid e)) as [p|] eqn:Hnth; [|split; [exact HI|apply cov_le_refl]].
  pose proof (nth_error_proc_ok _ _ _ HI Hnth) as [Hcur Hpc].
  pose proof HI as (Hwf & Hval & Hne & Hnd & Hps).
  assert (Hsame : Inv s /\ cov_le s s) by (split; [exact HI|apply cov_le_refl]).
  destruct (p_pc p) as [| | |n| | |n todo|n todo|ok] eqn:Epc; simpl in Hpc.
  - (* PIdle *)
    destruct (p_prog p) as [|c r]; [exact Hsame|]. destruct c as [| |ps]; simpl.
    + (* CCommit *)
      apply Inv_update; auto.
      * apply wf_dag_app; [exact Hwf|]. intros q [<-|[]]. exact Hcur.
      * intros h Hh. rewrite app_length. specialize (Hval _ Hh). lia.
      * intros x Hx. apply Cov_app. exact Hx.
      * split; simpl; rewrite app_length; simpl; lia.
    + (* CLoad *)
      apply Inv_update0; auto. split; simpl; auto.
    + (* CPublishOn *)
      apply Inv_update; auto.
      * apply wf_dag_app; [exact Hwf|]. intros q Hq. apply filter_In in Hq.
        destruct Hq as [_ Hq]. apply Nat.ltb_lt in Hq. exact Hq.
      * intros h Hh. rewrite app_length. specialize (Hval _ Hh). lia.
      * intros x Hx. apply Cov_app. exact Hx.
      * split; simpl; rewrite app_length; simpl; lia.
  - (* PFailed *) exact Hsame.
  - (* PRead1 *)
    pose proof (read_valid s e HI) as Hrv.
    destruct (read s e) as [|h [|h2 t]]; simpl.
    + apply Inv_update0; auto. split; simpl; auto.
    + apply Inv_update0; auto. split; simpl; auto. apply Hrv. left. reflexivity.
    + apply Inv_update0; auto. split; simpl; auto.
  - (* PLockPub *)
    destruct (lock_free lw s); [|exact Hsame]. simpl.
    apply Inv_update0; auto. split; simpl; auto. split; [exact Hpc|].
    intros x Hx _. exists x. split; [exact Hx|apply anc_refl].
  - (* PLockRes *)
    destruct (lock_free lw s); [|exact Hsame]. simpl.
    apply Inv_update0; auto. split; simpl; auto.
  - (* PRead2 *)
    pose proof (read_valid s e HI) as Hrv.
    destruct (read s e) as [|h [|h2 t]] eqn:Eseen; simpl.
    + apply Inv_update0; auto. split; simpl; auto.
    + apply Inv_update0; auto. split; simpl; auto. apply Hrv. left. reflexivity.
    + set (seen := h :: h2 :: t) in *.
      set (hs := heads_of (s_dag s) seen).
      assert (Hhs_sub : forall x, In x hs -> In x seen) by (intros x; apply heads_of_subset).
      assert (Hanc : forall x, In x (filter (fun x => negb (memn x hs)) seen) ->
                               exists h', In h' hs /\ sanc (s_dag s) x h').
      { intros x Hx. apply filter_In in Hx. destruct Hx as [Hx Hm].
        apply heads_of_rest; [exact Hwf|exact Hx|].
        intros Hin. apply memn_spec in Hin. fold hs in Hin. rewrite Hin in Hm. discriminate. }
      destruct hs as [|h' [|h'' t']] eqn:Ehs.
      * (* impossible but total: a merge without parents *)
        simpl. apply Inv_update; auto.
        -- apply wf_dag_app; [exact Hwf|]. intros q [].
        -- intros x Hx. rewrite app_length. specialize (Hval _ Hx). lia.
        -- intros x Hx. apply Cov_app. exact Hx.
        -- split; simpl; [rewrite app_length; simpl; lia|]. split; [rewrite app_length; simpl; lia|].
           intros x Hx Hne'. rewrite app_nil_r in Hx. destruct (Hanc x Hx) as [h0 [[] _]].
      * simpl. apply Inv_update0; auto.
        assert (Hh' : In h' seen) by (apply Hhs_sub; left; reflexivity).
        split; simpl; [apply Hrv; exact Hh'|]. split; [apply Hrv; exact Hh'|].
        intros x Hx _. destruct (Hanc x Hx) as [h0 [[<-|[]] Hs]]. exact Hs.
      * simpl. apply Inv_update; auto.
        -- apply wf_dag_app; [exact Hwf|]. intros q Hq. apply Hrv. apply Hhs_sub. exact Hq.
        -- intros x Hx. rewrite app_length. specialize (Hval _ Hx). lia.
        -- intros x Hx. apply Cov_app. exact Hx.
        -- split; simpl; [rewrite app_length; simpl; lia|]. split; [rewrite app_length; simpl; lia|].
           intros x Hx _. apply in_app_or in Hx. destruct Hx as [Hx|Hx].
           ++ destruct (Hanc x Hx) as [h0 [Hh0 Hs]]. exists h0. split.
              ** rewrite parents_app_new. exact Hh0.
              ** apply anc_app. apply sanc_anc. exact Hs.
           ++ exists x. split; [rewrite parents_app_new; exact Hx|apply anc_refl].
  - (* PAdd *)
    destruct Hpc as [Hn Htodo]. simpl.
    apply Inv_update0; auto.
    + intros h Hh. apply In_add_head in Hh. destruct Hh as [->|Hh]; auto.
    + intros E. assert (In n (add_head n (s_heads s))) by (apply In_add_head; left; reflexivity).
      rewrite E in H. destruct H.
    + apply NoDup_add_head. exact Hnd.
    + intros x Hx. eapply Cov_heads_mono; [|exact Hx]. intros h Hh. apply In_add_head. right. exact Hh.
    + split; simpl; [exact Hcur|]. apply after_todo_ok.
      * apply Cov_head. apply In_add_head. left. reflexivity.
      * intros x Hx. apply In_remove_id in Hx. destruct Hx as [Hx Hne']. auto.
  - (* PRem *)
    destruct Hpc as [Hn Htodo].
    destruct todo as [|x0 tl]; cbn [fst].
    + apply Inv_update0; auto. split; simpl; auto.
    + set (todo := x0 :: tl) in *.
      set (x := if memn (e_pick e) todo then e_pick e else x0).
      assert (Hx : In x todo).
      { unfold x. destruct (memn (e_pick e) todo) eqn:E; [apply memn_spec; exact E|left; reflexivity]. }
      pose proof (Htodo _ Hx) as Hsx.
      assert (Hcn : Cov (s_dag s) (remove_id x (s_heads s)) n) by (eapply Cov_remove; eassumption).
      apply Inv_update0; auto.
      * intros h Hh. apply In_remove_id in Hh. apply Hval. tauto.
      * intros E. destruct Hcn as [h0 [Hh0 _]]. rewrite E in Hh0. destruct Hh0.
      * apply NoDup_filter. exact Hnd.
      * intros y Hy. eapply Cov_remove; eassumption.
      * split; [exact Hcur|]. cbn [p_pc]. apply after_todo_ok; [exact Hcn|].
        intros y Hy. apply In_remove_id in Hy. apply Htodo. tauto.
  - (* PUnlock *)
    simpl. apply Inv_update0; auto. split; simpl; auto. destruct ok; exact I.
Qed.

Lemma step_Inv : forall lw s e, Inv s -> Inv (step lw s e).
Proof. intros. apply step_ok. assumption. Qed.

Lemma step_cov : forall lw s e, Inv s -> cov_le s (step lw s e).
Proof. intros. apply step_ok. assumption. Qed.

Lemma run_Inv : forall lw sched s, Inv s -> Inv (run (step lw) sched s).
Proof. intros lw sched s H. apply run_invariant; [apply step_Inv|exact H]. Qed.

Lemma run_cov : forall lw sched s, Inv s -> cov_le s (run (step lw) sched s).
Proof.
  intros lw sched s H. apply (run_preorder (step lw) Inv cov_le).
  - apply cov_le_refl.
  - apply cov_le_trans.
  - apply step_Inv.
  - apply step_cov.
  - exact H.
Qed.

(* ------------------------------------------------------------------ initial states *)
Definition init_ok (g : dag) (H : list nat) (ps : list (nat * list cmd)) : Prop :=
  wf_dag g /\ H <> [] /\ NoDup H /\ (forall h, In h H -> h < length g)
  /\ (forall cp, In cp ps -> fst cp < length g).

Lemma init_Inv : forall g H ps, init_ok g H ps -> Inv (init_state g H ps).
Proof.
  intros g H ps (Hwf & Hne & Hnd & Hval & Hps). unfold Inv, init_state; simpl.
  repeat split; auto. apply Forall_forall. intros p Hp. apply in_map_iff in Hp.
  destruct Hp as [cp [<- Hcp]]. split; simpl; auto.
Qed.

Lemma covered_general : forall lw s sched1 sched2 n,
  Inv s ->
  Cov (s_dag (run (step lw) sched1 s)) (s_heads (run (step lw) sched1 s)) n ->
  Cov (s_dag (run (step lw) (sched1 ++ sched2) s)) (s_heads (run (step lw) (sched1 ++ sched2) s)) n.
Proof.
  intros lw s sched1 sched2 n HI Hc. rewrite run_app.
  apply (run_cov lw sched2 (run (step lw) sched1 s)); [apply run_Inv; exact HI|exact Hc].
Qed.

Lemma nonempty_general : forall lw s sched, Inv s -> s_heads (run (step lw) sched s) <> [].
Proof. intros lw s sched HI. pose proof (run_Inv lw sched s HI) as (_ & _ & H & _). exact H. Qed.

Lemma add_label_in_heads : forall lw s e n,
  snd (step_lbl lw s e) = LAdd n -> In n (s_heads (step lw s e)).
Proof.
  intros lw s e n. unfold step, step_lbl.
  destruct (nth_error (s_procs s) (e_pid e)) as [p|]; [|discriminate].
  destruct (p_pc p) as [| | |m| | |m todo|m todo|ok]; simpl.
  - destruct (p_prog p) as [|[| |ps] r]; simpl; discriminate.
  - discriminate.
  - destruct (read s e) as [|h [|h2 t]]; simpl; discriminate.
  - destruct (lock_free lw s); simpl; discriminate.
  - destruct (lock_free lw s); simpl; discriminate.
  - destruct (read s e) as [|h [|h2 t]]; simpl; try discriminate.
    destruct (heads_of (s_dag s) (h :: h2 :: t)) as [|h' [|h'' t']]; simpl; discriminate.
  - intros E. inversion E; subst. apply In_add_head. left. reflexivity.
  - destruct todo; simpl; discriminate.
  - discriminate.
Qed.

(* ------------------------------------------------------------------ atomic reads never fail *)
Definition no_fail (s : state) : Prop :=
  Forall (fun p => p_pc p <> PFailed /\ p_pc p <> PUnlock false) (s_procs s).

Definition atomic (e : ev) : Prop := e_weak e = None.

Lemma after_todo_nf : forall n t, after_todo n t <> PFailed /\ after_todo n t <> PUnlock false.
Proof. intros n t. destruct t; simpl; split; discriminate. Qed.

Lemma step_no_fail : forall lw s e, atomic e -> Inv s /\ no_fail s -> Inv (step lw s e) /\ no_fail (step lw s e).
Proof.
  intros lw s e Ha [HI Hnf]. split; [apply step_Inv; exact HI|].
  unfold step, step_lbl.
  destruct (nth_error (s_procs s) (e_pid e)) as [p|] eqn:Hnth; [|exact Hnf].
  assert (Hp : p_pc p <> PFailed /\ p_pc p <> PUnlock false).
  { unfold no_fail in Hnf. rewrite Forall_forall in Hnf. apply Hnf. eapply nth_error_In. exact Hnth. }
  assert (Hrd : read s e <> []).
  { unfold read. rewrite Ha. destruct HI as (_ & _ & H & _). exact H. }
  assert (Hgo : forall c g' H' l' prog cur, c <> PFailed -> c <> PUnlock false ->
            no_fail (mk_state g' H' l' (set_nth (e_pid e) (mk_proc c prog cur) (s_procs s)))).
  { intros c g' H' l' prog cur H1 H2. unfold no_fail; simpl. apply Forall_set_nth; [exact Hnf|].
    simpl. split; assumption. }
  destruct (p_pc p) as [| | |n| | |n todo|n todo|ok] eqn:Epc.
  - destruct (p_prog p) as [|[| |ps] r]; simpl; [exact Hnf| | |]; apply Hgo; discriminate.
  - exact Hnf.
  - destruct (read s e) as [|h [|h2 t]]; simpl; [congruence| |]; apply Hgo; discriminate.
  - destruct (lock_free lw s); simpl; [|exact Hnf]. apply Hgo; discriminate.
  - destruct (lock_free lw s); simpl; [|exact Hnf]. apply Hgo; discriminate.
  - destruct (read s e) as [|h [|h2 t]]; simpl; [congruence| |].
    + apply Hgo; discriminate.
    + destruct (heads_of (s_dag s) (h :: h2 :: t)) as [|h' [|h'' t']]; simpl; apply Hgo; discriminate.
  - cbn [fst]. apply Hgo; apply after_todo_nf.
  - destruct todo as [|x0 tl]; cbn [fst]; apply Hgo; try discriminate; apply after_todo_nf.
  - simpl. destruct ok.
    + apply Hgo; discriminate.
    + destruct Hp as [_ Hp]. congruence.
Qed.

Lemma run_no_fail : forall lw sched s,
  Forall atomic sched -> Inv s -> no_fail s -> no_fail (run (step lw) sched s).
Proof.
  intros lw sched s Hs HI Hnf.
  apply (run_invariant_on (step lw) atomic (fun s => Inv s /\ no_fail s)); auto.
  intros s0 e He H0. apply step_no_fail; assumption.
Qed.

Lemma init_no_fail : forall g H ps, no_fail (init_state g H ps).
Proof.
  intros g H ps. unfold no_fail, init_state; simpl. apply Forall_forall. intros p Hp.
  apply in_map_iff in Hp. destruct Hp as [cp [<- _]]. simpl. split; discriminate.
Qed.

(* ------------------------------------------------------------------ quiescence *)
(** Local view of process [pid] in state [s]. *)
Definition at_ (s : state) (pid : nat) (g : dag) (H : list nat) (lk : option nat) (p : proc) : Prop :=
  s_dag s = g /\ s_heads s = H /\ s_lock s = lk /\ nth_error (s_procs s) pid = Some p.

Definition solo (pid : nat) (e : ev) : Prop := e_pid e = pid /\ e_weak e = None.

Lemma nth_error_lt {A} : forall (l : list A) n x, nth_error l n = Some x -> n < length l.
Proof. intros l n x H. apply nth_error_Some. congruence. Qed.

Ltac t_unfold Hat He :=
  destruct Hat as (Hg & HH & Hl & Hn);
  pose proof (nth_error_lt _ _ _ Hn) as Hlen;
  unfold step, step_lbl; rewrite He, Hn; cbn [p_pc p_prog p_cur fst].

Ltac t_close Hlen :=
  unfold at_; cbn [s_dag s_heads s_lock s_procs];
  repeat split; try congruence; try (apply nth_error_set_nth_eq; exact Hlen).

Lemma T_begin : forall lw s e pid g H lk c r,
  e_pid e = pid -> at_ s pid g H lk (mk_proc PIdle (CLoad :: r) c) ->
  at_ (step lw s e) pid g H lk (mk_proc PRead1 r c).
Proof. intros lw s e pid g H lk c r He Hat. t_unfold Hat He. t_close Hlen. Qed.

Lemma T_done : forall lw s e pid g H lk c,
  e_pid e = pid -> at_ s pid g H lk (mk_proc PIdle [] c) -> step lw s e = s.
Proof. intros lw s e pid g H lk c He Hat. t_unfold Hat He. reflexivity. Qed.

Lemma T_read1_one : forall lw s e pid g h lk c r,
  solo pid e -> at_ s pid g [h] lk (mk_proc PRead1 r c) ->
  at_ (step lw s e) pid g [h] lk (mk_proc PIdle r h).
Proof.
  intros lw s e pid g h lk c r [He Hw] Hat. t_unfold Hat He.
  unfold read. rewrite Hw, HH. cbn [fst]. t_close Hlen.
Qed.

Lemma T_read1_many : forall lw s e pid g h h2 t lk c r,
  solo pid e -> at_ s pid g (h :: h2 :: t) lk (mk_proc PRead1 r c) ->
  at_ (step lw s e) pid g (h :: h2 :: t) lk (mk_proc PLockRes r c).
Proof.
  intros lw s e pid g h h2 t lk c r [He Hw] Hat. t_unfold Hat He.
  unfold read. rewrite Hw, HH. cbn [fst]. t_close Hlen.
Qed.

Lemma T_lock : forall lw s e pid g H lk c r,
  e_pid e = pid -> (lw = false \/ lk = None) ->
  at_ s pid g H lk (mk_proc PLockRes r c) ->
  exists lk', at_ (step lw s e) pid g H lk' (mk_proc PRead2 r c).
Proof.
  intros lw s e pid g H lk c r He Hfree Hat. t_unfold Hat He.
  assert (Hf : lock_free lw s = true).
  { unfold lock_free. destruct Hfree as [->| ->]; [reflexivity|]. rewrite Hl. apply Bool.orb_true_r. }
  rewrite Hf. cbn [fst]. eexists. t_close Hlen.
Qed.

(** What the locked read decides: the op to record [n], the DAG afterwards, the removals. *)
Definition decide (g : dag) (H : list nat) : dag * nat * list nat :=
  let hs := heads_of g H in
  let ancs := filter (fun x => negb (memn x hs)) H in
  match hs with
  | [h] => (g, h, ancs)
  | _ => (g ++ [hs], length g, ancs ++ hs)
  end.

Lemma T_read2 : forall lw s e pid g h h2 t lk c r,
  solo pid e -> at_ s pid g (h :: h2 :: t) lk (mk_proc PRead2 r c) ->
  let '(g', n, todo) := decide g (h :: h2 :: t) in
  at_ (step lw s e) pid g' (h :: h2 :: t) lk (mk_proc (PAdd n todo) r n).
Proof.
  intros lw s e pid g h h2 t lk c r [He Hw] Hat. t_unfold Hat He.
  unfold read. rewrite Hw, HH, Hg. unfold decide.
  destruct (heads_of g (h :: h2 :: t)) as [|h' [|h'' t']]; cbn [fst]; t_close Hlen.
Qed.

Lemma T_add : forall lw s e pid g H lk c r n todo,
  e_pid e = pid -> at_ s pid g H lk (mk_proc (PAdd n todo) r c) ->
  at_ (step lw s e) pid g (add_head n H) lk (mk_proc (after_todo n (remove_id n todo)) r c).
Proof. intros lw s e pid g H lk c r n todo He Hat. t_unfold Hat He. t_close Hlen. Qed.

Lemma T_rem : forall lw s e pid g H lk c r n x0 tl,
  e_pid e = pid -> at_ s pid g H lk (mk_proc (PRem n (x0 :: tl)) r c) ->
  exists x, In x (x0 :: tl) /\
    at_ (step lw s e) pid g (remove_id x H) lk (mk_proc (after_todo n (remove_id x (x0 :: tl))) r c).
Proof.
  intros lw s e pid g H lk c r n x0 tl He Hat. t_unfold Hat He.
  set (todo := x0 :: tl).
  exists (if memn (e_pick e) todo then e_pick e else x0). split.
  - destruct (memn (e_pick e) todo) eqn:E; [apply memn_spec; exact E|left; reflexivity].
  - t_close Hlen.
Qed.

Lemma T_unlock : forall lw s e pid g H lk c r,
  e_pid e = pid -> at_ s pid g H lk (mk_proc (PUnlock true) r c) ->
  exists lk', at_ (step lw s e) pid g H lk' (mk_proc PIdle r c).
Proof. intros lw s e pid g H lk c r He Hat. t_unfold Hat He. eexists. t_close Hlen. Qed.

Lemma run_done : forall lw pid evs s g H lk c,
  Forall (solo pid) evs -> at_ s pid g H lk (mk_proc PIdle [] c) -> run (step lw) evs s = s.
Proof.
  intros lw pid evs. induction evs as [|e r IH]; intros s g H lk c Hs Hat; [reflexivity|].
  inversion Hs as [|? ? [He _] Hr]; subst. rewrite run_cons.
  rewrite (T_done lw s e (e_pid e) g H lk c eq_refl Hat). eapply IH; eassumption.
Qed.

(** The removal loop, whatever the order: exactly the members of [todo] disappear. *)
Lemma rem_phase : forall lw pid g n c m s todo H lk,
  length todo <= m ->
  at_ s pid g H lk (mk_proc (after_todo n todo) [] c) -> NoDup H ->
  forall evs, Forall (solo pid) evs -> m + 1 <= length evs ->
  let s' := run (step lw) evs s in
  s_dag s' = g /\ (forall h, In h (s_heads s') <-> In h H /\ ~ In h todo) /\ NoDup (s_heads s')
  /\ nth_error (s_procs s') pid = Some (mk_proc PIdle [] c).
Proof.
  intros lw pid g n c m. induction m as [|m IH]; intros s todo H lk Hlen Hat Hnd evs Hs Hl.
  - destruct todo as [|x0 tl]; [|simpl in Hlen; lia].
    destruct evs as [|e evs]; [simpl in Hl; lia|]. inversion Hs as [|? ? [He _] Hr]; subst.
    simpl in Hat. destruct (T_unlock lw s e (e_pid e) g H lk c [] eq_refl Hat) as [lk' Hat'].
    cbv zeta. rewrite run_cons. rewrite (run_done lw (e_pid e) evs _ g H lk' c Hr Hat').
    destruct Hat' as (Hg & HH & _ & Hn). rewrite Hg, HH. repeat split; auto; tauto.
  - destruct evs as [|e evs]; [simpl in Hl; lia|]. inversion Hs as [|? ? [He _] Hr]; subst.
    destruct todo as [|x0 tl].
    + simpl in Hat. destruct (T_unlock lw s e (e_pid e) g H lk c [] eq_refl Hat) as [lk' Hat'].
      cbv zeta. rewrite run_cons. rewrite (run_done lw (e_pid e) evs _ g H lk' c Hr Hat').
      destruct Hat' as (Hg & HH & _ & Hn). rewrite Hg, HH. repeat split; auto; tauto.
    + cbn [after_todo] in Hat.
      destruct (T_rem lw s e (e_pid e) g H lk c [] n x0 tl eq_refl Hat) as [x [Hx Hat']].
      cbv zeta. rewrite run_cons.
      assert (Hlt : length (remove_id x (x0 :: tl)) <= m).
      { pose proof (remove_id_length_lt x (x0 :: tl) Hx). lia. }
      specialize (IH _ _ _ _ Hlt Hat' (NoDup_filter _ _ Hnd) evs Hr).
      destruct IH as (H1 & H2 & H3 & H4); [simpl in Hl; lia|].
      split; [exact H1|]. split; [|split; [exact H3|exact H4]].
      intros h. rewrite H2, !In_remove_id. split.
      * intros [[Hh Hne] Hnt]. split; [exact Hh|]. intros Hin. apply Hnt. split; assumption.
      * intros [Hh Hnt]. split; [split; [exact Hh|intros ->; apply Hnt; exact Hx]|].
        intros [Hin _]. apply Hnt; exact Hin.
Qed.

Lemma NoDup_singleton : forall (l : list nat) n, NoDup l -> (forall h, In h l <-> h = n) -> l = [n].
Proof.
  intros l n Hnd Hi. destruct l as [|a [|b t]].
  - exfalso. apply (proj2 (Hi n) eq_refl).
  - f_equal. apply Hi. left. reflexivity.
  - exfalso. assert (a = n) by (apply Hi; left; reflexivity).
    assert (b = n) by (apply Hi; right; left; reflexivity). subst.
    inversion Hnd; subst. apply H1. left. reflexivity.
Qed.

Lemma decide_props : forall g H, wf_dag g -> H <> [] -> (forall h, In h H -> h < length g) ->
  let '(g', n, todo) := decide g H in
  (exists l, g' = g ++ l) /\
  (forall x, In x H -> x <> n -> In x todo) /\
  (forall x, Cov g H x -> anc g' x n) /\
  length todo <= 2 * length H.
Proof.
  intros g H Hwf Hne Hval. unfold decide.
  set (hs := heads_of g H).
  set (ancs := filter (fun x => negb (memn x hs)) H).
  assert (Hlen : length (ancs ++ hs) <= 2 * length H).
  { rewrite app_length. pose proof (filter_len_le (fun x => negb (memn x hs)) H).
    pose proof (filter_len_le (fun x => negb (existsb (fun y => sancb g x y) H)) H).
    fold ancs in H0. unfold hs, heads_of. lia. }
  assert (Hsplit : forall x, In x H -> In x hs \/ In x ancs).
  { intros x Hx. destruct (memn x hs) eqn:E; [left; apply memn_spec; exact E|].
    right. unfold ancs. apply filter_In. split; [exact Hx|]. rewrite E. reflexivity. }
  assert (Hcov : forall x, Cov g H x -> exists hd, In hd hs /\ anc g x hd).
  { intros x [h0 [Hh0 Ha]]. destruct (heads_of_cover g Hwf H h0 Hh0) as [hd [Hhd Ha2]].
    exists hd. split; [exact Hhd|]. eapply anc_trans; eassumption. }
  destruct hs as [|h' [|h'' t']] eqn:Ehs.
  - exfalso. destruct H as [|h0 t0]; [congruence|].
    destruct (heads_of_cover g Hwf (h0 :: t0) h0 (or_introl eq_refl)) as [hd [Hhd _]].
    fold hs in Hhd. rewrite Ehs in Hhd. destruct Hhd.
  - repeat split.
    + exists []. rewrite app_nil_r. reflexivity.
    + intros x Hx Hne'. destruct (Hsplit x Hx) as [[<-|[]]|Ha]; [congruence|exact Ha].
    + intros x Hx. destruct (Hcov x Hx) as [hd [[<-|[]] Ha]]. exact Ha.
    + rewrite app_length in Hlen. simpl in Hlen. lia.
  - repeat split.
    + eexists. reflexivity.
    + intros x Hx _. apply in_or_app. destruct (Hsplit x Hx); tauto.
    + intros x Hx. destruct (Hcov x Hx) as [hd [Hhd Ha]].
      eapply anc_step; [rewrite parents_app_new; exact Hhd|]. apply anc_app. exact Ha.
    + exact Hlen.
Qed.

(** A process that only loads, running alone from any state satisfying the invariant and
    not blocked by a dead lock holder, ends with exactly one head, which it returns and
    which descends from everything that was covered. *)
Lemma quiescent : forall lw s pid c,
  Inv s ->
  nth_error (s_procs s) pid = Some (mk_proc PIdle [CLoad] c) ->
  (lw = false \/ s_lock s = None) ->
  forall evs, Forall (solo pid) evs -> 2 * length (s_heads s) + 6 <= length evs ->
  let s' := run (step lw) evs s in
  exists h, s_heads s' = [h]
    /\ nth_error (s_procs s') pid = Some (mk_proc PIdle [] h)
    /\ (forall x, Cov (s_dag s) (s_heads s) x -> anc (s_dag s') x h).
Proof.
  intros lw s pid c HI Hn Hfree evs Hs Hl.
  pose proof HI as (Hwf & Hval & Hne & Hnd & _).
  assert (Hat0 : at_ s pid (s_dag s) (s_heads s) (s_lock s) (mk_proc PIdle [CLoad] c))
    by (unfold at_; auto).
  remember (s_dag s) as g eqn:Eg. remember (s_heads s) as H eqn:EH. remember (s_lock s) as lk eqn:El.
  destruct evs as [|e1 evs]; [simpl in Hl; lia|]. inversion Hs as [|? ? S1 Hs1]; subst x l.
  pose proof (T_begin lw s e1 pid g H lk c [] (proj1 S1) Hat0) as Hat1.
  destruct evs as [|e2 evs]; [simpl in Hl; lia|]. inversion Hs1 as [|? ? S2 Hs2]; subst x l.
  cbv zeta. rewrite !run_cons.
  destruct H as [|h [|h2 t]]; [congruence| |].
  - (* a single head: nothing to do *)
    pose proof (T_read1_one lw _ e2 pid g h lk c [] S2 Hat1) as Hat2.
    rewrite (run_done lw pid evs _ g [h] lk h Hs2 Hat2).
    destruct Hat2 as (Hg2 & HH2 & _ & Hn2). exists h. repeat split; auto.
    intros x [h0 [[<-|[]] Ha]]. rewrite Hg2. exact Ha.
  - set (HH := h :: h2 :: t) in *.
    pose proof (T_read1_many lw _ e2 pid g h h2 t lk c [] S2 Hat1) as Hat2.
    destruct evs as [|e3 evs]; [simpl in Hl; lia|]. inversion Hs2 as [|? ? S3 Hs3]; subst x l.
    rewrite run_cons.
    destruct (T_lock lw _ e3 pid g HH lk c [] (proj1 S3) Hfree Hat2) as [lk3 Hat3].
    destruct evs as [|e4 evs]; [simpl in Hl; lia|]. inversion Hs3 as [|? ? S4 Hs4]; subst x l.
    rewrite run_cons.
    pose proof (T_read2 lw _ e4 pid g h h2 t lk3 c [] S4 Hat3) as Hat4. fold HH in Hat4.
    pose proof (decide_props g HH Hwf Hne Hval) as Hdp.
    destruct (decide g HH) as [[g' n] todo].
    destruct Hdp as ([l Hg'] & P1 & P2 & P3).
    destruct evs as [|e5 evs]; [simpl in Hl; lia|]. inversion Hs4 as [|? ? S5 Hs5]; subst x l0.
    rewrite run_cons.
    pose proof (T_add lw _ e5 pid g' HH lk3 n [] n todo (proj1 S5) Hat4) as Hat5.
    assert (Hlt : length (remove_id n todo) <= 2 * length HH).
    { pose proof (filter_len_le (fun h0 => negb (h0 =? n)) todo). unfold remove_id. lia. }
    pose proof (rem_phase lw pid g' n n (2 * length HH) _ _ _ _ Hlt Hat5 (NoDup_add_head n HH Hnd) evs Hs5)
      as Hrp.
    destruct Hrp as (R1 & R2 & R3 & R4); [simpl in Hl; simpl; lia|].
    exists n. repeat split.
    + apply NoDup_singleton; [exact R3|]. intros h0. rewrite R2. rewrite In_add_head. split.
      * intros [[->|Hin] Hnt]; [reflexivity|].
        destruct (Nat.eq_dec h0 n) as [->|Hne0]; [reflexivity|].
        exfalso. apply Hnt. apply In_remove_id. split; [apply P1; assumption|exact Hne0].
      * intros ->. split; [left; reflexivity|]. intros Hin. apply In_remove_id in Hin. tauto.
    + exact R4.
    + intros x Hx. rewrite R1. apply P2. exact Hx.
Qed.

(* ------------------------------------------------------------------ the checker *)
Lemma wf_from_complete : forall g i,
  (forall k p, In p (nth k g []) -> p < i + k) -> wf_from i g = true.
Proof.
  induction g as [|ps r IH]; intros i H; simpl; [reflexivity|].
  apply Bool.andb_true_iff. split.
  - apply forallb_forall. intros p Hp. apply Nat.ltb_lt. specialize (H 0 p Hp). lia.
  - apply IH. intros k p Hp. specialize (H (S k) p Hp). lia.
Qed.

Lemma wf_dagb_spec : forall g, wf_dagb g = true <-> wf_dag g.
Proof.
  intros g. split; [apply wf_dagb_sound|]. intros H. apply wf_from_complete.
  intros k p Hp. apply (H k p Hp).
Qed.

(** Meaning of [covered_steps]: at every moment the directory is non-empty and covers every
    operation that was a head at that or any earlier moment (or is in [pub]). *)
Definition covered_spec (g : dag) (pub : list nat) (l : list (list nat)) : Prop :=
  forall l1 Hk l2, l = l1 ++ Hk :: l2 ->
    Hk <> [] /\ forall n, In n pub \/ In n (concat l1) \/ In n Hk -> Cov g Hk n.

Lemma covered_steps_spec : forall g, wf_dag g -> forall l pub,
  covered_steps g pub l = true <-> covered_spec g pub l.
Proof.
  intros g Hwf. induction l as [|H r IH]; intros pub; simpl.
  - split; [|reflexivity]. intros _ l1 Hk l2 E. destruct l1; discriminate.
  - rewrite !Bool.andb_true_iff, IH, forallb_forall. split.
    + intros [[Hne Hall] Hr] l1 Hk l2 E. destruct l1 as [|a l1]; simpl in E; inversion E; subst.
      * split; [destruct Hk; [discriminate|congruence]|].
        intros n Hn. apply covb_spec; [exact Hwf|]. apply Hall. apply in_or_app.
        destruct Hn as [Hn|[[]|Hn]]; tauto.
      * destruct (Hr l1 Hk l2 eq_refl) as [H1 H2]. split; [exact H1|].
        intros n Hn. apply H2. simpl in Hn. rewrite in_app_iff in *. tauto.
    + intros Hs. split; [split|].
      * destruct (Hs [] H r eq_refl) as [H1 _]. destruct H; [congruence|reflexivity].
      * intros n Hn. apply covb_spec; [exact Hwf|]. destruct (Hs [] H r eq_refl) as [_ H2].
        apply H2. apply in_app_or in Hn. simpl. tauto.
      * intros l1 Hk l2 E. destruct (Hs (H :: l1) Hk l2) as [H1 H2]; [simpl; congruence|].
        split; [exact H1|]. intros n Hn. apply H2. simpl. rewrite in_app_iff in *. tauto.
Qed.

Definition obs_ok (c : case) : Prop :=
  wf_dag (c_dag c)
  /\ covered_spec (c_dag c) [] (all_heads c)
  /\ c_final_ok c = true
  /\ c_final_heads c = [c_final_cur c]
  /\ (forall H n, In H (all_heads c) -> In n H -> anc (c_dag c) n (c_final_cur c)).

Lemma eqn_list_spec : forall a b, eqn_list a b = true <-> a = b.
Proof.
  unfold eqn_list. induction a as [|x a IH]; destruct b as [|y b]; simpl; split; try congruence.
  - intros H. apply Bool.andb_true_iff in H. destruct H as [H1 H2]. apply Nat.eqb_eq in H1.
    apply IH in H2. congruence.
  - intros H. inversion H; subst. rewrite Nat.eqb_refl. simpl. apply IH. reflexivity.
Qed.

Lemma okb_spec : forall c, okb c = true <-> obs_ok c.
Proof.
  intros c. unfold okb, obs_ok. rewrite !Bool.andb_true_iff. split.
  - intros [[[[H1 H2] H3] H4] H5]. apply wf_dagb_spec in H1.
    split; [exact H1|]. split; [apply covered_steps_spec; assumption|].
    split; [exact H3|]. split; [apply eqn_list_spec; exact H4|].
    intros H n HH Hn. rewrite forallb_forall in H5. apply ancb_spec; [exact H1|].
    apply H5. apply in_concat. exists H. split; assumption.
  - intros (H1 & H2 & H3 & H4 & H5).
    split; [split; [split; [split|]|]|].
    + apply wf_dagb_spec. exact H1.
    + apply covered_steps_spec; assumption.
    + exact H3.
    + apply eqn_list_spec. exact H4.
    + apply forallb_forall. intros n Hn. apply in_concat in Hn. destruct Hn as [H [HH Hn]].
      apply ancb_spec; [exact H1|]. eapply H5; eassumption.
Qed.

(** The model's "everybody crashes, a fresh process loads the repo" ([Model.C14.final_load]). *)
Lemma final_load_ok : forall lw s, Inv s ->
  let s' := final_load lw s in
  exists h, s_heads s' = [h]
    /\ nth_error (s_procs s') (length (s_procs s)) = Some (mk_proc PIdle [] h)
    /\ (forall x, Cov (s_dag s) (s_heads s) x -> anc (s_dag s') x h).
Proof.
  intros lw s HI. unfold final_load.
  set (pid := length (s_procs s)).
  set (s1 := mk_state (s_dag s) (s_heads s) None (s_procs s ++ [mk_proc PIdle [CLoad] 0])).
  pose proof HI as (Hwf & Hval & Hne & Hnd & Hps).
  assert (HI1 : Inv s1).
  { unfold Inv, s1; simpl. repeat split; auto. apply Forall_app. split; [exact Hps|].
    constructor; [|constructor]. split; simpl; [|exact I].
    destruct (s_heads s) as [|h0 t0] eqn:E; [congruence|].
    specialize (Hval h0 (or_introl eq_refl)). lia. }
  assert (Hn : nth_error (s_procs s1) pid = Some (mk_proc PIdle [CLoad] 0)).
  { unfold s1, pid; simpl. rewrite nth_error_app2 by lia. rewrite Nat.sub_diag. reflexivity. }
  apply (quiescent lw s1 pid 0 HI1 Hn (or_intror eq_refl)).
  - apply Forall_forall. intros e He. apply repeat_spec in He. subst e. split; reflexivity.
  - rewrite repeat_length. unfold s1; simpl. lia.
Qed.
