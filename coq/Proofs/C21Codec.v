(** C21 — the segment byte codec round-trips (Model/C21Codec.v). *)
From Verif Require Import Base.Prelude Model.C21Codec.
From Coq Require Import Arith Lia ZArith.

Ltac Zify.zify_post_hook ::= Z.to_euclidean_division_equations.

Lemma u32_roundtrip : forall n r, (n < 4294967296)%N -> rd_u32 (u32le n ++ r) = Some (n, r).
Proof.
  intros n r Hn. unfold u32le, rd_u32. cbn [app]. f_equal. f_equal. lia.
Qed.

Lemma to_nat_blen {A} : forall (b : list A), N.to_nat (blen b) = length b.
Proof. intros b. unfold blen. apply Nat2N.id. Qed.

Lemma firstn_app_len {A} : forall (a b : list A), firstn (length a) (a ++ b) = a.
Proof. intros a b. rewrite firstn_app, Nat.sub_diag, firstn_all. simpl. apply app_nil_r. Qed.

Lemma skipn_app_len {A} : forall (a b : list A), skipn (length a) (a ++ b) = b.
Proof. intros a b. rewrite skipn_app, Nat.sub_diag, skipn_all. reflexivity. Qed.

Fixpoint idx_of (off : N) (es : list (bytes * bytes)) : list (bytes * N) :=
  match es with
  | [] => []
  | (k, v) :: r => (k, off) :: idx_of (off + blen v)%N r
  end.

Definition total (es : list (bytes * bytes)) : N := blen (concat (map snd es)).

Lemma total_cons : forall k v r, total ((k, v) :: r) = (blen v + total r)%N.
Proof. intros k v r. unfold total, blen. simpl. rewrite app_length. lia. Qed.

Definition keys_ok (ks : nat) (es : list (bytes * bytes)) : Prop :=
  forall k v, In (k, v) es -> length k = ks.

Lemma rd_index_ser : forall ks es off,
  keys_ok ks es -> (off + total es < 4294967296)%N ->
  rd_index ks (length es) (ser_index off es) = Some (idx_of off es).
Proof.
  intros ks es. induction es as [|[k v] r IH]; intros off Hk Hb;
    cbn [ser_index rd_index length idx_of]; [reflexivity|].
  assert (Hlen : length k = ks) by (apply (Hk k v); left; reflexivity).
  rewrite total_cons in Hb.
  rewrite <- Hlen at 1. rewrite skipn_app_len, u32_roundtrip by lia.
  rewrite IH; [|intros k' v' H'; apply (Hk k' v'); right; exact H'|lia].
  rewrite <- Hlen. rewrite firstn_app_len. reflexivity.
Qed.

Lemma length_ser_index : forall ks es off,
  keys_ok ks es -> length (ser_index off es) = length es * (ks + 4).
Proof.
  intros ks es. induction es as [|[k v] r IH]; intros off Hk; simpl; [reflexivity|].
  rewrite !app_length. simpl. rewrite IH by (intros k' v' H'; apply (Hk k' v'); right; exact H').
  rewrite (Hk k v (or_introl eq_refl)). lia.
Qed.

Lemma cut_values_idx : forall es pre off,
  blen pre = off ->
  cut_values (idx_of off es) (pre ++ concat (map snd es)) = es.
Proof.
  induction es as [|[k v] r IH]; intros pre off Hp; simpl; [reflexivity|].
  f_equal.
  - f_equal.
    assert (Hstop : (match idx_of (off + blen v) r with
                     | [] => blen (pre ++ v ++ concat (map snd r))
                     | (_, off') :: _ => off'
                     end - off = blen v)%N).
    { destruct r as [|[k2 v2] r2]; simpl.
      - rewrite app_nil_r. unfold blen in *. rewrite app_length. lia.
      - lia. }
    rewrite Hstop. subst off. rewrite !to_nat_blen, skipn_app_len, firstn_app_len. reflexivity.
  - rewrite app_assoc. apply IH. subst off. unfold blen. rewrite app_length. lia.
Qed.

(** load (serialize parent es) gives back exactly the parent name and the entries. *)
Lemma codec_roundtrip : forall ks parent es,
  keys_ok ks es ->
  (blen parent < 4294967296)%N -> (blen es < 4294967296)%N -> (total es < 4294967296)%N ->
  load ks (serialize parent es) = Some (parent, es).
Proof.
  intros ks parent es Hk Hp Hn Ht. unfold load, serialize.
  rewrite u32_roundtrip by exact Hp. rewrite to_nat_blen, skipn_app_len, firstn_app_len.
  rewrite u32_roundtrip by exact Hn. rewrite to_nat_blen.
  rewrite <- (length_ser_index ks es 0 Hk). rewrite firstn_app_len, skipn_app_len.
  rewrite rd_index_ser by (auto; rewrite N.add_0_l; exact Ht).
  f_equal. f_equal. apply (cut_values_idx es [] 0%N). reflexivity.
Qed.
