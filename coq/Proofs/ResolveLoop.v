(** The further rounds of MergedTree::resolve (simplify, merge again) do not disturb what the
    first round resolved: a path whose input values resolve trivially to [v], with no
    file/directory clash above it, reads [v] in the tree that resolve finally returns. *)
From Verif Require Import Base.Prelude Model.Merge.
From Verif Require Import Proofs.MergeDen Proofs.C01 Proofs.C02 Proofs.TrivialMap Proofs.SimplifyDisjoint.
From Verif Require Import Model.TreeMerge Model.Rebase.
From Verif Require Import Proofs.TreeValue Proofs.TreeMerge Proofs.C07 Proofs.C08.
From Coq Require Import Lia Arith.
Local Open Scope Z_scope.

(** * more about simplify *)
Section SimplifyMore.
  Context {T : Type} (eqb : T -> T -> bool).
  Hypothesis eqb_spec : forall x y, eqb x y = true <-> x = y.

  Lemma in_set_nth {A} (l : list A) i y x : In x (set_nth i y l) -> x = y \/ In x l.
  Proof.
    revert i. induction l as [|h t IH]; intros [|i] H; cbn [set_nth In] in *; try tauto.
    - destruct H as [->|H]; auto.
    - destruct H as [->|H]; auto. apply IH in H. tauto.
  Qed.
  Lemma in_remove2 {A} (l : list A) r x : In x (remove2 r l) -> In x l.
  Proof.
    unfold remove2. intros H. apply in_app_or in H as [H|H].
    - rewrite <- (firstn_skipn r l). apply in_or_app. now left.
    - rewrite <- (firstn_skipn (r + 2) l). apply in_or_app. now right.
  Qed.

  Lemma simp_step_incl l ai l' ai' x :
    simp_step eqb l ai = (l', ai') -> In x l' -> In x l.
  Proof.
    unfold simp_step. destruct (nth_error l ai) as [[i a]|]; [|intros H; now injection H as <- <-].
    destruct (find_remove eqb 0 false l a) as [r|]; [|intros H; now injection H as <- <-].
    destruct (nth_error l (S r)) as [y|] eqn:Ey; [|intros H; now injection H as <- <-].
    intros H Hin. injection H as <- <-. apply in_remove2, in_set_nth in Hin as [->|Hin]; [|assumption].
    eapply nth_error_In; eauto.
  Qed.

  Lemma simp_loop_incl fuel : forall l ai x, In x (simp_loop eqb fuel l ai) -> In x l.
  Proof.
    induction fuel as [|f IH]; intros l ai x H; [assumption|]. cbn [simp_loop] in H.
    destruct (Nat.ltb ai (length l)); [|assumption].
    destruct (simp_step eqb l ai) as [l' ai'] eqn:E. apply IH in H. eapply simp_step_incl; eauto.
  Qed.

  (** Every term of the simplified conflict is a term of the conflict. *)
  Lemma simplify_incl (m : list T) x : In x (simplify eqb m) -> In x m.
  Proof.
    unfold simplify, simplified_pairs. intros H. apply in_map_iff in H as ([i y] & <- & H).
    apply simp_loop_incl in H. cbn [snd].
    assert (G : forall k (l : list T) (p : nat * T), In p (enumerate_from k l) -> In (snd p) l).
    { intros k l. revert k. induction l as [|h t IHl]; intros k p Hp; [contradiction|].
      cbn [enumerate_from In] in *. destruct Hp as [<-|Hp]; [now left|right; eauto]. }
    apply (G _ _ _ H).
  Qed.

  (** ... and has a non-zero net count. *)
  Lemma simplified_nonzero (m : list T) x : Nat.odd (length m) = true ->
    In x (simplify eqb m) -> den eqb m x <> 0.
  Proof.
    intros Hodd Hin. rewrite <- (simplify_den eqb eqb_spec m x).
    pose proof (simplify_disjoint eqb eqb_spec m Hodd) as Hd.
    apply In_nth_error in Hin as [j Hj].
    destruct (Nat.even j) eqn:Ej.
    - (* an add: no remove equals it *)
      assert (H : den_s eqb false (simplify eqb m) x < 0).
      { apply (den_s_no_add eqb eqb_spec (simplify eqb m) x false).
        - intros k y Hy Hs. destruct (Nat.even k) eqn:Ek; [discriminate|].
          intros ->. apply (Hd j k x x); auto. now rewrite <- Nat.negb_even, Ek.
        - exists j. split; [assumption|]. now rewrite Ej. }
      change false with (negb true) in H. rewrite den_s_neg in H. unfold den. lia.
    - assert (H : den_s eqb true (simplify eqb m) x < 0).
      { apply (den_s_no_add eqb eqb_spec (simplify eqb m) x true).
        - intros k y Hy Hs. destruct (Nat.even k) eqn:Ek; [|discriminate].
          intros ->. apply (Hd k j x x); auto. now rewrite <- Nat.negb_even, Ej.
        - exists j. split; [assumption|]. now rewrite Ej. }
      unfold den. lia.
  Qed.

  (** If simplify cancels nothing it changes nothing. *)
  Lemma simp_loop_same fuel : forall l ai, Nat.even ai = true ->
    (length (simp_loop eqb fuel l ai) <= length l)%nat
    /\ (length (simp_loop eqb fuel l ai) = length l -> simp_loop eqb fuel l ai = l).
  Proof.
    induction fuel as [|f IH]; intros l ai Hev; [cbn [simp_loop]; split; [lia|reflexivity]|].
    cbn [simp_loop]. destruct (Nat.ltb ai (length l)); [|split; [lia|reflexivity]].
    destruct (simp_step eqb l ai) as [l' ai'] eqn:E.
    destruct (simp_step_den eqb eqb_spec l ai l' ai' Hev E) as (_ & Hev' & [[-> ->]|(Hl & -> & H2)]).
    - now apply IH.
    - destruct (IH l' ai Hev') as [A B]. split; [lia|]. intros C. lia.
  Qed.

  Lemma simplify_same_length (m : list T) : length (simplify eqb m) = length m -> simplify eqb m = m.
  Proof.
    unfold simplify, simplified_pairs. rewrite map_length. intros H.
    destruct (simp_loop_same (S (length m)) (enumerate_from 0 m) 0 eq_refl) as [_ B].
    rewrite B; [apply map_snd_enumerate|]. now rewrite length_enumerate.
  Qed.
End SimplifyMore.

Local Close Scope Z_scope.

(** * what the sides of an assembled merge hold at one name *)
Section Sides.
  Context (accept : bool).
  Notation tm := (tm accept).
  Context (F : N -> list oval) (K : nat).
  Hypothesis Kodd : Nat.odd K = true.

  Lemma lookups_assemble ns n : shaped accept F K ns ->
    map (lookup n) (assemble (es_of F ns))
    = if in_dec N.eq_dec n ns
      then match F n with [r] => repeat r (length (assemble (es_of F ns))) | c => c end
      else repeat None (length (assemble (es_of F ns))).
  Proof.
    intros S. unfold assemble.
    destruct (filter (fun e => negb (is_single (snd e))) (es_of F ns)) as [|c rest] eqn:E.
    - cbn [map length repeat]. rewrite lookup_side_tree.
      destruct (in_dec N.eq_dec n ns) as [I|I]; [|reflexivity].
      assert (Hs : is_single (F n) = true).
      { destruct (is_single (F n)) eqn:Es; [reflexivity|exfalso].
        assert (Hin : In (n, F n) (filter (fun e => negb (is_single (snd e))) (es_of F ns))).
        { apply filter_In. split; [apply in_map_iff; eauto|]. cbn [snd]. now rewrite Es. }
        rewrite E in Hin. contradiction. }
      destruct (shaped_single accept F K n ns S I Hs) as [r ->]. reflexivity.
    - assert (Hc : In c (filter (fun e => negb (is_single (snd e))) (es_of F ns))) by (rewrite E; now left).
      apply filter_In in Hc as [Hin Hns]. apply in_map_iff in Hin as (m & <- & Hm). cbn [snd] in *.
      assert (HK : length (F m) = K).
      { destruct (S m Hm) as [[r Hr]|[HK _]]; [rewrite Hr in Hns; discriminate|assumption]. }
      rewrite HK, map_length, seq_length, map_map.
      rewrite (map_ext _ (fun i => if in_dec N.eq_dec n ns then side_value i (F n) else None))
        by (intros i; apply lookup_side_tree).
      destruct (in_dec N.eq_dec n ns) as [I|I]; [|apply map_const_seq].
      destruct (S n I) as [[r Hr]|[HKn Hnone]].
      + rewrite Hr. cbn [side_value]. apply map_const_seq.
      + destruct (F n) as [|x [|y t]] eqn:EF.
        * cbn [length] in HKn. rewrite <- HKn in Kodd. discriminate.
        * rewrite tm_single in Hnone. discriminate.
        * rewrite <- HKn. rewrite <- (nth_seq_self (x :: y :: t) None) at 2.
          apply map_ext. intros i. reflexivity.
  Qed.
End Sides.

Section Rounds.
  Context (accept : bool) (content_merge : list N -> option N).
  Notation tm := (tm accept).
  Notation merge_vals := (merge_vals accept content_merge).
  Notation merge_dir := (merge_dir accept content_merge).
  Notation merge_dir_full := (merge_dir_full accept content_merge).
  Notation merge_trees := (merge_trees accept content_merge).
  Notation merge_path := (merge_path accept content_merge).
  Notation resolve_file_values := (resolve_file_values accept content_merge).
  Notation try_resolve_file_conflict := (try_resolve_file_conflict accept content_merge).
  Notation mvalue := (mvalue accept).
  Notation path_value := (path_value accept).
  Notation clash := (clash accept).
  Notation clash_above := (clash_above accept).
  Notation vals := (fun p ts => map (value_at p) ts).

  (** The values the sides of a merge hold at a path, against what path_value reads there. *)
  Definition reads_like (Y R : list oval) (k : nat) : Prop :=
    (exists r, R = [r] /\ Y = repeat r k)
    \/ (R = Y /\ forallb is_tree_term Y = true)
    \/ (R = Y /\ tm Y = None /\ is_tree Y = false /\ existsb is_dir (simplify oval_eqb Y) = false)
    \/ (R = [None] /\ forall u, den oval_eqb Y u = den oval_eqb [@None value] u).

  Lemma lookups_merge_dir f ts n : Nat.odd (length ts) = true ->
    map (lookup n) (merge_dir (S f) ts)
    = match merge_vals (merge_dir f) (map (lookup n) ts) with
      | [r] => repeat r (length (merge_dir (S f) ts))
      | c => c
      end.
  Proof.
    intros Hodd. rewrite merge_dir_S.
    rewrite (lookups_assemble accept _ (length ts) Hodd (names ts) n) by now apply merge_dir_shaped'.
    destruct (in_dec N.eq_dec n (names ts)) as [I|I]; [reflexivity|].
    rewrite (lookup_notin_names n ts I). unfold TreeMerge.merge_vals. now rewrite tm_repeat.
  Qed.

  Lemma map_repeat {A B} (g : A -> B) x k : map g (repeat x k) = repeat (g x) k.
  Proof. induction k as [|k IH]; [reflexivity|]. cbn [repeat map]. now rewrite IH. Qed.

  Lemma unsingle (c : list oval) k : tm c = None ->
    match c with [] => [] | [r] => repeat r k | r :: o :: l0 => r :: o :: l0 end = c.
  Proof. intros H. destruct c as [|x [|y t]]; try reflexivity. rewrite tm_single in H. discriminate. Qed.

  Lemma descend_of_tree q t : q <> [] -> descend q (of_tree t) = value_at q t.
  Proof.
    intros Hq. destruct t as [|e r]; [|reflexivity]. cbn [of_tree]. rewrite descend_none.
    destruct q as [|n q]; [congruence|]. unfold value_at. cbn [descend lookup]. now rewrite descend_none.
  Qed.

  Lemma den_below_files vs q : Nat.odd (length vs) = true -> q <> [] ->
    existsb is_dir (simplify oval_eqb vs) = false ->
    forall u, den oval_eqb (map (descend q) vs) u = den oval_eqb [@None value] u.
  Proof.
    intros Hodd Hq Hd u.
    rewrite (den_map_ext oval_eqb oval_eqb oval_eqb_spec (descend q) vs (simplify oval_eqb vs))
      by (intros v; symmetry; apply (simplify_den oval_eqb oval_eqb_spec)).
    rewrite map_descend_nondir by assumption.
    assert (Hs : Nat.odd (length (simplify oval_eqb vs)) = true).
    { destruct (simplify_arity oval_eqb oval_eqb_spec vs) as [A _].
      rewrite <- Nat.negb_even, A, Nat.negb_even. assumption. }
    unfold den. rewrite (den_s_repeat oval_eqb), Hs. cbn [den_s sg]. unfold MergeDen.ind.
    destruct (oval_eqb None u); reflexivity.
  Qed.

  Theorem reads_dir : forall p f ts,
    Nat.odd (length ts) = true -> (max_tdepth ts <= f)%nat -> p <> [] ->
    clash_above ts p = false -> clash (vals p ts) = false ->
    reads_like (vals p (merge_dir (S f) ts)) (path_value (merge_dir (S f) ts) p)
               (length (merge_dir (S f) ts)).
  Proof.
    induction p as [|n p IH]; intros f ts Hodd Hf Hp Hc Hcl; [congruence|].
    set (m := merge_dir (S f) ts) in *.
    set (vs := map (lookup n) ts) in *.
    assert (Hvs : Nat.odd (length vs) = true) by (unfold vs; now rewrite map_length).
    pose proof (lookups_merge_dir f ts n Hodd) as HL. fold m vs in HL.
    pose proof (mvalue_merge_dir accept content_merge f ts n Hodd) as HM. fold m vs in HM.
    destruct p as [|k p].
    - (* the entry itself *)
      rewrite map_value_at_one. cbn [TreeMerge.path_value]. rewrite HM, HL.
      rewrite map_value_at_one in Hcl. fold vs in Hcl.
      unfold TreeMerge.merge_vals in *.
      destruct (tm vs) as [r|] eqn:Etm; [left; eauto|].
      destruct (is_tree vs) eqn:Et.
      + set (c := map of_tree (merge_dir f (map to_tree vs))) in *.
        destruct (tm c) as [r|] eqn:Ec; [left; eauto|].
        destruct c as [|x [|y t]] eqn:Eqc; [| |].
        * right. left. split; reflexivity.
        * rewrite tm_single in Ec. discriminate.
        * right. left. split; [reflexivity|]. rewrite <- Eqc. unfold c. apply forallb_forall.
          intros o Ho. apply in_map_iff in Ho as (t' & <- & _). destruct t'; reflexivity.
      + unfold TreeMerge.resolve_file_values in *.
        destruct (try_resolve_file_conflict (simplify oval_eqb vs)) as [v|]; [rewrite tm_single; left; eauto|].
        rewrite Etm. destruct vs as [|x [|y t]] eqn:Eqv; [discriminate Hvs| |].
        * rewrite tm_single in Etm. discriminate.
        * right. right. left. rewrite <- Eqv in *. repeat split; auto.
          now apply (no_clash_facts accept).
    - (* below the entry *)
      rewrite clash_above_cons in Hc. apply Bool.orb_false_iff in Hc as [Hc1 Hc2]. fold vs in Hc1, Hc2.
      rewrite (map_value_at_descend m n (k :: p)), HL.
      unfold TreeMerge.merge_vals in HM, HL |- *.
      destruct (tm vs) as [r|] eqn:Etm.
      + left. exists (descend (k :: p) r). split.
        * rewrite (sub_tree_resolved accept _ n r k p HM). apply continue_descend. congruence.
        * now rewrite map_repeat.
      + destruct (is_tree vs) eqn:Et.
        * set (ts' := map to_tree vs) in *.
          assert (Hts' : Nat.odd (length ts') = true) by (unfold ts'; now rewrite map_length).
          destruct (nontrivial_tree_has_dir accept vs Hvs Etm Et) as [s0 Hs0].
          apply in_map_iff in Hs0 as (t0 & Hl0 & Hin0). apply to_tree_lookup_depth in Hl0.
          destruct f as [|g]; [rewrite max_tdepth_le, Forall_forall in Hf; apply Hf in Hin0; lia|].
          assert (Hg : (max_tdepth ts' <= g)%nat) by (apply max_tdepth_sub; assumption).
          assert (Hcl' : clash (vals (k :: p) ts') = false).
          { unfold ts', vs. rewrite <- map_value_at_sub by congruence. exact Hcl. }
          specialize (IH g ts' Hts' Hg ltac:(congruence) Hc2 Hcl').
          set (sub := merge_dir (S g) ts') in *.
          set (c := map of_tree sub) in *.
          assert (EY : map (descend (k :: p)) c = vals (k :: p) sub).
          { unfold c. rewrite map_map. apply map_ext. intros t. apply descend_of_tree. congruence. }
          destruct (tm c) as [r|] eqn:Ec.
          -- left. exists (descend (k :: p) r). split.
             ++ rewrite (sub_tree_resolved accept _ n r k p HM). apply continue_descend. congruence.
             ++ now rewrite map_repeat.
          -- assert (Hlen : length c = length m).
             { destruct c as [|x [|y t]] eqn:Eqc; [| |].
               - apply map_eq_nil in Eqc. unfold sub in Eqc.
                 destruct (merge_dir_length accept content_merge (S g) ts' Hts') as [L|L];
                   rewrite Eqc in L; cbn in L; [lia|]. rewrite <- L in Hts'. discriminate.
               - rewrite tm_single in Ec. discriminate.
               - rewrite <- HL. now rewrite map_length. }
             assert (Hpv : path_value m (n :: k :: p) = path_value sub (k :: p)).
             { rewrite path_value_cons. unfold TreeMerge.sub_tree. rewrite HM.
               assert (Hnt : is_tree c = true).
               { unfold is_tree. apply Bool.andb_true_iff. split.
                 - destruct c as [|[x|] [|y t]]; try reflexivity. rewrite tm_single in Ec. discriminate.
                 - apply forallb_forall. intros o Ho. apply in_map_iff in Ho as (t & <- & _).
                   destruct t; reflexivity. }
               destruct c as [|x [|y t]] eqn:Eqc.
               - apply map_eq_nil in Eqc. now rewrite Eqc.
               - rewrite tm_single in Ec. discriminate.
               - destruct x as [[| | |?]|]; rewrite Hnt; rewrite <- Eqc; unfold c;
                   rewrite map_to_tree_of_tree; reflexivity. }
             rewrite (unsingle c _ Ec), Hpv, EY. unfold c in Hlen. rewrite map_length in Hlen. rewrite <- Hlen. exact IH.
        * (* a conflict of files (after cancellation): the sides read absent below it *)
          pose proof (no_clash_facts accept vs Hc1 Etm Et) as Hd.
          right. right. right.
          assert (HR : path_value m (n :: k :: p) = [None]).
          { unfold TreeMerge.resolve_file_values in HM.
            destruct (try_resolve_file_conflict (simplify oval_eqb vs)) as [v|] eqn:Ef.
            - rewrite tm_single in HM. rewrite (sub_tree_resolved accept _ n (Some v) k p HM).
              apply try_resolve_is_file in Ef. destruct v; try reflexivity. discriminate.
            - rewrite Etm in HM. rewrite path_value_cons. unfold TreeMerge.sub_tree. rewrite HM.
              destruct vs as [|x [|y t]] eqn:E; [discriminate Hvs| |].
              + rewrite tm_single in Etm. discriminate.
              + destruct x as [[| | |?]|]; now rewrite Et. }
          split; [assumption|].
          unfold TreeMerge.resolve_file_values.
          destruct (try_resolve_file_conflict (simplify oval_eqb vs)) as [v|] eqn:Ef.
          -- rewrite tm_single. rewrite map_repeat. intros u.
             apply try_resolve_is_file in Ef. rewrite descend_nondir by (congruence || assumption).
             unfold den. rewrite (den_s_repeat oval_eqb).
             assert (Hm : Nat.odd (length m) = true).
             { unfold m. destruct (merge_dir_length accept content_merge (S f) ts Hodd) as [L|L]; rewrite L; auto. }
             rewrite Hm. cbn [den_s sg]. unfold MergeDen.ind. destruct (oval_eqb None u); reflexivity.
          -- rewrite Etm, (unsingle vs _ Etm). apply den_below_files; auto. congruence.
  Qed.

  (** * prefixes *)
  Lemma existsb_false {A} (f : A -> bool) l : existsb f l = false <-> forall x, In x l -> f x = false.
  Proof.
    split.
    - intros H x Hx. destruct (f x) eqn:E; [|reflexivity].
      assert (existsb f l = true) by (apply existsb_exists; eauto). congruence.
    - intros H. destruct (existsb f l) eqn:E; [|reflexivity].
      apply existsb_exists in E as (x & Hx & Hf). rewrite (H x Hx) in Hf. discriminate.
  Qed.

  Lemma prefixes_trans {A} (p q q' : list A) : In q (prefixes p) -> In q' (prefixes q) -> In q' (prefixes p).
  Proof.
    revert q q'. induction p as [|x t IH]; intros q q' Hq Hq'; [contradiction|].
    cbn [prefixes In] in Hq. destruct Hq as [<-|Hq]; [contradiction|].
    apply in_map_iff in Hq as (q0 & <- & Hq0). cbn [prefixes In] in Hq' |- *.
    destruct Hq' as [<-|Hq']; [now left|]. right.
    apply in_map_iff in Hq' as (q1 & <- & Hq1). apply in_map. eauto.
  Qed.

  Lemma clash_above_prefix ts p q : clash_above ts p = false -> In q (prefixes p) -> q <> [] ->
    clash (vals q ts) = false /\ clash_above ts q = false.
  Proof.
    unfold TreeMerge.clash_above. rewrite !existsb_false. intros H Hq Hne. split.
    - specialize (H q Hq). destruct q; [congruence|assumption].
    - intros q' Hq'. apply H. eapply prefixes_trans; eauto.
  Qed.

  (** * one round *)
  Definition resolves_to (ts : list tree) (p : list N) (v : oval) : Prop :=
    Nat.odd (length ts) = true /\ p <> [] /\ clash_above ts p = false /\ tm (vals p ts) = Some v.

  Lemma clash_of_resolved vs r : tm vs = Some r -> clash vs = false.
  Proof. intros H. unfold TreeMerge.clash. now rewrite H. Qed.

  Lemma merge_trees_odd ts : Nat.odd (length ts) = true -> Nat.odd (length (merge_trees ts)) = true.
  Proof.
    intros H. destruct (merge_trees_length accept content_merge ts H) as [L|L]; rewrite L; auto.
  Qed.

  Lemma first_round_reads ts p v : resolves_to ts p v -> path_value (merge_trees ts) p = [v].
  Proof.
    intros (Hodd & Hp & Hc & Hv). rewrite pathwise by assumption. now apply merge_path_resolved.
  Qed.

  Lemma all_eq_repeat {A} (l : list A) v : (forall x, In x l -> x = v) -> l = repeat v (length l).
  Proof.
    induction l as [|x t IH]; intros H; [reflexivity|]. cbn [length repeat].
    rewrite (H x (or_introl eq_refl)). f_equal. apply IH. intros y Hy. apply H. now right.
  Qed.

  Lemma den_none_single u v : (forall w, den oval_eqb u w = den oval_eqb [v] w) ->
    Nat.odd (length u) = true -> tm u = Some v.
  Proof.
    intros H Hodd. apply (trivial_merge_delta oval_eqb oval_eqb_spec); [assumption| |].
    - rewrite H. unfold den. cbn [den_s]. rewrite (proj2 (oval_eqb_spec v v) eq_refl). reflexivity.
    - intros w Hw. rewrite H. unfold den. cbn [den_s].
      destruct (oval_eqb v w) eqn:E; [apply oval_eqb_spec in E; congruence|reflexivity].
  Qed.

  Lemma vals_simplify_den (m : list tree) q u :
    den oval_eqb (vals q (simplify tree_eqb m)) u = den oval_eqb (vals q m) u.
  Proof.
    apply (den_map_ext tree_eqb oval_eqb tree_eqb_spec). intros t.
    apply (simplify_den tree_eqb tree_eqb_spec).
  Qed.

  Lemma vals_simplify_incl (m : list tree) q x : In x (vals q (simplify tree_eqb m)) -> In x (vals q m).
  Proof.
    intros H. apply in_map_iff in H as (t & <- & Ht). apply in_map. now apply simplify_incl in Ht.
  Qed.

  (** What the first round resolved stays resolved, to the same value, in the input of the
      next round. *)
  Lemma next_round ts p v : resolves_to ts p v ->
    is_single (merge_trees ts) = false ->
    resolves_to (simplify tree_eqb (merge_trees ts)) p v.
  Proof.
    intros HP Hns. pose proof (first_round_reads ts p v HP) as HR.
    destruct HP as (Hodd & Hp & Hc & Hv).
    assert (Em : merge_trees ts = merge_dir (S (max_tdepth ts)) ts).
    { unfold TreeMerge.merge_trees in *. destruct ts as [|t [|t2 r]]; [discriminate|discriminate|reflexivity]. }
    set (m := merge_trees ts) in *.
    set (s := simplify tree_eqb m).
    assert (Hm : Nat.odd (length m) = true) by now apply merge_trees_odd.
    assert (Hs : Nat.odd (length s) = true).
    { destruct (simplify_arity tree_eqb tree_eqb_spec m) as [A _].
      unfold s. rewrite <- Nat.negb_even, A, Nat.negb_even. assumption. }
    assert (Hreads : forall q, q <> [] -> clash_above ts q = false -> clash (vals q ts) = false ->
                               reads_like (vals q m) (path_value m q) (length m)).
    { intros q Hq Hcq Hclq. rewrite Em. now apply reads_dir. }
    split; [assumption|]. split; [assumption|]. split.
    - (* no clash above p in the simplified merge *)
      unfold TreeMerge.clash_above. apply existsb_false. intros q Hq.
      destruct q as [|k q]; [reflexivity|]. set (q' := k :: q) in *.
      destruct (clash_above_prefix ts p q' Hc Hq ltac:(unfold q'; congruence)) as [Hclq Hcq].
      specialize (Hreads q' ltac:(unfold q'; congruence) Hcq Hclq).
      set (X := vals q' s). set (Y := vals q' m) in *.
      assert (HXodd : Nat.odd (length X) = true) by (unfold X; now rewrite map_length).
      assert (HXY : forall u, den oval_eqb X u = den oval_eqb Y u) by (intros u; apply vals_simplify_den).
      assert (Hin : forall x, In x X -> In x Y) by (intros x; apply vals_simplify_incl).
      destruct Hreads as [(r & _ & HY)|[(_ & HY)|[(_ & HYt & HYi & HYd)|(_ & HY)]]].
      + apply (clash_of_resolved X r).
        rewrite (all_eq_repeat X r); [now apply tm_repeat|].
        intros x Hx. apply Hin in Hx. rewrite HY in Hx. now apply repeat_spec in Hx.
      + unfold TreeMerge.clash. destruct (tm X) eqn:EX; [reflexivity|].
        assert (is_tree X = true) as ->; [|reflexivity].
        unfold is_tree. apply Bool.andb_true_iff. split.
        * destruct X as [|[x|] [|y t]]; try reflexivity. rewrite tm_single in EX. discriminate.
        * apply forallb_forall. intros x Hx. rewrite forallb_forall in HY. apply HY. now apply Hin.
      + unfold TreeMerge.clash. destruct (tm X) eqn:EX; [reflexivity|].
        assert (existsb is_dir (simplify oval_eqb X) = false) as ->; [|apply Bool.andb_false_r].
        apply existsb_false. intros d Hd. destruct (is_dir d) eqn:Ed; [exfalso|reflexivity].
        apply (simplified_nonzero oval_eqb oval_eqb_spec X d HXodd Hd).
        rewrite HXY, <- (simplify_den oval_eqb oval_eqb_spec Y d).
        apply (den_notin oval_eqb oval_eqb_spec). intros Hin'.
        rewrite existsb_false in HYd. specialize (HYd d Hin'). congruence.
      + apply (clash_of_resolved X None). apply den_none_single; [|assumption].
        intros w. now rewrite HXY.
    - (* the simplified merge still resolves to v at p *)
      specialize (Hreads p Hp Hc (clash_of_resolved _ _ Hv)). rewrite HR in Hreads.
      set (X := vals p s). set (Y := vals p m) in *.
      assert (HXodd : Nat.odd (length X) = true) by (unfold X; now rewrite map_length).
      assert (HYlen : length Y = length m) by (unfold Y; now rewrite map_length).
      destruct Hreads as [(r & Er & HY)|[(EY & _)|[(EY & _)|(Er & HY)]]].
      + injection Er as <-. rewrite (all_eq_repeat X v); [now apply tm_repeat|].
        intros x Hx. apply vals_simplify_incl in Hx. fold Y in Hx. rewrite HY in Hx.
        now apply repeat_spec in Hx.
      + exfalso. rewrite <- EY in HYlen. cbn [length] in HYlen.
        destruct m as [|a [|b c]]; cbn [length is_single] in *; congruence.
      + exfalso. rewrite <- EY in HYlen. cbn [length] in HYlen.
        destruct m as [|a [|b c]]; cbn [length is_single] in *; congruence.
      + injection Er as ->. apply den_none_single; [|assumption].
        intros w. unfold X, s. rewrite vals_simplify_den. apply HY.
  Qed.

  (** * all rounds *)
  Theorem resolve_loop_keeps : forall fuel ts p v, (length ts <= fuel)%nat ->
    resolves_to ts p v -> path_value (resolve_loop accept content_merge fuel ts) p = [v].
  Proof.
    induction fuel as [|f IH]; intros ts p v Hlen HP.
    - destruct HP as (Hodd & _). destruct ts; [discriminate|cbn [length] in Hlen; lia].
    - cbn [resolve_loop].
      destruct (is_single (merge_trees ts)) eqn:Es; [now apply first_round_reads|].
      destruct (Nat.eqb_spec (length (simplify tree_eqb (merge_trees ts))) (length (merge_trees ts))) as [E|Hne].
      + rewrite (simplify_same_length tree_eqb tree_eqb_spec _ E). now apply first_round_reads.
      + pose proof (next_round ts p v HP Es) as HP'.
        destruct HP as (Hodd & _).
        pose proof (resolve_round_decreases accept content_merge ts Hodd Es Hne) as Hdec.
        apply IH; [lia|assumption].
  Qed.

  (** MergedTree::resolve (every round): a path that resolves trivially in the input, with
      no file/directory clash above it, reads that value in the returned tree. *)
  Theorem resolve_keeps ts p v : resolves_to ts p v ->
    path_value (resolve accept content_merge ts) p = [v].
  Proof. intros HP. unfold resolve. now apply resolve_loop_keeps. Qed.
End Rounds.
