(** Lemmas about the checkout-side file-system model (Base/FsC.v). *)
From Verif Require Import Base.Prelude Base.FsC.
From Coq Require Import Lia.
Local Open Scope string_scope.
Local Open Scope list_scope.

(** ** Paths *)

Lemma path_eqb_spec : forall p q : path, path_eqb p q = true <-> p = q.
Proof.
  unfold path_eqb. induction p as [|x p IH]; destruct q as [|y q]; cbn; try (split; congruence).
  rewrite Bool.andb_true_iff, IH. split.
  - intros [H1 H2]. apply String.eqb_eq in H1. congruence.
  - intros H. inversion H; subst. split; [apply String.eqb_refl | reflexivity].
Qed.

Lemma path_eqb_refl : forall p, path_eqb p p = true.
Proof. intros. apply path_eqb_spec. reflexivity. Qed.

Lemma path_eqb_neq : forall p q : path, path_eqb p q = false <-> p <> q.
Proof.
  intros. split.
  - intros H E. apply path_eqb_spec in E. congruence.
  - intros H. destruct (path_eqb p q) eqn:E; [apply path_eqb_spec in E; contradiction | reflexivity].
Qed.

Lemma path_eqb_sym : forall p q, path_eqb p q = path_eqb q p.
Proof.
  intros. destruct (path_eqb p q) eqn:E; symmetry.
  - apply path_eqb_spec in E. subst. apply path_eqb_refl.
  - apply path_eqb_neq. apply path_eqb_neq in E. congruence.
Qed.

Lemma path_dec : forall p q : path, {p = q} + {p <> q}.
Proof. intros. destruct (path_eqb p q) eqn:E; [left; now apply path_eqb_spec | right; now apply path_eqb_neq]. Qed.

Lemma is_prefix_spec : forall p q, is_prefix p q = true <-> exists r, q = p ++ r.
Proof.
  induction p as [|x p IH]; intros q; cbn.
  - split; [intros _; exists q; reflexivity | reflexivity].
  - destruct q as [|y q].
    + split; [discriminate | intros [r H]; discriminate].
    + rewrite Bool.andb_true_iff, IH. split.
      * intros [H1 [r H2]]. apply String.eqb_eq in H1. subst. exists r. reflexivity.
      * intros [r H]. inversion H; subst. split; [apply String.eqb_refl | exists r; reflexivity].
Qed.

Lemma is_prefix_refl : forall p, is_prefix p p = true.
Proof. intros. apply is_prefix_spec. exists []. now rewrite app_nil_r. Qed.

Lemma is_prefix_app : forall p r, is_prefix p (p ++ r) = true.
Proof. intros. apply is_prefix_spec. now exists r. Qed.

Lemma is_prefix_trans : forall p q r, is_prefix p q = true -> is_prefix q r = true -> is_prefix p r = true.
Proof.
  intros p q r H1 H2. apply is_prefix_spec in H1 as [a ->]. apply is_prefix_spec in H2 as [b ->].
  apply is_prefix_spec. exists (a ++ b). now rewrite app_assoc.
Qed.

Lemma is_prefix_nil_r : forall p, is_prefix p [] = true -> p = [].
Proof. destruct p; cbn; congruence. Qed.

Lemma is_strict_prefix_spec : forall p q,
  is_strict_prefix p q = true <-> exists x r, q = p ++ x :: r.
Proof.
  intros. unfold is_strict_prefix. rewrite Bool.andb_true_iff, Bool.negb_true_iff, is_prefix_spec, path_eqb_neq.
  split.
  - intros [[r ->] H]. destruct r as [|x r]; [rewrite app_nil_r in H; congruence | eauto].
  - intros [x [r ->]]. split; [eauto|]. intros H. apply (f_equal (@length _)) in H.
    rewrite app_length in H. cbn in H. lia.
Qed.

Lemma is_strict_prefix_prefix : forall p q, is_strict_prefix p q = true -> is_prefix p q = true.
Proof. unfold is_strict_prefix. intros p q H. now apply Bool.andb_true_iff in H. Qed.

Lemma is_strict_prefix_irrefl : forall p, is_strict_prefix p p = false.
Proof. intros. unfold is_strict_prefix. now rewrite path_eqb_refl, Bool.andb_false_r. Qed.

Lemma is_prefix_cases : forall p q, is_prefix p q = true -> p = q \/ is_strict_prefix p q = true.
Proof.
  intros p q H. destruct (path_dec p q) as [E|E]; [now left|right].
  unfold is_strict_prefix. rewrite H. cbn. apply Bool.negb_true_iff. now apply path_eqb_neq.
Qed.

Lemma parent_snoc : forall (p : path) x, parent (p ++ [x]) = p.
Proof. intros. unfold parent. apply removelast_last. Qed.

Lemma parent_last : forall p : path, p <> [] -> p = parent p ++ [last p ""].
Proof. intros. unfold parent. now apply app_removelast_last. Qed.

Lemma snoc_cases : forall p : path, p = [] \/ exists q x, p = q ++ [x].
Proof.
  intros p. destruct p as [|a p]; [now left|right].
  exists (removelast (a :: p)), (last (a :: p) ""). apply app_removelast_last. discriminate.
Qed.

Lemma parent_is_strict_prefix : forall p : path, p <> [] -> is_strict_prefix (parent p) p = true.
Proof.
  intros p H. apply is_strict_prefix_spec. exists (last p ""), []. now apply parent_last.
Qed.

(** A strict prefix of [q ++ [x]] is a prefix of [q]. *)
Lemma strict_prefix_snoc : forall p q x,
  is_strict_prefix p (q ++ [x]) = true -> is_prefix p q = true.
Proof.
  intros p q x H. apply is_strict_prefix_spec in H as [y [r H]].
  destruct (snoc_cases (y :: r)) as [E|[r' [z E]]]; [discriminate|].
  rewrite E, app_assoc in H. apply app_inj_tail in H as [H _]. subst. apply is_prefix_app.
Qed.

Lemma is_prefix_snoc : forall p q x,
  is_prefix p (q ++ [x]) = true -> p = q ++ [x] \/ is_prefix p q = true.
Proof.
  intros p q x H. apply is_prefix_cases in H as [H|H]; [now left|right].
  eapply strict_prefix_snoc; eauto.
Qed.

(** Two prefixes of the same path are comparable. *)
Lemma prefixes_comparable : forall p q r,
  is_prefix p r = true -> is_prefix q r = true -> is_prefix p q = true \/ is_prefix q p = true.
Proof.
  induction p as [|x p IH]; intros q r H1 H2; [now left|].
  destruct q as [|y q]; [now right|].
  destruct r as [|z r]; [discriminate|]. cbn in *.
  apply Bool.andb_true_iff in H1 as [A1 B1]. apply Bool.andb_true_iff in H2 as [A2 B2].
  apply String.eqb_eq in A1, A2. subst. rewrite String.eqb_refl. cbn. eauto.
Qed.

(** ** The map *)

Lemma lookup_In : forall (f : fs) p e, lookup f p = Some e -> In (p, e) f.
Proof.
  induction f as [|[q e'] f IH]; cbn; intros p e H; [discriminate|].
  destruct (path_eqb q p) eqn:E.
  - apply path_eqb_spec in E. inversion H; subst. now left.
  - right. eauto.
Qed.

Lemma In_lookup : forall (f : fs) p e, In (p, e) f -> exists e', lookup f p = Some e'.
Proof.
  induction f as [|[q e'] f IH]; cbn; intros p e H; [contradiction|].
  destruct (path_eqb q p) eqn:E; [eauto|].
  destruct H as [H|H]; [inversion H; subst; rewrite path_eqb_refl in E; discriminate | eauto].
Qed.

Lemma lookup_remove : forall f p q,
  lookup (fs_remove f p) q = if path_eqb p q then None else lookup f q.
Proof.
  unfold fs_remove. induction f as [|[r e] f IH]; intros p q; cbn.
  - now destruct (path_eqb p q).
  - destruct (path_eqb r p) eqn:E1; cbn.
    + apply path_eqb_spec in E1. subst. rewrite IH. now destruct (path_eqb p q).
    + rewrite IH. destruct (path_eqb r q) eqn:E2; [|reflexivity].
      apply path_eqb_spec in E2. subst. rewrite path_eqb_sym, E1. reflexivity.
Qed.

Lemma lookup_set : forall f p e q,
  lookup (fs_set f p e) q = if path_eqb p q then Some e else lookup f q.
Proof.
  intros. unfold fs_set. cbn. destruct (path_eqb p q) eqn:E; [reflexivity|].
  rewrite lookup_remove, E. reflexivity.
Qed.

Lemma has_child_spec : forall f p,
  has_child f p = true <-> exists x e, lookup f (p ++ [x]) = Some e.
Proof.
  intros f p. unfold has_child. rewrite existsb_exists. split.
  - intros [[q e] [Hin H]]. cbn in H. destruct q as [|a q]; [discriminate|].
    apply path_eqb_spec in H. apply In_lookup in Hin as [e' He'].
    exists (last (a :: q) ""), e'. rewrite <- H, <- parent_last by discriminate. exact He'.
  - intros [x [e H]]. apply lookup_In in H. exists (p ++ [x], e). split; [exact H|]. cbn.
    destruct (p ++ [x]) eqn:E; [destruct p; discriminate|]. rewrite <- E, parent_snoc. apply path_eqb_refl.
Qed.

Lemma has_child_false : forall f p,
  has_child f p = false <-> forall x, lookup f (p ++ [x]) = None.
Proof.
  intros. split.
  - intros H x. destruct (lookup f (p ++ [x])) eqn:E; [|reflexivity].
    assert (has_child f p = true) by (apply has_child_spec; eauto). congruence.
  - intros H. destruct (has_child f p) eqn:E; [|reflexivity].
    apply has_child_spec in E as [x [e E]]. rewrite H in E. discriminate.
Qed.

(** ** Chains of directories *)

Lemma dirs_below_app : forall f rest base x,
  dirs_below f base (rest ++ [x]) = dirs_below f base rest && is_dir f (base ++ rest ++ [x]).
Proof.
  induction rest as [|y rest IH]; intros base x; cbn.
  - now rewrite Bool.andb_true_r.
  - rewrite IH, <- !app_assoc. cbn. now rewrite Bool.andb_assoc.
Qed.

Lemma all_dirs_snoc : forall f p x, all_dirs f (p ++ [x]) = all_dirs f p && is_dir f (p ++ [x]).
Proof. intros. unfold all_dirs. now rewrite dirs_below_app. Qed.

Lemma all_dirs_nil : forall f, all_dirs f [] = true.
Proof. reflexivity. Qed.

(** [all_dirs f p]: every non-root prefix of [p] is a directory. *)
Lemma all_dirs_spec : forall f p,
  all_dirs f p = true <-> forall q, is_prefix q p = true -> is_dir f q = true.
Proof.
  intros f p. induction p as [|x p IH] using rev_ind.
  - split; [|reflexivity]. intros _ q H. apply is_prefix_nil_r in H. now subst.
  - rewrite all_dirs_snoc, Bool.andb_true_iff, IH. split.
    + intros [H1 H2] q Hq. apply is_prefix_snoc in Hq as [->|Hq]; eauto.
    + intros H. split.
      * intros q Hq. apply H. eapply is_prefix_trans; [exact Hq | apply is_prefix_app].
      * apply H. apply is_prefix_refl.
Qed.

Lemma all_dirs_prefix : forall f p q, all_dirs f p = true -> is_prefix q p = true -> all_dirs f q = true.
Proof.
  intros f p q H Hq. apply all_dirs_spec. intros r Hr. eapply all_dirs_spec; [exact H|].
  eapply is_prefix_trans; eauto.
Qed.

Lemma is_dir_ext : forall f f' q, lookup f' q = lookup f q -> is_dir f' q = is_dir f q.
Proof. intros f f' q H. unfold is_dir. now rewrite H. Qed.

(** [all_dirs] only looks at the prefixes of the path. *)
Lemma all_dirs_ext : forall f f' p,
  (forall q, is_prefix q p = true -> lookup f' q = lookup f q) -> all_dirs f' p = all_dirs f p.
Proof.
  intros f f' p. induction p as [|x p IH] using rev_ind; intros H; [reflexivity|].
  rewrite !all_dirs_snoc, IH.
  - f_equal. apply is_dir_ext. apply H. apply is_prefix_refl.
  - intros q Hq. apply H. eapply is_prefix_trans; [exact Hq | apply is_prefix_app].
Qed.

(** Entering one more directory keeps the chain. *)
Lemma all_dirs_step : forall f p x,
  all_dirs f p = true -> lookup f (p ++ [x]) = Some EDir -> all_dirs f (p ++ [x]) = true.
Proof.
  intros f p x H1 H2. rewrite all_dirs_snoc, H1. cbn. unfold is_dir. rewrite H2.
  destruct (p ++ [x]); reflexivity.
Qed.

Lemma safe_snoc : forall f p x, safe f (p ++ [x]) = all_dirs f p.
Proof.
  intros. unfold safe. destruct (p ++ [x]) eqn:E; [destruct p; discriminate|]. now rewrite <- E, parent_snoc.
Qed.

Lemma is_dir_lookup : forall f p, p <> [] -> (is_dir f p = true <-> lookup f p = Some EDir).
Proof.
  intros f p H. unfold is_dir. destruct p; [congruence|].
  destruct (lookup f (n :: p)) as [[| |]|]; split; congruence.
Qed.

(** In a well-formed disk a missing path has nothing below it. *)
Lemma wf_missing_no_child : forall f p, wf_fs f -> p <> [] -> lookup f p = None -> has_child f p = false.
Proof.
  intros f p Hwf Hp Hnone. apply has_child_false. intros x.
  destruct (lookup f (p ++ [x])) eqn:E; [|reflexivity].
  apply Hwf in E as [_ E]. rewrite parent_snoc in E.
  assert (is_dir f p = true) by (eapply all_dirs_spec; [exact E | apply is_prefix_refl]).
  apply is_dir_lookup in H; congruence.
Qed.

(** Likewise below a file or link. *)
Lemma wf_leaf_no_child : forall f p x e, wf_fs f -> lookup f (p ++ [x]) = Some e -> is_dir f p = true.
Proof.
  intros f p x e Hwf E. apply Hwf in E as [_ E]. rewrite parent_snoc in E.
  eapply all_dirs_spec; [exact E | apply is_prefix_refl].
Qed.

(** ** Point updates keep the disk well-formed *)

Definition upd (f f' : fs) (p : path) (v : option entry) : Prop :=
  forall q, lookup f' q = if path_eqb p q then v else lookup f q.

Lemma upd_other : forall f f' p v q, upd f f' p v -> q <> p -> lookup f' q = lookup f q.
Proof.
  intros f f' p v q H Hq. rewrite H. destruct (path_eqb p q) eqn:E; [|reflexivity].
  apply path_eqb_spec in E. congruence.
Qed.

Lemma upd_same : forall f f' p v, upd f f' p v -> lookup f' p = v.
Proof. intros f f' p v H. now rewrite H, path_eqb_refl. Qed.

Lemma upd_set : forall f p e, upd f (fs_set f p e) p (Some e).
Proof. intros f p e q. apply lookup_set. Qed.

Lemma upd_remove : forall f p, upd f (fs_remove f p) p None.
Proof. intros f p q. apply lookup_remove. Qed.

(** Chains of directories not passing through [p] are unaffected. *)
Lemma upd_all_dirs : forall f f' p v d,
  upd f f' p v -> is_prefix p d = false -> all_dirs f' d = all_dirs f d.
Proof.
  intros f f' p v d H Hp. apply all_dirs_ext. intros q Hq. eapply upd_other; [exact H|].
  intros ->. congruence.
Qed.

Lemma not_prefix_of_parent : forall p : path, p <> [] -> is_prefix p (parent p) = false.
Proof.
  intros p H. destruct (is_prefix p (parent p)) eqn:E; [|reflexivity].
  apply is_prefix_spec in E as [r E]. rewrite (parent_last p H) in E at 2.
  apply (f_equal (@length _)) in E. rewrite !app_length in E. cbn in E. lia.
Qed.

(** Putting an entry where no directory was, below a chain of directories. *)
Lemma wf_upd_some : forall f f' p e,
  wf_fs f -> upd f f' p (Some e) -> p <> [] -> all_dirs f (parent p) = true ->
  lookup f p <> Some EDir -> wf_fs f'.
Proof.
  intros f f' p e Hwf Hu Hp Hd Hnd q e' Hq.
  destruct (path_dec q p) as [->|Hne].
  - split; [exact Hp|]. rewrite (upd_all_dirs f f' p (Some e)); auto using not_prefix_of_parent.
  - rewrite (upd_other _ _ _ _ _ Hu Hne) in Hq. apply Hwf in Hq as [Hq1 Hq2]. split; [exact Hq1|].
    destruct (is_prefix p (parent q)) eqn:E.
    + exfalso. assert (is_dir f p = true) by (eapply all_dirs_spec; eauto).
      apply is_dir_lookup in H; auto.
    + rewrite (upd_all_dirs f f' p (Some e)); auto.
Qed.

(** Removing a file, a link, or an empty directory. *)
Lemma wf_upd_none : forall f f' p,
  wf_fs f -> upd f f' p None -> p <> [] ->
  (lookup f p <> Some EDir \/ has_child f p = false) -> wf_fs f'.
Proof.
  intros f f' p Hwf Hu Hp Hc q e' Hq.
  destruct (path_dec q p) as [->|Hne]; [rewrite (upd_same _ _ _ _ Hu) in Hq; discriminate|].
  rewrite (upd_other _ _ _ _ _ Hu Hne) in Hq. pose proof Hq as Hq0. apply Hwf in Hq as [Hq1 Hq2].
  split; [exact Hq1|].
  destruct (is_prefix p (parent q)) eqn:E.
  - exfalso. assert (Hdir : is_dir f p = true) by (eapply all_dirs_spec; eauto).
    apply is_dir_lookup in Hdir; auto. destruct Hc as [Hc|Hc]; [congruence|].
    (* some child of p lies on the way to q *)
    apply is_prefix_spec in E as [r E].
    assert (exists x r', q = p ++ x :: r') as [x [r' Hq']].
    { rewrite (parent_last q Hq1), E. destruct r as [|x r]; cbn.
      - exists (last q ""), []. now rewrite app_nil_r.
      - exists x, (r ++ [last q ""]). now rewrite <- app_assoc. }
    assert (Hx : exists e'', lookup f (p ++ [x]) = Some e'').
    { destruct r' as [|y r'] using rev_ind.
      - rewrite Hq' in Hq0. eauto.
      - assert (Hpp : is_prefix (p ++ [x]) (parent q) = true).
        { rewrite Hq'. replace (p ++ x :: r' ++ [y]) with ((p ++ x :: r') ++ [y]) by now rewrite <- app_assoc.
          rewrite parent_snoc. apply is_prefix_spec. exists r'. now rewrite <- app_assoc. }
        assert (Hd : is_dir f (p ++ [x]) = true) by (eapply all_dirs_spec; eauto).
        apply is_dir_lookup in Hd; [eauto | destruct p; discriminate]. }
    destruct Hx as [e'' Hx]. apply has_child_false with (x := x) in Hc. congruence.
  - rewrite (upd_all_dirs f f' p None); auto.
Qed.

(** ** Specifications of the primitives *)

Definition last_safe (w w' : world) (o : op) (p : path) (s : bool) : Prop :=
  w_tr w' = mkEv o p s :: w_tr w.

Lemma p_create_dir_spec : forall w p r w',
  p_create_dir w p = (r, w') ->
  last_safe w w' OCreateDir p (safe (w_fs w) p) /\
  ((r = POk /\ safe (w_fs w) p = true /\ lookup (w_fs w) p = None /\ w_fs w' = fs_set (w_fs w) p EDir)
   \/ (r = PExists /\ safe (w_fs w) p = true /\ lookup (w_fs w) p <> None /\ w_fs w' = w_fs w)
   \/ (r = PUnsafe /\ safe (w_fs w) p = false /\ w_fs w' = w_fs w)).
Proof.
  unfold p_create_dir, last_safe, log, with_fs. intros w p r w' H. cbn in H.
  destruct (safe (w_fs w) p); cbn in H.
  - destruct (lookup (w_fs w) p) eqn:E; inversion H; subst; cbn; split; auto.
    right; left. repeat split; auto. congruence.
  - inversion H; subst; cbn. split; auto.
Qed.

Lemma p_create_new_spec : forall w p r w',
  p_create_new w p = (r, w') ->
  last_safe w w' OCreateNew p (safe (w_fs w) p) /\
  ((r = POk /\ safe (w_fs w) p = true /\ lookup (w_fs w) p = None
    /\ w_fs w' = fs_set (w_fs w) p (EFile "" false))
   \/ (r = PExists /\ safe (w_fs w) p = true /\ lookup (w_fs w) p <> None /\ w_fs w' = w_fs w)
   \/ (r = PUnsafe /\ safe (w_fs w) p = false /\ w_fs w' = w_fs w)).
Proof.
  unfold p_create_new, last_safe, log, with_fs. intros w p r w' H. cbn in H.
  destruct (safe (w_fs w) p); cbn in H.
  - destruct (lookup (w_fs w) p) eqn:E; inversion H; subst; cbn; split; auto.
    right; left. repeat split; auto. congruence.
  - inversion H; subst; cbn. split; auto.
Qed.

Lemma p_symlink_spec : forall w p t r w',
  p_symlink w p t = (r, w') ->
  last_safe w w' OSymlink p (safe (w_fs w) p) /\
  ((r = POk /\ safe (w_fs w) p = true /\ lookup (w_fs w) p = None
    /\ w_fs w' = fs_set (w_fs w) p (ESym t))
   \/ (r = PExists /\ safe (w_fs w) p = true /\ lookup (w_fs w) p <> None /\ w_fs w' = w_fs w)
   \/ (r = PUnsafe /\ safe (w_fs w) p = false /\ w_fs w' = w_fs w)).
Proof.
  unfold p_symlink, last_safe, log, with_fs. intros w p t r w' H. cbn in H.
  destruct (safe (w_fs w) p); cbn in H.
  - destruct (lookup (w_fs w) p) eqn:E; inversion H; subst; cbn; split; auto.
    right; left. repeat split; auto. congruence.
  - inversion H; subst; cbn. split; auto.
Qed.

Lemma p_write_spec : forall w p c x r w',
  p_write w p c x = (r, w') ->
  last_safe w w' OWrite p (safe (w_fs w) p) /\
  ((r = POk /\ safe (w_fs w) p = true /\ (exists c0 x0, lookup (w_fs w) p = Some (EFile c0 x0))
    /\ w_fs w' = fs_set (w_fs w) p (EFile c x))
   \/ (r <> POk /\ w_fs w' = w_fs w
       /\ (r = PUnsafe <-> safe (w_fs w) p = false)
       /\ (safe (w_fs w) p = true -> forall c0 x0, lookup (w_fs w) p <> Some (EFile c0 x0)))).
Proof.
  unfold p_write, last_safe, log, with_fs. intros w p c x r w' H. cbn in H.
  destruct (safe (w_fs w) p); cbn in H.
  - destruct (lookup (w_fs w) p) as [[| |]|] eqn:E; inversion H; subst; cbn; split; auto.
    + left. repeat split; eauto.
    + right. repeat split; try congruence.
    + right. repeat split; try congruence.
    + right. repeat split; try congruence.
  - inversion H; subst; cbn. split; auto. right. repeat split; try congruence.
Qed.

Lemma p_remove_file_spec : forall w p r w',
  p_remove_file w p = (r, w') ->
  last_safe w w' ORemoveFile p (safe (w_fs w) p) /\
  ((r = POk /\ safe (w_fs w) p = true /\ is_leaf (lookup (w_fs w) p) = true
    /\ w_fs w' = fs_remove (w_fs w) p)
   \/ (r = PNotFound /\ safe (w_fs w) p = true /\ lookup (w_fs w) p = None /\ w_fs w' = w_fs w)
   \/ (r = PIsDir /\ safe (w_fs w) p = true /\ lookup (w_fs w) p = Some EDir /\ w_fs w' = w_fs w)
   \/ (r = PUnsafe /\ safe (w_fs w) p = false /\ w_fs w' = w_fs w)).
Proof.
  unfold p_remove_file, last_safe, log, with_fs. intros w p r w' H. cbn in H.
  destruct (safe (w_fs w) p); cbn in H.
  - destruct (lookup (w_fs w) p) as [[| |]|] eqn:E; inversion H; subst; cbn; split; auto.
    + right; right; left. auto.
    + right; left. auto.
  - inversion H; subst; cbn. split; auto. right; right; right. auto.
Qed.

Lemma p_remove_dir_spec : forall w p r w',
  p_remove_dir w p = (r, w') ->
  (p <> [] -> last_safe w w' ORemoveDir p (safe (w_fs w) p)) /\
  (p = [] -> last_safe w w' ORemoveDir p (has_child (w_fs w) [])) /\
  ((r = POk /\ p <> [] /\ safe (w_fs w) p = true /\ lookup (w_fs w) p = Some EDir
    /\ has_child (w_fs w) p = false /\ w_fs w' = fs_remove (w_fs w) p)
   \/ (r <> POk /\ w_fs w' = w_fs w
       /\ (r = PUnsafe <-> (if path_eqb p [] then negb (has_child (w_fs w) []) else negb (safe (w_fs w) p)) = true))).
Proof.
  unfold p_remove_dir, last_safe, log, with_fs. intros w p r w' H. destruct p as [|a p].
  - cbn in H. destruct (has_child (w_fs w) []); inversion H; subst; cbn;
      (split; [congruence|]); (split; [auto|]); right; repeat split; try congruence.
  - cbn [path_eqb list_eqb]. remember (safe (w_fs w) (a :: p)) as s eqn:Hs.
    remember (a :: p) as ap eqn:Hap. cbn [w_fs w_tr] in H.
    assert (Hne : ap <> []) by (subst; discriminate).
    destruct s; cbn [negb] in H.
    + destruct (lookup (w_fs w) ap) as [[| |]|] eqn:E; try (inversion H; subst r w'; cbn;
        (split; [auto|]); (split; [congruence|]); right; repeat split; congruence).
      destruct (has_child (w_fs w) ap) eqn:Hc; inversion H; subst r w'; cbn;
        (split; [auto|]); (split; [congruence|]).
      * right; repeat split; congruence.
      * left. repeat split; auto.
    + inversion H; subst r w'; cbn. (split; [auto|]); (split; [congruence|]). right; repeat split; congruence.
Qed.

Lemma p_lstat_spec : forall w p r w',
  p_lstat w p = (r, w') ->
  last_safe w w' OLstat p (safe (w_fs w) p) /\ w_fs w' = w_fs w /\
  ((r = LUnsafe /\ safe (w_fs w) p = false)
   \/ (safe (w_fs w) p = true /\
       match lookup (w_fs w) p with Some e => r = LSome e | None => r = LNone end)).
Proof.
  unfold p_lstat, last_safe, log. intros w p r w' H. cbn in H.
  destruct (safe (w_fs w) p); cbn in H.
  - destruct (lookup (w_fs w) p) eqn:E; inversion H; subst; cbn; repeat split; auto.
  - inversion H; subst; cbn. repeat split; auto.
Qed.

(** Forward form for the cases where the state is known. *)
Lemma p_remove_dir_empty : forall w p,
  p <> [] -> safe (w_fs w) p = true -> lookup (w_fs w) p = Some EDir -> has_child (w_fs w) p = false ->
  p_remove_dir w p = (POk, mkW (fs_remove (w_fs w) p) (mkEv ORemoveDir p true :: w_tr w)).
Proof.
  intros w p Hp Hs Hl Hc. unfold p_remove_dir. destruct p as [|a p]; [congruence|].
  remember (a :: p) as ap. unfold log, with_fs. cbn [w_fs w_tr]. rewrite Hs. cbn [negb]. rewrite Hl, Hc. reflexivity.
Qed.

Lemma p_lstat_q_spec : forall w p r w',
  p_lstat_q w p = (r, w') ->
  last_safe w w' OLstatQ p (safe (w_fs w) p) /\ w_fs w' = w_fs w /\
  ((r = LUnsafe /\ safe (w_fs w) p = false)
   \/ (safe (w_fs w) p = true /\
       match lookup (w_fs w) p with Some e => r = LSome e | None => r = LNone end)).
Proof.
  unfold p_lstat_q, last_safe, log. intros w p r w' H. cbn in H.
  destruct (safe (w_fs w) p); cbn in H.
  - destruct (lookup (w_fs w) p) eqn:E; inversion H; subst; cbn; repeat split; auto.
  - inversion H; subst; cbn. repeat split; auto.
Qed.
