(** C13 — the name-indexed maps of a view: what [merge_wc], [merge_bookmarks] and the
    reference updates compute, name by name (lifting the per-name theorems of Proofs/C13.v to
    whole views), and the workspace part of the no-loss checker on the model's own output. *)
From Coq Require Import Lia.
From Verif Require Import Base.Prelude Model.Merge Model.C13 Proofs.C13.

(** * Sorted association lists (BTreeMap order) *)
Fixpoint sortedk {V} (l : list (N * V)) : Prop :=
  match l with
  | [] => True
  | (k, _) :: t => (forall k', In k' (map fst t) -> (k < k')%N) /\ sortedk t
  end.

Lemma lookup_n_notin {V} (l : list (N * V)) k : ~ In k (map fst l) -> lookup_n l k = None.
Proof.
  induction l as [|[k1 v1] t IH]; cbn; [reflexivity|]. intros H.
  destruct (N.eqb k1 k) eqn:E; [apply N.eqb_eq in E; subst; tauto|]. apply IH. tauto.
Qed.

Lemma lookup_n_in {V} (l : list (N * V)) k v : lookup_n l k = Some v -> In k (map fst l).
Proof.
  induction l as [|[k1 v1] t IH]; cbn; [discriminate|].
  destruct (N.eqb k1 k) eqn:E; [apply N.eqb_eq in E; auto|auto].
Qed.

Lemma lookup_insert_n {V} k (v : V) l k' :
  lookup_n (insert_n k v l) k' = if N.eqb k k' then Some v else lookup_n l k'.
Proof.
  induction l as [|[k1 v1] t IH]; cbn; [reflexivity|].
  destruct (N.ltb k k1) eqn:E1; cbn; [reflexivity|].
  destruct (N.eqb k k1) eqn:E2; cbn.
  - apply N.eqb_eq in E2. subst k1. destruct (N.eqb k k'); reflexivity.
  - rewrite IH. destruct (N.eqb k1 k') eqn:E3; [|reflexivity].
    destruct (N.eqb k k') eqn:E4; [|reflexivity].
    apply N.eqb_eq in E3, E4. subst. rewrite N.eqb_refl in E2. discriminate.
Qed.

Lemma insert_n_keys {V} k (v : V) l x :
  In x (map fst (insert_n k v l)) -> x = k \/ In x (map fst l).
Proof.
  induction l as [|[k1 v1] t IH]; cbn; [intros [<-|[]]; now left|].
  destruct (N.ltb k k1); cbn; [intros [<-|H]; auto|]. destruct (N.eqb k k1) eqn:E; cbn.
  - apply N.eqb_eq in E. subst. intros [<-|H]; auto.
  - intros [H|H]; [auto|]. destruct (IH H); auto.
Qed.

Lemma sortedk_insert {V} k (v : V) l : sortedk l -> sortedk (insert_n k v l).
Proof.
  induction l as [|[k1 v1] t IH]; cbn; [intros _; split; [intros ? []|exact I]|].
  intros [H1 H2]. destruct (N.ltb k k1) eqn:E1.
  - apply N.ltb_lt in E1. cbn. split; [|split; assumption].
    intros k' [<-|H]; [assumption|]. specialize (H1 k' H). lia.
  - destruct (N.eqb k k1) eqn:E2.
    + apply N.eqb_eq in E2. subst. cbn. split; assumption.
    + apply N.ltb_ge in E1. apply N.eqb_neq in E2. cbn. split; [|auto].
      intros k' Hk'. destruct (insert_n_keys _ _ _ _ Hk') as [->|H]; [lia|auto].
Qed.

Lemma remove_n_keys {V} k (l : list (N * V)) x : In x (map fst (remove_n k l)) -> In x (map fst l).
Proof.
  induction l as [|[k1 v1] t IH]; cbn; [tauto|].
  destruct (N.eqb k k1); cbn; tauto.
Qed.

Lemma sortedk_remove {V} k (l : list (N * V)) : sortedk l -> sortedk (remove_n k l).
Proof.
  induction l as [|[k1 v1] t IH]; cbn; [tauto|]. intros [H1 H2].
  destruct (N.eqb k k1); [assumption|]. cbn. split; [|auto].
  intros k' Hk'. apply H1. eapply remove_n_keys; eauto.
Qed.

Lemma lookup_remove_n {V} k (l : list (N * V)) k' :
  sortedk l -> lookup_n (remove_n k l) k' = if N.eqb k k' then None else lookup_n l k'.
Proof.
  induction l as [|[k1 v1] t IH]; cbn; [now destruct (N.eqb k k')|]. intros [H1 H2].
  destruct (N.eqb k k1) eqn:E1.
  - apply N.eqb_eq in E1. subst k1. destruct (N.eqb k k') eqn:E2; [|reflexivity].
    apply N.eqb_eq in E2. subst k'. apply lookup_n_notin. intros H. specialize (H1 k H). lia.
  - cbn. rewrite (IH H2). destruct (N.eqb k1 k') eqn:E3; [|reflexivity].
    destruct (N.eqb k k') eqn:E4; [|reflexivity].
    apply N.eqb_eq in E3, E4. subst. rewrite N.eqb_refl in E1. discriminate.
Qed.

Lemma sortedk_nodup {V} (l : list (N * V)) : sortedk l -> NoDup (map fst l).
Proof.
  induction l as [|[k v] t IH]; cbn; [constructor|]. intros [H1 H2]. constructor; [|auto].
  intros H. specialize (H1 k H). lia.
Qed.

Lemma lookup_set_opt {V} k (v : option V) l k' :
  sortedk l -> lookup_n (set_opt k v l) k' = if N.eqb k k' then v else lookup_n l k'.
Proof.
  intros Hs. destruct v as [x|]; cbn; [apply lookup_insert_n|now apply lookup_remove_n].
Qed.

Lemma sortedk_set_opt {V} k (v : option V) l : sortedk l -> sortedk (set_opt k v l).
Proof. destruct v; cbn; [apply sortedk_insert|apply sortedk_remove]. Qed.

(** * One pass over distinct names *)
Definition memk (k : N) (l : list N) : bool := existsb (N.eqb k) l.

Lemma memk_In k l : memk k l = true <-> In k l.
Proof.
  unfold memk. rewrite existsb_exists. split.
  - intros (x & Hx & E). apply N.eqb_eq in E. now subst.
  - intros H. exists k. split; [assumption|apply N.eqb_refl].
Qed.

Lemma fold_names {V} (g : option V -> N -> option V) names : forall acc k,
  NoDup names -> sortedk acc ->
  let r := fold_left (fun acc name => set_opt name (g (lookup_n acc name) name) acc) names acc in
  sortedk r /\ lookup_n r k = if memk k names then g (lookup_n acc k) k else lookup_n acc k.
Proof.
  induction names as [|n rest IH]; intros acc k Hnd Hs; cbn [fold_left memk existsb].
  - auto.
  - inversion Hnd as [|? ? Hn Hrest]; subst.
    set (acc' := set_opt n (g (lookup_n acc n) n) acc).
    assert (Hs' : sortedk acc') by (now apply sortedk_set_opt).
    destruct (IH acc' k Hrest Hs') as [H1 H2]. split; [exact H1|].
    rewrite H2. unfold acc'. rewrite !lookup_set_opt by assumption.
    rewrite (N.eqb_sym k n).
    destruct (N.eqb n k) eqn:E; cbn [orb].
    + apply N.eqb_eq in E. subst k.
      assert (memk n rest = false) as ->; [|reflexivity].
      destruct (memk n rest) eqn:Em; [|reflexivity]. apply memk_In in Em. contradiction.
    + reflexivity.
Qed.

Lemma union_keys_In a b k : In k (union_keys a b) <-> In k a \/ In k b.
Proof.
  induction a as [|x a IH]; cbn; [tauto|].
  destruct (existsb (N.eqb x) b) eqn:E.
  - rewrite IH. split; [tauto|]. intros [[<-|H]|H]; auto.
    right. apply (memk_In x b). exact E.
  - cbn. rewrite IH. tauto.
Qed.

Lemma union_keys_nodup a b : NoDup a -> NoDup b -> NoDup (union_keys a b).
Proof.
  induction a as [|x a IH]; cbn; [auto|]. intros Ha Hb. inversion Ha; subst.
  destruct (existsb (N.eqb x) b) eqn:E; [auto|]. constructor; [|auto].
  rewrite union_keys_In. intros [H|H]; [contradiction|].
  apply (memk_In x b) in H. unfold memk in H. congruence.
Qed.

Lemma filter_nodup {A} (f : A -> bool) l : NoDup l -> NoDup (filter f l).
Proof.
  induction 1; cbn; [constructor|]. destruct (f x); [|assumption].
  constructor; [|assumption]. rewrite filter_In. tauto.
Qed.

Lemma changed_names_spec {V} (eqb : V -> V -> bool) (base other : list (N * V)) k :
  (forall x, option_eqb eqb x x = true) ->
  memk k (changed_names eqb base other)
  = negb (option_eqb eqb (lookup_n base k) (lookup_n other k)).
Proof.
  intros Hrefl. unfold changed_names.
  destruct (memk k (filter _ _)) eqn:E.
  - apply memk_In in E. apply filter_In in E. now destruct E as [_ ->].
  - destruct (option_eqb eqb (lookup_n base k) (lookup_n other k)) eqn:E2; [reflexivity|].
    exfalso. assert (Hin : In k (union_keys (map fst base) (map fst other))).
    { apply union_keys_In.
      destruct (lookup_n base k) eqn:Eb; [left; eapply lookup_n_in; eauto|].
      destruct (lookup_n other k) eqn:Eo; [right; eapply lookup_n_in; eauto|].
      cbn in E2. discriminate. }
    assert (memk k (filter (fun k0 => negb (option_eqb eqb (lookup_n base k0) (lookup_n other k0)))
                           (union_keys (map fst base) (map fst other))) = true).
    { apply memk_In. apply filter_In. split; [assumption|]. now rewrite E2. }
    congruence.
Qed.

Lemma changed_names_nodup {V} (eqb : V -> V -> bool) (base other : list (N * V)) :
  sortedk base -> sortedk other -> NoDup (changed_names eqb base other).
Proof.
  intros Hb Ho. unfold changed_names. apply filter_nodup.
  apply union_keys_nodup; now apply sortedk_nodup.
Qed.

(** * Working copies, name by name *)
Theorem merge_wc_pointwise self base other name :
  sortedk self -> sortedk base -> sortedk other ->
  sortedk (merge_wc self base other)
  /\ lookup_n (merge_wc self base other) name
     = if wc_eqb (lookup_n base name) (lookup_n other name) then lookup_n self name
       else merge_wc1 (lookup_n self name) (lookup_n base name) (lookup_n other name).
Proof.
  intros Hs Hb Ho. unfold merge_wc.
  pose proof (fold_names (fun cur n => merge_wc1 cur (lookup_n base n) (lookup_n other n))
                         (changed_names commit_eqb base other) self name
                         (changed_names_nodup _ _ _ Hb Ho) Hs) as [H1 H2].
  split; [exact H1|]. rewrite H2.
  rewrite (changed_names_spec commit_eqb base other name).
  - fold wc_eqb. destruct (wc_eqb (lookup_n base name) (lookup_n other name)); reflexivity.
  - intros x. apply (eqb_refl_of _ wc_eqb_iff).
Qed.

(** * Bookmarks, name by name *)
Lemma target_of_set_target name t l k :
  sortedk l ->
  target_of (lookup_n (set_target name t l) k)
  = if N.eqb name k then t else target_of (lookup_n l k).
Proof.
  intros Hs. unfold set_target. destruct (target_eqb t absent) eqn:E.
  - rewrite lookup_remove_n by assumption. destruct (N.eqb name k); [|reflexivity].
    apply target_eqb_iff in E. now subst.
  - rewrite lookup_insert_n. destruct (N.eqb name k); reflexivity.
Qed.

Lemma sortedk_set_target name t l : sortedk l -> sortedk (set_target name t l).
Proof. unfold set_target. destruct (target_eqb t absent); [apply sortedk_remove|apply sortedk_insert]. Qed.

Lemma fold_targets (g : target -> N -> target) names : forall acc k,
  NoDup names -> sortedk acc ->
  let r := fold_left (fun acc name => set_target name (g (target_of (lookup_n acc name)) name) acc) names acc in
  sortedk r /\ target_of (lookup_n r k)
               = if memk k names then g (target_of (lookup_n acc k)) k else target_of (lookup_n acc k).
Proof.
  induction names as [|n rest IH]; intros acc k Hnd Hs; cbn [fold_left memk existsb].
  - auto.
  - inversion Hnd as [|? ? Hn Hrest]; subst.
    set (acc' := set_target n (g (target_of (lookup_n acc n)) n) acc).
    assert (Hs' : sortedk acc') by (now apply sortedk_set_target).
    destruct (IH acc' k Hrest Hs') as [H1 H2]. split; [exact H1|].
    rewrite H2. unfold acc'. rewrite !target_of_set_target by assumption.
    rewrite (N.eqb_sym k n).
    destruct (N.eqb n k) eqn:E; cbn [orb].
    + apply N.eqb_eq in E. subst k.
      assert (memk n rest = false) as ->; [|reflexivity].
      destruct (memk n rest) eqn:Em; [|reflexivity]. apply memk_In in Em. contradiction.
    + reflexivity.
Qed.

(** Stored targets are never the absent target (BTreeMap entries are removed instead). *)
Definition no_absent (l : list (N * target)) : Prop := forall k t, In (k, t) l -> t <> absent.

Lemma lookup_n_In {V} (l : list (N * V)) k v : lookup_n l k = Some v -> In (k, v) l.
Proof.
  induction l as [|[k1 v1] t IH]; cbn; [discriminate|].
  destruct (N.eqb k1 k) eqn:E; [apply N.eqb_eq in E; intros H; inversion H; subst; auto|auto].
Qed.

Lemma target_of_eq_lookup (l1 l2 : list (N * target)) k :
  no_absent l1 -> no_absent l2 ->
  option_eqb target_eqb (lookup_n l1 k) (lookup_n l2 k)
  = target_eqb (target_of (lookup_n l1 k)) (target_of (lookup_n l2 k)).
Proof.
  intros H1 H2.
  destruct (lookup_n l1 k) as [t1|] eqn:E1, (lookup_n l2 k) as [t2|] eqn:E2; cbn [option_eqb target_of].
  - reflexivity.
  - apply lookup_n_In in E1. apply H1 in E1. symmetry. now apply (eqb_false_of _ target_eqb_iff).
  - apply lookup_n_In in E2. apply H2 in E2. symmetry. apply (eqb_false_of _ target_eqb_iff). congruence.
  - symmetry. apply (eqb_refl_of _ target_eqb_iff).
Qed.

Theorem merge_bookmarks_pointwise self base other name :
  sortedk self -> sortedk base -> sortedk other -> no_absent base -> no_absent other ->
  let tv l := target_of (lookup_n l name) in
  sortedk (merge_bookmarks self base other)
  /\ tv (merge_bookmarks self base other)
     = if target_eqb (tv base) (tv other) then tv self
       else merge_ref_targets (tv self) (tv base) (tv other).
Proof.
  intros Hs Hb Ho Nb No tv. unfold merge_bookmarks.
  pose proof (fold_targets (fun cur n => merge_ref_targets cur (target_of (lookup_n base n))
                                                          (target_of (lookup_n other n)))
                           (changed_names target_eqb base other) self name
                           (changed_names_nodup _ _ _ Hb Ho) Hs) as [H1 H2].
  split; [exact H1|]. unfold tv. rewrite H2.
  rewrite (changed_names_spec target_eqb base other name).
  - rewrite (target_of_eq_lookup base other name Nb No).
    destruct (target_eqb (target_of (lookup_n base name)) (target_of (lookup_n other name))); reflexivity.
  - intros x. apply (eqb_refl_of _ (option_eqb_iff _ target_eqb_iff)).
Qed.

(** * The workspace test of the checker holds of the model's own reconciled view *)
Lemma record_rewrites_same_change old new c n :
  lookup_rw (record_rewrites old new) c = Some (Rewritten n) -> change_of n = change_of c.
Proof.
  unfold record_rewrites.
  set (removed := filter _ (ancs old)). set (added := filter _ (ancs new)).
  induction removed as [|r rest IH]; cbn; [discriminate|].
  destruct (filter (fun n0 => N.eqb (change_of n0) (change_of r)) added) as [|n1 [|n2 l]] eqn:Ef; cbn.
  - destruct (commit_eqb r c); [discriminate|exact IH].
  - destruct (commit_eqb r c) eqn:E; [|exact IH].
    apply commit_eqb_iff in E. subst r. intros H. inversion H; subst n1.
    assert (Hin : In n (filter (fun n0 => N.eqb (change_of n0) (change_of c)) added))
      by (rewrite Ef; now left).
    apply filter_In in Hin. destruct Hin as [_ Hin]. now apply N.eqb_eq in Hin.
  - destruct (commit_eqb r c); [discriminate|exact IH].
Qed.

Lemma record_rewrites_target_fresh old new c n :
  lookup_rw (record_rewrites old new) c = Some (Rewritten n) -> ~ In n (ancs old).
Proof.
  unfold record_rewrites.
  set (removed := filter _ (ancs old)).
  induction removed as [|r rest IH]; cbn; [discriminate|].
  destruct (filter (fun n0 => N.eqb (change_of n0) (change_of r))
                   (filter (fun c0 => negb (memc c0 (ancs old))) (ancs new))) as [|n1 [|n2 l]] eqn:Ef; cbn.
  - destruct (commit_eqb r c); [discriminate|exact IH].
  - destruct (commit_eqb r c) eqn:E; [|exact IH].
    intros H. inversion H; subst n1.
    assert (Hin : In n (filter (fun n0 => N.eqb (change_of n0) (change_of r))
                               (filter (fun c0 => negb (memc c0 (ancs old))) (ancs new))))
      by (rewrite Ef; now left).
    apply filter_In in Hin. destruct Hin as [Hin _]. apply filter_In in Hin. destruct Hin as [_ Hin].
    apply negb_true_iff in Hin. intros Hm. apply memc_In in Hm. congruence.
  - destruct (commit_eqb r c); [discriminate|exact IH].
Qed.

Lemma record_rewrites_keys old new c rw :
  lookup_rw (record_rewrites old new) c = Some rw -> In c (ancs old).
Proof.
  unfold record_rewrites.
  set (removed := filter _ (ancs old)).
  assert (Hsub : forall x, In x removed -> In x (ancs old)) by (intros x Hx; apply filter_In in Hx; tauto).
  induction removed as [|r rest IH]; cbn; [discriminate|].
  match goal with |- context [match ?f with _ => _ end] => destruct f as [|n1 [|n2 l]] end; cbn;
    (destruct (commit_eqb r c) eqn:E;
     [apply commit_eqb_iff in E; subst; intros _; apply Hsub; now left
     |apply IH; intros x Hx; apply Hsub; now right]).
Qed.

Lemma lookup_rw_app m1 m2 c :
  lookup_rw (m1 ++ m2) c = match lookup_rw m1 c with Some r => Some r | None => lookup_rw m2 c end.
Proof.
  induction m1 as [|[k v] t IH]; cbn; [reflexivity|]. destruct (commit_eqb k c); auto.
Qed.

Lemma lookup_n_map {V W} (f : V -> W) (l : list (N * V)) k :
  lookup_n (map (fun kv => (fst kv, f (snd kv))) l) k = option_map f (lookup_n l k).
Proof.
  induction l as [|[k1 v1] t IH]; cbn; [reflexivity|]. destruct (N.eqb k1 k); [reflexivity|exact IH].
Qed.

Lemma change_of_cons_go x t (go : commit -> commit) : change_of (x :: go t) = change_of (x :: t).
Proof. destruct x. reflexivity. Qed.

Lemma resolve_step m f c :
  resolve m (S f) c =
  match lookup_rw m c with
  | Some (Rewritten n) => resolve m f n
  | Some (Divergent _) => c
  | Some Abandoned => match c with [] => [] | _ :: t => resolve m (S f) t end
  | None => match c with [] => [] | x :: t => x :: resolve m (S f) t end
  end.
Proof. destruct c; reflexivity. Qed.

(** Following the recorded rewrites keeps a commit's change id, unless the commit itself was
    abandoned (then it is replaced by its parent). *)
Lemma resolve_change s b o e :
  let m := rewrites_of s b o in
  lookup_rw m e <> Some Abandoned ->
  change_of (resolve m (S (length m)) e) = change_of e.
Proof.
  intros m Hna.
  assert (Hkeys : forall c rw, lookup_rw m c = Some rw -> In c (ancs (v_heads b))).
  { intros c rw H. unfold m, rewrites_of in H. rewrite lookup_rw_app in H.
    destruct (lookup_rw (record_rewrites (v_heads b) (v_heads o)) c) eqn:E1.
    - eapply record_rewrites_keys; eauto.
    - eapply record_rewrites_keys; eauto. }
  assert (Hrw : forall c n, lookup_rw m c = Some (Rewritten n) ->
                change_of n = change_of c /\ lookup_rw m n = None).
  { intros c n H. unfold m, rewrites_of in H. rewrite lookup_rw_app in H.
    assert (Hn : change_of n = change_of c /\ ~ In n (ancs (v_heads b))).
    { destruct (lookup_rw (record_rewrites (v_heads b) (v_heads o)) c) eqn:E1.
      - inversion H; subst r. split; [eapply record_rewrites_same_change; eauto
                                     |eapply record_rewrites_target_fresh; eauto].
      - split; [eapply record_rewrites_same_change; eauto
               |eapply record_rewrites_target_fresh; eauto]. }
    destruct Hn as [Hc Hf]. split; [assumption|].
    destruct (lookup_rw m n) eqn:En; [|reflexivity]. exfalso. apply Hf. eapply Hkeys; eauto. }
  assert (Hlen : lookup_rw m e <> None -> exists f, length m = S f).
  { intros H. destruct m; [now cbn in H|]. cbn. eauto. }
  rewrite resolve_step.
  destruct (lookup_rw m e) as [[n|ns|]|] eqn:El.
  - destruct (Hrw e n El) as [Hc Hn]. destruct Hlen as (f & ->); [discriminate|].
    rewrite resolve_step, Hn. destruct n as [|y u]; [assumption|]. rewrite <- Hc. now destruct y.
  - reflexivity.
  - congruence.
  - destruct e as [|x t]; [reflexivity|]. now destruct x.
Qed.

(** What the reconciled view holds for a workspace, and that the checker's workspace test
    accepts it. *)
Theorem merge_views_wc s b o v name :
  merge_views s b o = Some v ->
  sortedk (v_wc s) -> sortedk (v_wc b) -> sortedk (v_wc o) ->
  lookup_n (v_wc v) name
  = option_map (update_wc (rewrites_of s b o)
                          (resolve (rewrites_of s b o) (S (length (rewrites_of s b o)))))
      (if wc_eqb (lookup_n (v_wc b) name) (lookup_n (v_wc o) name) then lookup_n (v_wc s) name
       else merge_wc1 (lookup_n (v_wc s) name) (lookup_n (v_wc b) name) (lookup_n (v_wc o) name)).
Proof.
  unfold merge_views. fold (rewrites_of s b o). intros H Hs Hb Ho.
  destruct (has_divergent (rewrites_of s b o)); [discriminate|].
  inversion H; subst v; clear H. cbn [v_wc]. rewrite lookup_n_map.
  destruct (merge_wc_pointwise (v_wc s) (v_wc b) (v_wc o) name Hs Hb Ho) as [_ ->]. reflexivity.
Qed.

Theorem model_passes_wc_check s b o v name :
  merge_views s b o = Some v ->
  sortedk (v_wc s) -> sortedk (v_wc b) -> sortedk (v_wc o) ->
  wc_ok s b o v name = true.
Proof.
  intros H Hs Hb Ho. unfold wc_ok. rewrite (merge_views_wc s b o v name H Hs Hb Ho).
  fold wc_eqb.
  set (e := if wc_eqb (lookup_n (v_wc b) name) (lookup_n (v_wc o) name) then lookup_n (v_wc s) name
            else merge_wc1 (lookup_n (v_wc s) name) (lookup_n (v_wc b) name) (lookup_n (v_wc o) name)).
  destruct e as [c|]; cbn [option_map]; [|reflexivity].
  unfold update_wc.
  destruct (lookup_rw (rewrites_of s b o) c) as [[n|ns|]|] eqn:El;
    try (rewrite (resolve_change s b o c) by (rewrite El; discriminate); now rewrite N.eqb_refl).
  cbn [change_of]. unfold fresh_change. now rewrite N.eqb_refl, orb_true_r.
Qed.

(** * Bookmarks of the reconciled view, name by name *)
Lemma fold_right_targets (f : target -> target) (l : list (N * target)) k :
  sortedk l ->
  let r := fold_right (fun kv acc => set_target (fst kv) (f (snd kv)) acc) [] l in
  sortedk r /\ target_of (lookup_n r k) = match lookup_n l k with Some t => f t | None => absent end.
Proof.
  induction l as [|[k1 t1] t IH]; cbn [fold_right fst snd].
  - intros _. split; [exact I|reflexivity].
  - intros [H1 H2]. destruct (IH H2) as [Hs Hl]. split; [now apply sortedk_set_target|].
    rewrite target_of_set_target by assumption. cbn [lookup_n].
    destruct (N.eqb k1 k); [reflexivity|exact Hl].
Qed.

Lemma update_bookmark_absent res : update_bookmark res absent = absent.
Proof. reflexivity. Qed.

Definition tval (name : N) (w : view) : target := target_of (lookup_n (v_bookmarks w) name).

Theorem merge_views_bookmarks s b o v name :
  merge_views s b o = Some v ->
  sortedk (v_bookmarks s) -> sortedk (v_bookmarks b) -> sortedk (v_bookmarks o) ->
  no_absent (v_bookmarks b) -> no_absent (v_bookmarks o) ->
  tval name v
  = update_bookmark (resolve (rewrites_of s b o) (S (length (rewrites_of s b o))))
      (if target_eqb (tval name b) (tval name o) then tval name s
       else merge_ref_targets (tval name s) (tval name b) (tval name o)).
Proof.
  unfold merge_views. fold (rewrites_of s b o).
  set (res := resolve (rewrites_of s b o) (S (length (rewrites_of s b o)))).
  intros H Hs Hb Ho Nb No.
  destruct (has_divergent (rewrites_of s b o)); [discriminate|].
  injection H as <-. unfold tval at 1. cbn [v_bookmarks].
  destruct (merge_bookmarks_pointwise (v_bookmarks s) (v_bookmarks b) (v_bookmarks o) name Hs Hb Ho Nb No)
    as [Hsm Hpt].
  set (bm := merge_bookmarks (v_bookmarks s) (v_bookmarks b) (v_bookmarks o)) in *.
  destruct (fold_right_targets (update_bookmark res) bm name Hsm) as [_ Hf].
  rewrite Hf. cbv zeta in Hpt. unfold tval. rewrite <- Hpt.
  destruct (lookup_n bm name); reflexivity.
Qed.
