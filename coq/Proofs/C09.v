(** C09: squash / absorb / split never alter the snapshots above. *)
From Verif Require Import Base.Prelude Model.Merge.
From Verif Require Import Proofs.MergeDen Proofs.C01 Proofs.C02 Proofs.TrivialMap.
From Verif Require Import Model.TreeMerge Model.TreeCase Model.Rebase Model.C09.
From Verif Require Import Proofs.TreeValue Proofs.TreeMerge Proofs.C07 Proofs.C08.
From Coq Require Import Lia Arith.

(** * the tree-id level identities of squash (resolved trees) *)
Section Simplify5.
  Context {T : Type} (eqb : T -> T -> bool).
  Hypothesis eqb_spec : forall x y, eqb x y = true <-> x = y.

  Ltac eqbs :=
    repeat match goal with
           | |- context [eqb ?a ?a] => rewrite (eqb_refl eqb eqb_spec a)
           | |- context [eqb ?a ?b] => rewrite (eqb_false eqb eqb_spec a b) by congruence
           end.
  Ltac crunch := unfold simplify, simplified_pairs; cbn [length enumerate_from];
                 repeat (cbn; eqbs); try reflexivity.

  (** [x; d; s; x; d]: the rewritten source [s; x; d] (source minus the selected change)
      rebased from the old destination [d] onto the new destination [x]. *)
  Lemma simplify_xdsxd x d s : simplify eqb [x; d; s; x; d] = [s].
  Proof.
    destruct (eq_dec eqb eqb_spec x d) as [->|Hxd];
      destruct (eq_dec eqb eqb_spec d s) as [->|Hds];
      try destruct (eq_dec eqb eqb_spec x s) as [->|Hxs]; crunch.
  Qed.

  (** [s; x; d] with [x = s] (everything selected) is [d]; with [x = d] (nothing) is [s]. *)
  Lemma simplify_ssd s d : simplify eqb [s; s; d] = [d].
  Proof. apply (simplify_bba eqb eqb_spec). Qed.
  Lemma simplify_sdd s d : simplify eqb [s; d; d] = [s].
  Proof. apply (simplify_abb eqb eqb_spec). Qed.
End Simplify5.

Section C09.
  Context (accept : bool) (content_merge : list N -> option N).
  Notation merged_tree_merge := (merged_tree_merge accept content_merge).
  Notation rebase_tree := (rebase_tree accept content_merge).

  (** Squashing the whole commit [s] into its only parent [d]: the new destination's tree
      [d - d + s] is [s] itself. *)
  Theorem squash_full_dest (d s : tree) : merged_tree_merge [[d]; [d]; [s]] = [s].
  Proof. apply base_identity_right. Qed.

  (** Squashing a selection [x] into the only parent [d]: the destination becomes [x]. *)
  Theorem squash_partial_dest (d x : tree) : merged_tree_merge [[d]; [d]; [x]] = [x].
  Proof. apply base_identity_right. Qed.

  (** ... and if the rewritten source stays the three-sided conflict [s; x; d], rebasing it
      from [d] onto the new destination [x] gives back exactly [s]. *)
  Theorem squash_partial_source_formal (d x s : tree) : rebase_tree [x] [d] [s; x; d] = [s].
  Proof.
    unfold Rebase.rebase_tree, TreeMerge.merged_tree_merge, merge_no_resolve.
    cbn [flatten flatten_rest neg_inner rotate_left1 swap_pairs app].
    rewrite (simplify_xdsxd tree_eqb tree_eqb_spec). reflexivity.
  Qed.

  (** * one row *)
  Context (tab : list ctree) (t : list (list nat * list tree)).
  Notation row_tree := (row_tree accept content_merge tab t).

  (** reparent: absorb's source, split's second commit *)
  Theorem keep_row origin ps : row_tree origin KKeep ps = Some (tab_tree t origin).
  Proof. reflexivity. Qed.

  (** A descendant whose new parents carry the trees of its old parents keeps its tree. *)
  Theorem rebase_row_keeps origin ps :
    map (tab_tree t) ps = map (tab_tree t) (tab_parents t origin) ->
    row_tree origin KRebase ps = Some (tab_tree t origin).
  Proof. intros E. cbn [C09.row_tree]. unfold rebased_tree. now apply same_parents. Qed.
End C09.

(** * any number of descendants *)
Section Stack.
  Context (accept : bool) (content_merge : list N -> option N) (tab : list ctree).

  (** Rows of rebased descendants, processed in index order; each new commit is appended to
      the table with the tree the model computes. *)
  Fixpoint run (t : list (list nat * list tree)) (rows : list (nat * list nat))
    : option (list (list nat * list tree)) :=
    match rows with
    | [] => Some t
    | (o, ps) :: rest =>
        match row_tree accept content_merge tab t o KRebase ps with
        | Some tr => run (t ++ [(ps, tr)]) rest
        | None => None
        end
    end.

  (** [kept K t]: every pair (old, new) of [K] has identical trees in [t]. *)
  Definition kept (K : list (nat * nat)) (t : list (list nat * list tree)) : Prop :=
    forall o n, In (o, n) K -> tab_tree t n = tab_tree t o.
  (** The new parents of a row are the old parents, each either unchanged or replaced by
      its kept version. *)
  Definition follows (K : list (nat * nat)) (old_ps new_ps : list nat) : Prop :=
    Forall2 (fun op np => op = np \/ In (op, np) K) old_ps new_ps.

  Lemma tab_tree_app t e i : (i < length t)%nat -> tab_tree (t ++ [e]) i = tab_tree t i.
  Proof. intros H. unfold tab_tree. now rewrite app_nth1. Qed.
  Lemma tab_tree_app_gen t u i : (i < length t)%nat -> tab_tree (t ++ u) i = tab_tree t i.
  Proof. intros H. unfold tab_tree. now rewrite app_nth1. Qed.
  Lemma tab_tree_new t ps tr : tab_tree (t ++ [(ps, tr)]) (length t) = tr.
  Proof. unfold tab_tree. rewrite app_nth2, Nat.sub_diag by lia. reflexivity. Qed.

  Lemma follows_trees K t old_ps new_ps :
    kept K t -> follows K old_ps new_ps -> map (tab_tree t) new_ps = map (tab_tree t) old_ps.
  Proof.
    intros HK HF. induction HF as [|op np ol nl [->|Hin] _ IH]; [reflexivity| |]; cbn [map]; rewrite IH;
      [reflexivity|]. now rewrite (HK op np Hin).
  Qed.

  (** The table the operation left behind ([t0]: the original commits and the rewritten
      commits that received changes) and the descendants rebased afterwards, in index order.
      Origins are commits of [t0]; the new parents of each row follow the pairs kept so far
      (each old parent unchanged, or replaced by its kept version). *)
  Context (t0 : list (list nat * list tree)).

  Fixpoint stack_ok (K : list (nat * nat)) (len : nat) (rows : list (nat * list nat)) : Prop :=
    match rows with
    | [] => True
    | (o, ps) :: rest =>
        (o < length t0)%nat /\ follows K (tab_parents t0 o) ps
        /\ stack_ok (K ++ [(o, len)]) (S len) rest
    end.

  Lemma tab_tree_prefix ext i : (i < length t0)%nat -> tab_tree (t0 ++ ext) i = tab_tree t0 i.
  Proof. intros H. unfold tab_tree. now rewrite app_nth1. Qed.
  Lemma tab_parents_prefix ext i : (i < length t0)%nat -> tab_parents (t0 ++ ext) i = tab_parents t0 i.
  Proof. intros H. unfold tab_parents. now rewrite app_nth1. Qed.

  Lemma run_keeps : forall rows ext K,
    kept K (t0 ++ ext) ->
    (forall a b, In (a, b) K -> a < length (t0 ++ ext) /\ b < length (t0 ++ ext))%nat ->
    stack_ok K (length (t0 ++ ext)) rows ->
    exists ext', run (t0 ++ ext) rows = Some (t0 ++ ext ++ ext')
                 /\ forall j o ps, nth_error rows j = Some (o, ps) ->
                                   tab_tree (t0 ++ ext ++ ext') (length (t0 ++ ext) + j) = tab_tree t0 o.
  Proof.
    induction rows as [|[o ps] rest IH]; intros ext K HK HR HS.
    - exists []. rewrite app_nil_r. split; [reflexivity|]. intros j o ps H. destruct j; discriminate.
    - cbn [stack_ok] in HS. destruct HS as (Ho & HF & HS).
      set (t := t0 ++ ext) in *.
      assert (Hot : (o < length t)%nat) by (unfold t; rewrite app_length; lia).
      cbn [run]. rewrite rebase_row_keeps.
      2:{ unfold t at 3. rewrite tab_parents_prefix by assumption. now apply (follows_trees K). }
      unfold t at 2. rewrite tab_tree_prefix by assumption.
      set (e := (ps, tab_tree t0 o)).
      assert (Et : t ++ [e] = t0 ++ (ext ++ [e])) by (unfold t; now rewrite app_assoc).
      assert (HK1 : kept (K ++ [(o, length t)]) (t0 ++ (ext ++ [e]))).
      { rewrite <- Et. intros a b Hin. apply in_app_or in Hin as [Hin|[Hin|[]]].
        - destruct (HR a b Hin) as [Ha Hb]. rewrite !tab_tree_app by assumption. now apply HK.
        - injection Hin as <- <-. unfold e. rewrite tab_tree_new, tab_tree_app by assumption.
          unfold t. symmetry. now apply tab_tree_prefix. }
      assert (HR1 : forall a b, In (a, b) (K ++ [(o, length t)]) ->
                                (a < length (t0 ++ (ext ++ [e])) /\ b < length (t0 ++ (ext ++ [e])))%nat).
      { rewrite <- Et, app_length. cbn [length]. intros a b Hin. apply in_app_or in Hin as [Hin|[Hin|[]]].
        - destruct (HR a b Hin). lia.
        - injection Hin as <- <-. lia. }
      assert (L1 : length (t0 ++ (ext ++ [e])) = S (length t)).
      { rewrite <- Et, app_length. cbn [length]. lia. }
      destruct (IH (ext ++ [e]) (K ++ [(o, length t)]) HK1 HR1) as (ext' & Hrun & Hj).
      { rewrite L1. exact HS. }
      exists ([e] ++ ext'). rewrite Et, Hrun. rewrite <- !app_assoc. split; [reflexivity|].
      intros j o' ps' Hn. destruct j as [|j].
      + cbn [nth_error] in Hn. injection Hn as <- <-. rewrite Nat.add_0_r.
        rewrite (app_assoc t0 ext), (app_assoc (t0 ++ ext)). fold t.
        rewrite tab_tree_app_gen by (rewrite app_length; cbn [length]; lia).
        unfold e. apply tab_tree_new.
      + cbn [nth_error] in Hn. specialize (Hj j o' ps' Hn). rewrite L1 in Hj.
        rewrite <- !app_assoc in Hj. cbn [app] in Hj |- *.
        replace (length t + S j)%nat with (S (length t) + j)%nat by lia. exact Hj.
  Qed.

  (** C09_descendants_keep: after the operation, every rebased descendant — any number of
      them, merge commits included — has exactly the tree it had. *)
  Theorem descendants_keep rows K :
    kept K t0 ->
    (forall a b, In (a, b) K -> a < length t0 /\ b < length t0)%nat ->
    stack_ok K (length t0) rows ->
    exists t', run t0 rows = Some t'
               /\ forall j o ps, nth_error rows j = Some (o, ps) ->
                                 tab_tree t' (length t0 + j) = tab_tree t0 o.
  Proof.
    intros HK HR HS. destruct (run_keeps rows [] K) as (ext' & Hrun & Hj); rewrite ?app_nil_r; auto.
    rewrite app_nil_r in Hrun. cbn [app] in *. exists (t0 ++ ext'). split; [assumption|].
    intros j o ps Hn. specialize (Hj j o ps Hn). now rewrite app_nil_r in Hj.
  Qed.
End Stack.

(** * meaning of the checker *)
Theorem okb_spec (c : case) :
  C09.okb c = true <->
  (forall r, In r (c_rows c) -> r_tree r <> None)
  /\ (out_of_statement c = false ->
      forall o n, In (o, n) (c_keep c ++ c_keep_side c) ->
        let t := ext_table c (length (c_rows c)) in
        tab_tree t (N.to_nat n) = tab_tree t (N.to_nat o)).
Proof.
  unfold C09.okb. rewrite Bool.andb_true_iff, Bool.orb_true_iff, <- forallb_app, !forallb_forall. split.
  - intros [A B]. split.
    + intros r Hr. specialize (A r Hr). destruct (r_tree r); congruence.
    + intros Hs o n Hin. destruct B as [B|B]; [congruence|]. specialize (B (o, n) Hin).
      unfold kept_ok in B. cbn [fst snd] in B. now apply trees_eqb_spec.
  - intros [A B]. split.
    + intros r Hr. specialize (A r Hr). destruct (r_tree r); congruence.
    + destruct (out_of_statement c); [now left|right]. intros [o n] Hin. unfold kept_ok. cbn [fst snd].
      apply trees_eqb_spec. now apply B.
Qed.
