(** Whole-tree cancellation identities of MergedTree::merge for conflicts of any arity, from
    the completeness of Merge::simplify (Proofs/SimplifyDisjoint.v): a merge whose net
    counts are those of one resolved tree [x] is exactly [x]. *)
From Verif Require Import Base.Prelude Model.Merge.
From Verif Require Import Proofs.MergeDen Proofs.C01 Proofs.C02 Proofs.TrivialMap Proofs.SimplifyDisjoint.
From Verif Require Import Model.TreeMerge Model.Rebase.
From Verif Require Import Proofs.TreeValue Proofs.TreeMerge Proofs.C07 Proofs.C08.
From Coq Require Import Lia Arith.
Local Open Scope Z_scope.

Section Identities.
  Context (accept : bool) (content_merge : list N -> option N).
  Notation mtm := (merged_tree_merge accept content_merge).

  Lemma den_single (x v : tree) : den tree_eqb [x] v = ind tree_eqb x v.
  Proof. unfold den, ind. cbn [den_s]. destruct (tree_eqb x v); reflexivity. Qed.

  (** Any merge of three MergedTrees whose net counts are those of the resolved tree [x]. *)
  Lemma merge3_delta (a b c : list tree) (x : tree) :
    Nat.odd (length a) = true -> Nat.odd (length b) = true -> Nat.odd (length c) = true ->
    (forall v, den tree_eqb a v - den tree_eqb b v + den tree_eqb c v = ind tree_eqb x v) ->
    mtm [a; b; c] = [x].
  Proof.
    intros Ha Hb Hc Hd. unfold merged_tree_merge, merge_no_resolve.
    rewrite (simplify_delta tree_eqb tree_eqb_spec (flatten [a; b; c]) x).
    - reflexivity.
    - rewrite length_flatten3. now apply odd_add3.
    - rewrite den_flatten3, Hd, (ind_same tree_eqb tree_eqb_spec) by assumption. reflexivity.
    - intros w Hw. rewrite den_flatten3, Hd, (ind_diff tree_eqb tree_eqb_spec) by (assumption || congruence).
      reflexivity.
  Qed.

  (** C07_base_identity for a conflicted base: merge [x; B; B] = x = merge [B; B; x]. *)
  Theorem base_identity_general (x : tree) (b : list tree) : Nat.odd (length b) = true ->
    mtm [[x]; b; b] = [x] /\ mtm [b; b; [x]] = [x].
  Proof.
    intros Hb. split; apply merge3_delta; auto; intros v; rewrite den_single; lia.
  Qed.

  (** The rewritten source of a partial squash, kept as the formal conflict s - x + d, comes
      back as exactly [s] when rebased from [d] onto [x] — for conflicted [x] and [d] too. *)
  Theorem squash_source_formal_general (x d : list tree) (s : tree) :
    Nat.odd (length x) = true -> Nat.odd (length d) = true ->
    rebase_tree accept content_merge x d (flatten [[s]; x; d]) = [s].
  Proof.
    intros Hx Hd. unfold rebase_tree. apply merge3_delta; auto.
    - rewrite length_flatten3. now apply odd_add3.
    - intros v. rewrite den_flatten3, den_single by auto. lia.
  Qed.
End Identities.
