(** Consequences of C02 ([trivial_merge] is a function of the net counts) used by the tree
    and rewrite models: mapping the terms of a trivially resolvable conflict through any
    function keeps it trivially resolvable, to the image of the resolution. *)
From Verif Require Import Base.Prelude Model.Merge Proofs.MergeDen Proofs.C01 Proofs.C02.
From Coq Require Import Lia Arith.
Local Open Scope Z_scope.

Section Sums.
  Context {T : Type} (eqb : T -> T -> bool).
  Hypothesis eqb_spec : forall x y, eqb x y = true <-> x = y.
  Notation ind := (ind eqb).

  Fixpoint sumZ (f : T -> Z) (keys : list T) : Z :=
    match keys with [] => 0 | k :: r => f k + sumZ f r end.

  Lemma sumZ_ext f g keys : (forall k, In k keys -> f k = g k) -> sumZ f keys = sumZ g keys.
  Proof.
    induction keys as [|k r IH]; intros H; [reflexivity|]. cbn [sumZ].
    rewrite (H k (or_introl eq_refl)), IH; [reflexivity|]. intros; apply H; now right.
  Qed.
  Lemma sumZ_plus f g keys : sumZ (fun k => f k + g k) keys = sumZ f keys + sumZ g keys.
  Proof. induction keys as [|k r IH]; cbn [sumZ]; lia. Qed.
  Lemma sumZ_scale c f keys : sumZ (fun k => c * f k) keys = c * sumZ f keys.
  Proof. induction keys as [|k r IH]; cbn [sumZ]; lia. Qed.
  Lemma sumZ_zero f keys : (forall k, In k keys -> f k = 0) -> sumZ f keys = 0.
  Proof.
    induction keys as [|k r IH]; intros H; [reflexivity|]. cbn [sumZ].
    rewrite (H k (or_introl eq_refl)), IH; [reflexivity|]. intros; apply H; now right.
  Qed.

  (** Picking out one key of a duplicate-free list. *)
  Lemma sumZ_ind x f keys :
    NoDup keys -> In x keys -> sumZ (fun k => ind x k * f k) keys = f x.
  Proof.
    induction keys as [|k r IH]; intros ND Hin; [contradiction|].
    inversion ND as [|? ? Hn Hr]; subst. cbn [sumZ]. destruct Hin as [->|Hin].
    - rewrite (ind_same eqb eqb_spec). rewrite sumZ_zero; [lia|].
      intros k Hk. rewrite (ind_diff eqb eqb_spec); [lia|]. intros ->. contradiction.
    - rewrite (ind_diff eqb eqb_spec) by (intros ->; contradiction). rewrite IH by assumption. lia.
  Qed.

  Lemma sumZ_one x f keys :
    NoDup keys -> In x keys -> (forall k, In k keys -> k <> x -> f k = 0) -> sumZ f keys = f x.
  Proof.
    intros ND Hin H. rewrite <- (sumZ_ind x f keys ND Hin). apply sumZ_ext. intros k Hk.
    destruct (eq_dec eqb eqb_spec x k) as [->|Hne].
    - rewrite (ind_same eqb eqb_spec). lia.
    - rewrite (ind_diff eqb eqb_spec) by assumption. rewrite H; auto.
  Qed.

  Lemma sumZ_two x y f keys :
    NoDup keys -> In x keys -> In y keys -> x <> y ->
    (forall k, In k keys -> k <> x -> k <> y -> f k = 0) -> sumZ f keys = f x + f y.
  Proof.
    intros ND Hx Hy Hxy H.
    assert (E : sumZ f keys = sumZ (fun k => ind x k * f k + ind y k * f k) keys).
    { apply sumZ_ext. intros k Hk.
      destruct (eq_dec eqb eqb_spec x k) as [->|Hx'].
      - rewrite (ind_same eqb eqb_spec), (ind_diff eqb eqb_spec) by congruence. lia.
      - rewrite (ind_diff eqb eqb_spec x k) by assumption.
        destruct (eq_dec eqb eqb_spec y k) as [->|Hy'].
        + rewrite (ind_same eqb eqb_spec). lia.
        + rewrite (ind_diff eqb eqb_spec) by assumption. rewrite H; auto. }
    rewrite E, sumZ_plus, !sumZ_ind by assumption. reflexivity.
  Qed.
End Sums.

Section Map.
  Context {T U : Type} (eqT : T -> T -> bool) (eqU : U -> U -> bool).
  Hypothesis eqT_spec : forall x y, eqT x y = true <-> x = y.
  Hypothesis eqU_spec : forall x y, eqU x y = true <-> x = y.
  Context (g : T -> U).

  (** Push-forward of the net counts along [g]. *)
  Lemma den_s_map keys : NoDup keys -> forall l s u, incl l keys ->
    den_s eqU s (map g l) u = sumZ (fun k => den_s eqT s l k * ind eqU (g k) u) keys.
  Proof.
    intros ND. induction l as [|x t IH]; intros s u Hincl.
    - cbn [map den_s]. symmetry. apply sumZ_zero. intros; lia.
    - cbn [map]. rewrite den_s_cons, IH by (intros k Hk; apply Hincl; now right).
      rewrite (sumZ_ext (fun k => den_s eqT s (x :: t) k * ind eqU (g k) u)
                 (fun k => sg s * (ind eqT x k * ind eqU (g k) u)
                           + den_s eqT (negb s) t k * ind eqU (g k) u)).
      + rewrite sumZ_plus, sumZ_scale, (sumZ_ind eqT eqT_spec) by (auto; apply Hincl; now left).
        reflexivity.
      + intros k _. rewrite den_s_cons. lia.
  Qed.

  Lemma den_map keys l u : NoDup keys -> incl l keys ->
    den eqU (map g l) u = sumZ (fun k => den eqT l k * ind eqU (g k) u) keys.
  Proof. intros ND H. now apply den_s_map. Qed.

  (** The net counts of the image depend on the net counts only. *)
  Lemma den_map_ext l1 l2 :
    (forall v, den eqT l1 v = den eqT l2 v) -> forall u, den eqU (map g l1) u = den eqU (map g l2) u.
  Proof.
    intros E u.
    set (keys := nodup (eq_dec eqT eqT_spec) (l1 ++ l2)).
    assert (ND : NoDup keys) by apply NoDup_nodup.
    rewrite (den_map keys l1), (den_map keys l2); auto.
    - apply sumZ_ext. intros k _. now rewrite E.
    - intros k Hk. apply nodup_In, in_or_app. now right.
    - intros k Hk. apply nodup_In, in_or_app. now left.
  Qed.
End Map.

Section Total.
  Context {T : Type} (eqb : T -> T -> bool).
  Hypothesis eqb_spec : forall x y, eqb x y = true <-> x = y.

  Lemma den_s_const (l : list T) : forall s,
    den_s Bool.eqb s (map (fun _ : T => true) l) true = if Nat.odd (length l) then sg s else 0.
  Proof.
    induction l as [|x t IH]; intros s; [reflexivity|].
    cbn [map length]. rewrite den_s_cons, IH, Nat.odd_succ, <- Nat.negb_odd.
    unfold ind. cbn [Bool.eqb]. destruct (Nat.odd (length t)), s; cbn [sg negb]; lia.
  Qed.

  (** The net counts of an odd-length conflict add up to one. *)
  Lemma den_total keys l : NoDup keys -> incl l keys -> Nat.odd (length l) = true ->
    sumZ (fun k => den eqb l k) keys = 1.
  Proof.
    intros ND Hincl Hodd.
    pose proof (den_map eqb Bool.eqb eqb_spec (fun _ : T => true) keys l true ND Hincl) as H.
    unfold den in H at 1. rewrite den_s_const, Hodd in H. cbn [sg] in H. rewrite H.
    apply sumZ_ext. intros k _. unfold ind. cbn [Bool.eqb]. lia.
  Qed.
End Total.

Section TrivialMap.
  Context {T U : Type} (eqT : T -> T -> bool) (eqU : U -> U -> bool).
  Hypothesis eqT_spec : forall x y, eqT x y = true <-> x = y.
  Hypothesis eqU_spec : forall x y, eqU x y = true <-> x = y.

  Lemma den_pos_in (l : list T) v : 0 <> den eqT l v -> In v l.
  Proof.
    intros H. destruct (in_dec (eq_dec eqT eqT_spec) v l) as [I|I]; [assumption|].
    rewrite (den_notin eqT eqT_spec) in H by assumption. congruence.
  Qed.

  (** Mapping the terms of a trivially resolvable conflict. *)
  Theorem trivial_merge_map (g : T -> U) accept l v :
    Nat.odd (length l) = true ->
    trivial_merge eqT accept l = Some v ->
    trivial_merge eqU accept (map g l) = Some (g v).
  Proof.
    intros Hodd H.
    apply (trivial_merge_spec eqT eqT_spec) in H; [|assumption].
    apply (trivial_merge_spec eqU eqU_spec); [now rewrite map_length|].
    set (keys := nodup (eq_dec eqT eqT_spec) l).
    assert (ND : NoDup keys) by apply NoDup_nodup.
    assert (Hincl : incl l keys) by (intros k Hk; now apply nodup_In).
    assert (DM : forall u, den eqU (map g l) u
                           = sumZ (fun k => den eqT l k * ind eqU (g k) u) keys)
      by (intros u; now apply den_map).
    assert (TOT := den_total eqT eqT_spec keys l ND Hincl Hodd).
    destruct H as [Hpos [Hz|[Hacc (w & Hwv & Hneg & Hz)]]].
    - assert (Hv : In v keys) by (apply Hincl, den_pos_in; lia).
      assert (E : forall u, den eqU (map g l) u = den eqT l v * ind eqU (g v) u).
      { intros u. rewrite DM. apply (sumZ_one eqT eqT_spec v); auto.
        intros k _ Hk. rewrite (Hz k Hk). lia. }
      split.
      + rewrite E, (ind_same eqU eqU_spec). lia.
      + left. intros u Hu. rewrite E, (ind_diff eqU eqU_spec) by congruence. lia.
    - assert (Hv : In v keys) by (apply Hincl, den_pos_in; lia).
      assert (Hw : In w keys) by (apply Hincl, den_pos_in; lia).
      assert (E : forall u, den eqU (map g l) u
                            = den eqT l v * ind eqU (g v) u + den eqT l w * ind eqU (g w) u).
      { intros u. rewrite DM. apply (sumZ_two eqT eqT_spec v w); auto.
        intros k _ Hk1 Hk2. rewrite (Hz k Hk1 Hk2). lia. }
      assert (S1 : den eqT l v + den eqT l w = 1).
      { rewrite <- TOT. symmetry. apply (sumZ_two eqT eqT_spec v w); auto. }
      destruct (eq_dec eqU eqU_spec (g v) (g w)) as [Eg|Ng].
      + split.
        * rewrite E, <- Eg, (ind_same eqU eqU_spec). lia.
        * left. intros u Hu. rewrite E, <- Eg, (ind_diff eqU eqU_spec) by congruence. lia.
      + split.
        * rewrite E, (ind_same eqU eqU_spec), (ind_diff eqU eqU_spec (g w)) by congruence. lia.
        * right. split; [assumption|]. exists (g w). repeat split.
          -- congruence.
          -- rewrite E, (ind_same eqU eqU_spec), (ind_diff eqU eqU_spec (g v)) by congruence. lia.
          -- intros u Hu1 Hu2. rewrite E, !(ind_diff eqU eqU_spec) by congruence. lia.
  Qed.
End TrivialMap.

Section TrivialMisc.
  Context {T : Type} (eqb : T -> T -> bool).
  Hypothesis eqb_spec : forall x y, eqb x y = true <-> x = y.

  Lemma trivial_merge_in accept (l : list T) v :
    Nat.odd (length l) = true -> trivial_merge eqb accept l = Some v -> In v l.
  Proof.
    intros Hodd H. apply (trivial_merge_spec eqb eqb_spec) in H; [|assumption].
    destruct H as [H _]. apply (den_pos_in eqb eqb_spec). lia.
  Qed.

  Lemma den_s_repeat (x v : T) n : forall s,
    den_s eqb s (repeat x n) v = if Nat.odd n then sg s * ind eqb x v else 0.
  Proof.
    induction n as [|n IH]; intros s; [reflexivity|].
    cbn [repeat]. rewrite den_s_cons, IH, Nat.odd_succ, <- Nat.negb_odd.
    destruct (Nat.odd n), s; cbn [sg negb]; lia.
  Qed.

  Lemma trivial_merge_repeat accept (x : T) n :
    Nat.odd n = true -> trivial_merge eqb accept (repeat x n) = Some x.
  Proof.
    intros Hodd. apply (trivial_merge_spec eqb eqb_spec); [now rewrite repeat_length|].
    unfold Resolves, den. split.
    - rewrite den_s_repeat, Hodd, (ind_same eqb eqb_spec). cbn [sg]. lia.
    - left. intros w Hw. rewrite den_s_repeat, Hodd, (ind_diff eqb eqb_spec) by congruence. lia.
  Qed.

  (** A conflict whose net counts are those of a single value resolves to it. *)
  Lemma trivial_merge_delta accept (l : list T) v :
    Nat.odd (length l) = true -> 0 < den eqb l v -> (forall w, w <> v -> den eqb l w = 0) ->
    trivial_merge eqb accept l = Some v.
  Proof.
    intros Hodd Hp Hz. apply (trivial_merge_spec eqb eqb_spec); [assumption|]. unfold Resolves. split; auto.
  Qed.

  Lemma trivial_merge_none_ext accept (l1 l2 : list T) :
    Nat.odd (length l1) = true -> Nat.odd (length l2) = true ->
    (forall v, den eqb l1 v = den eqb l2 v) ->
    trivial_merge eqb accept l1 = None -> trivial_merge eqb accept l2 = None.
  Proof.
    intros H1 H2 E N. now rewrite <- (trivial_merge_den_only eqb eqb_spec accept l1 l2 H1 H2 E).
  Qed.
End TrivialMisc.
