(** Basic list facts used by the diff proofs: [slice], [map2], [map3], [last]. *)
From Verif Require Import Base.Prelude Model.Diff.
From Coq Require Import Lia Arith.

Lemma firstn_add {A} (n m : nat) (l : list A) :
  firstn (n + m) l = firstn n l ++ firstn m (skipn n l).
Proof.
  revert l; induction n as [|n IH]; intros l; [reflexivity|].
  destruct l as [|x t]; cbn [Nat.add firstn skipn app].
  - now rewrite firstn_nil.
  - now rewrite IH.
Qed.

Lemma skipn_add {A} (n m : nat) (l : list A) : skipn (n + m) l = skipn m (skipn n l).
Proof.
  revert l; induction n as [|n IH]; intros l; [reflexivity|].
  destruct l as [|x t]; cbn [Nat.add skipn]; [now rewrite skipn_nil|apply IH].
Qed.

Lemma slice_app {A} (l : list A) a b c :
  a <= b -> b <= c -> slice l a b ++ slice l b c = slice l a c.
Proof.
  intros H1 H2. unfold slice.
  replace (c - a) with ((b - a) + (c - b)) by lia.
  rewrite firstn_add. f_equal. f_equal.
  replace b with (a + (b - a)) at 1 by lia. now rewrite skipn_add.
Qed.

Lemma slice_all {A} (l : list A) : slice l 0 (length l) = l.
Proof. unfold slice. cbn [skipn]. rewrite Nat.sub_0_r. apply firstn_all. Qed.

Lemma slice_same {A} (l : list A) a : slice l a a = [].
Proof. unfold slice. now rewrite Nat.sub_diag. Qed.

Lemma slice_length {A} (l : list A) a b :
  a <= b -> b <= length l -> length (slice l a b) = b - a.
Proof. intros H1 H2. unfold slice. rewrite firstn_length, skipn_length. lia. Qed.

Lemma slice_slice {A} (l : list A) off e a b :
  off + b <= e -> slice (slice l off e) a b = slice l (off + a) (off + b).
Proof.
  intros H. unfold slice.
  rewrite skipn_firstn_comm, firstn_firstn, <- skipn_add.
  replace (off + b - (off + a)) with (b - a) by lia.
  f_equal. lia.
Qed.

Lemma map2_length {A B C} (f : A -> B -> C) la lb :
  length (map2 f la lb) = Nat.min (length la) (length lb).
Proof. revert lb; induction la; intros [|b lb]; cbn; auto. Qed.

Lemma map2_nth {A B C} (f : A -> B -> C) la lb i da db dc :
  i < length la -> i < length lb ->
  nth i (map2 f la lb) dc = f (nth i la da) (nth i lb db).
Proof.
  revert lb i; induction la as [|a la IH]; intros [|b lb] i H1 H2; cbn in *; try lia.
  destruct i; [reflexivity|]. apply IH; lia.
Qed.

Lemma map_map2 {A B C D} (g : C -> D) (f : A -> B -> C) la lb :
  map g (map2 f la lb) = map2 (fun a b => g (f a b)) la lb.
Proof. revert lb; induction la; intros [|b lb]; cbn; auto. now rewrite IHla. Qed.

Lemma map2_map_l {A A' B C} (f : A' -> B -> C) (g : A -> A') la lb :
  map2 f (map g la) lb = map2 (fun a b => f (g a) b) la lb.
Proof. revert lb; induction la; intros [|b lb]; cbn; auto. now rewrite IHla. Qed.

Lemma map2_map_r {A B B' C} (f : A -> B' -> C) (g : B -> B') la lb :
  map2 f la (map g lb) = map2 (fun a b => f a (g b)) la lb.
Proof. revert lb; induction la; intros [|b lb]; cbn; auto. now rewrite IHla. Qed.

Lemma map2_ext_len {A B C} (f g : A -> B -> C) la lb :
  (forall a b, In a la -> In b lb -> f a b = g a b) -> map2 f la lb = map2 g la lb.
Proof.
  revert lb; induction la as [|a la IH]; intros [|b lb] H; cbn; auto.
  f_equal; [apply H; now left|apply IH; intros; apply H; now right].
Qed.

Lemma map2_fst_only {A B C} (f : A -> C) la (lb : list B) :
  length la = length lb -> map2 (fun a _ => f a) la lb = map f la.
Proof. revert lb; induction la; intros [|b lb] H; cbn in *; try discriminate; auto. f_equal; auto. Qed.

Lemma map2_snd_only {A B C} (f : B -> C) (la : list A) lb :
  length la = length lb -> map2 (fun _ b => f b) la lb = map f lb.
Proof. revert lb; induction la; intros [|b lb] H; cbn in *; try discriminate; auto. f_equal; auto. Qed.

Lemma last_cons_last {A} (l : list A) x d : last (x :: l) d = last l x.
Proof.
  revert x d; induction l as [|y t IH]; intros x d; [reflexivity|].
  change (last (x :: y :: t) d) with (last (y :: t) d).
  now rewrite (IH y d), (IH y x).
Qed.

Lemma last_app_cons {A} (l1 l2 : list A) x d : last (l1 ++ x :: l2) d = last l2 x.
Proof.
  revert d; induction l1 as [|y t IH]; intros d; cbn [app].
  - apply last_cons_last.
  - rewrite last_cons_last. apply IH.
Qed.

Lemma Forall2_length' {A B} (R : A -> B -> Prop) l1 l2 : Forall2 R l1 l2 -> length l1 = length l2.
Proof. induction 1; cbn; auto. Qed.

Lemma Forall2_nth {A B} (R : A -> B -> Prop) l1 l2 i d1 d2 :
  Forall2 R l1 l2 -> i < length l1 -> R (nth i l1 d1) (nth i l2 d2).
Proof.
  intros H; revert i; induction H; intros i Hi; cbn in *; [lia|].
  destruct i; [assumption|]. apply IHForall2; lia.
Qed.

Lemma Forall2_map_eq {A B} (f : A -> nat) (g : B -> nat) l1 l2 :
  Forall2 (fun a b => f a = g b) l1 l2 <-> map f l1 = map g l2.
Proof.
  split.
  - induction 1; cbn; congruence.
  - revert l2; induction l1 as [|a l1 IH]; intros [|b l2] H; cbn in *; try discriminate; constructor.
    + congruence.
    + apply IH; congruence.
Qed.
