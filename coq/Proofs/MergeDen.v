(** Lemmas about the denotation [den] of the alternating term vector and about the
    primitive list edits used by [simp_step] and [flatten]. *)
From Verif Require Import Base.Prelude Model.Merge.
From Coq Require Import Lia Arith.
Local Open Scope Z_scope.

Section MergeDen.
  Context {T : Type} (eqb : T -> T -> bool).
  Hypothesis eqb_spec : forall x y, eqb x y = true <-> x = y.

  Definition ind (x v : T) : Z := if eqb x v then 1 else 0.
  Definition sg (s : bool) : Z := if s then 1 else -1.
  Definition sgz (s : bool) (i : nat) : Z := if Nat.even i then sg s else - sg s.

  Lemma den_s_cons s x t v :
    den_s eqb s (x :: t) v = sg s * ind x v + den_s eqb (negb s) t v.
  Proof. unfold ind, sg; cbn [den_s]; destruct (eqb x v), s; lia. Qed.

  Lemma den_s_neg s l v : den_s eqb (negb s) l v = - den_s eqb s l v.
  Proof.
    revert s; induction l as [|x t IH]; intros s; [reflexivity|].
    rewrite !den_s_cons, (IH (negb s)). destruct s; cbn [sg negb]; lia.
  Qed.

  Lemma den_s_app s l1 l2 v :
    den_s eqb s (l1 ++ l2) v =
    den_s eqb s l1 v + sgz s (length l1) * sg true * den_s eqb true l2 v.
  Proof.
    revert s; induction l1 as [|x t IH]; intros s.
    - cbn [app length]. unfold sgz; cbn. destruct s; cbn [sg]; [lia|].
      change false with (negb true). rewrite den_s_neg. lia.
    - cbn [app length]. rewrite !den_s_cons, IH. unfold sgz.
      rewrite Nat.even_succ, <- Nat.negb_even. destruct (Nat.even (length t)), s; cbn [sg negb]; lia.
  Qed.

  Lemma ind_eq x y v : eqb x y = true -> ind x v = ind y v.
  Proof. intros H; apply eqb_spec in H; subst; reflexivity. Qed.

  Lemma den_set_nth s l i x y v :
    nth_error l i = Some x ->
    den_s eqb s (set_nth i y l) v = den_s eqb s l v + sgz s i * (ind y v - ind x v).
  Proof.
    revert s i; induction l as [|h t IH]; intros s i H; [destruct i; discriminate|].
    destruct i as [|i]; cbn [set_nth nth_error] in *.
    - injection H as ->. rewrite !den_s_cons. unfold sgz; cbn. lia.
    - rewrite !den_s_cons, (IH _ _ H). unfold sgz. rewrite Nat.even_succ, <- Nat.negb_even.
      destruct (Nat.even i), s; cbn [sg negb]; lia.
  Qed.

  Lemma remove2_cons {A} r (h : A) t : remove2 (S r) (h :: t) = h :: remove2 r t.
  Proof. reflexivity. Qed.

  Lemma den_remove2 s l r a b v :
    nth_error l r = Some a -> nth_error l (S r) = Some b ->
    den_s eqb s (remove2 r l) v = den_s eqb s l v - sgz s r * (ind a v - ind b v).
  Proof.
    revert s r; induction l as [|h t IH]; intros s r Ha Hb; [destruct r; discriminate|].
    destruct r as [|r].
    - destruct t as [|h2 t]; [discriminate|]. cbn in Ha, Hb. injection Ha as ->. injection Hb as ->.
      unfold remove2; cbn [firstn skipn app Nat.add]. rewrite !den_s_cons, Bool.negb_involutive.
      unfold sgz; cbn. destruct s; cbn [sg negb]; lia.
    - rewrite remove2_cons, !den_s_cons. cbn [nth_error] in Ha, Hb. rewrite (IH _ _ Ha Hb).
      unfold sgz. rewrite Nat.even_succ, <- Nat.negb_even.
      destruct (Nat.even r), s; cbn [sg negb]; lia.
  Qed.

  Lemma nth_error_set_nth {A} (l : list A) i j y :
    nth_error (set_nth i y l) j =
    if Nat.eqb i j then (match nth_error l j with Some _ => Some y | None => None end)
    else nth_error l j.
  Proof.
    revert i j; induction l as [|h t IH]; intros i j.
    - destruct i, j; cbn; try reflexivity; destruct (Nat.eqb i j); reflexivity.
    - destruct i, j; cbn; try reflexivity. apply IH.
  Qed.

  Lemma length_set_nth {A} (l : list A) i y : length (set_nth i y l) = length l.
  Proof. revert i; induction l; intros [|i]; cbn; auto. Qed.

  Lemma map_set_nth {A B} (f : A -> B) l i y : map f (set_nth i y l) = set_nth i (f y) (map f l).
  Proof. revert i; induction l; intros [|i]; cbn; auto. now rewrite IHl. Qed.

  Lemma map_remove2 {A B} (f : A -> B) l r : map f (remove2 r l) = remove2 r (map f l).
  Proof. unfold remove2. now rewrite map_app, firstn_map, skipn_map. Qed.

  Lemma length_remove2 {A} (l : list A) r :
    (S r < length l)%nat -> length (remove2 r l) = (length l - 2)%nat.
  Proof. intros H. unfold remove2. rewrite app_length, firstn_length, skipn_length. lia. Qed.
End MergeDen.
