(** Layer A, part 2: tokenizers produce well-formed token ranges; valid matchings give
    chains of regions; n-way intersection. *)
From Coq Require Import Lia Arith Sorted.
From Verif Require Import Base.Prelude Model.Diff Proofs.DiffBase Proofs.DiffA.

(** * Token ranges: ascending, disjoint, non-empty, inside the text *)
Fixpoint ranges_from (lo : nat) (rs : list (nat * nat)) (len : nat) : Prop :=
  match rs with
  | [] => lo <= len
  | r :: t => lo <= fst r /\ fst r < snd r /\ ranges_from (snd r) t len
  end.

Lemma ranges_from_weaken lo lo' rs len : lo' <= lo -> ranges_from lo rs len -> ranges_from lo' rs len.
Proof. destruct rs as [|r t]; cbn; intros; [lia|]. intuition lia. Qed.

Lemma ranges_from_le lo rs len : ranges_from lo rs len -> lo <= len.
Proof.
  revert lo; induction rs as [|r t IH]; intros lo H; cbn in H; [assumption|].
  destruct H as (A & B & C). apply IH in C. lia.
Qed.

Lemma ranges_from_nth lo rs len p :
  ranges_from lo rs len -> p < length rs ->
  lo <= fst (nth p rs (0, 0)) /\ fst (nth p rs (0, 0)) < snd (nth p rs (0, 0))
  /\ snd (nth p rs (0, 0)) <= len.
Proof.
  revert lo p; induction rs as [|r t IH]; intros lo p H Hp; cbn in Hp; [lia|].
  destruct H as (A & B & C). destruct p as [|p]; cbn [nth].
  - apply ranges_from_le in C. lia.
  - destruct (IH _ p C) as (D & E & F); [lia|]. lia.
Qed.

Lemma ranges_from_mono lo rs len p q :
  ranges_from lo rs len -> p < q -> q < length rs ->
  snd (nth p rs (0, 0)) <= fst (nth q rs (0, 0)).
Proof.
  revert lo p q; induction rs as [|r t IH]; intros lo p q H Hpq Hq; cbn in Hq; [lia|].
  destruct H as (A & B & C). destruct q as [|q]; [lia|]. destruct p as [|p]; cbn [nth].
  - destruct (ranges_from_nth _ _ _ q C) as (D & _); lia.
  - apply (IH _ p q C); lia.
Qed.

Lemma line_ranges_go_wf l : forall start pos, start <= pos ->
  ranges_from start (line_ranges_go l start pos) (pos + length l).
Proof.
  induction l as [|b t IH]; intros start pos H; cbn [line_ranges_go length].
  - rewrite Nat.add_0_r. destruct (start <? pos) eqn:E; cbn; [apply Nat.ltb_lt in E; lia|lia].
  - destruct ((b =? 10)%N).
    + cbn [ranges_from fst snd]. repeat split; try lia.
      replace (pos + S (length t)) with (S pos + length t) by lia. apply IH. lia.
    + replace (pos + S (length t)) with (S pos + length t) by lia. apply IH. lia.
Qed.

Lemma word_ranges_go_wf l : forall (i : nat) (iw : bool) (ws lo : nat),
  (if iw then lo <= ws /\ ws < i else lo <= i) ->
  ranges_from lo (word_ranges_go l i iw ws) (i + length l).
Proof.
  induction l as [|b t IH]; intros i iw ws lo H; cbn [word_ranges_go length].
  - rewrite Nat.add_0_r. destruct iw; cbn [andb].
    + destruct (ws <? i) eqn:E; cbn; lia.
    + cbn. lia.
  - replace (i + S (length t)) with (S i + length t) by lia.
    destruct iw; cbn [andb negb].
    + destruct (is_word_byte b); cbn [negb].
      * apply IH. lia.
      * cbn [ranges_from fst snd]. repeat split; try lia. apply IH. lia.
    + destruct (is_word_byte b); apply IH; lia.
Qed.

Lemma nonword_ranges_go_wf l : forall i lo, lo <= i ->
  ranges_from lo (nonword_ranges_go l i) (i + length l).
Proof.
  induction l as [|b t IH]; intros i lo H; cbn [nonword_ranges_go length].
  - cbn. lia.
  - replace (i + S (length t)) with (S i + length t) by lia.
    destruct (is_word_byte b); [apply IH; lia|].
    cbn [ranges_from fst snd]. repeat split; try lia. apply IH. lia.
Qed.

Lemma tokenize_wf t l : ranges_from 0 (tokenize t l) (length l).
Proof.
  destruct t; cbn [tokenize].
  - apply (line_ranges_go_wf l 0 0). lia.
  - apply (word_ranges_go_wf l 0 false 0 0). lia.
  - apply (nonword_ranges_go_wf l 0 0). lia.
  - cbn. lia.
Qed.

(** * Valid matchings *)
Definition lt2 (p q : nat * nat) : Prop := fst p < fst q /\ snd p < snd q.
Definition valid_matching (n m : nat) (l : list (nat * nat)) : Prop :=
  Forall (fun p => fst p < n /\ snd p < m) l /\ StronglySorted lt2 l.

Lemma lt2_trans : Relations_1.Transitive lt2.
Proof. intros a b c (A & B) (C & D). split; lia. Qed.

Lemma incr_fromb_sorted a b l :
  incr_fromb a b l = true <-> Sorted lt2 ((a, b) :: l).
Proof.
  revert a b; induction l as [|[c d] t IH]; intros a b; cbn [incr_fromb].
  - split; [intros _; repeat constructor|reflexivity].
  - rewrite !Bool.andb_true_iff, !Nat.ltb_lt, IH. split.
    + intros ((A & B) & C). constructor; [assumption|]. constructor. split; assumption.
    + intros H. inversion H as [|? ? S R]; subst. inversion R as [|? ? L]; subst.
      destruct L as (A & B). cbn in A, B. auto.
Qed.

Lemma incrb_sorted l : incrb l = true <-> StronglySorted lt2 l.
Proof.
  destruct l as [|[a b] t]; cbn [incrb].
  - split; [constructor|reflexivity].
  - rewrite incr_fromb_sorted. split.
    + apply Sorted_StronglySorted, lt2_trans.
    + apply StronglySorted_Sorted.
Qed.

Lemma valid_matchingb_spec n m l : valid_matchingb n m l = true <-> valid_matching n m l.
Proof.
  unfold valid_matchingb, valid_matching, in_rangeb.
  rewrite Bool.andb_true_iff, incrb_sorted, forallb_forall, Forall_forall.
  split; intros (A & B); split; auto; intros p Hp; specialize (A p Hp).
  - apply Bool.andb_true_iff in A. now rewrite !Nat.ltb_lt in A.
  - apply Bool.andb_true_iff. now rewrite !Nat.ltb_lt.
Qed.

Lemma valid_matching_nil_l m l : valid_matching 0 m l -> l = [].
Proof. intros (A & _). destruct l as [|p t]; [reflexivity|]. inversion A; subst. lia. Qed.

(** * n-way intersection *)
Definition entry := (nat * list nat)%type.
Definition elt (e1 e2 : entry) : Prop := fst e1 < fst e2 /\ Forall2 lt (snd e1) (snd e2).
Definition entries_ok (nb : nat) (ms : list nat) (es : list entry) : Prop :=
  Forall (fun e => fst e < nb /\ Forall2 lt (snd e) ms) es /\ StronglySorted elt es.

Lemma intersect_nil_r cur : intersect cur [] = [].
Proof. destruct cur as [|[b os] c]; reflexivity. Qed.

Lemma intersect_cons b os cur nb no new :
  intersect ((b, os) :: cur) ((nb, no) :: new) =
  match Nat.compare b nb with
  | Lt => intersect cur ((nb, no) :: new)
  | Eq => (b, os ++ [no]) :: intersect cur new
  | Gt => intersect ((b, os) :: cur) new
  end.
Proof. reflexivity. Qed.

Lemma intersect_in : forall cur new e,
  In e (intersect cur new) ->
  exists os no, snd e = os ++ [no] /\ In (fst e, os) cur /\ In (fst e, no) new.
Proof.
  induction cur as [|[b os] cur IHc]; intros new e H; [destruct H|].
  induction new as [|[nb no] new IHn]; [destruct H|].
  rewrite intersect_cons in H. destruct (Nat.compare_spec b nb) as [E|E|E].
  - subst nb. destruct H as [H|H].
    + subst e. exists os, no. cbn. auto.
    + destruct (IHc _ _ H) as (os' & no' & A & B & C). exists os', no'. cbn. auto.
  - destruct (IHc _ _ H) as (os' & no' & A & B & C). exists os', no'. cbn. auto.
  - destruct (IHn H) as (os' & no' & A & B & C). exists os', no'. cbn [In]. auto.
Qed.

Lemma Forall2_lt_snoc os ms o m : Forall2 lt os ms -> o < m -> Forall2 lt (os ++ [o]) (ms ++ [m]).
Proof. intros A B. apply Forall2_app; [assumption|]. constructor; [assumption|constructor]. Qed.

Lemma intersect_ok nb ms m : forall cur new,
  entries_ok nb ms cur -> valid_matching nb m new ->
  entries_ok nb (ms ++ [m]) (intersect cur new).
Proof.
  intros cur new (R1 & S1) (R2 & S2). split.
  - apply Forall_forall. intros e He. apply intersect_in in He.
    destruct He as (os & no & A & B & C).
    rewrite Forall_forall in R1, R2. specialize (R1 _ B). specialize (R2 _ C). cbn in R1, R2.
    rewrite A. split; [tauto|]. apply Forall2_lt_snoc; tauto.
  - clear R1 R2. revert new S2. induction cur as [|[b os] cur IHc]; intros new S2; [constructor|].
    induction new as [|[nb' no] new IHn]; [constructor|].
    rewrite intersect_cons. inversion S1 as [|? ? S1' F1]; subst. inversion S2 as [|? ? S2' F2]; subst.
    destruct (Nat.compare_spec b nb') as [E|E|E].
    + subst nb'. constructor; [now apply IHc|].
      apply Forall_forall. intros e He. apply intersect_in in He.
      destruct He as (os' & no' & A & B & C).
      rewrite Forall_forall in F1, F2. specialize (F1 _ B). specialize (F2 _ C).
      destruct F1 as (F1a & F1b). destruct F2 as (F2a & F2b). cbn in *.
      split; cbn [fst snd]; [assumption|]. rewrite A. now apply Forall2_lt_snoc.
    + now apply IHc.
    + now apply IHn.
Qed.

Lemma entries_ok_init nb m l :
  valid_matching nb m l -> entries_ok nb [m] (map (fun p => (fst p, [snd p])) l).
Proof.
  intros (R & S). split.
  - apply Forall_map. eapply Forall_impl; [|exact R]. cbn. intros p (A & B). split; [assumption|].
    constructor; [assumption|constructor].
  - clear R. induction S as [|p l S IH F]; cbn [map]; constructor; [assumption|].
    apply Forall_map. eapply Forall_impl; [|exact F]. intros q (A & B). split; cbn; [assumption|].
    constructor; [assumption|constructor].
Qed.

(** * From entries to regions *)
Section Regions.
  Variable base_ranges : list (nat * nat).
  Variable other_ranges : list (list (nat * nat)).
  Variable base_len : nat.
  Variable other_lens : list nat.
  Hypothesis base_wf : ranges_from 0 base_ranges base_len.
  Hypothesis others_wf : Forall2 (fun rs len => ranges_from 0 rs len) other_ranges other_lens.

  Definition rof := region_of base_ranges other_ranges.
  Definition e_in (e : entry) : Prop :=
    fst e < length base_ranges /\ Forall2 lt (snd e) (map (@length _) other_ranges).

  Lemma rof_length e : e_in e -> length (rof e) = S (length other_ranges).
  Proof.
    intros (_ & H). apply Forall2_length' in H. rewrite map_length in H.
    unfold rof, region_of. cbn [length]. rewrite map2_length. lia.
  Qed.

  Lemma rof_starts e : starts (rof e) =
    fst (range_at base_ranges (fst e)) :: map2 (fun rs p => fst (range_at rs p)) other_ranges (snd e).
  Proof. unfold rof, region_of, starts. cbn [map]. now rewrite map_map2. Qed.
  Lemma rof_ends e : ends (rof e) =
    snd (range_at base_ranges (fst e)) :: map2 (fun rs p => snd (range_at rs p)) other_ranges (snd e).
  Proof. unfold rof, region_of, ends. cbn [map]. now rewrite map_map2. Qed.

  Lemma rof_rwf e : e_in e -> rwf (rof e).
  Proof.
    intros (A & B). unfold rwf. rewrite rof_starts, rof_ends. constructor.
    - destruct (ranges_from_nth _ _ _ _ base_wf A). unfold range_at. lia.
    - clear A. revert B. generalize (snd e). clear e.
      induction others_wf as [|rs len ors ols H Hs IH]; intros os B; cbn [map map2] in *;
        inversion B; subst; constructor.
      + destruct (ranges_from_nth _ _ _ _ H H3). unfold range_at. lia.
      + now apply IH.
  Qed.

  Lemma rof_ne e : e_in e -> ne (rof e).
  Proof.
    intros (A & B). unfold ne. destruct (all_emptyb (rof e)) eqn:E; [|reflexivity].
    apply all_emptyb_true_iff in E. rewrite rof_starts, rof_ends in E. injection E as E _.
    destruct (ranges_from_nth _ _ _ _ base_wf A). unfold range_at in E. lia.
  Qed.

  Lemma rof_rle e1 e2 : e_in e1 -> e_in e2 -> elt e1 e2 -> rle (rof e1) (rof e2).
  Proof.
    intros (A1 & B1) (A2 & B2) (L & F). unfold rle. rewrite rof_ends, rof_starts. constructor.
    - apply (ranges_from_mono _ _ _ _ _ base_wf L A2).
    - clear A1 A2 L B1. revert B2 F. generalize (snd e1) (snd e2). clear e1 e2.
      induction others_wf as [|rs len ors ols H Hs IH]; intros os1 os2 B2 F; cbn [map map2] in *.
      + inversion B2; subst. inversion F; subst. constructor.
      + inversion B2; subst. inversion F; subst. cbn [map2]. constructor.
        * apply (ranges_from_mono _ _ _ _ _ H); assumption.
        * now apply IH.
  Qed.

  Definition zeros : region := (0, 0) :: map (fun _ => (0, 0)) other_ranges.
  Definition lens : region := (base_len, base_len) :: map (fun n => (n, n)) other_lens.

  Lemma zeros_rle e : e_in e -> rle zeros (rof e).
  Proof.
    intros (A & B). unfold rle. rewrite rof_starts. unfold zeros, ends. cbn [map snd]. constructor; [lia|].
    clear A. revert B. generalize (snd e). clear e. clear others_wf.
    induction other_ranges as [|rs ors IH]; intros os B; cbn [map map2] in *; inversion B; subst; constructor.
    - cbn. lia.
    - now apply IH.
  Qed.

  Lemma rof_rle_lens e : e_in e -> rle (rof e) lens.
  Proof.
    intros (A & B). unfold rle. rewrite rof_ends. unfold lens, starts. cbn [map fst]. constructor.
    - destruct (ranges_from_nth _ _ _ _ base_wf A) as (_ & _ & C). exact C.
    - clear A. revert B. generalize (snd e). clear e.
      induction others_wf as [|rs len ors ols H Hs IH]; intros os B; cbn [map map2] in *;
        inversion B; subst; constructor.
      + cbn [fst]. destruct (ranges_from_nth _ _ _ _ H H3) as (_ & _ & C). exact C.
      + now apply IH.
  Qed.

  Lemma zeros_rle_lens : rle zeros lens.
  Proof.
    unfold rle, zeros, lens, ends, starts. cbn [map fst snd]. constructor; [lia|].
    clear base_wf. induction others_wf; cbn [map]; constructor; cbn; auto; lia.
  Qed.

  Lemma lens_rwf : rwf lens.
  Proof.
    unfold rwf, lens, starts, ends. cbn [map fst snd]. constructor; [lia|].
    clear. induction other_lens; cbn; constructor; auto.
  Qed.
  Lemma zeros_rwf : rwf zeros.
  Proof.
    unfold rwf, zeros, starts, ends. cbn [map fst snd]. constructor; [lia|].
    clear. induction other_ranges; cbn; constructor; auto.
  Qed.

  Lemma regions_chain : forall es prev,
    Forall e_in es -> StronglySorted elt es ->
    Forall (fun e => rle prev (rof e)) es -> rle prev lens ->
    chain_from prev (map rof es ++ [lens]) /\ mid_ok false (map rof es ++ [lens]).
  Proof.
    induction es as [|e es IH]; intros prev Hin Hs Hp Hl; cbn [map app chain_from].
    - repeat split; auto using lens_rwf.
    - inversion Hin; subst. inversion Hs; subst. inversion Hp; subst.
      destruct (IH (rof e)) as (C & M); auto.
      + rewrite Forall_forall in *. intros e' He'. apply rof_rle; auto.
      + now apply rof_rle_lens.
      + repeat split; auto using rof_rwf.
        cbn [mid_ok]. destruct (map rof es ++ [lens]) eqn:E; [destruct es; discriminate|].
        split; [right; now apply rof_ne|exact M].
  Qed.

  Lemma regions_span es :
    Forall e_in es -> StronglySorted elt es ->
    span (starts zeros) (ends lens) (zeros :: map rof es ++ [lens])
    /\ mid_ok true (zeros :: map rof es ++ [lens]).
  Proof.
    intros Hin Hs. destruct (regions_chain es zeros Hin Hs) as (C & M).
    - rewrite Forall_forall in *. intros e He. apply zeros_rle; auto.
    - apply zeros_rle_lens.
    - split.
      + cbn [span]. repeat split; auto using zeros_rwf. now rewrite last_app_cons.
      + cbn [mid_ok]. destruct (map rof es ++ [lens]) eqn:E; [destruct es; discriminate|].
        split; [now left|exact M].
  Qed.
End Regions.
