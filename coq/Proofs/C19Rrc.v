(** C19 — proofs, part 2: [resolve_referenced_commits] establishes correct scoping, and the
    composed optimizer preserves the denotation. *)
From Verif Require Import Base.Prelude Base.DagR Model.C19 Proofs.C19.
From Coq Require Import Lia Arith.
Import ListNotations.
Local Open Scope nat_scope.

Section Final.
  Variable W : world.
  Let G := w_graph W.
  Let n := length G.
  Hypothesis Hwf : wf_graph G.
  Hypothesis Hpc : pc_ok G.
  Hypothesis Hsm : small G.
  Hypothesis Hrooted : forall x, x < n -> x <> 0 -> parents G x <> [].

  Ltac walk1 IH H Hp Hi :=
    let c' := fresh "c'" in let o := fresh "o" in let i := fresh "i" in let E := fresh "E" in
    destruct (rrc_walk _) as [[c' o] i] eqn:E; inversion H; subst; clear H;
    cbn [wfs]; eapply IH; [reflexivity | exact Hp | exact Hi].

  Ltac walk2 x1 x2 IH1 IH2 H Hp Hi :=
    let a' := fresh "a'" in let o1 := fresh "o1" in let i1 := fresh "i1" in let E1 := fresh "E1" in
    let b' := fresh "b'" in let o2 := fresh "o2" in let i2 := fresh "i2" in let E2 := fresh "E2" in
    destruct (rrc_walk x1) as [[a' o1] i1] eqn:E1;
    destruct (rrc_walk x2) as [[b' o2] i2] eqn:E2; inversion H; subst; clear H;
    destruct Hp as [Hp1 Hp2]; destruct (incl_2 _ _ _ _ _ Hi) as [Hi1 Hi2];
    cbn [wfs]; split; [eapply IH1; [reflexivity | exact Hp1 | exact Hi1]
                      | eapply IH2; [reflexivity | exact Hp2 | exact Hi2]].

  Lemma rrc_walk_wfs : forall e e' o i, rrc_walk e = (e', o, i) -> pre_ok W e ->
    forall r, incl (o ++ i) r -> wfs W r e'.
  Proof.
    induction e; intros e' o i H Hp r Hi; cbn [rrc_walk] in H; cbn [pre_ok] in Hp;
      try (inversion H; subst; clear H; exact I).
    - (* Commits *) inversion H; subst. cbn [wfs]. now rewrite app_nil_r in Hi.
    - walk1 IHe H Hp Hi.
    - walk1 IHe H Hp Hi.
    - walk2 e1 e2 IHe1 IHe2 H Hp Hi.
    - walk2 e1 e2 IHe1 IHe2 H Hp Hi.
    - walk2 e1 e2 IHe1 IHe2 H Hp Hi.
    - walk1 IHe H Hp Hi.
    - (* HeadsRange *)
      destruct (rrc_walk e1) as [[a' o1] i1] eqn:E1.
      destruct (rrc_walk e2) as [[b' o2] i2] eqn:E2.
      destruct (rrc_walk e3) as [[f' o3] i3] eqn:E3. inversion H; subst; clear H.
      destruct Hp as [Hp1 [Hp2 Hp3]]. destruct (incl_3 _ _ _ _ _ _ _ Hi) as [Hi1 [Hi2 Hi3]].
      cbn [wfs]. repeat split.
      + eapply IHe1; [reflexivity | exact Hp1 | exact Hi1].
      + eapply IHe2; [reflexivity | exact Hp2 | exact Hi2].
      + eapply IHe3; [reflexivity | exact Hp3 | exact Hi3].
    - walk1 IHe H Hp Hi.
    - walk1 IHe H Hp Hi.
    - walk1 IHe H Hp Hi.
    - walk1 IHe H Hp Hi.
    - walk1 IHe H Hp Hi.
    - walk1 IHe H Hp Hi.
    - (* WithinReference: trusted *) inversion H; subst; clear H. cbn [wfs]. split; [exact Hi|exact Hp].
    - (* WithinVisibility *)
      destruct Hp as [Hv Hp].
      assert (Hgen : forall c' o' i', rrc_walk e = (c', o', i') ->
                (EWithinVisibility (EWithinReference c' (o' ++ i')) vh, @nil nat, vh ++ (o' ++ i')) = (e', o, i) ->
                wfs W r e').
      { intros c' o' i' E H'. inversion H'; subst; clear H'. cbn [wfs]. cbn [app] in Hi.
        split; [exact (incl_app_l _ _ _ Hi)|]. split; [exact Hv|].
        split; [exact (incl_app_r _ _ _ Hi)|].
        eapply IHe; [exact E | exact Hp | apply incl_refl]. }
      destruct e; try (destruct (rrc_walk _) as [[c' o'] i'] eqn:E; exact (Hgen c' o' i' eq_refl H)).
      (* candidates already a WithinReference: trusted *)
      inversion H; subst; clear H. cbn [wfs]. cbn [app] in Hi. cbn [pre_ok] in Hp.
      split; [exact (incl_app_l _ _ _ Hi)|]. split; [exact Hv|].
      split; [exact (incl_app_r _ _ _ Hi)|exact Hp].
    - walk2 e1 e2 IHe1 IHe2 H Hp Hi.
    - walk1 IHe H Hp Hi.
    - walk1 IHe H Hp Hi.
    - walk2 e1 e2 IHe1 IHe2 H Hp Hi.
    - walk2 e1 e2 IHe1 IHe2 H Hp Hi.
    - walk2 e1 e2 IHe1 IHe2 H Hp Hi.
  Qed.

  (** At the top of an expression no enclosing scope has to list the referenced commits. *)
  Definition top_ok (t : expr) : Prop :=
    match t with
    | EWithinReference x cs => wfs W cs x
    | _ => wfs W [] t
    end.

  Lemma wfs_nil_top t : wfs W [] t -> top_ok t.
  Proof. destruct t; cbn [top_ok]; auto. cbn [wfs]. tauto. Qed.

  Lemma rrc_top_ok e : pre_ok W e -> top_ok (rrc e).
  Proof.
    intros Hp.
    assert (Hgen : top_ok (let '(e', o, i) := rrc_walk e in
                           match o ++ i with [] => e' | cs => EWithinReference e' cs end)).
    { destruct (rrc_walk e) as [[e' o] i] eqn:E.
      destruct (o ++ i) as [|c0 cs] eqn:Eo.
      - apply wfs_nil_top. eapply rrc_walk_wfs; [exact E|exact Hp|]. rewrite Eo. apply incl_refl.
      - cbn [top_ok]. eapply rrc_walk_wfs; [exact E|exact Hp|]. rewrite Eo. apply incl_refl. }
    destruct e; try exact Hgen. exact Hp.
  Qed.

  Definition wr_inert (post : expr -> option expr) : Prop :=
    forall x cs, post (EWithinReference x cs) = None.

  Lemma passes_inert : Forall wr_inert passes.
  Proof. unfold passes. repeat (apply Forall_cons; [intros x cs; reflexivity|]). apply Forall_nil. Qed.

  Lemma run_passes_wr ps : Forall wr_inert ps -> forall x cs,
    run_passes ps (EWithinReference x cs) = EWithinReference (run_passes ps x) cs.
  Proof.
    unfold run_passes. induction 1 as [|post ps Hp Hps IH]; intros x cs; cbn [fold_left]; [reflexivity|].
    cbn [tr]. rewrite Hp. apply IH.
  Qed.

  (** The passes of [optimize] after reference collection preserve the denotation of every
      top-level well-scoped expression. *)
  Lemma run_passes_top t c0 : x_refs c0 = [] -> okctx W c0 -> top_ok t ->
    den W c0 (run_passes passes t) = den W c0 t.
  Proof.
    intros Hr Hc Ht.
    assert (Hgen : wfs W [] t -> den W c0 (run_passes passes t) = den W c0 t).
    { intros Hw. rewrite <- Hr in Hw.
      exact (proj2 (run_passes_sound W Hwf Hpc Hsm Hrooted passes
                      (passes_sound W Hwf Hpc Hsm Hrooted) t c0 Hc Hw)). }
    destruct t; try exact (Hgen Ht).
    cbn [top_ok] in Ht. rewrite run_passes_wr by exact passes_inert.
    change (den W c0 (EWithinReference (run_passes passes t) cs))
      with (den W (mk_vctx cs (x_vis c0) (x_hn c0)) (run_passes passes t)).
    change (den W c0 (EWithinReference t cs)) with (den W (mk_vctx cs (x_vis c0) (x_hn c0)) t).
    exact (proj2 (run_passes_sound W Hwf Hpc Hsm Hrooted passes
                    (passes_sound W Hwf Hpc Hsm Hrooted) t
                    (mk_vctx cs (x_vis c0) (x_hn c0)) Hc Ht)).
  Qed.

  Lemma no_scope_pre_ok e : no_scope e = true -> pre_ok W e.
  Proof.
    induction e; cbn [no_scope pre_ok]; intros H; auto;
      repeat (apply andb_true_iff in H; destruct H as [H ?]); try discriminate; auto.
  Qed.

  Lemma inclb_incl a b : inclb a b = true -> incl a b.
  Proof.
    unfold inclb. rewrite forallb_forall. intros H x Hx. apply memn_In. now apply H.
  Qed.
  Lemma has_pos_spec l : has_pos n l = true -> exists v, In v l /\ v < n.
  Proof.
    unfold has_pos. rewrite existsb_exists. intros [v [Hv Hl]]. exists v. split; auto.
    now apply Nat.ltb_lt.
  Qed.
  Lemma wfsb_wfs e : forall r, wfsb n r e = true -> wfs W r e.
  Proof.
    induction e; intros r H; cbn [wfsb wfs] in *; auto;
      repeat match goal with
             | H : _ && _ = true |- _ => apply andb_true_iff in H; destruct H
             end;
      repeat split; auto using inclb_incl, has_pos_spec.
  Qed.
  Lemma pre_okb_pre_ok e : pre_okb n e = true -> pre_ok W e.
  Proof.
    induction e; intros H; cbn [pre_okb pre_ok] in *; auto;
      repeat match goal with
             | H : _ && _ = true |- _ => apply andb_true_iff in H; destruct H
             end;
      repeat split; auto using wfsb_wfs, has_pos_spec.
  Qed.

  Theorem optimize_sound e c0 : x_refs c0 = [] -> okctx W c0 -> pre_ok W e ->
    den W c0 (optimize e) = den W c0 (rrc e).
  Proof.
    intros Hr Hc Hp. unfold optimize. apply run_passes_top; auto. now apply rrc_top_ok.
  Qed.
End Final.

Lemma rootedb_spec G : rootedb G = true ->
  forall x, x < length G -> x <> 0 -> parents G x <> [].
Proof.
  unfold rootedb. rewrite forallb_forall. intros H x Hx Hne.
  specialize (H x (proj2 (in_seq _ _ _) (conj (Nat.le_0_l _) Hx))).
  apply orb_true_iff in H. destruct H as [H|H].
  - apply Nat.eqb_eq in H. contradiction.
  - destruct (parents G x); [discriminate|discriminate].
Qed.

Lemma small_dec G : (N.of_nat (length G) <=? U32MAX)%N = true -> small G.
Proof. intros H. apply N.leb_le in H. exact H. Qed.
