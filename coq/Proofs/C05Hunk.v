(** C05, part 2: one conflict hunk. The hunk parsers invert the git-style printer and any
    sequence of jj-style sections (snapshot of a side, snapshot of a base, diff). *)
From Coq Require Import Lia.
From Verif Require Import Base.Prelude Gen.Tables Model.Conflicts Proofs.C05Lines.
Local Open Scope N_scope.

Section Hunk.
  Variable L : nat.
  Hypothesis HL : (2 <= L)%nat.
  Variable eol : bytes.
  Hypothesis Heol : valid_eol eol.

  Lemma HL1 : (1 <= L)%nat. Proof. lia. Qed.

  Definition mline (k : mkind) (lab : bytes) : bytes := write_marker k L lab ++ eol.

  Lemma mline_is_line k lab : ~ In LF lab -> is_line (mline k lab).
  Proof. intros H. apply marker_line_is_line; assumption. Qed.

  Lemma mline_parse k lab : parse_marker (mline k lab) L = Some k.
  Proof. apply parse_marker_line; [exact HL1|exact Heol]. Qed.

  Lemma lines_mline_app k lab x : ~ In LF lab -> lines (mline k lab ++ x) = mline k lab :: lines x.
  Proof.
    intros H. rewrite lines_app by (apply is_line_lc, mline_is_line, H).
    rewrite (lines_is_line _ (mline_is_line k lab H)). reflexivity.
  Qed.

  (* ---------------------------------------------------------------- git style *)

  Definition git_add (s : gstate) (l b r x : bytes) : gstate * bytes * bytes * bytes :=
    match s with
    | GLeft => (s, l ++ x, b, r)
    | GBase => (s, l, b ++ x, r)
    | GRight => (s, l, b, r ++ x)
    end.

  Lemma git_fold_dom ls : forall s l b r,
    Forall (dom L) ls ->
    fold_left (git_step L) ls (Some (s, l, b, r)) = Some (git_add s l b r (concat ls)).
  Proof.
    induction ls as [|x ls IH]; intros s l b r H.
    - cbn. destruct s; cbn; rewrite app_nil_r; reflexivity.
    - inversion H as [|? ? Hx Hls]; subst. cbn [fold_left concat].
      assert (E : git_step L (Some (s, l, b, r)) x = Some (git_add s l b r x)).
      { unfold git_step. rewrite (dom_parse_none L x Hx). destruct s; reflexivity. }
      rewrite E. destruct s; cbn [git_add]; rewrite IH by exact Hls; cbn [git_add];
        rewrite <- app_assoc; reflexivity.
  Qed.

  Definition git_body (tl_ tb_ tr_ lab : bytes) : bytes :=
    tl_ ++ mline KGitAnc lab ++ tb_ ++ mline KGitSep [] ++ tr_.

  Lemma not_in_nil : ~ In LF ([] : bytes). Proof. intros []. Qed.

  Lemma parse_git_body tl_ tb_ tr_ lab :
    ~ In LF lab -> lc tl_ -> lc tb_ ->
    dom_all L tl_ -> dom_all L tb_ -> dom_all L tr_ ->
    parse_git_hunk (git_body tl_ tb_ tr_ lab) L = [tl_; tb_; tr_].
  Proof.
    intros Hlab Hl Hb Dl Db Dr. unfold parse_git_hunk, git_body.
    rewrite fold_lines_app by exact Hl.
    unfold git_init; rewrite (git_fold_dom _ GLeft [] [] [] Dl). cbn [git_add app].
    rewrite lines_mline_app by exact Hlab. cbn [fold_left].
    assert (E1 : git_step L (Some (GLeft, concat (lines tl_), [], [])) (mline KGitAnc lab)
                 = Some (GBase, concat (lines tl_), [], [])).
    { unfold git_step. rewrite mline_parse. reflexivity. }
    rewrite E1. rewrite fold_lines_app by exact Hb.
    rewrite (git_fold_dom _ GBase _ [] [] Db). cbn [git_add app].
    rewrite lines_mline_app by exact not_in_nil. cbn [fold_left].
    assert (E2 : git_step L (Some (GBase, concat (lines tl_), concat (lines tb_), []))
                          (mline KGitSep [])
                 = Some (GRight, concat (lines tl_), concat (lines tb_), [])).
    { unfold git_step. rewrite mline_parse. reflexivity. }
    rewrite E2. rewrite (git_fold_dom _ GRight _ _ [] Dr). cbn [git_add app].
    rewrite !concat_lines. reflexivity.
  Qed.

  Lemma git_body_dispatch tl_ tb_ tr_ lab :
    ~ In LF lab -> lc tl_ -> dom_all L tl_ ->
    parse_conflict_hunk (git_body tl_ tb_ tr_ lab) L
    = parse_git_hunk (git_body tl_ tb_ tr_ lab) L.
  Proof.
    intros Hlab Hl Dl. unfold parse_conflict_hunk.
    assert (E : match lines (git_body tl_ tb_ tr_ lab) with
                | [] => None | l :: _ => parse_marker l L end = None
                \/ match lines (git_body tl_ tb_ tr_ lab) with
                   | [] => None | l :: _ => parse_marker l L end = Some KGitAnc).
    { unfold git_body. rewrite lines_app by exact Hl.
      rewrite lines_mline_app by exact Hlab.
      unfold dom_all in Dl. destruct (lines tl_) as [|x r].
      - right. cbn [app]. apply mline_parse.
      - left. cbn [app]. inversion Dl; subst. apply dom_parse_none. assumption. }
    destruct E as [-> | ->]; reflexivity.
  Qed.

  (* ---------------------------------------------------------------- jj style *)

  Lemma app_last_snoc l y x : app_last (l ++ [y]) x = l ++ [y ++ x].
  Proof.
    induction l as [|h t IH]; [reflexivity|].
    cbn [app]. assert (Hc : forall u, u <> [] -> app_last (h :: u) x = h :: app_last u x)
      by (intros [|? ?]; [congruence|reflexivity]).
    rewrite Hc by (destruct t; discriminate). rewrite IH. reflexivity.
  Qed.

  Lemma jj_fold_add ls : forall rs as_ y,
    Forall (dom L) ls ->
    fold_left (jj_step L) ls (Some (JAdd, rs, as_ ++ [y]))
    = Some (JAdd, rs, as_ ++ [y ++ concat ls]).
  Proof.
    induction ls as [|x ls IH]; intros rs as_ y H.
    - cbn. rewrite app_nil_r. reflexivity.
    - inversion H as [|? ? Hx Hls]; subst. cbn [fold_left concat].
      assert (E : jj_step L (Some (JAdd, rs, as_ ++ [y])) x = Some (JAdd, rs, as_ ++ [y ++ x])).
      { unfold jj_step. rewrite (dom_parse_none L x Hx), app_last_snoc. reflexivity. }
      rewrite E, IH by exact Hls. rewrite <- app_assoc. reflexivity.
  Qed.

  Lemma jj_fold_remove ls : forall rs as_ y,
    Forall (dom L) ls ->
    fold_left (jj_step L) ls (Some (JRemove, rs ++ [y], as_))
    = Some (JRemove, rs ++ [y ++ concat ls], as_).
  Proof.
    induction ls as [|x ls IH]; intros rs as_ y H.
    - cbn. rewrite app_nil_r. reflexivity.
    - inversion H as [|? ? Hx Hls]; subst. cbn [fold_left concat].
      assert (E : jj_step L (Some (JRemove, rs ++ [y], as_)) x
                  = Some (JRemove, rs ++ [y ++ x], as_)).
      { unfold jj_step. rewrite (dom_parse_none L x Hx), app_last_snoc. reflexivity. }
      rewrite E, IH by exact Hls. rewrite <- app_assoc. reflexivity.
  Qed.

  Lemma jj_fold_minus ls : forall rs as_ y z,
    Forall (dom L) ls ->
    fold_left (jj_step L) (map (cons 45) ls) (Some (JDiff, rs ++ [y], as_ ++ [z]))
    = Some (JDiff, rs ++ [y ++ concat ls], as_ ++ [z]).
  Proof.
    induction ls as [|x ls IH]; intros rs as_ y z H.
    - cbn. rewrite app_nil_r. reflexivity.
    - inversion H as [|? ? Hx Hls]; subst. cbn [map fold_left concat].
      assert (E : jj_step L (Some (JDiff, rs ++ [y], as_ ++ [z])) (45 :: x)
                  = Some (JDiff, rs ++ [y ++ x], as_ ++ [z])).
      { unfold jj_step. rewrite (dom_prefixed L 45 x HL Hx), app_last_snoc. reflexivity. }
      rewrite E, IH by exact Hls. rewrite <- app_assoc. reflexivity.
  Qed.

  Lemma jj_fold_plus ls : forall rs as_ y z,
    Forall (dom L) ls ->
    fold_left (jj_step L) (map (cons 43) ls) (Some (JDiff, rs ++ [y], as_ ++ [z]))
    = Some (JDiff, rs ++ [y], as_ ++ [z ++ concat ls]).
  Proof.
    induction ls as [|x ls IH]; intros rs as_ y z H.
    - cbn. rewrite app_nil_r. reflexivity.
    - inversion H as [|? ? Hx Hls]; subst. cbn [map fold_left concat].
      assert (E : jj_step L (Some (JDiff, rs ++ [y], as_ ++ [z])) (43 :: x)
                  = Some (JDiff, rs ++ [y], as_ ++ [z ++ x])).
      { unfold jj_step. rewrite (dom_prefixed L 43 x HL Hx), app_last_snoc. reflexivity. }
      rewrite E, IH by exact Hls. rewrite <- app_assoc. reflexivity.
  Qed.

  Lemma jj_fold_space ls : forall rs as_ y z,
    Forall (dom L) ls ->
    fold_left (jj_step L) (map (cons SP) ls) (Some (JDiff, rs ++ [y], as_ ++ [z]))
    = Some (JDiff, rs ++ [y ++ concat ls], as_ ++ [z ++ concat ls]).
  Proof.
    induction ls as [|x ls IH]; intros rs as_ y z H.
    - cbn. rewrite !app_nil_r. reflexivity.
    - inversion H as [|? ? Hx Hls]; subst. cbn [map fold_left concat].
      assert (E : jj_step L (Some (JDiff, rs ++ [y], as_ ++ [z])) (SP :: x)
                  = Some (JDiff, rs ++ [y ++ x], as_ ++ [z ++ x])).
      { unfold jj_step. rewrite (dom_prefixed L SP x HL Hx), !app_last_snoc. reflexivity. }
      rewrite E, IH by exact Hls. rewrite <- !app_assoc. reflexivity.
  Qed.

  Lemma prefixed_is_line p l : p <> LF -> is_line l -> is_line (p :: l).
  Proof.
    intros Hp [x [-> Hx]]. exists (p :: x). split; [reflexivity|].
    intros [H|H]; [congruence|auto].
  Qed.

  Lemma lines_prefix_lines p c :
    p <> LF -> lc c -> lines (prefix_lines p c) = map (cons p) (lines c).
  Proof.
    intros Hp Hc. unfold prefix_lines. apply lines_concat.
    apply Forall_map. eapply Forall_impl; [|apply lines_all_lines; exact Hc].
    intros l Hl. apply prefixed_is_line; assumption.
  Qed.

  Lemma lc_prefix_lines p c : p <> LF -> lc c -> lc (prefix_lines p c).
  Proof.
    intros Hp Hc. unfold prefix_lines. apply lc_concat.
    apply Forall_map. eapply Forall_impl; [|apply lines_all_lines; exact Hc].
    intros l Hl. apply is_line_lc, prefixed_is_line; assumption.
  Qed.

  (** What the parser appends to the current add for one diff hunk. *)
  Definition dadd (d : dhunk) : bytes := if d_matching d then d_left d else d_right d.
  Definition dhunk_ok (d : dhunk) : Prop :=
    lc (d_left d) /\ lc (d_right d) /\ dom_all L (d_left d) /\ dom_all L (d_right d).

  Lemma lc_write_diff_hunks ds : Forall dhunk_ok ds -> lc (write_diff_hunks ds).
  Proof.
    induction 1 as [|d ds [Hl [Hr _]] _ IH]; [exact lc_nil|].
    cbn [write_diff_hunks]. apply lc_app2; [|exact IH].
    destruct (d_matching d).
    - apply lc_prefix_lines; [discriminate|exact Hl].
    - apply lc_app2; apply lc_prefix_lines; try discriminate; assumption.
  Qed.

  Lemma jj_fold_diff_hunks ds : forall rs as_ y z,
    Forall dhunk_ok ds ->
    fold_left (jj_step L) (lines (write_diff_hunks ds)) (Some (JDiff, rs ++ [y], as_ ++ [z]))
    = Some (JDiff, rs ++ [y ++ concat (map d_left ds)], as_ ++ [z ++ concat (map dadd ds)]).
  Proof.
    induction ds as [|d ds IH]; intros rs as_ y z H.
    - cbn. rewrite !app_nil_r. reflexivity.
    - inversion H as [|? ? Hd Hds]; subst. destruct Hd as [Hl [Hr [Dl Dr]]].
      cbn [write_diff_hunks map concat]. unfold dadd at 1.
      destruct (d_matching d).
      + rewrite fold_lines_app by (apply lc_prefix_lines; [discriminate|exact Hl]).
        rewrite lines_prefix_lines by (try discriminate; exact Hl).
        rewrite jj_fold_space by exact Dl. rewrite concat_lines.
        rewrite IH by exact Hds. rewrite <- !app_assoc. reflexivity.
      + rewrite <- app_assoc.
        rewrite fold_lines_app by (apply lc_prefix_lines; [discriminate|exact Hl]).
        rewrite lines_prefix_lines by (try discriminate; exact Hl).
        rewrite jj_fold_minus by exact Dl. rewrite concat_lines.
        rewrite fold_lines_app by (apply lc_prefix_lines; [discriminate|exact Hr]).
        rewrite lines_prefix_lines by (try discriminate; exact Hr).
        rewrite jj_fold_plus by exact Dr. rewrite concat_lines.
        rewrite IH by exact Hds. rewrite <- !app_assoc. reflexivity.
  Qed.

  (** Sections of a jj-style hunk body. *)
  Inductive sec :=
  | SAdd (lab c : bytes)
  | SRem (lab c : bytes)
  | SDiff (lb la : bytes) (ds : list dhunk).

  Definition print_sec (s : sec) : bytes :=
    match s with
    | SAdd lab c => mline KAdd lab ++ c
    | SRem lab c => mline KRemove lab ++ c
    | SDiff lb la ds => mline KDiff lb ++ mline KNote la ++ write_diff_hunks ds
    end.
  Definition sec_rems (s : sec) : list bytes :=
    match s with
    | SAdd _ _ => []
    | SRem _ c => [c]
    | SDiff _ _ ds => [concat (map d_left ds)]
    end.
  Definition sec_adds (s : sec) : list bytes :=
    match s with
    | SAdd _ c => [c]
    | SRem _ _ => []
    | SDiff _ _ ds => [concat (map dadd ds)]
    end.
  Definition sec_ok (s : sec) : Prop :=
    match s with
    | SAdd lab c | SRem lab c => ~ In LF lab /\ lc c /\ dom_all L c
    | SDiff lb la ds => ~ In LF lb /\ ~ In LF la /\ Forall dhunk_ok ds
    end.
  Definition sec_state (s : sec) : jstate :=
    match s with SAdd _ _ => JAdd | SRem _ _ => JRemove | SDiff _ _ _ => JDiff end.

  Lemma lc_print_sec s : sec_ok s -> lc (print_sec s).
  Proof.
    destruct s as [lab c|lab c|lb la ds]; cbn [sec_ok print_sec].
    - intros [Hl [Hc _]]. apply lc_app2; [apply is_line_lc, mline_is_line, Hl|exact Hc].
    - intros [Hl [Hc _]]. apply lc_app2; [apply is_line_lc, mline_is_line, Hl|exact Hc].
    - intros [Hb [Ha Hds]]. apply lc_app2; [apply is_line_lc, mline_is_line, Hb|].
      apply lc_app2; [apply is_line_lc, mline_is_line, Ha|apply lc_write_diff_hunks, Hds].
  Qed.

  Lemma jj_fold_sec s st rs as_ :
    sec_ok s ->
    fold_left (jj_step L) (lines (print_sec s)) (Some (st, rs, as_))
    = Some (sec_state s, rs ++ sec_rems s, as_ ++ sec_adds s).
  Proof.
    destruct s as [lab c|lab c|lb la ds]; cbn [sec_ok print_sec sec_state sec_rems sec_adds].
    - intros [Hl [Hc Dc]]. rewrite lines_mline_app by exact Hl. cbn [fold_left].
      assert (E : jj_step L (Some (st, rs, as_)) (mline KAdd lab) = Some (JAdd, rs, as_ ++ [[]])).
      { unfold jj_step. rewrite mline_parse. reflexivity. }
      rewrite E, jj_fold_add by exact Dc. rewrite concat_lines, app_nil_r. reflexivity.
    - intros [Hl [Hc Dc]]. rewrite lines_mline_app by exact Hl. cbn [fold_left].
      assert (E : jj_step L (Some (st, rs, as_)) (mline KRemove lab)
                  = Some (JRemove, rs ++ [[]], as_)).
      { unfold jj_step. rewrite mline_parse. reflexivity. }
      rewrite E, jj_fold_remove by exact Dc. rewrite concat_lines, app_nil_r. reflexivity.
    - intros [Hb [Ha Hds]]. rewrite lines_mline_app by exact Hb.
      rewrite lines_mline_app by exact Ha. cbn [fold_left].
      assert (E1 : jj_step L (Some (st, rs, as_)) (mline KDiff lb)
                   = Some (JDiff, rs ++ [[]], as_ ++ [[]])).
      { unfold jj_step. rewrite mline_parse. reflexivity. }
      rewrite E1.
      assert (E2 : jj_step L (Some (JDiff, rs ++ [[]], as_ ++ [[]])) (mline KNote la)
                   = Some (JDiff, rs ++ [[]], as_ ++ [[]])).
      { unfold jj_step. rewrite mline_parse. reflexivity. }
      rewrite E2, jj_fold_diff_hunks by exact Hds. reflexivity.
  Qed.

  Definition print_secs (secs : list sec) : bytes := concat (map print_sec secs).

  Lemma lc_print_secs secs : Forall sec_ok secs -> lc (print_secs secs).
  Proof.
    intros H. unfold print_secs. apply lc_concat, Forall_map.
    eapply Forall_impl; [|exact H]. intros s. apply lc_print_sec.
  Qed.

  Lemma jj_fold_secs secs : forall st rs as_,
    Forall sec_ok secs ->
    exists st', fold_left (jj_step L) (lines (print_secs secs)) (Some (st, rs, as_))
                = Some (st', rs ++ flat_map sec_rems secs, as_ ++ flat_map sec_adds secs).
  Proof.
    induction secs as [|s secs IH]; intros st rs as_ H.
    - exists st. cbn. rewrite !app_nil_r. reflexivity.
    - inversion H as [|? ? Hs Hsecs]; subst. unfold print_secs. cbn [map concat flat_map].
      rewrite fold_lines_app by (apply lc_print_sec; exact Hs).
      rewrite jj_fold_sec by exact Hs.
      destruct (IH (sec_state s) (rs ++ sec_rems s) (as_ ++ sec_adds s) Hsecs) as [st' E].
      exists st'. unfold print_secs in E. rewrite E, <- !app_assoc. reflexivity.
  Qed.

  Lemma parse_jj_secs secs :
    Forall sec_ok secs ->
    length (flat_map sec_adds secs) = Datatypes.S (length (flat_map sec_rems secs)) ->
    parse_jj_hunk (print_secs secs) L
    = interleave (flat_map sec_adds secs) (flat_map sec_rems secs).
  Proof.
    intros H Hlen. unfold parse_jj_hunk.
    unfold jj_init; destruct (jj_fold_secs secs JUnknown [] [] H) as [st' E]; rewrite E. cbn [app].
    rewrite Hlen, Nat.eqb_refl. reflexivity.
  Qed.

  Definition sec_starts_jj (s : sec) : Prop :=
    match s with SAdd _ _ | SDiff _ _ _ => True | SRem _ _ => True end.

  Lemma jj_dispatch s secs :
    sec_ok s ->
    parse_conflict_hunk (print_secs (s :: secs)) L = parse_jj_hunk (print_secs (s :: secs)) L.
  Proof.
    intros Hs. unfold parse_conflict_hunk, print_secs. cbn [map concat].
    destruct s as [lab c|lab c|lb la ds]; cbn [sec_ok print_sec] in *.
    - destruct Hs as [Hl _]. rewrite <- !app_assoc, lines_mline_app by exact Hl.
      rewrite mline_parse. reflexivity.
    - destruct Hs as [Hl _]. rewrite <- !app_assoc, lines_mline_app by exact Hl.
      rewrite mline_parse. reflexivity.
    - destruct Hs as [Hl _]. rewrite <- !app_assoc, lines_mline_app by exact Hl.
      rewrite mline_parse. reflexivity.
  Qed.

  (** Every line of a section sequence is inert for the outer parser: it is not a
      conflict-start or conflict-end marker of length [>= L]. *)
  Definition inert (l : bytes) : Prop :=
    parse_marker l L <> Some KStart /\ parse_marker l L <> Some KEnd.

  Lemma dom_inert l : dom L l -> inert l.
  Proof. intros H. unfold inert. rewrite (dom_parse_none L l H). split; discriminate. Qed.

  Lemma mline_inert k lab : k <> KStart -> k <> KEnd -> inert (mline k lab).
  Proof. intros H1 H2. unfold inert. rewrite mline_parse. split; congruence. Qed.

  Lemma prefixed_inert p l : dom L l -> inert (p :: l).
  Proof. intros H. unfold inert. rewrite (dom_prefixed L p l HL H). split; discriminate. Qed.

  Lemma inert_content c : dom_all L c -> Forall inert (lines c).
  Proof. intros H. eapply Forall_impl; [|exact H]. apply dom_inert. Qed.

  Lemma inert_prefix_lines p c :
    p <> LF -> lc c -> dom_all L c -> Forall inert (lines (prefix_lines p c)).
  Proof.
    intros Hp Hc Dc. rewrite lines_prefix_lines by assumption.
    apply Forall_map. eapply Forall_impl; [|exact Dc]. intros l. apply prefixed_inert.
  Qed.

  Lemma inert_diff_hunks ds : Forall dhunk_ok ds -> Forall inert (lines (write_diff_hunks ds)).
  Proof.
    induction 1 as [|d ds [Hl [Hr [Dl Dr]]] Hds IH]; [constructor|].
    cbn [write_diff_hunks].
    assert (Hp : forall p c, p <> LF -> lc c -> dom_all L c ->
                 forall x, lc x -> Forall inert (lines x) -> Forall inert (lines (prefix_lines p c ++ x))).
    { intros p c Hp Hc Dc x Hx Ix. rewrite lines_app by (apply lc_prefix_lines; assumption).
      apply Forall_app. split; [apply inert_prefix_lines; assumption|exact Ix]. }
    destruct (d_matching d).
    - apply Hp; try assumption; try discriminate. apply lc_write_diff_hunks. exact Hds.
    - rewrite <- app_assoc. apply Hp; try assumption; try discriminate.
      + apply lc_app2; [apply lc_prefix_lines; [discriminate|assumption]|].
        apply lc_write_diff_hunks. exact Hds.
      + apply Hp; try assumption; try discriminate. apply lc_write_diff_hunks. exact Hds.
  Qed.

  Lemma inert_sec s : sec_ok s -> Forall inert (lines (print_sec s)).
  Proof.
    destruct s as [lab c|lab c|lb la ds]; cbn [sec_ok print_sec].
    - intros [Hl [Hc Dc]]. rewrite lines_mline_app by exact Hl.
      constructor; [apply mline_inert; discriminate|apply inert_content; exact Dc].
    - intros [Hl [Hc Dc]]. rewrite lines_mline_app by exact Hl.
      constructor; [apply mline_inert; discriminate|apply inert_content; exact Dc].
    - intros [Hb [Ha Hds]]. rewrite lines_mline_app by exact Hb.
      rewrite lines_mline_app by exact Ha.
      constructor; [apply mline_inert; discriminate|].
      constructor; [apply mline_inert; discriminate|apply inert_diff_hunks; exact Hds].
  Qed.

  Lemma inert_secs secs : Forall sec_ok secs -> Forall inert (lines (print_secs secs)).
  Proof.
    induction 1 as [|s secs Hs Hsecs IH]; [constructor|].
    unfold print_secs. cbn [map concat]. rewrite lines_app by (apply lc_print_sec; exact Hs).
    apply Forall_app. split; [apply inert_sec; exact Hs|exact IH].
  Qed.

  Lemma inert_git_body tl_ tb_ tr_ lab :
    ~ In LF lab -> lc tl_ -> lc tb_ ->
    dom_all L tl_ -> dom_all L tb_ -> dom_all L tr_ ->
    Forall inert (lines (git_body tl_ tb_ tr_ lab)).
  Proof.
    intros Hlab Hl Hb Dl Db Dr. unfold git_body.
    rewrite lines_app by exact Hl. apply Forall_app. split; [apply inert_content; exact Dl|].
    rewrite lines_mline_app by exact Hlab. constructor; [apply mline_inert; discriminate|].
    rewrite lines_app by exact Hb. apply Forall_app. split; [apply inert_content; exact Db|].
    rewrite lines_mline_app by exact not_in_nil.
    constructor; [apply mline_inert; discriminate|apply inert_content; exact Dr].
  Qed.

  Lemma lc_git_body tl_ tb_ tr_ lab :
    ~ In LF lab -> lc tr_ -> lc (git_body tl_ tb_ tr_ lab).
  Proof.
    intros Hlab Hr. unfold git_body.
    destruct tr_ as [|x r].
    - rewrite app_nil_r, !app_assoc. apply lc_app; [|apply is_line_nonempty, mline_is_line, not_in_nil].
      apply is_line_lc, mline_is_line, not_in_nil.
    - rewrite !app_assoc. apply lc_app; [exact Hr|discriminate].
  Qed.
End Hunk.
