(** Layer A, part 4: Matching hunks are equal under the comparison. Needs the matching
    function to return token-equal pairs, and concatenation congruence of the normalisers. *)
From Coq Require Import Lia Arith Sorted.
From Verif Require Import Base.Prelude Model.Diff Proofs.DiffBase Proofs.DiffA Proofs.DiffA2 Proofs.DiffA3.

(** * The normalisers are congruences for concatenation *)
Fixpoint end_ws (p : bool) (x : bytes) : bool :=
  match x with [] => p | b :: t => end_ws (is_ws b) t end.
Definition ends32 (l : bytes) : bool := (last l 0 =? 32)%N.
Definition drop32 (l : bytes) : bytes :=
  match l with b :: r => if (b =? 32)%N then r else l | [] => [] end.

Lemma is_ws_32 : is_ws 32 = true.
Proof. reflexivity. Qed.
Lemma not_ws_not_32 b : is_ws b = false -> (b =? 32)%N = false.
Proof. unfold is_ws. destruct (b =? 32)%N; cbn; [discriminate|reflexivity]. Qed.

Lemma amount_app x : forall p y,
  norm_ws_amount_go p (x ++ y) = norm_ws_amount_go p x ++ norm_ws_amount_go (end_ws p x) y.
Proof.
  induction x as [|b t IH]; intros p y; cbn [app norm_ws_amount_go end_ws]; [reflexivity|].
  destruct (is_ws b); [destruct p|]; cbn [app]; now rewrite IH.
Qed.

Lemma amount_true y : norm_ws_amount_go true y = drop32 (norm_ws_amount_go false y).
Proof.
  destruct y as [|b t]; cbn [norm_ws_amount_go drop32]; [reflexivity|].
  destruct (is_ws b) eqn:E; cbn [drop32].
  - reflexivity.
  - now rewrite (not_ws_not_32 b E).
Qed.

Lemma ends32_snoc pre b : ends32 (pre ++ [b]) = (b =? 32)%N.
Proof. unfold ends32. now rewrite last_last. Qed.

Lemma amount_end x : forall pre p, p = ends32 pre ->
  ends32 (pre ++ norm_ws_amount_go p x) = end_ws p x.
Proof.
  induction x as [|b t IH]; intros pre p Hp; cbn [norm_ws_amount_go end_ws].
  - now rewrite app_nil_r.
  - destruct (is_ws b) eqn:E.
    + destruct p.
      * now apply IH.
      * replace (pre ++ 32%N :: norm_ws_amount_go true t) with ((pre ++ [32%N]) ++ norm_ws_amount_go true t)
          by now rewrite <- app_assoc.
        apply IH. now rewrite ends32_snoc.
    + replace (pre ++ b :: norm_ws_amount_go false t) with ((pre ++ [b]) ++ norm_ws_amount_go false t)
        by now rewrite <- app_assoc.
      apply IH. rewrite ends32_snoc. symmetry. now apply not_ws_not_32.
Qed.

Lemma norm_app_cong c x0 x1 y0 y1 :
  norm c x1 = norm c x0 -> norm c y1 = norm c y0 -> norm c (x1 ++ y1) = norm c (x0 ++ y0).
Proof.
  destruct c; cbn [norm]; intros Hx Hy.
  - congruence.
  - unfold norm_ws_all in *. rewrite !filter_app. congruence.
  - unfold norm_ws_amount in *. rewrite !amount_app.
    rewrite <- (amount_end x1 [] false eq_refl), <- (amount_end x0 [] false eq_refl). cbn [app].
    rewrite Hx. destruct (ends32 (norm_ws_amount_go false x0)).
    + rewrite !amount_true. congruence.
    + congruence.
Qed.

Lemma norm_nil c : norm c [] = [].
Proof. destruct c; reflexivity. Qed.

(** * Regions whose slices agree under the comparison *)
Definition req (c : comparator) (inputs : list bytes) (r : region) : Prop :=
  match contents inputs r with
  | [] => True
  | x :: t => Forall (fun y => norm c y = norm c x) t
  end.

Lemma contents_merge : forall inputs a b,
  length a = length inputs -> length b = length inputs -> rwf a -> rwf b -> ends a = starts b ->
  contents inputs (merge_region a b) = map2 (@app N) (contents inputs a) (contents inputs b).
Proof.
  unfold contents, merge_region, rwf, vle, starts, ends.
  induction inputs as [|x inputs IH]; intros [|p a] [|q b] La Lb Wa Wb E; cbn in *; try discriminate;
    [reflexivity|].
  inversion Wa; subst. inversion Wb; subst. injection E as E1 E2. f_equal.
  - symmetry. rewrite E1 in *. apply slice_app; lia.
  - apply IH; auto.
Qed.

Lemma req_merge c inputs a b :
  length a = length inputs -> length b = length inputs -> rwf a -> rwf b -> ends a = starts b ->
  req c inputs a -> req c inputs b -> req c inputs (merge_region a b).
Proof.
  intros La Lb Wa Wb E Ra Rb. unfold req in *. rewrite contents_merge by assumption.
  assert (Lc : length (contents inputs a) = length (contents inputs b)).
  { unfold contents. rewrite !map2_length. lia. }
  destruct (contents inputs a) as [|xa ta], (contents inputs b) as [|xb tb]; cbn in Lc; try discriminate;
    cbn [map2]; [exact I|].
  injection Lc as Lc. revert tb Lc Rb. induction Ra as [|ya ta Hy Ra IH]; intros [|yb tb] Lc Rb;
    cbn in Lc; try discriminate; cbn [map2]; constructor.
  - inversion Rb; subst. now apply norm_app_cong.
  - inversion Rb; subst. apply IH; auto.
Qed.

(** Shifted inner regions denote the same slices. *)
Lemma contents_shift : forall inputs u cur r,
  length u = length inputs -> length cur = length inputs -> length r = length inputs ->
  rle u cur -> vle (ends r) (map2 (fun p q => fst q - snd p) u cur) ->
  contents inputs (shift_region u r) = contents (contents inputs (between u cur)) r.
Proof.
  unfold contents, shift_region, between, rle, vle, starts, ends.
  induction inputs as [|x inputs IH]; intros [|p u] [|q cur] [|a r] Lu Lc Lr W B;
    cbn [map map2 fst snd length] in *; try discriminate; [reflexivity|].
  inversion W; subst. inversion B; subst. f_equal.
  - rewrite slice_slice by lia. f_equal; lia.
  - apply IH; auto.
Qed.

Definition eq_matching (a b : list bytes) (l : list (nat * nat)) : Prop :=
  Forall (fun p => nth (fst p) a [] = nth (snd p) b []) l.

Section LayerA_eq.
  Variable M : list bytes -> list bytes -> list (nat * nat).
  Hypothesis M_valid : forall a b, valid_matching (length a) (length b) (M a b).
  Hypothesis M_eq : forall a b, eq_matching a b (M a b).

  Definition P (c : comparator) (inputs : list bytes) (r : region) : Prop :=
    length r = length inputs /\ rwf r /\ req c inputs r.

  Lemma P_merge c inputs a b :
    P c inputs a -> P c inputs b -> adjb a b = true -> P c inputs (merge_region a b).
  Proof.
    intros (La & Wa & Ra) (Lb & Wb & Rb) E. apply adjb_true_iff in E; [|lia].
    repeat split.
    - rewrite merge_length; lia.
    - apply merge_rwf; auto. unfold rle. rewrite E. apply vle_refl.
    - now apply req_merge.
  Qed.

  Lemma words_nth c x rs p : nth p (words c x rs) [] = norm c (slice x (fst (range_at rs p)) (snd (range_at rs p))).
  Proof.
    unfold words, range_at.
    rewrite <- (map_nth (fun r : nat * nat => norm c (slice x (fst r) (snd r))) rs (0, 0) p).
    cbn [fst snd]. now rewrite slice_same, norm_nil.
  Qed.

  (** Entries all of whose positions carry the base token. *)
  Definition entries_eq (bw : list bytes) (ows : list (list bytes)) (es : list entry) : Prop :=
    Forall (fun e => Forall2 (fun o ow => nth o ow [] = nth (fst e) bw []) (snd e) ows) es.

  Lemma intersect_eq bw ows ow cur new :
    entries_eq bw ows cur -> eq_matching bw ow new ->
    entries_eq bw (ows ++ [ow]) (intersect cur new).
  Proof.
    intros Hc Hn. apply Forall_forall. intros e He. apply intersect_in in He.
    destruct He as (os & no & A & B & C). unfold entries_eq, eq_matching in *.
    rewrite Forall_forall in Hc, Hn. specialize (Hc _ B). specialize (Hn _ C). cbn [fst snd] in *.
    rewrite A. apply Forall2_app; [assumption|]. constructor; [now symmetry|constructor].
  Qed.

  Lemma P_point c inputs (f : bytes -> nat) : P c inputs (map (fun x => (f x, f x)) inputs).
  Proof.
    repeat split.
    - now rewrite map_length.
    - unfold rwf, starts, ends. rewrite !map_map. cbn [fst snd]. apply vle_refl.
    - unfold req.
      assert (E : contents inputs (map (fun x => (f x, f x)) inputs) = map (fun _ => []) inputs).
      { unfold contents. induction inputs as [|x l IH]; cbn [map map2 fst snd]; [reflexivity|].
        now rewrite slice_same, IH. }
      rewrite E. clear E. destruct inputs as [|x l]; cbn [map]; [exact I|].
      induction l; cbn [map]; constructor; auto.
  Qed.

  Lemma req_tokens cmp base brs b (ranges_of : bytes -> list (nat * nat)) : forall others os,
    Forall2 (fun o ow => nth o ow [] = nth b (words cmp base brs) []) os
            (map (fun o => words cmp o (ranges_of o)) others) ->
    Forall (fun y => norm cmp y = norm cmp (slice base (fst (range_at brs b)) (snd (range_at brs b))))
           (map2 (fun (x : list N) (rg : nat * nat) => slice x (fst rg) (snd rg)) others
                 (map2 range_at (map ranges_of others) os)).
  Proof.
    induction others as [|o l IH]; intros os H; cbn [map map2] in *; inversion H; subst;
      cbn [map2]; constructor.
    - rewrite !words_nth in H3. exact H3.
    - now apply IH.
  Qed.

  Lemma diff_regions_P tok cmp inputs :
    inputs <> [] -> Forall (P cmp inputs) (diff_regions M tok cmp inputs).
  Proof.
    destruct inputs as [|base others]; [congruence|]. intros _. unfold diff_regions.
    set (any_empty := existsb is_nil (base :: others)).
    set (ranges_of := fun x : bytes => if any_empty then [] else tokenize tok x).
    assert (RW : forall x, ranges_from 0 (ranges_of x) (length x)).
    { intros x. unfold ranges_of. destruct any_empty; [cbn; lia|apply tokenize_wf]. }
    destruct others as [|first tail].
    - apply compact_Forall; [apply P_merge|]. constructor; [|constructor].
      repeat split. unfold rwf, starts, ends, vle. cbn. constructor; [lia|constructor].
      unfold req. cbn. constructor.
    - set (others := first :: tail) in *.
      set (bw := words cmp base (ranges_of base)).
      set (m_of := fun o => M bw (words cmp o (ranges_of o))).
      set (entries := fold_left _ tail _).
      set (nb := length (ranges_of base)).
      assert (Hm : forall o, valid_matching nb (length (ranges_of o)) (m_of o)).
      { intros o. unfold m_of, nb. rewrite <- (words_length cmp base), <- (words_length cmp o (ranges_of o)).
        apply M_valid. }
      assert (He : entries_ok nb (map (@length _) (map ranges_of others)) entries
                   /\ entries_eq bw (map (fun o => words cmp o (ranges_of o)) others) entries).
      { unfold entries, others.
        assert (Gn : forall tl done es,
                   entries_ok nb (map (@length _) (map ranges_of done)) es
                   /\ entries_eq bw (map (fun o => words cmp o (ranges_of o)) done) es ->
                   entries_ok nb (map (@length _) (map ranges_of (done ++ tl)))
                              (fold_left (fun cur o => intersect cur (m_of o)) tl es)
                   /\ entries_eq bw (map (fun o => words cmp o (ranges_of o)) (done ++ tl))
                              (fold_left (fun cur o => intersect cur (m_of o)) tl es)).
        { induction tl as [|o tl IH]; intros done es (H1 & H2); cbn [fold_left].
          - now rewrite app_nil_r.
          - replace (done ++ o :: tl) with ((done ++ [o]) ++ tl) by now rewrite <- app_assoc.
            apply IH. rewrite !map_app. cbn [map]. split.
            + apply intersect_ok; auto.
            + apply intersect_eq; auto. apply M_eq. }
        apply (Gn tail [first]). cbn [map]. split; [apply entries_ok_init; apply Hm|].
        unfold entries_eq. apply Forall_map. pose proof (M_eq bw (words cmp first (ranges_of first))) as Q.
        fold (m_of first) in Q. unfold eq_matching in Q. eapply Forall_impl; [|exact Q].
        intros p Hp. cbn [fst snd]. constructor; [now symmetry|constructor]. }
      destruct He as ((He1 & He2) & He3).
      assert (OW : Forall2 (fun rs len => ranges_from 0 rs len) (map ranges_of others)
                           (map (@length N) others)).
      { generalize others. intros l. induction l; cbn; constructor; auto. }
      apply compact_Forall; [apply P_merge|].
      cbn [app]. change (if any_empty then [] else tokenize tok base) with (ranges_of base).
      constructor; [|apply Forall_app; split].
      + (* start sentinel *)
        apply (P_point cmp (base :: others) (fun _ => 0)).
      + (* matched tokens *)
        apply Forall_map. apply Forall_forall. intros e Hin.
        unfold entries_eq in He3. rewrite Forall_forall in He1, He3. specialize (He1 e Hin). specialize (He3 e Hin).
        pose proof (rof_length (ranges_of base) (map ranges_of others) e He1) as RL.
        pose proof (rof_rwf (ranges_of base) (map ranges_of others) (length base) (map (@length N) others)
                            (RW base) OW e He1) as RWf.
        unfold rof in *. repeat split; auto.
        * rewrite RL. cbn [length]. now rewrite map_length.
        * unfold req, contents, region_of. cbn [map2 fst snd].
          apply req_tokens. exact He3.
      + (* end sentinel *)
        constructor; [|constructor]. apply (P_point cmp (base :: others) (@length N)).
  Qed.

  Lemma refine_go_P tok cmp inputs : inputs <> [] -> forall rest u,
    length u = length inputs -> rwf u -> chain_from u rest ->
    vle (ends (last rest u)) (lens_of inputs) -> Forall (P cmp inputs) rest ->
    Forall (P cmp inputs) (refine_go M tok cmp inputs u rest).
  Proof.
    intros Hne. induction rest as [|cur rest' IH]; intros u Lu Wu Hc Hb HP; cbn [refine_go]; [constructor|].
    destruct Hc as (H1 & H2 & H3). pose proof (rle_length _ _ H1) as L.
    rewrite last_cons_last in Hb. inversion HP as [|? ? Pc Pr]; subst.
    assert (Bc : vle (starts cur) (lens_of inputs)).
    { destruct (chain_from_bounds cur rest' H2 H3) as (_ & B).
      eapply vle_trans; [exact H2|]. eapply vle_trans; [exact B|exact Hb]. }
    set (ii := contents inputs (between u cur)).
    assert (Lii : length ii = length inputs).
    { unfold ii. apply contents_length. rewrite between_length; auto. }
    assert (Hii : ii <> []) by (destruct ii; [destruct inputs; [congruence|discriminate]|discriminate]).
    apply Forall_app. split; [|constructor; [assumption|apply IH; auto; lia]].
    pose proof (diff_regions_P tok cmp ii Hii) as IP.
    destruct (diff_regions_good M M_valid tok cmp ii Hii) as (S & _ & _).
    assert (Bd : Forall (fun r => vle (ends r) (lens_of ii)) (diff_regions M tok cmp ii)).
    { destruct (diff_regions M tok cmp ii) as [|a0 arest]; [constructor|].
      destruct S as (Wa & Ca & Sa & Ea). destruct (chain_from_bounds a0 arest Wa Ca) as (B1 & B2).
      rewrite Ea in *. constructor; [assumption|]. eapply Forall_impl; [|exact B1]. cbn. tauto. }
    apply Forall_map. rewrite Forall_forall in *. intros r Hr.
    destruct (IP r Hr) as (Lr & Wr & Rr). specialize (Bd r Hr).
    repeat split.
    - rewrite shift_length; lia.
    - apply shift_rwf; auto; lia.
    - unfold req. rewrite (contents_shift inputs u cur r); auto; try lia.
      unfold ii in Bd. rewrite contents_between_lens in Bd; auto; lia.
  Qed.

  Lemma refine_P tok cmp inputs l :
    inputs <> [] -> good inputs l -> Forall (P cmp inputs) l ->
    Forall (P cmp inputs) (refine M tok cmp inputs l).
  Proof.
    intros Hne (S & _ & _) HP. destruct l as [|u0 rest]; [constructor|]. unfold refine.
    destruct S as (W & C & Sx & E). inversion HP; subst.
    apply compact_Forall; [apply P_merge|]. constructor; [assumption|].
    apply refine_go_P; auto.
    - destruct H1; assumption.
    - rewrite E. apply vle_refl.
  Qed.

  Lemma run_steps_P c s inputs :
    inputs <> [] -> Forall (fun tc => snd tc = c) s ->
    Forall (P c inputs) (run_steps M s inputs).
  Proof.
    intros Hne Hs. destruct s as [|[t c0] rest]; [constructor|]. unfold run_steps.
    inversion Hs as [|? ? Hc0 Hrest]; subst. cbn [snd] in *.
    assert (H0 : good inputs (diff_regions M t c0 inputs) /\ Forall (P c0 inputs) (diff_regions M t c0 inputs))
      by (split; [now apply diff_regions_good|now apply diff_regions_P]).
    revert H0. generalize (diff_regions M t c0 inputs). induction rest as [|[t' c'] rest IH];
      intros l (Hg & Hl); cbn [fold_left fst snd]; [exact Hl|].
    inversion Hrest; subst. cbn [snd] in *. apply IH; auto. split.
    - apply refine_good; assumption.
    - apply refine_P; assumption.
  Qed.
End LayerA_eq.
